import LokiModel.C08.Sem
import LokiModel.Expr.SemLemmas
/-!
# C08: the integer reading `aval` / `bval` is the shared reference semantics `evalS (den ·)` on integer valuations

* `back`: whenever `aval`/`bval` gives a value, `evalS env (den t)` gives the same value (every tree);
* `fwd`: on a valuation without real-valued variables, for a tree without real literals whose n-ary nodes have at
  least two operands, every value of `evalS env (den t)` is the value given by `aval`/`bval`.
-/
namespace LokiModel.C08
open LokiModel.Expr LokiModel.C06

/-- the integer / logical part of a valuation of the shared layer -/
def envOf (env : Env) : IEnv :=
  ⟨fun x => match env.var x with | some (.int i) => some i | _ => none,
   fun x => match env.var x with | some (.bool b) => some b | _ => none⟩

/-- no variable has a real value -/
def IntEnv (env : Env) : Prop := ∀ x q, env.var x ≠ some (.real q)

theorem beq_cast (a b : Int) : ((a : Rat) == (b : Rat)) = (a == b) := by
  by_cases h : a = b
  · subst h; simp
  · have h2 : (a : Rat) ≠ (b : Rat) := fun e => h (Rat.intCast_inj.mp e)
    rw [beq_eq_false_iff_ne.mpr h, beq_eq_false_iff_ne.mpr h2]

theorem cmpRat_cast (o : CmpOp) (a b : Int) : Val.cmpRat o (a : Rat) (b : Rat) = cmpInt o a b := by
  cases o <;> simp [Val.cmpRat, cmpInt, Rat.intCast_lt_intCast, Rat.intCast_le_intCast, beq_cast, bne]

theorem evalS_denInt (env : Env) (n : Int) : evalS env (denInt n) = some (.int n) := by
  unfold denInt
  split
  · simp only [evalS, Option.bind_some, Val.neg]; congr 2; omega
  · simp only [evalS]; congr 2; omega

variable (env : Env)

def Back (t : E) : Prop :=
  (∀ i, aval (envOf env) t = some i → evalS env (den t) = some (.int i)) ∧
  (∀ b, bval (envOf env) t = some b → evalS env (den t) = some (.bool b))

theorem foldAdd_back (cs : List E) (h : ∀ c ∈ cs, Back env c) : ∀ acc a s, evalS env acc = some (.int a) →
    asum (envOf env) cs = some s → evalS env (denFold .add acc cs) = some (.int (a + s)) := by
  induction cs with
  | nil => intro acc a s ha hs; simp [asum] at hs; subst hs; rw [denFold]; simpa using ha
  | cons c cs ih =>
    intro acc a s ha hs
    rw [asum_cons] at hs
    obtain ⟨x, y, hx, hy, rfl⟩ := hs
    rw [denFold]
    have hc := (h c (by simp)).1 x hx
    have := ih (fun c' hc' => h c' (by simp [hc'])) (.add acc (den c)) (a + x) y
      (by simp [evalS, bin, ha, hc, Val.add, Val.arith]) hy
    rw [this]; congr 2; omega

theorem foldMul_back (cs : List E) (h : ∀ c ∈ cs, Back env c) : ∀ acc a s, evalS env acc = some (.int a) →
    aprod (envOf env) cs = some s → evalS env (denFold .mul acc cs) = some (.int (a * s)) := by
  induction cs with
  | nil => intro acc a s ha hs; simp [aprod] at hs; subst hs; rw [denFold]; simpa using ha
  | cons c cs ih =>
    intro acc a s ha hs
    rw [aprod_cons] at hs
    obtain ⟨x, y, hx, hy, rfl⟩ := hs
    rw [denFold]
    have hc := (h c (by simp)).1 x hx
    have := ih (fun c' hc' => h c' (by simp [hc'])) (.mul acc (den c)) (a * x) y
      (by simp [evalS, bin, ha, hc, Val.mul, Val.arith]) hy
    rw [this, Int.mul_assoc]

theorem ball_cons' {ρ : IEnv} {x : E} {xs : List E} {v : Bool} :
    ball ρ (x :: xs) = some v ↔ ∃ a b, bval ρ x = some a ∧ ball ρ xs = some b ∧ v = (a && b) := by
  rw [ball, o2_some]; constructor
  · rintro ⟨a, b, h1, h2, h3⟩; exact ⟨a, b, h1, h2, by simpa using h3.symm⟩
  · rintro ⟨a, b, h1, h2, h3⟩; exact ⟨a, b, h1, h2, by simp [h3]⟩

theorem bany_cons' {ρ : IEnv} {x : E} {xs : List E} {v : Bool} :
    bany ρ (x :: xs) = some v ↔ ∃ a b, bval ρ x = some a ∧ bany ρ xs = some b ∧ v = (a || b) := by
  rw [bany, o2_some]; constructor
  · rintro ⟨a, b, h1, h2, h3⟩; exact ⟨a, b, h1, h2, by simpa using h3.symm⟩
  · rintro ⟨a, b, h1, h2, h3⟩; exact ⟨a, b, h1, h2, by simp [h3]⟩

theorem foldAnd_back (cs : List E) (h : ∀ c ∈ cs, Back env c) : ∀ acc a s, evalS env acc = some (.bool a) →
    ball (envOf env) cs = some s → evalS env (denFold .and acc cs) = some (.bool (a && s)) := by
  induction cs with
  | nil => intro acc a s ha hs; simp [ball] at hs; subst hs; rw [denFold]; simpa using ha
  | cons c cs ih =>
    intro acc a s ha hs
    rw [ball_cons'] at hs
    obtain ⟨x, y, hx, hy, rfl⟩ := hs
    rw [denFold]
    have hc := (h c (by simp)).2 x hx
    have := ih (fun c' hc' => h c' (by simp [hc'])) (.and acc (den c)) (a && x) y
      (by simp [evalS, bin, ha, hc, Val.land]) hy
    rw [this, Bool.and_assoc]

theorem foldOr_back (cs : List E) (h : ∀ c ∈ cs, Back env c) : ∀ acc a s, evalS env acc = some (.bool a) →
    bany (envOf env) cs = some s → evalS env (denFold .or acc cs) = some (.bool (a || s)) := by
  induction cs with
  | nil => intro acc a s ha hs; simp [bany] at hs; subst hs; rw [denFold]; simpa using ha
  | cons c cs ih =>
    intro acc a s ha hs
    rw [bany_cons'] at hs
    obtain ⟨x, y, hx, hy, rfl⟩ := hs
    rw [denFold]
    have hc := (h c (by simp)).2 x hx
    have := ih (fun c' hc' => h c' (by simp [hc'])) (.or acc (den c)) (a || x) y
      (by simp [evalS, bin, ha, hc, Val.lor]) hy
    rw [this, Bool.or_assoc]

theorem back_sum (p : Bool) (xs : List E) (h : ∀ c ∈ xs, Back env c) : Back env (.sum p xs) := by
  refine ⟨?_, fun b hb => by simp [bval] at hb⟩
  intro i hi
  rw [aval_sum] at hi
  match xs, h with
  | [], _ => simp [asum] at hi; subst hi; rw [den]; simp [evalS]
  | x :: xs, h =>
    rw [asum_cons] at hi
    obtain ⟨a, s, ha, hs, rfl⟩ := hi
    rw [den]
    exact foldAdd_back env xs (fun c hc => h c (by simp [hc])) (den x) a s ((h x (by simp)).1 a ha) hs

theorem back_prod (p : Bool) (xs : List E) (h : ∀ c ∈ xs, Back env c) : Back env (.prod p xs) := by
  refine ⟨?_, fun b hb => by simp [bval] at hb⟩
  intro i hi
  rw [aval_prod] at hi
  match xs, h with
  | [], _ => simp [aprod] at hi; subst hi; rw [den]; simp [evalS]
  | x :: xs, h =>
    rw [aprod_cons] at hi
    obtain ⟨a, s, ha, hs, rfl⟩ := hi
    rw [den]
    exact foldMul_back env xs (fun c hc => h c (by simp [hc])) (den x) a s ((h x (by simp)).1 a ha) hs

theorem back_land (xs : List E) (h : ∀ c ∈ xs, Back env c) : Back env (.land xs) := by
  refine ⟨fun b hb => by simp [aval] at hb, ?_⟩
  intro i hi
  simp only [bval] at hi
  match xs, h with
  | [], _ => simp [ball] at hi; subst hi; rw [den]; simp [evalS]
  | x :: xs, h =>
    rw [ball_cons'] at hi
    obtain ⟨a, s, ha, hs, rfl⟩ := hi
    rw [den]
    exact foldAnd_back env xs (fun c hc => h c (by simp [hc])) (den x) a s ((h x (by simp)).2 a ha) hs

theorem back_lor (xs : List E) (h : ∀ c ∈ xs, Back env c) : Back env (.lor xs) := by
  refine ⟨fun b hb => by simp [aval] at hb, ?_⟩
  intro i hi
  simp only [bval] at hi
  match xs, h with
  | [], _ => simp [bany] at hi; subst hi; rw [den]; simp [evalS]
  | x :: xs, h =>
    rw [bany_cons'] at hi
    obtain ⟨a, s, ha, hs, rfl⟩ := hi
    rw [den]
    exact foldOr_back env xs (fun c hc => h c (by simp [hc])) (den x) a s ((h x (by simp)).2 a ha) hs

theorem back_all (t : E) : Back env t :=
  E.rec (motive_1 := Back env) (motive_2 := fun xs => ∀ c ∈ xs, Back env c)
    (fun n => ⟨fun i h => by simp only [aval, Option.some.injEq] at h; subst h; rw [den]; exact evalS_denInt env n,
               fun b h => by simp [bval] at h⟩)
    (fun t => ⟨fun i h => by simp [aval] at h, fun b h => by simp [bval] at h⟩)
    (fun b => ⟨fun i h => by simp [aval] at h,
               fun b' h => by simp only [bval, Option.some.injEq] at h; subst h; rw [den]; simp [evalS]⟩)
    (fun n => ⟨fun i h => by simp only [aval, Option.some.injEq] at h; subst h; rw [den]; exact evalS_denInt env n,
               fun b h => by simp [bval] at h⟩)
    (fun x => ⟨fun i h => by
                 simp only [aval, envOf] at h; rw [den]; simp only [evalS]
                 split at h <;> simp_all,
               fun b h => by
                 simp only [bval, envOf] at h; rw [den]; simp only [evalS]
                 split at h <;> simp_all⟩)
    (fun par xs h => back_sum env par xs h) (fun par xs h => back_prod env par xs h)
    (fun par a b ha hb => ⟨fun i h => by
        simp only [aval] at h; rw [o2_some] at h
        obtain ⟨x, y, hx, hy, h⟩ := h
        unfold idiv at h
        split at h
        · simp at h
        · rename_i hy0
          injection h with h; subst h
          rw [den]; simp [evalS, bin, ha.1 x hx, hb.1 y hy, Val.div, Val.arith, hy0],
      fun b' h => by simp [bval] at h⟩)
    (fun par a b ha hb => ⟨fun i h => by
        simp only [aval] at h; rw [o2_some] at h
        obtain ⟨x, y, hx, hy, h⟩ := h
        rw [den]; simp [evalS, bin, ha.1 x hx, hb.1 y hy, Val.pow, h],
      fun b' h => by simp [bval] at h⟩)
    (fun o a b ha hb => ⟨fun i h => by simp [aval] at h, fun b' h => by
        simp only [bval] at h; rw [o2_some] at h
        obtain ⟨x, y, hx, hy, h⟩ := h
        injection h with h; subst h
        rw [den]; simp [evalS, bin, ha.1 x hx, hb.1 y hy, Val.cmp, Val.toRat?, cmpRat_cast]⟩)
    (fun a ha => ⟨fun i h => by simp [aval] at h, fun b' h => by
        simp only [bval, Option.map_eq_some_iff] at h
        obtain ⟨w, hw, rfl⟩ := h
        rw [den]; simp [evalS, ha.2 w hw, Val.lnot]⟩)
    (fun xs h => back_land env xs h) (fun xs h => back_lor env xs h)
    (fun c hc => by cases hc)
    (fun hd tl hh ht c hc => by
      cases hc with
      | head => exact hh
      | tail _ h => exact ht c h) t


/-! ### forward direction -/

def Good (v : Val) (t : E) : Prop :=
  (∃ i, v = .int i ∧ aval (envOf env) t = some i) ∨ (∃ b, v = .bool b ∧ bval (envOf env) t = some b)

def Fwd (t : E) : Prop :=
  noRlit t = true → wf2 t = true → ∀ v, evalS env (den t) = some v → Good env v t

theorem bin_some {f : Val → Val → Option Val} {x y : Option Val} {v : Val} (h : bin f x y = some v) :
    ∃ a b, x = some a ∧ y = some b ∧ f a b = some v := by
  cases x <;> cases y <;> simp [bin] at h ⊢
  exact h

theorem good_not_real {v : Val} {t : E} (h : Good env v t) : ∀ q, v ≠ .real q := by
  intro q hq; subst hq
  rcases h with ⟨i, h, _⟩ | ⟨b, h, _⟩ <;> cases h

theorem add_inv {w cv w' : Val} (h : Val.add w cv = some w') (hw : ∀ q, w ≠ .real q) (hc : ∀ q, cv ≠ .real q) :
    ∃ a x, w = .int a ∧ cv = .int x ∧ w' = .int (a + x) := by
  cases w <;> cases cv <;> simp [Val.add, Val.arith] at h
  · exact ⟨_, _, rfl, rfl, h.symm⟩
  · exact absurd rfl (hc _)
  · exact absurd rfl (hw _)
  · exact absurd rfl (hw _)

theorem mul_inv {w cv w' : Val} (h : Val.mul w cv = some w') (hw : ∀ q, w ≠ .real q) (hc : ∀ q, cv ≠ .real q) :
    ∃ a x, w = .int a ∧ cv = .int x ∧ w' = .int (a * x) := by
  cases w <;> cases cv <;> simp [Val.mul, Val.arith] at h
  · exact ⟨_, _, rfl, rfl, h.symm⟩
  · exact absurd rfl (hc _)
  · exact absurd rfl (hw _)
  · exact absurd rfl (hw _)

theorem good_int {i : Int} {t : E} (h : Good env (.int i) t) : aval (envOf env) t = some i := by
  rcases h with ⟨j, h, h2⟩ | ⟨b, h, _⟩
  · injection h with h; subst h; exact h2
  · cases h

theorem good_bool {b : Bool} {t : E} (h : Good env (.bool b) t) : bval (envOf env) t = some b := by
  rcases h with ⟨j, h, _⟩ | ⟨c, h, h2⟩
  · cases h
  · injection h with h; subst h; exact h2

theorem foldAdd_fwd (cs : List E) (h : ∀ c ∈ cs, Fwd env c) (hr : noRlitL cs = true) (hw : wf2L cs = true) :
    ∀ acc v, (∀ q, evalS env acc ≠ some (.real q)) → evalS env (denFold .add acc cs) = some v →
      ∃ w, evalS env acc = some w ∧
        ((cs = [] ∧ v = w) ∨ ∃ a s, w = .int a ∧ asum (envOf env) cs = some s ∧ v = .int (a + s)) := by
  induction cs with
  | nil => intro acc v _ hv; rw [denFold] at hv; exact ⟨v, hv, Or.inl ⟨rfl, rfl⟩⟩
  | cons c cs ih =>
    intro acc v hacc hv
    rw [denFold] at hv
    simp only [noRlitL, wf2L, Bool.and_eq_true] at hr hw
    have hcF := h c (by simp) hr.1 hw.1
    have key : ∀ w', evalS env (.add acc (den c)) = some w' →
        ∃ a x, evalS env acc = some (.int a) ∧ aval (envOf env) c = some x ∧ w' = .int (a + x) := by
      intro w' hw'
      simp only [evalS] at hw'
      obtain ⟨w, cv, h1, h2, h3⟩ := bin_some hw'
      have g := hcF cv h2
      obtain ⟨a, x, rfl, rfl, rfl⟩ := add_inv h3 (fun q e => hacc q (by rw [h1, e])) (good_not_real env g)
      exact ⟨a, x, h1, good_int env g, rfl⟩
    obtain ⟨w', hw', hrest⟩ := ih (fun c' hc' => h c' (by simp [hc'])) hr.2 hw.2 (.add acc (den c)) v
      (by intro q hq; obtain ⟨a, x, _, _, e⟩ := key _ hq; cases e) hv
    obtain ⟨a, x, ha, hx, rfl⟩ := key w' hw'
    refine ⟨.int a, ha, Or.inr ?_⟩
    rcases hrest with ⟨rfl, rfl⟩ | ⟨a', s, e, hs, rfl⟩
    · exact ⟨a, x, rfl, by simp [asum_single, hx], rfl⟩
    · injection e with e; subst e
      exact ⟨a, x + s, rfl, by rw [asum_cons]; exact ⟨x, s, hx, hs, rfl⟩, by congr 1; omega⟩

theorem foldMul_fwd (cs : List E) (h : ∀ c ∈ cs, Fwd env c) (hr : noRlitL cs = true) (hw : wf2L cs = true) :
    ∀ acc v, (∀ q, evalS env acc ≠ some (.real q)) → evalS env (denFold .mul acc cs) = some v →
      ∃ w, evalS env acc = some w ∧
        ((cs = [] ∧ v = w) ∨ ∃ a s, w = .int a ∧ aprod (envOf env) cs = some s ∧ v = .int (a * s)) := by
  induction cs with
  | nil => intro acc v _ hv; rw [denFold] at hv; exact ⟨v, hv, Or.inl ⟨rfl, rfl⟩⟩
  | cons c cs ih =>
    intro acc v hacc hv
    rw [denFold] at hv
    simp only [noRlitL, wf2L, Bool.and_eq_true] at hr hw
    have hcF := h c (by simp) hr.1 hw.1
    have key : ∀ w', evalS env (.mul acc (den c)) = some w' →
        ∃ a x, evalS env acc = some (.int a) ∧ aval (envOf env) c = some x ∧ w' = .int (a * x) := by
      intro w' hw'
      simp only [evalS] at hw'
      obtain ⟨w, cv, h1, h2, h3⟩ := bin_some hw'
      have g := hcF cv h2
      obtain ⟨a, x, rfl, rfl, rfl⟩ := mul_inv h3 (fun q e => hacc q (by rw [h1, e])) (good_not_real env g)
      exact ⟨a, x, h1, good_int env g, rfl⟩
    obtain ⟨w', hw', hrest⟩ := ih (fun c' hc' => h c' (by simp [hc'])) hr.2 hw.2 (.mul acc (den c)) v
      (by intro q hq; obtain ⟨a, x, _, _, e⟩ := key _ hq; cases e) hv
    obtain ⟨a, x, ha, hx, rfl⟩ := key w' hw'
    refine ⟨.int a, ha, Or.inr ?_⟩
    rcases hrest with ⟨rfl, rfl⟩ | ⟨a', s, e, hs, rfl⟩
    · exact ⟨a, x, rfl, by simp [aprod_single, hx], rfl⟩
    · injection e with e; subst e
      exact ⟨a, x * s, rfl, by rw [aprod_cons]; exact ⟨x, s, hx, hs, rfl⟩, by rw [Int.mul_assoc]⟩

theorem land_inv {w cv w' : Val} (h : Val.land w cv = some w') : ∃ a x, w = .bool a ∧ cv = .bool x ∧ w' = .bool (a && x) := by
  cases w <;> cases cv <;> simp [Val.land] at h
  exact ⟨_, _, rfl, rfl, h.symm⟩
theorem lor_inv {w cv w' : Val} (h : Val.lor w cv = some w') : ∃ a x, w = .bool a ∧ cv = .bool x ∧ w' = .bool (a || x) := by
  cases w <;> cases cv <;> simp [Val.lor] at h
  exact ⟨_, _, rfl, rfl, h.symm⟩

theorem ball_single {ρ : IEnv} {x : E} : ball ρ [x] = bval ρ x := by
  cases h : bval ρ x <;> simp [ball, o2, h]
theorem bany_single {ρ : IEnv} {x : E} : bany ρ [x] = bval ρ x := by
  cases h : bval ρ x <;> simp [bany, o2, h]

theorem foldAnd_fwd (cs : List E) (h : ∀ c ∈ cs, Fwd env c) (hr : noRlitL cs = true) (hw : wf2L cs = true) :
    ∀ acc v, evalS env (denFold .and acc cs) = some v →
      ∃ w, evalS env acc = some w ∧
        ((cs = [] ∧ v = w) ∨ ∃ a s, w = .bool a ∧ ball (envOf env) cs = some s ∧ v = .bool (a && s)) := by
  induction cs with
  | nil => intro acc v hv; rw [denFold] at hv; exact ⟨v, hv, Or.inl ⟨rfl, rfl⟩⟩
  | cons c cs ih =>
    intro acc v hv
    rw [denFold] at hv
    simp only [noRlitL, wf2L, Bool.and_eq_true] at hr hw
    have hcF := h c (by simp) hr.1 hw.1
    obtain ⟨w', hw', hrest⟩ := ih (fun c' hc' => h c' (by simp [hc'])) hr.2 hw.2 (.and acc (den c)) v hv
    simp only [evalS] at hw'
    obtain ⟨w, cv, h1, h2, h3⟩ := bin_some hw'
    have g := hcF cv h2
    obtain ⟨a, x, rfl, rfl, rfl⟩ := land_inv h3
    have hx := good_bool env g
    refine ⟨.bool a, h1, Or.inr ?_⟩
    rcases hrest with ⟨rfl, rfl⟩ | ⟨a', s, e, hs, rfl⟩
    · exact ⟨a, x, rfl, by simp [ball_single, hx], rfl⟩
    · injection e with e; subst e
      exact ⟨a, x && s, rfl, by rw [ball_cons']; exact ⟨x, s, hx, hs, rfl⟩, by rw [Bool.and_assoc]⟩

theorem foldOr_fwd (cs : List E) (h : ∀ c ∈ cs, Fwd env c) (hr : noRlitL cs = true) (hw : wf2L cs = true) :
    ∀ acc v, evalS env (denFold .or acc cs) = some v →
      ∃ w, evalS env acc = some w ∧
        ((cs = [] ∧ v = w) ∨ ∃ a s, w = .bool a ∧ bany (envOf env) cs = some s ∧ v = .bool (a || s)) := by
  induction cs with
  | nil => intro acc v hv; rw [denFold] at hv; exact ⟨v, hv, Or.inl ⟨rfl, rfl⟩⟩
  | cons c cs ih =>
    intro acc v hv
    rw [denFold] at hv
    simp only [noRlitL, wf2L, Bool.and_eq_true] at hr hw
    have hcF := h c (by simp) hr.1 hw.1
    obtain ⟨w', hw', hrest⟩ := ih (fun c' hc' => h c' (by simp [hc'])) hr.2 hw.2 (.or acc (den c)) v hv
    simp only [evalS] at hw'
    obtain ⟨w, cv, h1, h2, h3⟩ := bin_some hw'
    have g := hcF cv h2
    obtain ⟨a, x, rfl, rfl, rfl⟩ := lor_inv h3
    have hx := good_bool env g
    refine ⟨.bool a, h1, Or.inr ?_⟩
    rcases hrest with ⟨rfl, rfl⟩ | ⟨a', s, e, hs, rfl⟩
    · exact ⟨a, x, rfl, by simp [bany_single, hx], rfl⟩
    · injection e with e; subst e
      exact ⟨a, x || s, rfl, by rw [bany_cons']; exact ⟨x, s, hx, hs, rfl⟩, by rw [Bool.or_assoc]⟩


theorem fwd_sum (p : Bool) (xs : List E) (h : ∀ c ∈ xs, Fwd env c) : Fwd env (.sum p xs) := by
  intro hr hw v hv
  match xs, h with
  | [], _ => simp [wf2] at hw
  | [x], _ => simp [wf2] at hw
  | x :: y :: r, h =>
    simp only [noRlit, noRlitL, wf2, wf2L, Bool.and_eq_true] at hr hw
    rw [den] at hv
    have gx := fun v hv => h x (by simp) hr.1 hw.2.1 v hv
    obtain ⟨w, hw', hrest⟩ := foldAdd_fwd env (y :: r) (fun c hc => h c (by simp [hc])) (by simp [noRlitL, hr.2])
      (by simp [wf2L, hw.2.2]) (den x) v (fun q hq => good_not_real env (gx _ hq) q rfl) hv
    rcases hrest with ⟨e, _⟩ | ⟨a, s, rfl, hs, rfl⟩
    · cases e
    · exact Or.inl ⟨_, rfl, by rw [aval_sum, asum_cons]; exact ⟨a, s, good_int env (gx _ hw'), hs, rfl⟩⟩

theorem fwd_prod (p : Bool) (xs : List E) (h : ∀ c ∈ xs, Fwd env c) : Fwd env (.prod p xs) := by
  intro hr hw v hv
  match xs, h with
  | [], _ => simp [wf2] at hw
  | [x], _ => simp [wf2] at hw
  | x :: y :: r, h =>
    simp only [noRlit, noRlitL, wf2, wf2L, Bool.and_eq_true] at hr hw
    rw [den] at hv
    have gx := fun v hv => h x (by simp) hr.1 hw.2.1 v hv
    obtain ⟨w, hw', hrest⟩ := foldMul_fwd env (y :: r) (fun c hc => h c (by simp [hc])) (by simp [noRlitL, hr.2])
      (by simp [wf2L, hw.2.2]) (den x) v (fun q hq => good_not_real env (gx _ hq) q rfl) hv
    rcases hrest with ⟨e, _⟩ | ⟨a, s, rfl, hs, rfl⟩
    · cases e
    · exact Or.inl ⟨_, rfl, by rw [aval_prod, aprod_cons]; exact ⟨a, s, good_int env (gx _ hw'), hs, rfl⟩⟩

theorem fwd_land (xs : List E) (h : ∀ c ∈ xs, Fwd env c) : Fwd env (.land xs) := by
  intro hr hw v hv
  match xs, h with
  | [], _ => simp [wf2] at hw
  | [x], _ => simp [wf2] at hw
  | x :: y :: r, h =>
    simp only [noRlit, noRlitL, wf2, wf2L, Bool.and_eq_true] at hr hw
    rw [den] at hv
    have gx := fun v hv => h x (by simp) hr.1 hw.2.1 v hv
    obtain ⟨w, hw', hrest⟩ := foldAnd_fwd env (y :: r) (fun c hc => h c (by simp [hc])) (by simp [noRlitL, hr.2])
      (by simp [wf2L, hw.2.2]) (den x) v hv
    rcases hrest with ⟨e, _⟩ | ⟨a, s, rfl, hs, rfl⟩
    · cases e
    · exact Or.inr ⟨_, rfl, by simp only [bval]; rw [ball_cons']; exact ⟨a, s, good_bool env (gx _ hw'), hs, rfl⟩⟩

theorem fwd_lor (xs : List E) (h : ∀ c ∈ xs, Fwd env c) : Fwd env (.lor xs) := by
  intro hr hw v hv
  match xs, h with
  | [], _ => simp [wf2] at hw
  | [x], _ => simp [wf2] at hw
  | x :: y :: r, h =>
    simp only [noRlit, noRlitL, wf2, wf2L, Bool.and_eq_true] at hr hw
    rw [den] at hv
    have gx := fun v hv => h x (by simp) hr.1 hw.2.1 v hv
    obtain ⟨w, hw', hrest⟩ := foldOr_fwd env (y :: r) (fun c hc => h c (by simp [hc])) (by simp [noRlitL, hr.2])
      (by simp [wf2L, hw.2.2]) (den x) v hv
    rcases hrest with ⟨e, _⟩ | ⟨a, s, rfl, hs, rfl⟩
    · cases e
    · exact Or.inr ⟨_, rfl, by simp only [bval]; rw [bany_cons']; exact ⟨a, s, good_bool env (gx _ hw'), hs, rfl⟩⟩

/-- two operand values that are `Good` are both integers whenever an arithmetic operation on them is defined -/
theorem good_cases {v : Val} {t : E} (g : Good env v t) :
    (∃ i, v = .int i ∧ aval (envOf env) t = some i) ∨ (∃ b, v = .bool b) := by
  rcases g with h | ⟨b, h, _⟩
  · exact Or.inl h
  · exact Or.inr ⟨b, h⟩

theorem fwd_all (hI : IntEnv env) (t : E) : Fwd env t :=
  E.rec (motive_1 := Fwd env) (motive_2 := fun xs => ∀ c ∈ xs, Fwd env c)
    (fun n _ _ v hv => by
      rw [den, evalS_denInt] at hv; injection hv with hv; subst hv
      exact Or.inl ⟨n, rfl, by simp [aval]⟩)
    (fun t hr => by simp [noRlit] at hr)
    (fun b _ _ v hv => by
      rw [den] at hv; simp only [evalS, Option.some.injEq] at hv; subst hv
      exact Or.inr ⟨b, rfl, by simp [bval]⟩)
    (fun n _ _ v hv => by
      rw [den, evalS_denInt] at hv; injection hv with hv; subst hv
      exact Or.inl ⟨n, rfl, by simp [aval]⟩)
    (fun x _ _ v hv => by
      rw [den] at hv; simp only [evalS] at hv
      cases v with
      | int i => exact Or.inl ⟨i, rfl, by simp [aval, envOf, hv]⟩
      | bool b => exact Or.inr ⟨b, rfl, by simp [bval, envOf, hv]⟩
      | real q => exact absurd hv (hI x q))
    (fun par xs h => fwd_sum env par xs h) (fun par xs h => fwd_prod env par xs h)
    (fun par a b ha hb hr hw v hv => by
      simp only [noRlit, wf2, Bool.and_eq_true] at hr hw
      rw [den] at hv; simp only [evalS] at hv
      obtain ⟨va, vb, h1, h2, h3⟩ := bin_some hv
      rcases good_cases env (ha hr.1 hw.1 va h1) with ⟨x, rfl, hx⟩ | ⟨_, rfl⟩
      · rcases good_cases env (hb hr.2 hw.2 vb h2) with ⟨y, rfl, hy⟩ | ⟨_, rfl⟩
        · simp only [Val.div, Val.arith] at h3
          split at h3
          · simp at h3
          · rename_i hy0
            simp only [Option.map_some, Option.some.injEq] at h3; subst h3
            exact Or.inl ⟨_, rfl, by simp [aval, hx, hy, o2, idiv, hy0]⟩
        · simp [Val.div, Val.arith] at h3
      · cases vb <;> simp [Val.div, Val.arith] at h3)
    (fun par a b ha hb hr hw v hv => by
      simp only [noRlit, wf2, Bool.and_eq_true] at hr hw
      rw [den] at hv; simp only [evalS] at hv
      obtain ⟨va, vb, h1, h2, h3⟩ := bin_some hv
      rcases good_cases env (ha hr.1 hw.1 va h1) with ⟨x, rfl, hx⟩ | ⟨_, rfl⟩
      · rcases good_cases env (hb hr.2 hw.2 vb h2) with ⟨y, rfl, hy⟩ | ⟨_, rfl⟩
        · simp only [Val.pow, Option.map_eq_some_iff] at h3
          obtain ⟨z, hz, rfl⟩ := h3
          exact Or.inl ⟨_, rfl, by simp [aval, hx, hy, o2, hz]⟩
        · simp [Val.pow] at h3
      · cases vb <;> simp [Val.pow] at h3)
    (fun o a b ha hb hr hw v hv => by
      simp only [noRlit, wf2, Bool.and_eq_true] at hr hw
      rw [den] at hv; simp only [evalS] at hv
      obtain ⟨va, vb, h1, h2, h3⟩ := bin_some hv
      rcases good_cases env (ha hr.1 hw.1 va h1) with ⟨x, rfl, hx⟩ | ⟨_, rfl⟩
      · rcases good_cases env (hb hr.2 hw.2 vb h2) with ⟨y, rfl, hy⟩ | ⟨_, rfl⟩
        · simp [Val.cmp, Val.toRat?, cmpRat_cast] at h3; subst h3
          exact Or.inr ⟨_, rfl, by simp [bval, hx, hy, o2]⟩
        · simp [Val.cmp, Val.toRat?] at h3
      · simp [Val.cmp, Val.toRat?] at h3)
    (fun a ha hr hw v hv => by
      simp only [noRlit, wf2] at hr hw
      rw [den] at hv; simp only [evalS, Option.bind_eq_some_iff] at hv
      obtain ⟨va, h1, h3⟩ := hv
      rcases ha hr hw va h1 with ⟨x, rfl, _⟩ | ⟨b, rfl, hb⟩
      · simp [Val.lnot] at h3
      · simp only [Val.lnot, Option.some.injEq] at h3; subst h3
        exact Or.inr ⟨_, rfl, by simp [bval, hb]⟩)
    (fun xs h => fwd_land env xs h) (fun xs h => fwd_lor env xs h)
    (fun c hc => by cases hc)
    (fun hd tl hh ht c hc => by
      cases hc with
      | head => exact hh
      | tail _ h => exact ht c h) t

end LokiModel.C08
