import LokiModel.C08.Model
import LokiModel.C06.Codec
import LokiModel.Generated.C08Tables
/-!
# C08: the string-dependent parts of `simplify` (for the driver) and the wire encoder of `E`

`LokiStringifyMapper` differs from `FCodeMapper` (modelled and checked token by token in C06 as `printF`) only in
the spelling of logical constants/operators and in `multiplicative_primitives` (`Product`, `Quotient` both force
parentheses around a denominator).  So

* the canonical string of `StrCompareMixin` (lower case, blanks removed) is equal for two trees iff the token lists
  `printL t 0` are equal after lower-casing identifiers and real-literal texts (`canon`);
* `str(t)` is the token list rendered with pymbolic's spacing (`strE`); Python compares strings by code point, as
  Lean's `String` order does.

These functions are *not* under a theorem; they are checked by the correspondence runs (`simplify` output under the
flag sets where re-entry / collection depend on them, and the `str` op).
-/
namespace LokiModel.C08
open LokiModel.Expr LokiModel.C06 Sexp
open LokiModel.C06 (paren parenIf isMinusOne isPyMinusOne termTok)

/-- `multiplicative_primitives` of pymbolic's `StringifyMapper` contains `Product` and `Quotient`: a plain product or
quotient as denominator is parenthesised -/
def forceDenL : E → Bool
  | .prod false _ => Tables.lokiMpProduct
  | .quot false _ _ => Tables.lokiMpQuotient
  | _ => false

/-! `printL` is `LokiStringifyMapper` (a copy of the C06 printer model as it was before `FCodeMapper` got its own
`map_power`; `FCodeMapper` only overrides spellings and `multiplicative_primitives`) -/
section
open Tables Tok
mutual
def printL : E → Nat → List Tok
  | .ilit n, _ => if n < 0 then [minus, num n.natAbs] else [num n.toNat]
  | .rlit t, _ => [rnum t]
  | .blit b, _ => [if b then tru else fls]
  | .pyint n, p => if n < 0 then parenIf (decide (p > LPREC_SUM)) [minus, num n.natAbs] else [num n.toNat]
  | .var s, _ => [id s]
  | .sum par xs, p =>
      if par then paren (printLTerms xs true) else parenIf (decide (p > LPREC_SUM)) (printLTerms xs true)
  -- `map_product`: the two-children `-1` case first
  | .prod par [c, x], p =>
      let body := if isMinusOne c then [minus] ++ printL x LPREC_PRODUCT
                  else printL c LPREC_PRODUCT ++ [star] ++ printL x LPREC_PRODUCT
      if par then paren body else parenIf (decide (p > LPREC_PRODUCT)) body
  | .prod par xs, p =>
      if par then paren (printLJoin star xs LPREC_PRODUCT true)
      else parenIf (decide (p > LPREC_PRODUCT)) (printLJoin star xs LPREC_PRODUCT true)
  | .quot par a b, p =>
      let body := printL a LPREC_PRODUCT ++ [slash] ++ parenIf (forceDenL b) (printL b LPREC_PRODUCT)
      if par then paren body else parenIf (decide (p > LPREC_PRODUCT)) body
  | .pow par a b, p =>
      let body := printL a LPREC_POWER ++ [Tok.pow] ++ printL b LPREC_POWER
      if par then paren body else parenIf (decide (p > LPREC_POWER)) body
  | .cmp o a b, p =>
      parenIf (decide (p > LPREC_COMPARISON)) (printL a LPREC_COMPARISON ++ [Tok.cmp o] ++ printL b LPREC_COMPARISON)
  | .lnot a, p => parenIf (decide (p > LPREC_UNARY)) ([Tok.not] ++ printL a LPREC_UNARY)
  | .land xs, p => parenIf (decide (p > LPREC_LOGICAL_AND)) (printLJoin Tok.and xs LPREC_LOGICAL_AND true)
  | .lor xs, p => parenIf (decide (p > LPREC_LOGICAL_OR)) (printLJoin Tok.or xs LPREC_LOGICAL_OR true)
/-- `join_rec(op, children, prec)` (no class is in the forced-parentheses tuple for the modelled node kinds) -/
def printLJoin (op : Tok) : List E → Nat → Bool → List Tok
  | [], _, _ => []
  | c :: cs, p, first => (if first then [] else [op]) ++ printL c p ++ printLJoin op cs p false
/-- `get_op_prec_expr` of `map_sum`: for a child `Product((-1, …))` (bare Python `-1`, not `ParenthesisedMul`)
the tokens of the rest printed at `LPREC_PRODUCT` (`children[1]` itself, or `Product(children[1:])`, which
goes through `map_product` again); `none` for every other child -/
def negPartL : E → Option (List Tok)
  | .prod false [m] => if isPyMinusOne m then some [] else none
  | .prod false [m, x] => if isPyMinusOne m then some (printL x LPREC_PRODUCT) else none
  | .prod false [m, c2, x2] =>
      if isPyMinusOne m then
        some (if isMinusOne c2 then [minus] ++ printL x2 LPREC_PRODUCT
              else printL c2 LPREC_PRODUCT ++ [star] ++ printL x2 LPREC_PRODUCT)
      else none
  | .prod false (m :: c2 :: x2 :: x3 :: rest) =>
      if isPyMinusOne m then some (printLTail star (m :: c2 :: x2 :: x3 :: rest) LPREC_PRODUCT) else none
  | _ => none
/-- `printJoin` of the tail of a list -/
def printLTail (op : Tok) : List E → Nat → List Tok
  | [], _ => []
  | _ :: cs, p => printLJoin op cs p true
/-- the term list of `map_sum`: `- <rest>` for minus-one products, `+ child` (printed at `LPREC_SUM`) otherwise;
the leading `+` is dropped. -/
def printLTerms : List E → Bool → List Tok
  | [], _ => []
  | c :: cs, first => termTok (negPartL c) (printL c LPREC_SUM) first ++ printLTerms cs false
end
end

def lowerTok : Tok → Tok
  | .id s => .id s.toLower
  | .rnum t => .rnum t.toLower
  | t => t

def canon (t : E) : List Tok := (printL t 0).map lowerTok

def sameClass : E → E → Bool
  | .sum _ _, .sum _ _ => true
  | .prod _ _, .prod _ _ => true
  | .quot _ _ _, .quot _ _ _ => true
  | .pow _ _ _, .pow _ _ _ => true
  | .var _, .var _ => true
  | .cmp _ _ _, .cmp _ _ _ => true
  | .lnot _, .lnot _ => true
  | .land _, .land _ => true
  | .lor _, .lor _ => true
  | .blit _, .blit _ => true
  | _, _ => false

/-- `new_expr != expr` where `new_expr` is a plain `Sum`/`Product`/`Quotient` or anything else and `expr` the node
being mapped: `StrCompareMixin.__eq__` compares canonical strings when `expr` is an instance of `type(new_expr)`,
otherwise pymbolic's structural equality answers `False` (different classes) -/
def pyNe (n e : E) : Bool :=
  match n, e with
  | .sum false _, .sum _ _ => canon n != canon e
  | .prod false _, .prod _ _ => canon n != canon e
  | .quot false _ _, .quot _ _ _ => canon n != canon e
  | _, _ => true

/-- `a == b` for two non-literal dict-key components -/
def elemEq (a b : E) : Bool :=
  match a, b with
  | .rlit s, .rlit t => s == t
  | _, _ => sameClass a b && canon a == canon b

def keyEqStr : List E → List E → Bool
  | [], [] => true
  | a :: as, b :: bs => elemEq a b && keyEqStr as bs
  | _, _ => false

def isOperandEnd : Tok → Bool
  | .num _ | .rnum _ | .id _ | .tru | .fls | .rp => true
  | _ => false

def cmpStr : CmpOp → String
  | .eq => "==" | .ne => "!=" | .lt => "<" | .le => "<=" | .gt => ">" | .ge => ">="

def renderToks : Bool → List Tok → String
  | _, [] => ""
  | prevEnd, t :: ts =>
    let s := match t with
      | .num n => toString n
      | .rnum x => x
      | .id x => x
      | .tru => "True"
      | .fls => "False"
      | .plus => " + "
      | .minus => if prevEnd then " - " else "-"
      | .star => "*"
      | .slash => " / "
      | .pow => "**"
      | .lp => "("
      | .rp => ")"
      | .cmp o => " " ++ cmpStr o ++ " "
      | .not => "not "
      | .and => " and "
      | .or => " or "
    s ++ renderToks (isOperandEnd t) ts

/-- `str(t)` -/
def strE (t : E) : String := renderToks false (printL t 0)

/-- `sorted(xs, key=str)` (stable) -/
def sortByStr (xs : List E) : List E := xs.mergeSort (fun a b => decide (strE a ≤ strE b))

/-- the instance of the string-dependent operations used by the driver -/
def kStr (strict : Bool) : K := ⟨pyNe, keyEqStr, sortByStr, strict⟩

mutual
def encE : E → Sexp
  | .ilit n => list [atom "ilit", ofInt n]
  | .rlit t => list [atom "rlit", str t]
  | .blit b => list [atom "blit", ofBool b]
  | .pyint n => list [atom "pyint", ofInt n]
  | .var s => list [atom "var", str s]
  | .sum par xs => list (atom "sum" :: ofBool par :: encEs xs)
  | .prod par xs => list (atom "prod" :: ofBool par :: encEs xs)
  | .quot par a b => list [atom "quot", ofBool par, encE a, encE b]
  | .pow par a b => list [atom "pow", ofBool par, encE a, encE b]
  | .cmp o a b => list [atom "cmp", atom (encCmp o), encE a, encE b]
  | .lnot a => list [atom "lnot", encE a]
  | .land xs => list (atom "land" :: encEs xs)
  | .lor xs => list (atom "lor" :: encEs xs)
def encEs : List E → List Sexp
  | [] => []
  | x :: xs => encE x :: encEs xs
end

end LokiModel.C08
