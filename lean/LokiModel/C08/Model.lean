import LokiModel.C06.Model
/-!
# C08 model: `loki/expression/symbolic.py` — `simplify` / `SimplifyMapper` and its helpers

Trees are `LokiModel.C06.E` (wire form shared with C06).  Every Python function is mirrored by one Lean
function with the same name in camelCase:

| Python | Lean |
|---|---|
| `is_minus_prefix`, `strip_minus_prefix` | `isMinusPrefix`, `stripMinus` |
| `pmbl.is_zero(x)` = `not bool(x)` (pymbolic `__bool__` of Sum / Product / Quotient, Loki literals) | `truthy` |
| `a * b` (pymbolic `__mul__` / `__rmul__`, used by `distribute_quotient`) | `pyMul` |
| `distribute_product` (queue loop, `_retval`) | `dpLoop`, `dpBuild`, `distributeProduct` |
| `distribute_quotient` | `distQ` / `dqLoop` |
| `flatten_expr` | `flattenLoop`, `flattenExpr` |
| `sum_literals` (`_process`) | `slProc` / `slTail`, `sumLiterals` |
| `separate_coefficients` (`_process`) | `scProc`, `sepCoeff` / `sepTail` |
| `mul_literals`, `div_literals` | `mulLiterals`, `divLiterals` |
| `accumulate_polynomial_terms`, `collect_coefficients` | `accumulate`, `collectCoefficients` |
| `SimplifyMapper.map_*` with the re-entry `if new_expr != expr: return self.rec(new_expr)` | `simp` |

Python `while queue:` loops and the re-entry are driven by fuel (`none` = fuel exhausted, or the Python code raises —
`IndexError` on empty products, `ZeroDivisionError` on `0/0` — or the step needs floating-point arithmetic, which is
outside the model).  Dicts are association lists in insertion order.  The comparison `new_expr != expr`
(`StrCompareMixin.__eq__`: canonical strings of `LokiStringifyMapper`) and the dict-key equality / `sorted(key=str)` of
`collect_coefficients` are *parameters* `K` of the model: the soundness theorems hold for every choice of the
re-entry test; the driver instantiates them with the string model of `Str.lean`.
`FloatingPointArithmetic` is not modelled (flag assumed off).  Core Lean only.
-/
namespace LokiModel.C08
open LokiModel.Expr LokiModel.C06

/-- the modelled subset of `Simplification` (FloatingPointArithmetic off) -/
structure Flags where
  flatten : Bool
  intA : Bool
  collect : Bool
  logic : Bool
deriving Repr, DecidableEq

/-- string-dependent Python operations, supplied by `Str.lean` for the driver; the soundness proofs are generic in
`ne`; `keyEq` needs the assumption stated in `Props/C08.lean` -/
structure K where
  /-- `new_expr != expr` -/
  ne : E → E → Bool
  /-- equality of two dict keys (tuples of expressions) -/
  keyEq : List E → List E → Bool
  /-- `sorted(components, key=str)` -/
  sortStr : List E → List E
  /-- `strict = false`: the code as it is.  `strict = true`: the same, except that the model stops (`none`) at the
  steps that are wrong for integer operands — `distribute_product` meeting a `Quotient` factor and
  `distribute_quotient` splitting a `Sum` / `Quotient` numerator (or returning `1` for an empty one; likewise
  `distribute_product` returning `1` for a product with an empty `Sum` factor) -/
  strict : Bool

/-- `is_minus_prefix`: a `Product` (also `ParenthesisedMul`) whose first child is the bare Python `-1` -/
def isMinusPrefix : E → Bool
  | .prod _ (c :: _) => isPyMinusOne c
  | _ => false

/-- `strip_minus_prefix` (on a minus-prefixed product) -/
def stripTail : List E → E
  | [x] => x
  | rest => .prod false rest

def stripMinus : E → E
  | .prod _ (_ :: rest) => stripTail rest
  | e => e

mutual
/-- Python truthiness of a node (`pmbl.is_zero(x)` is `not bool(x)`) -/
def truthy : E → Bool
  | .ilit n => n != 0
  | .pyint n => n != 0
  | .blit b => b
  | .prod _ xs => allTruthy xs
  | .sum _ [x] => truthy x
  | .sum _ _ => true
  | .quot _ a _ => truthy a
  | _ => true
def allTruthy : List E → Bool
  | [] => true
  | x :: xs => truthy x && allTruthy xs
end

/-- `b == 1` for the bare Python int (`is_zero(other - 1)` is true for nothing else) -/
def isPyOne : E → Bool
  | .pyint n => n == 1
  | _ => false

/-- `a * b` as pymbolic evaluates it (`Expression.__mul__`, `Product.__mul__`, `__rmul__`) -/
def pyMul (a b : E) : E :=
  match a with
  | .pyint m =>
    match b with
    | .pyint n => .pyint (m * n)
    | .prod _ ys => if m == 0 then .pyint 0 else if m == 1 then b else .prod false (.pyint m :: ys)
    | _ => if m == 1 then b else if m == 0 then .pyint 0 else .prod false [.pyint m, b]
  | .prod _ xs =>
    match b with
    | .prod _ ys => .prod false (xs ++ ys)
    | _ => if !truthy b then .pyint 0 else if isPyOne b then a else .prod false (xs ++ [b])
  | _ =>
    if isPyOne b then a else if !truthy b then .pyint 0 else .prod false [a, b]

/-! ### distribute_product -/

def isIntOne : E → Bool
  | .ilit n => n == 1
  | _ => false

/-- the `while queue:` loop: returns `(denominator, done)` -/
def dpLoop (st : Bool) : Nat → List E → List E → List (List E) → Option (List E × List (List E))
  | 0, _, _, _ => none
  | _ + 1, [], den, done => some (den, done)
  | f + 1, item :: q, den, done =>
    if isIntOne item then dpLoop st f q den done else
    match item with
    | .prod _ cs => dpLoop st f (cs ++ q) den done
    | .quot _ a b => if st then none else dpLoop st f (a :: q) (den ++ [b]) done
    | .sum _ cs => dpLoop st f q den (cs.flatMap fun c => done.map (· ++ [c]))
    | _ => dpLoop st f q den (done.map (· ++ [item]))

/-- one entry of `done` → one summand: drop the `-1`s, keep the sign -/
def dpComponent (comps : List E) : E :=
  let neg := (comps.filter isMinusOne).length % 2 == 1
  let rest := comps.filter (fun v => !isMinusOne v)
  let body := match rest with
    | [] => .ilit 1
    | [x] => x
    | _ => .prod false rest
  if neg then .prod false [.pyint (-1), body] else body

def dpRetval (num : E) : List E → E
  | [] => num
  | [d] => .quot false num d
  | ds => .quot false num (.prod false ds)

def dpBuild (den : List E) (done : List (List E)) : E :=
  match done with
  | [] => dpRetval (.ilit 1) den
  | _ =>
    match done.map dpComponent with
    | [c] => dpRetval c den
    | cs => dpRetval (.sum false cs) den

def distributeProduct (st : Bool) (f : Nat) : E → Option E
  | .prod _ cs => do
      let r ← dpLoop st f cs [] [[]]
      -- an empty `done` (a factor `Sum(())`) makes the code return `1`: the strict model stops there too
      if st && r.2.isEmpty then none else pure (dpBuild r.1 r.2)
  | e => some e

/-! ### distribute_quotient -/

def isIntZero : E → Bool
  | .ilit n => n == 0
  | _ => false

mutual
def distQ (st : Bool) : Nat → E → Option E
  | 0, _ => none
  | f + 1, e =>
    match e with
    | .quot _ num den =>
      if isMinusPrefix num then do
        let r ← distQ st f (.quot false (stripMinus num) den)
        pure (.prod false [.pyint (-1), r])
      else if isMinusPrefix den then do
        let r ← distQ st f (.quot false num (stripMinus den))
        pure (.prod false [.pyint (-1), r])
      else do
        let done ← dqLoop st f den [num] []
        match done with
        | [] => if st then none else pure (.ilit 1)
        | [d] => pure d
        | ds => pure (.sum false ds)
    | _ => some e
def dqLoop (st : Bool) : Nat → E → List E → List E → Option (List E)
  | 0, _, _, _ => none
  | _ + 1, _, [], done => some done
  | f + 1, den, item :: q, done =>
    if isIntZero item then dqLoop st f den q done else
    match item with
    | .sum _ cs => if st then none else dqLoop st f den (cs ++ q) done
    | .quot _ a b => if st then none else do
        let r ← distQ st f (.quot false a (pyMul b den))
        dqLoop st f den q (done ++ [r])
    | _ => dqLoop st f den q (done ++ [.quot false item den])
end

/-! ### flatten_expr -/

def isProd : E → Bool
  | .prod _ _ => true
  | _ => false
def isQuot : E → Bool
  | .quot _ _ _ => true
  | _ => false

/-- `if flag: e = g(e)` -/
def optIf (b : Bool) (g : E → Option E) (e : E) : Option E := if b then g e else some e

def flattenLoop (st : Bool) : Nat → List E → List E → Option (List E)
  | 0, _, _ => none
  | _ + 1, [], done => some done
  | f + 1, item :: q, done =>
    if !truthy item then flattenLoop st f q done else
      (optIf (isProd item) (distributeProduct st f) item).bind fun i1 =>
      (optIf (isQuot i1) (distQ st f) i1).bind fun i2 =>
      match i2 with
      | .sum _ cs => flattenLoop st f (cs ++ q) done
      | _ => flattenLoop st f q (done ++ [i2])

def flattenExpr (st : Bool) (f : Nat) (e : E) : Option E := do
  let done ← flattenLoop st f [e] []
  match done with
  | [] => pure (.ilit 0)
  | [d] => pure d
  | ds => pure (.sum false ds)

/-! ### sum_literals -/

/-- `_process(child)` of `sum_literals`: `(value, remaining child)` -/
def slProc : Nat → E → Option (Int × Option E)
  | 0, _ => none
  | f + 1, e =>
    match e with
    | .ilit n => some (n, none)
    | _ =>
      if isMinusPrefix e then do
        let r ← slProc f (stripMinus e)
        if r.1 != 0 then pure (-r.1, r.2) else pure (0, some e)
      else some (0, some e)

def mapOpt {α β : Type} (g : α → Option β) : List α → Option (List β)
  | [] => some []
  | x :: xs => do
      let y ← g x
      let ys ← mapOpt g xs
      pure (y :: ys)

def sumInts : List Int → Int
  | [] => 0
  | x :: xs => x + sumInts xs

def sumLiterals (f : Nat) : E → Option E
  | .sum _ [] => none          -- `transformed_components[0]` raises IndexError
  | .sum _ cs => do
    let ps ← mapOpt (slProc f) cs
    let value := sumInts (ps.map (·.1))
    let remaining := ps.filterMap (·.2)
    let remaining := if value != 0 then .ilit value :: remaining else remaining
    match remaining with
    | [] => pure (.ilit 0)
    | [x] => pure x
    | xs => pure (.sum false xs)
  | e => some e

/-! ### separate_coefficients / mul_literals / div_literals -/

/-- `_process(child)` of `separate_coefficients`: a minus-prefixed factor is processed through
`strip_minus_prefix(child)` (since the `fix:` commit; before it only `children[1]` was looked at) -/
def scProc : Nat → E → Option (Int × Option E)
  | 0, _ => none
  | f + 1, e =>
    match e with
    | .pyint n => some (n, none)
    | .ilit n => some (n, none)
    | _ =>
      if isMinusPrefix e then do
        let r ← scProc f (stripMinus e)
        pure (-r.1, r.2)
      else some (1, some e)

def prodInts : List Int → Int
  | [] => 1
  | x :: xs => x * prodInts xs

def sepCoeff : Nat → E → Option (Int × List E)
  | 0, _ => none
  | f + 1, e =>
    match e with
    | .ilit n => some (n, [])
    | .prod _ cs =>
      if isMinusPrefix e then do
        let r ← sepCoeff f (stripMinus e)
        pure (-r.1, r.2)
      else
        match cs with
        | [] => none             -- `transformed_components[0]` raises IndexError
        | _ => do
          let ps ← mapOpt (scProc f) cs
          pure (prodInts (ps.map (·.1)), ps.filterMap (·.2))
    | _ => some (1, [e])

/-- the tail of `mul_literals` after `separate_coefficients` -/
def mulBuild (value : Int) (remaining : List E) : E :=
  if value == 0 then .ilit 0 else
  let remaining := if value.natAbs != 1 then .ilit value.natAbs :: remaining else remaining
  let ret := match remaining with
    | [] => .ilit 1
    | [x] => x
    | xs => .prod false xs
  if value < 0 then .prod false [.pyint (-1), ret] else ret

def mulLiterals (f : Nat) (e : E) : Option E :=
  if isProd e then do
    let r ← sepCoeff f e
    pure (mulBuild r.1 r.2)
  else some e

def isRlit : E → Bool
  | .rlit _ => true
  | _ => false

def divRet (num : E) (d : Int) : E :=
  if d == 1 then num else .quot false num (.ilit d)

/-- `div_literals` (fp_arithmetic off); `//` by the gcd is exact integer division -/
def divLiterals : Nat → E → Option E
  | 0, _ => none
  | f + 1, e =>
    match e with
    | .quot _ num den =>
      if isMinusPrefix num then do
        let r ← divLiterals f (.quot false (stripMinus num) den)
        pure (.prod false [.pyint (-1), r])
      else if isMinusPrefix den then do
        let r ← divLiterals f (.quot false num (stripMinus den))
        pure (.prod false [.pyint (-1), r])
      else if isRlit num || isRlit den then some e
      else
        match den with
        | .ilit d =>
          match num with
          | .ilit n =>
            let g : Int := Int.gcd n d
            if g == 0 then none else           -- 0/0: ZeroDivisionError
            some (divRet (.ilit (n / g)) (d / g))
          | .prod _ _ => do
            let r ← sepCoeff f num
            let g : Int := Int.gcd r.1 d
            if g == 0 then none else do
            let m ← mulLiterals f (.prod false (.ilit (r.1 / g) :: r.2))
            pure (divRet m (d / g))
          | _ => some (divRet num d)
        | _ => some e
    | _ => some e

/-! ### accumulate_polynomial_terms / collect_coefficients -/

/-- dictionary key: `none` is the key `1` (constant part), `some base` a tuple of expressions -/
abbrev Key := Option (List E)

def keyMatch (k : K) : Key → Key → Bool
  | none, none => true
  | some a, some b => k.keyEq a b
  | _, _ => false

/-- `summands[key] += v` on an insertion-ordered association list -/
def dictAdd (k : K) (key : Key) (v : Int) : List (Key × Int) → List (Key × Int)
  | [] => [(key, v)]
  | (k', w) :: rest => if keyMatch k k' key then (k', w + v) :: rest else (k', w) :: dictAdd k key v rest

def accumulate (k : K) (f : Nat) : List E → List (Key × Int) → Option (List (Key × Int))
  | [], d => some d
  | item :: items, d =>
    match item with
    | .prod _ _ => do
        let r ← sepCoeff f item
        if r.1 == 0 then accumulate k f items d
        else match r.2 with
          | [] => accumulate k f items (dictAdd k none r.1 d)
          | rem => accumulate k f items (dictAdd k (some (k.sortStr rem)) r.1 d)
    | .pyint n => accumulate k f items (dictAdd k none n d)
    | .ilit n => accumulate k f items (dictAdd k none n d)
    | _ => accumulate k f items (dictAdd k (some [item]) 1 d)

def getCoefficient (v : Int) : List E :=
  if v == 1 then [] else if v == -1 then [.pyint (-1)]
  else if v < 0 then [.pyint (-1), .ilit v.natAbs] else [.ilit v.natAbs]

def ccConstant : List (Key × Int) → Int
  | [] => 0
  | (none, v) :: _ => v
  | _ :: rest => ccConstant rest

def ccTerms : List (Key × Int) → List E
  | [] => []
  | (none, _) :: rest => ccTerms rest
  | (some base, v) :: rest =>
    if v == 0 then ccTerms rest
    else match base with
      | [b] => (if v == 1 then b else .prod false (getCoefficient v ++ base)) :: ccTerms rest
      | _ => .prod false (getCoefficient v ++ base) :: ccTerms rest

def collectCoefficients (k : K) (f : Nat) (e : E) : Option E := do
  let comps := match e with
    | .sum _ cs => cs
    | _ => [e]
  let d ← accumulate k f comps []
  let c := ccConstant d
  let cpart : List E := if c < 0 then [.prod false [.pyint (-1), .ilit c.natAbs]] else if c > 0 then [.ilit c] else []
  match cpart ++ ccTerms d with
  | [] => pure (.ilit 0)
  | [x] => pure x
  | xs => pure (.sum false xs)

/-! ### SimplifyMapper -/

/-- `is_constant` -/
def isConstant : Nat → E → Option Bool
  | 0, _ => none
  | f + 1, e =>
    if isMinusPrefix e then isConstant f (stripMinus e)
    else match e with
      | .pyint _ => some true
      | .ilit _ => some true
      | _ => some false

/-- `get_constant_value`: recursive through minus prefixes like `is_constant`; an `IntLiteral` gives its value, a
bare Python int itself (`none`: not a constant — unreachable behind `is_constant`) -/
def getConstantValue : Nat → E → Option Int
  | 0, _ => none
  | f + 1, e =>
    if isMinusPrefix e then (getConstantValue f (stripMinus e)).map (fun v => -1 * v)
    else match e with
      | .ilit n => some n
      | .pyint n => some n
      | _ => none

def cmpInt (o : CmpOp) (a b : Int) : Bool :=
  match o with
  | .eq => a == b | .ne => a != b | .lt => a < b | .le => a ≤ b | .gt => b < a | .ge => b ≤ a

def isTrue : E → Bool
  | .blit b => b
  | _ => false
def isFalse : E → Bool
  | .blit b => !b
  | _ => false

def simp (k : K) (fl : Flags) : Nat → E → Option E
  | 0, _ => none
  | f + 1, t =>
    match t with
    | .sum _ xs =>
        (mapOpt (simp k fl f) xs).bind fun cs =>
        (optIf fl.flatten (flattenExpr k.strict f) (E.sum false cs)).bind fun n1 =>
        (optIf fl.intA (sumLiterals f) n1).bind fun n2 =>
        (optIf fl.collect (collectCoefficients k f) n2).bind fun n3 =>
        if k.ne n3 t then simp k fl f n3 else some t
    | .prod _ xs =>
        (mapOpt (simp k fl f) xs).bind fun cs =>
        (optIf fl.flatten (flattenExpr k.strict f) (E.prod false cs)).bind fun n1 =>
        (optIf fl.intA (mulLiterals f) n1).bind fun n2 =>
        if k.ne n2 t then simp k fl f n2 else some t
    | .quot _ a b =>
        (simp k fl f a).bind fun a' =>
        (simp k fl f b).bind fun b' =>
        (optIf fl.flatten (flattenExpr k.strict f) (E.quot false a' b')).bind fun n1 =>
        (optIf fl.intA (divLiterals f) n1).bind fun n2 =>
        if k.ne n2 t then simp k fl f n2 else some t
    | .pow true a b => do
        let a' ← simp k fl f a
        let b' ← simp k fl f b
        pure (.pow true a' b')
    | .pow false a b => do
        let a' ← simp k fl f a
        let b' ← simp k fl f b
        if fl.intA then
          if isRlit a' || isRlit b' then none      -- float arithmetic: outside the model
          else match a', b' with
            | .ilit 1, _ => pure a'
            | _, .ilit e =>
              if e == 0 then pure (.ilit 1)
              else if e == 1 then pure a'
              else match a' with
                | .ilit bv => if e > 0 then pure (.ilit (bv ^ e.toNat)) else pure (.pow false a' b')
                | _ => pure (.pow false a' b')
            | _, _ => pure (.pow false a' b')
        else pure (.pow false a' b')
    | .cmp o a b => do
        let a' ← simp k fl f a
        let b' ← simp k fl f b
        if fl.logic then do
          let ca ← isConstant f a'
          let cb ← isConstant f b'
          if ca && cb then do
            let x ← getConstantValue f a'
            let y ← getConstantValue f b'
            pure (.blit (cmpInt o x y))
          else pure (.cmp o a' b')
        else pure (.cmp o a' b')
    | .lnot a => do
        let a' ← simp k fl f a
        if fl.logic then
          if isTrue a' then pure (.blit false)
          else if isFalse a' then pure (.blit true)
          else pure (.lnot a')
        else pure (.lnot a')
    | .land xs => do
        let cs ← mapOpt (simp k fl f) xs
        if fl.logic then
          if cs.any isFalse then pure (.blit false)
          else
            let cs' := if cs.any isTrue then cs.filter (fun c => !isTrue c) else cs
            match cs' with
            | [] => pure (.blit true)
            | _ => pure (.land cs')
        else match cs with
          | [] => pure (.blit true)
          | _ => pure (.land cs)
    | .lor xs => do
        let cs ← mapOpt (simp k fl f) xs
        if fl.logic then
          if cs.any isTrue then pure (.blit true)
          else
            let cs' := if cs.any isFalse then cs.filter (fun c => !isFalse c) else cs
            match cs' with
            | [] => pure (.blit false)
            | _ => pure (.lor cs')
        else match cs with
          | [] => pure (.blit false)
          | _ => pure (.lor cs)
    | e => some e

/-! ### decidable tree classes used by the theorems -/

mutual
/-- no real literal -/
def noRlit : E → Bool
  | .rlit _ => false
  | .sum _ xs => noRlitL xs
  | .prod _ xs => noRlitL xs
  | .quot _ a b => noRlit a && noRlit b
  | .pow _ a b => noRlit a && noRlit b
  | .cmp _ a b => noRlit a && noRlit b
  | .lnot a => noRlit a
  | .land xs => noRlitL xs
  | .lor xs => noRlitL xs
  | _ => true
def noRlitL : List E → Bool
  | [] => true
  | x :: xs => noRlit x && noRlitL xs
end

mutual
/-- no `Quotient` node -/
def noQuot : E → Bool
  | .quot _ _ _ => false
  | .sum _ xs => noQuotL xs
  | .prod _ xs => noQuotL xs
  | .pow _ a b => noQuot a && noQuot b
  | .cmp _ a b => noQuot a && noQuot b
  | .lnot a => noQuot a
  | .land xs => noQuotL xs
  | .lor xs => noQuotL xs
  | _ => true
def noQuotL : List E → Bool
  | [] => true
  | x :: xs => noQuot x && noQuotL xs
end

mutual
/-- every n-ary node has at least two children (what the frontend and the operators build) -/
def wf2 : E → Bool
  | .sum _ xs => decide (2 ≤ xs.length) && wf2L xs
  | .prod _ xs => decide (2 ≤ xs.length) && wf2L xs
  | .quot _ a b => wf2 a && wf2 b
  | .pow _ a b => wf2 a && wf2 b
  | .cmp _ a b => wf2 a && wf2 b
  | .lnot a => wf2 a
  | .land xs => decide (2 ≤ xs.length) && wf2L xs
  | .lor xs => decide (2 ≤ xs.length) && wf2L xs
  | _ => true
def wf2L : List E → Bool
  | [] => true
  | x :: xs => wf2 x && wf2L xs
end

/-- a `Power` node with a real literal below it (`map_power` would do float arithmetic: outside the model) -/
def hasRealPow : E → Bool
  | .pow _ a b => !(noRlit a && noRlit b)
  | .sum _ xs => xs.attach.any fun ⟨x, _⟩ => hasRealPow x
  | .prod _ xs => xs.attach.any fun ⟨x, _⟩ => hasRealPow x
  | .quot _ a b => hasRealPow a || hasRealPow b
  | .cmp _ a b => hasRealPow a || hasRealPow b
  | .lnot a => hasRealPow a
  | .land xs => xs.attach.any fun ⟨x, _⟩ => hasRealPow x
  | .lor xs => xs.attach.any fun ⟨x, _⟩ => hasRealPow x
  | _ => false

mutual
def countQuot : E → Nat
  | .quot _ a b => 1 + countQuot a + countQuot b
  | .sum _ xs => countQuotL xs
  | .prod _ xs => countQuotL xs
  | .pow _ a b => countQuot a + countQuot b
  | .cmp _ a b => countQuot a + countQuot b
  | .lnot a => countQuot a
  | .land xs => countQuotL xs
  | .lor xs => countQuotL xs
  | _ => 0
def countQuotL : List E → Nat
  | [] => 0
  | x :: xs => countQuot x + countQuotL xs
end

/-- two or more `Quotient` nodes (with `Flatten` they can end up below one another; `distribute_quotient` then builds a
*pymbolic* `Product` for the denominator, a class distinction `E` cannot express: outside the correspondence) -/
def nestedQuot (e : E) : Bool := decide (2 ≤ countQuot e)

/-- the tree part of the hypotheses of `C08_partial` -/
def InDomain (fl : Flags) (t : E) : Bool :=
  !fl.collect && noRlit t && wf2 t

end LokiModel.C08
