import LokiModel.C08.IntA
/-! # C08: soundness of `flatten_expr`, `distribute_product`, `distribute_quotient` in strict mode (integer reading) -/
namespace LokiModel.C08
open LokiModel.Expr LokiModel.C06

variable {ρ : IEnv}

/-! ### truthiness -/

theorem truthy_zero (t : E) : truthy t = false → ∀ v, aval ρ t = some v → v = 0 :=
  E.rec (motive_1 := fun t => truthy t = false → ∀ v, aval ρ t = some v → v = 0)
    (motive_2 := fun xs => allTruthy xs = false → ∀ v, aprod ρ xs = some v → v = 0)
    (fun n h v hv => by simp [truthy] at h; simp [aval] at hv; omega)
    (fun t h => by simp [truthy] at h)
    (fun b _ v hv => by simp [aval] at hv)
    (fun n h v hv => by simp [truthy] at h; simp [aval] at hv; omega)
    (fun x h => by simp [truthy] at h)
    (fun par xs ih h v hv => by
      match xs, ih with
      | [], _ => simp [truthy] at h
      | [x], ih =>
        simp only [truthy] at h
        rw [aval_sum, asum_single] at hv
        exact ih (by simp [allTruthy, h]) v (by rw [aprod_single]; exact hv)
      | x :: y :: r, _ => simp [truthy] at h)
    (fun par xs ih h v hv => by rw [truthy] at h; rw [aval_prod] at hv; exact ih h v hv)
    (fun par a b iha _ h v hv => by
      rw [truthy] at h
      obtain ⟨x, y, hx, hy, hy0, rfl⟩ := quot_val hv
      have := iha h x hx; subst this; simp)
    (fun par a b _ _ h => by simp [truthy] at h)
    (fun o a b _ _ h => by simp [truthy] at h)
    (fun a _ h => by simp [truthy] at h)
    (fun xs _ h => by simp [truthy] at h)
    (fun xs _ h => by simp [truthy] at h)
    (fun h => by simp [allTruthy] at h)
    (fun hd tl hh ht h v hv => by
      rw [aprod_cons] at hv
      obtain ⟨a, b, ha, hb, rfl⟩ := hv
      simp only [allTruthy, Bool.and_eq_false_iff] at h
      rcases h with h | h
      · have := hh h a ha; subst this; simp
      · have := ht h b hb; subst this; simp) t


/-! ### distribute_quotient (strict: only the sign normalisation and the identity remain) -/

theorem dqLoop_nil (f : Nat) (den : E) (d r : List E) (h : dqLoop true f den [] d = some r) : r = d := by
  cases f <;> simp [dqLoop] at h
  exact h.symm

theorem dqLoop_single (f : Nat) (den num : E) (r : List E) (h : dqLoop true f den [num] [] = some r) :
    r = [] ∨ r = [.quot false num den] := by
  cases f with
  | zero => simp [dqLoop] at h
  | succ f =>
    unfold dqLoop at h
    split at h
    · exact Or.inl (dqLoop_nil f den [] r h)
    · split at h
      · simp at h
      · simp at h
      · exact Or.inr (by simpa using dqLoop_nil f den _ r h)

theorem distQ_sound : ∀ (f : Nat) (e e' : E), distQ true f e = some e' → RefA ρ e e' := by
  intro f
  induction f with
  | zero => intro e e' h; simp [distQ] at h
  | succ f ih =>
    intro e e' h a ha
    unfold distQ at h
    split at h
    · rename_i p num den
      obtain ⟨x, y, hx, hy, hy0, rfl⟩ := quot_val ha
      split at h
      · rename_i hm
        simp only [Option.bind_eq_bind, Option.bind_eq_some_iff] at h
        obtain ⟨r, hr, h⟩ := h
        simp only [pure, Option.some.injEq] at h; subst h
        obtain ⟨b, hb, rfl⟩ := minusPrefix_val hm hx
        have := ih _ r hr _ (quot_mk (p := false) hb hy hy0)
        rw [negProd_val this, Int.neg_tdiv]
      · split at h
        · rename_i hm
          simp only [Option.bind_eq_bind, Option.bind_eq_some_iff] at h
          obtain ⟨r, hr, h⟩ := h
          simp only [pure, Option.some.injEq] at h; subst h
          obtain ⟨b, hb, rfl⟩ := minusPrefix_val hm hy
          have hb0 : b ≠ 0 := by omega
          have := ih _ r hr _ (quot_mk (p := false) hx hb hb0)
          rw [negProd_val this, Int.tdiv_neg]
        · simp only [Option.bind_eq_bind, Option.bind_eq_some_iff] at h
          obtain ⟨done, hdone, h⟩ := h
          rcases dqLoop_single f den num done hdone with rfl | rfl
          · simp at h
          · simp only [pure, Option.some.injEq] at h; subst h
            exact quot_mk hx hy hy0
    · injection h with h; subst h; exact ha


/-! ### distribute_product (strict: no quotient factor) -/

/-- value of the `done` list: the sum of the products of its entries -/
def dsum (ρ : IEnv) : List (List E) → Option Int
  | [] => some 0
  | l :: ls => o2 (fun a b => some (a + b)) (aprod ρ l) (dsum ρ ls)

theorem dsum_cons {l : List E} {ls : List (List E)} {v : Int} :
    dsum ρ (l :: ls) = some v ↔ ∃ a b, aprod ρ l = some a ∧ dsum ρ ls = some b ∧ v = a + b := by
  rw [dsum, o2_some]; constructor
  · rintro ⟨a, b, h1, h2, h3⟩; exact ⟨a, b, h1, h2, by simpa using h3.symm⟩
  · rintro ⟨a, b, h1, h2, h3⟩; exact ⟨a, b, h1, h2, by simp [h3]⟩

theorem dsum_append {xs ys : List (List E)} {a b : Int} (ha : dsum ρ xs = some a) (hb : dsum ρ ys = some b) :
    dsum ρ (xs ++ ys) = some (a + b) := by
  induction xs generalizing a with
  | nil => simp [dsum] at ha; subst ha; simpa using hb
  | cons x xs ih =>
    rw [dsum_cons] at ha
    obtain ⟨p, q, hp, hq, rfl⟩ := ha
    rw [List.cons_append, dsum_cons]
    exact ⟨p, q + b, hp, ih hq, by omega⟩

theorem aprod_snoc {l : List E} {c : E} {p x : Int} (hp : aprod ρ l = some p) (hx : aval ρ c = some x) :
    aprod ρ (l ++ [c]) = some (p * x) := by
  rw [aprod_append]; exact ⟨p, x, hp, by rw [aprod_single]; exact hx, rfl⟩

theorem dsum_snoc_map {done : List (List E)} {c : E} {s x : Int} (hs : dsum ρ done = some s) (hx : aval ρ c = some x) :
    dsum ρ (done.map (· ++ [c])) = some (s * x) := by
  induction done generalizing s with
  | nil => simp [dsum] at hs; subst hs; simp [dsum]
  | cons l ls ih =>
    rw [dsum_cons] at hs
    obtain ⟨p, q, hp, hq, rfl⟩ := hs
    rw [List.map_cons, dsum_cons]
    exact ⟨p * x, q * x, aprod_snoc hp hx, ih hq, by rw [Int.add_mul]⟩

theorem dsum_flatMap {done : List (List E)} {cs : List E} {s t : Int} (hs : dsum ρ done = some s)
    (ht : asum ρ cs = some t) : dsum ρ (cs.flatMap fun c => done.map (· ++ [c])) = some (s * t) := by
  induction cs generalizing t with
  | nil => simp [asum] at ht; subst ht; simp [dsum]
  | cons c cs ih =>
    rw [asum_cons] at ht
    obtain ⟨x, y, hx, hy, rfl⟩ := ht
    rw [List.flatMap_cons, Int.mul_add]
    exact dsum_append (dsum_snoc_map hs hx) (ih hy)

theorem isIntOne_val {c : E} (h : isIntOne c = true) : aval ρ c = some 1 := by
  cases c <;> simp [isIntOne] at h
  subst h; simp [aval]

theorem dpLoop_succ_nil (st : Bool) (f : Nat) (den : List E) (done : List (List E)) :
    dpLoop st (f + 1) [] den done = some (den, done) := by rw [dpLoop]

theorem dpLoop_succ_cons (st : Bool) (f : Nat) (item : E) (q den : List E) (done : List (List E)) :
    dpLoop st (f + 1) (item :: q) den done =
      if isIntOne item then dpLoop st f q den done else
      match item with
      | .prod _ cs => dpLoop st f (cs ++ q) den done
      | .quot _ a b => if st then none else dpLoop st f (a :: q) (den ++ [b]) done
      | .sum _ cs => dpLoop st f q den (cs.flatMap fun c => done.map (· ++ [c]))
      | _ => dpLoop st f q den (done.map (· ++ [item])) := by
  cases item <;> rw [dpLoop] <;> (intros; contradiction)

theorem dpLoop_sound : ∀ (f : Nat) (queue : List E) (done : List (List E)) (r : List E × List (List E)),
    dpLoop true f queue [] done = some r → ∀ q s, aprod ρ queue = some q → dsum ρ done = some s →
      r.1 = [] ∧ dsum ρ r.2 = some (s * q) := by
  intro f
  induction f with
  | zero => intro queue done r h; simp [dpLoop] at h
  | succ f ih =>
    intro queue done r h q s hq hs
    cases queue with
    | nil =>
      rw [dpLoop_succ_nil] at h
      injection h with h; subst h
      simp [aprod] at hq; subst hq
      exact ⟨rfl, by simpa using hs⟩
    | cons item rest =>
      rw [dpLoop_succ_cons] at h
      rw [aprod_cons] at hq
      obtain ⟨x, y, hx, hy, rfl⟩ := hq
      split at h
      · rename_i h1
        have := isIntOne_val (ρ := ρ) h1
        rw [this] at hx; injection hx with hx; subst hx
        simpa using ih _ _ _ h y s hy hs
      · split at h
        · rename_i p cs
          rw [aval_prod] at hx
          have := ih _ _ _ h (x * y) s (by rw [aprod_append]; exact ⟨x, y, hx, hy, rfl⟩) hs
          exact this
        · simp at h
        · rename_i p cs
          rw [aval_sum] at hx
          have := ih _ _ _ h y (s * x) hy (dsum_flatMap hs hx)
          rw [Int.mul_assoc] at this; exact this
        · have := ih _ _ _ h y (s * x) hy (dsum_snoc_map hs hx)
          rw [Int.mul_assoc] at this; exact this


theorem isMinusOne_val {c : E} (h : isMinusOne c = true) : aval ρ c = some (-1) := by
  cases c <;> simp [isMinusOne] at h <;> subst h <;> simp [aval]

theorem filterNeg : ∀ (l : List E) (p : Int), aprod ρ l = some p →
    ∃ p', aprod ρ (l.filter fun v => !isMinusOne v) = some p' ∧
      ((l.filter isMinusOne).length % 2 = 1 → p = -p') ∧ (¬ (l.filter isMinusOne).length % 2 = 1 → p = p') := by
  intro l
  induction l with
  | nil => intro p h; simp [aprod] at h; subst h; exact ⟨1, by simp [aprod], by simp, by simp⟩
  | cons c l ih =>
    intro p h
    rw [aprod_cons] at h
    obtain ⟨x, y, hx, hy, rfl⟩ := h
    obtain ⟨p', hp', h1, h2⟩ := ih y hy
    by_cases hc : isMinusOne c = true
    · rw [isMinusOne_val hc] at hx; injection hx with hx; subst hx
      refine ⟨p', by simp [List.filter_cons, hc, hp'], ?_, ?_⟩
      · intro hpar
        simp only [List.filter_cons, hc, if_true, List.length_cons] at hpar
        have := h2 (by omega); omega
      · intro hpar
        simp only [List.filter_cons, hc, if_true, List.length_cons] at hpar
        have := h1 (by omega); omega
    · simp only [Bool.not_eq_true] at hc
      refine ⟨x * p', ?_, ?_, ?_⟩
      · simp only [List.filter_cons, hc, Bool.not_false, if_true]; rw [aprod_cons]; exact ⟨x, p', hx, hp', rfl⟩
      · intro hpar
        simp only [List.filter_cons, hc, Bool.false_eq_true, if_false] at hpar
        rw [h1 hpar, Int.mul_neg]
      · intro hpar
        simp only [List.filter_cons, hc, Bool.false_eq_true, if_false] at hpar
        rw [h2 hpar]

theorem prodShape'_val (l : List E) :
    aval ρ (match l with | [] => .ilit 1 | [x] => x | _ => .prod false l) = aprod ρ l := by
  match l with
  | [] => simp [aval, aprod]
  | [x] => simp [aprod_single]
  | x :: y :: r => simp [aval_prod]

theorem dpComponent_val (l : List E) (p : Int) (h : aprod ρ l = some p) : aval ρ (dpComponent l) = some p := by
  obtain ⟨p', hp', h1, h2⟩ := filterNeg l p h
  rw [← prodShape'_val] at hp'
  unfold dpComponent
  simp only []
  split
  · rename_i hneg
    simp only [beq_iff_eq] at hneg
    rw [h1 hneg]; exact negProd_val hp'
  · rename_i hneg
    simp only [beq_iff_eq] at hneg
    rw [h2 hneg]; exact hp'

theorem dpComponents_val : ∀ (done : List (List E)) (s : Int), dsum ρ done = some s →
    asum ρ (done.map dpComponent) = some s := by
  intro done
  induction done with
  | nil => intro s h; simpa [dsum, asum] using h
  | cons l ls ih =>
    intro s h
    rw [dsum_cons] at h
    obtain ⟨a, b, ha, hb, rfl⟩ := h
    rw [List.map_cons, asum_cons]
    exact ⟨a, b, dpComponent_val l a ha, ih b hb, rfl⟩

theorem distributeProduct_sound (f : Nat) (e e' : E) (h : distributeProduct true f e = some e') : RefA ρ e e' := by
  intro a ha
  unfold distributeProduct at h
  split at h
  · rename_i p cs
    simp only [Option.bind_eq_bind, Option.bind_eq_some_iff] at h
    obtain ⟨r, hr, h⟩ := h
    rw [aval_prod] at ha
    obtain ⟨hden, hsum⟩ := dpLoop_sound (ρ := ρ) f cs [[]] r hr a 1 ha (by simp [dsum, aprod, o2])
    split at h
    · simp at h
    · rename_i hne
      simp only [pure, Option.some.injEq] at h; subst h
      simp only [Int.one_mul] at hsum
      have hc := dpComponents_val r.2 a hsum
      rw [hden]
      unfold dpBuild
      split
      · rename_i he; rw [he] at hne; simp at hne
      · simp only [dpRetval]
        split
        · rename_i c hcs; rw [hcs, asum_single] at hc; exact hc
        · rw [aval_sum]; exact hc
  · injection h with h; subst h; exact ha


/-! ### flatten_expr -/

theorem flattenLoop_sound : ∀ (f : Nat) (queue done r : List E), flattenLoop true f queue done = some r →
    ∀ q d, asum ρ queue = some q → asum ρ done = some d → asum ρ r = some (d + q) := by
  intro f
  induction f with
  | zero => intro queue done r h; simp [flattenLoop] at h
  | succ f ih =>
    intro queue done r h q d hq hd
    cases queue with
    | nil =>
      rw [flattenLoop] at h
      injection h with h; subst h
      simp [asum] at hq; subst hq; simpa using hd
    | cons item rest =>
      rw [flattenLoop] at h
      rw [asum_cons] at hq
      obtain ⟨x, y, hx, hy, rfl⟩ := hq
      split at h
      · rename_i ht
        simp only [Bool.not_eq_true', ] at ht
        have := truthy_zero (ρ := ρ) item (by simpa using ht) x hx
        subst this
        simpa using ih _ _ _ h y d hy hd
      · simp only [Option.bind_eq_some_iff] at h
        obtain ⟨i1, h1, i2, h2, h⟩ := h
        unfold optIf at h1 h2
        have v1 : aval ρ i1 = some x := by
          split at h1
          · exact distributeProduct_sound f item i1 h1 x hx
          · injection h1 with h1; subst h1; exact hx
        have v2 : aval ρ i2 = some x := by
          split at h2
          · exact distQ_sound f i1 i2 h2 x v1
          · injection h2 with h2; subst h2; exact v1
        split at h
        · rename_i p cs
          rw [aval_sum] at v2
          exact ih _ _ _ h (x + y) d (by rw [asum_append]; exact ⟨x, y, v2, hy, rfl⟩) hd
        · have := ih _ _ _ h y (d + x) hy (by rw [asum_append]; exact ⟨d, x, hd, by rw [asum_single]; exact v2, rfl⟩)
          rw [this]; congr 1; omega

/-- **`flatten_expr` preserves integer values** (strict mode: no quotient is distributed) -/
theorem flattenExpr_sound (ρ : IEnv) (f : Nat) (e e' : E) (h : flattenExpr true f e = some e') : RefA ρ e e' := by
  intro a ha
  unfold flattenExpr at h
  simp only [Option.bind_eq_bind, Option.bind_eq_some_iff] at h
  obtain ⟨done, hdone, h⟩ := h
  have key := flattenLoop_sound (ρ := ρ) f [e] [] done hdone a 0 (by rw [asum_single]; exact ha) (by simp [asum])
  simp only [Int.zero_add] at key
  rw [← sumShape_val] at key
  split at h <;> (simp only [pure, Option.some.injEq] at h; subst h) <;> simp_all

end LokiModel.C08
