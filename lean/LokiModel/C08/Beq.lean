import LokiModel.C08.Model
/-! # C08: structural equality of trees (a simple re-entry test for non-vacuity examples and witnesses) -/
namespace LokiModel.C08
open LokiModel.Expr LokiModel.C06

mutual
def beqE : E → E → Bool
  | .ilit a, .ilit b => a == b
  | .rlit a, .rlit b => a == b
  | .blit a, .blit b => a == b
  | .pyint a, .pyint b => a == b
  | .var a, .var b => a == b
  | .sum p xs, .sum q ys => p == q && beqEs xs ys
  | .prod p xs, .prod q ys => p == q && beqEs xs ys
  | .quot p a b, .quot q c d => p == q && beqE a c && beqE b d
  | .pow p a b, .pow q c d => p == q && beqE a c && beqE b d
  | .cmp o a b, .cmp o' c d => o == o' && beqE a c && beqE b d
  | .lnot a, .lnot b => beqE a b
  | .land xs, .land ys => beqEs xs ys
  | .lor xs, .lor ys => beqEs xs ys
  | _, _ => false
def beqEs : List E → List E → Bool
  | [], [] => true
  | x :: xs, y :: ys => beqE x y && beqEs xs ys
  | _, _ => false
end

/-- re-entry iff the new tree differs structurally; dict keys compared structurally; no sorting -/
def kEq (strict : Bool) : K := ⟨fun n e => !beqE n e, beqEs, id, strict⟩

end LokiModel.C08
