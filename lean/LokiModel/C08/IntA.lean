import LokiModel.C08.Sem
/-! # C08: soundness of `sum_literals`, `separate_coefficients`, `mul_literals`, `div_literals` (integer reading) -/
namespace LokiModel.C08
open LokiModel.Expr LokiModel.C06

variable {ρ : IEnv}

theorem isPyMinusOne_eq {c : E} (h : isPyMinusOne c = true) : c = .pyint (-1) := by
  cases c <;> simp [isPyMinusOne] at h
  subst h; rfl

theorem stripTail_val (rest : List E) : aval ρ (stripTail rest) = aprod ρ rest := by
  match rest with
  | [] => simp [stripTail, aval_prod]
  | [x] => simp [stripTail, aprod_single]
  | x :: y :: r => simp [stripTail, aval_prod]

/-- a minus-prefixed product is the negation of its stripped form -/
theorem minusPrefix_val {e : E} (h : isMinusPrefix e = true) {a : Int} (ha : aval ρ e = some a) :
    ∃ b, aval ρ (stripMinus e) = some b ∧ a = -b := by
  match e, h with
  | .prod p (c :: rest), h =>
    simp only [isMinusPrefix] at h
    have hc := isPyMinusOne_eq h
    subst hc
    rw [aval_prod, aprod_cons] at ha
    obtain ⟨x, b, hx, hb, rfl⟩ := ha
    simp only [aval] at hx
    refine ⟨b, ?_, ?_⟩
    · simp [stripMinus, stripTail_val, hb]
    · injection hx with hx; subst hx; omega

/-- the three result shapes `0` / the single element / `Sum(list)` -/
theorem sumShape_val (l : List E) :
    aval ρ (match l with | [] => .ilit 0 | [x] => x | xs => .sum false xs) = asum ρ l := by
  match l with
  | [] => simp [aval, asum]
  | [x] => simp [asum_single]
  | x :: y :: r => simp [aval_sum]

theorem prodShape_val (l : List E) :
    aval ρ (match l with | [] => .ilit 1 | [x] => x | xs => .prod false xs) = aprod ρ l := by
  match l with
  | [] => simp [aval, aprod]
  | [x] => simp [aprod_single]
  | x :: y :: r => simp [aval_prod]

/-! ### sum_literals -/

/-- what `_process` returns splits the value of the child -/
def SplitAdd (ρ : IEnv) (a : Int) (r : Int × Option E) : Prop :=
  match r.2 with
  | none => a = r.1
  | some c => r.1 = 0 ∧ aval ρ c = some a

theorem slProc_sound : ∀ (f : Nat) (e : E) (r : Int × Option E), slProc f e = some r →
    ∀ a, aval ρ e = some a → SplitAdd ρ a r := by
  intro f
  induction f with
  | zero => intro e r h; simp [slProc] at h
  | succ f ih =>
    intro e r h a ha
    unfold slProc at h
    split at h
    · -- ilit
      injection h with h; subst h
      simp only [aval] at ha; injection ha with ha
      simp [SplitAdd, ha]
    · split at h
      · rename_i hm
        cases hr : slProc f (stripMinus e) with
        | none => simp [hr] at h
        | some r' =>
          simp only [hr, Option.bind_eq_bind, Option.bind_some] at h
          obtain ⟨b, hb, hab⟩ := minusPrefix_val hm ha
          have := ih _ _ hr b hb
          split at h
          · injection h with h; subst h
            unfold SplitAdd at this ⊢
            cases h2 : r'.2 with
            | none => simp only [h2] at this ⊢; omega
            | some c =>
              rename_i hne
              simp only [h2] at this
              simp [this.1] at hne
          · injection h with h; subst h
            exact ⟨rfl, ha⟩
      · injection h with h; subst h
        exact ⟨rfl, ha⟩


theorem mapOpt_cons {α β : Type} {g : α → Option β} {x : α} {xs : List α} {ys : List β} :
    mapOpt g (x :: xs) = some ys ↔ ∃ y ys', g x = some y ∧ mapOpt g xs = some ys' ∧ ys = y :: ys' := by
  simp only [mapOpt]
  cases g x <;> cases mapOpt g xs <;> simp [eq_comm]

theorem sumLit_list : ∀ (f : Nat) (cs : List E) (ps : List (Int × Option E)), mapOpt (slProc f) cs = some ps →
    ∀ a, asum ρ cs = some a → ∃ b, asum ρ (ps.filterMap (·.2)) = some b ∧ a = sumInts (ps.map (·.1)) + b := by
  intro f cs
  induction cs with
  | nil => intro ps h a ha; simp [mapOpt] at h; subst h; simp [asum] at ha; subst ha; exact ⟨0, by simp [asum], by simp [sumInts]⟩
  | cons c cs ih =>
    intro ps h a ha
    rw [mapOpt_cons] at h
    obtain ⟨r, ps', hr, hps, rfl⟩ := h
    rw [asum_cons] at ha
    obtain ⟨x, y, hx, hy, rfl⟩ := ha
    obtain ⟨b, hb, e⟩ := ih ps' hps y hy
    have hs := slProc_sound (ρ := ρ) f c r hr x hx
    unfold SplitAdd at hs
    cases h2 : r.2 with
    | none =>
      simp only [h2] at hs
      refine ⟨b, by simp [h2, hb], ?_⟩
      simp only [List.map_cons, sumInts]; omega
    | some c' =>
      simp only [h2] at hs
      refine ⟨x + b, ?_, ?_⟩
      · simp only [List.filterMap_cons, h2]; rw [asum_cons]; exact ⟨x, b, hs.2, hb, rfl⟩
      · simp only [List.map_cons, sumInts]; omega

theorem sumLiterals_sound (f : Nat) (e e' : E) (h : sumLiterals f e = some e') : RefA ρ e e' := by
  intro a ha
  unfold sumLiterals at h
  split at h
  · simp at h
  · rename_i p cs hne
    cases hps : mapOpt (slProc f) cs with
    | none => simp [hps] at h
    | some ps =>
      simp only [hps, Option.bind_eq_bind, Option.bind_some] at h
      rw [aval_sum] at ha
      obtain ⟨b, hb, e⟩ := sumLit_list f cs ps hps a ha
      have key : asum ρ (if sumInts (ps.map (·.1)) != 0 then .ilit (sumInts (ps.map (·.1))) :: ps.filterMap (·.2)
                         else ps.filterMap (·.2)) = some a := by
        split
        · rw [asum_cons]; exact ⟨_, b, by simp [aval], hb, e⟩
        · rename_i hz; simp at hz; rw [hb, e, hz]; simp
      rw [← sumShape_val] at key
      split at h <;> (injection h with h; subst h) <;> simp_all
  · injection h with h; subst h; exact ha


/-! ### separate_coefficients / mul_literals -/

def SplitMul (ρ : IEnv) (a : Int) (r : Int × Option E) : Prop :=
  match r.2 with
  | none => a = r.1
  | some c => ∃ b, aval ρ c = some b ∧ a = r.1 * b

theorem scProc_sound : ∀ (f : Nat) (e : E) (r : Int × Option E), scProc f e = some r →
    ∀ a, aval ρ e = some a → SplitMul ρ a r := by
  intro f
  induction f with
  | zero => intro e r h; simp [scProc] at h
  | succ f ih =>
    intro e r h a ha
    unfold scProc at h
    split at h
    · injection h with h; subst h; simp only [aval] at ha; injection ha with ha; simp [SplitMul, ha]
    · injection h with h; subst h; simp only [aval] at ha; injection ha with ha; simp [SplitMul, ha]
    · split at h
      · rename_i hm
        simp only [Option.bind_eq_bind, Option.bind_eq_some_iff] at h
        obtain ⟨r', hr, h⟩ := h
        simp only [pure, Option.some.injEq] at h; subst h
        obtain ⟨b, hb, rfl⟩ := minusPrefix_val hm ha
        have := ih _ r' hr b hb
        unfold SplitMul at this ⊢
        cases h2 : r'.2 with
        | none => simp only [h2] at this ⊢; omega
        | some c =>
          simp only [h2] at this ⊢
          obtain ⟨z, hz, rfl⟩ := this
          exact ⟨z, hz, by simp [Int.neg_mul]⟩
      · injection h with h; subst h
        exact ⟨a, ha, by simp⟩

theorem sepList : ∀ (f : Nat) (cs : List E) (ps : List (Int × Option E)), mapOpt (scProc f) cs = some ps →
    ∀ a, aprod ρ cs = some a → ∃ b, aprod ρ (ps.filterMap (·.2)) = some b ∧ a = prodInts (ps.map (·.1)) * b := by
  intro f cs
  induction cs with
  | nil => intro ps h a ha; simp [mapOpt] at h; subst h; simp [aprod] at ha; subst ha; exact ⟨1, by simp [aprod], by simp [prodInts]⟩
  | cons c cs ih =>
    intro ps h a ha
    rw [mapOpt_cons] at h
    obtain ⟨r, ps', hr, hps, rfl⟩ := h
    rw [aprod_cons] at ha
    obtain ⟨x, y, hx, hy, rfl⟩ := ha
    obtain ⟨b, hb, e⟩ := ih ps' hps y hy
    have hs := scProc_sound (ρ := ρ) f c r hr x hx
    unfold SplitMul at hs
    cases h2 : r.2 with
    | none =>
      simp only [h2] at hs
      refine ⟨b, by simp [h2, hb], ?_⟩
      simp only [List.map_cons, prodInts]; rw [hs, e, Int.mul_assoc]
    | some c' =>
      simp only [h2] at hs
      obtain ⟨z, hz, rfl⟩ := hs
      refine ⟨z * b, ?_, ?_⟩
      · simp only [List.filterMap_cons, h2]; rw [aprod_cons]; exact ⟨z, b, hz, hb, rfl⟩
      · simp only [List.map_cons, prodInts]; rw [e]; simp only [Int.mul_assoc, Int.mul_left_comm]

theorem sepCoeff_sound : ∀ (f : Nat) (e : E) (r : Int × List E), sepCoeff f e = some r →
    ∀ a, aval ρ e = some a → ∃ b, aprod ρ r.2 = some b ∧ a = r.1 * b := by
  intro f
  induction f with
  | zero => intro e r h; simp [sepCoeff] at h
  | succ f ih =>
    intro e r h a ha
    unfold sepCoeff at h
    split at h
    · injection h with h; subst h; simp only [aval] at ha; injection ha with ha; exact ⟨1, by simp [aprod], by simp [ha]⟩
    · rename_i p cs
      split at h
      · rename_i hm
        cases hr : sepCoeff f (stripMinus (.prod p cs)) with
        | none => simp [hr] at h
        | some r' =>
          simp only [hr, Option.bind_eq_bind, Option.bind_some] at h
          injection h with h; subst h
          obtain ⟨b, hb, rfl⟩ := minusPrefix_val hm ha
          obtain ⟨z, hz, rfl⟩ := ih _ r' hr b hb
          exact ⟨z, hz, by simp [Int.neg_mul]⟩
      · split at h
        · simp at h
        · cases hps : mapOpt (scProc f) cs with
          | none => simp [hps] at h
          | some ps =>
            simp only [hps, Option.bind_eq_bind, Option.bind_some] at h
            injection h with h; subst h
            rw [aval_prod] at ha
            exact sepList f cs ps hps a ha
    · injection h with h; subst h
      exact ⟨a, by simp [aprod_single, ha], by simp⟩

theorem mulBuild_sound (v : Int) (rem : List E) (b : Int) (hb : aprod ρ rem = some b) :
    aval ρ (mulBuild v rem) = some (v * b) := by
  unfold mulBuild
  split
  · rename_i h0; simp at h0; subst h0; simp [aval]
  · have key : aprod ρ (if v.natAbs != 1 then .ilit v.natAbs :: rem else rem) = some ((v.natAbs : Int) * b) := by
      split
      · rw [aprod_cons]; exact ⟨_, b, by simp [aval], hb, rfl⟩
      · rename_i h1; simp at h1; rw [hb, h1]; simp
    rw [← prodShape_val] at key
    simp only []
    split
    · rename_i hneg
      rw [aval_prod, aprod_cons]
      refine ⟨-1, (v.natAbs : Int) * b, by simp [aval], by rw [aprod_single]; exact key, ?_⟩
      have : (v.natAbs : Int) = -v := by omega
      rw [this]; simp [Int.neg_mul]
    · rename_i hneg
      have : (v.natAbs : Int) = v := by omega
      rw [show ((v.natAbs : Int) * b) = v * b by rw [this]] at key; exact key

theorem mulLiterals_sound (f : Nat) (e e' : E) (h : mulLiterals f e = some e') : RefA ρ e e' := by
  intro a ha
  unfold mulLiterals at h
  split at h
  · cases hr : sepCoeff f e with
    | none => simp [hr] at h
    | some r =>
      simp only [hr, Option.bind_eq_bind, Option.bind_some] at h
      injection h with h; subst h
      obtain ⟨b, hb, rfl⟩ := sepCoeff_sound f e r hr a ha
      exact mulBuild_sound _ _ b hb
  · injection h with h; subst h; exact ha


/-! ### div_literals -/

theorem tdiv_cancel (g n d b : Int) (hg : 0 < g) (hn : g ∣ n) (hd : g ∣ d) :
    ((n / g) * b).tdiv (d / g) = (n * b).tdiv d := by
  obtain ⟨n', rfl⟩ := hn
  obtain ⟨d', rfl⟩ := hd
  have hg' : g ≠ 0 := by omega
  rw [Int.mul_ediv_cancel_left _ hg', Int.mul_ediv_cancel_left _ hg', Int.mul_assoc, Int.mul_tdiv_mul_of_pos _ _ hg]

theorem ediv_ne_zero (g d : Int) (hg : 0 < g) (hd : g ∣ d) (h0 : d ≠ 0) : d / g ≠ 0 := by
  obtain ⟨d', rfl⟩ := hd
  have hg' : g ≠ 0 := by omega
  rw [Int.mul_ediv_cancel_left _ hg']
  intro h; subst h; simp at h0

theorem divRet_val (m : E) (dd x : Int) (hm : aval ρ m = some x) (hd : dd ≠ 0) :
    aval ρ (divRet m dd) = some (x.tdiv dd) := by
  unfold divRet
  split
  · rename_i h1; simp at h1; subst h1; simp [hm, Int.tdiv_one]
  · simp [aval, hm, o2, idiv, hd]

theorem quot_val {p : Bool} {num den : E} {a : Int} (h : aval ρ (.quot p num den) = some a) :
    ∃ x y, aval ρ num = some x ∧ aval ρ den = some y ∧ y ≠ 0 ∧ a = x.tdiv y := by
  simp only [aval] at h
  rw [o2_some] at h
  obtain ⟨x, y, hx, hy, h⟩ := h
  unfold idiv at h
  split at h
  · simp at h
  · rename_i hy0; injection h with h; exact ⟨x, y, hx, hy, hy0, h.symm⟩

theorem quot_mk {p : Bool} {num den : E} {x y : Int} (hx : aval ρ num = some x) (hy : aval ρ den = some y) (h0 : y ≠ 0) :
    aval ρ (.quot p num den) = some (x.tdiv y) := by
  simp [aval, hx, hy, o2, idiv, h0]

theorem negProd_val {r : E} {x : Int} (h : aval ρ r = some x) : aval ρ (.prod false [.pyint (-1), r]) = some (-x) := by
  rw [aval_prod, aprod_cons]
  exact ⟨-1, x, by simp [aval], by rw [aprod_single]; exact h, by omega⟩

theorem natCast_pos_of_bne {n : Nat} (h : ¬(((n : Int)) == 0) = true) : (0 : Int) < n := by
  have : (n : Int) ≠ 0 := by simpa using h
  omega

theorem divLiterals_sound : ∀ (f : Nat) (e e' : E), divLiterals f e = some e' → RefA ρ e e' := by
  intro f
  induction f with
  | zero => intro e e' h; simp [divLiterals] at h
  | succ f ih =>
    intro e e' h a ha
    unfold divLiterals at h
    split at h
    · rename_i p num den
      obtain ⟨x, y, hx, hy, hy0, rfl⟩ := quot_val ha
      split at h
      · -- minus-prefixed numerator
        rename_i hm
        cases hr : divLiterals f (.quot false (stripMinus num) den) with
        | none => simp [hr] at h
        | some r =>
          simp only [hr, Option.bind_eq_bind, Option.bind_some] at h
          injection h with h; subst h
          obtain ⟨b, hb, rfl⟩ := minusPrefix_val hm hx
          have := ih _ r hr _ (quot_mk (p := false) hb hy hy0)
          rw [negProd_val this, Int.neg_tdiv]
      · split at h
        · rename_i hm
          cases hr : divLiterals f (.quot false num (stripMinus den)) with
          | none => simp [hr] at h
          | some r =>
            simp only [hr, Option.bind_eq_bind, Option.bind_some] at h
            injection h with h; subst h
            obtain ⟨b, hb, rfl⟩ := minusPrefix_val hm hy
            have hb0 : b ≠ 0 := by omega
            have := ih _ r hr _ (quot_mk (p := false) hx hb hb0)
            rw [negProd_val this, Int.tdiv_neg]
        · split at h
          · injection h with h; subst h; exact ha
          · split at h
            · rename_i d
              simp only [aval] at hy; injection hy with hy; subst hy
              split at h
              · -- literal / literal
                rename_i n
                simp only [aval] at hx; injection hx with hx; subst hx
                dsimp only at h
                split at h
                · simp at h
                · rename_i hg
                  injection h with h; subst h
                  have hg0 := natCast_pos_of_bne hg
                  have h1 := tdiv_cancel _ _ _ 1 hg0 (Int.gcd_dvd_left _ _) (Int.gcd_dvd_right _ _)
                  simp only [Int.mul_one] at h1
                  rw [divRet_val _ _ _ (by rw [aval]) (ediv_ne_zero _ _ hg0 (Int.gcd_dvd_right _ _) hy0), h1]
              · -- product / literal
                simp only [Option.bind_eq_bind, Option.bind_eq_some_iff] at h
                obtain ⟨r, hr, h⟩ := h
                split at h
                · simp at h
                · rename_i hg
                  simp only [Option.bind_eq_some_iff] at h
                  obtain ⟨m, hm, h⟩ := h
                  simp only [pure, Option.some.injEq] at h
                  subst h
                  obtain ⟨b, hb, rfl⟩ := sepCoeff_sound f _ r hr x hx
                  have hg0 := natCast_pos_of_bne hg
                  have aux : ∀ c : Int, mulLiterals f (E.prod false (E.ilit c :: r.2)) = some m →
                      aval ρ m = some (c * b) := fun c hc =>
                    mulLiterals_sound (ρ := ρ) f _ m hc (c * b)
                      (by rw [aval_prod, aprod_cons]; exact ⟨c, b, by simp only [aval], hb, rfl⟩)
                  have hmv := aux _ hm
                  rw [divRet_val _ _ _ hmv (ediv_ne_zero _ _ hg0 (Int.gcd_dvd_right _ _) hy0),
                    tdiv_cancel _ _ _ b hg0 (Int.gcd_dvd_left _ _) (Int.gcd_dvd_right _ _)]
              · injection h with h; subst h
                exact divRet_val _ _ _ hx hy0
            · injection h with h; subst h; exact ha
    · injection h with h; subst h; exact ha

end LokiModel.C08
