import LokiModel.C08.Model
/-!
# C08: integer reading of the trees (the semantics the soundness proofs work in)

`aval ρ t : Option Int` / `bval ρ t : Option Bool`: value of `t` when every variable is an integer (or a logical):
n-ary sums and products are folds, `Quotient` is truncating division (`Int.tdiv`, undefined for a zero divisor),
`**` is `Val.ipow` of the shared layer; real literals and ill-typed operands are undefined.
`Bridge.lean` proves that this is exactly `evalS env (den t)` of the shared layer on integer valuations.
-/
namespace LokiModel.C08
open LokiModel.Expr LokiModel.C06

structure IEnv where
  ivar : String → Option Int
  bvar : String → Option Bool

/-- strict binary operation on optional values -/
def o2 {α β γ : Type} (f : α → β → Option γ) : Option α → Option β → Option γ
  | some a, some b => f a b
  | _, _ => none

theorem o2_some {α β γ : Type} {f : α → β → Option γ} {x : Option α} {y : Option β} {v : γ} :
    o2 f x y = some v ↔ ∃ a b, x = some a ∧ y = some b ∧ f a b = some v := by
  cases x <;> cases y <;> simp [o2]

def idiv (x y : Int) : Option Int := if y = 0 then none else some (x.tdiv y)

mutual
def aval (ρ : IEnv) : E → Option Int
  | .ilit n => some n
  | .pyint n => some n
  | .var x => ρ.ivar x
  | .sum _ xs => asum ρ xs
  | .prod _ xs => aprod ρ xs
  | .quot _ a b => o2 idiv (aval ρ a) (aval ρ b)
  | .pow _ a b => o2 Val.ipow (aval ρ a) (aval ρ b)
  | _ => none
def asum (ρ : IEnv) : List E → Option Int
  | [] => some 0
  | x :: xs => o2 (fun a b => some (a + b)) (aval ρ x) (asum ρ xs)
def aprod (ρ : IEnv) : List E → Option Int
  | [] => some 1
  | x :: xs => o2 (fun a b => some (a * b)) (aval ρ x) (aprod ρ xs)
end

mutual
def bval (ρ : IEnv) : E → Option Bool
  | .blit b => some b
  | .var x => ρ.bvar x
  | .cmp o a b => o2 (fun x y => some (cmpInt o x y)) (aval ρ a) (aval ρ b)
  | .lnot a => (bval ρ a).map (!·)
  | .land xs => ball ρ xs
  | .lor xs => bany ρ xs
  | _ => none
def ball (ρ : IEnv) : List E → Option Bool
  | [] => some true
  | x :: xs => o2 (fun a b => some (a && b)) (bval ρ x) (ball ρ xs)
def bany (ρ : IEnv) : List E → Option Bool
  | [] => some false
  | x :: xs => o2 (fun a b => some (a || b)) (bval ρ x) (bany ρ xs)
end

/-- `b` has the value of `a` whenever `a` has one (arithmetic reading / logical reading) -/
def RefA (ρ : IEnv) (a b : E) : Prop := ∀ v, aval ρ a = some v → aval ρ b = some v
def RefB (ρ : IEnv) (a b : E) : Prop := ∀ v, bval ρ a = some v → bval ρ b = some v
def Ref (ρ : IEnv) (a b : E) : Prop := RefA ρ a b ∧ RefB ρ a b

theorem Ref.refl (ρ : IEnv) (a : E) : Ref ρ a a := ⟨fun _ h => h, fun _ h => h⟩
theorem Ref.trans {ρ : IEnv} {a b c : E} (h1 : Ref ρ a b) (h2 : Ref ρ b c) : Ref ρ a c :=
  ⟨fun v h => h2.1 v (h1.1 v h), fun v h => h2.2 v (h1.2 v h)⟩
theorem RefA.trans {ρ : IEnv} {a b c : E} (h1 : RefA ρ a b) (h2 : RefA ρ b c) : RefA ρ a c :=
  fun v h => h2 v (h1 v h)

theorem asum_cons {ρ : IEnv} {x : E} {xs : List E} {v : Int} :
    asum ρ (x :: xs) = some v ↔ ∃ a b, aval ρ x = some a ∧ asum ρ xs = some b ∧ v = a + b := by
  rw [asum, o2_some]; constructor
  · rintro ⟨a, b, h1, h2, h3⟩; exact ⟨a, b, h1, h2, by simpa using h3.symm⟩
  · rintro ⟨a, b, h1, h2, h3⟩; exact ⟨a, b, h1, h2, by simp [h3]⟩

theorem aprod_cons {ρ : IEnv} {x : E} {xs : List E} {v : Int} :
    aprod ρ (x :: xs) = some v ↔ ∃ a b, aval ρ x = some a ∧ aprod ρ xs = some b ∧ v = a * b := by
  rw [aprod, o2_some]; constructor
  · rintro ⟨a, b, h1, h2, h3⟩; exact ⟨a, b, h1, h2, by simpa using h3.symm⟩
  · rintro ⟨a, b, h1, h2, h3⟩; exact ⟨a, b, h1, h2, by simp [h3]⟩

theorem asum_append {ρ : IEnv} {xs ys : List E} {v : Int} :
    asum ρ (xs ++ ys) = some v ↔ ∃ a b, asum ρ xs = some a ∧ asum ρ ys = some b ∧ v = a + b := by
  induction xs generalizing v with
  | nil => simp [asum]
  | cons x xs ih =>
    simp only [List.cons_append, asum_cons, ih]
    constructor
    · rintro ⟨a, b, h1, ⟨c, d, h2, h3, h4⟩, h5⟩
      exact ⟨a + c, d, ⟨a, c, h1, h2, rfl⟩, h3, by omega⟩
    · rintro ⟨a, b, ⟨c, d, h1, h2, h3⟩, h4, h5⟩
      exact ⟨c, d + b, h1, ⟨d, b, h2, h4, rfl⟩, by omega⟩

theorem aprod_append {ρ : IEnv} {xs ys : List E} {v : Int} :
    aprod ρ (xs ++ ys) = some v ↔ ∃ a b, aprod ρ xs = some a ∧ aprod ρ ys = some b ∧ v = a * b := by
  induction xs generalizing v with
  | nil => simp [aprod]
  | cons x xs ih =>
    simp only [List.cons_append, aprod_cons, ih]
    constructor
    · rintro ⟨a, b, h1, ⟨c, d, h2, h3, h4⟩, h5⟩
      exact ⟨a * c, d, ⟨a, c, h1, h2, rfl⟩, h3, by rw [h5, h4, Int.mul_assoc]⟩
    · rintro ⟨a, b, ⟨c, d, h1, h2, h3⟩, h4, h5⟩
      exact ⟨c, d * b, h1, ⟨d, b, h2, h4, rfl⟩, by rw [h5, h3, Int.mul_assoc]⟩

theorem aval_sum {ρ : IEnv} {p : Bool} {xs : List E} : aval ρ (.sum p xs) = asum ρ xs := by rw [aval]
theorem aval_prod {ρ : IEnv} {p : Bool} {xs : List E} : aval ρ (.prod p xs) = aprod ρ xs := by rw [aval]

theorem asum_single {ρ : IEnv} {x : E} : asum ρ [x] = aval ρ x := by
  cases h : aval ρ x <;> simp [asum, o2, h]
theorem aprod_single {ρ : IEnv} {x : E} : aprod ρ [x] = aval ρ x := by
  cases h : aval ρ x <;> simp [aprod, o2, h]

end LokiModel.C08
