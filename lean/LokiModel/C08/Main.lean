import LokiModel.C08.IntA
/-! # C08: soundness of `SimplifyMapper` (strict model, integer reading) by induction on the fuel -/
namespace LokiModel.C08
open LokiModel.Expr LokiModel.C06

variable {ρ : IEnv}

theorem mapOpt_asum {g : E → Option E} (hg : ∀ x y, g x = some y → Ref ρ x y) :
    ∀ (xs ys : List E), mapOpt g xs = some ys → ∀ v, asum ρ xs = some v → asum ρ ys = some v := by
  intro xs
  induction xs with
  | nil => intro ys h v hv; simp [mapOpt] at h; subst h; exact hv
  | cons x xs ih =>
    intro ys h v hv
    rw [mapOpt_cons] at h
    obtain ⟨y, ys', hy, hys, rfl⟩ := h
    rw [asum_cons] at hv ⊢
    obtain ⟨a, b, ha, hb, rfl⟩ := hv
    exact ⟨a, b, (hg x y hy).1 a ha, ih ys' hys b hb, rfl⟩

theorem mapOpt_aprod {g : E → Option E} (hg : ∀ x y, g x = some y → Ref ρ x y) :
    ∀ (xs ys : List E), mapOpt g xs = some ys → ∀ v, aprod ρ xs = some v → aprod ρ ys = some v := by
  intro xs
  induction xs with
  | nil => intro ys h v hv; simp [mapOpt] at h; subst h; exact hv
  | cons x xs ih =>
    intro ys h v hv
    rw [mapOpt_cons] at h
    obtain ⟨y, ys', hy, hys, rfl⟩ := h
    rw [aprod_cons] at hv ⊢
    obtain ⟨a, b, ha, hb, rfl⟩ := hv
    exact ⟨a, b, (hg x y hy).1 a ha, ih ys' hys b hb, rfl⟩

theorem ball_cons {x : E} {xs : List E} {v : Bool} :
    ball ρ (x :: xs) = some v ↔ ∃ a b, bval ρ x = some a ∧ ball ρ xs = some b ∧ v = (a && b) := by
  rw [ball, o2_some]; constructor
  · rintro ⟨a, b, h1, h2, h3⟩; exact ⟨a, b, h1, h2, by simpa using h3.symm⟩
  · rintro ⟨a, b, h1, h2, h3⟩; exact ⟨a, b, h1, h2, by simp [h3]⟩

theorem bany_cons {x : E} {xs : List E} {v : Bool} :
    bany ρ (x :: xs) = some v ↔ ∃ a b, bval ρ x = some a ∧ bany ρ xs = some b ∧ v = (a || b) := by
  rw [bany, o2_some]; constructor
  · rintro ⟨a, b, h1, h2, h3⟩; exact ⟨a, b, h1, h2, by simpa using h3.symm⟩
  · rintro ⟨a, b, h1, h2, h3⟩; exact ⟨a, b, h1, h2, by simp [h3]⟩

theorem mapOpt_ball {g : E → Option E} (hg : ∀ x y, g x = some y → Ref ρ x y) :
    ∀ (xs ys : List E), mapOpt g xs = some ys → ∀ v, ball ρ xs = some v → ball ρ ys = some v := by
  intro xs
  induction xs with
  | nil => intro ys h v hv; simp [mapOpt] at h; subst h; exact hv
  | cons x xs ih =>
    intro ys h v hv
    rw [mapOpt_cons] at h
    obtain ⟨y, ys', hy, hys, rfl⟩ := h
    rw [ball_cons] at hv ⊢
    obtain ⟨a, b, ha, hb, rfl⟩ := hv
    exact ⟨a, b, (hg x y hy).2 a ha, ih ys' hys b hb, rfl⟩

theorem mapOpt_bany {g : E → Option E} (hg : ∀ x y, g x = some y → Ref ρ x y) :
    ∀ (xs ys : List E), mapOpt g xs = some ys → ∀ v, bany ρ xs = some v → bany ρ ys = some v := by
  intro xs
  induction xs with
  | nil => intro ys h v hv; simp [mapOpt] at h; subst h; exact hv
  | cons x xs ih =>
    intro ys h v hv
    rw [mapOpt_cons] at h
    obtain ⟨y, ys', hy, hys, rfl⟩ := h
    rw [bany_cons] at hv ⊢
    obtain ⟨a, b, ha, hb, rfl⟩ := hv
    exact ⟨a, b, (hg x y hy).2 a ha, ih ys' hys b hb, rfl⟩

/-! ### logical helpers -/

theorem isFalse_eq {c : E} (h : isFalse c = true) : c = .blit false := by
  cases c <;> simp [isFalse] at h
  subst h; rfl
theorem isTrue_eq {c : E} (h : isTrue c = true) : c = .blit true := by
  cases c <;> simp [isTrue] at h
  subst h; rfl

theorem ball_any_false : ∀ (cs : List E), cs.any isFalse = true → ∀ v, ball ρ cs = some v → v = false := by
  intro cs
  induction cs with
  | nil => intro h; simp at h
  | cons c cs ih =>
    intro h v hv
    rw [ball_cons] at hv
    obtain ⟨a, b, ha, hb, rfl⟩ := hv
    simp only [List.any_cons, Bool.or_eq_true] at h
    cases h with
    | inl h => have := isFalse_eq h; subst this; simp [bval] at ha; subst ha; simp
    | inr h => have := ih h b hb; subst this; simp

theorem bany_any_true : ∀ (cs : List E), cs.any isTrue = true → ∀ v, bany ρ cs = some v → v = true := by
  intro cs
  induction cs with
  | nil => intro h; simp at h
  | cons c cs ih =>
    intro h v hv
    rw [bany_cons] at hv
    obtain ⟨a, b, ha, hb, rfl⟩ := hv
    simp only [List.any_cons, Bool.or_eq_true] at h
    cases h with
    | inl h => have := isTrue_eq h; subst this; simp [bval] at ha; subst ha; simp
    | inr h => have := ih h b hb; subst this; simp

theorem ball_filter : ∀ (cs : List E) v, ball ρ cs = some v → ball ρ (cs.filter (fun c => !isTrue c)) = some v := by
  intro cs
  induction cs with
  | nil => intro v h; exact h
  | cons c cs ih =>
    intro v hv
    rw [ball_cons] at hv
    obtain ⟨a, b, ha, hb, rfl⟩ := hv
    simp only [List.filter_cons]
    split
    · rw [ball_cons]; exact ⟨a, b, ha, ih b hb, rfl⟩
    · rename_i h; simp at h
      have := isTrue_eq h; subst this; simp [bval] at ha; subst ha
      simpa using ih b hb

theorem bany_filter : ∀ (cs : List E) v, bany ρ cs = some v → bany ρ (cs.filter (fun c => !isFalse c)) = some v := by
  intro cs
  induction cs with
  | nil => intro v h; exact h
  | cons c cs ih =>
    intro v hv
    rw [bany_cons] at hv
    obtain ⟨a, b, ha, hb, rfl⟩ := hv
    simp only [List.filter_cons]
    split
    · rw [bany_cons]; exact ⟨a, b, ha, ih b hb, rfl⟩
    · rename_i h; simp at h
      have := isFalse_eq h; subst this; simp [bval] at ha; subst ha
      simpa using ih b hb

theorem landShape (cs : List E) : bval ρ (match cs with | [] => .blit true | _ => .land cs) = ball ρ cs := by
  cases cs <;> simp [bval, ball]
theorem lorShape (cs : List E) : bval ρ (match cs with | [] => .blit false | _ => .lor cs) = bany ρ cs := by
  cases cs <;> simp [bval, bany]

theorem getConstantValue_sound : ∀ (f : Nat) (e : E) (x a : Int), getConstantValue f e = some x →
    aval ρ e = some a → a = x := by
  intro f
  induction f with
  | zero => intro e x a h; simp [getConstantValue] at h
  | succ f ih =>
    intro e x a h ha
    unfold getConstantValue at h
    split at h
    · rename_i hm
      obtain ⟨b, hb, rfl⟩ := minusPrefix_val hm ha
      simp only [Option.map_eq_some_iff] at h
      obtain ⟨v, hv, rfl⟩ := h
      have := ih _ v b hv hb
      omega
    · split at h
      · simp [aval] at ha; injection h with h; omega
      · simp [aval] at ha; injection h with h; omega
      · simp at h

theorem bval_arith_none (t : E) (h : match t with | .sum .. | .prod .. | .quot .. | .pow .. => True | _ => False) :
    bval ρ t = none := by
  cases t <;> simp_all [bval]

theorem ipow_one (y : Int) : Val.ipow 1 y = some 1 := by
  unfold Val.ipow
  split
  · simp [Int.one_pow]
  · simp

/-- `SimplifyMapper` is sound in the integer reading: whatever the re-entry test `k.ne`, with `CollectCoefficients`
off, in strict mode, and given soundness of `flatten_expr` when `Flatten` is on -/
theorem simp_sound (k : K) (hk : k.strict = true) (fl : Flags) (hc : fl.collect = false)
    (hF : fl.flatten = true → ∀ (ρ : IEnv) f e e', flattenExpr true f e = some e' → RefA ρ e e') :
    ∀ (f : Nat) (t t' : E), simp k fl f t = some t' → ∀ ρ : IEnv, Ref ρ t t' := by
  intro f
  induction f with
  | zero => intro t t' h; simp [simp] at h
  | succ f ih =>
    intro t t' h ρ
    have ihm : ∀ x y, simp k fl f x = some y → Ref ρ x y := fun x y hxy => ih x y hxy ρ
    have flat : ∀ n0 n1, optIf fl.flatten (flattenExpr k.strict f) n0 = some n1 → RefA ρ n0 n1 := by
      intro n0 n1 h1
      unfold optIf at h1
      split at h1
      · rename_i hf; rw [hk] at h1; exact hF hf ρ f n0 n1 h1
      · injection h1 with h1; subst h1; exact fun _ h => h
    unfold simp at h
    split at h
    · -- sum
      rename_i p xs
      simp only [Option.bind_eq_some_iff] at h
      obtain ⟨cs, hcs, n1, hn1, n2, hn2, n3, hn3, h⟩ := h
      have h0 : RefA ρ (.sum p xs) (.sum false cs) := by
        intro v hv; rw [aval_sum] at hv ⊢; exact mapOpt_asum ihm xs cs hcs v hv
      have h1 : RefA ρ (.sum false cs) n1 := flat _ _ hn1
      have h2 : RefA ρ n1 n2 := by
        unfold optIf at hn2
        split at hn2
        · exact sumLiterals_sound f n1 n2 hn2
        · injection hn2 with hn2; subst hn2; exact fun _ h => h
      simp only [optIf, hc, Bool.false_eq_true, if_false, Option.some.injEq] at hn3
      subst hn3
      refine ⟨?_, fun v hv => by simp [bval] at hv⟩
      split at h
      · exact (h0.trans (h1.trans h2)).trans (ih _ _ h ρ).1
      · simp only [Option.some.injEq] at h; subst h; exact fun _ h => h
    · -- product
      rename_i p xs
      simp only [Option.bind_eq_some_iff] at h
      obtain ⟨cs, hcs, n1, hn1, n2, hn2, h⟩ := h
      have h0 : RefA ρ (.prod p xs) (.prod false cs) := by
        intro v hv; rw [aval_prod] at hv ⊢; exact mapOpt_aprod ihm xs cs hcs v hv
      have h1 : RefA ρ (.prod false cs) n1 := flat _ _ hn1
      have h2 : RefA ρ n1 n2 := by
        unfold optIf at hn2
        split at hn2
        · exact mulLiterals_sound f n1 n2 hn2
        · injection hn2 with hn2; subst hn2; exact fun _ h => h
      refine ⟨?_, fun v hv => by simp [bval] at hv⟩
      split at h
      · exact (h0.trans (h1.trans h2)).trans (ih _ _ h ρ).1
      · simp only [Option.some.injEq] at h; subst h; exact fun _ h => h
    · -- quotient
      rename_i p a b
      simp only [Option.bind_eq_some_iff] at h
      obtain ⟨a', ha', b', hb', n1, hn1, n2, hn2, h⟩ := h
      have h0 : RefA ρ (.quot p a b) (.quot false a' b') := by
        intro v hv
        obtain ⟨x, y, hx, hy, hy0, rfl⟩ := quot_val hv
        exact quot_mk ((ihm a a' ha').1 x hx) ((ihm b b' hb').1 y hy) hy0
      have h1 : RefA ρ (.quot false a' b') n1 := flat _ _ hn1
      have h2 : RefA ρ n1 n2 := by
        unfold optIf at hn2
        split at hn2
        · exact divLiterals_sound f n1 n2 hn2
        · injection hn2 with hn2; subst hn2; exact fun _ h => h
      refine ⟨?_, fun v hv => by simp [bval] at hv⟩
      split at h
      · exact (h0.trans (h1.trans h2)).trans (ih _ _ h ρ).1
      · simp only [Option.some.injEq] at h; subst h; exact fun _ h => h
    · -- ParenthesisedPow
      rename_i a b
      simp only [Option.bind_eq_bind, Option.bind_eq_some_iff] at h
      obtain ⟨a', ha', b', hb', h⟩ := h
      simp only [pure, Option.some.injEq] at h; subst h
      refine ⟨?_, fun v hv => by simp [bval] at hv⟩
      intro v hv
      simp only [aval] at hv ⊢
      rw [o2_some] at hv ⊢
      obtain ⟨x, y, hx, hy, hv⟩ := hv
      exact ⟨x, y, (ihm a a' ha').1 x hx, (ihm b b' hb').1 y hy, hv⟩
    · -- Power
      rename_i a b
      simp only [Option.bind_eq_bind, Option.bind_eq_some_iff] at h
      obtain ⟨a', ha', b', hb', h⟩ := h
      refine ⟨?_, fun v hv => by simp [bval] at hv⟩
      intro v hv
      simp only [aval] at hv
      rw [o2_some] at hv
      obtain ⟨x, y, hx, hy, hv⟩ := hv
      have hx' := (ihm a a' ha').1 x hx
      have hy' := (ihm b b' hb').1 y hy
      have keep : aval ρ (.pow false a' b') = some v := by
        simp only [aval]; rw [o2_some]; exact ⟨x, y, hx', hy', hv⟩
      split at h
      · split at h
        · simp at h
        · split at h
          · -- base is the literal 1
            simp only [pure, Option.some.injEq] at h; subst h
            simp only [aval, Option.some.injEq] at hx'; subst hx'
            rw [ipow_one] at hv; simpa [aval] using hv
          · simp only [aval, Option.some.injEq] at hy'; subst hy'
            split at h
            · rename_i he; simp at he; subst he
              simp only [pure, Option.some.injEq] at h; subst h
              simp [Val.ipow] at hv; simp [aval, hv]
            · split at h
              · rename_i he; simp at he; subst he
                simp only [pure, Option.some.injEq] at h; subst h
                simp [Val.ipow] at hv; subst hv; simp [hx', Int.pow_succ]
              · split at h
                · rename_i bv
                  simp only [aval, Option.some.injEq] at hx'; subst hx'
                  split at h
                  · rename_i hpos
                    simp only [pure, Option.some.injEq] at h; subst h
                    have := Int.le_of_lt hpos
                    simp [Val.ipow, this] at hv; simp [aval, hv]
                  · simp only [pure, Option.some.injEq] at h; subst h; exact keep
                · simp only [pure, Option.some.injEq] at h; subst h; exact keep
          · simp only [pure, Option.some.injEq] at h; subst h; exact keep
      · simp only [pure, Option.some.injEq] at h; subst h; exact keep
    · -- comparison
      rename_i o a b
      simp only [Option.bind_eq_bind, Option.bind_eq_some_iff] at h
      obtain ⟨a', ha', b', hb', h⟩ := h
      refine ⟨fun v hv => by simp [aval] at hv, ?_⟩
      intro v hv
      simp only [bval] at hv
      rw [o2_some] at hv
      obtain ⟨x, y, hx, hy, hv⟩ := hv
      have hx' := (ihm a a' ha').1 x hx
      have hy' := (ihm b b' hb').1 y hy
      have keep : bval ρ (.cmp o a' b') = some v := by
        simp only [bval]; rw [o2_some]; exact ⟨x, y, hx', hy', hv⟩
      split at h
      · simp only [Option.bind_eq_bind, Option.bind_eq_some_iff] at h
        obtain ⟨ca, _, cb, _, h⟩ := h
        split at h
        · simp only [Option.bind_eq_some_iff] at h
          obtain ⟨x', hgx, y', hgy, h⟩ := h
          simp only [pure, Option.some.injEq] at h; subst h
          have e1 := getConstantValue_sound f _ _ _ hgx hx'
          have e2 := getConstantValue_sound f _ _ _ hgy hy'
          subst e1; subst e2
          simpa [bval] using hv
        · simp only [pure, Option.some.injEq] at h; subst h; exact keep
      · simp only [pure, Option.some.injEq] at h; subst h; exact keep
    · -- not
      rename_i a
      simp only [Option.bind_eq_bind, Option.bind_eq_some_iff] at h
      obtain ⟨a', ha', h⟩ := h
      refine ⟨fun v hv => by simp [aval] at hv, ?_⟩
      intro v hv
      simp only [bval, Option.map_eq_some_iff] at hv
      obtain ⟨w, hw, rfl⟩ := hv
      have hw' := (ihm a a' ha').2 w hw
      have keep : bval ρ (.lnot a') = some (!w) := by simp [bval, hw']
      split at h
      · split at h
        · rename_i ht; have := isTrue_eq ht; subst this
          simp only [pure, Option.some.injEq] at h; subst h
          simp [bval] at hw'; subst hw'; simp [bval]
        · split at h
          · rename_i hf; have := isFalse_eq hf; subst this
            simp only [pure, Option.some.injEq] at h; subst h
            simp [bval] at hw'; subst hw'; simp [bval]
          · simp only [pure, Option.some.injEq] at h; subst h; exact keep
      · simp only [pure, Option.some.injEq] at h; subst h; exact keep
    · -- and
      rename_i xs
      simp only [Option.bind_eq_bind, Option.bind_eq_some_iff] at h
      obtain ⟨cs, hcs, h⟩ := h
      refine ⟨fun v hv => by simp [aval] at hv, ?_⟩
      intro v hv
      simp only [bval] at hv
      have hcv := mapOpt_ball ihm xs cs hcs v hv
      split at h
      · split at h
        · rename_i hany
          simp only [pure, Option.some.injEq] at h; subst h
          have := ball_any_false cs hany v hcv; subst this; simp [bval]
        · have key : ball ρ (if cs.any isTrue then cs.filter (fun c => !isTrue c) else cs) = some v := by
            split
            · exact ball_filter cs v hcv
            · exact hcv
          rw [← landShape] at key
          split at h <;> (simp only [pure, Option.some.injEq] at h; subst h) <;> simp_all
      · rw [← landShape] at hcv
        split at h <;> (simp only [pure, Option.some.injEq] at h; subst h) <;> simp_all
    · -- or
      rename_i xs
      simp only [Option.bind_eq_bind, Option.bind_eq_some_iff] at h
      obtain ⟨cs, hcs, h⟩ := h
      refine ⟨fun v hv => by simp [aval] at hv, ?_⟩
      intro v hv
      simp only [bval] at hv
      have hcv := mapOpt_bany ihm xs cs hcs v hv
      split at h
      · split at h
        · rename_i hany
          simp only [pure, Option.some.injEq] at h; subst h
          have := bany_any_true cs hany v hcv; subst this; simp [bval]
        · have key : bany ρ (if cs.any isFalse then cs.filter (fun c => !isFalse c) else cs) = some v := by
            split
            · exact bany_filter cs v hcv
            · exact hcv
          rw [← lorShape] at key
          split at h <;> (simp only [pure, Option.some.injEq] at h; subst h) <;> simp_all
      · rw [← lorShape] at hcv
        split at h <;> (simp only [pure, Option.some.injEq] at h; subst h) <;> simp_all
    · injection h with h; subst h; exact Ref.refl ρ _

end LokiModel.C08
