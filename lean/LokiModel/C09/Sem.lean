import LokiModel.C09.Model
/-!
# C09: integer semantics of fragment trees and value preservation of the Python-level helpers and of
`distribute_product` / `flatten_expr`
-/
namespace LokiModel.C09
open LokiModel.Expr LokiModel.C06

mutual
/-- integer value of a fragment tree under a valuation of the variables (0 for node kinds outside the fragment) -/
def ev (ρ : String → Int) : E → Int
  | .ilit n => n
  | .pyint n => n
  | .var s => ρ s
  | .sum _ xs => evSum ρ xs
  | .prod _ xs => evProd ρ xs
  | _ => 0
def evSum (ρ : String → Int) : List E → Int
  | [] => 0
  | x :: xs => ev ρ x + evSum ρ xs
def evProd (ρ : String → Int) : List E → Int
  | [] => 1
  | x :: xs => ev ρ x * evProd ρ xs
end

variable (ρ : String → Int)

@[simp] theorem ev_ilit (n) : ev ρ (.ilit n) = n := by rw [ev]
@[simp] theorem ev_pyint (n) : ev ρ (.pyint n) = n := by rw [ev]
@[simp] theorem ev_var (s) : ev ρ (.var s) = ρ s := by rw [ev]
@[simp] theorem ev_sum (p xs) : ev ρ (.sum p xs) = evSum ρ xs := by rw [ev]
@[simp] theorem ev_prod (p xs) : ev ρ (.prod p xs) = evProd ρ xs := by rw [ev]
@[simp] theorem evSum_nil : evSum ρ [] = 0 := by rw [evSum]
@[simp] theorem evSum_cons (x xs) : evSum ρ (x :: xs) = ev ρ x + evSum ρ xs := by rw [evSum]
@[simp] theorem evProd_nil : evProd ρ [] = 1 := by rw [evProd]
@[simp] theorem evProd_cons (x xs) : evProd ρ (x :: xs) = ev ρ x * evProd ρ xs := by rw [evProd]

theorem evSum_append (xs ys : List E) : evSum ρ (xs ++ ys) = evSum ρ xs + evSum ρ ys := by
  induction xs with
  | nil => simp
  | cons x xs ih => simp [ih, Int.add_assoc]

theorem evProd_append (xs ys : List E) : evProd ρ (xs ++ ys) = evProd ρ xs * evProd ρ ys := by
  induction xs with
  | nil => simp
  | cons x xs ih => simp [ih, Int.mul_assoc]

mutual
theorem truthy_false : ∀ e, truthy e = false → ev ρ e = 0
  | .ilit n, h => by simp [truthy] at h; simp [h]
  | .pyint n, h => by simp [truthy] at h; simp [h]
  | .sum _ [x], h => by
      rw [truthy] at h; simp [truthy_false x h]
  | .prod _ xs, h => by
      rw [truthy] at h; simp [truthyAll_false xs h]
  | .sum _ [], h => by simp [truthy] at h
  | .sum _ (_ :: _ :: _), h => by simp [truthy] at h
  | .var _, h => by simp [truthy] at h
  | .rlit _, h => by simp [truthy] at h
  | .blit _, h => by simp [truthy] at h
  | .quot _ _ _, _ => by rw [ev] <;> (intros; simp_all)
  | .pow _ _ _, h => by simp [truthy] at h
  | .cmp _ _ _, h => by simp [truthy] at h
  | .lnot _, h => by simp [truthy] at h
  | .land _, h => by simp [truthy] at h
  | .lor _, h => by simp [truthy] at h
theorem truthyAll_false : ∀ xs, truthyAll xs = false → evProd ρ xs = 0
  | [], h => by simp [truthyAll] at h
  | x :: xs, h => by
      rw [truthyAll] at h
      cases hx : truthy x with
      | false => simp [truthy_false x hx]
      | true => rw [hx] at h; simp at h; simp [truthyAll_false xs h]
end

theorem isPyMinusOne_ev {c : E} (h : isPyMinusOne c = true) : ev ρ c = -1 := by
  cases c <;> simp [isPyMinusOne] at h
  simp [h]

theorem isMinusOne_ev {c : E} (h : isMinusOne c = true) : ev ρ c = -1 := by
  cases c <;> simp [isMinusOne] at h <;> simp [h]

theorem ev_negE (b : E) : ev ρ (negE b) = - ev ρ b := by
  cases b <;> simp [negE, ev] <;> omega

/-- a minus-prefixed product is minus its stripped form -/
theorem ev_stripMinus {d : E} (h : isMinusPrefix d = true) : ev ρ (stripMinus d) = - ev ρ d := by
  match d, h with
  | .prod _ [c], h =>
      have := isPyMinusOne_ev ρ (c := c) (by simpa [isMinusPrefix] using h)
      simp [stripMinus, this]
  | .prod _ [c, x], h =>
      have := isPyMinusOne_ev ρ (c := c) (by simpa [isMinusPrefix] using h)
      simp [stripMinus, this]
  | .prod _ (c :: x :: y :: r), h =>
      have := isPyMinusOne_ev ρ (c := c) (by simpa [isMinusPrefix] using h)
      simp [stripMinus, this]

theorem ev_subE (a b : E) : ev ρ (subE a b).1 = ev ρ a - ev ρ b := by
  unfold subE
  cases hb : truthy b with
  | false =>
      have := truthy_false ρ b hb
      cases a <;> simp [this]
  | true =>
      cases a with
      | sum p xs => simp [evSum_append, ev_negE]; omega
      | _ =>
        simp only [if_true]
        split
        · simp [ev_negE, ev] <;> omega
        · rename_i h
          have := truthy_false ρ _ (by simpa using h)
          simp [ev_negE] at this ⊢; omega

end LokiModel.C09
