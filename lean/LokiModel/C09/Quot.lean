import LokiModel.C09.Model
/-!
# C09: `distribute_quotient` (`loki/expression/symbolic.py`) — model and value preservation under exact division

`simplify` (and therefore `symbolic_op`) treats `/` as exact division.  `distributeQuotient` mirrors
`distribute_quotient`: the minus-prefix branches for numerator and denominator, the queue loop over the (nested) summands
of the numerator with `IntLiteral(0)` skipped, the nested-quotient branch `(x/y)/d ↦ x/(y*d)` with Python's
`item.denominator * expr.denominator` (`mulE`: `Expression.__mul__` / `Product.__mul__`; the product it builds is a
*pymbolic* `Product`, which `is_minus_prefix` does not recognise: flag `pm`), and `Quotient(item, d)` otherwise.
`evQ` is the rational meaning of a tree (`x / 0 = 0` as in `Rat`); `distq_ev` proves that every result has the meaning of
the input.  When no summand is left the real code returns `IntLiteral(1)` (wrong: the value is 0; unreachable through
`simplify`, which drops falsy quotients first); the model stops with `none` there.
-/
namespace LokiModel.C09
open LokiModel.Expr LokiModel.C06

mutual
/-- the queue of `distribute_quotient` with nested sums expanded in place -/
def sumItems : E → List E
  | .sum _ xs => sumItemsList xs
  | e => [e]
def sumItemsList : List E → List E
  | [] => []
  | x :: xs => sumItems x ++ sumItemsList xs
end

def isIlitZero : E → Bool
  | .ilit v => v == 0
  | _ => false

def isPyOne : E → Bool
  | .pyint v => v == 1
  | _ => false

/-- `x * y` for a Loki node `x`; the flag says that the result is a freshly built pymbolic `Product` -/
def mulE (x y : E) : E × Bool :=
  match x with
  | .prod _ xs =>
    match y with
    | .prod _ ys => (.prod false (xs ++ ys), true)
    | _ => if !truthy y then (.pyint 0, false) else if isPyOne y then (x, false) else (.prod false (xs ++ [y]), true)
  | _ => if isPyOne y then (x, false) else if !truthy y then (.pyint 0, false) else (.prod false [x, y], true)

def mkSumQ : List E → Option E
  | [] => none
  | [x] => some x
  | xs => some (.sum false xs)

def mapOptQ (g : E → Option E) : List E → Option (List E)
  | [] => some []
  | x :: xs => (g x).bind fun y => (mapOptQ g xs).map fun ys => y :: ys

/-- `distribute_quotient(e)`; `pm`: the denominator of `e` is a pymbolic product -/
def distributeQuotient : Nat → Bool → E → Option E
  | 0, _, _ => none
  | f + 1, pm, e =>
    match e with
    | .quot _ a b =>
      if isMinusPrefix a then
        (distributeQuotient f pm (.quot false (stripMinus a) b)).map fun r => .prod false [.pyint (-1), r]
      else if !pm && isMinusPrefix b then
        (distributeQuotient f false (.quot false a (stripMinus b))).map fun r => .prod false [.pyint (-1), r]
      else
        (mapOptQ (fun item =>
            match item with
            | .quot _ x y => distributeQuotient f (mulE y b).2 (.quot false x (mulE y b).1)
            | _ => some (.quot false item b))
          ((sumItems a).filter fun i => !isIlitZero i)).bind mkSumQ
    | _ => some e

def DQFUEL : Nat := 64

/-! ## rational semantics -/

mutual
def evQ (ρ : String → Rat) : E → Rat
  | .ilit n => (n : Rat)
  | .pyint n => (n : Rat)
  | .var s => ρ s
  | .sum _ xs => evQSum ρ xs
  | .prod _ xs => evQProd ρ xs
  | .quot _ a b => evQ ρ a / evQ ρ b
  | _ => 0
def evQSum (ρ : String → Rat) : List E → Rat
  | [] => 0
  | x :: xs => evQ ρ x + evQSum ρ xs
def evQProd (ρ : String → Rat) : List E → Rat
  | [] => 1
  | x :: xs => evQ ρ x * evQProd ρ xs
end

variable (ρ : String → Rat)

@[simp] theorem evQ_ilit (n) : evQ ρ (.ilit n) = (n : Rat) := by rw [evQ]
@[simp] theorem evQ_pyint (n) : evQ ρ (.pyint n) = (n : Rat) := by rw [evQ]
@[simp] theorem evQ_sum (p xs) : evQ ρ (.sum p xs) = evQSum ρ xs := by rw [evQ]
@[simp] theorem evQ_prod (p xs) : evQ ρ (.prod p xs) = evQProd ρ xs := by rw [evQ]
@[simp] theorem evQ_quot (p a b) : evQ ρ (.quot p a b) = evQ ρ a / evQ ρ b := by rw [evQ]
@[simp] theorem evQSum_nil : evQSum ρ [] = 0 := by rw [evQSum]
@[simp] theorem evQSum_cons (x xs) : evQSum ρ (x :: xs) = evQ ρ x + evQSum ρ xs := by rw [evQSum]
@[simp] theorem evQProd_nil : evQProd ρ [] = 1 := by rw [evQProd]
@[simp] theorem evQProd_cons (x xs) : evQProd ρ (x :: xs) = evQ ρ x * evQProd ρ xs := by rw [evQProd]

theorem evQSum_append (xs ys : List E) : evQSum ρ (xs ++ ys) = evQSum ρ xs + evQSum ρ ys := by
  induction xs with
  | nil => simp [Rat.zero_add]
  | cons x xs ih => simp [ih, Rat.add_assoc]

theorem evQProd_append (xs ys : List E) : evQProd ρ (xs ++ ys) = evQProd ρ xs * evQProd ρ ys := by
  induction xs with
  | nil => simp
  | cons x xs ih => simp [ih, Rat.mul_assoc]


mutual
theorem truthy_falseQ : ∀ e, truthy e = false → evQ ρ e = 0
  | .ilit n, h => by simp [truthy] at h; simp [h]
  | .pyint n, h => by simp [truthy] at h; simp [h]
  | .sum _ [x], h => by
      rw [truthy] at h; simp [truthy_falseQ x h, Rat.add_zero]
  | .prod _ xs, h => by
      rw [truthy] at h; simp [truthyAll_falseQ xs h]
  | .quot _ a _, h => by
      rw [truthy] at h; simp [truthy_falseQ a h, Rat.div_def]
  | .sum _ [], h => by simp [truthy] at h
  | .sum _ (_ :: _ :: _), h => by simp [truthy] at h
  | .var _, h => by simp [truthy] at h
  | .rlit _, h => by simp [truthy] at h
  | .blit _, h => by simp [truthy] at h
  | .pow _ _ _, h => by simp [truthy] at h
  | .cmp _ _ _, h => by simp [truthy] at h
  | .lnot _, h => by simp [truthy] at h
  | .land _, h => by simp [truthy] at h
  | .lor _, h => by simp [truthy] at h
theorem truthyAll_falseQ : ∀ xs, truthyAll xs = false → evQProd ρ xs = 0
  | [], h => by simp [truthyAll] at h
  | x :: xs, h => by
      rw [truthyAll] at h
      cases hx : truthy x with
      | false => simp [truthy_falseQ x hx]
      | true => rw [hx] at h; simp at h; simp [truthyAll_falseQ xs h, Rat.mul_zero]
end

theorem isPyMinusOne_evQ {c : E} (h : isPyMinusOne c = true) : evQ ρ c = -1 := by
  cases c <;> simp [isPyMinusOne] at h
  simp [h]

theorem evQ_stripMinus {d : E} (h : isMinusPrefix d = true) : evQ ρ d = - evQ ρ (stripMinus d) := by
  match d, h with
  | .prod _ [c], h =>
      have := isPyMinusOne_evQ ρ (c := c) (by simpa [isMinusPrefix] using h)
      simp [stripMinus, this]
  | .prod _ [c, x], h =>
      have := isPyMinusOne_evQ ρ (c := c) (by simpa [isMinusPrefix] using h)
      simp [stripMinus, this, Rat.neg_mul]
  | .prod _ (c :: x :: y :: r), h =>
      have := isPyMinusOne_evQ ρ (c := c) (by simpa [isMinusPrefix] using h)
      simp [stripMinus, this, Rat.neg_mul]

theorem evQ_mulE (x y : E) : evQ ρ (mulE x y).1 = evQ ρ x * evQ ρ y := by
  unfold mulE
  have hone : isPyOne y = true → evQ ρ y = 1 := by
    intro h; cases y <;> simp [isPyOne] at h; simp [h]
  cases x with
  | prod p xs =>
    cases y with
    | prod q ys => simp [evQProd_append]
    | _ =>
      simp only
      split
      · rename_i h; simp [truthy_falseQ ρ _ (by simpa using h), Rat.mul_zero]
      · split
        · rename_i h; simp [hone h]
        · simp [evQProd_append]
  | _ =>
    simp only
    split
    · rename_i h; simp [hone h]
    · split
      · rename_i h; simp [truthy_falseQ ρ _ (by simpa using h), Rat.mul_zero]
      · simp

mutual
theorem evQSum_sumItems : ∀ e, evQSum ρ (sumItems e) = evQ ρ e
  | .sum _ xs => by rw [sumItems, evQSum_sumItemsList xs]; simp
  | .ilit _ => by simp [sumItems, Rat.add_zero]
  | .pyint _ => by simp [sumItems, Rat.add_zero]
  | .var _ => by simp [sumItems, Rat.add_zero]
  | .prod _ _ => by simp [sumItems, Rat.add_zero]
  | .quot _ _ _ => by simp [sumItems, Rat.add_zero]
  | .rlit _ => by simp [sumItems, Rat.add_zero]
  | .blit _ => by simp [sumItems, Rat.add_zero]
  | .pow _ _ _ => by simp [sumItems, Rat.add_zero]
  | .cmp _ _ _ => by simp [sumItems, Rat.add_zero]
  | .lnot _ => by simp [sumItems, Rat.add_zero]
  | .land _ => by simp [sumItems, Rat.add_zero]
  | .lor _ => by simp [sumItems, Rat.add_zero]
theorem evQSum_sumItemsList : ∀ xs, evQSum ρ (sumItemsList xs) = evQSum ρ xs
  | [] => by simp [sumItemsList]
  | x :: xs => by
      rw [sumItemsList, evQSum_append, evQSum_sumItems x, evQSum_sumItemsList xs]; simp
end

theorem evQSum_filter_zero (xs : List E) : evQSum ρ (xs.filter fun i => !isIlitZero i) = evQSum ρ xs := by
  induction xs with
  | nil => simp
  | cons x xs ih =>
    cases hx : isIlitZero x with
    | false => simp [hx, ih]
    | true =>
      have : evQ ρ x = 0 := by cases x <;> simp [isIlitZero] at hx; simp [hx]
      simp [hx, ih, this, Rat.zero_add]

theorem evQ_mkSumQ {xs : List E} {r : E} (h : mkSumQ xs = some r) : evQ ρ r = evQSum ρ xs := by
  match xs, h with
  | [x], h => simp [mkSumQ] at h; subst h; simp [Rat.add_zero]
  | _ :: _ :: _, h => simp [mkSumQ] at h; subst h; simp

theorem mapOptQ_ev (g : E → Option E) (d : Rat) (hg : ∀ x y, g x = some y → evQ ρ y = evQ ρ x / d) :
    ∀ (xs ys : List E), mapOptQ g xs = some ys → evQSum ρ ys = evQSum ρ xs / d
  | [], ys, h => by simp [mapOptQ] at h; subst h; simp [Rat.div_def]
  | x :: xs, ys, h => by
      simp only [mapOptQ] at h
      cases hx : g x with
      | none => simp [hx] at h
      | some y =>
        cases hr : mapOptQ g xs with
        | none => simp [hx, hr] at h
        | some ys' =>
          simp [hx, hr] at h; subst h
          simp [hg _ _ hx, mapOptQ_ev g d hg xs ys' hr, Rat.div_def, Rat.add_mul]

/-- **`distribute_quotient` preserves the value under exact division** (the nested-quotient branch is
`(x / y) / d = x / (y * d)`) -/
theorem distq_ev : ∀ (f : Nat) (pm : Bool) (e r : E), distributeQuotient f pm e = some r → evQ ρ r = evQ ρ e
  | 0, _, _, _, h => by simp [distributeQuotient] at h
  | f + 1, pm, e, r, h => by
      cases e with
      | quot p a b =>
        simp only [distributeQuotient] at h
        split at h
        · rename_i hm
          cases hr : distributeQuotient f pm (.quot false (stripMinus a) b) with
          | none => simp [hr] at h
          | some r1 =>
            have ih := distq_ev f pm _ _ hr
            simp [hr] at h; subst h
            simp [ih, evQ_stripMinus ρ hm, Rat.div_def, Rat.neg_mul]
        · split at h
          · rename_i hm
            have hm' : isMinusPrefix b = true := by
              cases pm <;> simp_all
            cases hr : distributeQuotient f false (.quot false a (stripMinus b)) with
            | none => simp [hr] at h
            | some r1 =>
              have ih := distq_ev f false _ _ hr
              simp [hr] at h; subst h
              simp only [evQ_prod, evQProd_cons, evQProd_nil, evQ_pyint, ih, evQ_quot, evQ_stripMinus ρ hm']
              grind
          · cases hd : mapOptQ (fun item =>
                match item with
                | .quot _ x y => distributeQuotient f (mulE y b).2 (.quot false x (mulE y b).1)
                | _ => some (.quot false item b))
              ((sumItems a).filter fun i => !isIlitZero i) with
            | none => simp [hd] at h
            | some done =>
              simp [hd] at h
              rw [evQ_mkSumQ ρ h]
              rw [mapOptQ_ev ρ _ (evQ ρ b) ?_ _ _ hd, evQSum_filter_zero, evQSum_sumItems]; simp
              intro x y hxy
              cases x with
              | quot q x1 y1 =>
                simp only at hxy
                rw [distq_ev f _ _ _ hxy]
                simp only [evQ_quot, evQ_mulE]
                grind
              | _ => simp at hxy; subst hxy; simp
      | _ => simp [distributeQuotient] at h; subst h; rfl

end LokiModel.C09
