import LokiModel.C09.Sem
/-! # C09: `distribute_product` and `flatten_expr` preserve the value -/
namespace LokiModel.C09
open LokiModel.Expr LokiModel.C06

variable (ρ : String → Int)

mutual
theorem evProd_factorsOf : ∀ e, evProd ρ (factorsOf e) = ev ρ e
  | .prod _ xs => by rw [factorsOf, evProd_factorsList xs]; simp
  | .ilit _ => by simp [factorsOf]
  | .pyint _ => by simp [factorsOf]
  | .var _ => by simp [factorsOf]
  | .sum _ _ => by simp [factorsOf]
  | .rlit _ => by simp [factorsOf]
  | .blit _ => by simp [factorsOf]
  | .quot _ _ _ => by simp [factorsOf]
  | .pow _ _ _ => by simp [factorsOf]
  | .cmp _ _ _ => by simp [factorsOf]
  | .lnot _ => by simp [factorsOf]
  | .land _ => by simp [factorsOf]
  | .lor _ => by simp [factorsOf]
theorem evProd_factorsList : ∀ xs, evProd ρ (factorsList xs) = evProd ρ xs
  | [] => by simp [factorsList]
  | x :: xs => by
      rw [factorsList, evProd_append, evProd_factorsOf x, evProd_factorsList xs]; simp
end

/-- value of the list of partial products of `distribute_product` -/
def sumProds : List (List E) → Int
  | [] => 0
  | l :: ls => evProd ρ l + sumProds ls

theorem sumProds_append (xs ys : List (List E)) : sumProds ρ (xs ++ ys) = sumProds ρ xs + sumProds ρ ys := by
  induction xs with
  | nil => simp [sumProds]
  | cons x xs ih => simp [sumProds, ih, Int.add_assoc]

theorem sumProds_snoc (done : List (List E)) (c : E) :
    sumProds ρ (done.map (· ++ [c])) = sumProds ρ done * ev ρ c := by
  induction done with
  | nil => simp [sumProds]
  | cons l ls ih => simp [sumProds, ih, evProd_append, Int.add_mul]

theorem sumProds_dist (done : List (List E)) (cs : List E) :
    sumProds ρ (cs.flatMap fun c => done.map (· ++ [c])) = sumProds ρ done * evSum ρ cs := by
  induction cs with
  | nil => simp [sumProds]
  | cons c cs ih => simp [List.flatMap_cons, sumProds_append, sumProds_snoc, ih, Int.mul_add]

theorem sumProds_dpStep (done : List (List E)) (item : E) :
    sumProds ρ (dpStep done item) = sumProds ρ done * ev ρ item := by
  cases item <;> simp only [dpStep, sumProds_snoc, sumProds_dist, ev_sum]
  rename_i v
  by_cases h : v = 1
  · simp [h]
  · simp [h, sumProds_snoc]

theorem sumProds_foldl (items : List E) (done : List (List E)) :
    sumProds ρ (items.foldl dpStep done) = sumProds ρ done * evProd ρ items := by
  induction items generalizing done with
  | nil => simp
  | cons x xs ih => simp [ih, sumProds_dpStep, Int.mul_assoc]

theorem ev_mkProd (xs : List E) : ev ρ (mkProd xs) = evProd ρ xs := by
  match xs with
  | [] => simp [mkProd]
  | [x] => simp [mkProd]
  | _ :: _ :: _ => simp [mkProd]

theorem ev_mkSum (xs : List E) : ev ρ (mkSum xs) = evSum ρ xs := by
  match xs with
  | [] => simp [mkSum]
  | [x] => simp [mkSum]
  | _ :: _ :: _ => simp [mkSum]

/-- dropping the `-1` factors and keeping the parity of their number preserves the product -/
theorem evProd_filter_minusOne (l : List E) :
    evProd ρ l = (if (l.filter isMinusOne).length % 2 == 1 then -1 else 1) * evProd ρ (l.filter fun v => !isMinusOne v) := by
  induction l with
  | nil => simp
  | cons x xs ih =>
    cases hx : isMinusOne x with
    | true =>
      have hv := isMinusOne_ev ρ hx
      simp only [List.filter_cons, hx, if_true, List.length_cons, Bool.not_true, Bool.false_eq_true, if_false,
        evProd_cons, hv, ih]
      by_cases hp : (List.filter isMinusOne xs).length % 2 = 1
      · have : ((List.filter isMinusOne xs).length + 1) % 2 ≠ 1 := by omega
        simp [hp, this]
      · have : ((List.filter isMinusOne xs).length + 1) % 2 = 1 := by omega
        simp [hp, this]
    | false =>
      simp only [List.filter_cons, hx, Bool.false_eq_true, if_false, Bool.not_false, if_true, evProd_cons, ih]
      simp [Int.mul_left_comm]

theorem ev_dpBuild (l : List E) : ev ρ (dpBuild l) = evProd ρ l := by
  have key := evProd_filter_minusOne ρ l
  unfold dpBuild
  have hc := ev_mkProd ρ (l.filter fun v => !isMinusOne v)
  by_cases hp : (l.filter isMinusOne).length % 2 = 1
  · simp only [hp, beq_self_eq_true, if_true] at key ⊢
    simp [hc, key]
  · have : ((l.filter isMinusOne).length % 2 == 1) = false := by simpa using hp
    simp only [this, Bool.false_eq_true, if_false] at key ⊢
    simp [hc, key]

theorem sumProds_map_dpBuild (ls : List (List E)) : evSum ρ (ls.map dpBuild) = sumProds ρ ls := by
  induction ls with
  | nil => simp [sumProds]
  | cons l ls ih => simp [sumProds, ih, ev_dpBuild]

theorem ev_distributeProduct {e r : E} (h : distributeProduct e = some r) : ev ρ r = ev ρ e := by
  cases e with
  | prod p xs =>
    have key := sumProds_foldl ρ (factorsList xs) [[]]
    simp only [sumProds, evProd_nil, Int.add_zero, Int.one_mul, evProd_factorsList] at key
    simp only [distributeProduct] at h
    split at h
    · simp at h
    · rename_i l hl
      rw [hl] at key
      simp only [Option.some.injEq] at h
      subst h
      simp [ev_dpBuild, ← key, sumProds]
    · simp only [Option.some.injEq] at h
      subst h
      simp [sumProds_map_dpBuild, key]
  | _ => simp [distributeProduct] at h; subst h; rfl

theorem evSum_flLoop : ∀ (f : Nat) (q done r : List E), flLoop f q done = some r →
    evSum ρ r = evSum ρ done + evSum ρ q
  | 0, q, done, r, h => by simp [flLoop] at h; subst h; simp [evSum_append]
  | f + 1, [], done, r, h => by simp [flLoop] at h; subst h; simp
  | f + 1, item :: q, done, r, h => by
      rw [flLoop] at h
      cases ht : truthy item with
      | false =>
        simp [ht] at h
        rw [evSum_flLoop f q done r h, evSum_cons, truthy_false ρ item ht]; simp
      | true =>
        simp only [ht, Bool.not_true, Bool.false_eq_true, if_false] at h
        cases hd : distributeProduct item with
        | none => simp [hd] at h
        | some it =>
          have hv := ev_distributeProduct ρ hd
          rw [hd] at h
          cases it with
          | sum p cs =>
            simp only at h
            rw [evSum_flLoop f (cs ++ q) done r h]
            simp only [evSum_append, evSum_cons, ← hv, ev_sum]
          | _ =>
            simp only at h
            rw [evSum_flLoop f q _ r h]
            simp only [evSum_append, evSum_cons, evSum_nil, ← hv]; omega

theorem ev_flattenExpr {e r : E} (h : flattenExpr e = some r) : ev ρ r = ev ρ e := by
  unfold flattenExpr at h
  cases hl : flLoop FLFUEL [e] [] with
  | none => simp [hl] at h
  | some l =>
    simp [hl] at h; subst h
    rw [ev_mkSum, evSum_flLoop ρ _ _ _ _ hl]; simp

end LokiModel.C09
