import LokiModel.C06.Model
import LokiModel.Generated.C09Tables
/-!
# C09 model: `symbolic_op` (`loki/expression/symbolic.py`) and the part of `simplify` it relies on

`symbolicOp a o b` mirrors `symbolic_op(a, op, b)` for the six comparison operators on trees of the integer
fragment (`IntLiteral`, bare Python ints, scalar variables, `Sum`, `Product`):

* `subE a b` — Python's `a - b` as pymbolic builds it (`Expression.__sub__`, `Sum.__sub__`, `__neg__` →
  `__rmul__(-1)`, `Product.__rmul__`, truthiness `bool(node)` deciding `is_nonzero`); the fresh nodes are
  *pymbolic* classes (`pm = true`), which matters for the `new_expr != expr` test of `SimplifyMapper`;
* `simp` — `SimplifyMapper.map_sum` / `map_product` with all simplifications enabled:
  children first, then `flatten_expr` (`distribute_product`), `sum_literals`, `collect_coefficients`
  (`accumulate_polynomial_terms`, `separate_coefficients`) resp. `mul_literals`, and re-run on the result while
  `new_expr != expr` (`changed`: same class and same canonical string, `StrCompareMixin.__eq__`);
* `isMinusPrefix` / `stripMinus`, the recursion of `symbolic_op` on the stripped expression (`not` for `< <= > >=`);
* `cmpZero` — Python's `op(node, 0)` on the final node, from the generated table `Tables.otherCmp`.

Loops are structural or use fuel (`none` = fuel exhausted / an `IndexError` path = the call raises).
Quotients, powers, floats are outside the fragment of `symbolicOp` (treated as opaque leaves); `distribute_quotient` is
modelled on its own in `LokiModel/C09/Quot.lean`.  Core Lean only.
-/
namespace LokiModel.C09
open LokiModel.Expr LokiModel.C06

inductive Ans where
  | yes | no | raise
deriving Repr, DecidableEq, Inhabited

/-! ## Python-level helpers -/

/-- `str.lower()` (kernel-reducible form of `String.toLower`) -/
def lower (s : String) : String := String.ofList (s.toList.map Char.toLower)

mutual
/-- `bool(node)`: `IntLiteral.__bool__`, `Sum.__bool__`, `Product.__bool__`, `QuotientBase.__bool__`, default `True` -/
def truthy : E → Bool
  | .ilit n => n != 0
  | .pyint n => n != 0
  | .sum _ [x] => truthy x
  | .prod _ xs => truthyAll xs
  | .quot _ a _ => truthy a
  | _ => true
def truthyAll : List E → Bool
  | [] => true
  | x :: xs => truthy x && truthyAll xs
end

/-- `is_minus_prefix`: a `Product` whose first child `c` satisfies `is_zero(c + 1)` — only a bare Python `-1` -/
def isMinusPrefix : E → Bool
  | .prod _ (c :: _) => isPyMinusOne c
  | _ => false

/-- `strip_minus_prefix` (on a minus-prefixed product) -/
def stripMinus : E → E
  | .prod _ [_, x] => x
  | .prod _ (_ :: xs) => .prod false xs
  | e => e

/-- `-b`, i.e. `b.__rmul__(-1)` -/
def negE : E → E
  | .prod _ xs => .prod false (.pyint (-1) :: xs)
  | b => .prod false [.pyint (-1), b]

/-- `a - b`; the flag says that the result is a freshly built pymbolic node -/
def subE (a b : E) : E × Bool :=
  match a with
  | .sum _ xs => if truthy b then (.sum false (xs ++ [negE b]), true) else (a, false)
  | _ =>
    if truthy b then
      if truthy a then (.sum false [a, negE b], true) else (negE b, true)
    else (a, false)

/-! ## `distribute_product` / `flatten_expr` -/

mutual
/-- the queue of `distribute_product` with nested products expanded in place -/
def factorsOf : E → List E
  | .prod _ xs => factorsList xs
  | e => [e]
def factorsList : List E → List E
  | [] => []
  | x :: xs => factorsOf x ++ factorsList xs
end

def dpStep (done : List (List E)) (item : E) : List (List E) :=
  match item with
  | .ilit v => if v == 1 then done else done.map (· ++ [item])
  | .sum _ cs => cs.flatMap fun c => done.map (· ++ [c])
  | _ => done.map (· ++ [item])

def mkProd : List E → E
  | [] => .ilit 1
  | [x] => x
  | xs => .prod false xs

/-- one new product: drop the `-1`s (`v == -1`: Python `-1` or `IntLiteral(-1)`), keep the sign -/
def dpBuild (components : List E) : E :=
  let isNeg := (components.filter isMinusOne).length % 2 == 1
  let comps := components.filter (fun v => !isMinusOne v)
  let c := mkProd comps
  if isNeg then .prod false [.pyint (-1), c] else c

/-- `distribute_product`.  With an empty `Sum` among the factors the real code returns `IntLiteral(1)` (`if not done`);
that path is outside the fragment and not modelled (`none`). -/
def distributeProduct : E → Option E
  | .prod _ xs =>
    match (factorsList xs).foldl dpStep [[]] with
    | [] => none
    | [l] => some (dpBuild l)
    | ls => some (.sum false (ls.map dpBuild))
  | e => some e

/-- the loop of `flatten_expr` (fuel exhausted: the rest is kept as it is) -/
def flLoop : Nat → List E → List E → Option (List E)
  | 0, q, done => some (done ++ q)
  | _ + 1, [], done => some done
  | f + 1, item :: q, done =>
    if !truthy item then flLoop f q done
    else
      match distributeProduct item with
      | none => none
      | some (.sum _ cs) => flLoop f (cs ++ q) done
      | some item' => flLoop f q (done ++ [item'])

def FLFUEL : Nat := 4000

def mkSum : List E → E
  | [] => .ilit 0
  | [x] => x
  | xs => .sum false xs

def flattenExpr (e : E) : Option E := (flLoop FLFUEL [e] []).map mkSum

/-! ## `sum_literals` -/

/-- `_process` of `sum_literals`: (literal value, remaining component) -/
def procS : Nat → E → Int × Option E
  | _, .ilit v => (v, none)
  | 0, child => (0, some child)
  | f + 1, child =>
    if isMinusPrefix child then
      let r := procS f (stripMinus child)
      if r.1 != 0 then (-r.1, r.2) else (0, some child)
    else (0, some child)

def PFUEL : Nat := 200

def sumLiterals : E → E
  | .sum _ cs =>
    let ps := cs.map (procS PFUEL)
    let value := (ps.map (·.1)).sum
    let rem := ps.filterMap (·.2)
    mkSum (if value != 0 then .ilit value :: rem else rem)
  | e => e

/-! ## `separate_coefficients`, `mul_literals` -/

/-- inner `_process` of `separate_coefficients` (after the `fix:` commit: recursion on `strip_minus_prefix(child)`;
before it only `child.children[1]` was looked at and further factors were dropped) -/
def procP : Nat → E → Option (Int × Option E)
  | _, .pyint k => some (k, none)
  | _, .ilit v => some (v, none)
  | 0, _ => none
  | f + 1, child =>
    if isMinusPrefix child then (procP f (stripMinus child)).map fun r => (-r.1, r.2)
    else some (1, some child)

def iprod : List Int → Int
  | [] => 1
  | x :: xs => x * iprod xs

def mapOpt {α β} (g : α → Option β) : List α → Option (List β)
  | [] => some []
  | x :: xs => do
    let y ← g x
    let ys ← mapOpt g xs
    pure (y :: ys)

def sepC : Nat → E → Option (Int × List E)
  | _, .ilit v => some (v, [])
  | 0, _ => none
  | f + 1, e =>
    match e with
    | .prod _ xs =>
      if isMinusPrefix e then (sepC f (stripMinus e)).map fun r => (-r.1, r.2)
      else (mapOpt (procP PFUEL) xs).map fun ps => (iprod (ps.map (·.1)), ps.filterMap (·.2))
    | _ => some (1, [e])

def mulLiterals (e : E) : Option E :=
  match e with
  | .prod _ _ =>
    (sepC PFUEL e).map fun r =>
      if r.1 == 0 then .ilit 0
      else
        let ret := mkProd (if r.1.natAbs != 1 then .ilit r.1.natAbs :: r.2 else r.2)
        if r.1 < 0 then .prod false [.pyint (-1), ret] else ret
  | _ => some e

/-! ## `collect_coefficients` -/

/-- `str(node)` as the key for `sorted(..., key=str)` and for `==` between Loki nodes: the printer tokens of the C06
model, rendered without spaces, lower case (exact for the leaves that occur as bases in the fragment) -/
def tokStr : Tok → String
  | .num n => toString n
  | .rnum t => t
  | .id s => lower s
  | .tru => ".true." | .fls => ".false."
  | .plus => "+" | .minus => "-" | .star => "*" | .slash => "/" | .pow => "**" | .lp => "(" | .rp => ")"
  | .cmp o => match o with
    | .eq => "==" | .ne => "!=" | .lt => "<" | .le => "<=" | .gt => ">" | .ge => ">="
  | .not => "not" | .and => "and" | .or => "or"

def strOf (e : E) : String := String.join ((printF fcfg e 0).map tokStr)

/-- stable insertion sort by the string key -/
def insertBy (x : E) : List E → List E
  | [] => [x]
  | y :: ys => if strOf y ≤ strOf x then y :: insertBy x ys else x :: y :: ys

def sortByStr : List E → List E
  | [] => []
  | x :: xs => insertBy x (sortByStr xs)

mutual
/-- `==` between two components of a dictionary key (same class, same text) -/
def beqE : E → E → Bool
  | .ilit a, .ilit b => a == b
  | .ilit a, .pyint b => a == b
  | .pyint a, .ilit b => a == b
  | .pyint a, .pyint b => a == b
  | .var s, .var t => lower s == lower t
  | .sum p xs, .sum q ys => p == q && beqList xs ys
  | .prod p xs, .prod q ys => p == q && beqList xs ys
  | _, _ => false
def beqList : List E → List E → Bool
  | [], [] => true
  | x :: xs, y :: ys => beqE x y && beqList xs ys
  | _, _ => false
end

/-- `summands[key] += v` on the insertion-ordered dictionary -/
def addTerm (key : List E) (v : Int) : List (List E × Int) → List (List E × Int)
  | [] => [(key, v)]
  | (k, c) :: rest => if beqList k key then (k, c + v) :: rest else (k, c) :: addTerm key v rest

/-- one item of `accumulate_polynomial_terms`: state = (constant `summands[1]`, other summands) -/
def accItem (st : Int × List (List E × Int)) (item : E) : Option (Int × List (List E × Int)) :=
  match item with
  | .prod _ _ =>
    (sepC PFUEL item).map fun r =>
      if r.1 == 0 then st
      else if r.2.isEmpty then (st.1 + r.1, st.2)
      else (st.1, addTerm (sortByStr r.2) r.1 st.2)
  | .pyint k => some (st.1 + k, st.2)
  | .ilit v => some (st.1 + v, st.2)
  | _ => some (st.1, addTerm [item] 1 st.2)

def accAll : Int × List (List E × Int) → List E → Option (Int × List (List E × Int))
  | st, [] => some st
  | st, x :: xs => (accItem st x).bind fun st' => accAll st' xs

def coefOf (v : Int) : List E :=
  if v == 1 then [] else if v == -1 then [.pyint (-1)]
  else if v < 0 then [.pyint (-1), .ilit v.natAbs] else [.ilit v.natAbs]

def termOf (t : List E × Int) : Option E :=
  if t.2 == 0 then none
  else match t with
    | ([b], 1) => some b
    | (base, v) => some (.prod false (coefOf v ++ base))

/-- `components = expr.children if isinstance(expr, Sum) else as_tuple(expr)` -/
def itemsOf : E → List E
  | .sum _ cs => cs
  | e => [e]

def collectCoefficients (e : E) : Option E :=
  (accAll (0, []) (itemsOf e)).map fun st =>
    let cpart : List E :=
      if st.1 < 0 then [.prod false [.pyint (-1), .ilit st.1.natAbs]]
      else if st.1 > 0 then [.ilit st.1] else []
    mkSum (cpart ++ st.2.filterMap termOf)

/-! ## `SimplifyMapper` -/

/-- `new_expr != expr` for a Loki node `new` -/
def changed (new e : E) : Bool :=
  match new, e with
  | .ilit v, .ilit w => v != w
  | .ilit v, .pyint w => v != w
  | .pyint v, .ilit w => v != w
  | .pyint v, .pyint w => v != w
  | .var s, .var t => lower s != lower t
  | .sum _ _, .sum _ _ => strOf new != strOf e
  | .prod _ _, .prod _ _ => strOf new != strOf e
  | _, _ => true

def pipeSum (cs : List E) : Option E :=
  (flattenExpr (.sum false cs)).bind fun e => collectCoefficients (sumLiterals e)

def pipeProd (cs : List E) : Option E :=
  (flattenExpr (.prod false cs)).bind mulLiterals

/-- map over the children; only the last child of a fresh pymbolic sum is itself a fresh pymbolic node -/
def mapLast (g : Bool → E → Option E) (pm : Bool) : List E → Option (List E)
  | [] => some []
  | [x] => (g pm x).map fun y => [y]
  | x :: xs => do
    let y ← g false x
    let ys ← mapLast g pm xs
    pure (y :: ys)

/-- `simplify(e)`; `pm`: `e` is a pymbolic-class node built by `a - b` (never `==` a Loki node) -/
def simp : Nat → Bool → E → Option E
  | 0, _, _ => none
  | f + 1, pm, e =>
    match e with
    | .sum _ xs =>
      (mapLast (simp f) pm xs).bind fun cs => (pipeSum cs).bind fun new =>
        if pm || changed new e then simp f false new else some e
    | .prod _ xs =>
      (mapLast (simp f) false xs).bind fun cs => (pipeProd cs).bind fun new =>
        if pm || changed new e then simp f false new else some e
    | _ => some e

def SFUEL : Nat := 48

/-! ## `symbolic_op` -/

def cmpInt (o : CmpOp) (a b : Int) : Bool :=
  match o with
  | .eq => a == b | .ne => a != b | .lt => a < b | .le => a ≤ b | .gt => b < a | .ge => b ≤ a

def ofBool (b : Bool) : Ans := if b then .yes else .no

def ansOfCode (n : Nat) : Ans := if n == 1 then .yes else if n == 0 then .no else .raise

def isOrder : CmpOp → Bool
  | .eq | .ne => false
  | _ => true

def isLit : E → Bool
  | .ilit _ | .pyint _ => true
  | _ => false

/-- the last statement of `symbolic_op`: Python's `op(node, 0)`.  `Tables.eqneGuard` (probed: does
`symbolic_op(n, ==, m)` raise?) is `false` for the current code; it is `true` once `==` / `!=` on a non-literal
difference raise instead of answering, and the model then follows without further change. -/
def cmpZero (d : E) (o : CmpOp) : Ans :=
  if Tables.eqneGuard && !isOrder o && !isLit d then .raise else
  match d with
  | .ilit v => if Tables.ilitCmpIsInt then ofBool (cmpInt o v 0) else .raise
  | .pyint v => ofBool (cmpInt o v 0)
  | .var _ => ansOfCode (Tables.otherCmp 0 o)
  | .sum _ _ => ansOfCode (Tables.otherCmp 1 o)
  | _ => ansOfCode (Tables.otherCmp 2 o)

def notAns : Ans → Ans
  | .yes => .no | .no => .yes | .raise => .raise

/-- `symbolic_op(e, op, 0)` for a Loki node `e` (`e - 0` is `e`) -/
def symOpZ : Nat → E → CmpOp → Ans
  | 0, _, _ => .raise
  | f + 1, e, o =>
    match simp SFUEL false e with
    | none => .raise
    | some d =>
      if isMinusPrefix d then
        if isOrder o then notAns (symOpZ f (stripMinus d) o) else symOpZ f (stripMinus d) o
      else cmpZero d o

def ZFUEL : Nat := 24

/-- `symbolic_op(a, op, b)` -/
def symbolicOp (a : E) (o : CmpOp) (b : E) : Ans :=
  match simp SFUEL (subE a b).2 (subE a b).1 with
  | none => .raise
  | some d =>
    if isMinusPrefix d then
      if isOrder o then notAns (symOpZ ZFUEL (stripMinus d) o) else symOpZ ZFUEL (stripMinus d) o
    else cmpZero d o

/-- the simplified difference (for the correspondence) -/
def simpDiff (a b : E) : Option E := simp SFUEL (subE a b).2 (subE a b).1

/-! ## residue: the node finally compared with `0`, and the parity of stripped minus signs -/

def residZ : Nat → E → Option (Bool × E)
  | 0, _ => none
  | f + 1, e =>
    match simp SFUEL false e with
    | none => none
    | some d =>
      if isMinusPrefix d then (residZ f (stripMinus d)).map fun r => (!r.1, r.2) else some (false, d)

def resid (a b : E) : Option (Bool × E) :=
  match simp SFUEL (subE a b).2 (subE a b).1 with
  | none => none
  | some d =>
    if isMinusPrefix d then (residZ ZFUEL (stripMinus d)).map fun r => (!r.1, r.2) else some (false, d)

def isLitZero : E → Bool
  | .ilit v | .pyint v => v == 0
  | _ => false

/-- known class `eqne-undecidable`: `==` / `!=` asked about operands whose simplified difference is not a literal
(the helper answers `False` / `True` instead of raising) -/
def Known09 (a : E) (o : CmpOp) (b : E) : Bool :=
  !Tables.eqneGuard && !isOrder o && match resid a b with
    | some r => !isLit r.2
    | none => false

/-- the sign path `not symbolic_op(strip(d), op, 0)` is exact only if the stripped literal is not `0`; this flags the
(never observed) runs in which an odd number of minus signs was stripped from a literal zero -/
def SignZero (a b : E) : Bool :=
  match resid a b with
  | some r => r.1 && isLitZero r.2
  | none => false

mutual
/-- the fragment: unkinded integer literals, lower-case scalar variables, non-empty sums and products of them
(bare Python ints only as operands inside sums/products) -/
def FragIn : E → Bool
  | .ilit _ => true
  | .pyint _ => true
  | .var s => s == lower s
  | .sum _ xs => !xs.isEmpty && FragAll xs
  | .prod _ xs => !xs.isEmpty && FragAll xs
  | _ => false
def FragAll : List E → Bool
  | [] => true
  | x :: xs => FragIn x && FragAll xs
end

def Frag : E → Bool
  | .pyint _ => false
  | e => FragIn e

end LokiModel.C09
