import LokiModel.C09.Literals
/-! # C09: `collect_coefficients` preserves the value (for valuations that do not distinguish the case of names) -/
namespace LokiModel.C09
open LokiModel.Expr LokiModel.C06

variable (ρ : String → Int)

/-- Fortran names are case-insensitive -/
def CaseInsens (ρ : String → Int) : Prop := ∀ s, ρ s = ρ (lower s)

theorem evProd_insertBy (x : E) (ys : List E) : evProd ρ (insertBy x ys) = ev ρ x * evProd ρ ys := by
  induction ys with
  | nil => simp [insertBy]
  | cons y ys ih =>
    simp only [insertBy]
    split
    · simp [ih, Int.mul_left_comm]
    · simp

theorem evProd_sortByStr (xs : List E) : evProd ρ (sortByStr xs) = evProd ρ xs := by
  induction xs with
  | nil => simp [sortByStr]
  | cons x xs ih => simp [sortByStr, evProd_insertBy, ih]

mutual
theorem beqE_ev (hρ : CaseInsens ρ) : ∀ a b, beqE a b = true → ev ρ a = ev ρ b
  | .ilit a, .ilit b, h => by simp [beqE] at h; simp [h]
  | .ilit a, .pyint b, h => by simp [beqE] at h; simp [h]
  | .pyint a, .ilit b, h => by simp [beqE] at h; simp [h]
  | .pyint a, .pyint b, h => by simp [beqE] at h; simp [h]
  | .var s, .var t, h => by
      simp [beqE] at h
      simp only [ev_var]; rw [hρ s, hρ t, h]
  | .sum p xs, .sum q ys, h => by
      simp only [beqE, Bool.and_eq_true] at h
      simp [(beqList_ev hρ xs ys h.2).1]
  | .prod p xs, .prod q ys, h => by
      simp only [beqE, Bool.and_eq_true] at h
      simp [(beqList_ev hρ xs ys h.2).2]
  | .ilit _, .var _, h | .ilit _, .sum _ _, h | .ilit _, .prod _ _, h | .ilit _, .rlit _, h | .ilit _, .blit _, h
  | .ilit _, .quot _ _ _, h | .ilit _, .pow _ _ _, h | .ilit _, .cmp _ _ _, h | .ilit _, .lnot _, h
  | .ilit _, .land _, h | .ilit _, .lor _, h => by simp [beqE] at h
  | .pyint _, .var _, h | .pyint _, .sum _ _, h | .pyint _, .prod _ _, h | .pyint _, .rlit _, h | .pyint _, .blit _, h
  | .pyint _, .quot _ _ _, h | .pyint _, .pow _ _ _, h | .pyint _, .cmp _ _ _, h | .pyint _, .lnot _, h
  | .pyint _, .land _, h | .pyint _, .lor _, h => by simp [beqE] at h
  | .var _, .ilit _, h | .var _, .pyint _, h | .var _, .sum _ _, h | .var _, .prod _ _, h | .var _, .rlit _, h
  | .var _, .blit _, h | .var _, .quot _ _ _, h | .var _, .pow _ _ _, h | .var _, .cmp _ _ _, h | .var _, .lnot _, h
  | .var _, .land _, h | .var _, .lor _, h => by simp [beqE] at h
  | .sum _ _, .ilit _, h | .sum _ _, .pyint _, h | .sum _ _, .var _, h | .sum _ _, .prod _ _, h | .sum _ _, .rlit _, h
  | .sum _ _, .blit _, h | .sum _ _, .quot _ _ _, h | .sum _ _, .pow _ _ _, h | .sum _ _, .cmp _ _ _, h
  | .sum _ _, .lnot _, h | .sum _ _, .land _, h | .sum _ _, .lor _, h => by simp [beqE] at h
  | .prod _ _, .ilit _, h | .prod _ _, .pyint _, h | .prod _ _, .var _, h | .prod _ _, .sum _ _, h
  | .prod _ _, .rlit _, h | .prod _ _, .blit _, h | .prod _ _, .quot _ _ _, h | .prod _ _, .pow _ _ _, h
  | .prod _ _, .cmp _ _ _, h | .prod _ _, .lnot _, h | .prod _ _, .land _, h | .prod _ _, .lor _, h => by
      simp [beqE] at h
  | .rlit _, _, h | .blit _, _, h | .quot _ _ _, _, h | .pow _ _ _, _, h | .cmp _ _ _, _, h | .lnot _, _, h
  | .land _, _, h | .lor _, _, h => by simp [beqE] at h
theorem beqList_ev (hρ : CaseInsens ρ) : ∀ xs ys, beqList xs ys = true →
    evSum ρ xs = evSum ρ ys ∧ evProd ρ xs = evProd ρ ys
  | [], [], _ => by simp
  | x :: xs, y :: ys, h => by
      simp only [beqList, Bool.and_eq_true] at h
      have h1 := beqE_ev hρ x y h.1
      have h2 := beqList_ev hρ xs ys h.2
      simp [h1, h2.1, h2.2]
  | [], _ :: _, h => by simp [beqList] at h
  | _ :: _, [], h => by simp [beqList] at h
end

/-- value of the summands dictionary -/
def termsVal : List (List E × Int) → Int
  | [] => 0
  | (k, c) :: rest => c * evProd ρ k + termsVal rest

theorem termsVal_addTerm (hρ : CaseInsens ρ) (key : List E) (v : Int) (ts : List (List E × Int)) :
    termsVal ρ (addTerm key v ts) = termsVal ρ ts + v * evProd ρ key := by
  induction ts with
  | nil => simp [addTerm, termsVal]
  | cons t ts ih =>
    obtain ⟨k, c⟩ := t
    simp only [addTerm]
    split
    · rename_i hk
      have := (beqList_ev ρ hρ k key hk).2
      simp only [termsVal, this, Int.add_mul]; omega
    · simp only [termsVal, ih]; omega

theorem accItem_ev (hρ : CaseInsens ρ) (st st' : Int × List (List E × Int)) (item : E)
    (h : accItem st item = some st') : st'.1 + termsVal ρ st'.2 = st.1 + termsVal ρ st.2 + ev ρ item := by
  cases item with
  | prod p xs =>
    simp only [accItem] at h
    cases hs : sepC PFUEL (.prod p xs) with
    | none => simp [hs] at h
    | some r =>
      have key := sepC_ev ρ _ _ _ hs
      simp [hs] at h
      by_cases h0 : r.1 = 0
      · simp [h0] at h; subst h; rw [← key, h0]; simp
      · simp only [h0, if_false] at h
        cases hr : r.2 with
        | nil =>
          simp [hr] at h; subst h
          rw [← key, hr]; simp; omega
        | cons y ys =>
          simp [hr] at h; subst h
          simp only [termsVal_addTerm ρ hρ, evProd_sortByStr, ← key, hr]; omega
  | pyint k => simp [accItem] at h; subst h; simp; omega
  | ilit k => simp [accItem] at h; subst h; simp; omega
  | _ =>
    simp [accItem] at h; subst h
    simp only [termsVal_addTerm ρ hρ, evProd_cons, evProd_nil]; omega

theorem accAll_ev (hρ : CaseInsens ρ) : ∀ (items : List E) (st st' : Int × List (List E × Int)),
    accAll st items = some st' → st'.1 + termsVal ρ st'.2 = st.1 + termsVal ρ st.2 + evSum ρ items
  | [], st, st', h => by simp [accAll] at h; subst h; simp
  | x :: xs, st, st', h => by
      simp only [accAll] at h
      cases hx : accItem st x with
      | none => simp [hx] at h
      | some s1 =>
        simp [hx] at h
        have h1 := accItem_ev ρ hρ st s1 x hx
        have h2 := accAll_ev hρ xs s1 st' h
        simp only [evSum_cons]; omega

theorem evProd_coefOf (v : Int) : evProd ρ (coefOf v) = v := by
  unfold coefOf
  split
  · rename_i h; have : v = 1 := by simpa using h
    simp [this]
  · split
    · rename_i h; have : v = -1 := by simpa using h
      simp [this]
    · split
      · simp; omega
      · simp; omega

theorem termOf_ev (t : List E × Int) : optEv0 ρ (termOf t) = t.2 * evProd ρ t.1 := by
  obtain ⟨base, v⟩ := t
  unfold termOf
  by_cases h0 : v = 0
  · simp [h0, optEv0]
  · simp only [show (v == 0) = false by simpa using h0, Bool.false_eq_true, if_false]
    split
    · rename_i b heq
      simp only [Prod.mk.injEq] at heq
      obtain ⟨hb, hv⟩ := heq
      subst hb; subst hv; simp [optEv0]
    · rename_i heq
      simp only [Prod.mk.injEq] at heq
      obtain ⟨hb, hv⟩ := heq
      subst hb; subst hv
      simp [optEv0, evProd_append, evProd_coefOf]

theorem evSum_filterMap_termOf (ts : List (List E × Int)) : evSum ρ (ts.filterMap termOf) = termsVal ρ ts := by
  induction ts with
  | nil => simp [termsVal]
  | cons t ts ih =>
    have := termOf_ev ρ t
    obtain ⟨k, c⟩ := t
    simp only [List.filterMap_cons, termsVal]
    cases ht : termOf (k, c) with
    | none => simp only [ht, optEv0] at this ⊢; omega
    | some x => simp only [ht, optEv0, evSum_cons] at this ⊢; omega

theorem ev_collectCoefficients (hρ : CaseInsens ρ) {e r : E} (h : collectCoefficients e = some r) :
    ev ρ r = ev ρ e := by
  unfold collectCoefficients at h
  have hitems : evSum ρ (itemsOf e) = ev ρ e := by
    cases e <;> simp [itemsOf]
  cases ha : accAll (0, []) (itemsOf e) with
  | none => simp [ha] at h
  | some st =>
    have key := accAll_ev ρ hρ _ _ _ ha
    simp [ha] at h; subst h
    simp only [termsVal] at key
    rw [ev_mkSum, evSum_append, evSum_filterMap_termOf, ← hitems]
    have hc : evSum ρ (if st.1 < 0 then [.prod false [.pyint (-1), .ilit ↑st.1.natAbs]]
        else if st.1 > 0 then [.ilit st.1] else []) = st.1 := by
      split
      · simp; omega
      · split
        · simp
        · simp; omega
    rw [hc]; omega

end LokiModel.C09
