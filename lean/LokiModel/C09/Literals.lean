import LokiModel.C09.Flatten
/-! # C09: `sum_literals`, `separate_coefficients`, `mul_literals` preserve the value -/
namespace LokiModel.C09
open LokiModel.Expr LokiModel.C06

variable (ρ : String → Int)

def optEv0 : Option E → Int
  | none => 0
  | some x => ev ρ x

def optEv1 : Option E → Int
  | none => 1
  | some x => ev ρ x

theorem procS_none : ∀ (f : Nat) (c : E), (procS f c).1 ≠ 0 → (procS f c).2 = none
  | 0, c => by cases c <;> simp [procS]
  | f + 1, c => by
      cases c with
      | prod p xs =>
        simp only [procS]
        split
        · have ih := procS_none f (stripMinus (.prod p xs))
          split
          · rename_i h; intro _; exact ih (by simpa using h)
          · simp
        · simp
      | ilit v => simp [procS]
      | _ => simp [procS, isMinusPrefix]

theorem procS_ev : ∀ (f : Nat) (c : E), (procS f c).1 + optEv0 ρ (procS f c).2 = ev ρ c
  | 0, c => by cases c <;> simp [procS, optEv0]
  | f + 1, c => by
      cases c with
      | prod p xs =>
        simp only [procS]
        split
        · rename_i hm
          have ih := procS_ev f (stripMinus (.prod p xs))
          rw [ev_stripMinus ρ hm] at ih
          split
          · rename_i h
            have hn := procS_none f (stripMinus (.prod p xs)) (by simpa using h)
            simp only [hn, optEv0] at ih ⊢; omega
          · simp [optEv0]
        · simp [optEv0]
      | ilit v => simp [procS, optEv0]
      | _ => simp [procS, optEv0, isMinusPrefix]

theorem sumLit_split (cs : List E) (f : Nat) :
    ((cs.map (procS f)).map (·.1)).sum + evSum ρ ((cs.map (procS f)).filterMap (·.2)) = evSum ρ cs := by
  induction cs with
  | nil => simp
  | cons c cs ih =>
    have h := procS_ev ρ f c
    simp only [List.map_cons, List.sum_cons, List.filterMap_cons, evSum_cons]
    cases h2 : (procS f c).2 with
    | none => simp only [h2, optEv0] at h ⊢; omega
    | some x => simp only [h2, optEv0, evSum_cons] at h ⊢; omega

theorem ev_sumLiterals (e : E) : ev ρ (sumLiterals e) = ev ρ e := by
  cases e with
  | sum p cs =>
    simp only [sumLiterals, ev_mkSum, ev_sum]
    have := sumLit_split ρ cs PFUEL
    split
    · simp only [evSum_cons, ev_ilit]; omega
    · rename_i h
      have h0 : ((cs.map (procS PFUEL)).map (·.1)).sum = 0 := by simpa using h
      omega
  | _ => simp [sumLiterals]

theorem procP_ev : ∀ (f : Nat) (c : E) (r : Int × Option E), procP f c = some r → r.1 * optEv1 ρ r.2 = ev ρ c
  | 0, c, r, h => by
      cases c <;> simp [procP] at h <;> subst h <;> simp [optEv1]
  | f + 1, c, r, h => by
      cases c with
      | prod p xs =>
        cases hm : isMinusPrefix (.prod p xs) with
        | false => simp [procP, hm] at h; subst h; simp [optEv1]
        | true =>
          simp only [procP, hm, if_true] at h
          cases hr : procP f (stripMinus (.prod p xs)) with
          | none => simp [hr] at h
          | some r1 =>
            have ih := procP_ev f _ r1 hr
            rw [ev_stripMinus ρ hm] at ih
            simp [hr] at h; subst h
            simp only [Int.neg_mul, ih, Int.neg_neg]
      | ilit v => simp [procP] at h; subst h; simp [optEv1]
      | pyint v => simp [procP] at h; subst h; simp [optEv1]
      | _ => simp [procP, isMinusPrefix] at h; subst h; simp [optEv1]

theorem mapOpt_procP_ev : ∀ (xs : List E) (ps : List (Int × Option E)), mapOpt (procP PFUEL) xs = some ps →
    iprod (ps.map (·.1)) * evProd ρ (ps.filterMap (·.2)) = evProd ρ xs
  | [], ps, h => by simp [mapOpt] at h; subst h; simp [iprod]
  | x :: xs, ps, h => by
      simp only [mapOpt] at h
      cases hx : procP PFUEL x with
      | none => simp [hx] at h
      | some r =>
        cases hxs : mapOpt (procP PFUEL) xs with
        | none => simp [hx, hxs] at h
        | some rs =>
          simp [hx, hxs] at h; subst h
          have h1 := procP_ev ρ _ _ _ hx
          have h2 := mapOpt_procP_ev xs rs hxs
          simp only [List.map_cons, iprod, List.filterMap_cons, evProd_cons, ← h1, ← h2]
          cases r.2 with
          | none => simp [optEv1, Int.mul_assoc]
          | some y => simp [optEv1, Int.mul_assoc, Int.mul_left_comm]

theorem sepC_ev : ∀ (f : Nat) (e : E) (r : Int × List E), sepC f e = some r → r.1 * evProd ρ r.2 = ev ρ e
  | 0, e, r, h => by
      cases e <;> simp [sepC] at h
      subst h; simp
  | f + 1, e, r, h => by
      cases e with
      | prod p xs =>
        simp only [sepC] at h
        split at h
        · rename_i hm
          cases hr : sepC f (stripMinus (.prod p xs)) with
          | none => simp [hr] at h
          | some r1 =>
            have ih := sepC_ev f _ r1 hr
            rw [ev_stripMinus ρ hm] at ih
            simp [hr] at h; subst h
            simp only [Int.neg_mul, ih, Int.neg_neg]
        · cases hps : mapOpt (procP PFUEL) xs with
          | none => simp [hps] at h
          | some ps =>
            simp [hps] at h; subst h
            simpa using mapOpt_procP_ev ρ xs ps hps
      | ilit v => simp [sepC] at h; subst h; simp
      | _ => simp [sepC] at h; subst h; simp

theorem ev_mulLiterals {e r : E} (h : mulLiterals e = some r) : ev ρ r = ev ρ e := by
  cases e with
  | prod p xs =>
    simp only [mulLiterals] at h
    cases hs : sepC PFUEL (.prod p xs) with
    | none => simp [hs] at h
    | some s =>
      have key := sepC_ev ρ _ _ _ hs
      simp [hs] at h
      rw [← key]
      by_cases h0 : s.1 = 0
      · simp [h0] at h; subst h; simp [h0]
      · simp only [h0, if_false] at h
        have hret : ev ρ (mkProd (if s.1.natAbs = 1 then s.2 else .ilit ↑s.1.natAbs :: s.2))
            = (s.1.natAbs : Int) * evProd ρ s.2 := by
          rw [ev_mkProd]
          split
          · rename_i h1; simp [h1]
          · simp
        by_cases hneg : s.1 < 0
        · simp only [hneg, if_true] at h; subst h
          simp only [ev_prod, evProd_cons, evProd_nil, ev_pyint, hret, Int.mul_one]
          have : s.1 = -(s.1.natAbs : Int) := by omega
          rw [this]; simp [Int.neg_mul]
        · simp only [hneg, if_false] at h; subst h
          rw [hret]
          have : (s.1.natAbs : Int) = s.1 := by omega
          rw [this]
  | _ => simp [mulLiterals] at h; subst h; rfl

end LokiModel.C09
