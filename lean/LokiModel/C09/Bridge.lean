import LokiModel.C09.Simp
import LokiModel.Expr.SemLemmas
/-! # C09: from the integer semantics `ev` to the shared reference semantics `evalS ∘ den`; soundness of the answer table -/
namespace LokiModel.C09
open LokiModel.Expr LokiModel.C06

/-- every variable is bound to an integer -/
def IntEnv (env : Env) : Prop := ∀ s, ∃ i : Int, env.var s = some (.int i)

/-- the valuation does not distinguish upper and lower case in names (Fortran) -/
def EnvCaseInsens (env : Env) : Prop := ∀ s, env.var s = env.var (lower s)

def envInt (env : Env) (s : String) : Int :=
  match env.var s with
  | some (.int i) => i
  | _ => 0

theorem envInt_caseInsens {env : Env} (h : EnvCaseInsens env) : CaseInsens (envInt env) := by
  intro s; simp only [envInt, ← h s]

theorem evalS_denInt (env : Env) (n : Int) : evalS env (denInt n) = some (.int n) := by
  unfold denInt
  split
  · simp only [evalS, Option.bind, Val.neg]
    congr 2; omega
  · simp only [evalS]
    congr 2; omega

mutual
theorem den_ev (env : Env) (h : IntEnv env) : ∀ e, FragIn e = true →
    evalS env (den e) = some (.int (ev (envInt env) e))
  | .ilit n, _ => by rw [den]; simp [evalS_denInt]
  | .pyint n, _ => by rw [den]; simp [evalS_denInt]
  | .var s, _ => by
      rw [den]; obtain ⟨i, hi⟩ := h s
      simp [evalS, envInt, hi]
  | .sum _ [], hf => by simp [FragIn] at hf
  | .sum _ (x :: xs), hf => by
      simp only [FragIn, FragAll, List.isEmpty_cons, Bool.not_false, Bool.true_and, Bool.and_eq_true] at hf
      rw [den, denFold_add_ev env h xs _ _ hf.2 (den_ev env h x hf.1)]; simp
  | .prod _ [], hf => by simp [FragIn] at hf
  | .prod _ (x :: xs), hf => by
      simp only [FragIn, FragAll, List.isEmpty_cons, Bool.not_false, Bool.true_and, Bool.and_eq_true] at hf
      rw [den, denFold_mul_ev env h xs _ _ hf.2 (den_ev env h x hf.1)]; simp
  | .rlit _, hf | .blit _, hf | .quot _ _ _, hf | .pow _ _ _, hf | .cmp _ _ _, hf | .lnot _, hf | .land _, hf
  | .lor _, hf => by simp [FragIn] at hf
theorem denFold_add_ev (env : Env) (h : IntEnv env) : ∀ (cs : List E) (acc : S) (a : Int), FragAll cs = true →
    evalS env acc = some (.int a) →
    evalS env (denFold .add acc cs) = some (.int (a + evSum (envInt env) cs))
  | [], acc, a, _, ha => by rw [denFold]; simp [ha]
  | c :: cs, acc, a, hf, ha => by
      simp only [FragAll, Bool.and_eq_true] at hf
      have hc := den_ev env h c hf.1
      rw [denFold, denFold_add_ev env h cs _ (a + ev (envInt env) c) hf.2 (by simp [evalS, bin, ha, hc, Val.add, Val.arith])]
      simp [Int.add_assoc]
theorem denFold_mul_ev (env : Env) (h : IntEnv env) : ∀ (cs : List E) (acc : S) (a : Int), FragAll cs = true →
    evalS env acc = some (.int a) →
    evalS env (denFold .mul acc cs) = some (.int (a * evProd (envInt env) cs))
  | [], acc, a, _, ha => by rw [denFold]; simp [ha]
  | c :: cs, acc, a, hf, ha => by
      simp only [FragAll, Bool.and_eq_true] at hf
      have hc := den_ev env h c hf.1
      rw [denFold, denFold_mul_ev env h cs _ (a * ev (envInt env) c) hf.2 (by simp [evalS, bin, ha, hc, Val.mul, Val.arith])]
      simp [Int.mul_assoc]
end

theorem Frag_FragIn {e : E} (h : Frag e = true) : FragIn e = true := by
  cases e <;> simp_all [Frag]

theorem cmpRat_int (o : CmpOp) (x y : Int) : Val.cmpRat o (x : Rat) (y : Rat) = cmpInt o x y := by
  cases o <;> simp only [Val.cmpRat, cmpInt] <;> rw [Bool.eq_iff_iff] <;>
    simp [Rat.intCast_lt_intCast, Rat.intCast_le_intCast]

theorem evalS_cmp (env : Env) (h : IntEnv env) (o : CmpOp) (a b : E) (ha : Frag a = true) (hb : Frag b = true) :
    evalS env (.cmp o (den a) (den b)) = some (.bool (cmpInt o (ev (envInt env) a) (ev (envInt env) b))) := by
  simp [evalS, bin, den_ev env h a (Frag_FragIn ha), den_ev env h b (Frag_FragIn hb), Val.cmp, Val.toRat?, cmpRat_int]

theorem cmpInt_sub (o : CmpOp) (x y : Int) : cmpInt o x y = cmpInt o (x - y) 0 := by
  cases o <;> simp only [cmpInt] <;> rw [Bool.eq_iff_iff] <;> simp <;> omega

/-- on every node kind that is not a literal Python raises for `< <= > >=` (checked against the generated table), and
`symbolic_op` raises for `==` / `!=` once the guard exists -/
theorem cmpZero_nonlit (d : E) (o : CmpOp) (hd : isLit d = false)
    (h : (!Tables.eqneGuard && !isOrder o) = false) : cmpZero d o = .raise := by
  cases o <;> cases d <;> simp [isLit] at hd <;> first | rfl | (exfalso; revert h; decide)

theorem cmpZero_ilit (v : Int) (o : CmpOp) :
    cmpZero (.ilit v) o = ofBool (cmpInt o v 0) ∨ cmpZero (.ilit v) o = .raise := by
  simp only [cmpZero, isLit, Bool.not_true, Bool.and_false, Bool.false_eq_true, if_false]
  split <;> simp

theorem cmpZero_pyint (v : Int) (o : CmpOp) : cmpZero (.pyint v) o = ofBool (cmpInt o v 0) := by
  simp [cmpZero, isLit]

/-- soundness of the answer derived from the residue -/
theorem ansOf_sound (ρ : String → Int) (o : CmpOp) (r : Bool × E) (x : Int)
    (hx : x = if r.1 then - ev ρ r.2 else ev ρ r.2)
    (hk : (!Tables.eqneGuard && !isOrder o && !isLit r.2) = false) (hz : (r.1 && isLitZero r.2) = false) :
    (ansOf o r = .yes → cmpInt o x 0 = true) ∧ (ansOf o r = .no → cmpInt o x 0 = false) := by
  obtain ⟨p, d⟩ := r
  cases hl : isLit d with
  | false =>
    have := cmpZero_nonlit d o hl (by simpa [hl] using hk)
    cases p <;> cases ho : isOrder o <;> simp [ansOf, this, notAns, ho]
  | true =>
    have lit_case : ∀ v : Int, ev ρ d = v → isLitZero d = (v == 0) →
        (cmpZero d o = ofBool (cmpInt o v 0) ∨ cmpZero d o = .raise) →
        (ansOf o (p, d) = .yes → cmpInt o x 0 = true) ∧ (ansOf o (p, d) = .no → cmpInt o x 0 = false) := by
      intro v hv hzv hc
      rcases hc with hc | hc
      · simp only [ansOf, hc]
        simp only [hv] at hx
        simp only [hzv] at hz
        cases p <;> cases o <;> simp [isOrder, cmpInt, ofBool, notAns] at hx hz ⊢
        all_goals (first | omega | (intros; omega) | (subst hx; intros; omega) | (subst hx; constructor <;> intros <;> omega) | (subst hx; by_cases h1 : v < 0 <;> by_cases h2 : v ≤ 0 <;> by_cases h3 : 0 < v <;> by_cases h4 : 0 ≤ v <;>
            first | omega | (simp [h1, h2, h3, h4] <;> omega)))
      · cases p <;> cases ho : isOrder o <;> simp [ansOf, hc, notAns, ho]
    cases d <;> simp [isLit] at hl
    · rename_i v
      exact lit_case v (by simp) (by simp [isLitZero]) (cmpZero_ilit v o)
    · rename_i v
      exact lit_case v (by simp) (by simp [isLitZero]) (Or.inl (cmpZero_pyint v o))

/-- core: the answer agrees with the integer comparison of the operand values -/
theorem answer_sound (a b : E) (o : CmpOp) (ρ : String → Int) (hρ : CaseInsens ρ)
    (hk : Known09 a o b = false) (hz : SignZero a b = false) :
    (symbolicOp a o b = .yes → cmpInt o (ev ρ a) (ev ρ b) = true) ∧
    (symbolicOp a o b = .no → cmpInt o (ev ρ a) (ev ρ b) = false) := by
  rw [symbolicOp_resid, cmpInt_sub]
  cases hr : resid a b with
  | none => simp
  | some r =>
    simp only [Known09, hr] at hk
    simp only [SignZero, hr] at hz
    exact ansOf_sound ρ o r _ (resid_ev ρ hρ a b r hr) (by simpa [Bool.and_assoc] using hk) hz

end LokiModel.C09
