import LokiModel.C09.Collect
/-! # C09: the model of `simplify` preserves the value; the answer of `symbolicOp` in terms of the residue -/
namespace LokiModel.C09
open LokiModel.Expr LokiModel.C06

variable (ρ : String → Int)

theorem ev_pipeSum (hρ : CaseInsens ρ) {cs : List E} {r : E} (h : pipeSum cs = some r) : ev ρ r = evSum ρ cs := by
  unfold pipeSum at h
  cases hf : flattenExpr (.sum false cs) with
  | none => simp [hf] at h
  | some e =>
    simp [hf] at h
    rw [ev_collectCoefficients ρ hρ h, ev_sumLiterals, ev_flattenExpr ρ hf]; simp

theorem ev_pipeProd {cs : List E} {r : E} (h : pipeProd cs = some r) : ev ρ r = evProd ρ cs := by
  unfold pipeProd at h
  cases hf : flattenExpr (.prod false cs) with
  | none => simp [hf] at h
  | some e =>
    simp [hf] at h
    rw [ev_mulLiterals ρ h, ev_flattenExpr ρ hf]; simp

theorem mapLast_ev (g : Bool → E → Option E) (hg : ∀ pm x y, g pm x = some y → ev ρ y = ev ρ x) :
    ∀ (pm : Bool) (xs ys : List E), mapLast g pm xs = some ys → evSum ρ ys = evSum ρ xs ∧ evProd ρ ys = evProd ρ xs
  | pm, [], ys, h => by simp [mapLast] at h; subst h; simp
  | pm, [x], ys, h => by
      simp only [mapLast] at h
      cases hx : g pm x with
      | none => simp [hx] at h
      | some y => simp [hx] at h; subst h; simp [hg _ _ _ hx]
  | pm, x :: x2 :: xs, ys, h => by
      simp only [mapLast] at h
      cases hx : g false x with
      | none => simp [hx] at h
      | some y =>
        cases hr : mapLast g pm (x2 :: xs) with
        | none => simp [hx, hr] at h
        | some ys' =>
          simp [hx, hr] at h; subst h
          have := mapLast_ev g hg pm (x2 :: xs) ys' hr
          simp only [evSum_cons, evProd_cons] at this ⊢
          simp [hg _ _ _ hx, this.1, this.2]

/-- **value preservation of the modelled `simplify`** -/
theorem simp_ev (hρ : CaseInsens ρ) : ∀ (f : Nat) (pm : Bool) (e r : E), simp f pm e = some r → ev ρ r = ev ρ e
  | 0, _, _, _, h => by simp [simp] at h
  | f + 1, pm, e, r, h => by
      have ih := simp_ev hρ f
      cases e with
      | sum p xs =>
        simp only [simp] at h
        cases hc : mapLast (simp f) pm xs with
        | none => simp [hc] at h
        | some cs =>
          have h1 := (mapLast_ev ρ (simp f) (fun pm x y => ih pm x y) pm xs cs hc).1
          cases hn : pipeSum cs with
          | none => simp [hc, hn] at h
          | some new =>
            have h2 := ev_pipeSum ρ hρ hn
            simp only [hc, hn, Option.bind_some] at h
            split at h
            · rw [ih _ _ _ h, h2, h1]; simp
            · simp at h; subst h; rfl
      | prod p xs =>
        simp only [simp] at h
        cases hc : mapLast (simp f) false xs with
        | none => simp [hc] at h
        | some cs =>
          have h1 := (mapLast_ev ρ (simp f) (fun pm x y => ih pm x y) false xs cs hc).2
          cases hn : pipeProd cs with
          | none => simp [hc, hn] at h
          | some new =>
            have h2 := ev_pipeProd ρ hn
            simp only [hc, hn, Option.bind_some] at h
            split at h
            · rw [ih _ _ _ h, h2, h1]; simp
            · simp at h; subst h; rfl
      | _ => simp [simp] at h; subst h; rfl

/-- value of the operand in terms of the residue -/
theorem residZ_ev (hρ : CaseInsens ρ) : ∀ (f : Nat) (e : E) (r : Bool × E), residZ f e = some r →
    ev ρ e = if r.1 then - ev ρ r.2 else ev ρ r.2
  | 0, _, _, h => by simp [residZ] at h
  | f + 1, e, r, h => by
      simp only [residZ] at h
      cases hs : simp SFUEL false e with
      | none => simp [hs] at h
      | some d =>
        have hd := simp_ev ρ hρ _ _ _ _ hs
        simp only [hs] at h
        split at h
        · rename_i hm
          cases hr : residZ f (stripMinus d) with
          | none => simp [hr] at h
          | some r1 =>
            have ih := residZ_ev hρ f _ _ hr
            rw [ev_stripMinus ρ hm] at ih
            simp [hr] at h; subst h
            cases h1 : r1.1 <;> simp [h1] at ih ⊢ <;> omega
        · simp at h; subst h; simp [hd]

theorem resid_ev (hρ : CaseInsens ρ) (a b : E) (r : Bool × E) (h : resid a b = some r) :
    ev ρ a - ev ρ b = if r.1 then - ev ρ r.2 else ev ρ r.2 := by
  unfold resid at h
  cases hs : simp SFUEL (subE a b).2 (subE a b).1 with
  | none => simp [hs] at h
  | some d =>
    have hd := simp_ev ρ hρ _ _ _ _ hs
    rw [ev_subE] at hd
    simp only [hs] at h
    split at h
    · rename_i hm
      cases hr : residZ ZFUEL (stripMinus d) with
      | none => simp [hr] at h
      | some r1 =>
        have ih := residZ_ev ρ hρ _ _ _ hr
        rw [ev_stripMinus ρ hm] at ih
        simp [hr] at h; subst h
        cases h1 : r1.1 <;> simp [h1] at ih ⊢ <;> omega
    · simp at h; subst h; simp [hd]

/-- the answer: the table entry for the residue, negated once per stripped minus sign for `< <= > >=` -/
def ansOf (o : CmpOp) (r : Bool × E) : Ans :=
  if isOrder o && r.1 then notAns (cmpZero r.2 o) else cmpZero r.2 o

theorem notAns_notAns (x : Ans) : notAns (notAns x) = x := by cases x <;> rfl

theorem symOpZ_resid (o : CmpOp) : ∀ (f : Nat) (e : E),
    symOpZ f e o = match residZ f e with
      | none => .raise
      | some r => ansOf o r
  | 0, e => by simp [symOpZ, residZ]
  | f + 1, e => by
      simp only [symOpZ, residZ]
      cases hs : simp SFUEL false e with
      | none => simp
      | some d =>
        simp only
        have ih := symOpZ_resid o f (stripMinus d)
        split
        · cases hr : residZ f (stripMinus d) with
          | none => simp [hr] at ih; cases ho : isOrder o <;> simp [ih, notAns]
          | some r1 =>
            simp [hr] at ih
            cases ho : isOrder o <;> cases h1 : r1.1 <;> simp [ih, ansOf, ho, h1, notAns_notAns]
        · simp [ansOf]

theorem symbolicOp_resid (a b : E) (o : CmpOp) :
    symbolicOp a o b = match resid a b with
      | none => .raise
      | some r => ansOf o r := by
  unfold symbolicOp resid
  cases hs : simp SFUEL (subE a b).2 (subE a b).1 with
  | none => simp
  | some d =>
    simp only
    have ih := symOpZ_resid o ZFUEL (stripMinus d)
    split
    · cases hr : residZ ZFUEL (stripMinus d) with
      | none => simp [hr] at ih; cases ho : isOrder o <;> simp [ih, notAns]
      | some r1 =>
        simp [hr] at ih
        cases ho : isOrder o <;> cases h1 : r1.1 <;> simp [ih, ansOf, ho, h1, notAns_notAns]
    · simp [ansOf]

end LokiModel.C09
