/-!
# C19/C20 — `Reader`: model of `FortranReader._sanitize_raw_source` (loki/frontend/source.py)

`FortranReader.__init__` strips the raw source, splits it into lines and hands it to fparser's free-form
`FortranStringReader(ignore_comments=False)`; `_sanitize_raw_source` then drops every comment item that is not a
`!$` pragma on a line of its own.  This file models that pipeline on lists of characters:

* `prepare`      — `raw_source.strip().splitlines()` (leading/trailing blank lines disappear: line numbers are
                   relative to the stripped text),
* `scanCode`     — string-literal aware removal of the trailing comment of one physical line
                   (`handle_inline_comment` / `splitquote`),
* `trailing` / `leading` — the `&` logic of `get_source_item` (`rfind('&')`, `find('&')` incl. the `k != 1` quirk),
* `stripLabelName` — `extract_label` / `extract_construct_name`,
* `splitSemi`    — `;` handling of `FortranReaderBase._next` (lower-casing outside literals, split outside literals,
                   a leading empty piece stops the reader),
* `go`           — the item stream (statement lines and comment items with their line spans, comments of a
                   continued statement are queued behind it),
* `sanitize`     — `is_not_comment` of `_sanitize_raw_source`.

Domain of the correspondence: free form, no tab characters, no `\` continued cpp directives, no INCLUDE lines,
no f2py / OpenMP-conditional sentinels.  Core Lean only.
-/
namespace LokiModel.C19

abbrev Line := List Char

def isWs (c : Char) : Bool := c = ' ' || c = '\t'
def isWord (c : Char) : Bool := c.isAlphanum || c = '_'
def lstrip (l : Line) : Line := l.dropWhile isWs
def rstrip (l : Line) : Line := (l.reverse.dropWhile isWs).reverse
def strip (l : Line) : Line := rstrip (lstrip l)
def isBlankLine (l : Line) : Bool := l.all isWs

/-- `'\n'.join(lines).strip().splitlines()` -/
def prepare (src : List Line) : List Line :=
  match src.dropWhile isBlankLine with
  | [] => []
  | l :: ls =>
    match ((lstrip l :: ls).reverse.dropWhile isBlankLine) with
    | [] => []
    | e :: rs => (rstrip e :: rs).reverse

/-- number of leading lines removed by `prepare` (offset between file lines and reader lines) -/
def prepareOffset (src : List Line) : Nat := (src.takeWhile isBlankLine).length

/-- code before the first `!` outside character literals, the comment from there, the open quote at the end -/
def scanCode : Option Char → Line → Line × Option Line × Option Char
  | q, [] => ([], none, q)
  | none, c :: cs =>
      if c = '!' then ([], some (c :: cs), none)
      else
        let r := scanCode (if c = '\'' || c = '"' then some c else none) cs
        (c :: r.1, r.2.1, r.2.2)
  | some q, c :: cs =>
      let r := scanCode (if c = q then none else some q) cs
      (c :: r.1, r.2.1, r.2.2)

/-- split at the last `&`: (before, after) -/
def splitLastAmp (l : Line) : Option (Line × Line) :=
  let r := l.reverse
  match r.dropWhile (· ≠ '&') with
  | [] => none
  | _ :: before => some (before.reverse, (r.takeWhile (· ≠ '&')).reverse)

/-- `i = line.rfind('&')`; continuation iff nothing but blanks follows: (`line[:i]`, true) or (line, false) -/
def trailing (code : Line) : Line × Bool :=
  match splitLastAmp code with
  | some (b, a) => if (rstrip a).isEmpty then (b, true) else (code, false)
  | none => (code, false)

/-- beginning of a continued line: `k = line[:i].find('&'); if k != 1 and line[:k].lstrip(): k = -1; line[k+1:i]` -/
def leading (body : Line) : Line :=
  let pre := body.takeWhile (· ≠ '&')
  match body.dropWhile (· ≠ '&') with
  | [] => body
  | _ :: after => if pre.length == 1 || (lstrip pre).isEmpty then after else body

/-- `extract_label`: `\s*\d+\s*(\b|(?=&)|\Z)` then `lstrip` -/
def stripLabel (l : Line) : Line :=
  let s := lstrip l
  let ds := s.takeWhile Char.isDigit
  let rest := s.dropWhile Char.isDigit
  if ds.isEmpty then l
  else match rest with
    | [] => []
    | c :: _ => if isWord c then l else lstrip rest

/-- `extract_construct_name`: `\s*\w+\s*:\s*(\b|(?=&)|\Z)` then `lstrip` -/
def stripName (l : Line) : Line :=
  let s := lstrip l
  let w := s.takeWhile isWord
  if w.isEmpty then l
  else match lstrip (s.dropWhile isWord) with
    | ':' :: r =>
      match lstrip r with
      | [] => []
      | c :: r' => if isWord c || c = '&' then c :: r' else l
    | _ => l

def stripLabelName (l : Line) : Line := stripName (stripLabel l)

def lowerC (c : Char) : Char := if 'A' ≤ c && c ≤ 'Z' then Char.ofNat (c.toNat + 32) else c

/-- does the text contain `c` outside character literals -/
def hasOutside (c : Char) : Option Char → Line → Bool
  | _, [] => false
  | none, x :: xs => x = c || hasOutside c (if x = '\'' || x = '"' then some x else none) xs
  | some q, x :: xs => hasOutside c (if x = q then none else some q) xs

/-- lower-case outside literals and split at `;` outside literals (current piece reversed in `cur`) -/
def semiPieces : Option Char → Line → Line → List Line
  | _, cur, [] => [cur.reverse]
  | none, cur, x :: xs =>
      if x = ';' then cur.reverse :: semiPieces none [] xs
      else semiPieces (if x = '\'' || x = '"' then some x else none) (lowerC x :: cur) xs
  | some q, cur, x :: xs => semiPieces (if x = q then none else some q) (x :: cur) xs

/-- characters up to the parenthesis closing the group opened just before (`depth` open groups), outside literals -/
def takeGroup : Option Char → Nat → Line → Line → Option (Line × Line)
  | _, _, _, [] => none
  | some q, d, acc, x :: xs => takeGroup (if x = q then none else some q) d (x :: acc) xs
  | none, d, acc, x :: xs =>
      if x = ')' || x = ']' then
        if d = 0 then some (acc.reverse, xs) else takeGroup none (d - 1) (x :: acc) xs
      else if x = '(' || x = '[' then takeGroup none (d + 1) (x :: acc) xs
      else takeGroup (if x = '\'' || x = '"' then some x else none) d (x :: acc) xs

/-- `string_replace_map` + `apply_map`: the content of every top-level parenthesis group that is not a plain
name comes back stripped -/
def trimGroups : Nat → Option Char → Line → Line
  | 0, _, l => l
  | _, _, [] => []
  | f + 1, some q, x :: xs => x :: trimGroups f (if x = q then none else some q) xs
  | f + 1, none, x :: xs =>
      if x = '(' || x = '[' then
        match takeGroup none 0 [] xs with
        | some (content, rest) =>
            let inner := strip content
            let close := if x = '(' then ')' else ']'
            (x :: (if inner.all isWord then content else inner)) ++ (close :: trimGroups f none rest)
        | none => x :: xs
      else x :: trimGroups f (if x = '\'' || x = '"' then some x else none) xs

/-- `_next`: statement texts of one source item; `none` = the reader raises and stops -/
def splitSemi (content : Line) : Option (List Line) :=
  if hasOutside ';' none content then
    match semiPieces none [] content with
    | [] => none
    | f :: rest =>
      if (strip f).isEmpty then none
      else
        let fix (p : Line) : Line := trimGroups (p.length + 1) none p
        some (fix (strip f) :: (rest.map strip |>.filter (!·.isEmpty) |>.map (fun p => fix (strip (stripLabelName p)))
                  |>.filter (!·.isEmpty)))
  else some [content]

structure Item where
  com : Bool
  text : Line
  l1 : Nat
  l2 : Nat
deriving Repr, DecidableEq

/-- a statement under construction -/
structure Pend where
  acc : Line
  l1 : Nat
  l2 : Nat
  q : Option Char
  coms : List Item
deriving Repr

def startsWith (p : Char) (l : Line) : Bool := match l with | c :: _ => c = p | [] => false

/-- finish a source item: statement pieces first, queued comments behind; `none` = the reader stops -/
def emit (acc : Line) (l1 l2 : Nat) (coms : List Item) : Option (List Item) :=
  let content := strip acc
  if content.isEmpty then
    some (if coms.isEmpty then [⟨true, [], l1, l2⟩] else coms)
  else
    match splitSemi content with
    | none => none
    | some ps => some (ps.map (fun p => ⟨false, p, l1, l2⟩) ++ coms)

/-- continue after a finished source item -/
def andThen (e : Option (List Item)) (k : List Item) : List Item :=
  match e with
  | none => []
  | some is => is ++ k

/-- comment item of a physical line -/
def comOf (o : Option Line) (n : Nat) : List Item :=
  match o with
  | some c => [⟨true, c, n, n⟩]
  | none => []

/-- the item stream of fparser's free-form reader over numbered physical lines -/
def go : List (Nat × Line) → Option Pend → List Item
  | [], none => []
  | [], some p => andThen (emit p.acc p.l1 p.l2 p.coms) []
  | (n, l0) :: rest, none =>
      let l := rstrip l0
      if startsWith '#' (lstrip l) then
        andThen (emit l n n []) (go rest none)
      else
        let sc := scanCode none (stripLabelName l)
        let coms := comOf sc.2.1 n
        let t := trailing sc.1
        if t.2 then go rest (some ⟨t.1, n, n, sc.2.2, coms⟩)
        else andThen (emit t.1 n n coms) (go rest none)
  | (n, l0) :: rest, some p =>
      let l := rstrip l0
      if startsWith '!' (lstrip l) then go rest (some { p with coms := p.coms ++ [⟨true, lstrip l, n, n⟩] })
      else if (lstrip l).isEmpty then go rest (some p)
      else
        let sc := scanCode p.q l
        let coms := p.coms ++ comOf sc.2.1 n
        let t := trailing sc.1
        let acc := p.acc ++ leading t.1
        if t.2 then go rest (some ⟨acc, p.l1, n, sc.2.2, coms⟩)
        else andThen (emit acc p.l1 n coms) (go rest none)

/-- `is_not_comment(line, prev)` of `_sanitize_raw_source` over the item stream -/
def sanitizeFrom : Nat → List Item → List Item
  | _, [] => []
  | prevEnd, it :: rest =>
      let keep := !it.com || (prevEnd < it.l1 && it.text.take 2 == ['!', '$'])
      (if keep then [it] else []) ++ sanitizeFrom it.l2 rest

def number : Nat → List Line → List (Nat × Line)
  | _, [] => []
  | n, l :: ls => (n, l) :: number (n + 1) ls

/-- all items (statement lines and comments) of a source given as physical lines -/
def items (src : List Line) : List Item := go (number 1 (prepare src)) none

/-- `FortranReader(src).sanitized_lines` as (text, span) -/
def stmts (src : List Line) : List Item := sanitizeFrom 0 (items src)

end LokiModel.C19
