import LokiModel.C19.Reader
/-!
# C19 — `Discover`: specification-level discovery on statement lines

The regular expressions of `loki/frontend/regex.py` are *not* modelled.  `discover` is the specification both
frontends are compared against: it reads the statement lines the `Reader` produces, tokenises them
(lower-case words, single punctuation characters, opaque character literals) and walks the program-unit nesting
(`module` / `subroutine` / `function` / `contains` / `end`), reporting

* program units with their enclosing path and kind,
* `USE` statements (plain, `ONLY` lists with renames, rename lists),
* derived-type definitions with procedure bindings and generic bindings,
* interface blocks with `[module] procedure` lists and interface bodies,
* call targets (incl. inline `IF (..) CALL` and `%` chains, parenthesised parts dropped).

`discover` is parameterised by the requested `RegexParserClass` members (what `match_block_candidates` /
`match_statement_candidates` skip when a class is not requested), `Session` models `Sourcefile.from_source(REGEX)`
followed by `make_complete(REGEX, parser_classes=…)` calls.
-/
namespace LokiModel.C19

inductive Tok where
  | word (s : String)
  | str
  | sym (c : Char)
deriving Repr, DecidableEq, BEq

/-- tokens of a statement text: words lower-cased, literals opaque, blanks dropped -/
def tokenize : Option Char → List Char → List Char → List Tok
  | _, w, [] => if w.isEmpty then [] else [.word (String.ofList w.reverse)]
  | some q, w, c :: cs => if c = q then .str :: tokenize none w cs else tokenize (some q) w cs
  | none, w, c :: cs =>
      if isWord c then tokenize none (lowerC c :: w) cs
      else
        let flush := if w.isEmpty then [] else [Tok.word (String.ofList w.reverse)]
        if c = '\'' || c = '"' then flush ++ tokenize (some c) [] cs
        else if isWs c then flush ++ tokenize none [] cs
        else flush ++ (.sym c :: tokenize none [] cs)

def toks (l : Line) : List Tok := tokenize none [] l

structure Classes where
  pu : Bool
  ifc : Bool
  im : Bool
  td : Bool
  de : Bool
  ca : Bool
  pr : Bool
deriving Repr, DecidableEq, BEq

def Classes.union (a b : Classes) : Classes :=
  ⟨a.pu || b.pu, a.ifc || b.ifc, a.im || b.im, a.td || b.td, a.de || b.de, a.ca || b.ca, a.pr || b.pr⟩
def Classes.all : Classes := ⟨true, true, true, true, true, true, true⟩
def Classes.empty : Classes := ⟨false, false, false, false, false, false, false⟩
instance : Union Classes := ⟨Classes.union⟩

inductive UKind where | module | subroutine | function
deriving Repr, DecidableEq, BEq

inductive Fact where
  | unit (path : List String) (kind : UKind) (name : String)
  | imp (path : List String) (mod : String) (how : String) (items : List (String × String))
  | typedef (path : List String) (name : String) (binds : List (String × String)) (gens : List (String × List String))
  | iface (path : List String) (spec : String) (abstract : Bool) (procs : List String) (bodies : List String)
  | call (path : List String) (target : String)
deriving Repr, DecidableEq, BEq

/-- statement classes -/
inductive SClass where
  | endOf (what : Option String)      -- END [MODULE|SUBROUTINE|FUNCTION|TYPE|INTERFACE]
  | contains
  | module (name : String)
  | routine (kind : UKind) (name : String)
  | iface (spec : String) (abstract : Bool)
  | typeHead (name : String)
  | other
deriving Repr, DecidableEq

def isHeadTok : Tok → Bool
  | .word _ => true
  | .sym c => c = '(' || c = ')' || c = '='
  | .str => false

/-- `[prefix] SUBROUTINE|FUNCTION name`: the keyword preceded only by words, parentheses and `=` -/
def findRoutine : List Tok → Option (UKind × String)
  | .word "subroutine" :: .word n :: _ => some (.subroutine, n)
  | .word "function" :: .word n :: _ => some (.function, n)
  | t :: rest => if isHeadTok t then findRoutine rest else none
  | [] => none

def typeName : List Tok → Option String
  | .sym ':' :: .sym ':' :: .word n :: _ => some n
  | _ :: rest => typeName rest
  | [] => none

def classify (t : List Tok) : SClass :=
  match t with
  | [] => .other
  | .word "endmodule" :: _ => .endOf (some "module")
  | .word "endsubroutine" :: _ => .endOf (some "subroutine")
  | .word "endfunction" :: _ => .endOf (some "function")
  | .word "endtype" :: _ => .endOf (some "type")
  | .word "endinterface" :: _ => .endOf (some "interface")
  | [.word "end"] => .endOf none
  | .word "end" :: .word k :: _ =>
      if k = "module" || k = "subroutine" || k = "function" || k = "type" || k = "interface" then .endOf (some k) else .other
  | [.word "contains"] => .contains
  | [.word "module", .word n] => if n = "procedure" then .other else .module n
  | [.word "interface"] => .iface "-" false
  | .word "interface" :: .word n :: _ => .iface n false
  | .word "abstract" :: .word "interface" :: _ => .iface "-" true
  | .word "type" :: .word n :: _ => .typeHead n
  | .word "type" :: .sym ',' :: rest => match typeName rest with | some n => .typeHead n | none => .other
  | .word "type" :: .sym ':' :: .sym ':' :: .word n :: _ => .typeHead n
  | _ => match findRoutine t with
    | some (k, n) => .routine k n
    | none => .other

/-- drop a balanced parenthesis group that starts right here (depth counter) -/
def skipParens : Nat → List Tok → List Tok
  | _, [] => []
  | d, .sym '(' :: r => skipParens (d + 1) r
  | d, .sym ')' :: r => if d ≤ 1 then r else skipParens (d - 1) r
  | d, t :: r => if d = 0 then t :: r else skipParens d r

/-- `name [(..)] {% name [(..)]}` -/
def chain : Nat → List Tok → List String
  | 0, _ => []
  | f + 1, .word n :: r =>
      match skipParens 0 r with
      | .sym '%' :: r' => n :: chain f r'
      | _ => [n]
  | _, _ => []

def callTarget (t : List Tok) : Option String :=
  let t' := match t with
    | .word "if" :: .sym '(' :: r => skipParens 1 r
    | _ => t
  match t' with
  | .word "call" :: r =>
      match chain (r.length + 1) r with
      | [] => none
      | ns => some ("%".intercalate ns)
  | _ => none

/-- comma separated `a` / `a => b` items -/
def arrowItems : List Tok → List (String × String)
  | .word a :: .sym '=' :: .sym '>' :: .word b :: r => (a, b) :: arrowItems r
  | .word a :: r => (a, "-") :: arrowItems r
  | _ :: r => arrowItems r
  | [] => []

def afterColons : List Tok → Option (List Tok)
  | .sym ':' :: .sym ':' :: r => some r
  | _ :: r => afterColons r
  | [] => none

/-- `USE m [, ONLY: items | , renames]` -/
def useFact (path : List String) (t : List Tok) : Option Fact :=
  match t with
  | [.word "use", .word m] => some (.imp path m "all" [])
  | .word "use" :: .word m :: .sym ',' :: .word "only" :: .sym ':' :: r => some (.imp path m "only" (arrowItems r))
  | .word "use" :: .word m :: .sym ',' :: r => some (.imp path m "rename" (arrowItems r))
  | _ => none

def wordsOf : List Tok → List String
  | .word a :: r => a :: wordsOf r
  | _ :: r => wordsOf r
  | [] => []

/-- `PROCEDURE [, attrs] [::] b [=> t] {, …}` inside a type -/
def bindingItems (t : List Tok) : Option (List (String × String)) :=
  match t with
  | .word "procedure" :: .sym '(' :: _ => none
  | .word "procedure" :: r => some (arrowItems (match afterColons r with | some x => x | none => r))
  | _ => none

/-- `GENERIC [, attrs] :: g => a, b` -/
def genericItem (t : List Tok) : Option (String × List String) :=
  match t with
  | .word "generic" :: r =>
      match afterColons r with
      | some (.word g :: .sym '=' :: .sym '>' :: ts) => some (g, wordsOf ts)
      | _ => none
  | _ => none

/-- `[MODULE] PROCEDURE [::] a, b` inside an interface -/
def procNames (t : List Tok) : Option (List String) :=
  match t with
  | .word "module" :: .word "procedure" :: r => some (wordsOf r)
  | .word "procedure" :: r => some (wordsOf r)
  | _ => none

inductive Scope where
  | unit (kind : UKind) (name : String) (inContains : Bool)
  | typedef (name : String) (inContains : Bool) (binds : List (String × String)) (gens : List (String × List String))
  | iface (spec : String) (abstract : Bool) (procs : List String) (bodies : List String)
  | ifbody (kind : UKind)
deriving Repr

def pathOf : List Scope → List String
  | [] => []
  | .unit _ n _ :: r => pathOf r ++ [n]
  | _ :: r => pathOf r

def kindWord : UKind → String
  | .module => "module" | .subroutine => "subroutine" | .function => "function"

/-- one statement: new scope stack (innermost first) and emitted facts -/
def stepStmt (C : Classes) (stack : List Scope) (t : List Tok) : List Scope × List Fact :=
  let cls := classify t
  match stack with
  | .typedef n inC bs gs :: rest =>
      match cls with
      | .endOf (some "type") => (rest, if C.td then [.typedef (pathOf rest) n bs gs] else [])
      | .contains => (.typedef n true bs gs :: rest, [])
      | _ =>
        if inC then
          match bindingItems t, genericItem t with
          | some b, _ => (.typedef n inC (bs ++ b) gs :: rest, [])
          | none, some g => (.typedef n inC bs (gs ++ [g]) :: rest, [])
          | none, none => (stack, [])
        else (stack, [])
  | .ifbody k :: rest =>
      match cls with
      | .endOf none => (rest, [])
      | .endOf (some w) => if w = kindWord k then (rest, []) else (stack, [])
      | _ =>
        -- without InterfaceClass the statement patterns see the interface body as part of the enclosing spec
        match (if C.ifc then none else useFact (pathOf rest) t) with
        | some f => (stack, if C.im then [f] else [])
        | none => (stack, [])
  | .iface s a ps bs :: rest =>
      match cls with
      | .endOf (some "interface") => (rest, if C.ifc then [.iface (pathOf rest) s a ps bs] else [])
      | .routine k n => (.ifbody k :: .iface s a ps (bs ++ [n]) :: rest, [])
      | _ => match procNames t with
        | some ns => (.iface s a (ps ++ ns) bs :: rest, [])
        | none => (stack, [])
  | _ =>
      -- file level or inside a program unit
      let path := pathOf stack
      let inUnit : Bool := match stack with | .unit .. :: _ => true | _ => false
      let inCont : Bool := match stack with | .unit _ _ c :: _ => c | _ => true
      let isRoutine : Bool := match stack with | .unit k _ _ :: _ => k != .module | _ => false
      match cls with
      | .module n => (.unit .module n false :: stack, [.unit path .module n])
      | .routine k n => if inCont then (.unit k n false :: stack, [.unit path k n]) else (stack, [])
      | .contains => (match stack with | .unit k n _ :: r => .unit k n true :: r | s => s, [])
      | .endOf w =>
          (match stack with
           | .unit k _ _ :: r => (match w with | none => r | some x => if x = kindWord k then r else stack)
           | s => s, [])
      | .typeHead n => if inUnit && !inCont then (.typedef n false [] [] :: stack, []) else (stack, [])
      | .iface s a => if inUnit && !inCont then (.iface s a [] [] :: stack, []) else (stack, [])
      | .other =>
          if inUnit && !inCont then
            match useFact path t with
            | some f => (stack, if C.im then [f] else [])
            | none =>
              match (if isRoutine then callTarget t else none) with
              | some c => (stack, if C.ca then [.call path c] else [])
              | none => (stack, [])
          else (stack, [])

def walk (C : Classes) : List Scope → List (List Tok) → List Fact
  | _, [] => []
  | st, t :: ts => let r := stepStmt C st t; r.2 ++ walk C r.1 ts

/-- discovery on token lists -/
def discoverT (C : Classes) (ts : List (List Tok)) : List Fact :=
  if C.pu then walk C [] ts else []

/-- discovery on the statement lines of the reader -/
def discover (C : Classes) (ss : List Item) : List Fact := discoverT C (ss.map (fun s => toks s.text))

/-! ## incremental requests -/

/-- `Sourcefile._parser_classes` and the classes the program units were last parsed with (`none`: the whole file is
still one `RawSource` because no request so far contained `ProgramUnitClass`) -/
structure Session where
  fileCls : Classes
  unitCls : Option Classes
deriving Repr, DecidableEq

/-- `Sourcefile.from_source(frontend=REGEX, parser_classes=c)` -/
def Session.start (c : Classes) : Session := ⟨c, if c.pu then some c else none⟩

/-- `Sourcefile.make_complete(frontend=REGEX, parser_classes=c)`: program units are re-parsed with the union of
their own classes and `c`; a `RawSource` is re-parsed with `c` alone -/
def Session.complete (s : Session) (c : Classes) : Session :=
  ⟨s.fileCls ∪ c, match s.unitCls with
    | some u => some (u ∪ c)
    | none => if c.pu then some c else none⟩

def Session.view (s : Session) (ss : List Item) : List Fact :=
  match s.unitCls with
  | some u => discover u ss
  | none => []

def runHistory (first : Classes) (more : List Classes) : Session := more.foldl Session.complete (Session.start first)

/-! ## known-finding classes (decidable on the reader's statement lines) -/

/-- a module procedure holds a nested `END SUBROUTINE/FUNCTION` — an internal procedure (of any kind) or an interface
body — and another module follows in the file.  (Over-approximation of the family on which `ModulePattern` swallows
the following module: the exact family depends on regex backtracking, which is not modelled.) -/
def KnownNestedEndThenModule (ss : List Item) : Bool :=
  let fs := discover ⟨true, true, false, false, false, false, false⟩ ss
  let nested (m r : String) : Bool :=
    fs.any fun
      | .unit p _ _ => p == [m, r]
      | .iface p _ _ _ bodies => p == [m, r] && !bodies.isEmpty
      | _ => false
  let rec scan : List Fact → Bool
    | [] => false
    | .unit [] .module m :: rest =>
        (fs.any (fun | .unit p _ r => p == [m] && nested m r | _ => false) &&
          rest.any (fun | .unit [] .module _ => true | _ => false)) || scan rest
    | _ :: rest => scan rest
  scan fs

/-- `TypeDefClass`/`InterfaceClass` requested without all of Import/Call/TypeDef/Interface: the text before a matched
block is searched with *all* classes (`match_block_statement_candidates` drops `parser_classes` in its recursion) -/
def KnownBlockClassAlone (c : Classes) : Bool := (c.td || c.ifc) && !(c.td && c.ifc && c.im && c.ca)

/-- the class flags `discover` looks at (Declaration/Pragma matches are not reported) -/
def Classes.obs (c : Classes) : Bool × Bool × Bool × Bool × Bool := (c.pu, c.ifc, c.im, c.td, c.ca)

/-- union of all requests of a history -/
def requested (first : Classes) (more : List Classes) : Classes := more.foldl (· ∪ ·) first

/-- **narrow form of the request-order defect**: program units exist at the end of the history, but some
(observable) class was requested only before the first request containing `ProgramUnitClass` and never again —
exactly the histories whose view differs from the discovery of the union of their requests -/
def KnownRequestLost (first : Classes) (more : List Classes) : Bool :=
  match (runHistory first more).unitCls with
  | some u => u.obs != (requested first more).obs
  | none => false

/-- the first request of a history does not contain `ProgramUnitClass` (its other classes are forgotten) -/
def KnownRequestBeforeUnits (first : Classes) : Bool := !first.pu

end LokiModel.C19
