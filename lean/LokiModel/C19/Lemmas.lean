import LokiModel.C19.Discover
/-! helper lemmas for `Props/C19.lean` -/
namespace LokiModel.C19

theorem Classes.union_def (a b : Classes) : a ∪ b = Classes.union a b := rfl

theorem Classes.union_comm (a b : Classes) : a ∪ b = b ∪ a := by
  cases a; cases b; simp [Classes.union_def, Classes.union, Bool.or_comm]

theorem Classes.union_assoc (a b c : Classes) : (a ∪ b) ∪ c = a ∪ (b ∪ c) := by
  cases a; cases b; cases c; simp [Classes.union_def, Classes.union, Bool.or_assoc]

theorem Classes.union_idem (a : Classes) : a ∪ a = a := by
  cases a; simp [Classes.union_def, Classes.union]

theorem Classes.union_pu (a b : Classes) : (a ∪ b).pu = (a.pu || b.pu) := rfl

/-- once the program units exist, every further request just adds its classes -/
theorem foldl_complete_some (u f : Classes) (more : List Classes) :
    (more.foldl Session.complete ⟨f, some u⟩).unitCls = some (more.foldl (· ∪ ·) u) := by
  induction more generalizing u f with
  | nil => rfl
  | cons c cs ih => simp only [List.foldl_cons, Session.complete]; exact ih _ _

/-- `stepStmt` reads only the observable class flags -/
def Classes.norm (c : Classes) : Classes := ⟨c.pu, c.ifc, c.im, c.td, false, c.ca, false⟩

theorem stepStmt_norm (C : Classes) (st : List Scope) (t : List Tok) : stepStmt C st t = stepStmt C.norm st t := rfl

theorem walk_norm (C : Classes) (ts : List (List Tok)) : ∀ st, walk C st ts = walk C.norm st ts := by
  induction ts with
  | nil => intro st; rfl
  | cons t ts ih => intro st; simp only [walk]; rw [← stepStmt_norm, ih]

theorem discover_obs (a b : Classes) (h : a.obs = b.obs) (ss : List Item) : discover a ss = discover b ss := by
  have hn : a.norm = b.norm := by
    cases a; cases b
    simp only [Classes.obs, Prod.mk.injEq] at h
    obtain ⟨h1, h2, h3, h4, h5⟩ := h
    simp [Classes.norm, h1, h2, h3, h4, h5]
  have hp : a.pu = b.pu := by
    have := congrArg (·.1) h; simpa [Classes.obs] using this
  simp only [discover, discoverT, hp]
  split
  · rw [walk_norm a, walk_norm b, hn]
  · rfl

/-- while the file is still raw no request so far contained `ProgramUnitClass` -/
theorem foldl_complete_none (more : List Classes) : ∀ (f c : Classes),
    (more.foldl Session.complete ⟨f, none⟩).unitCls = none → (more.foldl (· ∪ ·) c).pu = c.pu := by
  induction more with
  | nil => intro f c _; rfl
  | cons x xs ih =>
    intro f c h
    simp only [List.foldl_cons, Session.complete] at h ⊢
    by_cases hx : x.pu = true
    · simp only [hx, if_true] at h
      rw [foldl_complete_some] at h
      cases h
    · have hx0 : x.pu = false := by simpa using hx
      simp only [hx0] at h
      have := ih _ (c ∪ x) h
      rw [this, Classes.union_pu, hx0, Bool.or_false]

/-- span invariant of the item stream -/
def Item.Ok (i : Item) : Prop := i.l1 ≤ i.l2

theorem emit_ok {acc : Line} {l1 l2 : Nat} {coms is : List Item} (h12 : l1 ≤ l2)
    (hc : ∀ c ∈ coms, c.Ok) (he : emit acc l1 l2 coms = some is) : ∀ i ∈ is, i.Ok := by
  unfold emit at he
  simp only at he
  split at he
  · cases he
    split
    · intro i hi; simp at hi; subst hi; exact h12
    · exact hc
  · split at he
    · cases he
    · cases he
      intro i hi
      rcases List.mem_append.mp hi with h | h
      · obtain ⟨p, _, rfl⟩ := List.mem_map.mp h; exact h12
      · exact hc i h

theorem andThen_ok {e : Option (List Item)} {k : List Item}
    (he : ∀ is, e = some is → ∀ i ∈ is, i.Ok) (hk : ∀ i ∈ k, i.Ok) : ∀ i ∈ andThen e k, i.Ok := by
  cases e with
  | none => intro i hi; simp [andThen] at hi
  | some is =>
    intro i hi
    simp only [andThen] at hi
    rcases List.mem_append.mp hi with h | h
    · exact he is rfl i h
    · exact hk i h

def PendOk (p : Option Pend) : Prop := ∀ q, p = some q → q.l1 ≤ q.l2 ∧ ∀ c ∈ q.coms, c.Ok

theorem comOf_ok (o : Option Line) (n : Nat) : ∀ c ∈ comOf o n, c.Ok := by
  intro c hc
  cases o with
  | none => cases hc
  | some x => simp [comOf] at hc; subst hc; exact Nat.le_refl _

theorem append_ok {a b : List Item} (ha : ∀ c ∈ a, c.Ok) (hb : ∀ c ∈ b, c.Ok) : ∀ c ∈ a ++ b, c.Ok := by
  intro c hc
  rcases List.mem_append.mp hc with h | h
  · exact ha c h
  · exact hb c h

/-- line numbers ascend and lie above the pending statement -/
def Asc (ls : List (Nat × Line)) (p : Option Pend) : Prop :=
  ls.Pairwise (fun a b => a.1 ≤ b.1) ∧ ∀ q, p = some q → ∀ x ∈ ls, q.l2 ≤ x.1

theorem asc_tail_none {n : Nat} {l0 : Line} {rest : List (Nat × Line)} {p : Option Pend}
    (h : Asc ((n, l0) :: rest) p) : Asc rest none :=
  ⟨(List.pairwise_cons.mp h.1).2, by intro q hq; cases hq⟩

theorem asc_tail_some {n : Nat} {l0 : Line} {rest : List (Nat × Line)} {p : Option Pend} {q' : Pend}
    (h : Asc ((n, l0) :: rest) p) (hq : q'.l2 ≤ n) : Asc rest (some q') :=
  ⟨(List.pairwise_cons.mp h.1).2, by
    intro q hq' x hx; cases hq'
    exact Nat.le_trans hq ((List.pairwise_cons.mp h.1).1 x hx)⟩

theorem go_ok (ls : List (Nat × Line)) (p : Option Pend) : Asc ls p → PendOk p → ∀ i ∈ go ls p, i.Ok := by
  fun_induction go ls p with
  | case1 => intro _ _ i hi; cases hi
  | case2 q =>
    intro _ hp
    obtain ⟨h1, h2⟩ := hp q rfl
    exact andThen_ok (fun is he => emit_ok h1 h2 he) (by intro i hi; cases hi)
  | case3 n l0 rest l hcpp ih =>
    intro ha _
    exact andThen_ok (fun is he => emit_ok (Nat.le_refl _) (by intro c hc; cases hc) he)
      (ih (asc_tail_none ha) (by intro q hq; cases hq))
  | case4 n l0 rest l hcpp sc coms t ht ih =>
    intro ha _
    exact ih (asc_tail_some ha (Nat.le_refl _)) (by intro q hq; cases hq; exact ⟨Nat.le_refl _, comOf_ok _ _⟩)
  | case5 n l0 rest l hcpp sc coms t ht ih =>
    intro ha _
    exact andThen_ok (fun is he => emit_ok (Nat.le_refl _) (comOf_ok _ _) he)
      (ih (asc_tail_none ha) (by intro q hq; cases hq))
  | case6 n l0 rest q l hbang ih =>
    intro ha hp
    obtain ⟨h1, h2⟩ := hp q rfl
    refine ih (asc_tail_some ha (ha.2 q rfl _ (List.mem_cons_self))) ?_
    intro q' hq'; cases hq'
    exact ⟨h1, append_ok h2 (by intro c hc; simp at hc; subst hc; exact Nat.le_refl _)⟩
  | case7 n l0 rest q l hbang hblank ih =>
    intro ha hp
    exact ih (asc_tail_some ha (ha.2 q rfl _ (List.mem_cons_self))) hp
  | case8 n l0 rest q l hbang hblank sc coms t acc ht ih =>
    intro ha hp
    obtain ⟨h1, h2⟩ := hp q rfl
    have hn : q.l2 ≤ n := ha.2 q rfl _ (List.mem_cons_self)
    refine ih (asc_tail_some ha (Nat.le_refl _)) ?_
    intro q' hq'; cases hq'
    exact ⟨Nat.le_trans h1 hn, append_ok h2 (comOf_ok _ _)⟩
  | case9 n l0 rest q l hbang hblank sc coms t acc ht ih =>
    intro ha hp
    obtain ⟨h1, h2⟩ := hp q rfl
    have hn : q.l2 ≤ n := ha.2 q rfl _ (List.mem_cons_self)
    exact andThen_ok (fun is he => emit_ok (Nat.le_trans h1 hn) (append_ok h2 (comOf_ok _ _)) he)
      (ih (asc_tail_none ha) (by intro q hq; cases hq))

theorem number_asc (ls : List Line) : ∀ k, (number k ls).Pairwise (fun a b => a.1 ≤ b.1) ∧ ∀ x ∈ number k ls, k ≤ x.1 := by
  induction ls with
  | nil => intro k; exact ⟨List.Pairwise.nil, by intro x hx; cases hx⟩
  | cons l ls ih =>
    intro k
    obtain ⟨h1, h2⟩ := ih (k + 1)
    refine ⟨List.pairwise_cons.mpr ⟨fun x hx => Nat.le_of_succ_le (h2 x hx), h1⟩, ?_⟩
    intro x hx
    rcases List.mem_cons.mp hx with h | h
    · subst h; exact Nat.le_refl _
    · exact Nat.le_of_succ_le (h2 x h)

theorem sanitizeFrom_sub (is : List Item) : ∀ k, ∀ i ∈ sanitizeFrom k is, i ∈ is := by
  induction is with
  | nil => intro k i hi; cases hi
  | cons it rest ih =>
    intro k i hi
    simp only [sanitizeFrom] at hi
    rcases List.mem_append.mp hi with h | h
    · split at h
      · simp at h; subst h; exact List.mem_cons_self
      · cases h
    · exact List.mem_cons_of_mem _ (ih _ i h)

end LokiModel.C19
