/-!
# C38 — stack model: pointer-bump layout and the stack size of a call tree

* `starts`/`intervals`: the pointer-bump allocation `ptr_k = base + Σ_{j<k} size_j` used by the stack/pool allocators
  (`stack_allocator.py: apply_pool_allocator_to_temporaries`: `JD_incr = J_STACK_USED; J_STACK_USED = JD_incr + size`).
* `SE`: symbolic size expressions (integer literals, dummies, `+`, `*`, `MAX`), `CT`: an abstract call tree — per routine the
  sizes of its stack temporaries and its calls (argument map: callee dummy ↦ caller expression, and the callee's tree).
* `stackSize`: `BaseStackTransformation._determine_stack_size` — local sum + MAX over the calls of the callee's size with the
  callee's dummies substituted through the call's argument map (modelled up to evaluation: the real code builds
  `MAX(local + s₁, local + s₂, …)`, returns `local` alone when no callee needs a stack, and tries to flatten nested MAX
  calls — a dead assignment in the real code —, all of which evaluate to `local + max(s₁, s₂, …, 0)`).
Core Lean only.
-/
namespace LokiModel.C38

/-! ### pointer bump -/

def starts (base : Nat) : List Nat → List Nat
  | [] => []
  | s :: rest => base :: starts (base + s) rest

/-- (start, size) of every temporary; the occupied cells are `[start, start + size)` -/
def intervals (base : Nat) (sizes : List Nat) : List (Nat × Nat) := (starts base sizes).zip sizes

def total (sizes : List Nat) : Nat := sizes.foldr (· + ·) 0

/-! ### symbolic sizes -/

inductive SE where
  | lit (n : Nat)
  | var (x : String)
  | add (a b : SE)
  | mul (a b : SE)
  | max (a b : SE)
deriving Repr, Inhabited

def SE.eval (ρ : String → Nat) : SE → Nat
  | .lit n => n
  | .var x => ρ x
  | .add a b => a.eval ρ + b.eval ρ
  | .mul a b => a.eval ρ * b.eval ρ
  | .max a b => Max.max (a.eval ρ) (b.eval ρ)

def lookup (m : List (String × SE)) (x : String) : Option SE := (m.find? (·.1 == x)).map (·.2)

/-- `SubstituteExpressions(arg_map)` on a size expression -/
def SE.subst (m : List (String × SE)) : SE → SE
  | .lit n => .lit n
  | .var x => match lookup m x with | some a => a | none => .var x
  | .add a b => .add (a.subst m) (b.subst m)
  | .mul a b => .mul (a.subst m) (b.subst m)
  | .max a b => .max (a.subst m) (b.subst m)

/-- the callee's valuation induced by a call: dummy ↦ value of the actual, other names unchanged -/
def bindVal (ρ : String → Nat) (m : List (String × SE)) : String → Nat :=
  fun x => match lookup m x with | some a => a.eval ρ | none => ρ x

def sumSE : List SE → SE
  | [] => .lit 0
  | e :: es => .add e (sumSE es)

def maxSE : List SE → SE
  | [] => .lit 0
  | e :: es => .max e (maxSE es)

mutual
inductive CT where
  | node (locals : List SE) (calls : Calls)
inductive Calls where
  | nil
  | cons (argmap : List (String × SE)) (callee : CT) (rest : Calls)
end

mutual
def stackSize : CT → SE
  | .node locals calls => .add (sumSE locals) (maxSE (succSizes calls))
def succSizes : Calls → List SE
  | .nil => []
  | .cons m t rest => (stackSize t).subst m :: succSizes rest
end

/-! ### what is really used: pointer bump along call paths -/

mutual
/-- the largest number of stack cells simultaneously in use while the routine (and whatever it calls) runs -/
def peak (ρ : String → Nat) : CT → Nat
  | .node locals calls => (sumSE locals).eval ρ + peakCalls ρ calls
def peakCalls (ρ : String → Nat) : Calls → Nat
  | .nil => 0
  | .cons m t rest => Max.max (peak (bindVal ρ m) t) (peakCalls ρ rest)
end

mutual
/-- cells in use at every point of every call path: own temporaries + those of the active callers -/
def pathUse (ρ : String → Nat) (above : Nat) : CT → List Nat
  | .node locals calls => (above + (sumSE locals).eval ρ) :: pathUseCalls ρ (above + (sumSE locals).eval ρ) calls
def pathUseCalls (ρ : String → Nat) (above : Nat) : Calls → List Nat
  | .nil => []
  | .cons m t rest => pathUse (bindVal ρ m) above t ++ pathUseCalls ρ above rest
end

end LokiModel.C38
