import LokiModel.C11.Model
/-!
# C11 — regression statements about behaviour repaired by `fix:` commits

`inlinecall-hash-initargs` (fixed): `InlineCall.__hash__` used to hash `__getinitargs__()` =
(function, parameters, keyword names) while `__eq__` compares the canonical text.  The init-arg keys of two
text-equal calls differ, which is why the old hash was inconsistent with `==`.
-/
namespace LokiModel.C11
open Node

/-- the old hash argument (still the `.initargs` branch of `hkey`, unused by the current tables) -/
def oldCallKey (f : Node) (as : List Node) (kn : List Str) : Key :=
  .pair (hkey f) (.pair (hkeyL as) (.pair (kn.foldr (fun n t => .pair (.str n) t) .nil) .nil))

theorem C11_old_callhash_inconsistent :
    canon (call (sym .proc "f".toList pyNone) [intLit 1 pyNone] [] []) = canon (call (sym .proc "f".toList pyNone) [pyInt 1] [] [])
    ∧ oldCallKey (sym .proc "f".toList pyNone) [intLit 1 pyNone] [] ≠ oldCallKey (sym .proc "f".toList pyNone) [pyInt 1] [] := by
  decide

end LokiModel.C11
