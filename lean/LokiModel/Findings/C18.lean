import LokiModel.Props.C18
/-!
# C18 — witness theorems about the current code (non-gating)
-/
namespace LokiModel.C18
open LokiModel.C17

/-- `subroutine host(x); call inner(); contains; subroutine inner(); … x … ; end; end` -/
def hostHeap : Heap := { cells := [
  (1, .unit false "host" none 1 [2] [4]), (1, .tab none [("x", { code := 5 }), ("inner", { code := 1, proc := some 4 })]),
  (1, .node "Section" none [] []),
  (1, .node "Assignment" none [⟨"x", some 0⟩] []),
  (1, .unit false "inner" (some 0) 5 [6] []), (1, .tab (some 1) []), (1, .node "Section" none [] [3])] }

/-- the model reproduces the defect: after the round trip the member has no parent and its host-associated symbol `x` is unattached
(`Subroutine.__setstate__` re-registers members but does not `_reset_parent` them) -/
theorem member_parent_lost_model :
    (unpickle 20 hostHeap 0).1.get 11 = some (.node "Assignment" none [⟨"x", none⟩] []) ∧
    parOf (unpickle 20 hostHeap 0).1 10 = none := by
  decide +kernel


/-- both crash classes are non-empty and decided on the exported heap -/
example : KnownCast { cells := [(1, .node "Assignment!cast" none [] [])] } = true := by decide +kernel
example : KnownImportDT { cells := [(1, .node "Import!dt" none [] [])] } = true := by decide +kernel

end LokiModel.C18
