import LokiModel.C39.Model
/-!
# C39 — witnesses of the open findings (non-gating: a repair of the real code makes the model, and then these, change)

Each statement evaluates the model of the *current* `ParametriseTransformation` on the minimal witness of a class listed in
notes/C39.md; the same witnesses are replayed on the real code by the oracle (corpus/C39/witnesses.sexp).
-/
namespace LokiModel.C39
open LokiModel.Fir

def dIn (x : String) : Decl := { name := x, ty := .int, dims := [], intent := .in_ }
def dInout (x : String) : Decl := { name := x, ty := .int, dims := [], intent := .inout }
def cfgOf (dic : Dic) (rbv : Bool) (order : List String) : Cfg :=
  { dic := dic, rbv := rbv, entry := none, printAbort := true, order := order }

def okAnd (r : Except String Program) (q : Program → Bool) : Bool := match r with | .ok p => q p | .error _ => false

def errIs (r : Except String Program) (e : String) : Bool := match r with | .error m => m == e | .ok _ => false

/-- every call passes as many actuals as its callee has dummies -/
def callArity (p : Program) : Bool :=
  p.units.all fun u => (callsOf u.body).all fun c =>
    match findUnit p c.1 with | some g => g.args.length == c.2.length | none => true

/-- `call sub1(n, n, r1)`: both actuals are removed, only the *last* dummy is parametrised -/
def dupProg : Program := { main := "kernel", units := [
  { name := "kernel", args := ["n", "r1"], decls := [dIn "n", dInout "r1"],
    body := [.callSub "sub1" [.var "n", .var "n", .var "r1"]] },
  { name := "sub1", args := ["n", "m", "r1"], decls := [dIn "n", dIn "m", dInout "r1"],
    body := [.assign (.var "r1") (.bin .add (.var "n") (.bin .mul (.lit (.int 2)) (.var "m")))] }] }

theorem inconsistent_calls_witness :
    (callArity dupProg &&
     okAnd (transformProgram (cfgOf [("n", 3)] false ["kernel", "sub1"]) dupProg) (fun p' => !(callArity p')) &&
     (classesOf (cfgOf [("n", 3)] false ["kernel", "sub1"]) dupProg == ["param-inconsistent-calls"])) = true := by decide +kernel

/-- two call sites pass the parametrised variable in different positions: the last call statement decides -/
def twoSites : Program := { main := "kernel", units := [
  { name := "kernel", args := ["n", "k", "r1"], decls := [dIn "n", dIn "k", dInout "r1"],
    body := [.callSub "sub1" [.var "n", .var "k", .var "r1"], .callSub "sub1" [.var "k", .var "n", .var "r1"]] },
  { name := "sub1", args := ["a", "b", "r1"], decls := [dIn "a", dIn "b", dInout "r1"],
    body := [.assign (.var "r1") (.bin .add (.var "r1") (.bin .add (.var "a") (.bin .mul (.lit (.int 2)) (.var "b"))))] }] }

theorem last_call_site_wins_witness :
    (okAnd (transformProgram (cfgOf [("n", 3)] false ["kernel", "sub1"]) twoSites)
       (fun p' => (match findUnit p' "sub1" with | some g => g.args == ["a", "r1"] | none => false) && callArity p') &&
     (classesOf (cfgOf [("n", 3)] false ["kernel", "sub1"]) twoSites == ["param-inconsistent-calls"])) = true := by decide +kernel

/-- a callee whose only declared variable is the parametrised dummy: `declarations[0]` raises IndexError -/
def soleProg : Program := { main := "kernel", units := [
  { name := "kernel", args := ["n", "r1"], decls := [dIn "n", dInout "r1"],
    body := [.callSub "sub1" [.var "n"], .assign (.var "r1") (.var "n")] },
  { name := "sub1", args := ["n"], decls := [dIn "n"], body := [.print [.var "n"]] }] }

theorem all_decls_removed_witness :
    errIs (transformProgram (cfgOf [("n", 3)] false ["kernel", "sub1"]) soleProg) "indexerror" = true := by decide +kernel

def oneUnit (d : Decl) : Program := { main := "kernel", units := [
  { name := "kernel", args := ["n", "r1"], decls := [d, dInout "r1"], body := [.assign (.var "r1") (.var "n")] }] }

/-- the key `N` for the dummy `n`: `dic2p['n']` raises KeyError -/
theorem key_case_witness : errIs (transformProgram (cfgOf [("N", 3)] false ["kernel"]) (oneUnit (dIn "n"))) "keyerror" = true := by
  decide +kernel

/-- a dummy without INTENT at an entry point: the `arguments` setter asserts -/
theorem no_intent_witness :
    errIs (transformProgram (cfgOf [("n", 3)] false ["kernel"]) (oneUnit { name := "n", ty := .int, dims := [] })) "assertion" = true := by
  decide +kernel

/-- `replace_by_value`: PRINT keeps the name whose declaration is removed -/
def printProg : Program := { main := "kernel", units := [
  { name := "kernel", args := ["n", "r1"], decls := [dIn "n", dInout "r1"], body := [.print [.var "n"], .assign (.var "r1") (.var "n")] }] }

theorem rbv_print_witness :
    okAnd (transformProgram (cfgOf [("n", 3)] true ["kernel"]) printProg) (fun p' =>
      match findUnit p' "kernel" with
      | some u => printMentions ["n"] u.body && !(u.decls.any (·.name == "n"))
      | none => false) = true := by decide +kernel

end LokiModel.C39
