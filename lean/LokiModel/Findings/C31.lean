import LokiModel.C31.Unroll
import LokiModel.C31.Nest
/-!
# C31 — witnesses of open defects of loop unrolling (non-gating: a repair of the code makes these statements false)

Each witness is a small statement list `ss`, run before and after the model of `do_loop_unroll` (`unrollBody`) from the same
state.  The same programs are replayed on the real code by the oracle (`known_findings.json` witnesses).
-/
namespace LokiModel.C31
open LokiModel.Fir
open LokiModel.Expr (Val)

def P0 : Program := { units := [], main := "k" }
def σ0 : St := { store := [("s", .scalar .int (some (.int 0))), ("i", .scalar .int none), ("t", .scalar .int none)] }

def getInt (r : Res) (x : String) : Option Int :=
  match r with
  | .ok st _ => match lookupCell st x with
      | some (.scalar _ (some (.int n))) => some n
      | _ => none
  | _ => none

def isErr : Res → Bool
  | .err _ => true
  | _ => false

def sigOf : Res → Option Sig
  | .ok _ s => some s
  | _ => none

def i1 : Ex := .lit (.int 1)
def i2 : Ex := .lit (.int 2)
def pragmaU : Stmt := .nop "pragma" "loki loop-unroll"
def sPlus (e : Ex) : Stmt := .assign (.var "s") (.bin .add (.var "s") e)

/-! The unrolled lists are written with `unrollCopies` (the model's core step); that `unrollBody` produces exactly these lists for
the three inputs is part of the correspondence check (the witnesses are in `corpus/C31/`): `unrollBody` parses pragma texts with
string functions that the kernel does not evaluate by `decide`. -/

/-- class `unroll-loopvar-live`: `do i = 1, 2; s = s + i; end do; t = i` -/
def liveW : List Stmt := [pragmaU, .doLoop "i" i1 i2 none [sPlus (.var "i")], .assign (.var "t") (.var "i")]
def liveU : List Stmt := unrollCopies "i" [sPlus (.var "i")] [1, 2] ++ [.assign (.var "t") (.var "i")]

/-- the original sets `t = 3` (DO variable after the loop); the unrolled code reads the undefined `i` -/
theorem unroll_live_witness :
    getInt (execStmts P0 20 liveW σ0) "t" = some 3 ∧ isErr (execStmts P0 20 liveU σ0) = true := by
  decide

/-- the loop variable itself: 3 after the loop, still undefined after the unrolled code (why `unroll_sound` excludes `v`) -/
theorem unroll_loopvar_differs :
    getInt (execStmts P0 20 [.doLoop "i" i1 i2 none [sPlus (.var "i")]] σ0) "i" = some 3 ∧
    getInt (execStmts P0 20 (unrollCopies "i" [sPlus (.var "i")] [1, 2]) σ0) "i" = none ∧
    getInt (execStmts P0 20 (unrollCopies "i" [sPlus (.var "i")] [1, 2]) σ0) "s" = some 3 := by
  decide

/-- class `unroll-exit-cycle`: `do i = 1, 2; if (i == 1) cycle; s = s + 10; end do` -/
def cycleBody : List Stmt := [.ifte (.bin (.cmp .eq) (.var "i") i1) [.cycle] [], sPlus (.lit (.int 10))]
def cycleW : List Stmt := [pragmaU, .doLoop "i" i1 i2 none cycleBody]
def cycleU : List Stmt := unrollCopies "i" cycleBody [1, 2]

/-- the original adds 10 once; the unrolled code runs into a CYCLE outside any loop and stops with `s = 0` -/
theorem unroll_cycle_witness :
    getInt (execStmts P0 20 cycleW σ0) "s" = some 10 ∧
    getInt (execStmts P0 20 cycleU σ0) "s" = some 0 ∧
    sigOf (execStmts P0 20 cycleU σ0) = some .cycle := by
  decide

/-- class `unroll-print-text`: `do i = 1, 2; print *, i; end do` — PRINT is not substituted, `i` is never set -/
def printW : List Stmt := [pragmaU, .doLoop "i" i1 i2 none [.print [.var "i"]]]
def printU : List Stmt := unrollCopies "i" [.print [.var "i"]] [1, 2]

theorem unroll_print_witness :
    isErr (execStmts P0 20 printW σ0) = false ∧ isErr (execStmts P0 20 printU σ0) = true := by
  decide

/-- the three witnesses are outside the hypotheses of `unroll_sound` exactly as the classes say -/
example : escapes cycleBody = true := by decide
example : okSs "i" [.print [.var "i"]] = false := by decide
example : mentionsFree "i" [.assign (.var "t") (.var "i")] = true := by decide

/-- class `block-zero-trip-step`: `do i = 1, 2, -2` runs zero times, `num_iterations` is `(2 - 1)/(-2) + 1 = 1`
(C10_numIter needs a non-empty loop); same for `do i = 3, 2, 2` -/
theorem block_zero_trip_witness :
    KnownBlockZeroTrip 1 2 (-2) = true ∧ KnownBlockZeroTrip 3 2 2 = true ∧ KnownBlockZeroTrip 2 1 1 = false := by decide

end LokiModel.C31
