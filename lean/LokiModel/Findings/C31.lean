import LokiModel.C31.Model
namespace LokiModel.C31
end LokiModel.C31
