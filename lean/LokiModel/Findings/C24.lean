import LokiModel.Props.C24
/-!
# C24 — witnesses of the defects of the current code (not gating: a repair makes these statements false)
-/
namespace LokiModel.C24
open LokiModel.C22

/-- (R) the de-duplication test of `CMakePlanTransformation.plan_file` (`newsource not in self.sources_to_append`)
looks the new path up among the library *keys*: it never finds it -/
theorem C24_dedup_never_triggers (p : String) (m : LibMap) : pathInKeys p m = false := rfl

private def fA : FileNode := ⟨"src/a/g.F90", some "idem", some "kernel"⟩
private def fB : FileNode := ⟨"src/b/g.F90", some "idem", some "kernel"⟩
private def inf (f : FileNode) : FInfo :=
  if f.name = "src/a/g.F90" then ⟨"src/a", "g", ".F90", "src/a/g.F90", true, "src/a/g.F90", true, false, none, some "idem"⟩
  else ⟨"src/b", "g", ".F90", "src/b/g.F90", true, "src/b/g.F90", true, false, none, some "idem"⟩
private def wOut : WCfg := ⟨none, some "build"⟩

/-- (1) **output collision.**  Full statement: the appended files are, as a multiset, the set of files written. -/
def C24_append_eq_written_full : Prop :=
  ∀ (w : WCfg) (info : FileNode → FInfo) (visitedWp visitedC visitedWv : List FileNode),
    visitedC.Nodup → visitedWv.Nodup → (∀ f ∈ visitedWp, f ∈ visitedC) → (∀ f, f ∈ visitedWp ↔ f ∈ visitedWv) →
    (allOf (planRun w info (fun f => visitedWp.contains f) visitedC {}).append).Perm (written w info visitedWv)

/-- witness: `src/a/g.F90` and `src/b/g.F90` with `output_dir = build`: both become `build/g.idem.F90`; the plan
appends that path twice (the intended de-duplication never triggers), the conversion leaves one file holding the
content of whichever was written last; both originals are removed from the build -/
theorem C24_append_eq_written_full_false : ¬ C24_append_eq_written_full := by
  intro h
  have := (h wOut inf [fA, fB] [fA, fB] [fA, fB] (by decide) (by decide) (by simp) (by simp)).length_eq
  revert this
  decide

example : KnownCollision wOut inf [fA, fB] = true := by decide
example : (planRun wOut inf (fun _ => true) [fA, fB] {}).append = [(none, ["build/g.idem.F90", "build/g.idem.F90"])] := by
  decide
example : (planRun wOut inf (fun _ => true) [fA, fB] {}).remove = [(none, ["src/a/g.F90", "src/b/g.F90"])] := by decide
example : written wOut inf [fA, fB] = ["build/g.idem.F90"] := by decide

/-- (2) **created, not replicated.**  Full statement: `sources_to_transform` = the files the planned files derive from. -/
def C24_transform_derived_full : Prop :=
  ∀ (w : WCfg) (info : FileNode → FInfo) (hasFW : FileNode → Bool) (visitedC : List FileNode) (k : Option String),
    lookupLib k (planRun w info hasFW visitedC {}).transform =
      (visitedC.filter (fun f => hasFW f && decide ((info f).lib = k))).flatMap (fun f => derivedFrom (info f))

private def infDup (_ : FileNode) : FInfo :=
  ⟨"src", "r1_dup", ".F90", "src/r1_dup.F90", false, "src/f1.F90", true, false, none, some "idem"⟩

/-- witness: a file created by `DuplicateKernel` (`src/r1_dup.F90`, cloned from `src/f1.F90`, not on disk) whose items
are not marked `replicate`: it is appended, but the file it derives from is not listed as transformed (for a
replicated duplicate it is) -/
theorem C24_transform_derived_full_false : ¬ C24_transform_derived_full := by
  intro h
  have := h wOut infDup (fun _ => true) [fA] none
  revert this
  decide

example : KnownCreatedNotReplicated infDup (fun _ => true) [fA] = true := by decide

/-- (3) **graph drift.**  Full statement: `C24_plan_eq_conversion` without the hypothesis that planning run and
conversion run select the same files. -/
def C24_plan_eq_conversion_full : Prop :=
  ∀ (w : WCfg) (info : FileNode → FInfo) (modvars : Bool)
    (gP : Graph) (orderP : List Item) (foW foC : List FileNode) (gV : Graph) (orderV : List Item) (foWv : List FileNode),
    IsTopo gP orderP → IsTopo gV orderV →
    IsTopoF (asFileGraph gP orderP (mW modvars)) foW → IsTopoF (asFileGraph gP orderP mC) foC →
    IsTopoF (asFileGraph gV orderV (mW modvars)) foWv →
    (gP.items.map (·.name) = gV.items.map (·.name)) →
    (allOf (planOf w info modvars foW foC).append).Perm (convWrites w info modvars foWv)

private def itP : Item := { (default : Item) with name := "#r6", kind := .proc, file := fA }
private def itV : Item := { itP with ignored := true }

/-- witness: the same routine is not ignored in the graph the planning run builds (once, `full_parse=False`) and
ignored in the graph the conversion run builds (twice: `is_ignored` stamped by the first construction is read by the
second): the plan appends its file, the conversion does not write it -/
theorem C24_plan_eq_conversion_full_false : ¬ C24_plan_eq_conversion_full := by
  intro h
  have := (h wOut inf false ⟨[itP], []⟩ [itP] [fA] [fA] ⟨[itV], []⟩ [itV] []
    ((isTopo_iff _ _).1 (by decide)) ((isTopo_iff _ _).1 (by decide))
    ((isTopoF_iff _ _).1 (by decide)) ((isTopoF_iff _ _).1 (by decide)) ((isTopoF_iff _ _).1 (by decide)) rfl).length_eq
  revert this
  decide

/-! current values of the generated tables (default mode "loki", `-` ↦ `_`) at work -/
private def infS (_ : FileNode) : FInfo :=
  ⟨"src/a", "g", ".F90", "src/a/g.F90", true, "src/a/g.F90", true, false, none, some "scc-hoist"⟩
example : getFilePath ⟨none, some "build"⟩ (infS fA) = "build/g.scc_hoist.F90" := by decide
example : getFilePath ⟨some ".f90", none⟩ { infS fA with mode := none } = "src/a/g.loki.f90" := by decide

end LokiModel.C24
