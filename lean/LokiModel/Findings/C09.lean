import LokiModel.Props.C09
/-!
# C09 — witnesses of the open finding `eqne-undecidable` (statements about a *defect of the current code*)

Kept apart from `Props/C09.lean`: when `symbolic_op` is repaired (raises for `==` / `!=` on a non-literal difference) the
regenerated `Tables.eqneGuard` makes these statements false and this module stops building — reported as a note, never
as a violation.
-/
namespace LokiModel.C09
open LokiModel.Expr LokiModel.C06

theorem frag_n : Frag (.var "n") = true := by decide

def zeroEnv : Env := ⟨fun _ => some (.int 0), fun _ => 0⟩

/-- the unchanged code violates it: `symbolic_op(n, ==, 0)` answers `False`, wrong for `n = 0` -/
theorem C09_full_false : ¬ C09_full := by
  intro h
  have h1 := (h (.var "n") (.ilit 0) .eq frag_n (by decide)).2 (by decide) zeroEnv
    (fun _ => ⟨0, rfl⟩) (fun _ => rfl)
  revert h1
  decide

/-- the known class is exactly where the witness lies -/
example : Known09 (.var "n") .eq (.ilit 0) = true := by decide


/-- `symbolic_op(n, ==, m)` is `False` and `symbolic_op(n, !=, m)` is `True`, while `<`, `<=`, `>`, `>=` raise -/
theorem C09_witness_nm :
    symbolicOp (.var "n") .eq (.var "m") = .no ∧ symbolicOp (.var "n") .ne (.var "m") = .yes
    ∧ symbolicOp (.var "n") .lt (.var "m") = .raise ∧ symbolicOp (.var "n") .ge (.var "m") = .raise
    ∧ Known09 (.var "n") .eq (.var "m") = true := by decide

/-- `2*n == n` is answered `False` (wrong at `n = 0`) -/
theorem C09_witness_2n :
    symbolicOp (.prod false [.ilit 2, .var "n"]) .eq (.var "n") = .no
    ∧ Known09 (.prod false [.ilit 2, .var "n"]) .eq (.var "n") = true := by decide

end LokiModel.C09
