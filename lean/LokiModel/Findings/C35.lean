import LokiModel.Props.C35
/-!
# C35 — witnesses of open defects of the Fortran → C transpilation (non-gating)
-/
namespace LokiModel.C35
open LokiModel.Expr LokiModel.C06

def env0 : Env := ⟨fun _ => none, fun _ => 0⟩

/-- the full statement (no class hypothesis) -/
def c_eval_eq_full : Prop := ∀ (env : Env) (s : S) (v : Val), evalS env s = some v → evalC env s = some v

/-- class `c-pow-integer-operands` / `c-integer-intrinsic-double`: `7**1 / 2` is `3` in Fortran; C computes `pow(7, 1) / 2` in
`double`, i.e. 3.5 (a `real` value, whatever it is) -/
theorem c_eval_eq_full_false : ¬ c_eval_eq_full := by
  intro h
  have h1 := h env0 (.div (.pow (.int 7) (.int 1)) (.int 2)) (.int 3) (by decide)
  simp [evalC, bin, cPow, Val.div, Val.arith] at h1

/-- `shift_to_zero_indexing` does not shift an array reference nested in a subscript (class `c-nested-subscript`): for
`b(a(1))` the generated subscript is `a[1 - 1]`-shifted on the outside only — value level: the inner subscript the C code uses
is `1`, the element meant is at position `0` -/
theorem c_nested_subscript_witness : cIndex [(1, 3)] [1] = some 0 ∧ (1 : Int) ≠ 0 := by
  refine ⟨c_index_eq _ _ 0 (by simp) (by decide), by decide⟩

end LokiModel.C35
