import LokiModel.Props.C29
/-!
# C29 — witnesses of the open findings (statements about *defects of the current code*, not gating)

Model-level witnesses (each is also a corpus request replayed on the real code by the direct oracle on every run).
-/
namespace LokiModel.C29
open LokiModel.Fir

/-- class `bounds_shift`: with `s => a(2:n)`, `s(2)` (which is `a(3)`) is resolved to `a(2)`: the index fills the free range
without any offset arithmetic -/
theorem C29_witness_bounds_shift :
    rsE [("s", .sec "a" [.rng (some (.lit (.int 2))) (some (.var "n")) none])] (.idx "s" [.lit (.int 2)])
      = .idx "a" [.lit (.int 2)] := by rfl

/-- the same through a stride: `s => a(1:n:2)`, `s(2)` is `a(3)`, resolved to `a(2)` -/
theorem C29_witness_stride_shift :
    rsE [("s", .sec "a" [.rng (some (.lit (.int 1))) (some (.var "n")) (some (.lit (.int 2)))])] (.idx "s" [.lit (.int 2)])
      = .idx "a" [.lit (.int 2)] := by rfl

/-- class `print_unresolved`: the block is removed but the PRINT statement keeps the associate name -/
theorem C29_witness_print_unresolved :
    resolveStmts 0 1 [.assoc [("z", .idx "a" [.lit (.int 1)])] [.print [.var "z"], .assign (.var "z") (.lit (.int 5))]]
      = [.print [.var "z"], .assign (.idx "a" [.lit (.int 1)]) (.lit (.int 5))] := by rfl

/-- class `index_modified` (the documented hazard): `associate (x => a(i)); i = i + 1; x = 5` becomes `i = i + 1; a(i) = 5` -/
theorem C29_witness_index_modified :
    resolveStmts 0 1 [.assoc [("x", .idx "a" [.var "i"])]
        [.assign (.var "i") (.bin .add (.var "i") (.lit (.int 1))), .assign (.var "x") (.lit (.int 5))]]
      = [.assign (.var "i") (.bin .add (.var "i") (.lit (.int 1))), .assign (.idx "a" [.var "i"]) (.lit (.int 5))] := by rfl

end LokiModel.C29
