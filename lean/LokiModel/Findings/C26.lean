import LokiModel.Props.C26
/-!
# C26 — witness theorems about open defects of the unchanged code (non-gating)

Each statement is about the *current* model (= the current code, by correspondence); a repair of the code makes it
false, the module then stops building and the check reports that as a note.
-/
namespace LokiModel.C26.Findings
open LokiModel.Fir LokiModel.C26

def p0 : Program := ⟨[], "k"⟩
def c0 : Ctx := ⟨p0, false⟩

def icell (v : Option Int) : Cell := .scalar .int (v.map .int)

/-! ### uses: a conditional definition kills a later use -/

/-- `if (q) x = 0 ; y = x` -/
def mayKillBody : List Stmt :=
  [.ifte (.var "q") [.assign (.var "x") (.lit (.int 0))] [],
   .assign (.var "y") (.var "x")]

def st1 : St :=
  { store := [("q", .scalar .logical (some (.bool false))), ("x", icell (some 5)), ("y", icell none)] }

/-- the run (condition false) reads `x` before anything writes it … -/
theorem mayKill_reads : readBeforeWrite (execTs p0 6 mayKillBody st1) "x" := by
  simp [readBeforeWrite, execTs, trSs, trS, execStmt, execStmts, mayKillBody, st1, p0, evalE, readAt, resolve,
    lookupAlias, lookupCell, boundsOf, icell, assignEvts, rds, subVars, varsEx, lhsName, isWhole, rbwB]

/-- … and `x` is not in the uses of the block: `_visit_body` subtracted the *conditional* definition -/
theorem mayKill_not_used : "x" ∉ names (bodyDU c0 mayKillBody).2 := by decide

/-- the full statement of C26 for `uses` -/
def uses_full : Prop :=
  ∀ (p : Program) (c : Ctx) (f : Nat) (ss : List Stmt) (st : St) (x : String),
    coveredL ss = true → readBeforeWrite (execTs p f ss st) x → x ∈ names (bodyDU c ss).2

theorem uses_full_false : ¬ uses_full := fun h =>
  mayKill_not_used (h p0 c0 6 mayKillBody st1 "x" (by decide) mayKill_reads)

/-- the witness is in the known class -/
example : knownUL c0 "x" mayKillBody = true := by decide

/-! ### defines: the DO variable -/

/-- `do i = 1, 2 ; end do` -/
def loopStmt : Stmt := .doLoop "i" (.lit (.int 1)) (.lit (.int 2)) none []

def st2 : St := { store := [("i", icell none)] }

theorem loop_writes_var : writes (execT p0 6 loopStmt st2) "i" := by
  simp [writes, execT, trS, loopStmt, st2, evalE, asInt, tripCount, trIter, writeAt, resolve, lookupAlias, lookupCell,
    icell, coerce, setCell, wroteB, rds, boundVars, varsEx, varsO, trSs, execStmts, Evt.isWr]

theorem loop_var_not_defined : "i" ∉ names (du c0 loopStmt).1 := by decide

def defines_full : Prop :=
  ∀ (p : Program) (c : Ctx) (f : Nat) (s : Stmt) (st : St) (x : String),
    coveredS s = true → writes (execT p f s st) x → x ∈ names (du c s).1

theorem defines_full_false : ¬ defines_full := fun h =>
  loop_var_not_defined (h p0 c0 6 loopStmt st2 "i" (by decide) loop_writes_var)

/-! ### calls to an enriched routine whose dummies have no intent -/

/-- whatever the callee does with its dummies: if none of them has an intent, the call defines and uses nothing -/
theorem selArgs_no_intent (tbl : List String) (htbl : tbl.contains "none" = false) (u : Fir.Unit) (args : List Ex)
    (hint : ∀ x ∈ u.args, ∀ d, findDecl u x = some d → d.intent = .none) : selArgs tbl u args = [] := by
  unfold selArgs
  rw [List.filterMap_eq_nil_iff]
  intro pr hpr
  have hx : pr.1 ∈ u.args := (List.of_mem_zip hpr).1
  have : intentOf u pr.1 = "none" := by
    unfold intentOf
    cases hd : findDecl u pr.1 with
    | none => rfl
    | some d => simp [hint pr.1 hx d hd, intentStr]
  simp only [this, htbl]
  simp

theorem call_no_intent_empty (c : Ctx) (g : String) (args : List Ex) (u : Fir.Unit)
    (henr : c.enr = true) (hu : findUnit c.p g = some u)
    (hint : ∀ x ∈ u.args, ∀ d, findDecl u x = some d → d.intent = .none) :
    callDU c g args = ([], []) := by
  unfold callDU
  simp only [henr, if_true, hu]
  rw [selArgs_no_intent _ (by decide) u args hint, selArgs_no_intent _ (by decide) u args hint]
  rfl

end LokiModel.C26.Findings
