import LokiModel.Props.C30
/-!
# C30 — witnesses of the open findings of `resolve_vector_notation` (non-gating)

The model (tied to the real transformer by the correspondence check) turns the two programs below into loops whose final
array contents differ from those of the array assignment.  Each witness is also a corpus request replayed on the real
code by the direct oracle on every run.
-/
namespace LokiModel.C30.Findings
open LokiModel.Fir LokiModel.C30
open LokiModel.Expr (Val)

def li (n : Int) : Ex := .lit (.int n)

def unitOf (decls : List Decl) (args : List String) (body : List Stmt) : Program :=
  { main := "k", units := [{ name := "k", args := args, decls := decls, body := body }] }

def finalOf (x : String) : Res → Option (List (Option Val))
  | .ok st _ => (lookupCell st x).map cellData
  | _ => none

def ints (xs : List Int) : List (Option Val) := xs.map fun i => some (.int i)

/-- class `KnownOverlap`: `a(1:3) = a(0:2)` with `a(0:3)` -/
def wOverlap : Program :=
  unitOf [{ name := "a", ty := .int, dims := [(li 0, li 3)], intent := .inout }] ["a"]
    [.assign (.sec "a" [.rng (some (li 1)) (some (li 3)) none]) (.sec "a" [.rng (some (li 0)) (some (li 2)) none])]

theorem resolve_overlap_witness :
    ∃ q, T_model .resolve wOverlap = some q ∧
      finalOf "a" (runMain wOverlap 20 [("a", ints [1, 2, 3, 4])]) = some (ints [1, 1, 2, 3]) ∧
      finalOf "a" (runMain q 20 [("a", ints [1, 2, 3, 4])]) = some (ints [1, 1, 1, 1]) :=
  ⟨_, rfl, by decide, by decide⟩

/-- class `KnownStride`: `b(3:1:-1) = a(1:3)` -/
def wStride : Program :=
  unitOf [{ name := "a", ty := .int, dims := [(li 1, li 3)], intent := .inout },
          { name := "b", ty := .int, dims := [(li 1, li 3)], intent := .inout }] ["a", "b"]
    [.assign (.sec "b" [.rng (some (li 3)) (some (li 1)) (some (.neg (li 1)))]) (.sec "a" [.rng (some (li 1)) (some (li 3)) none])]

theorem resolve_stride_witness :
    ∃ q, T_model .resolve wStride = some q ∧
      finalOf "b" (runMain wStride 20 [("a", ints [1, 2, 3]), ("b", ints [0, 0, 0])]) = some (ints [3, 2, 1]) ∧
      finalOf "b" (runMain q 20 [("a", ints [1, 2, 3]), ("b", ints [0, 0, 0])]) = some (ints [1, 2, 3]) :=
  ⟨_, rfl, by decide, by decide⟩

end LokiModel.C30.Findings
