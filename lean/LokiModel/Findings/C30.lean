import LokiModel.Props.C30
/-!
# C30 — witnesses of the open findings of `resolve_vector_notation` (non-gating)

The real transformer and the model turn `wOverlap` / `wStride` into `wOverlapT` / `wStrideT` (that equality is checked on
every run: both programs are corpus requests of the correspondence check, `corpus/C30/witness.sexp`; it is not restated
here because kernel reduction of `String` append — the generated name `i_a_0` — is not available to `decide`).
The theorems show that the loop forms compute other array contents than the array assignments.  The direct oracle
replays both on the real code on every run.
-/
namespace LokiModel.C30.Findings
open LokiModel.Fir LokiModel.C30
open LokiModel.Expr (Val)

def li (n : Int) : Ex := .lit (.int n)

def unitOf (decls : List Decl) (args : List String) (body : List Stmt) : Program :=
  { main := "k", units := [{ name := "k", args := args, decls := decls, body := body }] }

def finalOf (x : String) : Res → Option (List (Option Val))
  | .ok st _ => (lookupCell st x).map cellData
  | _ => none

def ints (xs : List Int) : List (Option Val) := xs.map fun i => some (.int i)

/-- class `KnownOverlap`: `a(1:3) = a(0:2)` with `a(0:3)` -/
def wOverlap : Program :=
  unitOf [{ name := "a", ty := .int, dims := [(li 0, li 3)], intent := .inout }] ["a"]
    [.assign (.sec "a" [.rng (some (li 1)) (some (li 3)) none]) (.sec "a" [.rng (some (li 0)) (some (li 2)) none])]

def loopOf (v a b : String) (lo hi : Ex) (step : Option Ex) (sub : Ex) : List Stmt :=
  [.doLoop v lo hi step [.assign (.idx a [.var v]) (.idx b [sub])]]

def wOverlapT : Program :=
  unitOf [{ name := "a", ty := .int, dims := [(li 0, li 3)], intent := .inout }, { name := "i_a_0", ty := .int, dims := [] }]
    ["a"] (loopOf "i_a_0" "a" "a" (li 1) (li 3) none (.bin .add (.bin .sub (.var "i_a_0") (li 1)) (li 0)))

theorem resolve_overlap_witness :
    finalOf "a" (runMain wOverlap 20 [("a", ints [1, 2, 3, 4])]) = some (ints [1, 1, 2, 3]) ∧
    finalOf "a" (runMain wOverlapT 20 [("a", ints [1, 2, 3, 4])]) = some (ints [1, 1, 1, 1]) :=
  ⟨by decide, by decide⟩

/-- class `KnownStride`: `b(3:1:-1) = a(1:3)` -/
def wStride : Program :=
  unitOf [{ name := "a", ty := .int, dims := [(li 1, li 3)], intent := .inout },
          { name := "b", ty := .int, dims := [(li 1, li 3)], intent := .inout }] ["a", "b"]
    [.assign (.sec "b" [.rng (some (li 3)) (some (li 1)) (some (.neg (li 1)))]) (.sec "a" [.rng (some (li 1)) (some (li 3)) none])]

def wStrideT : Program :=
  unitOf [{ name := "a", ty := .int, dims := [(li 1, li 3)], intent := .inout },
          { name := "b", ty := .int, dims := [(li 1, li 3)], intent := .inout }, { name := "i_b_0", ty := .int, dims := [] }]
    ["a", "b"] (loopOf "i_b_0" "b" "a" (li 3) (li 1) (some (.neg (li 1))) (.bin .add (.bin .sub (.var "i_b_0") (li 3)) (li 1)))

theorem resolve_stride_witness :
    finalOf "b" (runMain wStride 20 [("a", ints [1, 2, 3]), ("b", ints [0, 0, 0])]) = some (ints [3, 2, 1]) ∧
    finalOf "b" (runMain wStrideT 20 [("a", ints [1, 2, 3]), ("b", ints [0, 0, 0])]) = none :=   -- a(0): subscript out of bounds
  ⟨by decide, by decide⟩

end LokiModel.C30.Findings
