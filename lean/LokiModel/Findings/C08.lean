import LokiModel.Props.C08
/-!
# C08 — witnesses of the open findings (statements about *defects of the current code*, not gating)

The faithful model (`strict = false`) reproduces, tree for tree, what `simplify` returns on these inputs (each witness
is also a request in `harness/props/c08.py: SPECIAL`, replayed on the real code by the direct oracle on every run).
-/
namespace LokiModel.C08
open LokiModel.Expr LokiModel.C06

def envW (a b c n : Int) : Env :=
  ⟨fun x => if x = "a" then some (.int a) else if x = "b" then some (.int b) else if x = "c" then some (.int c)
            else some (.int n), fun _ => 0⟩

/-- class `flatten-distributes-integer-quotient`: with `Flatten`, `(a + b) / c` becomes `a / c + b / c`;
at `a = b = 1, c = 2` the tree has the value 1, the result 0 -/
theorem C08_witness_quotient_distribution :
    ∃ t', simp (kEq false) ⟨true, false, false, false⟩ 12 (.quot false (.sum false [.var "a", .var "b"]) (.var "c")) = some t' ∧
      evalS (envW 1 1 2 0) (den (.quot false (.sum false [.var "a", .var "b"]) (.var "c"))) = some (.int 1) ∧
      evalS (envW 1 1 2 0) (den t') = some (.int 0) :=
  ⟨.sum false [.quot false (.var "a") (.var "c"), .quot false (.var "b") (.var "c")], by rfl, by decide, by decide⟩

/-- with `Flatten`, `a * (b / c)` becomes `a*b / c`: at `a = 2, b = 1, c = 2` the value is 0, the result 1 -/
theorem C08_witness_product_quotient :
    ∃ t', simp (kEq false) ⟨true, false, false, false⟩ 12 (.prod false [.var "a", .quot false (.var "b") (.var "c")]) = some t' ∧
      evalS (envW 2 1 2 0) (den (.prod false [.var "a", .quot false (.var "b") (.var "c")])) = some (.int 0) ∧
      evalS (envW 2 1 2 0) (den t') = some (.int 1) :=
  ⟨.quot false (.prod false [.var "a", .var "b"]) (.var "c"), by rfl, by decide, by decide⟩

/-- the full statement is false of the code as it is -/
theorem C08_full_false : ¬ C08_full := by
  intro h
  obtain ⟨t', h1, h2, h3⟩ := C08_witness_quotient_distribution
  have := h (kEq false) rfl _ _ _ _ h1 (envW 1 1 2 0) (.int 1) h2
  rw [h3] at this
  cases this

/-- the strict model refuses exactly there -/
example : simp (kEq true) ⟨true, false, false, false⟩ 12 (.quot false (.sum false [.var "a", .var "b"]) (.var "c")) = none := by rfl

end LokiModel.C08
