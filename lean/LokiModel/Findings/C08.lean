import LokiModel.Props.C08
namespace LokiModel.C08
end LokiModel.C08
