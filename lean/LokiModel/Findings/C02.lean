import LokiModel.Props.C02
import LokiModel.C02.Codec
import LokiModel.C07.FParse
/-!
# C02 — witness theorems about open defects of the current code (non-gating)

Each statement below is true of the code as it stands and becomes false when the defect is repaired.
-/
namespace LokiModel.C02
open LokiModel.Expr LokiModel.C06

/-- the full statement at the statement level: the re-read IR is the IR that was written -/
def C02_full : Prop :=
  ∀ (st : Style) (ss : List (Stmt Atom)), OkStmts (fun _ => True) ss →
    ∃ f0, ∀ f, f0 ≤ f → pStmts Atom.rd f (gStmts st Atom.pr Atom.isOne ss) = some (ss, [])

/-- class `do-step-one-dropped`: `DO i=1,n,1` is written `DO i=1,n` (`FCodeMapper.map_loop_range`: `str(step) == '1'`) and
read back without step -/
theorem C02_full_false : ¬ C02_full := by
  intro h
  obtain ⟨f0, hf⟩ := h fortranStyle [.doLoop "i" (.num 1) (.var "n") (some (.num 1)) []] (by simp [OkStmts, OkStmt])
  obtain ⟨f1, hg⟩ := C02_reread_partial fortranStyle Atom.pr Atom.isOne Atom.rd (fun x => x) _ atom_rt
    [.doLoop "i" (.num 1) (.var "n") (some (.num 1)) []] (by simp [OkStmts, OkStmt])
  have a := hf (max f0 f1) (by omega)
  have b := hg (max f0 f1) (by omega)
  rw [a] at b
  simp [mapStmts, mapStmt, normStmts, normStmt, normStep, Atom.isOne] at b

/-- class `double-not-unparsable`: the frontend keeps no parentheses around `.not. p`, the printer writes
`.not..not.p`, and that is not a Fortran expression (the reference parser, complete for the grammar, rejects it) -/
theorem C02_double_not_witness :
    peE (.lnot (.lnot (.var "p"))) = [Tok.not, Tok.not, Tok.id "p"] ∧
    LokiModel.C07.fparse 40 [Tok.not, Tok.not, Tok.id "p"] = none := by
  constructor <;> decide

/-- class `logical-regroup`: `a .and. (b .and. c)` is read as `LogicalAnd((a, LogicalAnd((b, c))))` (parentheses dropped),
written `a .and. b .and. c` and re-read as `LogicalAnd((LogicalAnd((a, b)), c))` -/
theorem C02_logical_regroup_witness :
    peE (.land [.var "a", .land [.var "b", .var "c"]]) = [Tok.id "a", Tok.and, Tok.id "b", Tok.and, Tok.id "c"] ∧
    (reE 0 [Tok.id "a", Tok.and, Tok.id "b", Tok.and, Tok.id "c"]).map
      (fun t => match t with | .land [.land [.var "a", .var "b"], .var "c"] => true | _ => false) = some true := by
  constructor <;> decide

end LokiModel.C02
