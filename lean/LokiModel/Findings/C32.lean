import LokiModel.Props.C32
/-!
# C32 — witnesses of open defects of the unchanged code (non-gating)

The `…_witness` statements are true of the model because the model mirrors the current code; a repair of the code makes
them false (and the correspondence check then forces the model to follow).  The `…_repaired` statements record the
behaviour after the fix: commits 9f8cf55 (has_elseif), be169e3 (loops), 7abc3d8 (calls); they replace the witnesses of
the former classes `dc-elseif-emptied`, `cp-loop-assigned-scalar`, `cp-call-not-invalidating`.
-/
namespace LokiModel.C32.Findings
open LokiModel.Fir LokiModel.C32
open LokiModel.Expr (Val CmpOp)

/-- `x = 1; do i = 1, 3; y(i) = x; x = 2; end do` -/
def loopProg : List Stmt :=
  [.assign (.var "x") (.lit (.int 1)),
   .doLoop "i" (.lit (.int 1)) (.lit (.int 3)) none
     [.assign (.idx "y" [.var "i"]) (.var "x"), .assign (.var "x") (.lit (.int 2))]]

/-- since be169e3 the body is visited with a map from which everything the loop assigns was removed: `y(i) = x` stays
(before: `y(i) = 1`) -/
theorem cp_loop_repaired : (cpStmts ["y"] loopProg []).map (·.1) = some loopProg := by
  rfl

def loopState : St :=
  { store := [("x", .scalar .int none), ("i", .scalar .int none), ("y", .array .int [(1, 3)] [none, none, none])] }

def emptyProg : Program := { units := [], main := "k" }

def finalY (r : Res) : Option (List (Option Val)) :=
  match r with
  | .ok st _ => match lookupCell st "y" with
      | some (.array _ _ d) => some d
      | _ => none
  | _ => none

/-- the original stores 1, 2, 2 into `y` -/
theorem cp_loop_original : finalY (execStmts emptyProg 20 loopProg loopState) =
    some [some (.int 1), some (.int 2), some (.int 2)] := by
  rfl

/-- the transformed program stores the same values -/
theorem cp_loop_transformed_repaired :
    (match cpStmts ["y"] loopProg [] with
     | some (ss', _) => finalY (execStmts emptyProg 20 ss' loopState)
     | none => none) = some [some (.int 1), some (.int 2), some (.int 2)] := by
  rfl

/-- zero-trip loop with literal bounds: `x = 1; do i = 1, 0; x = 5; end do; z = x` keeps `z = x` (before: `z = 5`) -/
theorem cp_zero_trip_repaired : (cpStmts []
    [.assign (.var "x") (.lit (.int 1)),
     .doLoop "i" (.lit (.int 1)) (.lit (.int 0)) none [.assign (.var "x") (.lit (.int 5))],
     .assign (.var "z") (.var "x")] []).map (·.1) = some
    [.assign (.var "x") (.lit (.int 1)),
     .doLoop "i" (.lit (.int 1)) (.lit (.int 0)) none [.assign (.var "x") (.lit (.int 5))],
     .assign (.var "z") (.var "x")] := by
  rfl

/-- a loop that certainly runs and cannot be left early hands its constants on: `do i = 1, 3; x = 5; end do; z = x`
becomes `z = 5` -/
theorem cp_loop_runs_once : (cpStmts []
    [.doLoop "i" (.lit (.int 1)) (.lit (.int 3)) none [.assign (.var "x") (.lit (.int 5))],
     .assign (.var "z") (.var "x")] []).map (·.1) = some
    [.doLoop "i" (.lit (.int 1)) (.lit (.int 3)) none [.assign (.var "x") (.lit (.int 5))],
     .assign (.var "z") (.lit (.int 5))] := by
  rfl

/-- SELECT CASE blocks are visited in sequence with one map: `x = 1; select case (k); case (1); x = 3; case (2); y = x;
end select` becomes `… y = 3` (class `cp-select-sequential`) -/
theorem cp_select_witness : (cpStmts []
    [.assign (.var "x") (.lit (.int 1)),
     .select (.var "k") [([1], [.assign (.var "x") (.lit (.int 3))]), ([2], [.assign (.var "y") (.var "x")])] []] []).map (·.1)
    = some
    [.assign (.var "x") (.lit (.int 1)),
     .select (.var "k") [([1], [.assign (.var "x") (.lit (.int 3))]), ([2], [.assign (.var "y") (.lit (.int 3))])] []] := by
  rfl

/-- DO WHILE: `w = 0; do while (w < 2); w = w + 1; end do` keeps the increment (the real mapper writes `1 + w`; before:
`w = 1`, an endless loop) -/
theorem cp_while_repaired : (cpStmts []
    [.assign (.var "w") (.lit (.int 0)),
     .while (.bin (.cmp .lt) (.var "w") (.lit (.int 2))) [.assign (.var "w") (.bin .add (.var "w") (.lit (.int 1)))]] []).map (·.1)
    = some
    [.assign (.var "w") (.lit (.int 0)),
     .while (.bin (.cmp .lt) (.var "w") (.lit (.int 2))) [.assign (.var "w") (.bin .add (.lit (.int 1)) (.var "w"))]] := by
  rfl

/-- a CALL invalidates the variables it is handed: `x = 1; call s(x); y = x` keeps `y = x` (before: `y = 1`) -/
theorem cp_call_repaired : (cpStmts []
    [.assign (.var "x") (.lit (.int 1)), .callSub "s" [.var "x"], .assign (.var "y") (.var "x")] []).map (·.1) = some
    [.assign (.var "x") (.lit (.int 1)), .callSub "s" [.var "x"], .assign (.var "y") (.var "x")] := by
  rfl

/-- the literal is recorded without the conversion of the assignment: `r = 1; y = r` (real `r`) becomes `y = 1` — the
map says "integer 1" where the state holds the real 1.0 (class `cp-literal-type-conversion`; with `k = 2.5` for an integer
`k` the propagated value is plainly wrong: replayed on the real code by the oracle); `cpOK` rejects the program -/
theorem cp_type_witness :
    (cpStmts [] [.assign (.var "r") (.lit (.int 1)), .assign (.var "y") (.var "r")] []).map (·.1) = some
      [.assign (.var "r") (.lit (.int 1)), .assign (.var "y") (.lit (.int 1))] ∧
    cpOK [] (fun _ => some .real)
      [.assign (.var "r") (.lit (.int 1)), .assign (.var "y") (.var "r")] [] = false := by
  constructor <;> rfl

/-- `if (p) … else if (.false.) … end if` is pruned to `if (p) … end if` (before 9f8cf55 the transformer raised) -/
theorem dc_elseif_repaired : dcStmts false
    [.ifte (.var "p") [.assign (.var "x") (.lit (.int 1))]
       [.ifte (.lit (.bool false)) [.assign (.var "x") (.lit (.int 2))] []]] =
    some [.ifte (.var "p") [.assign (.var "x") (.lit (.int 1))] []] := by
  rfl

end LokiModel.C32.Findings
