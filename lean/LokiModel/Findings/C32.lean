import LokiModel.Props.C32
/-!
# C32 — witnesses of open defects of the unchanged code (non-gating)

Each statement below is true of the model because the model mirrors the current code; a repair of the code makes it
false (and the correspondence check then forces the model to follow).
-/
namespace LokiModel.C32.Findings
open LokiModel.Fir LokiModel.C32
open LokiModel.Expr (Val CmpOp)

/-- `x = 1; do i = 1, 3; y(i) = x; x = 2; end do` -/
def loopProg : List Stmt :=
  [.assign (.var "x") (.lit (.int 1)),
   .doLoop "i" (.lit (.int 1)) (.lit (.int 3)) none
     [.assign (.idx "y" [.var "i"]) (.var "x"), .assign (.var "x") (.lit (.int 2))]]

/-- what `ConstantPropagationTransformer` makes of it: `y(i) = 1` — the body is rewritten with the map from BEFORE the
loop although the body assigns `x` (class `cp-loop-assigned-scalar`) -/
theorem cp_loop_witness : (cpStmts ["y"] false loopProg []).map (·.1) = some
    [.assign (.var "x") (.lit (.int 1)),
     .doLoop "i" (.lit (.int 1)) (.lit (.int 3)) none
       [.assign (.idx "y" [.var "i"]) (.lit (.int 1)), .assign (.var "x") (.lit (.int 2))]] := by
  rfl

def loopState : St :=
  { store := [("x", .scalar .int none), ("i", .scalar .int none), ("y", .array .int [(1, 3)] [none, none, none])] }

def emptyProg : Program := { units := [], main := "k" }

def finalY (r : Res) : Option (List (Option Val)) :=
  match r with
  | .ok st _ => match lookupCell st "y" with
      | some (.array _ _ d) => some d
      | _ => none
  | _ => none

/-- the original stores 1, 2, 2 into `y` -/
theorem cp_loop_original : finalY (execStmts emptyProg 20 loopProg loopState) =
    some [some (.int 1), some (.int 2), some (.int 2)] := by
  rfl

/-- the transformed body stores 1, 1, 1: constant propagation over all bodies (loops included) is NOT behaviour
preserving for the unchanged code -/
theorem cp_loop_transformed :
    (match cpStmts ["y"] false loopProg [] with
     | some (ss', _) => finalY (execStmts emptyProg 20 ss' loopState)
     | none => none) = some [some (.int 1), some (.int 1), some (.int 1)] := by
  rfl

/-- zero-trip loop with literal bounds: `x = 1; do i = 1, 0; x = 5; end do; z = x` becomes `… z = 5` (the second pass of
`visit_Loop` records `x ↦ 5` without asking whether the loop runs at all) -/
theorem cp_zero_trip_witness : (cpStmts [] false
    [.assign (.var "x") (.lit (.int 1)),
     .doLoop "i" (.lit (.int 1)) (.lit (.int 0)) none [.assign (.var "x") (.lit (.int 5))],
     .assign (.var "z") (.var "x")] []).map (·.1) = some
    [.assign (.var "x") (.lit (.int 1)),
     .doLoop "i" (.lit (.int 1)) (.lit (.int 0)) none [.assign (.var "x") (.lit (.int 5))],
     .assign (.var "z") (.lit (.int 5))] := by
  rfl

/-- SELECT CASE blocks are visited in sequence with one map: `x = 1; select case (k); case (1); x = 3; case (2); y = x;
end select` becomes `… y = 3` (class `cp-select-sequential`) -/
theorem cp_select_witness : (cpStmts [] false
    [.assign (.var "x") (.lit (.int 1)),
     .select (.var "k") [([1], [.assign (.var "x") (.lit (.int 3))]), ([2], [.assign (.var "y") (.var "x")])] []] []).map (·.1)
    = some
    [.assign (.var "x") (.lit (.int 1)),
     .select (.var "k") [([1], [.assign (.var "x") (.lit (.int 3))]), ([2], [.assign (.var "y") (.lit (.int 3))])] []] := by
  rfl

/-- DO WHILE bodies are visited like straight-line code: `w = 0; do while (w < 2); w = w + 1; end do` becomes
`… w = 1 …` (an endless loop) -/
theorem cp_while_witness : (cpStmts [] false
    [.assign (.var "w") (.lit (.int 0)),
     .while (.bin (.cmp .lt) (.var "w") (.lit (.int 2))) [.assign (.var "w") (.bin .add (.var "w") (.lit (.int 1)))]] []).map (·.1)
    = some
    [.assign (.var "w") (.lit (.int 0)),
     .while (.bin (.cmp .lt) (.var "w") (.lit (.int 2))) [.assign (.var "w") (.lit (.int 1))]] := by
  rfl

/-- a CALL does not invalidate anything: `x = 1; call s(x); y = x` becomes `… y = 1` (class `cp-call-not-invalidating`) -/
theorem cp_call_witness : (cpStmts [] false
    [.assign (.var "x") (.lit (.int 1)), .callSub "s" [.var "x"], .assign (.var "y") (.var "x")] []).map (·.1) = some
    [.assign (.var "x") (.lit (.int 1)), .callSub "s" [.var "x"], .assign (.var "y") (.lit (.int 1))] := by
  rfl

/-- the literal is recorded without the conversion of the assignment: `r = 1; y = r` (real `r`) becomes `y = 1` — the
map says "integer 1" where the state holds the real 1.0 (class `cp-literal-type-conversion`; with `k = 2.5` for an integer
`k` the propagated value is plainly wrong: replayed on the real code by the oracle); `cpOK` rejects the program -/
theorem cp_type_witness :
    (cpStmts [] false [.assign (.var "r") (.lit (.int 1)), .assign (.var "y") (.var "r")] []).map (·.1) = some
      [.assign (.var "r") (.lit (.int 1)), .assign (.var "y") (.lit (.int 1))] ∧
    cpOK [] (fun _ => some .real)
      [.assign (.var "r") (.lit (.int 1)), .assign (.var "y") (.var "r")] [] = false := by
  constructor <;> rfl

/-- `if (a) … else if (.false.) … end if`: the transformer raises instead of pruning (class `dc-elseif-emptied`) -/
theorem dc_elseif_witness : dcCrash false
    [.ifte (.var "p") [.assign (.var "x") (.lit (.int 1))]
       [.ifte (.lit (.bool false)) [.assign (.var "x") (.lit (.int 2))] []]] = true := by
  rfl

end LokiModel.C32.Findings
