import LokiModel.Props.C15
/-!
# C15 — witness theorems about defects of the unchanged code (non-gating)

Each theorem states what the modelled code returns on the minimal input of an open finding (all replayed on the real
code by the direct oracle, see notes/C15.md).  If a defect is repaired, the model changes and the theorem about the old
behaviour stops building; that does not affect the verdict.
-/
namespace LokiModel.C15.Findings
open LokiModel.C15

/-- `expression-field-not-traversable`: `print *, summed` — FindVariables returns nothing, `summed` is an expression
of the tree -/
theorem print_values_not_searched :
    finderV plainCfg isScalar printWitness = .ok [] ∧ (allExprsC isScalar printWitness).length = 1 := by
  constructor
  · simp [printWitness, finderV, finderN, isTypeDef, isVarDecl, finderLeaves, bindE, ret, plainCfg, findUniques]
  · decide

/-- `pairing-leaks-raw-declaration-children`: with `unique=True` (the default) the leaked `None` reaches
`assert isinstance(var, Expression)` -/
theorem decl_pairing_unique_raises :
    finderV ⟨true, true⟩ isScalar (.n declWitness) = .error .assertion := by
  simp [declWitness, finderV, finderN, isTypeDef, isVarDecl, finderT, finderEach, bindE, walk, walkO, post, ret, flat1,
    isScalar, E.tag, rawCs, rawC, R.item?, R.isPair, findUniques, initials, symbolsOf, nE, uniqE, dictDedupe,
    dictInsert, osetDedupe, Item.expr?]

def scopeRender : ScopeRes → List Nat
  | .chain a => a.map Node.uid
  | .bare n => [1000 + n.uid]

/-- `findscopes-typedef-returns-node`: for a `TypeDef` match `FindScopes` appends the node itself instead of the list
of its ancestors (inherited `FindNodes.visit_TypeDef`) -/
theorem findscopes_typedef_bare :
    (scopesC 1 true [] (.n (.mk "Section" 0 0 [.grp [.n (.mk "TypeDef" 1 1 [.grp []] [])]] []))).map scopeRender
      = [[1001]] := by
  simp [scopesC, scopesN, scopesCs, isTypeDef, scopeRender, Node.uid]

end LokiModel.C15.Findings
