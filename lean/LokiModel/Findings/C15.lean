import LokiModel.Props.C15
/-!
# C15 — witness theorems about defects of the unchanged code (non-gating)

Each theorem states what the modelled code returns on the minimal input of an open finding (all replayed on the real
code by the direct oracle, see notes/C15.md).  If a defect is repaired, the model changes and the theorem about the old
behaviour stops building; that does not affect the verdict.
-/
namespace LokiModel.C15.Findings
open LokiModel.C15

/-- `expression-field-not-traversable`: `print *, summed` — FindVariables returns nothing, `summed` is an expression
of the tree -/
theorem print_values_not_searched :
    finderV plainCfg isScalar printWitness = .ok [] ∧ (allExprsC isScalar printWitness).length = 1 := by
  constructor
  · simp [printWitness, finderV, finderN, isTypeDef, isVarDecl, finderLeaves, bindE, ret, plainCfg, findUniques]
  · decide

end LokiModel.C15.Findings
