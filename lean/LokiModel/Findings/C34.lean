import LokiModel.Props.C34
/-!
# C34 — witnesses of the open findings of the unchanged code (non-gating)

Each statement is about the MODEL of the current code (tied to the real code by the correspondence check) and becomes false
when the corresponding defect is repaired.
-/
namespace LokiModel.C34
open LokiModel.Fir
open LokiModel.Expr (Val)

/-- `seq-multirank-dummy-offset`: `call f(a(2,1))` with `a(3,3)` and a rank-2 dummy becomes `call f(a(2:3, 1:3))` -/
theorem seq_rank2_model :
    seqNewDims 2 [(.lit (.int 1), .lit (.int 3)), (.lit (.int 1), .lit (.int 3))] [.lit (.int 2), .lit (.int 1)]
      = [.rng (some (.lit (.int 2))) (some (.lit (.int 3))) none, .rng (some (.lit (.int 1))) (some (.lit (.int 3))) none] := by
  simp [seqNewDims, seqZip]

theorem seq_rank2_class :
    KnownSeqRank 2 [(.lit (.int 1), .lit (.int 3)), (.lit (.int 1), .lit (.int 3))] [.lit (.int 2), .lit (.int 1)] = true := by
  simp [KnownSeqRank, beqEx]

/-- … whose first four elements in array element order, (2,1) (3,1) (2,2) (3,2), are at flat offsets 1 2 4 5, while the
storage sequence from `a(2,1)` that the original call associates with a dummy `d(2,2)` is 1 2 3 4 -/
theorem seq_rank2_witness :
    ([[2, 1], [3, 1], [2, 2], [3, 2]].map (offset [(1, 3), (1, 3)])) = [some 1, some 2, some 4, some 5] ∧
    (((positions [2, 3]).take 4).map fun p => List.zipWith (fun (b : Int) (k : Nat) => b + (k : Int)) [2, 1] p)
      = [[2, 1], [3, 1], [2, 2], [3, 2]] := by
  decide

/-- `seq-section-shorter-than-dummy`: a dummy of 3 elements filled from a section of 2 keeps an undefined element that the
element actual (storage sequence of 4) defines -/
theorem seq_short_witness :
    (fillCell (.array .int [(1, 3)] [none, none, none]) (secRead [some (.int 1), some (.int 2), some (.int 3), some (.int 4)] [0, 1])).map cellData
      = some [some (.int 1), some (.int 2), none] ∧
    (fillCell (.array .int [(1, 3)] [none, none, none]) ([some (.int 1), some (.int 2), some (.int 3), some (.int 4)].drop 0)).map cellData
      = some [some (.int 1), some (.int 2), some (.int 3)] ∧
    KnownSeqShort 3 2 = true := by
  refine ⟨?_, ?_, ?_⟩ <;> simp [fillCell, secRead, cellData, KnownSeqShort]

/-- `dedup-removed-name-left-behind`: `d(k)` with both `d ↦ c` and `k ↦ m` removed is renamed to `c(k)`, not `c(m)` -/
theorem dedup_nested_witness :
    beqEx (renE [("k", "m"), ("d", "c")] (.idx "d" [.var "k"])) (.idx "c" [.var "k"]) = true ∧
    beqEx (renFullE [("k", "m"), ("d", "c")] (.idx "d" [.var "k"])) (.idx "c" [.var "m"]) = true := by
  simp [renE, renFullE, renFullEs, ren, inMap, beqEx, beqExs]

/-- … and PRINT statements are not renamed at all -/
theorem dedup_print_witness :
    (match renStmt [("d", "c")] (.print [.var "d"]) with | .print [.var x] => x | _ => "") = "d" := by
  simp [renStmt]

end LokiModel.C34
