import LokiModel.C20.Model
/-! # C20 — witness theorems about defects of the current code (non-gating) -/
namespace LokiModel.C20
open LokiModel.C19

/-- `FortranReader.__init__` strips the source before numbering its lines: with leading blank lines every recorded
span is shifted against the file (here by 2: `x = 1` is on file line 3 but recorded at line 1) -/
theorem C20_leading_blank_shift :
    stmts [[], [' '], "x = 1".toList] = [⟨false, "x = 1".toList, 1, 1⟩] ∧ prepareOffset [[], [' '], "x = 1".toList] = 2 := by
  decide

end LokiModel.C20
