import LokiModel.C12.Model
/-!
# C12 — regression statements about the behaviour BEFORE the `fix:` commits (non-gating module)

The six defects of the snapshot (`known_findings.json`, property C12, status `fixed`) are kept here as small definitions
of the former behaviour with their witnesses.  Nothing in `Props/C12.lean` depends on this file.
-/
namespace LokiModel.C12.Old

/-- former `del t[k]` / `t.pop(k[, None])`: `dict.__delitem__` / `dict.pop` with the key as spelled -/
def delRaw (e : List (Name × Nat)) (k : Name) : List (Name × Nat) × Out :=
  match alookup k e with
  | some _ => (aerase k e, .unit)
  | none => (e, .keyError)

/-- `symtab-del-pop-spelling`, `cidict-del-pop-spelling`: `t['abc'] = a; 'ABC' in t` is true but `del t['ABC']` raised -/
theorem C12_old_del_spelling :
    (alookup (fold ['A', 'B', 'C']) [(['a', 'b', 'c'], 1)]).isSome = true ∧
    delRaw [(['a', 'b', 'c'], 1)] ['A', 'B', 'C'] = ([(['a', 'b', 'c'], 1)], .keyError) := by decide

/-- former `setdefault`: stored the default but returned `None` (`symtab-setdefault-returns-none`) -/
def setdefaultOld (e : List (Name × Nat)) (k : Name) (c : Nat) : List (Name × Nat) × Out :=
  match alookup (fold k) e with
  | some _ => (e, .none)
  | none => (aset (fold k) c e, .none)

theorem C12_old_setdefault_none : (setdefaultOld [] ['x'] 5).2 = .none ∧ alookup ['x'] (setdefaultOld [] ['x'] 5).1 = some 5 := by
  decide

/-- former `clone()`: `if self.parent` — an empty parent table is falsy (`symtab-clone-drops-empty-parent`) -/
def cloneParentOld (parentEnts : List (Name × Nat)) (p : Nat) : Option Nat := if parentEnts.isEmpty then none else some p

theorem C12_old_clone_drops_empty_parent : cloneParentOld [] 0 = none ∧ cloneParentOld [(['x'], 1)] 0 = some 0 := by decide

/-- former `_reset_parent(None)`: scope parent cleared, table parent kept (`scope-reset-parent-none-stale`) -/
def reparentOld (t : Tab) (p : Option Nat) : Tab :=
  match p with
  | some q => { t with sparent := some q, parent := some q }
  | none => { t with sparent := none }

theorem C12_old_reparent_stale : (reparentOld ⟨[], some 0, true, some 0⟩ none).parent = some 0 ∧
    (reparentOld ⟨[], some 0, true, some 0⟩ none).sparent = none := by decide

/-- former `CaseInsensitiveDefaultDict.setdefault`: raw key (`cidefaultdict-raw-key`): `d['Key']=1; d.setdefault('KEY', 2)`
returned 2 and stored a second, unreachable entry -/
def dsetdefaultRaw (d : DSt) (k : Name) (v : Nat) : DSt × Out :=
  match alookup k d with
  | some w => (d, .val w)
  | none => (aset k v d, .val v)

theorem C12_old_cidd_setdefault_raw :
    dsetdefaultRaw [(['k', 'e', 'y'], 1)] ['K', 'E', 'Y'] 2 = ([(['k', 'e', 'y'], 1), (['K', 'E', 'Y'], 2)], .val 2) := by decide

end LokiModel.C12.Old
