import LokiModel.Props.C13
/-!
# C13 — regression statements about defects repaired by `fix:` commits (old behaviour, self-contained definitions)

Not part of the property theorems and not gating: `Props/C13.lean` states what the code does now
(`C13_no_recursion`; `C13_rescope_class`; `empty-dimensions-array` stays open for explicit `dimensions=()`, the repair in `Variable.__new__` was reverted).  The witnesses of the findings that are still open
(`C13_type_shared_full_false`, `C13_create_name_full_false`, `C13_read_pure_full_false`) live in `Props/C13.lean`
because the `_partial` theorems there refer to them.
-/
namespace LokiModel.C13

/-- `tdef_var.type` before the fix for `deferred-member-recursion`: an attached holder whose entry for the member
is not clean sent `_lookup_type` back into `variable_map` without end -/
def tdefVarTypeOld (ss : Scopes) (p : Link) (m : Name × Ty) : Res (Option Ty) :=
  match p.scope with
  | none => .ok (some m.2)
  | some ps =>
    let t := lookup ss ps (key (qual p.base m.1))
    if cleanOpt t then .ok t else .recursion

/-- member `d` of DEFERRED type, holder `p` attached to scope 0: formerly `RecursionError`, now the DEFERRED entry -/
theorem C13_old_deferred_member_recursion :
    let ss : Scopes := [{ parent := none, table := [("p".toList, { dtype := .derived "t".toList (some 0) }),
                                                     ("p%d".toList, deferredTy)] }]
    let p : Link := { cls := .scalar, base := "p".toList, scope := some 0, ty := none }
    tdefVarTypeOld ss p ("d".toList, deferredTy) = .recursion ∧
    tdefVarType ss p ("d".toList, deferredTy) = .ok (some deferredTy) := by decide

/-- what `Array.rescope` handed to the factory before the fix for `array-rescope-keeps-array`: always `self.dimensions` -/
def rescopeDimsOld (s : Sym) : Option Nat := if s.self.cls = .array then some s.self.dims else none

/-- an `Array` without subscripts rescoped to a plain INTEGER entry used to stay an `Array`; now it is a `Scalar` -/
theorem C13_old_rescope_array_stays_array :
    let a : Sym := { self := { cls := .array, base := "x".toList, scope := none, ty := some { dtype := .real, shape := some 1 } } }
    classify (some { dtype := .integer }) "x".toList (rescopeDimsOld a) = .array ∧
    classify (some { dtype := .integer }) "x".toList (rescopeDims a) = .scalar := by decide

end LokiModel.C13
