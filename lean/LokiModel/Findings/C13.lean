import LokiModel.Props.C13
/-!
# C13 — regression statements about defects repaired by `fix:` commits (old behaviour, self-contained definitions)

Not part of the property theorems and not gating: `Props/C13.lean` states what the code does now
(`C13_class`, `C13_no_recursion`).  The witnesses of the findings that are still open
(`C13_type_shared_full_false`, `C13_create_name_full_false`, `C13_read_pure_full_false`) live in `Props/C13.lean`
because the `_partial` theorems there refer to them.
-/
namespace LokiModel.C13

/-- the tier chain before the fix for `empty-dimensions-array`: only `dimensions=None` was dropped -/
def classifyOld (ty : Option Ty) (name : Name) (dims : Option Nat) : SymClass :=
  if isProc ty then .procedureSymbol
  else if isDerivedNamed ty name then .derivedTypeSymbol
  else if dims.isSome || shapeTruthy ty then .array
  else if cleanOpt ty then .scalar
  else .deferredTypeSymbol

/-- `Variable(name='x', type=INTEGER, dimensions=())` used to be an `Array`, against the table of the statement -/
theorem C13_old_empty_dims_array :
    classifyOld (some { dtype := .integer }) ['x'] (some 0) = .array ∧
    refClass (some { dtype := .integer }) ['x'] (some 0) = .scalar ∧
    classify (some { dtype := .integer }) ['x'] (some 0) = .scalar := by decide

/-- old and new chain differ exactly on the former class `KnownEmptyDims` -/
theorem C13_old_differs_only_on_empty_dims (ty : Option Ty) (n : Name) (d : Option Nat)
    (h : (d == some 0 && !isProc ty && !isDerivedNamed ty n && !shapeTruthy ty) = false) :
    classifyOld ty n d = classify ty n d := by
  unfold classifyOld classify
  cases h1 : isProc ty <;> cases h2 : isDerivedNamed ty n <;> cases h3 : shapeTruthy ty <;>
    simp [h1, h2, h3] at h ⊢
  cases d with
  | none => simp [normDims]
  | some k => cases k with
    | zero => simp at h
    | succ k => simp [normDims]

/-- `tdef_var.type` before the fix for `deferred-member-recursion`: an attached holder whose entry for the member
is not clean sent `_lookup_type` back into `variable_map` without end -/
def tdefVarTypeOld (ss : Scopes) (p : Link) (m : Name × Ty) : Res (Option Ty) :=
  match p.scope with
  | none => .ok (some m.2)
  | some ps =>
    let t := lookup ss ps (key (qual p.base m.1))
    if cleanOpt t then .ok t else .recursion

/-- member `d` of DEFERRED type, holder `p` attached to scope 0: formerly `RecursionError`, now the DEFERRED entry -/
theorem C13_old_deferred_member_recursion :
    let ss : Scopes := [{ parent := none, table := [("p".toList, { dtype := .derived "t".toList (some 0) }),
                                                     ("p%d".toList, deferredTy)] }]
    let p : Link := { cls := .scalar, base := "p".toList, scope := some 0, ty := none }
    tdefVarTypeOld ss p ("d".toList, deferredTy) = .recursion ∧
    tdefVarType ss p ("d".toList, deferredTy) = .ok (some deferredTy) := by decide

end LokiModel.C13
