import LokiModel.Props.C07
/-!
# C07: witnesses of the open findings (non-gating)

Each class of `Known` contains a concrete tree on which the model of `parse_expr` (at the driver's fuel) returns a
tree of a different value; so `C07_full` is false.  If one of these stops building, a listed defect may have been
repaired (the model follows the code).
-/
namespace LokiModel.C07
open LokiModel.Expr
open LokiModel.C06 (E den)

def envInt (a b c d : Int) : Env :=
  { var := fun x => if x = "a" then some (.int a) else if x = "b" then some (.int b)
                    else if x = "c" then some (.int c) else some (.int d),
    lit := fun _ => 0 }

/-- class `unary-minus-power`: `-a**2` is parsed as `(-a)**2` -/
theorem C07_known_negPow :
    pparse (plex (C.neg (.pow (.var "a") (.int 2))).unparse) =
      some (.pow false (.prod false [.pyint (-1), .var "a"]) (.ilit 2)) ∧
    evalS (envInt 3 0 0 0) (den (.pow false (.prod false [.pyint (-1), .var "a"]) (.ilit 2))) = some (.int 9) ∧
    evalS (envInt 3 0 0 0) (C.neg (.pow (.var "a") (.int 2))).sem = some (.int (-9)) := by
  refine ⟨by rfl, by decide, by decide⟩

/-- class `not-operand-not-primary`: `.not. a == b` is parsed as `(.not. a) == b` -/
theorem C07_known_notCmp :
    pparse (plex (C.not (.cmp .eq (.var "a") (.var "b"))).unparse) =
      some (.cmp .eq (.lnot (.var "a")) (.var "b")) ∧
    evalS (envInt 1 2 0 0) (den (.cmp .eq (.lnot (.var "a")) (.var "b"))) = none ∧
    evalS (envInt 1 2 0 0) (C.not (.cmp .eq (.var "a") (.var "b"))).sem = some (.bool true) := by
  refine ⟨by rfl, by decide, by decide⟩

/-- class `mul-chain-div-reassociated`: `a*b/c*d` is parsed as `(a*(b/c))*d` -/
theorem C07_known_chain :
    pparse (plex (C.mul (.div (.mul (.var "a") (.var "b")) (.var "c")) (.var "d")).unparse) =
      some (.prod false [.prod false [.var "a", .quot false (.var "b") (.var "c")], .var "d"]) ∧
    evalS (envInt 2 3 2 1) (den (.prod false [.prod false [.var "a", .quot false (.var "b") (.var "c")], .var "d"]))
      = some (.int 2) ∧
    evalS (envInt 2 3 2 1) (C.mul (.div (.mul (.var "a") (.var "b")) (.var "c")) (.var "d")).sem = some (.int 3) := by
  refine ⟨by rfl, by decide, by decide⟩

/-- the full statement is false of the current code -/
theorem C07_full_false : ¬ C07_full := by
  intro h
  obtain ⟨e, he, hs⟩ := h (C.neg (.pow (.var "a") (.int 2))) (by decide)
  obtain ⟨h1, h2, h3⟩ := C07_known_negPow
  rw [h1] at he
  cases he
  have := hs (envInt 3 0 0 0)
  rw [h2, h3] at this
  exact absurd this (by decide)

/-- `.eqv.` has no entry in the lex table: it comes out as member access -/
theorem C07_known_eqv : plexX [.t (.id "p"), .eqv, .t (.id "q")] =
    [.ident "p", .dot, .ident "eqv", .dot, .ident "q"] := by decide

end LokiModel.C07
