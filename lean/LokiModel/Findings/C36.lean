import LokiModel.Props.C36
/-!
# C36 — witnesses of open defects of the Fortran → Python transpilation (non-gating)

Each statement is about the model of the *current* code; a repair of the code makes it false (and this module stops
building, which the check reports as a note).
-/
namespace LokiModel.C36
open LokiModel.Expr LokiModel.C06 LokiModel.C10

def env0 : Env := ⟨fun _ => none, fun _ => 0⟩

/-- the full statement (no class hypothesis) -/
def py_eval_eq_full : Prop := ∀ (env : Env) (s : S) (v : Val), evalS env s = some v → evalPy env s = some v

/-- class `py-integer-quotient`: `7 / 2` is `3` in Fortran; `pygen` prints `7 / 2`, which Python evaluates to the float 3.5 -/
theorem py_eval_eq_full_false : ¬ py_eval_eq_full := by
  intro h
  have h1 := h env0 (.div (.int 7) (.int 2)) (.int 3) (by decide)
  have h2 := py_int_quotient_differs env0 (.int 7) (.int 2) 7 2 rfl rfl rfl rfl (by decide)
  apply h2
  rw [h1]; decide

/-- the printed text of `Quotient(i, j)` is `i / j` -/
theorem py_quotient_text : printPy pycfg (.quot false (.var "i") (.var "j")) 0 = [.id "i", .slash, .id "j"] := by
  simp [printPy, pparenIf, forceDen, Tables.PREC_PRODUCT]

/-- class `py-negative-int-power`: `2 ** (-1)` is `0` in Fortran and a float in Python -/
theorem py_neg_pow_witness :
    evalS env0 (.pow (.int 2) (.neg (.int 1))) = some (.int 0) ∧
    ∃ q, evalPy env0 (.pow (.int 2) (.neg (.int 1))) = some (.real q) := by
  refine ⟨by decide, ⟨1 / Val.rpowNat (2 : Rat) 1, ?_⟩⟩
  simp [evalPy, bin, Val.neg, pyPow]

/-- class `py-loop-step`: `DO i = 1, 6, 2` visits 1 3 5; `range(1, 6 + 2, 2)` visits 1 3 5 7 -/
theorem py_loop_step_witness : loopRange 1 6 (some 2) = some [1, 3, 5, 7] ∧ doSeq 1 6 2 = [1, 3, 5] ∧
    KnownPyRangeStep 1 6 2 = true := by decide

/-- a loop that Fortran does not enter is entered once: `DO i = 5, 4, 2` → `range(5, 6, 2)` -/
theorem py_loop_step_zero_trip : loopRange 5 4 (some 2) = some [5] ∧ doSeq 5 4 2 = [] := by decide

/-- class `py-lower-bound`: for `a(0:n)` the element `a(0)` is at position 0, the generated subscript is `-1` (numpy: the last element) -/
theorem py_lower_bound_witness : shiftIdx 0 = -1 ∧ zeroPos 0 0 = 0 := by decide

end LokiModel.C36
