import LokiModel.Props.C06
/-!
# C06 — witnesses of the open findings (statements about *defects of the current code*)

Kept apart from `Props/C06.lean`: when a defect is repaired in /repo the regenerated tables / the updated model make these
statements false and this module stops building — that is reported as a note, never as a violation.
(The witnesses for `quot-denominator-unparenthesised` and `power-base-power-unparenthesised` were removed when those
defects were repaired by `fix:` commits, see `known_findings.json`.)
-/
namespace LokiModel.C06
open LokiModel.Expr Tables Tok

/-- class `product-factor-quotient-unparenthesised`: `a * (b / c)` built without a parenthesis node prints as `a*b / c`,
which has a derivation meaning `(a*b)/c`; the values differ under integer division at a = 3, b = 1, c = 2 (1 vs 0) -/
theorem C06_witness_prodQuot :
    let w := E.prod false [.var "a", .quot false (.var "b") (.var "c")]
    ∃ s, G 0 (printF fcfg w 0) s ∧ ∃ env, evalS env s ≠ evalS env (den w) := by
  refine ⟨.div (.mul (.var "a") (.var "b")) (.var "c"), ?_, ?_⟩
  · have h : G 5 ([Tok.id "a"] ++ [star] ++ [Tok.id "b"] ++ [slash] ++ [Tok.id "c"]) (.div (.mul (.var "a") (.var "b")) (.var "c")) :=
      G.div (G.mul ((G.ident "a").weaken (ℓ := 5) (by omega) (by omega)) ((G.ident "b").weaken (ℓ := 6) (by omega) (by omega)))
        ((G.ident "c").weaken (ℓ := 6) (by omega) (by omega))
    exact h.weaken (ℓ := 0) (by omega) (by omega)
  · refine ⟨⟨fun x => if x = "a" then some (.int 3) else if x = "b" then some (.int 1) else some (.int 2), fun _ => 0⟩, ?_⟩
    decide

/-! ## C backend -/

/-- class `product-factor-quotient-unparenthesised`, C backend: the same text `a*b / c`; C reads `(a*b)/c` as well, and integer
division truncates in C too: 1 vs 0 at a = 3, b = 1, c = 2 -/
theorem C06_C_witness_prodQuot :
    let w := E.prod false [.var "a", .quot false (.var "b") (.var "c")]
    ∃ s, GC 0 (printC ccfg w 0) s ∧ ∃ env, evalS env s ≠ evalS env (den w) := by
  refine ⟨.div (.mul (.var "a") (.var "b")) (.var "c"), ?_, ?_⟩
  · have h : GC 5 ([CTok.id "a"] ++ [CTok.star] ++ [CTok.id "b"] ++ [CTok.slash] ++ [CTok.id "c"])
        (.div (.mul (.var "a") (.var "b")) (.var "c")) :=
      GC.div (GC.mul ((GC.ident "a").weaken (ℓ := 5) (by omega) (by omega)) ((GC.ident "b").weaken (ℓ := 6) (by omega) (by omega)))
        ((GC.ident "c").weaken (ℓ := 6) (by omega) (by omega))
    exact h.weaken (ℓ := 0) (by omega) (by omega)
  · refine ⟨⟨fun x => if x = "a" then some (.int 3) else if x = "b" then some (.int 1) else some (.int 2), fun _ => 0⟩, ?_⟩
    decide

/-- class `c-double-minus-decrement`: `Product((-1, Product((-1, b))))` prints as the two tokens `--` `b`, which no level of the
C expression grammar derives (in real C: the decrement operator) -/
theorem C06_C_witness_doubleMinus :
    let w := E.prod false [.pyint (-1), .prod false [.pyint (-1), .var "b"]]
    printC ccfg w 0 = [CTok.decr, CTok.id "b"] ∧ ∀ ℓ s, ¬ GC ℓ (printC ccfg w 0) s := by
  have h : printC ccfg (E.prod false [.pyint (-1), .prod false [.pyint (-1), .var "b"]]) 0 = [CTok.decr, CTok.id "b"] := by decide
  refine ⟨h, fun ℓ s hd => ?_⟩
  have := GC.no_decr hd
  rw [h] at this
  simp at this

/-- the full statement for the C backend is false of the current code -/
theorem C06_C_full_false : ¬ C06_C_full := by
  intro h
  obtain ⟨s, hs, _⟩ := h (E.prod false [.pyint (-1), .prod false [.pyint (-1), .var "b"]]) 0
  exact C06_C_witness_doubleMinus.2 0 s hs

end LokiModel.C06
