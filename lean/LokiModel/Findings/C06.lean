import LokiModel.Props.C06
/-!
# C06 — witnesses of the open findings (statements about *defects of the current code*)

Kept apart from `Props/C06.lean`: when a defect is repaired in /repo the regenerated tables make these statements
false and this module stops building — that is reported as a note ("finding no longer reproduces in the model"),
never as a violation.
-/
namespace LokiModel.C06
open LokiModel.Expr Tables Tok

/-- the printed text of `a / (b*c)` built without a parenthesis node has a derivation meaning `(a/b)*c`,
whose value differs from the tree's at `a = 8, b = 2, c = 2` (1 vs 2 … here 8/2*2 = 8 vs 8/(2*2) = 2) -/
theorem C06_witness_quotDen :
    let w := E.quot false (.var "a") (.prod false [.var "b", .var "c"])
    ∃ s, G 0 (printF fcfg w 0) s ∧
      ∃ env, evalS env s ≠ evalS env (den w) := by
  refine ⟨.mul (.div (.var "a") (.var "b")) (.var "c"), ?_, ?_⟩
  · have h : G 5 ([Tok.id "a"] ++ [slash] ++ [Tok.id "b"] ++ [star] ++ [Tok.id "c"]) (.mul (.div (.var "a") (.var "b")) (.var "c")) :=
      G.mul (G.div ((G.ident "a").weaken (ℓ := 5) (by omega) (by omega)) ((G.ident "b").weaken (ℓ := 6) (by omega) (by omega)))
        ((G.ident "c").weaken (ℓ := 6) (by omega) (by omega))
    exact h.weaken (ℓ := 0) (by omega) (by omega)
  · refine ⟨⟨fun x => if x = "a" then some (.int 8) else some (.int 2), fun _ => 0⟩, ?_⟩
    decide

/-- `(a**b)**c` built without a parenthesis node prints as `a**b**c`, which means `a**(b**c)` -/
theorem C06_witness_powBase :
    let w := E.pow false (.pow false (.var "a") (.var "b")) (.var "c")
    ∃ s, G 0 (printF fcfg w 0) s ∧ ∃ env, evalS env s ≠ evalS env (den w) := by
  refine ⟨.pow (.var "a") (.pow (.var "b") (.var "c")), ?_, ?_⟩
  · have h : G 6 ([Tok.id "a"] ++ [Tok.pow] ++ ([Tok.id "b"] ++ [Tok.pow] ++ [Tok.id "c"])) (.pow (.var "a") (.pow (.var "b") (.var "c"))) :=
      G.pow (G.ident "a") (G.pow (G.ident "b") ((G.ident "c").weaken (ℓ := 6) (by omega) (by omega)))
    exact h.weaken (ℓ := 0) (by omega) (by omega)
  · refine ⟨⟨fun x => if x = "a" then some (.int 2) else if x = "b" then some (.int 3) else some (.int 2), fun _ => 0⟩, ?_⟩
    decide

end LokiModel.C06
