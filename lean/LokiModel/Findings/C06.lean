import LokiModel.Props.C06
/-!
# C06 — witnesses of the open findings (statements about *defects of the current code*)

Kept apart from `Props/C06.lean`: when a defect is repaired in /repo the regenerated tables / the updated model make these
statements false and this module stops building — that is reported as a note, never as a violation.
(The witnesses for `quot-denominator-unparenthesised` and `power-base-power-unparenthesised` were removed when those
defects were repaired by `fix:` commits, see `known_findings.json`.)
-/
namespace LokiModel.C06
open LokiModel.Expr Tables Tok

/-- class `product-factor-quotient-unparenthesised`: `a * (b / c)` built without a parenthesis node prints as `a*b / c`,
which has a derivation meaning `(a*b)/c`; the values differ under integer division at a = 3, b = 1, c = 2 (1 vs 0) -/
theorem C06_witness_prodQuot :
    let w := E.prod false [.var "a", .quot false (.var "b") (.var "c")]
    ∃ s, G 0 (printF fcfg w 0) s ∧ ∃ env, evalS env s ≠ evalS env (den w) := by
  refine ⟨.div (.mul (.var "a") (.var "b")) (.var "c"), ?_, ?_⟩
  · have h : G 5 ([Tok.id "a"] ++ [star] ++ [Tok.id "b"] ++ [slash] ++ [Tok.id "c"]) (.div (.mul (.var "a") (.var "b")) (.var "c")) :=
      G.div (G.mul ((G.ident "a").weaken (ℓ := 5) (by omega) (by omega)) ((G.ident "b").weaken (ℓ := 6) (by omega) (by omega)))
        ((G.ident "c").weaken (ℓ := 6) (by omega) (by omega))
    exact h.weaken (ℓ := 0) (by omega) (by omega)
  · refine ⟨⟨fun x => if x = "a" then some (.int 3) else if x = "b" then some (.int 1) else some (.int 2), fun _ => 0⟩, ?_⟩
    decide

end LokiModel.C06
