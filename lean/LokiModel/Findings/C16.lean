import LokiModel.C16.Model
/-!
# C16 — regression statements about the behaviour before the `fix:` commits

Tuple-level copy of the former `PragmaAttacher.visit_tuple` (slots were overwritten; the end-of-tuple branch had no
`hasattr(…, 'pragma_post')` test), without the recursion into bodies (the witnesses are flat), the former
`_matches_starting_pragma` (IndexError = `none`) and the former dataflow detacher table.  Not part of the audited closure of
`Props/C16.lean`; built on demand with `lake build LokiModel.Findings.C16`.
-/
namespace LokiModel.C16.Old

def setPre (ps : List Pragma) : Item → Item
  | .node id k hp df _ po b => .node id k hp df ps po b
  | x => x

def setPost (ps : List Pragma) : Item → Item
  | .node id k _ df pre _ b => .node id k true df pre ps b
  | x => x

def attachGoOld (T : List String) (post : Bool) : List Item → List Pragma → List Item → Option Item → List Item
  | [], pend, done, last =>
      match last with
      | some l =>
          if post && !pend.isEmpty && l.qual T then done ++ [setPost pend l]
          else done ++ [l] ++ pend.map .pragma
      | .none => done ++ pend.map .pragma
  | .pragma p :: xs, pend, done, last => attachGoOld T post xs (pend ++ [p]) done last
  | i :: xs, pend, done, last =>
      if pend.isEmpty then attachGoOld T post xs [] (done ++ last.toList) (some i)
      else if i.qual T then attachGoOld T post xs [] (done ++ last.toList) (some (setPre pend i))
      else if post && (lastInfo T last).q && (lastInfo T last).hp then
        attachGoOld T post xs [] (done ++ (last.map (setPost pend)).toList) (some i)
      else attachGoOld T post xs [] (done ++ last.toList ++ pend.map .pragma) (some i)

def wP (n : Nat) : Pragma := ⟨n, "loki", "x", n, false⟩

/-- `attach-overwrites-slot` (fixed): the pragma already attached to the loop was lost -/
theorem old_overwrite_loses :
    attachGoOld ["Loop"] true [.pragma (wP 4), .node 2 "Loop" true false [wP 1] [] []] [] [] none =
      [.node 2 "Loop" true false [wP 4] [] []] := by
  simp [attachGoOld, Item.qual, setPre]

/-- `stray-pragma-post` (fixed): a call at the end of a tuple received a `pragma_post` attribute it does not have as a field -/
theorem old_stray_attribute :
    attachGoOld ["CallStatement"] true [.node 1 "CallStatement" false false [] [] [], .pragma (wP 2)] [] [] none =
      [.node 1 "CallStatement" true false [] [wP 2] []] := by
  simp [attachGoOld, Item.qual, setPost]

/-- `dataflow-scoped-node-stale` (fixed): with the former handler table an `Associate` kept its fields -/
theorem old_dataflow_stale :
    dfDetList ⟨["TypeDef"], ["Interface"], ["Associate", "StatementFunction", "TypeDef"]⟩
      (dfAttList ⟨["TypeDef"], ["Interface"], ["Associate", "StatementFunction", "TypeDef"]⟩
        [.node 1 "Associate" false false [] [] []]) = [.node 1 "Associate" false true [] [] []] := by
  simp [dfAttList, dfAttItem, dfDetList, dfDetItem]

end LokiModel.C16.Old
