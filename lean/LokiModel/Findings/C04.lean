import LokiModel.Props.C04
/-!
# C04 — regression statements about defects repaired by `fix:` commits (old behaviour, self-contained definitions)

Not part of the property theorems and not gating: `Props/C04.lean` states what the code does now (`C04_tokens`,
`C04_former_crash_witness`).
-/
namespace LokiModel.C04.Old

/-- is there a closing `q` before the next newline (`.` does not match `'\n'`) -/
def hasClose (q : Char) : Str → Bool
  | [] => false
  | c :: cs => if c = q then true else if c = '\n' then false else hasClose q cs

/-- the `finditer` loop for the former pattern `(?:'.*?')|(?:".*?")`: a match ends at the *next* equal quote -/
def chunksAux : Option Char → Str → Str → List Str
  | none, acc, [] => flushPlain acc
  | some _, acc, [] => [acc.reverse]
  | none, acc, c :: cs =>
      if isQuote c && hasClose c cs then flushPlain acc ++ chunksAux (some c) [c] cs
      else chunksAux none (c :: acc) cs
  | some q, acc, c :: cs =>
      if c = q then (c :: acc).reverse :: chunksAux none [] cs
      else chunksAux (some q) (c :: acc) cs

def chunks (s : Str) : List Str := chunksAux none [] s

/-- **former class `doubled-quote-split`** (repaired by d4d2870): the old chunker cut `'it''s'` between the two quotes
of the doubled quote, so `C04_tokens` was false for it; the repaired chunker keeps the literal in one chunk -/
theorem C04_old_doubled_quote_split :
    chunks "'it''s'".toList = ["'it'".toList, "'s'".toList] ∧
    anyAdj dqPair (chunks "'it''s'".toList) = true ∧
    LokiModel.C04.chunks "'it''s'".toList = ["'it''s'".toList] := by decide

/-- **former classes `nested-empty-item` / `nested-rewrap`** (repaired by cafdad9): the chunker used to re-join a list
item with `sep.join(str(i) for i in items)`; for `['aaaa', '', 'bbbb']` and `', '` that is `'aaaa, , bbbb'`, whereas
`_to_str` (and now `_flat`) print `'aaaa, bbbb'` -/
theorem C04_old_nested_empty_item :
    joinSep ", ".toList ["aaaa".toList, [], "bbbb".toList] = "aaaa, , bbbb".toList ∧
    flatItem (.jsl [.str "aaaa".toList, .str [], .str "bbbb".toList] ", ".toList false) = "aaaa, bbbb".toList := by decide

end LokiModel.C04.Old
