/-!
# C37 — witnesses of open findings (non-gating)

`shoist-hoisted-argument-order`: a small model of how the call site and the kernel signature are extended by
SCCSeqRevector (index dummy appended, passed by KEYWORD) followed by the hoisting transformation (hoisted temporaries
appended to the dummies AFTER the index, the actuals appended POSITIONALLY).
-/
namespace LokiModel.C37.Findings

/-- dummies of the kernel after the two steps -/
def kernelDummies (orig : List String) (index : String) (hoisted : List String) : List String := orig ++ [index] ++ hoisted

/-- positional actuals and keyword actuals of the rewritten call -/
def callPositional (origActuals hoistedActuals : List String) : List String := origActuals ++ hoistedActuals
def callKeywords (index : String) : List (String × String) := [(index, index)]

/-- Fortran binding: positional actuals bind to the dummies in order -/
def bindPositional (dummies actuals : List String) : List (String × String) := dummies.zip actuals

def KnownSHoist (hoisted : List String) : Bool := !hoisted.isEmpty

/-- with at least one hoisted temporary the index dummy receives the first hoisted actual positionally … -/
theorem shoist_index_bound_positionally (orig origActuals : List String) (index h a : String) (hs as : List String)
    (hlen : orig.length = origActuals.length) :
    (index, a) ∈ bindPositional (kernelDummies orig index (h :: hs)) (callPositional origActuals (a :: as)) := by
  unfold bindPositional kernelDummies callPositional
  rw [List.append_assoc, List.zip_append hlen]
  simp

/-- … and is bound a second time by the keyword: the call is not a valid reference to the kernel -/
theorem shoist_index_bound_twice_witness :
    let d := kernelDummies ["start", "end", "nlon", "nz", "q"] "jl" ["zt1"]
    let pos := bindPositional d (callPositional ["start", "end", "nlon", "nz", "q(:,:,b)"] ["kern1_zt1(:,:,b)"])
    ("jl", "kern1_zt1(:,:,b)") ∈ pos ∧ ("jl", "jl") ∈ callKeywords "jl" ∧ KnownSHoist ["zt1"] = true := by
  decide

end LokiModel.C37.Findings
