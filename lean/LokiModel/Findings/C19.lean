import LokiModel.C19.Lemmas
/-! # C19 — witness theorems about defects of the current code (non-gating) -/
namespace LokiModel.C19

def wFile : List Item :=
  [⟨false, "module m".toList, 1, 1⟩, ⟨false, "use k".toList, 2, 2⟩, ⟨false, "end module".toList, 3, 3⟩]
def cPU : Classes := { Classes.empty with pu := true }
def cIM : Classes := { Classes.empty with im := true }

/-- the full statement of `incremental_commutes`: every history shows the discovery of the union of its requests -/
def C19_incremental_full : Prop :=
  ∀ (first : Classes) (more : List Classes) (ss : List Item),
    (runHistory first more).view ss = discover (more.foldl (· ∪ ·) first) ss

/-- requesting `ImportClass` before `ProgramUnitClass` loses the imports although `Sourcefile._parser_classes`
records both -/
theorem C19_incremental_full_false : ¬ C19_incremental_full := by
  intro h
  have := h cIM [cPU] wFile
  revert this
  decide

/-- the two orders of the same two requests disagree -/
theorem C19_request_order_witness :
    (runHistory cIM [cPU]).view wFile ≠ (runHistory cPU [cIM]).view wFile ∧
    (runHistory cIM [cPU]).fileCls = (runHistory cPU [cIM]).fileCls := by
  decide

end LokiModel.C19
