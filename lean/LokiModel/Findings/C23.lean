import LokiModel.C23.Model
/-!
# C23 — witness theorems about open defects of the current code (non-gating module)

* `item-hash-case`: `Item.__eq__` lower-cases, `Item.__hash__` hashes the stored name: items whose names differ only
  in case are `==` but hash differently; a set holds both and `in` on a set/dict misses.
* `duplicate-suffix-case` (FIXED; regression statement about the old behaviour): `DuplicateKernel` on a kernel outside
  any module with a suffix containing an upper-case letter: `get_or_create_item_from_item` looked the raw name up in a
  plain dict of lower-cased definition names and ended in `RuntimeError('Failed to clone item …')`.
-/
namespace LokiModel.C23.Findings
open LokiModel.C21 LokiModel.C23

/-- a hash function that, like Python's `hash(str)`, tells `Foo` from `foo` -/
def sumHash (n : Name) : Nat := (n.map Char.toNat).foldl (· + ·) 0

def fooU : Name := "mod#Foo".toList
def fooL : Name := "mod#foo".toList

/-- the full statement "== implies equal hash" is false -/
theorem C23_eq_hash_full_false : ¬ ∀ (h : Name → Nat) (a b : Name), itemEq a b = true → h a = h b := by
  intro hall
  have := hall sumHash fooU fooL (by decide)
  revert this
  decide

/-- `{ProcedureItem('mod#Foo'), ProcedureItem('mod#foo')}` has two elements; `a in {b}` is false although `a in [b]` is true -/
theorem C23_set_holds_both :
    (pySet sumHash [fooU, fooL]).length = 2 ∧ pyMem sumHash [fooL] fooU = false ∧ listMem [fooL] fooU = true := by
  decide

/-- former `get_or_create_item_from_item` (before the `fix:` commit): `definition_items` was a plain dict with
lower-cased keys, queried with the name as spelled -/
def cloneItemOld (cache : List Name) (scope loc suffix msuffix : Name) : CloneRes :=
  let r := newItemName scope loc suffix msuffix
  let scope' := r.1
  let name := r.2.2
  if cacheHas cache name then .ok []
  else
    let defs := if scope'.isEmpty then [lower name] else [lower scope']
    if defs.contains name then .ok defs
    else if !scope'.isEmpty then .ok (defs ++ [lower name])
    else .failed

/-- the former known-finding class `duplicate-suffix-case`: a kernel that is not in a module and a suffix that changes under `.lower()` -/
def KnownDupSuffixCase (scope loc suffix : Name) : Bool :=
  scope.isEmpty && decide (lower (loc ++ suffix) ≠ loc ++ suffix)

/-- `duplicate-suffix-case` (fixed): the old code failed for a kernel outside any module and a suffix with an upper-case
letter, and worked with the lower-cased suffix -/
theorem C23_old_dup_witness :
    cloneItemOld [] [] "fk".toList "_Dup".toList [] = .failed ∧
    cloneItemOld [] [] "fk".toList "_dup".toList [] = .ok ["#fk_dup".toList] ∧
    KnownDupSuffixCase [] "fk".toList "_Dup".toList = true := by decide

end LokiModel.C23.Findings
