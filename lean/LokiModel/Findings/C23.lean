import LokiModel.C23.Model
/-!
# C23 — witness theorems about open defects of the current code (non-gating module)

* `item-hash-case`: `Item.__eq__` lower-cases, `Item.__hash__` hashes the stored name: items whose names differ only
  in case are `==` but hash differently; a set holds both and `in` on a set/dict misses.
* `duplicate-suffix-case`: `DuplicateKernel` on a kernel outside any module with a suffix containing an upper-case
  letter: `get_or_create_item_from_item` looks the raw name up in a plain dict of lower-cased definition names and
  ends in `RuntimeError('Failed to clone item …')`; with the lower-cased suffix it succeeds.
-/
namespace LokiModel.C23.Findings
open LokiModel.C21 LokiModel.C23

/-- a hash function that, like Python's `hash(str)`, tells `Foo` from `foo` -/
def sumHash (n : Name) : Nat := (n.map Char.toNat).foldl (· + ·) 0

def fooU : Name := "mod#Foo".toList
def fooL : Name := "mod#foo".toList

/-- the full statement "== implies equal hash" is false -/
theorem C23_eq_hash_full_false : ¬ ∀ (h : Name → Nat) (a b : Name), itemEq a b = true → h a = h b := by
  intro hall
  have := hall sumHash fooU fooL (by decide)
  revert this
  decide

/-- `{ProcedureItem('mod#Foo'), ProcedureItem('mod#foo')}` has two elements; `a in {b}` is false although `a in [b]` is true -/
theorem C23_set_holds_both :
    (pySet sumHash [fooU, fooL]).length = 2 ∧ pyMem sumHash [fooL] fooU = false ∧ listMem [fooL] fooU = true := by
  decide

/-- the cache keys produced by `DuplicateKernel` depend on the case of the suffix for a kernel outside any module -/
theorem C23_dup_keys_full_false :
    ¬ ∀ (cache : List Name) (scope loc s s' ms ms' : Name), lower s = lower s' → lower ms = lower ms' →
        cloneItem cache scope loc s ms = cloneItem cache scope loc s' ms' := by
  intro hall
  have := hall [] [] "fk".toList "_Dup".toList "_dup".toList [] [] (by decide) (by decide)
  revert this
  decide

theorem C23_dup_witness :
    cloneItem [] [] "fk".toList "_Dup".toList [] = .failed ∧
    cloneItem [] [] "fk".toList "_dup".toList [] = .ok ["#fk_dup".toList] ∧
    KnownDupSuffixCase [] "fk".toList "_Dup".toList = true := by decide

end LokiModel.C23.Findings
