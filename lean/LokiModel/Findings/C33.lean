import LokiModel.C33.Model
/-!
# C33 findings: witnesses about the unchanged `outline_region` (non-gating)

Each statement is about the model (tied to the real code by the correspondence check on every run) and is replayed on the
real code by the oracle (`notes/C33.md` has the request lines).
-/
namespace LokiModel.C33.Findings
open LokiModel.Fir LokiModel.C33
open LokiModel.Expr (Val)

def decls : List Decl :=
  [{ name := "n", ty := .int, dims := [], intent := .in_ },
   { name := "a", ty := .int, dims := [(.lit (.int 1), .var "n")], intent := .inout },
   { name := "k", ty := .int, dims := [], intent := .inout },
   { name := "x", ty := .int, dims := [] }, { name := "i", ty := .int, dims := [] }]
def noHdr : Hdr := { name := none, pin := [], pinout := [], pout := [] }

/-- `if (k > 0) x = 1` : `x` is only conditionally written, yet it becomes INTENT(OUT) (a conditional definition counts as a
definition in `visit_Conditional`): under the standard's rule the caller's `x` is undefined after the call when `k <= 0` -/
def condBody : List Stmt := [.ifte (.bin (.cmp .gt) (.var "k") (.lit (.int 0))) [.assign (.var "x") (.lit (.int 1))] []]
theorem conditional_write_is_out_witness :
    (outlineRegion decls "f" noHdr condBody).outs = ["x"] ∧ liveIn "x" condBody = none := by decide

/-- `a(2) = k`: the array is passed, its shape symbol `n` is not: the new routine declares `a(n)` with an undeclared `n` -/
def shapeBody : List Stmt := [.assign (.idx "a" [.lit (.int 2)]) (.var "k")]
theorem shape_symbol_missing_witness :
    (outlineRegion decls "f" noHdr shapeBody).unit.args = ["a", "k"] ∧
    KnownShapeSymbol (outlineRegion decls "f" noHdr shapeBody) = true := by decide

/-- `do i = 1, 3; a(i) = 0; end do; k = i`: the DO variable is read after its loop inside the region, so it is
`uses − defines` = INTENT(IN), although the loop assigns it -/
def loopBody : List Stmt :=
  [.doLoop "i" (.lit (.int 1)) (.lit (.int 3)) none [.assign (.idx "a" [.var "i"]) (.lit (.int 0))],
   .assign (.var "k") (.var "i")]
theorem loopvar_intent_in_witness :
    (outlineRegion decls "f" noHdr loopBody).ins = ["i"] ∧ KnownLoopVarIn (outlineRegion decls "f" noHdr loopBody) = true := by
  decide

/-- `do i = 1, 3; … end do` with `k = i` AFTER the region: `i` stays a local of the new routine, the caller's `i` is stale -/
def liveBody : List Stmt := [.doLoop "i" (.lit (.int 1)) (.lit (.int 3)) none [.assign (.var "k") (.var "i")]]
theorem local_live_witness :
    (outlineRegion decls "f" noHdr liveBody).locals = ["i"] ∧
    KnownLocalLive decls ["n", "a", "k"] [.assign (.var "k") (.var "i")] (outlineRegion decls "f" noHdr liveBody) = true := by
  decide

/-- `print *, x`: PRINT is text for Loki: nothing is passed, nothing is declared -/
theorem print_var_witness :
    (outlineRegion decls "f" noHdr [.print [.var "x"]]).unit.args = [] ∧
    KnownPrintVar (outlineRegion decls "f" noHdr [.print [.var "x"]]) = true := by decide

end LokiModel.C33.Findings
