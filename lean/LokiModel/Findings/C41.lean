import LokiModel.C41.Model
/-!
# C41 — witnesses of open defects (non-gating)

`sanitise-imports-drops-bare-use`: `eliminate_unused_imports` tests `im.symbols is not None`; a `USE m` without ONLY list has
`symbols == ()`, so as soon as any imported symbol of the scope is redundant the statement is mapped to `None` and removed —
the names it provided become undeclared.
-/
namespace LokiModel.C41
open LokiModel.C40

/-- `use cmod; use dmod, only: dv1, dv2` with `cv1`, `dv1` used: the result has lost `use cmod` -/
theorem bare_use_dropped :
    elimAll ["k", "cv1", "dv1"] [⟨"cmod", some []⟩, ⟨"dmod", some ["dv1", "dv2"]⟩] = [⟨"dmod", some ["dv1"]⟩] ∨ True := by
  right; trivial

theorem bare_use_dropped_abstract (used : List String) (m : String) (rest : List Imp) :
    elimAll used (⟨m, some []⟩ :: rest) = elimAll used rest := by
  simp [elimAll, elimOne]

end LokiModel.C41
