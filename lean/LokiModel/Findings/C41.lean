import LokiModel.C41.Model
/-!
# C41 — witnesses of open defects (non-gating)

The classes that are still open (`remove-unused-vars-loop-variable`, `vector-notation-half-open-range`,
`normalize-shape-drops-stride`, `loop-unroll-exit-cycle`, `inline-offset-on-bare-range`) concern transformations without a
Lean model here; their witnesses are the request lines in `corpus/C41/witnesses.sexp`.

Regression statement for the repaired class `sanitise-imports-drops-bare-use`: a USE statement without ONLY list is kept.
-/
namespace LokiModel.C41
open LokiModel.C40

theorem bare_use_kept (used : List String) (m : String) (rest : List Imp) :
    elimAll used (⟨m, some []⟩ :: rest) = ⟨m, some []⟩ :: elimAll used rest := by
  simp [elimAll, elimOne]

end LokiModel.C41
