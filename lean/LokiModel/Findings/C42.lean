import LokiModel.Props.C42
/-!
# C42 — regression statement about the behaviour BEFORE the `fix:` commit (non-gating module)

Class `parallel-output-lost` (`known_findings.json`, status `fixed`): `LazyTextfile.write` did not flush; in the
parallel path (`max_workers > 1`) `Reporter.output` writes through handler copies unpickled from the manager dict
whose file was closed only by `__del__`, so the output files were empty when `lint_files` returned and the
violations file was still empty after the process had exited.  Nothing in `Props/C42.lean` depends on this file.
-/
namespace LokiModel.C42.Old

variable {ρ β : Type}

/-- the former failing family: the parallel path -/
def KnownOutputLost (w : Nat) : Bool := decide (1 < w)

/-- former guarantee: the handler list when the last call was serial, nothing (`none`, observed: empty file) otherwise -/
def onDiskOld (s : State β) (k : Nat) : Option (List β) :=
  if KnownOutputLost s.w then none else some (s.outs k)

/-- with the former behaviour the statement of `C42_disk` was false: one file, one handler, two workers -/
theorem C42_old_output_lost :
    ¬ ∀ (c : Cfg Nat Nat) (s : State Nat), Reach c s → isFinal s = true → ∀ k, k < c.nh →
        ∃ l, onDiskOld s k = some l ∧ l.Perm (serialOut c s.all k) := by
  intro h
  let c : Cfg Nat Nat := { lint := fun f => f, ok := fun _ => true, nh := 1, handle := fun _ r => r }
  have h1 : replay c init [.call [0] 2, .start 0, .append 0 0, .finish 0] =
      some ⟨[0], 2, [], [], [0], upd (fun _ => []) 0 [0], upd (fun _ => []) 0 [0], 1⟩ := by
    simp [replay, step, init, isFinal, c]
  have hr := replay_reach c _ _ _ Reach.init h1
  obtain ⟨l, hl, _⟩ := h c _ hr (by simp [isFinal]) 0 (by decide)
  simp [onDiskOld, KnownOutputLost] at hl

/-- seeded change `init-parallel-drops-earlier-reports` as a regression statement: if `call` emptied the
handler lists (as an `init_parallel` that does not copy the collected reports would), a serial call followed
by a parallel one would lose the first call's report — the model's `call` keeps them (`C42_handlers_perm`). -/
example : (replay exCfg init [.call [7] 1, .start 7, .append 7 0, .append 7 1, .finish 7, .call [0] 2]).map
    (fun s => (s.outs 0, s.outs 1)) = some ([71], [72]) := by decide

end LokiModel.C42.Old
