import LokiModel.Props.C42
/-!
# C42 — regression statement about the behaviour BEFORE the `fix:` commit (non-gating module)

Class `parallel-output-lost` (`known_findings.json`, status `fixed`): `LazyTextfile.write` did not flush; in the
parallel path (`max_workers > 1`) `Reporter.output` writes through handler copies unpickled from the manager dict
whose file was closed only by `__del__`, so the output files were empty when `lint_files` returned and the
violations file was still empty after the process had exited.  Nothing in `Props/C42.lean` depends on this file.
-/
namespace LokiModel.C42.Old

variable {ρ β : Type}

/-- the former failing family: the parallel path -/
def KnownOutputLost (w : Nat) : Bool := decide (1 < w)

/-- former guarantee: the handler list in the serial path, nothing (`none`, observed: empty file) otherwise -/
def onDiskOld (c : Cfg ρ β) (s : State β) (k : Nat) : Option (List β) :=
  if KnownOutputLost c.w then none else some (s.outs k)

/-- with the former behaviour the statement of `C42_disk` was false: one file, one handler, two workers -/
theorem C42_old_output_lost :
    ¬ ∀ (c : Cfg Nat Nat) (s : State Nat), Reach c s → isFinal s = true → ∀ k, k < c.nh →
        ∃ l, onDiskOld c s k = some l ∧ l.Perm (serialOut c k) := by
  intro h
  let c : Cfg Nat Nat := { files := [0], lint := fun f => f, ok := fun _ => true, nh := 1, handle := fun _ r => r, w := 2 }
  obtain ⟨s, _, hr, hf, _⟩ := C42_serial_run c (by decide)
  obtain ⟨l, hl, _⟩ := h c s hr hf 0 (by decide)
  simp [onDiskOld, KnownOutputLost, c] at hl

end LokiModel.C42.Old
