import LokiModel.Props.C03
/-!
# C03: witness theorems about defects of the current code (non-gating)

Every witness was replayed on the real code (see `corpus/C03/witnesses.sexp` and `notes/C03.md`).
-/
namespace LokiModel.C03

def vsrc (text : Lines) (l0 l1 : Nat) : Option Src := some ⟨.valid, text, l0, l1⟩
def leaf (k : Kind) (lbl : Nat) (text : Lines) (l : Nat) : Node := .mk ⟨k, lbl, false, false, none, true, none⟩ (vsrc text l l) [] []

/-! ### emptied-node-stays-valid (repaired): `do i = 1, n / a(i) = 1.0 / end do`, mapper `{a(i) = 1.0: None}` -/

def wAssign : Node := leaf .assign 2 ["    a(i) = 1.0"] 7
def wLoop : Node := .mk ⟨.loop, 1, false, false, none, true, none⟩ (vsrc ["  do i = 1, n", "    a(i) = 1.0", "  end do"] 6 8) [wAssign] []
def wBody : Node := .mk ⟨.section, 0, false, false, none, true, none⟩
  (vsrc ["  do i = 1, n", "    a(i) = 1.0", "  end do", "  a(1) = 2.0"] 6 9) [wLoop, leaf .assign 3 ["  a(1) = 2.0"] 9] []
def wMap : Mapper := [(wAssign, .drop)]
def wRender : Render := fun _ => {}

/-- the unmodified witness tiles and is all valid (the hypotheses of the positive theorems are satisfiable) -/
example : allValid wBody = true ∧ tilesB wRender false wBody = true := by decide

/-- regression statement for the repaired `emptied-node-stays-valid`: after the removal the loop is flagged `INVALID_CHILDREN` … -/
theorem C03_emptied_repaired_flags :
    (visitRoot false wMap wBody).body.map (fun n => (n.status, n.body.length)) = [(some .ichildren, 0), (some .valid, 0)] := by decide

/-- … and the removed statement is gone from the conservative output, the loop skeleton still verbatim -/
theorem C03_emptied_repaired_output :
    cgen wRender 0 false (visitRoot false wMap wBody) = .some ["  do i = 1, n", "  end do", "  a(1) = 2.0"] := by
  decide

/-! ### elseif-flag-leaks (repaired): `if / else if / else if / end if` re-flagged by the identity transformer -/

def cnd (lbl : Nat) (ei : Bool) (text : Lines) (l0 l1 : Nat) (body els : List Node) : Node :=
  .mk ⟨.cond, lbl, false, ei, none, true, none⟩ (vsrc text l0 l1) body els

def wChain : Node :=
  cnd 1 true ["if (x > 0.) then", "  y = 1.", "else if (x > 1.) then", "  y = 2.", "else if (x > 2.) then", "  y = 3.", "end if"] 1 7
    [leaf .assign 2 ["  y = 1."] 2]
    [cnd 3 true ["else if (x > 1.) then", "  y = 2.", "else if (x > 2.) then", "  y = 3.", "end if"] 3 7
      [leaf .assign 4 ["  y = 2."] 4]
      [cnd 5 false ["else if (x > 2.) then", "  y = 3.", "end if"] 5 7 [leaf .assign 6 ["  y = 3."] 6] []]]

/-- regression statement for the repaired `elseif-flag-leaks`: the chain tiles and is printed verbatim (it raised `TypeError`) -/
theorem C03_elseif_chain_repaired :
    tilesB wRender false wChain = true ∧
    cgen wRender 0 false (visitRoot false [] wChain) =
      .some ["if (x > 0.) then", "  y = 1.", "else if (x > 1.) then", "  y = 2.", "else if (x > 2.) then", "  y = 3.", "end if"] := by
  decide

/-- a single `else if` is fine (and tiles) -/
example :
    let c := cnd 1 true ["if (x > 0.) then", "  y = 1.", "else if (x > 1.) then", "  y = 2.", "end if"] 1 5
      [leaf .assign 2 ["  y = 1."] 2]
      [cnd 3 false ["else if (x > 1.) then", "  y = 2.", "end if"] 3 5 [leaf .assign 4 ["  y = 2."] 4] []]
    tilesB wRender false c = true ∧
    cgen wRender 0 false (visitRoot false [] c) = .some ["if (x > 0.) then", "  y = 1.", "else if (x > 1.) then", "  y = 2.", "end if"] := by
  decide

/-! ### multiline-header-truncated: the continuation line of an `IF` header is lost -/

def wMulti : Node :=
  cnd 1 false ["if (x > 0. .and. &", "  & y > 0.) then", "  z = 1.", "end if"] 1 4 [leaf .assign 2 ["  z = 1."] 3] []

theorem C03_multiline_header_witness :
    tilesB wRender false wMulti = false ∧
    cgen wRender 0 false (visitRoot false [] wMulti) = .some ["if (x > 0. .and. &", "  z = 1.", "end if"] := by decide

/-! ### named-else-not-found (repaired): `chk: if … else chk … end if chk`, with a nested `else if` and another construct's `else` -/

def ncnd (lbl : Nat) (ei : Bool) (nm : Option String) (text : Lines) (l0 l1 : Nat) (body els : List Node) : Node :=
  .mk ⟨.cond, lbl, false, ei, none, true, nm⟩ (vsrc text l0 l1) body els

def wNamed : Node :=
  ncnd 1 false (some "chk")
    ["chk: if (x > 0.) then", "  y = 1.", "else chk", "  if (y > 0.) then", "    z = 1.", "  else if (z > 0.) then", "    z = 2.",
     "  end if", "end if chk"] 1 9
    [leaf .assign 2 ["  y = 1."] 2]
    [ncnd 3 true none ["  if (y > 0.) then", "    z = 1.", "  else if (z > 0.) then", "    z = 2.", "  end if"] 4 8
      [leaf .assign 4 ["    z = 1."] 5]
      [ncnd 5 false none ["  else if (z > 0.) then", "    z = 2.", "  end if"] 6 8 [leaf .assign 6 ["    z = 2."] 7] []]]

/-- the named construct tiles and is printed verbatim after re-flagging (it raised `IndexError`); the nested `else if` line is
not taken for the else line -/
theorem C03_named_else_repaired :
    tilesB wRender false wNamed = true ∧
    cgen wRender 0 false (visitRoot false [] wNamed) = (match wNamed.src with | some s => .some s.text | none => .none) := by
  decide

end LokiModel.C03
