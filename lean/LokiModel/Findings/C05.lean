import LokiModel.C05.Pipeline
/-!
# C05 findings repaired by `fix:` commits — regression statements about the old behaviour

* `open-convert-and-newunit`: before the fix `sanitize_ir` applied the re-insertion callbacks in registry order
  (`reinsert_convert_endian`, then `reinsert_open_newunit`), so that the NEWUNIT re-insertion — built from the text
  that no longer had the CONVERT argument — overwrote the CONVERT re-insertion.
-/
namespace LokiModel.C05

/-- the statement text with the callbacks in registry order (the code before the fix) -/
def effectiveOld (o : Out) : Line :=
  match o.info.newunit with
  | some g => reinsertNewunit g
  | none =>
    match o.info.convert with
    | some g => reinsertConvert g
    | none => o.text

/-- the old order loses the CONVERT argument on the witness -/
theorem C05_old_order_loses_convert :
    effectiveOld (sanitizeLine "open(newunit=iu, convert='big_endian')".toList true) = "open(newunit=iu)".toList ∧
    effective (sanitizeLine "open(newunit=iu, convert='big_endian')".toList true)
      = "open(newunit=iu, convert='big_endian')".toList := by decide

end LokiModel.C05
