import LokiModel.Props.C01
import LokiModel.C02.Codec
/-!
# C01 — witness statements about open defects (non-gating)

The defects of C01 found on the unchanged code (`select-empty-case`, `assoc-selector-crash`) lie in parts of the frontend
that the Lean model does not contain (the reference parser rejects an empty `CASE` block; `ASSOCIATE` selectors are not
typed); their witnesses are replayed on the real code by the oracle (see `known_findings.json`).  What can be stated in
the model is that the covered class excludes them.
-/
namespace LokiModel.C01
open LokiModel.Expr LokiModel.C02 LokiModel.C06

/-- an empty `CASE` block is outside the covered class -/
theorem C01_empty_case_outside (P : E → Prop) (e : E) (d : List (Stmt E)) :
    ¬ OkStmt P (.select e [([1], [])] d) := by
  simp [OkStmt, OkCases]

/-- the reference parser does not accept the text `select case (k)` / `case (1)` / `case (2)` / `x = 1` / `end select` -/
theorem C01_empty_case_rejected :
    (pStmts reE 20 [[kw "select", kw "case", .e .lp, kw "k", .e .rp], [kw "case", .e .lp, .e (.num 1), .e .rp],
      [kw "case", .e .lp, .e (.num 2), .e .rp], [kw "x", .assign, .e (.num 1)], [kw "end", kw "select"]]).isNone = true := by
  decide

end LokiModel.C01
