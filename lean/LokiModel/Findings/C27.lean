import LokiModel.Props.C27
/-!
# C27 — witness theorems about open defects of the unchanged code (non-gating)
-/
namespace LokiModel.C27.Findings
open LokiModel.Fir LokiModel.C26 LokiModel.C27

def p0 : Program := ⟨[], "k"⟩
def c0 : Ctx := ⟨p0, false⟩
def icell (v : Option Int) : Cell := .scalar .int (v.map .int)

/-! ### loop-carried dependency hidden by a conditional definition -/

/-- body of `do i = 1, 2 ; if (q) x = 0 ; y = x ; x = 1 ; end do` -/
def lcdBody : List Stmt :=
  [.ifte (.var "q") [.assign (.var "x") (.lit (.int 0))] [],
   .assign (.var "y") (.var "x"),
   .assign (.var "x") (.lit (.int 1))]

def lcdLoop : Stmt := .doLoop "i" (.lit (.int 1)) (.lit (.int 2)) none lcdBody

def st1 : St :=
  { store := [("q", .scalar .logical (some (.bool false))), ("x", icell (some 5)), ("y", icell none), ("i", icell none)] }

def its : List Tr := trIter p0 8 "i" lcdBody 1 2 1 st1

/-- iteration 1 writes `x` … -/
theorem lcd_it0_writes : ∃ t, its[0]? = some t ∧ wroteB "x" t = true := by
  refine ⟨_, rfl, ?_⟩
  simp [its, trIter, writeAt, resolve, lookupAlias, lookupCell, st1, icell, coerce, setCell, trSs, trS, execStmt,
    execStmts, lcdBody, evalE, readAt, boundsOf, assignEvts, rds, subVars, varsEx, lhsName, isWhole, wroteB, Evt.isWr,
    assignStmt, p0]

/-- … iteration 2 reads it before writing it … -/
theorem lcd_it1_reads : ∃ t, its[1]? = some t ∧ rbwB "x" t = true := by
  refine ⟨_, rfl, ?_⟩
  simp [its, trIter, writeAt, resolve, lookupAlias, lookupCell, st1, icell, coerce, setCell, trSs, trS, execStmt,
    execStmts, lcdBody, evalE, readAt, boundsOf, assignEvts, rds, subVars, varsEx, lhsName, isWhole, rbwB,
    assignStmt, p0]

/-- … and `loop_carried_dependencies` is empty -/
theorem lcd_empty : lcd c0 lcdLoop = [] := by decide

def lcd_full : Prop :=
  ∀ (p : Program) (c : Ctx) (f : Nat) (v : String) (lo hi : Ex) (step : Option Ex) (body : List Stmt) (sv : Int)
    (n : Nat) (cur : Int) (st : St) (i j : Nat) (ti tj : Tr) (x : String), i < j → coveredL body = true →
    (trIter p f v body sv n cur st)[i]? = some ti → (trIter p f v body sv n cur st)[j]? = some tj →
    wroteB x ti = true → rbwB x tj = true → x ∈ names (lcd c (.doLoop v lo hi step body))

theorem lcd_full_false : ¬ lcd_full := by
  intro h
  obtain ⟨t0, h0, hw⟩ := lcd_it0_writes
  obtain ⟨t1, h1, hr⟩ := lcd_it1_reads
  have := h p0 c0 8 "i" (.lit (.int 1)) (.lit (.int 2)) none lcdBody 1 2 1 st1 0 1 t0 t1 "x" (by decide) (by decide)
    h0 h1 hw hr
  rw [show (Stmt.doLoop "i" (.lit (.int 1)) (.lit (.int 2)) none lcdBody) = lcdLoop from rfl, lcd_empty] at this
  cases this

/-- the witness is in the known class -/
example : knownUL c0 "x" lcdBody = true := by decide

/-! ### read after write hidden by a possibly zero-trip loop -/

/-- `x = 1 ; <inspection point> ; do i = 1, n ; x = 2 ; end do ; z = x` -/
def rawPre : List Stmt := [.assign (.var "x") (.lit (.int 1))]
def rawNode : Stmt := .nop "pragma" "loki mark"
def rawPost : List Stmt :=
  [.doLoop "i" (.lit (.int 1)) (.var "n") none [.assign (.var "x") (.lit (.int 2))],
   .assign (.var "z") (.var "x")]

/-- `read_after_write_vars` reports nothing: the write inside the loop removed `x` from the candidates -/
theorem raw_empty : readAfterWrite c0 (rawPre ++ rawNode :: rawPost) (sizeL rawPre) = [] := by decide

def st2 : St := { store := [("n", icell (some 0)), ("x", icell none), ("z", icell none), ("i", icell none)] }
def st2' : St := { store := [("n", icell (some 0)), ("x", icell (some 1)), ("z", icell none), ("i", icell none)] }

theorem raw_pre_runs : execStmts p0 4 rawPre st2 = .ok st2' .normal := by
  simp [execStmts, execStmt, rawPre, assignStmt, boundsOf, lookupAlias, lookupCell, st2, st2', icell, evalE, writeAt,
    resolve, coerce, setCell]

theorem raw_pre_writes : wroteB "x" (trSs p0 4 rawPre st2) = true := by
  simp [trSs, trS, rawPre, assignEvts, rds, subVars, varsEx, lhsName, isWhole, wroteB, Evt.isWr]

/-- with `n = 0` the loop does not run and `z = x` reads the value written before the inspection point -/
theorem raw_post_reads : rbwB "x" (trSs p0 8 (rawNode :: rawPost) st2') = true := by
  simp [trSs, trS, execStmt, execStmts, rawNode, rawPost, st2', icell, evalE, readAt, resolve, lookupAlias, lookupCell,
    boundsOf, asInt, tripCount, trIter, doIter, writeAt, coerce, setCell, assignEvts, rds, boundVars, subVars, varsEx,
    varsO, lhsName, isWhole, rbwB, p0]

def raw_full : Prop :=
  ∀ (p : Program) (c : Ctx) (f f' : Nat) (pre : List Stmt) (node : Stmt) (post : List Stmt) (st st1 : St) (x : String),
    coveredL (pre ++ node :: post) = true → execStmts p f pre st = .ok st1 .normal →
    wroteB x (trSs p f pre st) = true → rbwB x (trSs p f' (node :: post) st1) = true →
    x ∈ names (readAfterWrite c (pre ++ node :: post) (sizeL pre))

theorem raw_full_false : ¬ raw_full := by
  intro h
  have := h p0 c0 4 8 rawPre rawNode rawPost st2 st2' "x" (by decide) raw_pre_runs raw_pre_writes raw_post_reads
  rw [raw_empty] at this
  cases this

end LokiModel.C27.Findings
