import LokiModel.Props.C17
/-!
# C17 — witness theorems about the current code (non-gating)

`clone-shares-typedef`: `SymbolTable.clone`/`update` copy `SymbolAttributes` shallowly, so the `DerivedType.typedef` link of the
module's own entry for a derived type it defines still points at the ORIGINAL `TypeDef` node after `Module.clone()`; the rebuilt
`TypeDef` of the clone is never registered (`ScopedNode._rebuild` sets `parent=None`, so `TypeDef.__post_init__` does not register,
and `AttachScopes` only resets the parent).  Hence the original `TypeDef`, its symbol table and its declarations are reachable from
the clone.
-/
namespace LokiModel.C17

/-- `module m; type t; real :: a; end type; end module` -/
def tdHeap : Heap := { cells := [
  (1, .unit true "m" [] none 1 [2] []), (1, .tab none [("t", { code := 9, tdef := some 3 })]),
  (1, .node "Section" none [] [3]), (1, .node "TypeDef" (some (4, some 0)) [] [5]), (1, .tab (some 1) [("a", { code := 5 })]),
  (1, .node "VariableDeclaration" none [⟨"a", some 3⟩] [])] }

/-- the clone's table (cell 6, owner 2) holds a typedef link to cell 3, the original's `TypeDef` (owner 1) -/
theorem clone_shares_typedef_witness : ¬ TdefClosed (clone 10 tdHeap 0).1 := by
  intro h
  have := h 6 2 (.tab none [("t", { code := 9, tdef := some 3 })]) (by decide) (by decide) 3 (by decide)
  revert this
  decide

/-- … so the original `TypeDef` is in both footprints although it is not an environment cell -/
theorem clone_footprint_full_false :
    ∃ a, Reach (clone 10 tdHeap 0).1 0 a ∧ Reach (clone 10 tdHeap 0).1 (clone 10 tdHeap 0).2 a ∧
      (clone 10 tdHeap 0).1.tagOf a = some 1 := by
  refine ⟨3, ?_, ?_, by decide⟩
  · exact Reach.step (a := 2) (t := 1) (c := .node "Section" none [] [3])
      (Reach.step (a := 0) (b := 2) (t := 1) (c := .unit true "m" [] none 1 [2] []) (Reach.base 0) (by decide) (by decide) (by decide))
      (by decide) (by decide) (by decide)
  · exact Reach.step (a := 6) (t := 2) (c := .tab none [("t", { code := 9, tdef := some 3 })])
      (Reach.step (a := 7) (b := 6) (t := 2) (c := .unit true "m" [] none 6 [11] []) (Reach.base 7) (by decide) (by decide) (by decide))
      (by decide) (by decide) (by decide)

end LokiModel.C17
