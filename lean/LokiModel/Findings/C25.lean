import LokiModel.C25.Model
namespace LokiModel.C25
end LokiModel.C25
