import LokiModel.Props.C25
/-!
# C25 — witnesses of open defects (non-gating)

`wAfter` is the state the model (and, by the correspondence on the request of corpus/C25/witnesses.sexp, the real
scheduler) is in after `DependencyTransformation(suffix='_x')` on the project `r0 (driver) calls r1 (role driver)`:
the call in `r0` has been renamed to `r1_x` (`rename_calls` renames every target), the routine `r1` has not
(`role == 'kernel'` only), the graph holds the unresolved item `#r1_x`.  The invariant fails at `present`.
(The state is written out because the kernel cannot evaluate the string functions of `opDep` by `decide`.)
-/
namespace LokiModel.C25
open LokiModel.C21 (Graph)

def wAfter : St :=
  { defs := [⟨.proc "" "r0", [.proc "" "r1_x"], "f0", true⟩, ⟨.proc "" "r1", [], "f1", true⟩]
    disk := [⟨.proc "" "r0", [.proc "" "r1"], "f0", true⟩, ⟨.proc "" "r1", [], "f1", true⟩]
    cache := [(.proc "" "r0", .proc "" "r0"), (.proc "" "r1", .proc "" "r1")]
    seeds := [.proc "" "r0"], strict := false, cinc := true
    graph := ⟨[.proc "" "r0", .proc "" "r1_x"], [(.proc "" "r0", .proc "" "r1_x")]⟩ }

theorem C25_driver_callee_witness : ¬ Consistent wAfter := by
  intro h
  have := h.present (.proc "" "r1_x") (by decide)
  revert this
  decide

/-- the local condition of `C25_present_of_localClosed` is what fails -/
theorem C25_driver_callee_not_localClosed : ¬ LocalClosed wAfter.defs := by
  intro h
  have := h ⟨.proc "" "r0", [.proc "" "r1_x"], "f0", true⟩ (by decide) (.proc "" "r1_x") (by decide)
  revert this
  decide

end LokiModel.C25
