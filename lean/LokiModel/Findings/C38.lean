import LokiModel.C38.Model
/-!
# C38 — witnesses of open findings (non-gating)

The driver allocates `STACK(total, nb)` and starts every block with `STACK_USED = 1` (`create_stacks_driver`).

* FtrPtr (`_get_ptr_assignment`): `tmp(1:n, …) => STACK(ptr : ptr + size)` — the section has `size + 1` elements; for the
  last temporary its upper bound is `1 + total`, one past the end of the stack.
* DirectIdx (`_map_temporary_array`): element `(i₁, …)` of a temporary is `STACK(ptr + 1 + linear offset)` (the offset
  accumulator starts at `IntLiteral(1)`), so a temporary occupies `[ptr + 1, ptr + size]`; with `ptr₀ = 1` the last element
  of the last temporary is `STACK(total + 1)`.
-/
namespace LokiModel.C38.Findings
open LokiModel.C38

/-- last stack index referenced by the FtrPtr pointer association of the temporary (start, size) -/
def ftrptrSectionEnd (p : Nat × Nat) : Nat := p.1 + p.2
/-- last stack index referenced by DirectIdx for the temporary (start, size) -/
def directIdxLast (p : Nat × Nat) : Nat := p.1 + 1 + (p.2 - 1)

def KnownStackOffByOne (sizes : List Nat) : Bool := !sizes.isEmpty

/-- with the real initial value `STACK_USED = 1` the stack has indices `1 … total`; both variants reference `total + 1` -/
theorem ftrptr_section_exceeds_witness :
    (intervals 1 [4, 2]).map ftrptrSectionEnd = [5, 7] ∧ total [4, 2] = 6 := by decide

theorem directidx_last_exceeds_witness :
    (intervals 1 [4, 4]).map directIdxLast = [5, 9] ∧ total [4, 4] = 8 := by decide

/-- in general: the last temporary's FtrPtr section ends at `base + total`, i.e. at index `total + 1` for `base = 1` -/
theorem ftrptr_last_section_end (base s : Nat) : ftrptrSectionEnd (base, s) = base + s := rfl

end LokiModel.C38.Findings
