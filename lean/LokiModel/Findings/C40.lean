import LokiModel.C40.Model
/-!
# C40 — witnesses about the unchanged code (non-gating)

No violation of idempotence was found.  Recorded here: inputs on which the *first* application of dead-code removal raises
(`RemoveDeadCodeTransformer.visit_Conditional` sets `has_elseif` when the pruned ELSE part merely *starts* with a Conditional;
the `Conditional` constructor asserts that it then has exactly one statement), as the model predicts; the once-vs-twice statement is vacuous there.
-/
namespace LokiModel.C40
open LokiModel.Fir

/-- `… else if (.true.) then; if (q) exit; cycle; end if`: the pruned ELSE part starts with an IF and has two statements -/
theorem dead_elseif_long_raises :
    crashS [.ifte (.not (.var "p")) [.exit]
      [.ifte (.lit (.bool true)) [.ifte (.not (.var "q")) [.exit] [], .cycle] []]] = true := by
  simp [crashS, crashStmt, elseifCrash, isSingleIf, startsWithIf, deadS, deadStmt, isTrueC, isFalseC]

end LokiModel.C40
