import LokiModel.C14.Model
/-!
# C14 — repaired finding `multiconditional-empty-body-dropped` (regression statement)

Before the `fix:` commit recorded in `known_findings.json`, `Transformer.visit_tuple` ended with
`tuple(i for i in visited if i is not None and as_tuple(i))`.  Applied to `MultiConditional.bodies` (a tuple of tuples)
this dropped every case body that had become empty, while `values` kept its entry: the remaining bodies moved to other
case values.  `oldBodies` is that filter on `bodies ++ [else_body]` (the `else_body` is a direct child and was kept).
-/
namespace LokiModel.C14.Findings
open LokiModel.C14

def oldBodies : List (List Node) → List (List Node)
  | [] => []
  | [e] => [e]
  | b :: bs => if b = [] then oldBodies bs else b :: oldBodies bs

/-- the old filter loses a position exactly when some case body is empty (so it misaligns `bodies` and `values`) -/
theorem C14_old_filter_drops_positions (bodies : List (List Node)) (e : List Node) (h : [] ∈ bodies) :
    (oldBodies (bodies ++ [e])).length < (bodies ++ [e]).length := by
  induction bodies with
  | nil => simp at h
  | cons b bs ih =>
    have hle : ∀ l : List (List Node), (oldBodies l).length ≤ l.length := by
      intro l
      induction l with
      | nil => simp [oldBodies]
      | cons c cs ihc =>
        cases cs with
        | nil => simp [oldBodies]
        | cons d ds =>
          simp only [oldBodies]
          split <;> simp_all <;> omega
    cases hbs : bs ++ [e] with
    | nil => simp at hbs
    | cons d ds =>
      simp only [List.cons_append, hbs, oldBodies]
      by_cases hb : b = []
      · simp only [hb, if_true]
        have := hle (d :: ds)
        simp only [List.length_cons] at this ⊢
        omega
      · simp only [hb, if_false, List.length_cons]
        have hmem : [] ∈ bs := by
          rcases List.mem_cons.mp h with q | q
          · exact absurd q.symm hb
          · exact q
        have := ih hmem
        rw [hbs] at this
        simp only [List.length_cons] at this
        omega

/-- the witness of the finding: `{a1: None}` on `SELECT CASE … CASE (1) a1; CASE (2) a2; CASE DEFAULT a3` -/
example : oldBodies [[], [Node.mk .assign 2 []], [Node.mk .assign 3 []]] = [[Node.mk .assign 2 []], [Node.mk .assign 3 []]] := by
  decide

end LokiModel.C14.Findings
