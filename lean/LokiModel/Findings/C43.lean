import LokiModel.Props.C43
/-!
# C43 — witnesses of the open findings (statements about *defects of the current code*; not gating)

* `ops-fix-raises`: `Fortran90OperatorsRule.fix_subroutine` calls `update_metadata` on an IR node: the model of
  `Linter.fix` raises for every non-empty report list.
* `ops-nonlower-spelling`: `.EQ.` (upper case) with no `==` on any line of the node: `line[0]` raises `IndexError`.
* `ops-span-heuristic`: a statement with F90 operators only whose `Source.find` span is cut short raises as well.
* `ops-lookalike-in-literal`: `.eq.` inside a character literal is reported.
* `ops-mixed-spelling-in-node`: `a <= b .and. a .lt. n` reports nothing.
-/
namespace LokiModel.C43

/-- the full statement about the fixer that runs: a file with reports gets fixed (does not raise) -/
def C43_real_fix_full : Prop := ∀ rs : List Report, fixOutcome rs ≠ .raises

theorem C43_real_fix_raises (rs : List Report) (h : rs ≠ []) : fixOutcome rs = .raises := by
  cases rs with
  | nil => exact absurd rfl h
  | cons r rs => rfl

theorem C43_real_fix_full_false : ¬ C43_real_fix_full := by
  intro h
  exact h [⟨.eq, ".eq.".toList, 6⟩] rfl

/-- the full statement about the detection: the check never raises -/
def C43_detect_total : Prop := ∀ ns : List Node, detect ns ≠ none

def witnessUpper : Node := ⟨6, "  if (a .EQ. b) a = 1".toList, [⟨"a == b".toList, [.eq]⟩]⟩
def witnessLower : Node := ⟨6, "  if (a .eq. b) a = 1".toList, [⟨"a == b".toList, [.eq]⟩]⟩

theorem C43_detect_upper_raises : detect [witnessUpper] = none := by decide

theorem C43_detect_lower_reports : detect [witnessLower] = some [⟨.eq, ".eq.".toList, 6⟩] := by decide

theorem C43_detect_total_false : ¬ C43_detect_total := fun h => h [witnessUpper] C43_detect_upper_raises

/-- only F90 operators, and the check raises: the span found for `not (3 < n and (a - b) > b)` ends at the first `b)` -/
theorem C43_detect_f90_only_raises :
    detect [⟨6, "  l = .not. (3 < n .and. (a - b)>b)".toList,
             [⟨"not (3 < n and (a - b) > b)".toList, [.lt, .gt]⟩]⟩] = none := by decide

/-- `.eq.` inside a character literal is reported -/
theorem C43_detect_literal_reported :
    detect [⟨6, "  if (c == 'x .eq. y') a = 1".toList, [⟨"c == 'x .eq. y'".toList, [.eq]⟩]⟩]
      = some [⟨.eq, ".eq.".toList, 6⟩] := by decide

/-- `.lt.` next to a `<=` in the same statement is not reported -/
theorem C43_detect_mixed_missed :
    detect [⟨6, "  l = a <= b .and. a .lt. n".toList, [⟨"a <= b and a < n".toList, [.le, .lt]⟩]⟩] = some [] := by decide

end LokiModel.C43
