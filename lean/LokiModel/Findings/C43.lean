import LokiModel.Props.C43
/-!
# C43 — witnesses of the open findings and regression statements about repaired ones (not gating)

Repaired (`fix:` commits): `ops-fix-raises` (the fixer called `update_metadata`, which no IR node has: `fixOutcomeOld`),
`ops-nonlower-spelling` (the fallback line search used the case-sensitive `str.replace`: `pickLineOld`).
Open: `ops-span-heuristic`, `ops-lookalike-in-literal`, `ops-mixed-spelling-in-node` (witnesses below).
-/
namespace LokiModel.C43

/-- the fixer before the repair: raises `AttributeError` as soon as there is one report -/
def fixOutcomeOld (reports : List Report) : Option FixOutcome :=
  if reports.isEmpty then some .untouched else none

theorem C43_old_fix_raises (rs : List Report) (h : rs ≠ []) : fixOutcomeOld rs = none ∧ fixOutcome rs = .ran := by
  cases rs with
  | nil => exact absurd rfl h
  | cons r rs => exact ⟨rfl, rfl⟩

/-- the line choice before the repair of `ops-nonlower-spelling` (case-sensitive `str.replace`) -/
def pickLineOld (lines : List Line) (k : Op) : Option Line :=
  match lines.filter (fun l => hasSub k.sym (stripInline l)) with
  | l :: _ => some l
  | [] =>
    match lines.filter (fun l => hasSub k.sym (stripInline (replaceAll k.f77 k.sym 0 l))) with
    | l :: _ => some l
    | [] => none

def witnessUpper : Node := ⟨6, "  if (a .EQ. b) a = 1".toList, [⟨"a == b".toList, [.eq]⟩]⟩

/-- `.EQ.`: the old line choice found no line (`line[0]` raised `IndexError`), the repaired one reports it -/
theorem C43_upper_old_raises_new_reports :
    pickLineOld [witnessUpper.src] .eq = none ∧
    detect [witnessUpper] = some [⟨.eq, ".EQ.".toList, 6⟩] := by decide

/-- the full statement about the detection: the check never raises -/
def C43_detect_total : Prop := ∀ ns : List Node, detect ns ≠ none

/-- only F90 operators, and the check raises: the span found for `not (3 < n and (a - b) > b)` ends at the first `b)` -/
theorem C43_detect_f90_only_raises :
    detect [⟨6, "  l = .not. (3 < n .and. (a - b)>b)".toList,
             [⟨"not (3 < n and (a - b) > b)".toList, [.lt, .gt]⟩]⟩] = none := by decide

theorem C43_detect_total_false : ¬ C43_detect_total := fun h => h _ C43_detect_f90_only_raises

/-- `.eq.` inside a character literal is reported -/
theorem C43_detect_literal_reported :
    detect [⟨6, "  if (c == 'x .eq. y') a = 1".toList, [⟨"c == 'x .eq. y'".toList, [.eq]⟩]⟩]
      = some [⟨.eq, ".eq.".toList, 6⟩] := by decide

/-- `.lt.` next to a `<=` in the same statement is not reported -/
theorem C43_detect_mixed_missed :
    detect [⟨6, "  l = a <= b .and. a .lt. n".toList, [⟨"a <= b and a < n".toList, [.le, .lt]⟩]⟩] = some [] := by decide

end LokiModel.C43
