import LokiModel.C28.Lemmas
/-!
# C28 — witnesses of open defects (non-gating)
-/
namespace LokiModel.C28
open LokiModel.Fir

/-- class `inline-actual-reevaluated`: callee `sub1(u, v, w)` = `v = 10; w = u`, call `sub1(x + 1, x, y)`: the model of the real
transformation produces `x = 10; y = x + 1`, which reads the NEW value of `x` -/
theorem reeval_model_witness :
    inlineBody { name := "sub1", args := ["u", "v", "w"], decls := [],
                 body := [.assign (.var "v") (.lit (.int 10)), .assign (.var "w") (.var "u")] }
      [.bin .add (.var "x") (.lit (.int 1)), .var "x", .var "y"]
    = [.assign (.var "x") (.lit (.int 10)), .assign (.var "y") (.bin .add (.var "x") (.lit (.int 1)))] := by
  rfl

/-- class `inline-print-not-substituted`: a PRINT statement of the callee keeps the dummy's name -/
theorem print_model_witness :
    inlineBody { name := "sub1", args := ["u"], decls := [], body := [.print [.var "u"]] } [.var "x"] = [.print [.var "u"]] := by
  rfl

end LokiModel.C28
