import LokiModel.C21.Model
/-!
# C21 — lemmas: the worklist loop computes the inductive closure

Generic over the node type and the successor function: invariant `Inv`, preserved by one `popleft`
(`inv_step`), termination measure = number of universe elements not yet processed.
-/
namespace LokiModel.C21

section BFS
variable {α : Type} [DecidableEq α]

/-- inductive closure: a start node, or a child of a reachable node -/
inductive ReachG (succ : α → Except Err (List α)) (start : List α) : α → Prop
  | seed {s : α} : s ∈ start → ReachG succ start s
  | step {a c : α} {cs : List α} : ReachG succ start a → succ a = .ok cs → c ∈ cs → ReachG succ start c

structure Inv (succ : α → Except Err (List α)) (start U done q ns : List α) (es : List (α × α)) : Prop where
  mem_ns : ∀ x, x ∈ ns ↔ x ∈ done ∨ x ∈ q
  q_nodup : q.Nodup
  disj : ∀ x, x ∈ q → x ∉ done
  sub : ∀ x, x ∈ ns → x ∈ U
  sound : ∀ x, x ∈ ns → ReachG succ start x
  seeds_in : ∀ s, s ∈ start → s ∈ ns
  closed : ∀ a, a ∈ done → ∃ cs, succ a = .ok cs ∧ ∀ c, c ∈ cs → c ∈ ns
  edges : ∀ a b, (a, b) ∈ es ↔ a ∈ done ∧ ∃ cs, succ a = .ok cs ∧ b ∈ cs ∧ b ≠ a

omit [DecidableEq α] in
theorem inv_init (succ : α → Except Err (List α)) (start U : List α) (hnd : start.Nodup)
    (hU : ∀ x, x ∈ start → x ∈ U) : Inv succ start U [] start start [] where
  mem_ns := by simp
  q_nodup := hnd
  disj := by simp
  sub := hU
  sound := fun _ h => ReachG.seed h
  seeds_in := fun _ h => h
  closed := by simp
  edges := by simp

theorem inv_step {succ : α → Except Err (List α)} {start U done q ns : List α} {es : List (α × α)} {a : α}
    {cs : List α}
    (hU : ∀ a cs c, succ a = .ok cs → c ∈ cs → c ∈ U)
    (hnd : ∀ a cs, succ a = .ok cs → cs.Nodup)
    (h : Inv succ start U done (a :: q) ns es) (hs : succ a = .ok cs) :
    Inv succ start U (done ++ [a]) (q ++ cs.filter (fun c => c ∉ ns)) (ns ++ cs.filter (fun c => c ∉ ns))
      (es ++ (cs.filter (fun c => c ≠ a)).map (fun c => (a, c))) := by
  have ha_ns : a ∈ ns := (h.mem_ns a).2 (Or.inr (List.mem_cons_self))
  have hq : q.Nodup := (List.nodup_cons.1 h.q_nodup).2
  have ha_q : a ∉ q := (List.nodup_cons.1 h.q_nodup).1
  have ha_done : a ∉ done := h.disj a List.mem_cons_self
  refine ⟨?_, ?_, ?_, ?_, ?_, ?_, ?_, ?_⟩
  · intro x
    have := h.mem_ns x
    simp only [List.mem_append, List.mem_cons, List.mem_filter, List.not_mem_nil,
      or_false, decide_eq_true_eq] at *
    constructor
    · rintro (hx | hx)
      · rcases this.1 hx with h1 | h1 | h1
        · exact Or.inl (Or.inl h1)
        · exact Or.inl (Or.inr h1)
        · exact Or.inr (Or.inl h1)
      · exact Or.inr (Or.inr hx)
    · rintro ((hx | hx) | (hx | hx))
      · exact Or.inl (this.2 (Or.inl hx))
      · exact Or.inl (this.2 (Or.inr (Or.inl hx)))
      · exact Or.inl (this.2 (Or.inr (Or.inr hx)))
      · exact Or.inr hx
  · refine List.nodup_append.2 ⟨hq, (hnd a cs hs).filter _, ?_⟩
    intro x hx y hy hxy
    subst hxy
    have : x ∈ ns := (h.mem_ns x).2 (Or.inr (List.mem_cons_of_mem _ hx))
    simp only [List.mem_filter, decide_eq_true_eq] at hy
    exact hy.2 this
  · intro x hx
    simp only [List.mem_append, List.mem_filter, decide_eq_true_eq, List.mem_singleton] at hx ⊢
    rintro (hd | rfl)
    · rcases hx with hx | hx
      · exact h.disj x (List.mem_cons_of_mem _ hx) hd
      · exact hx.2 ((h.mem_ns x).2 (Or.inl hd))
    · rcases hx with hx | hx
      · exact ha_q hx
      · exact hx.2 ha_ns
  · intro x hx
    simp only [List.mem_append, List.mem_filter, decide_eq_true_eq] at hx
    rcases hx with hx | hx
    · exact h.sub x hx
    · exact hU a cs x hs hx.1
  · intro x hx
    simp only [List.mem_append, List.mem_filter, decide_eq_true_eq] at hx
    rcases hx with hx | hx
    · exact h.sound x hx
    · exact ReachG.step (h.sound a ha_ns) hs hx.1
  · intro s hs'
    exact List.mem_append_left _ (h.seeds_in s hs')
  · intro b hb
    simp only [List.mem_append, List.mem_singleton] at hb
    rcases hb with hb | rfl
    · obtain ⟨cs', h1, h2⟩ := h.closed b hb
      exact ⟨cs', h1, fun c hc => List.mem_append_left _ (h2 c hc)⟩
    · refine ⟨cs, hs, fun c hc => ?_⟩
      by_cases hcn : c ∈ ns
      · exact List.mem_append_left _ hcn
      · exact List.mem_append_right _ (by simp [List.mem_filter, hc, hcn])
  · intro x y
    simp only [List.mem_append, List.mem_map, List.mem_filter, decide_eq_true_eq, List.mem_singleton,
      Prod.mk.injEq]
    constructor
    · rintro (hxy | ⟨c, ⟨hc, hca⟩, rfl, rfl⟩)
      · obtain ⟨h1, h2⟩ := (h.edges x y).1 hxy
        exact ⟨Or.inl h1, h2⟩
      · exact ⟨Or.inr rfl, cs, hs, hc, hca⟩
    · rintro ⟨hx | rfl, cs', h1, h2, h3⟩
      · exact Or.inl ((h.edges x y).2 ⟨hx, cs', h1, h2, h3⟩)
      · have : cs' = cs := by
          have := h1.symm.trans hs
          injection this
        subst this
        exact Or.inr ⟨y, ⟨h2, h3⟩, rfl, rfl⟩

/-- result of a successful run: the invariant holds with an empty queue -/
theorem bfs_ok_inv {succ : α → Except Err (List α)} {start U : List α}
    (hU : ∀ a cs c, succ a = .ok cs → c ∈ cs → c ∈ U)
    (hnd : ∀ a cs, succ a = .ok cs → cs.Nodup) :
    ∀ (fuel : Nat) (q ns : List α) (es : List (α × α)) (done : List α) (g : Graph α),
      Inv succ start U done q ns es → bfs succ fuel q ns es = .ok g →
      ∃ done', Inv succ start U done' [] g.nodes g.edges := by
  intro fuel
  induction fuel with
  | zero =>
    intro q ns es done g hinv hb
    cases q with
    | nil => simp only [bfs] at hb; injection hb with hb; subst hb; exact ⟨done, hinv⟩
    | cons a q => simp [bfs] at hb
  | succ fuel ih =>
    intro q ns es done g hinv hb
    cases q with
    | nil => simp only [bfs] at hb; injection hb with hb; subst hb; exact ⟨done, hinv⟩
    | cons a q =>
      simp only [bfs] at hb
      cases hs : succ a with
      | error e => simp [hs] at hb
      | ok cs =>
        simp only [hs] at hb
        exact ih _ _ _ _ g (inv_step hU hnd hinv hs) hb

/-- an error other than fuel exhaustion is the error of the successor function at a reachable node -/
theorem bfs_err_inv {succ : α → Except Err (List α)} {start U : List α}
    (hU : ∀ a cs c, succ a = .ok cs → c ∈ cs → c ∈ U)
    (hnd : ∀ a cs, succ a = .ok cs → cs.Nodup) :
    ∀ (fuel : Nat) (q ns : List α) (es : List (α × α)) (done : List α) (e : Err),
      Inv succ start U done q ns es → bfs succ fuel q ns es = .error e →
      e = .fuel ∨ ∃ a, ReachG succ start a ∧ succ a = .error e := by
  intro fuel
  induction fuel with
  | zero =>
    intro q ns es done e hinv hb
    cases q with
    | nil => simp [bfs] at hb
    | cons a q => simp only [bfs] at hb; injection hb with hb; exact Or.inl hb.symm
  | succ fuel ih =>
    intro q ns es done e hinv hb
    cases q with
    | nil => simp [bfs] at hb
    | cons a q =>
      simp only [bfs] at hb
      cases hs : succ a with
      | error e' =>
        simp only [hs] at hb
        injection hb with hb
        subst hb
        exact Or.inr ⟨a, hinv.sound a ((hinv.mem_ns a).2 (Or.inr List.mem_cons_self)), hs⟩
      | ok cs =>
        simp only [hs] at hb
        exact ih _ _ _ _ e (inv_step hU hnd hinv hs) hb

theorem filter_length_lt_of_mem {U : List α} {p q : α → Bool} {a : α} (ha : a ∈ U) (hpa : p a = true)
    (hqa : q a = false) (hqp : ∀ x, q x = true → p x = true) :
    (U.filter q).length < (U.filter p).length := by
  induction U with
  | nil => cases ha
  | cons u us ih =>
    simp only [List.filter_cons]
    by_cases hua : a = u
    · subst hua
      simp only [hpa, hqa, if_true, List.length_cons]
      have : (us.filter q).length ≤ (us.filter p).length := by
        clear ih ha
        induction us with
        | nil => simp
        | cons v vs ihv =>
          simp only [List.filter_cons]
          by_cases hq : q v = true
          · simp [hq, hqp v hq]; exact ihv
          · simp only [hq]
            by_cases hp : p v = true
            · simp [hp]; omega
            · simp [hp]; exact ihv
      simp; omega
    · have ha' : a ∈ us := by
        rcases List.mem_cons.1 ha with h | h
        · exact absurd h hua
        · exact h
      have := ih ha'
      by_cases hq : q u = true
      · simp [hq, hqp u hq]; exact this
      · simp only [hq]
        by_cases hp : p u = true
        · simp [hp]; omega
        · simp [hp]; exact this

/-- the loop never runs out of fuel when the fuel covers the not-yet-processed part of the universe -/
theorem bfs_fuel {succ : α → Except Err (List α)} {start U : List α}
    (hU : ∀ a cs c, succ a = .ok cs → c ∈ cs → c ∈ U)
    (hnd : ∀ a cs, succ a = .ok cs → cs.Nodup)
    (hnf : ∀ a, succ a ≠ .error .fuel) :
    ∀ (fuel : Nat) (q ns : List α) (es : List (α × α)) (done : List α),
      Inv succ start U done q ns es → (U.filter (fun x => x ∉ done)).length ≤ fuel →
      bfs succ fuel q ns es ≠ .error .fuel := by
  intro fuel
  induction fuel with
  | zero =>
    intro q ns es done hinv hm
    cases q with
    | nil => simp [bfs]
    | cons a q =>
      exfalso
      have ha_ns : a ∈ ns := (hinv.mem_ns a).2 (Or.inr List.mem_cons_self)
      have : a ∈ U.filter (fun x => x ∉ done) := by
        simp [List.mem_filter, hinv.sub a ha_ns, hinv.disj a List.mem_cons_self]
      have := List.length_pos_of_mem this
      omega
  | succ fuel ih =>
    intro q ns es done hinv hm
    cases q with
    | nil => simp [bfs]
    | cons a q =>
      simp only [bfs]
      cases hs : succ a with
      | error e =>
        simp only
        intro h
        injection h with h
        subst h
        exact hnf a hs
      | ok cs =>
        simp only
        refine ih _ _ _ _ (inv_step hU hnd hinv hs) ?_
        have ha_ns : a ∈ ns := (hinv.mem_ns a).2 (Or.inr List.mem_cons_self)
        have hlt := filter_length_lt_of_mem (U := U) (p := fun x => decide (x ∉ done))
          (q := fun x => decide (x ∉ done ++ [a])) (a := a) (hinv.sub a ha_ns)
          (by simp [hinv.disj a List.mem_cons_self]) (by simp)
          (by intro x; simp only [List.mem_append, decide_eq_true_eq]; intro h1 h2; exact h1 (Or.inl h2))
        omega

end BFS

/-! ## facts about `children` needed to instantiate the generic loop theorem -/

theorem mem_dedup (x : Name) : ∀ l : List Name, x ∈ dedup l ↔ x ∈ l
  | [] => by simp [dedup]
  | y :: ys => by
    simp only [dedup, List.mem_cons, List.mem_filter, decide_eq_true_eq, mem_dedup x ys]
    by_cases h : x = y
    · simp [h]
    · simp [h]

theorem nodup_dedup : ∀ l : List Name, (dedup l).Nodup
  | [] => by simp [dedup]
  | y :: ys => by
    simp only [dedup, List.nodup_cons, List.mem_filter, decide_eq_true_eq]
    exact ⟨fun h => h.2 rfl, (nodup_dedup ys).filter _⟩

theorem freePath_mem {cfg : Config} {ic : ItemConf} {f : Name} {fex : Bool} {xs : List Name} {x : Name}
    (h : freePath cfg ic f fex = .ok xs) (hx : x ∈ xs) : x = f := by
  unfold freePath at h
  split at h
  · injection h with h; subst h; cases hx
  · split at h
    · injection h with h; subst h; simpa using hx
    · split at h
      · cases h
      · injection h with h; subst h; simpa using hx

theorem freePath_ne_fuel (cfg : Config) (ic : ItemConf) (f : Name) (fex : Bool) :
    freePath cfg ic f fex ≠ .error .fuel := by
  unfold freePath
  split
  · intro h; cases h
  · split
    · intro h; cases h
    · split
      · intro h; cases h
      · intro h; cases h

theorem nodeItems_mem {cfg : Config} {ic : ItemConf} {d : DepNode} {xs : List Name} {x : Name}
    (h : nodeItems cfg ic d = .ok xs) (hx : x ∈ xs) : x ∈ nodeTargets d := by
  cases d with
  | one n =>
    simp only [nodeItems] at h
    injection h with h; subst h
    split at hx
    · cases hx
    · simpa [nodeTargets] using hx
  | ext n =>
    simp only [nodeItems] at h
    simp [nodeTargets, freePath_mem h hx]
  | uq f fex cands =>
    simp only [nodeItems] at h
    split at h
    · simp [nodeTargets, freePath_mem h hx]
    · rename_i c hc
      injection h with h; subst h
      have hx' : x = c := by simpa using hx
      subst hx'
      have : x ∈ dedup (cands.filter (fun c => !gIgnored cfg c)) := by rw [hc]; simp
      rw [mem_dedup] at this
      simp only [List.mem_filter] at this
      simp [nodeTargets, this.1]
    · cases h
  | imp scope syms =>
    simp only [nodeItems] at h
    split at h
    · injection h with h; subst h; cases hx
    · injection h with h; subst h
      simp only [nodeTargets, List.mem_cons, List.mem_map]
      split at hx
      · rcases List.mem_cons.1 hx with hx | hx
        · exact Or.inl hx
        · simp only [List.mem_map, List.mem_filter] at hx
          obtain ⟨s, ⟨⟨hs, _⟩, _⟩, rfl⟩ := hx
          exact Or.inr ⟨s, hs, rfl⟩
      · simp only [List.mem_map, List.mem_filter] at hx
        obtain ⟨s, ⟨⟨hs, _⟩, _⟩, rfl⟩ := hx
        exact Or.inr ⟨s, hs, rfl⟩
  | unsupported => simp [nodeItems] at h

theorem nodeItems_ne_fuel (cfg : Config) (ic : ItemConf) (d : DepNode) : nodeItems cfg ic d ≠ .error .fuel := by
  cases d with
  | one n => simp [nodeItems]
  | ext n => exact freePath_ne_fuel _ _ _ _
  | uq f fex cands =>
    simp only [nodeItems]
    split
    · exact freePath_ne_fuel _ _ _ _
    · intro h; cases h
    · intro h; cases h
  | imp scope syms =>
    simp only [nodeItems]
    split <;> (intro h; cases h)
  | unsupported => simp [nodeItems]

theorem nodesItems_mem {cfg : Config} {ic : ItemConf} : ∀ {ds : List DepNode} {xs : List Name} {x : Name},
    nodesItems cfg ic ds = .ok xs → x ∈ xs → x ∈ ds.flatMap nodeTargets
  | [], xs, x, h, hx => by simp only [nodesItems] at h; injection h with h; subst h; cases hx
  | d :: ds, xs, x, h, hx => by
    simp only [nodesItems] at h
    cases h1 : nodeItems cfg ic d with
    | error e => simp [h1] at h
    | ok ys =>
      cases h2 : nodesItems cfg ic ds with
      | error e => simp [h1, h2] at h
      | ok zs =>
        simp only [h1, h2] at h
        injection h with h; subst h
        simp only [List.flatMap_cons, List.mem_append] at hx ⊢
        rcases hx with hx | hx
        · exact Or.inl (nodeItems_mem h1 hx)
        · exact Or.inr (nodesItems_mem h2 hx)

theorem nodesItems_ne_fuel (cfg : Config) (ic : ItemConf) : ∀ ds : List DepNode, nodesItems cfg ic ds ≠ .error .fuel
  | [] => by simp [nodesItems]
  | d :: ds => by
    simp only [nodesItems]
    cases h1 : nodeItems cfg ic d with
    | error e =>
      simp only
      intro h; injection h with h; subst h
      exact nodeItems_ne_fuel _ _ _ h1
    | ok ys =>
      cases h2 : nodesItems cfg ic ds with
      | error e =>
        simp only
        intro h; injection h with h; subst h
        exact nodesItems_ne_fuel cfg ic ds h2
      | ok zs => simp

theorem children_nodup {A : Abs} {cfg : Config} {a : Name} {cs : List Name} (h : children A cfg a = .ok cs) :
    cs.Nodup := by
  simp only [children] at h
  split at h
  · injection h with h; subst h; simp
  · split at h
    · cases h
    · injection h with h; subst h
      exact (nodup_dedup _).filter _

theorem children_ne_fuel (A : Abs) (cfg : Config) (a : Name) : children A cfg a ≠ .error .fuel := by
  simp only [children]
  split
  · intro h; cases h
  · split
    · rename_i e he
      intro h; injection h with h; subst h
      exact nodesItems_ne_fuel _ _ _ he
    · intro h; cases h

theorem children_raw {A : Abs} {cfg : Config} {a : Name} {cs : List Name} {c : Name}
    (h : children A cfg a = .ok cs) (hc : c ∈ cs) :
    ∃ raw, nodesItems cfg (itemConf cfg a) (depsOf A a) = .ok raw ∧ c ∈ raw := by
  simp only [children] at h
  split at h
  · injection h with h; subst h; cases hc
  · split at h
    · cases h
    · rename_i raw hraw
      injection h with h; subst h
      refine ⟨raw, hraw, ?_⟩
      simp only [List.mem_filter, mem_dedup] at hc
      have := hc.1
      split at this
      · exact this
      · exact (List.mem_filter.1 this).1

theorem depsOf_mem {A : Abs} {a : Name} {d : DepNode} (h : d ∈ depsOf A a) :
    ∃ it, it ∈ A.items ∧ d ∈ it.deps := by
  unfold depsOf findItem at h
  split at h
  · rename_i it hit
    exact ⟨it, List.mem_of_find?_eq_some hit, h⟩
  · cases h

theorem children_in_allNames {A : Abs} {cfg : Config} (start : List Name) {a : Name} {cs : List Name} {c : Name}
    (h : children A cfg a = .ok cs) (hc : c ∈ cs) : c ∈ allNames A start := by
  obtain ⟨raw, hraw, hcr⟩ := children_raw h hc
  have := nodesItems_mem hraw hcr
  simp only [List.mem_flatMap] at this
  obtain ⟨d, hd, hcd⟩ := this
  obtain ⟨it, hit, hdi⟩ := depsOf_mem hd
  unfold allNames
  refine List.mem_append_right _ ?_
  simp only [List.mem_flatMap, List.mem_cons]
  exact ⟨it, hit, Or.inr ⟨d, hdi, hcd⟩⟩

end LokiModel.C21
