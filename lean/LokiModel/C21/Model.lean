/-!
# C21 — executable model of the scheduler graph construction (loki/batch)

Anchors: `SchedulerConfig.match_item_keys / create_item_config / is_disabled` (configure.py),
`ItemFactory.create_from_ir / _is_ignored / _get_procedure_item` (item_factory.py),
`Item.create_dependency_items` (item.py), `SGraph._get_seed_name / _create_item / _add_children /
_populate` (sgraph.py), `Scheduler._discover / _parse_items / file_graph` (scheduler.py),
`ItemFactory.get_or_create_file_item_from_path` (file cache keyed by `str(path).lower()`).

Names are lists of characters (`Name`).  A project is abstracted (`Abs`) to what the real item factory
yields under a neutral config: for every item its kind, file and the list of *dependency nodes*
(`DepNode`) in the order `Item.dependencies` returns the IR nodes, each classified by how
`create_from_ir` turns it into items:

* `one n`        — resolves to the single item `n`, subject to `_is_ignored n` (calls via qualified
                   imports / same module, typedefs, bindings, interfaces, whole-module imports, free procedures);
* `ext n`        — a call `#p` that resolves to nothing: `ExternalItem`, or `RuntimeError` under `strict`;
* `uq f fex cs`  — a call resolved through unqualified `USE`s: `cs` are the matching definitions of those
                   modules (filtered by the *global* disable list only, never by the caller's lists);
                   none left → the bare name `f = #p` (`fex`: a free procedure of that name exists);
                   more than one distinct → `RuntimeError` (before the `fix:` commit a procedure that is also named in
                   an interface was listed twice and the code raised `UnboundLocalError` while building its message);
* `imp m syms`   — `USE m, ONLY: …` of a known module with the `has_globalvar_import` logic.

Not modelled (see `notes/C21.md`): bracket classes in fnmatch patterns, `_break_cycles` on mutually
recursive RECURSIVE procedures, `plan_data` additional/removed dependencies, `lib` propagation,
`generated`, item names with three `#` parts, ambiguous unqualified seeds, `is_ignored` flags.
-/
namespace LokiModel.C21

abbrev Name := List Char

/-- Python `str.lower()` on ASCII names -/
def lower (n : Name) : Name := n.map Char.toLower

/-! ## fnmatch (`*`, `?`, literals) -/

/-- `.*` followed by the rest of the pattern `k`: some suffix of the text matches `k` -/
def starLoop (k : List Char → Bool) : List Char → Bool
  | [] => k []
  | c :: cs => k (c :: cs) || starLoop k cs

/-- `fnmatch.fnmatchcase(s, p)` for patterns made of `*`, `?` and literal characters -/
def glob : List Char → List Char → Bool
  | [], s => s.isEmpty
  | p :: ps, s =>
    if p = '*' then starLoop (glob ps) s
    else match s with
      | [] => false
      | c :: cs => (p = '?' || p = c) && glob ps cs

/-! ## `match_item_keys` -/

/-- Python `str.split(sep)` -/
def splitOn (sep : Char) : List Char → List (List Char)
  | [] => [[]]
  | c :: cs =>
    if c = sep then [] :: splitOn sep cs
    else match splitOn sep cs with
      | [] => [[c]]
      | h :: t => (c :: h) :: t

/-- `(scope_name, local_name)` of a sanitized item name; `none` = `ValueError` (more than two `#`) -/
def nameParts (n : Name) : Option (Name × Name) :=
  match splitOn '#' n with
  | [l] => some ([], l)
  | [s, l] => some (s, l)
  | [s, a, b] => some (s, a ++ '#' :: b)
  | _ => none

/-- `accumulate(member_names, lambda l, r: f'{l}%{r}', initial=type_name)` -/
def accumulate (acc : Name) : List Name → List Name
  | [] => [acc]
  | m :: ms => acc :: accumulate (acc ++ '%' :: m) ms

def qual (scope loc : Name) : Name := scope ++ '#' :: loc

/-- the set `item_names` of `match_item_keys` for an already lower-cased name (as a list) -/
def candidates (n : Name) (parents : Bool) : Option (List Name) :=
  match nameParts n with
  | none => none
  | some (scope, loc) =>
    let base := [n, loc]
    if !parents then some base
    else
      let ws := if scope.isEmpty then base else base ++ [scope]
      if loc.contains '%' then
        match splitOn '%' loc with
        | ty :: mem => some (ws ++ (accumulate ty mem).flatMap (fun p => [qual scope p, p]))
        | [] => some ws
      else some ws

/-- `SchedulerConfig.match_item_keys(item_name, keys, use_pattern_matching, match_item_parents)`:
the lower-cased keys that match, in key order; `none` = `ValueError` -/
def matchItemKeys (name : Name) (keys : List Name) (usePat parents : Bool) : Option (List Name) :=
  match candidates (lower name) parents with
  | none => none
  | some cands =>
    let ks := keys.map lower
    if usePat then some (ks.filter (fun k => cands.any (fun c => glob k c)))
    else some (ks.filter (fun k => cands.contains k))

/-- truthiness of the result (names with more than two `#` do not occur: treated as no match) -/
def matchesAny (name : Name) (keys : List Name) (usePat parents : Bool) : Bool :=
  match matchItemKeys name keys usePat parents with
  | some (_ :: _) => true
  | _ => false

/-! ## configuration -/

structure Over where
  key : Name
  expand : Option Bool := none
  disable : Option (List Name) := none
  block : Option (List Name) := none
  ignore : Option (List Name) := none

structure Config where
  expand : Bool
  strict : Bool
  imports : Bool
  disable : List Name
  block : List Name
  ignore : List Name
  routines : List Over

structure ItemConf where
  expand : Bool
  disable : List Name
  block : List Name
  ignore : List Name

def applyOver (c : ItemConf) (o : Over) : ItemConf :=
  { expand := o.expand.getD c.expand, disable := o.disable.getD c.disable,
    block := o.block.getD c.block, ignore := o.ignore.getD c.ignore }

/-- `create_item_config`: defaults updated with every routines entry whose key matches (plain match,
no parents), in key order (keys assumed distinct up to case; the multiple-match warning/`strict` error is not modelled) -/
def itemConf (cfg : Config) (name : Name) : ItemConf :=
  cfg.routines.foldl (fun c o => if matchesAny name [o.key] false false then applyOver c o else c)
    { expand := cfg.expand, disable := cfg.disable, block := cfg.block, ignore := cfg.ignore }

/-- `ItemFactory._is_ignored(name, config, ignore=[*item.disable, *item.block])` -/
def ignored (cfg : Config) (ic : ItemConf) (n : Name) : Bool :=
  matchesAny n (cfg.disable ++ (ic.disable ++ ic.block)) true true

/-- `_is_ignored(name, config, None)` = `config.is_disabled(name)` -/
def gIgnored (cfg : Config) (n : Name) : Bool := matchesAny n cfg.disable true true

/-! ## project abstraction -/

inductive SymKind where
  | var | sub | item
deriving DecidableEq, Repr

inductive DepNode where
  | one (n : Name)
  | ext (n : Name)
  | uq (free : Name) (freeExists : Bool) (cands : List Name)
  | imp (scope : Name) (syms : List (Name × SymKind))
  | unsupported
deriving Repr

inductive MKind where
  | proc | typedef | interface
deriving DecidableEq, Repr

structure AItem where
  name : Name
  kind : Name
  file : Name
  deps : List DepNode

structure Abs where
  free : List Name
  modules : List (Name × List (Name × MKind))
  items : List AItem

inductive Err where
  | runtime | unboundlocal | unfeasible | unsupported | fuel
deriving DecidableEq, Repr

def findItem (A : Abs) (n : Name) : Option AItem := A.items.find? (fun it => it.name = n)

def depsOf (A : Abs) (n : Name) : List DepNode :=
  match findItem A n with
  | some it => it.deps
  | none => []      -- ExternalItem: no dependencies

/-! ## `create_from_ir` per dependency node -/

/-- `tuple(dict.fromkeys(items))`: first occurrences, in order -/
def dedup : List Name → List Name
  | [] => []
  | x :: xs => x :: (dedup xs).filter (fun y => y ≠ x)


/-- tail of `_get_procedure_item`: the bare `#p` -/
def freePath (cfg : Config) (ic : ItemConf) (f : Name) (fex : Bool) : Except Err (List Name) :=
  if ignored cfg ic f then .ok []
  else if fex then .ok [f]
  else if cfg.strict then .error .runtime
  else .ok [f]

def nodeItems (cfg : Config) (ic : ItemConf) : DepNode → Except Err (List Name)
  | .one n => .ok (if ignored cfg ic n then [] else [n])
  | .ext n => freePath cfg ic n false
  | .uq f fex cands =>
    -- candidates de-duplicated (`tuple(dict.fromkeys(…))`, since the `fix:` commit for uq-interface-member);
    -- several distinct ones: RuntimeError "defined in multiple imported modules"
    match dedup (cands.filter (fun c => !gIgnored cfg c)) with
    | [] => freePath cfg ic f fex
    | [c] => .ok [c]
    | _ => .error .runtime
  | .imp scope syms =>
    if ignored cfg ic scope then .ok []
    else
      let non := syms.filter (fun s => !ignored cfg ic (qual scope s.1))
      let hasGlobal := non.any (fun s => s.2 = SymKind.var)
      let imported := (non.filter (fun s => s.2 = SymKind.item)).map (fun s => qual scope s.1)
      .ok (if hasGlobal then scope :: imported else imported)
  | .unsupported => .error .unsupported

def nodesItems (cfg : Config) (ic : ItemConf) : List DepNode → Except Err (List Name)
  | [] => .ok []
  | d :: ds =>
    match nodeItems cfg ic d with
    | .error e => .error e
    | .ok xs =>
      match nodesItems cfg ic ds with
      | .error e => .error e
      | .ok ys => .ok (xs ++ ys)

/-- plain `match_item_keys(name, keys)` truthiness (no patterns, no parents) -/
def plainMatch (n : Name) (keys : List Name) : Bool := matchesAny n keys false false

/-- the children `_add_children` adds for item `a`: `[]` for a non-expanded item (`_populate` does not call it);
otherwise `create_dependency_items` (node items, plain disable filter, dedupe) minus plain block matches -/
def children (A : Abs) (cfg : Config) (a : Name) : Except Err (List Name) :=
  let ic := itemConf cfg a
  if !ic.expand then .ok []
  else
    match nodesItems cfg ic (depsOf A a) with
    | .error e => .error e
    | .ok raw =>
      let items := if ic.disable.isEmpty then raw else raw.filter (fun n => !plainMatch n ic.disable)
      .ok ((dedup items).filter (fun n => !plainMatch n ic.block))

/-! ## `_populate` as a worklist algorithm -/

structure Graph (α : Type) where
  nodes : List α
  edges : List (α × α)
deriving DecidableEq

instance {ε α : Type} [DecidableEq ε] [DecidableEq α] : DecidableEq (Except ε α)
  | .ok a, .ok b => if h : a = b then isTrue (by rw [h]) else isFalse (fun e => h (by injection e))
  | .error a, .error b => if h : a = b then isTrue (by rw [h]) else isFalse (fun e => h (by injection e))
  | .ok _, .error _ => isFalse (fun e => by cases e)
  | .error _, .ok _ => isFalse (fun e => by cases e)

/-- the `while queue:` loop of `SGraph._populate` over an abstract successor function; one unit of fuel per
`popleft`.  `new` = children not yet in the graph (appended to nodes and queue), edges to every child but the
item itself -/
def bfs {α : Type} [DecidableEq α] (succ : α → Except Err (List α)) :
    Nat → List α → List α → List (α × α) → Except Err (Graph α)
  | _, [], ns, es => .ok ⟨ns, es⟩
  | 0, _ :: _, _, _ => .error .fuel
  | fuel + 1, a :: q, ns, es =>
    match succ a with
    | .error e => .error e
    | .ok cs =>
      let new := cs.filter (fun c => c ∉ ns)
      bfs succ fuel (q ++ new) (ns ++ new) (es ++ (cs.filter (fun c => c ≠ a)).map (fun c => (a, c)))

/-! ## seeds -/

def isFree (A : Abs) (n : Name) : Bool := A.free.contains n

def modsHavingProc (A : Abs) (n : Name) : List Name :=
  (A.modules.filter (fun m => m.2.any (fun x => x.1 = n ∧ x.2 = MKind.proc))).map (fun m => m.1)

/-- `SGraph._get_seed_name` on the cache as it is after discovery (procedure names unique across modules) -/
def seedName (A : Abs) (s : Name) : Name :=
  if s.contains '#' then s
  else
    let l := lower s
    if isFree A l then '#' :: l
    else match modsHavingProc A l with
      | [m] => qual m l
      | _ => l

def splitFirst (sep : Char) : List Char → List Char × List Char
  | [] => ([], [])
  | c :: cs => if c = sep then ([], cs) else let r := splitFirst sep cs; (c :: r.1, r.2)

/-- `SGraph._create_item`: cache hit (possibly after creating the scope module's definitions, which are filtered
by the global disable list), else all module definitions (procedures, typedefs) with that local name -/
def createItem (A : Abs) (cfg : Config) (name : Name) : List Name :=
  let name := if name.contains '#' then name else '#' :: name
  let sl := splitFirst '#' name
  let hit :=
    if sl.1.isEmpty then isFree A sl.2
    else A.modules.any (fun m => m.1 = sl.1 ∧ m.2.any (fun x => x.1 = sl.2) ∧ !gIgnored cfg name)
  if hit then [name]
  else if sl.2.contains '%' then []
  else A.modules.flatMap (fun m =>
    (m.2.filter (fun x => x.1 = sl.2 ∧ (x.2 = MKind.proc ∨ x.2 = MKind.typedef) ∧ !gIgnored cfg (qual m.1 x.1))).map
      (fun x => qual m.1 x.1))

/-- seed items in queue order (the Scheduler lower-cases the seed names) -/
def seedItems (A : Abs) (cfg : Config) (seeds : List Name) : List Name :=
  dedup (seeds.flatMap (fun s => createItem A cfg (seedName A (lower s))))

/-- every name that can ever become a node: seeds, abstracted items and everything their nodes mention -/
def nodeTargets : DepNode → List Name
  | .one n => [n]
  | .ext n => [n]
  | .uq f _ cs => f :: cs
  | .imp scope syms => scope :: syms.map (fun s => qual scope s.1)
  | .unsupported => []

def allNames (A : Abs) (start : List Name) : List Name :=
  start ++ A.items.flatMap (fun it => it.name :: it.deps.flatMap nodeTargets)

/-- `SGraph._populate` -/
def populate (A : Abs) (cfg : Config) (seeds : List Name) : Except Err (Graph Name) :=
  let start := seedItems A cfg seeds
  bfs (children A cfg) ((allNames A start).length + 1) start start []

/-! ## file graph and full parse -/

def pruneStep (es : List (Name × Name)) : List (Name × Name) :=
  es.filter (fun e => es.any (fun f => f.1 = e.2))

def iter {α : Type} (f : α → α) : Nat → α → α
  | 0, x => x
  | n + 1, x => iter f n (f x)

/-- a directed graph has a cycle iff pruning edges into sinks `|E|` times leaves edges -/
def hasCycle (es : List (Name × Name)) : Bool := !(iter pruneStep es.length es).isEmpty

def kindOf (A : Abs) (n : Name) : Name :=
  match findItem A n with
  | some it => it.kind
  | none => "external".toList

def fileOf (A : Abs) (n : Name) : Name :=
  match findItem A n with
  | some it => it.file
  | none => []

/-- items that get a file node in `Scheduler.file_graph` (`item_filter = ProcedureItem` unless `enable_imports`;
external items are skipped by `SFilter`) -/
def inFileGraph (A : Abs) (imports : Bool) (n : Name) : Bool :=
  (findItem A n).isSome && kindOf A n ≠ "external".toList && (imports || kindOf A n = "proc".toList)

def fileEdges (A : Abs) (imports : Bool) (g : Graph Name) : List (Name × Name) :=
  (g.edges.filter (fun e => inFileGraph A imports e.1 && inFileGraph A imports e.2 && fileOf A e.1 ≠ fileOf A e.2)).map
    (fun e => (fileOf A e.1, fileOf A e.2))

/-- the known-finding class `file-graph-cycle`: with `full_parse`, the topological sort of the file graph
(or of the item graph) in `_parse_items` raises `NetworkXUnfeasible` -/
def KnownFileGraphCycle (A : Abs) (cfg : Config) (fullparse : Bool) (g : Graph Name) : Bool :=
  fullparse && (hasCycle g.edges || hasCycle (fileEdges A cfg.imports g))

/-- `Scheduler.__init__`: `_discover` (populate), and with `full_parse` `_parse_items` (topological sort of the
file graph, full parse, populate again — the same abstraction, hence the same graph) -/
def schedule (A : Abs) (cfg : Config) (seeds : List Name) (fullparse : Bool) : Except Err (Graph Name) :=
  match populate A cfg seeds with
  | .error e => .error e
  | .ok g => if KnownFileGraphCycle A cfg fullparse g then .error .unfeasible else .ok g

/-! ## discovery: the file-item cache -/

/-- `_discover`: one `FileItem` per path, cached under `str(path).lower()`; a path whose lower-cased form is
already a key returns the cached item and its file is never read.  Returns (key, definitions) pairs. -/
def discover : List (Name × List Name) → List (Name × List Name) → List (Name × List Name)
  | cache, [] => cache
  | cache, (path, defs) :: rest =>
    if cache.any (fun e => e.1 = lower path) then discover cache rest
    else discover (cache ++ [(lower path, defs)]) rest

/-- the known-finding class `file-case-collision`: two paths equal up to case -/
def KnownCaseCollision : List Name → Bool
  | [] => false
  | p :: ps => ps.any (fun q => lower q = lower p) || KnownCaseCollision ps

end LokiModel.C21
