import LokiModel.C21.Model
/-!
# C23 — model additions for "batch processing does not depend on the letter case of names"

Built on the C21 model of the scheduler graph (`LokiModel.C21`).  Added here:

* re-casing: `Recasing` (a name map that preserves the lower-cased name), applied to configurations, seeds and
  project abstractions; `foldAbs` = the lower-casing points of `ItemFactory.create_from_ir` /
  `get_or_create_item` / `FileItem.create_definition_items` (every stored item name is `.lower()`-ed);
* processing order: `nx.topological_sort` as used by `SFilter` (`topoOrder`), restricted to procedure items;
* item identity: `Item.__eq__` (compares lower-cased names), `Item.__hash__` (hash of the name *as stored*),
  Python `set` insertion / membership on top of an arbitrary hash function;
* `DuplicateKernel._get_new_item_name` and `ItemFactory.get_or_create_item_from_item` on an abstract cache
  (case-insensitive lookups in the cache and in `definition_items`).
-/
namespace LokiModel.C23
open LokiModel.C21

/-! ## re-casing -/

/-- a re-casing of names: any map that keeps the lower-cased name -/
structure Recasing where
  f : Name → Name
  keeps : ∀ n, lower (f n) = lower n

def recaseOver (π : Recasing) (o : Over) : Over :=
  { key := π.f o.key, expand := o.expand, disable := o.disable.map (·.map π.f),
    block := o.block.map (·.map π.f), ignore := o.ignore.map (·.map π.f) }

def recaseCfg (π : Recasing) (c : Config) : Config :=
  { expand := c.expand, strict := c.strict, imports := c.imports, disable := c.disable.map π.f,
    block := c.block.map π.f, ignore := c.ignore.map π.f, routines := c.routines.map (recaseOver π) }

def mapNode (f : Name → Name) : DepNode → DepNode
  | .one n => .one (f n)
  | .ext n => .ext (f n)
  | .uq fr fex cs => .uq (f fr) fex (cs.map f)
  | .imp scope syms => .imp (f scope) (syms.map (fun s => (f s.1, s.2)))
  | .unsupported => .unsupported

def mapItem (f : Name → Name) (it : AItem) : AItem :=
  { name := f it.name, kind := it.kind, file := it.file, deps := it.deps.map (mapNode f) }

/-- apply a name map to every name of an abstraction (file names and kinds are left alone) -/
def mapAbs (f : Name → Name) (A : Abs) : Abs :=
  { free := A.free.map f, modules := A.modules.map (fun m => (f m.1, m.2.map (fun x => (f x.1, x.2)))),
    items := A.items.map (mapItem f) }

/-- the source-level re-casing of a project, seen at the level of the abstraction -/
def recaseAbs (π : Recasing) (A : Abs) : Abs := mapAbs π.f A

/-- the lower-casing points of the item factory: every name stored in the cache is lower-cased -/
def foldAbs (A : Abs) : Abs := mapAbs lower A

def normGraph (g : Graph Name) : Graph Name :=
  ⟨g.nodes.map lower, g.edges.map (fun e => (lower e.1, lower e.2))⟩

def normResult : Except Err (Graph Name) → Except Err (Graph Name)
  | .ok g => .ok (normGraph g)
  | .error e => .error e

/-! ## processing order (`SFilter` = `nx.topological_sort`) -/

def succsOf (es : List (Name × Name)) (a : Name) : List Name :=
  (es.filter (fun e => e.1 = a)).map (fun e => e.2)

def indegree (es : List (Name × Name)) (a : Name) : Nat := (es.filter (fun e => e.2 = a)).length

def decr (m : List (Name × Nat)) (c : Name) : List (Name × Nat) :=
  m.map (fun p => if p.1 = c then (p.1, p.2 - 1) else p)

def lookupDeg (m : List (Name × Nat)) (c : Name) : Nat :=
  match m.find? (fun p => p.1 = c) with
  | some p => p.2
  | none => 0

/-- one generation of `nx.topological_generations`: for every node of the generation, in order, decrement the
in-degree of its successors (adjacency order) and collect those that reach zero -/
def genStep (es : List (Name × Name)) (gen : List Name) (m : List (Name × Nat)) : List (Name × Nat) × List Name :=
  gen.foldl (fun st node =>
    (succsOf es node).foldl (fun st c =>
      let m' := decr st.1 c
      if lookupDeg st.1 c = 1 then (m', st.2 ++ [c]) else (m', st.2)) st) (m, [])

def topoLoop (es : List (Name × Name)) : Nat → List Name → List (Name × Nat) → List Name → List Name × List (Name × Nat)
  | 0, _, m, out => (out, m)
  | _, [], m, out => (out, m)
  | fuel + 1, gen, m, out =>
    let r := genStep es gen m
    topoLoop es fuel r.2 r.1 (out ++ gen)

/-- `list(nx.topological_sort(G))`; `none` = `NetworkXUnfeasible` (a cycle is left) -/
def topoOrder (g : Graph Name) : Option (List Name) :=
  let m := g.nodes.map (fun n => (n, indegree g.edges n))
  let zero := g.nodes.filter (fun n => indegree g.edges n = 0)
  let r := topoLoop g.edges (g.nodes.length + 1) zero m []
  if r.2.any (fun p => p.2 ≠ 0) then none else some r.1

/-- items a default `Transformation` (item_filter = ProcedureItem) is applied to, in order -/
def procOrder (A : Abs) (g : Graph Name) : Option (List Name) :=
  (topoOrder g).map (fun o => o.filter (fun n => kindOf A n = "proc".toList))

/-! ## item identity -/

/-- `Item.__eq__`: names compared lower-cased -/
def itemEq (a b : Name) : Bool := lower a = lower b

/-- `Item.__hash__`: `hash(self.name)` (`folds = false`, the current code) or `hash(self.name.lower())` -/
def itemHash (folds : Bool) (h : Name → Nat) (a : Name) : Nat := if folds then h (lower a) else h a

/-- Python `x in s` for a set/dict `s` (as a list of stored keys): some stored key with the same hash that compares equal.
`Item.__hash__` is `hash(self.name)`: the hash `h` is applied to the name as stored. -/
def pyMem (h : Name → Nat) (s : List Name) (x : Name) : Bool := s.any (fun y => h y = h x && itemEq y x)

def pyAdd (h : Name → Nat) (s : List Name) (x : Name) : List Name := if pyMem h s x then s else s ++ [x]

def pySet (h : Name → Nat) (xs : List Name) : List Name := xs.foldl (pyAdd h) []

/-- membership in a list / tuple uses `==` only -/
def listMem (s : List Name) (x : Name) : Bool := s.any (fun y => itemEq y x)

/-! ## `DuplicateKernel` item names and `get_or_create_item_from_item` -/

/-- `DuplicateKernel._get_new_item_name`: (scope_name, local_name, new_item_name); `module_suffix = duplicate_module_suffix or duplicate_suffix` -/
def newItemName (scope loc suffix msuffix : Name) : Name × Name × Name :=
  let ms := if msuffix.isEmpty then suffix else msuffix
  let scope' := if scope.isEmpty then [] else scope ++ ms
  let loc' := loc ++ suffix
  (scope', loc', qual scope' loc')

/-- lookup in `item_cache` (a `CaseInsensitiveDict`) -/
def cacheHas (cache : List Name) (n : Name) : Bool := (cache.map lower).contains (lower n)

inductive CloneRes where
  | ok (newKeys : List Name)
  | failed            -- RuntimeError('Failed to clone item …')
deriving DecidableEq, Repr

/-- `_get_or_create_or_rename_item` for a kernel `scope#loc` whose duplicate does not exist yet, followed by
`ItemFactory.get_or_create_item_from_item(new_item_name, item)`: the cloned source's definition items get
lower-cased names and go into a `CaseInsensitiveDict` (since the `fix:` commit for duplicate-suffix-case; a plain
dict before, see `Findings/C23.lean`) that is then queried with `new_item_name`: the query is lower-cased, the
stored keys are the already lower-cased definition names. -/
def cloneItem (cache : List Name) (scope loc suffix msuffix : Name) : CloneRes :=
  let r := newItemName scope loc suffix msuffix
  let scope' := r.1
  let name := r.2.2
  if cacheHas cache name then .ok []
  else
    -- new file item; definition items of the cloned file (top-level units only), names lower-cased
    let defs := if scope'.isEmpty then [lower name] else [lower scope']
    if defs.contains (lower name) then .ok defs          -- `if name in definition_items`
    else if !scope'.isEmpty then .ok (defs ++ [lower name])   -- scope item exists now: `create_from_ir(scope[local_name], …)`
    else .failed

/-- `SGraph.successors` on the sub-graph handed to a transformation (procedure, binding and interface items;
bindings and interfaces are followed) -/
def chase (A : Abs) (es : List (Name × Name)) : Nat → Name → List Name
  | 0, _ => []
  | fuel + 1, a =>
    (succsOf es a).flatMap (fun c =>
      let k := kindOf A c
      if k = "proc".toList then [c]
      else if k = "binding".toList ∨ k = "interface".toList then c :: chase A es fuel c
      else [])

def localName (n : Name) : Name := (splitFirst '#' n).2

def scopeName (n : Name) : Name := (splitFirst '#' n).1

/-- outcome of `Scheduler.process(DuplicateKernel([kernel], suffix, msuffix), PLAN)` on graph `g`: the new item names, or the error -/
def dupOutcome (A : Abs) (g : Graph Name) (kernel suffix msuffix : Name) : CloneRes :=
  let procs := g.nodes.filter (fun n => kindOf A n = "proc".toList)
  let hits := procs.flatMap (fun a => (chase A g.edges (g.nodes.length + 1) a).filter (fun c => localName c = lower kernel))
  match hits with
  | [] => .ok []
  | c :: _ =>
    cloneItem (A.items.map (fun it => it.name) ++ A.modules.map (fun m => m.1)) (scopeName c) (localName c) suffix msuffix


/-! ## `SchedulerConfig.create_frontend_args`: per-file frontend options keyed by (patterns of) paths -/

/-- `pattern = key.lower() if key[0] == '/' else f'*{key}'.lower()` (keys are non-empty) -/
def faPattern (key : Name) : Name := if key.head? = some '/' then lower key else lower ('*' :: key)

/-- `fnmatch.fnmatch(str(path).lower(), pattern)` -/
def faMatch (path key : Name) : Bool := glob (faPattern key) (lower path)

/-- the options of the first entry whose key matches (`return` inside the loop), `none` = the defaults -/
def faLookup {α : Type} (path : Name) : List (Name × α) → Option α
  | [] => none
  | (k, v) :: rest => if faMatch path k then some v else faLookup path rest

/-- a call statement, possibly inside `#ifdef D` / `#ifndef D` … `#endif` -/
inductive GCall where
  | plain (callee : Name)
  | ifdef (d : Name) (callee : Name)
  | ifndef (d : Name) (callee : Name)

/-- the calls the frontend sees: without a matching entry the file is not preprocessed and every call is seen;
with `preprocess=True, defines=ds` the C preprocessor decides -/
def activeCalls (opts : Option (List Name)) (cs : List GCall) : List Name :=
  cs.filterMap (fun c =>
    match c, opts with
    | .plain n, _ => some n
    | .ifdef _ n, none => some n
    | .ifndef _ n, none => some n
    | .ifdef d n, some ds => if ds.contains d then some n else none
    | .ifndef d n, some ds => if ds.contains d then none else some n)

/-- project of free routines, one per file, as the item factory sees it under the given `frontend_args` -/
def faAbs (dir : Name) (routines : List (Name × Name × List GCall)) (entries : List (Name × List Name)) : Abs :=
  -- routine and callee names pass the factory's lower-casing points
  { free := routines.map (fun r => lower r.1), modules := [],
    items := routines.map (fun r =>
      { name := '#' :: lower r.1, kind := "proc".toList, file := lower r.2.1,
        deps := (activeCalls (faLookup (dir ++ '/' :: r.2.1) entries) r.2.2).map (fun n => DepNode.one ('#' :: lower n)) }) }

end LokiModel.C23
