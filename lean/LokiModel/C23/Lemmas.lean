import LokiModel.C23.Model
/-!
# C23 — lemmas: everything the graph construction reads from the configuration goes through `match_item_keys`,
which lower-cases both sides; hence lower-equal configurations give *equal* (not just similar) results.
-/
namespace LokiModel.C23
open LokiModel.C21

/-- key lists equal after lower-casing -/
def LE (a b : List Name) : Prop := a.map lower = b.map lower

def OLE (a b : Option (List Name)) : Prop := a.map (fun l => l.map lower) = b.map (fun l => l.map lower)

structure OverEquiv (o o' : Over) : Prop where
  key : lower o.key = lower o'.key
  expand : o.expand = o'.expand
  disable : OLE o.disable o'.disable
  block : OLE o.block o'.block
  ignore : OLE o.ignore o'.ignore

/-- pointwise `OverEquiv` of two `routines` lists -/
inductive OversEquiv : List Over → List Over → Prop
  | nil : OversEquiv [] []
  | cons {o o' : Over} {rs rs' : List Over} : OverEquiv o o' → OversEquiv rs rs' → OversEquiv (o :: rs) (o' :: rs')

structure CfgEquiv (c c' : Config) : Prop where
  expand : c.expand = c'.expand
  strict : c.strict = c'.strict
  imports : c.imports = c'.imports
  disable : LE c.disable c'.disable
  block : LE c.block c'.block
  ignore : LE c.ignore c'.ignore
  routines : OversEquiv c.routines c'.routines

structure ICEquiv (i i' : ItemConf) : Prop where
  expand : i.expand = i'.expand
  disable : LE i.disable i'.disable
  block : LE i.block i'.block
  ignore : LE i.ignore i'.ignore

theorem matchItemKeys_LE {ks ks' : List Name} (h : LE ks ks') (n : Name) (p q : Bool) :
    matchItemKeys n ks p q = matchItemKeys n ks' p q := by
  unfold matchItemKeys
  unfold LE at h
  rw [h]

theorem matchesAny_LE {ks ks' : List Name} (h : LE ks ks') (n : Name) (p q : Bool) :
    matchesAny n ks p q = matchesAny n ks' p q := by
  unfold matchesAny
  rw [matchItemKeys_LE h]

theorem LE_append {a a' b b' : List Name} (h1 : LE a a') (h2 : LE b b') : LE (a ++ b) (a' ++ b') := by
  unfold LE at *
  simp [List.map_append, h1, h2]

theorem LE_isEmpty {a a' : List Name} (h : LE a a') : a.isEmpty = a'.isEmpty := by
  unfold LE at h
  cases a <;> cases a' <;> simp_all

theorem getD_OLE {o o' : Option (List Name)} {d d' : List Name} (h : OLE o o') (hd : LE d d') :
    LE (o.getD d) (o'.getD d') := by
  unfold OLE at h
  cases o <;> cases o' <;> simp_all [LE]

theorem applyOver_equiv {c c' : ItemConf} {o o' : Over} (hc : ICEquiv c c') (ho : OverEquiv o o') :
    ICEquiv (applyOver c o) (applyOver c' o') where
  expand := by simp [applyOver, ho.expand, hc.expand]
  disable := getD_OLE ho.disable hc.disable
  block := getD_OLE ho.block hc.block
  ignore := getD_OLE ho.ignore hc.ignore

theorem foldl_itemConf_equiv (name : Name) : ∀ {rs rs' : List Over}, OversEquiv rs rs' →
    ∀ {c c' : ItemConf}, ICEquiv c c' →
    ICEquiv (rs.foldl (fun c o => if matchesAny name [o.key] false false then applyOver c o else c) c)
      (rs'.foldl (fun c o => if matchesAny name [o.key] false false then applyOver c o else c) c')
  | [], [], _, _, _, hc => hc
  | o :: rs, o' :: rs', h, c, c', hc => by
    cases h with
    | cons ho hrs =>
      simp only [List.foldl_cons]
      have hk : matchesAny name [o.key] false false = matchesAny name [o'.key] false false :=
        matchesAny_LE (by simp [LE, ho.key]) name false false
      rw [hk]
      by_cases hm : matchesAny name [o'.key] false false = true
      · simp only [hm, if_true]
        exact foldl_itemConf_equiv name hrs (applyOver_equiv hc ho)
      · simp only [hm]
        exact foldl_itemConf_equiv name hrs hc

theorem itemConf_equiv {cfg cfg' : Config} (h : CfgEquiv cfg cfg') (name : Name) :
    ICEquiv (itemConf cfg name) (itemConf cfg' name) := by
  unfold itemConf
  exact foldl_itemConf_equiv name h.routines ⟨h.expand, h.disable, h.block, h.ignore⟩

theorem gIgnored_equiv {cfg cfg' : Config} (h : CfgEquiv cfg cfg') (n : Name) : gIgnored cfg n = gIgnored cfg' n :=
  matchesAny_LE h.disable n true true

theorem ignored_equiv {cfg cfg' : Config} {ic ic' : ItemConf} (h : CfgEquiv cfg cfg') (hi : ICEquiv ic ic') (n : Name) :
    ignored cfg ic n = ignored cfg' ic' n :=
  matchesAny_LE (LE_append h.disable (LE_append hi.disable hi.block)) n true true

theorem nodeItems_equiv {cfg cfg' : Config} {ic ic' : ItemConf} (h : CfgEquiv cfg cfg') (hi : ICEquiv ic ic')
    (d : DepNode) : nodeItems cfg ic d = nodeItems cfg' ic' d := by
  have hig : ∀ n, ignored cfg ic n = ignored cfg' ic' n := ignored_equiv h hi
  have hg : ∀ n, gIgnored cfg n = gIgnored cfg' n := gIgnored_equiv h
  cases d <;> simp only [nodeItems, freePath, hig, hg, h.strict]

theorem nodesItems_equiv {cfg cfg' : Config} {ic ic' : ItemConf} (h : CfgEquiv cfg cfg') (hi : ICEquiv ic ic') :
    ∀ ds : List DepNode, nodesItems cfg ic ds = nodesItems cfg' ic' ds
  | [] => rfl
  | d :: ds => by simp only [nodesItems, nodeItems_equiv h hi d, nodesItems_equiv h hi ds]

theorem children_equiv {cfg cfg' : Config} (h : CfgEquiv cfg cfg') (A : Abs) (a : Name) :
    children A cfg a = children A cfg' a := by
  have hi := itemConf_equiv h a
  have hpd : ∀ n, plainMatch n (itemConf cfg a).disable = plainMatch n (itemConf cfg' a).disable :=
    fun n => matchesAny_LE hi.disable n false false
  have hpb : ∀ n, plainMatch n (itemConf cfg a).block = plainMatch n (itemConf cfg' a).block :=
    fun n => matchesAny_LE hi.block n false false
  simp only [children, hi.expand, nodesItems_equiv h hi, LE_isEmpty hi.disable, hpd, hpb]

theorem createItem_equiv {cfg cfg' : Config} (h : CfgEquiv cfg cfg') (A : Abs) (n : Name) :
    createItem A cfg n = createItem A cfg' n := by
  have hg : ∀ n, gIgnored cfg n = gIgnored cfg' n := gIgnored_equiv h
  simp only [createItem, hg]

theorem seedItems_equiv {cfg cfg' : Config} (h : CfgEquiv cfg cfg') (A : Abs) {seeds seeds' : List Name}
    (hs : LE seeds seeds') : seedItems A cfg seeds = seedItems A cfg' seeds' := by
  unfold seedItems
  have : ∀ (c : Config) (l : List Name), l.flatMap (fun s => createItem A c (seedName A (lower s))) =
      (l.map lower).flatMap (fun s => createItem A c (seedName A s)) := by
    intro c l; rw [List.flatMap_map]
  rw [this cfg seeds, this cfg' seeds', hs]
  simp only [createItem_equiv h]

theorem populate_equiv {cfg cfg' : Config} (h : CfgEquiv cfg cfg') (A : Abs) {seeds seeds' : List Name}
    (hs : LE seeds seeds') : populate A cfg seeds = populate A cfg' seeds' := by
  unfold populate
  have hc : children A cfg = children A cfg' := funext (children_equiv h A)
  rw [seedItems_equiv h A hs, hc]

theorem schedule_equiv {cfg cfg' : Config} (h : CfgEquiv cfg cfg') (A : Abs) {seeds seeds' : List Name}
    (hs : LE seeds seeds') (fp : Bool) : schedule A cfg seeds fp = schedule A cfg' seeds' fp := by
  unfold schedule KnownFileGraphCycle
  rw [populate_equiv h A hs, h.imports]

/-! ## re-casings produce lower-equal data -/

theorem LE_recase (π : Recasing) (l : List Name) : LE (l.map π.f) l := by
  unfold LE
  rw [List.map_map]
  congr 1
  funext n
  exact π.keeps n

theorem OLE_recase (π : Recasing) (o : Option (List Name)) : OLE (o.map (fun l => l.map π.f)) o := by
  cases o with
  | none => rfl
  | some l => simp only [OLE, Option.map_some]; congr 1; exact LE_recase π l

theorem recaseCfg_equiv (π : Recasing) (c : Config) : CfgEquiv (recaseCfg π c) c where
  expand := rfl
  strict := rfl
  imports := rfl
  disable := LE_recase π _
  block := LE_recase π _
  ignore := LE_recase π _
  routines := by
    simp only [recaseCfg]
    induction c.routines with
    | nil => exact OversEquiv.nil
    | cons o rs ih =>
      exact OversEquiv.cons ⟨π.keeps _, rfl, OLE_recase π _, OLE_recase π _, OLE_recase π _⟩ ih

theorem mapNode_comp (f g : Name → Name) (d : DepNode) : mapNode f (mapNode g d) = mapNode (f ∘ g) d := by
  cases d <;> simp [mapNode, List.map_map, Function.comp_def]

theorem mapAbs_comp (f g : Name → Name) (A : Abs) : mapAbs f (mapAbs g A) = mapAbs (f ∘ g) A := by
  have h1 : (A.free.map g).map f = A.free.map (f ∘ g) := by rw [List.map_map]
  have h2 : ((A.modules.map (fun m => (g m.1, m.2.map (fun x => (g x.1, x.2))))).map
      (fun m => (f m.1, m.2.map (fun x => (f x.1, x.2))))) =
      A.modules.map (fun m => ((f ∘ g) m.1, m.2.map (fun x => ((f ∘ g) x.1, x.2)))) := by
    rw [List.map_map]
    congr 1
    funext m
    simp [List.map_map, Function.comp_def]
  have h3 : (A.items.map (mapItem g)).map (mapItem f) = A.items.map (mapItem (f ∘ g)) := by
    rw [List.map_map]
    congr 1
    funext it
    simp [mapItem, List.map_map, Function.comp_def, mapNode_comp]
  simp only [mapAbs, h1, h2, h3]

theorem foldAbs_recase (π : Recasing) (A : Abs) : foldAbs (recaseAbs π A) = foldAbs A := by
  unfold foldAbs recaseAbs
  rw [mapAbs_comp]
  congr 1
  funext n
  exact π.keeps n

end LokiModel.C23
