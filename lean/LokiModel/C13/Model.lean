/-!
# C13 model: symbol classification and type sharing by scope
(`loki/expression/symbols.py`: `TypedSymbol`, `Variable.__new__`, `_get_type_from_scope`,
`_lookup_type`, `_lookup_parent`, `variables`/`variable_map`, `clone`, `rescope`, `Array.clone`,
`Array.rescope`; `loki/types/symbol_table.py`: `SymbolTable.lookup/__setitem__/__contains__`;
`loki/types/scope.py`: `Scope.get_symbol_scope`).

Python mutation is state passing: every function that can write to a scope's symbol table returns
the new `Scopes`.  *Getters write*: `TypedSymbol.variables` clones every member of the parent's
type definition into the parent's scope, `_lookup_parent` / `_get_type_from_scope` construct the
root symbol in the given scope; these writes are modelled (`memberWrites`, `constructTop`).

Names are `List Char` (kernel-reducible, so that witnesses are checked by `decide`); `lower` is
ASCII lower-casing (`str.lower()` on ASCII names); the cut at `(` done by
`SymbolTable.format_lookup_name` is not modelled (names contain no `(`).  Qualified names are lists
of parts (the model of `name.split('%')`); the model covers parts lists of length 1 and 2 and parents
that have no parent themselves (`a`, `a%b`); deeper nesting is answered `unsupported`.

`BasicType.DEFERRED` is the integer 0 and therefore falsy: `Dtype.truthy`.  `SymbolAttributes`
objects are always truthy, empty tuples are falsy (`Ty.shapeTruthy`).
Core Lean only.
-/
namespace LokiModel.C13

abbrev Name := List Char

def lower (n : Name) : Name := n.map Char.toLower

/-- `'%'.join(parts)` -/
def joinParts : List Name → Name
  | [] => []
  | [p] => p
  | p :: q :: r => p ++ '%' :: joinParts (q :: r)

/-- `f'{a}%{b}'` -/
def qual (a b : Name) : Name := a ++ '%' :: b

/-- the key a `SymbolTable` files a name under (`format_lookup_name`, case-insensitive table) -/
def key (n : Name) : Name := lower n

/-! ## types -/

inductive Dtype where
  | deferred | logical | integer | real
  /-- `DerivedType`; `tdef = some i` when the i-th type definition of the environment is linked -/
  | derived (name : Name) (tdef : Option Nat)
  | proc (name : Name)
deriving DecidableEq, Repr

/-- a `SymbolAttributes` object: dtype, `shape` attribute (absent / tuple of that length), and one further
opaque attribute `tag` (0 = absent) standing for kind/intent/… -/
structure Ty where
  dtype : Dtype
  shape : Option Nat := none
  tag : Nat := 0
deriving DecidableEq, Repr

/-- `bool(dtype)`: `BasicType` is an `int` enum with `DEFERRED = 0`; the other data types are plain objects -/
def Dtype.truthy : Dtype → Bool
  | .deferred => false
  | _ => true

/-- `SymbolAttributes(BasicType.DEFERRED)` -/
def deferredTy : Ty := { dtype := .deferred }

/-- `_type and _type.dtype` -/
def cleanOpt : Option Ty → Bool
  | none => false
  | some t => t.dtype.truthy

/-- `_type and _type.shape` (an absent attribute reads `None`, an empty tuple is falsy) -/
def shapeTruthy : Option Ty → Bool
  | some { shape := some (_ + 1), .. } => true
  | _ => false

/-- `_type and isinstance(_type.dtype, ProcedureType)` -/
def isProc : Option Ty → Bool
  | some { dtype := .proc _, .. } => true
  | _ => false

/-- `_type and isinstance(_type.dtype, DerivedType) and name.lower() == _type.dtype.name.lower()` -/
def isDerivedNamed (ty : Option Ty) (name : Name) : Bool :=
  match ty with
  | some { dtype := .derived n _, .. } => lower name == lower n
  | _ => false

inductive SymClass where
  | procedureSymbol | derivedTypeSymbol | array | scalar | deferredTypeSymbol
deriving DecidableEq, Repr

/-- the tier chain of `Variable.__new__` (l.852–868).  `dims = none` covers both "no `dimensions`
keyword" and `dimensions=None` (popped at l.860); `some n` is a tuple of length `n` (`some 0` = `()`, which is *not*
popped: Loki's own transformations rely on `clone(dimensions=())` yielding an `Array`, see notes/C13.md). -/
def classify (ty : Option Ty) (name : Name) (dims : Option Nat) : SymClass :=
  if isProc ty then .procedureSymbol
  else if isDerivedNamed ty name then .derivedTypeSymbol
  else if dims.isSome || shapeTruthy ty then .array
  else if cleanOpt ty then .scalar
  else .deferredTypeSymbol

/-- the classification the property statement asks for: subscripts are *given* when the tuple is non-empty -/
def refClass (ty : Option Ty) (name : Name) (dims : Option Nat) : SymClass :=
  if isProc ty then .procedureSymbol
  else if isDerivedNamed ty name then .derivedTypeSymbol
  else if (match dims with | some (_ + 1) => true | _ => false) || shapeTruthy ty then .array
  else if cleanOpt ty then .scalar
  else .deferredTypeSymbol

/-- known-finding class `empty-dimensions-array`: `dimensions=()` and nothing else makes the symbol an array -/
def KnownEmptyDims (ty : Option Ty) (name : Name) (dims : Option Nat) : Bool :=
  dims == some 0 && !isProc ty && !isDerivedNamed ty name && !shapeTruthy ty

/-! ## scopes and symbol tables -/

structure ScopeRec where
  parent : Option Nat
  table : List (Name × Ty) := []
deriving DecidableEq, Repr

abbrev Scopes := List ScopeRec

/-- `dict.get` -/
def tget : List (Name × Ty) → Name → Option Ty
  | [], _ => none
  | (k', v) :: r, k => if k' = k then some v else tget r k

/-- `dict.__setitem__` (an existing key keeps its position) -/
def tset : List (Name × Ty) → Name → Ty → List (Name × Ty)
  | [], k, v => [(k, v)]
  | (k', v') :: r, k, v => if k' = k then (k', v) :: r else (k', v') :: tset r k v

def updScope : Scopes → Nat → (ScopeRec → ScopeRec) → Scopes
  | [], _, _ => []
  | r :: rs, 0, f => f r :: rs
  | r :: rs, i + 1, f => r :: updScope rs i f

/-- `scope.symbol_attrs[name] = ty` with `k = key name` -/
def setLocal (ss : Scopes) (i : Nat) (k : Name) (v : Ty) : Scopes :=
  updScope ss i fun r => { r with table := tset r.table k v }

/-- `SymbolTable._lookup_formatted_name(k, recursive=True)`; fuel = number of scopes + 1 -/
def lookupFuel : Nat → Scopes → Nat → Name → Option Ty
  | 0, _, _, _ => none
  | f + 1, ss, i, k =>
    match ss[i]? with
    | none => none
    | some r =>
      match tget r.table k with
      | some t => some t
      | none =>
        match r.parent with
        | none => none
        | some p => lookupFuel f ss p k

def lookup (ss : Scopes) (i : Nat) (k : Name) : Option Ty := lookupFuel (ss.length + 1) ss i k

/-- `Scope.get_symbol_scope`: the scope of the chain whose own table has the name -/
def resolveFuel : Nat → Scopes → Nat → Name → Option Nat
  | 0, _, _, _ => none
  | f + 1, ss, i, k =>
    match ss[i]? with
    | none => none
    | some r =>
      match tget r.table k with
      | some _ => some i
      | none =>
        match r.parent with
        | none => none
        | some p => resolveFuel f ss p k

def resolve (ss : Scopes) (i : Nat) (k : Name) : Option Nat := resolveFuel (ss.length + 1) ss i k

/-- `name in scope.symbol_attrs` / `scope.symbol_attrs[name]` (own table only) -/
def localGet (ss : Scopes) (i : Nat) (k : Name) : Option Ty :=
  match ss[i]? with
  | none => none
  | some r => tget r.table k

/-! ## symbols -/

/-- one `TypedSymbol` object without its parent link -/
structure Link where
  cls : SymClass
  base : Name            -- `_name`
  scope : Option Nat     -- `_scope`
  ty : Option Ty         -- `_type` (only ever set on unattached symbols)
  dims : Nat := 0        -- length of `Array.dimensions` (0 for every other class)
deriving DecidableEq, Repr

/-- a symbol with at most one level of parent -/
structure Sym where
  self : Link
  parent : Option Link := none
deriving DecidableEq, Repr

/-- `TypedSymbol.name` -/
def Sym.name (s : Sym) : Name :=
  match s.parent with
  | none => s.self.base
  | some p => qual p.base s.self.base

/-- `name_parts` -/
def Sym.parts (s : Sym) : List Name :=
  match s.parent with
  | none => [s.self.base]
  | some p => [p.base, s.self.base]

/-- type definitions: name and member declarations `(name, v.type)` in declaration order (static) -/
abbrev TDefs := List (Name × List (Name × Ty))

/-- result of an evaluation that the real code could abort with `RecursionError` before the `fix:` commit for
`deferred-member-recursion`; `recursion` is no longer produced (`C13_no_recursion`) -/
inductive Res (α : Type) where
  | ok (a : α)
  | recursion
deriving DecidableEq, Repr

/-- `.type` of a symbol that has no parent (`_lookup_type` returns the table entry whatever it is) -/
def typeOfTop (ss : Scopes) (p : Link) : Option Ty :=
  match p.scope with
  | none => p.ty
  | some sc => lookup ss sc (key p.base)

/-- the writes done by `variables`: each member is cloned with `scope=self.scope, type=v.type, parent=self`,
and constructing an attached symbol with a type stores that type under its name -/
def memberWrites (ss : Scopes) (p : Link) (ms : List (Name × Ty)) : Scopes :=
  match p.scope with
  | none => ss
  | some ps => ms.foldl (fun acc m => setLocal acc ps (key (qual p.base m.1)) m.2) ss

/-- `TypedSymbol.variables` of a parentless symbol: new scopes and the member list
(`none` = Python `None`, i.e. not of derived type) -/
def variables (tds : TDefs) (ss : Scopes) (p : Link) : Scopes × Option (List (Name × Ty)) :=
  match typeOfTop ss p with
  | none => (ss, none)
  | some t =>
    match t.dtype with
    | .derived _ (some i) =>
      match tds[i]? with
      | some td => (memberWrites ss p td.2, some td.2)
      | none => (ss, some [])
    | .derived _ none => (ss, some [])
    | _ => (ss, none)

/-- `variable_map.get(basename)` on the member list (a `CaseInsensitiveDict`: later duplicates win) -/
def findMember (ms : Option (List (Name × Ty))) (b : Name) : Option (Name × Ty) :=
  match ms with
  | none => none
  | some l => l.reverse.find? fun m => lower m.1 == lower b

/-- the type of the clone of member `m` held by `p`, as the two callers obtain it.  Unattached holder: the clone
keeps the member type locally (`tdef_var.type`).  Attached holder: `_lookup_type` (since the `fix:` commit for
`deferred-member-recursion`) reads the entry just written straight from the holder's scope; `_get_type_from_scope`
still calls `tdef_var.type`, which is that entry when it is clean and otherwise goes once more through
`p.variable_map` (the same writes again, no change of state) and then reads the entry.  Either way the result is
the entry, and never a `RecursionError` (`Res.recursion` is kept in the result type but no longer produced). -/
def tdefVarType (ss : Scopes) (p : Link) (m : Name × Ty) : Res (Option Ty) :=
  match p.scope with
  | none => .ok (some m.2)
  | some ps => .ok (lookup ss ps (key (qual p.base m.1)))

/-- construction of `Variable(name=b, scope=sc, type=pt)` for a plain name, as done by `_lookup_parent`
and `_get_type_from_scope`: the entry `b` of `sc` is (over)written with `pt`, or with DEFERRED if there is none -/
def constructTop (ss : Scopes) (b : Name) (sc : Nat) (pt : Option Ty) : Scopes × Link :=
  (setLocal ss sc (key b) (pt.getD deferredTy),
   { cls := classify pt b none, base := b, scope := some sc, ty := none })

/-- member lookup through holder `p`, shared tail of `_lookup_type` and `_get_type_from_scope` -/
def viaHolder (tds : TDefs) (ss : Scopes) (p : Link) (b : Name) (dflt : Option Ty) : Scopes × Res (Option Ty) :=
  let r := variables tds ss p
  match findMember r.2 b with
  | some m => (r.1, tdefVarType r.1 p m)
  | none => (r.1, .ok dflt)

/-- `TypedSymbol._lookup_type(scope)` (l.135–162) -/
def lookupType (tds : TDefs) (ss : Scopes) (s : Sym) (sc : Nat) : Scopes × Res (Option Ty) :=
  let t := lookup ss sc (key s.name)
  if cleanOpt t then (ss, .ok t) else
  match s.parent with
  | none => (ss, .ok t)
  | some p =>
    let r := variables tds ss p
    match findMember r.2 s.self.base with
    | some m => (r.1, tdefVarType r.1 p m)
    | none =>
      if p.scope != some sc then
        -- `_lookup_parent(scope)`: the root is rebuilt in `scope`
        let c := constructTop r.1 p.base sc (lookup r.1 sc (key p.base))
        viaHolder tds c.1 c.2 s.self.base t
      else (r.1, .ok t)

/-- `TypedSymbol.type` (getter) -/
def typeOf (tds : TDefs) (ss : Scopes) (s : Sym) : Scopes × Res (Option Ty) :=
  match s.self.scope with
  | none => (ss, .ok s.self.ty)
  | some sc => lookupType tds ss s sc

/-- `Variable._get_type_from_scope(name, scope, parent)` for `name.split('%') = parts` (length 1 or 2) -/
def getTypeFromScope (tds : TDefs) (ss : Scopes) (parts : List Name) (sc : Nat) (parent : Option Link) :
    Scopes × Res (Option Ty) :=
  let stored := lookup ss sc (key (joinParts parts))
  match parts with
  | [root, last] =>
    if !cleanOpt stored then
      match parent with
      | some p => viaHolder tds ss p last stored
      | none =>
        let c := constructTop ss root sc (lookup ss sc (key root))
        viaHolder tds c.1 c.2 last stored
    else (ss, .ok stored)
  | _ => (ss, .ok stored)

/-- the object the class constructor allocates (before `self.type = …`): `_name` is the last part of the name,
`Array` keeps the subscripts, every other class drops them -/
def mkSym (cls : SymClass) (parts : List Name) (sc : Option Nat) (parent : Option Link) (dims : Option Nat) : Sym :=
  { self := { cls := cls, base := parts.getLast?.getD [], scope := sc, ty := none,
              dims := if cls = .array then dims.getD 0 else 0 },
    parent := parent }

/-- the class constructors and `TypedSymbol.__init__` (`self.type = type or self.type`) -/
def construct (tds : TDefs) (ss : Scopes) (parts : List Name) (sc : Option Nat) (ty : Option Ty)
    (parent : Option Link) (dims : Option Nat) : Scopes × Res Sym :=
  let cls := classify ty (joinParts parts) dims
  -- `DeferredTypeSymbol.__init__`: a missing type becomes `SymbolAttributes(BasicType.DEFERRED)`
  let ty1 := if cls = .deferredTypeSymbol && ty.isNone then some deferredTy else ty
  let s0 := mkSym cls parts sc parent dims
  match ty1, sc with
  | some t, none => (ss, .ok { s0 with self := { s0.self with ty := some t } })
  | some t, some i => (setLocal ss i (key s0.name) t, .ok s0)
  | none, none => (ss, .ok s0)
  | none, some i =>
    -- `self.type = None or self.type`: getter, then setter
    let r := lookupType tds ss s0 i
    match r.2 with
    | .recursion => (r.1, .recursion)
    | .ok none => (setLocal r.1 i (key s0.name) deferredTy, .ok s0)
    | .ok (some t) => (setLocal r.1 i (key s0.name) t, .ok s0)

/-- `Variable(name='%'.join(parts), scope=sc, type=ty, parent=parent, dimensions=dims)` -/
def create (tds : TDefs) (ss : Scopes) (parts : List Name) (sc : Option Nat) (ty : Option Ty)
    (parent : Option Link) (dims : Option Nat) : Scopes × Res Sym :=
  match sc, ty with
  | some i, none =>
    let r := getTypeFromScope tds ss parts i parent
    match r.2 with
    | .recursion => (r.1, .recursion)
    | .ok t => construct tds r.1 parts sc t parent dims
  | _, _ => construct tds ss parts sc ty parent dims

/-- keyword overrides of `clone`: `none` = keyword absent, `some x` = keyword given with value `x` -/
structure Overrides where
  name : Option (List Name) := none
  scope : Option (Option Nat) := none
  type : Option (Option Ty) := none
  dims : Option (Option Nat) := none
deriving Repr

/-- `Array.clone` + `TypedSymbol.clone` -/
def clone (tds : TDefs) (ss : Scopes) (s : Sym) (ov : Overrides) : Scopes × Res Sym :=
  let dims' : Option Nat :=
    match ov.dims with
    | some d => d
    | none => if s.self.cls = .array && s.self.dims != 0 then some s.self.dims else none
  let parts' := ov.name.getD s.parts
  let scope' := match ov.scope with | some x => x | none => s.self.scope
  match ov.type with
  | some t => create tds ss parts' scope' t s.parent dims'
  | none =>
    -- "If no type is given, check new scope"
    match (match scope' with | some i => localGet ss i (key (joinParts parts')) | none => none) with
    | some t => create tds ss parts' scope' (some t) s.parent dims'
    | none =>
      let r := typeOf tds ss s
      match r.2 with
      | .recursion => (r.1, .recursion)
      | .ok t => create tds r.1 parts' scope' t s.parent dims'

/-- `self.dimensions or None` (`Array.rescope`, since the `fix:` commit for the rescope route of
`empty-dimensions-array`): an array without subscripts hands `dimensions=None` to `clone` -/
def dimsOrNone (n : Nat) : Option Nat := if n = 0 then none else some n

/-- `TypedSymbol.rescope` / `Array.rescope` -/
def rescope (tds : TDefs) (ss : Scopes) (s : Sym) (sc : Nat) : Scopes × Res Sym :=
  let r := typeOf tds ss s          -- `if self.type:`
  match r.2 with
  | .recursion => (r.1, .recursion)
  | .ok none =>
    if s.self.cls = .array then clone tds r.1 s { scope := some (some sc), dims := some (dimsOrNone s.self.dims) }
    else clone tds r.1 s { scope := some (some sc) }
  | .ok (some _) =>
    if s.self.cls = .array then
      match lookup r.1 sc (key s.name) with
      | some e => clone tds r.1 s { scope := some (some sc), type := some (some e), dims := some (dimsOrNone s.self.dims) }
      | none => clone tds r.1 s { scope := some (some sc), dims := some (dimsOrNone s.self.dims) }
    else
      let e := lookupType tds r.1 s sc
      match e.2 with
      | .recursion => (e.1, .recursion)
      | .ok (some x) => clone tds e.1 s { scope := some (some sc), type := some (some x) }
      | .ok none => clone tds e.1 s { scope := some (some sc) }

/-! ## histories -/

structure St where
  scopes : Scopes := []
  syms : List Sym := []
deriving Repr

inductive Op where
  | newScope (parent : Option Nat)
  | setType (sc : Nat) (name : Name) (ty : Ty)
  | create (parts : List Name) (sc : Option Nat) (ty : Option Ty) (parent : Option Nat) (dims : Option Nat)
  | typeOf (i : Nat)
  | clone (i : Nat) (ov : Overrides)
  | rescope (i : Nat) (sc : Nat)
  | resolve (sc : Nat) (name : Name)
deriving Repr

inductive Out where
  | done
  | created (i : Nat)
  | typ (t : Option Ty)
  | scope (s : Option Nat)
  | error (e : String)
deriving Repr

def scopeOk (ss : Scopes) : Option Nat → Bool
  | none => true
  | some i => i < ss.length

/-- a symbol the model can use as a parent: it has no parent itself -/
def asParent (st : St) : Option Nat → Option (Option Link)
  | none => some none
  | some j =>
    match st.syms[j]? with
    | some s => if s.parent.isNone then some (some s.self) else none
    | none => none

def finish (st : St) (r : Scopes × Res Sym) : St × Out :=
  match r.2 with
  | .ok s => ({ scopes := r.1, syms := st.syms ++ [s] }, .created st.syms.length)
  | .recursion => ({ st with scopes := r.1 }, .error "recursion")

def step (tds : TDefs) (st : St) : Op → St × Out
  | .newScope p =>
    if scopeOk st.scopes p then ({ st with scopes := st.scopes ++ [{ parent := p }] }, .done)
    else (st, .error "bad-index")
  | .setType sc n t =>
    if sc < st.scopes.length then ({ st with scopes := setLocal st.scopes sc (key n) t }, .done)
    else (st, .error "bad-index")
  | .create parts sc ty parent dims =>
    if !scopeOk st.scopes sc then (st, .error "bad-index")
    else if parts.length = 0 || parts.length > 2 then (st, .error "unsupported")
    else
      match asParent st parent with
      | none => (st, .error "unsupported")
      | some p => finish st (create tds st.scopes parts sc ty p dims)
  | .typeOf i =>
    match st.syms[i]? with
    | none => (st, .error "bad-index")
    | some s =>
      let r := typeOf tds st.scopes s
      match r.2 with
      | .ok t => ({ st with scopes := r.1 }, .typ t)
      | .recursion => ({ st with scopes := r.1 }, .error "recursion")
  | .clone i ov =>
    match st.syms[i]? with
    | none => (st, .error "bad-index")
    | some s =>
      if !(match ov.scope with | some x => scopeOk st.scopes x | none => true) then (st, .error "bad-index")
      else if (match ov.name with | some p => p.length = 0 || p.length > 2 | none => false) then (st, .error "unsupported")
      else finish st (clone tds st.scopes s ov)
  | .rescope i sc =>
    match st.syms[i]? with
    | none => (st, .error "bad-index")
    | some s =>
      if sc < st.scopes.length then finish st (rescope tds st.scopes s sc)
      else (st, .error "bad-index")
  | .resolve sc n => (st, .scope (resolve st.scopes sc (key n)))

def run (tds : TDefs) (st : St) : List Op → St
  | [] => st
  | op :: ops => run tds (step tds st op).1 ops

/-- reading `.type` of every symbol in creation order (what the harness does after each step) -/
def observe (tds : TDefs) : Scopes → List Sym → Scopes × List (Res (Option Ty))
  | ss, [] => (ss, [])
  | ss, s :: r =>
    let a := typeOf tds ss s
    let b := observe tds a.1 r
    (b.1, a.2 :: b.2)

end LokiModel.C13
