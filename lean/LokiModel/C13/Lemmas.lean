import LokiModel.C13.Model
/-!
# C13 helper lemmas: association lists, scope updates, recursive lookup
-/
namespace LokiModel.C13

theorem tget_tset_same (tb : List (Name × Ty)) (k : Name) (v : Ty) : tget (tset tb k v) k = some v := by
  induction tb with
  | nil => simp [tset, tget]
  | cons kv r ih =>
    obtain ⟨k', v'⟩ := kv
    by_cases h : k' = k
    · simp [tset, tget, h]
    · simp [tset, tget, h, ih]

theorem tget_tset_other (tb : List (Name × Ty)) (k k2 : Name) (v : Ty) (h : k2 ≠ k) :
    tget (tset tb k v) k2 = tget tb k2 := by
  induction tb with
  | nil =>
    have : ¬ k = k2 := fun e => h e.symm
    simp [tset, tget, this]
  | cons kv r ih =>
    obtain ⟨k', v'⟩ := kv
    by_cases h1 : k' = k
    · subst h1
      have : ¬ k' = k2 := fun e => h e.symm
      simp [tset, tget, this]
    · by_cases h2 : k' = k2
      · subst h2
        simp [tset, tget, h]
      · simp [tset, tget, h1, h2, ih]

theorem updScope_length (ss : Scopes) (i : Nat) (f : ScopeRec → ScopeRec) : (updScope ss i f).length = ss.length := by
  induction ss generalizing i with
  | nil => simp [updScope]
  | cons r rs ih => cases i <;> simp [updScope, ih]

theorem updScope_get_same (ss : Scopes) (i : Nat) (f : ScopeRec → ScopeRec) :
    (updScope ss i f)[i]? = (ss[i]?).map f := by
  induction ss generalizing i with
  | nil => simp [updScope]
  | cons r rs ih => cases i <;> simp [updScope, ih]

theorem updScope_get_other (ss : Scopes) (i j : Nat) (f : ScopeRec → ScopeRec) (h : j ≠ i) :
    (updScope ss i f)[j]? = ss[j]? := by
  induction ss generalizing i j with
  | nil => simp [updScope]
  | cons r rs ih =>
    cases i with
    | zero =>
      cases j with
      | zero => exact absurd rfl h
      | succ j => simp [updScope]
    | succ i =>
      cases j with
      | zero => simp [updScope]
      | succ j => simp [updScope]; exact ih i j (by omega)

theorem setLocal_length (ss : Scopes) (i : Nat) (k : Name) (v : Ty) : (setLocal ss i k v).length = ss.length :=
  updScope_length ..

/-- when the chain from `i` finds `k` first in scope `s`, the recursive lookup returns that scope's entry -/
theorem lookupFuel_of_resolveFuel (f : Nat) (ss : Scopes) (i s : Nat) (k : Name)
    (h : resolveFuel f ss i k = some s) : lookupFuel f ss i k = localGet ss s k := by
  induction f generalizing i with
  | zero => simp [resolveFuel] at h
  | succ f ih =>
    simp only [resolveFuel] at h
    simp only [lookupFuel]
    cases hr : ss[i]? with
    | none => simp [hr] at h
    | some r =>
      simp only [hr] at h ⊢
      cases ht : tget r.table k with
      | some t =>
        simp only [ht] at h ⊢
        have : i = s := by simpa using h
        subst this
        simp [localGet, hr, ht]
      | none =>
        simp only [ht] at h ⊢
        cases hp : r.parent with
        | none => simp [hp] at h
        | some p =>
          simp only [hp] at h ⊢
          exact ih p h

theorem lookup_of_resolve (ss : Scopes) (i s : Nat) (k : Name) (h : resolve ss i k = some s) :
    lookup ss i k = localGet ss s k :=
  lookupFuel_of_resolveFuel _ ss i s k h

/-- the entry just stored in scope `i` is what that scope's own table returns -/
theorem localGet_setLocal_same (ss : Scopes) (i : Nat) (k : Name) (v : Ty) (h : i < ss.length) :
    localGet (setLocal ss i k v) i k = some v := by
  unfold localGet setLocal
  rw [updScope_get_same]
  have : ss[i]? = some ss[i] := by simp [h]
  simp [this, tget_tset_same]

/-- a lookup that starts in the scope just written finds the new entry -/
theorem lookup_setLocal_same (ss : Scopes) (i : Nat) (k : Name) (v : Ty) (h : i < ss.length) :
    lookup (setLocal ss i k v) i k = some v := by
  unfold lookup
  simp only [lookupFuel]
  have hg := localGet_setLocal_same ss i k v h
  unfold localGet at hg
  cases hr : (setLocal ss i k v)[i]? with
  | none => simp [hr] at hg
  | some r =>
    simp only [hr] at hg ⊢
    simp [hg]

/-- entries under other keys of the written scope, and all entries of other scopes, are untouched -/
theorem localGet_setLocal_other (ss : Scopes) (i j : Nat) (k k2 : Name) (v : Ty) (h : j ≠ i ∨ k2 ≠ k) :
    localGet (setLocal ss i k v) j k2 = localGet ss j k2 := by
  unfold localGet setLocal
  by_cases hj : j = i
  · subst hj
    have hk : k2 ≠ k := by
      cases h with
      | inl h => exact absurd rfl h
      | inr h => exact h
    rw [updScope_get_same]
    cases hs : ss[j]? with
    | none => simp
    | some r => simp [tget_tset_other _ _ _ _ hk]
  · rw [updScope_get_other _ _ _ _ hj]

/-! ### reading a type never changes the number of scopes -/

theorem memberWrites_length (ss : Scopes) (p : Link) (ms : List (Name × Ty)) :
    (memberWrites ss p ms).length = ss.length := by
  unfold memberWrites
  cases p.scope with
  | none => rfl
  | some ps =>
    simp only
    induction ms generalizing ss with
    | nil => rfl
    | cons m r ih => simp only [List.foldl_cons]; rw [ih, setLocal_length]

theorem variables_length (tds : TDefs) (ss : Scopes) (p : Link) : (variables tds ss p).1.length = ss.length := by
  unfold variables
  repeat' split
  all_goals first | rfl | exact memberWrites_length ..

theorem viaHolder_length (tds : TDefs) (ss : Scopes) (p : Link) (b : Name) (d : Option Ty) :
    (viaHolder tds ss p b d).1.length = ss.length := by
  unfold viaHolder
  simp only
  split <;> exact variables_length ..

theorem lookupType_length (tds : TDefs) (ss : Scopes) (s : Sym) (sc : Nat) :
    (lookupType tds ss s sc).1.length = ss.length := by
  unfold lookupType
  simp only
  repeat' split
  all_goals first
    | rfl
    | exact variables_length ..
    | (rw [viaHolder_length]; simp only [constructTop]; rw [setLocal_length]; exact variables_length ..)

theorem typeOf_length (tds : TDefs) (ss : Scopes) (s : Sym) : (typeOf tds ss s).1.length = ss.length := by
  unfold typeOf
  split
  · rfl
  · exact lookupType_length ..

/-- a clean entry, or any entry for a symbol without parent, is what `_lookup_type` returns, without side effect -/
theorem lookupType_clean_or_top (tds : TDefs) (ss : Scopes) (s : Sym) (sc : Nat) (t : Ty)
    (hl : lookup ss sc (key s.name) = some t) (hc : t.dtype.truthy = true ∨ s.parent = none) :
    lookupType tds ss s sc = (ss, .ok (some t)) := by
  unfold lookupType
  simp only [hl]
  cases hc with
  | inl hc => simp [cleanOpt, hc]
  | inr hp =>
    cases ht : t.dtype.truthy
    · simp [cleanOpt, ht, hp]
    · simp [cleanOpt, ht]

theorem lookupType_top (tds : TDefs) (ss : Scopes) (s : Sym) (sc : Nat) (hp : s.parent = none) :
    lookupType tds ss s sc = (ss, .ok (lookup ss sc (key s.name))) := by
  unfold lookupType
  simp only [hp]
  split <;> rfl

theorem lookup_of_localGet (ss : Scopes) (i : Nat) (k : Name) (t : Ty) (h : localGet ss i k = some t) :
    lookup ss i k = some t := by
  unfold lookup
  simp only [lookupFuel]
  unfold localGet at h
  cases hr : ss[i]? with
  | none => simp [hr] at h
  | some r => simp only [hr] at h ⊢; simp [h]

theorem parts_getLast (s : Sym) : s.parts.getLast?.getD [] = s.self.base := by
  unfold Sym.parts
  cases s.parent <;> simp

theorem mkSym_name (cls : SymClass) (s : Sym) (sc : Option Nat) (dims : Option Nat) :
    (mkSym cls s.parts sc s.parent dims).name = s.name := by
  simp [mkSym, Sym.name, parts_getLast]

end LokiModel.C13
