import LokiModel.C36.Model
import LokiModel.C10.Lemmas
/-! Helper lemmas for C36: inversion of `bin`, Python vs Fortran operators outside the classes, range arithmetic. -/
namespace LokiModel.C36
open LokiModel.Expr LokiModel.C06

theorem bin_some {f : Val → Val → Option Val} {x y : Option Val} {v : Val} (h : bin f x y = some v) :
    ∃ a b, x = some a ∧ y = some b ∧ f a b = some v := by
  cases x with
  | none => simp [bin] at h
  | some a =>
    cases y with
    | none => simp [bin] at h
    | some b => exact ⟨a, b, rfl, rfl, by simpa [bin] using h⟩

theorem bind_some {f : Val → Option Val} {x : Option Val} {v : Val} (h : x.bind f = some v) :
    ∃ a, x = some a ∧ f a = some v := by
  cases x with
  | none => simp at h
  | some a => exact ⟨a, rfl, by simpa using h⟩

/-- outside the class, true division is Fortran division -/
theorem pyDiv_eq (a b : Val) (v : Val) (h : Val.div a b = some v)
    (hk : (isIntVal (some a) && isIntVal (some b)) = false) : pyDiv a b = some v := by
  cases a <;> cases b <;> simp [isIntVal] at hk <;>
    simp [Val.div, Val.arith] at h <;>
    (obtain ⟨w, ⟨h1, h2⟩, rfl⟩ := h; simp [pyDiv, Val.toRat?, h1, h2])

/-- outside the class, Python's power is Fortran's -/
theorem pyPow_eq (a b : Val) (v : Val) (h : Val.pow a b = some v)
    (hk : (isIntVal (some a) && isNegIntVal (some b)) = false) : pyPow a b = some v := by
  cases a <;> cases b <;> simp [Val.pow] at h
  · rename_i i j
    simp [isIntVal, isNegIntVal] at hk
    obtain ⟨w, hw, rfl⟩ := h
    have hj : 0 ≤ j := by omega
    simp [Val.ipow, hj] at hw
    simp [pyPow, hj, hw]
  · rename_i q j
    obtain ⟨w, hw, rfl⟩ := h
    simp [pyPow, hw]

end LokiModel.C36
