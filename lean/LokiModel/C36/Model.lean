import LokiModel.C06.Model
import LokiModel.C10.Model
import LokiModel.Generated.C36Tables
/-!
# C36 model: Fortran → Python transpilation, expression level and loop headers

* `printPy cfg t p` mirrors, method by method, `pymbolic.mapper.stringifier.StringifyMapper` →
  `loki.expression.mappers.LokiStringifyMapper` → `loki.backend.pygen.PyCodeMapper` for the node classes of
  `LokiModel.C06.E` (the tree type shared with the Fortran and C printer models).  Shared with the other printers:
  `map_sum` (minus detection), `map_product` (the `-1` case), `map_quotient` (denominators of a class in
  `multiplicative_primitives` are parenthesised; `PyCodeMapper` has pymbolic's default tuple), `map_constant`,
  `Parenthesised*`.  Specific: `map_logic_literal` (`True`/`False`), pymbolic's own `map_power` (`a**b`, both operands at
  `PREC_POWER`), `map_comparison`, `map_logical_not/and/or` (`not`, `and`, `or`).  Tokens are Python tokens
  (`--b` is two minus tokens in Python, so no gluing as in C).
* `evalPy env s` is CPython's value of a meaning tree `s` (`LokiModel.Expr.S`): `+ - *` and comparisons as in Fortran on
  `int`/`float` (floats are exact rationals, as everywhere in this framework), **`/` is true division** (an `int/int`
  gives a `float`), `**` with a negative integer exponent of an integer base gives a `float`, `and`/`or` short-circuit,
  `not`.  Arithmetic on `bool` operands (legal in Python) is not modelled (`none`); no well-typed Fortran tree gets there.
* `loopRange s e st` is the value sequence of the `range(…)` header `PyCodegen.visit_Loop` prints for `DO v = s, e[, st]`:
  `range(s, e + 1)` without step and `range(s, e + st, st)` with one.
Core Lean only.
-/
namespace LokiModel.C36
open LokiModel.Expr LokiModel.C06 LokiModel.C06.Tables

/-- Python tokens of the expression sub-language -/
inductive PTok where
  | num (n : Nat) | rnum (txt : String) | id (s : String) | tru | fls
  | plus | minus | star | slash | dstar | lp | rp
  | cmp (o : CmpOp) | not | and | or
deriving Repr, DecidableEq, Inhabited

open PTok

/-- printer configuration read from the current `PyCodeMapper` -/
def pycfg : Cfg := ⟨Tables.pyMpProduct, Tables.pyMpQuotient⟩

def pparen (ts : List PTok) : List PTok := [lp] ++ ts ++ [rp]
def pparenIf (b : Bool) (ts : List PTok) : List PTok := if b then pparen ts else ts

/-- one term of `map_sum` -/
def termTokP (np : Option (List PTok)) (pf : List PTok) (first : Bool) : List PTok :=
  match np with
  | some ts => [minus] ++ ts
  | none => (if first then [] else [plus]) ++ pf

mutual
def printPy (cfg : Cfg) : E → Nat → List PTok
  | .ilit n, _ => if n < 0 then [minus, num n.natAbs] else [num n.toNat]
  | .rlit t, _ => [rnum t]
  | .blit b, _ => [if b then tru else fls]
  | .pyint n, p => if n < 0 then pparenIf (decide (p > PREC_SUM)) [minus, num n.natAbs] else [num n.toNat]
  | .var s, _ => [id s]
  | .sum par xs, p =>
      if par then pparen (printTermsP cfg xs true) else pparenIf (decide (p > PREC_SUM)) (printTermsP cfg xs true)
  | .prod par [c, x], p =>
      let body := if isMinusOne c then [minus] ++ printPy cfg x PREC_PRODUCT
                  else printPy cfg c PREC_PRODUCT ++ [star] ++ printPy cfg x PREC_PRODUCT
      if par then pparen body else pparenIf (decide (p > PREC_PRODUCT)) body
  | .prod par xs, p =>
      if par then pparen (printJoinP cfg star xs PREC_PRODUCT true)
      else pparenIf (decide (p > PREC_PRODUCT)) (printJoinP cfg star xs PREC_PRODUCT true)
  | .quot par a b, p =>
      let body := printPy cfg a PREC_PRODUCT ++ [slash] ++ pparenIf (forceDen cfg b) (printPy cfg b PREC_PRODUCT)
      if par then pparen body else pparenIf (decide (p > PREC_PRODUCT)) body
  -- pymbolic's `map_power`: `base**exponent`, both at PREC_POWER; `map_parenthesised_pow` = `parenthesize(map_power(expr, PREC_NONE))`
  | .pow par a b, p =>
      let body := printPy cfg a PREC_POWER ++ [dstar] ++ printPy cfg b PREC_POWER
      if par then pparen body else pparenIf (decide (p > PREC_POWER)) body
  | .cmp o a b, p =>
      pparenIf (decide (p > PREC_COMPARISON)) (printPy cfg a PREC_COMPARISON ++ [PTok.cmp o] ++ printPy cfg b PREC_COMPARISON)
  | .lnot a, p => pparenIf (decide (p > PREC_UNARY)) ([PTok.not] ++ printPy cfg a PREC_UNARY)
  | .land xs, p => pparenIf (decide (p > PREC_LOGICAL_AND)) (printJoinP cfg PTok.and xs PREC_LOGICAL_AND true)
  | .lor xs, p => pparenIf (decide (p > PREC_LOGICAL_OR)) (printJoinP cfg PTok.or xs PREC_LOGICAL_OR true)
def printJoinP (cfg : Cfg) (op : PTok) : List E → Nat → Bool → List PTok
  | [], _, _ => []
  | c :: cs, p, first => (if first then [] else [op]) ++ printPy cfg c p ++ printJoinP cfg op cs p false
def negPartP (cfg : Cfg) : E → Option (List PTok)
  | .prod false [m] => if isPyMinusOne m then some [] else none
  | .prod false [m, x] => if isPyMinusOne m then some (printPy cfg x PREC_PRODUCT) else none
  | .prod false [m, c2, x2] =>
      if isPyMinusOne m then
        some (if isMinusOne c2 then [minus] ++ printPy cfg x2 PREC_PRODUCT
              else printPy cfg c2 PREC_PRODUCT ++ [star] ++ printPy cfg x2 PREC_PRODUCT)
      else none
  | .prod false (m :: c2 :: x2 :: x3 :: rest) =>
      if isPyMinusOne m then some (printTailP cfg star (m :: c2 :: x2 :: x3 :: rest) PREC_PRODUCT) else none
  | _ => none
def printTailP (cfg : Cfg) (op : PTok) : List E → Nat → List PTok
  | [], _ => []
  | _ :: cs, p => printJoinP cfg op cs p true
def printTermsP (cfg : Cfg) : List E → Bool → List PTok
  | [], _ => []
  | c :: cs, first => termTokP (negPartP cfg c) (printPy cfg c PREC_SUM) first ++ printTermsP cfg cs false
end

/-! ### CPython value semantics of a meaning tree -/

/-- `a / b`: true division, always a `float` -/
def pyDiv (a b : Val) : Option Val := do
  let x ← a.toRat?
  let y ← b.toRat?
  if y = 0 then none else some (.real (x / y))

/-- `a ** b` for the operand types of the model (integer exponents) -/
def pyPow : Val → Val → Option Val
  | .int a, .int b =>
      if 0 ≤ b then some (.int (a ^ b.toNat))
      else if a = 0 then none
      else some (.real (1 / Val.rpowNat (a : Rat) (-b).toNat))
  | .real a, .int b => (Val.rpow a b).map .real
  | _, _ => none

def evalPy (env : Env) : S → Option Val
  | .int n => some (.int n)
  | .real t => some (.real (env.lit t))
  | .var s => env.var s
  | .bool b => some (.bool b)
  | .neg a => (evalPy env a).bind Val.neg
  | .add a b => bin Val.add (evalPy env a) (evalPy env b)
  | .sub a b => bin Val.sub (evalPy env a) (evalPy env b)
  | .mul a b => bin Val.mul (evalPy env a) (evalPy env b)
  | .div a b => bin pyDiv (evalPy env a) (evalPy env b)
  | .pow a b => bin pyPow (evalPy env a) (evalPy env b)
  | .cmp o a b => bin (Val.cmp o) (evalPy env a) (evalPy env b)
  | .not a => (evalPy env a).bind Val.lnot
  -- `x and y`: `y` is evaluated only when `x` is true
  | .and a b =>
      match evalPy env a with
      | some (.bool false) => some (.bool false)
      | some (.bool true) => (evalPy env b).bind fun v => match v with | .bool _ => some v | _ => none
      | _ => none
  | .or a b =>
      match evalPy env a with
      | some (.bool true) => some (.bool true)
      | some (.bool false) => (evalPy env b).bind fun v => match v with | .bool _ => some v | _ => none
      | _ => none

def isIntVal : Option Val → Bool
  | some (.int _) => true
  | _ => false

def isNegIntVal : Option Val → Bool
  | some (.int i) => decide (i < 0)
  | _ => false

/-- the two known-finding classes at expression level, decided under a valuation: a quotient both of whose operands are
integers (`py-integer-quotient`), a power of an integer to a negative integer (`py-negative-int-power`) -/
def KnownPyExpr (env : Env) : S → Bool
  | .div a b => KnownPyExpr env a || KnownPyExpr env b || (isIntVal (evalS env a) && isIntVal (evalS env b))
  | .pow a b => KnownPyExpr env a || KnownPyExpr env b || (isIntVal (evalS env a) && isNegIntVal (evalS env b))
  | .neg a | .not a => KnownPyExpr env a
  | .add a b | .sub a b | .mul a b | .cmp _ a b | .and a b | .or a b => KnownPyExpr env a || KnownPyExpr env b
  | _ => false

/-! ### loop headers and subscripts -/

/-- values of the `range(…)` that `PyCodegen.visit_Loop` prints for `DO v = s, e[, st]` -/
def loopRange (s e : Int) (st : Option Int) : Option (List Int) :=
  match st with
  | none => LokiModel.C10.pyRange s (e + 1) 1
  | some c => LokiModel.C10.pyRange s (e + c) c

/-- class `py-loop-step`: the printed range is not the DO sequence -/
def KnownPyRangeStep (s e c : Int) : Bool :=
  decide (loopRange s e (some c) ≠ some (LokiModel.C10.doSeq s e c))

/-- `shift_to_zero_indexing`: the subscript written for Fortran subscript `i` -/
def shiftIdx (i : Int) : Int := i - 1

/-- position (0-based) of Fortran subscript `i` in a dimension declared `lo:hi` -/
def zeroPos (lo i : Int) : Int := i - lo

end LokiModel.C36
