import LokiModel.C02.Model
/-!
# C02: auxiliary lemmas — "eventually" fuel predicate, list splitting, line-level readers
-/
namespace LokiModel.C02
open LokiModel.Expr

/-- `p` returns `r` for every large enough fuel -/
def Ev {α} (p : Nat → Option α) (r : α) : Prop := ∃ f0, ∀ f, f0 ≤ f → p f = some r

theorem Ev.succ {α} {p q : Nat → Option α} {r : α} (h : ∀ f, q (f+1) = p f) (hp : Ev p r) : Ev q r := by
  obtain ⟨f0, hf⟩ := hp
  refine ⟨f0+1, fun f hle => ?_⟩
  obtain ⟨g, rfl⟩ : ∃ g, f = g+1 := ⟨f-1, by omega⟩
  rw [h]; exact hf g (by omega)

theorem Ev.bind {α β} {p : Nat → Option α} {k : Nat → α → Option β} {a : α} {r : β}
    (hp : Ev p a) (hk : Ev (fun f => k f a) r) : Ev (fun f => (p f).bind (k f)) r := by
  obtain ⟨f1, h1⟩ := hp; obtain ⟨f2, h2⟩ := hk
  refine ⟨max f1 f2, fun f hle => ?_⟩
  simp [h1 f (by omega), h2 f (by omega)]

theorem Ev.pure {α} {p : Nat → Option α} {r : α} (h : ∀ f, p f = some r) : Ev p r := ⟨0, fun f _ => h f⟩

theorem Ev.map {α β} {p : Nat → Option α} {a : α} (g : α → β) (hp : Ev p a) : Ev (fun f => (p f).map g) (g a) := by
  obtain ⟨f1, h1⟩ := hp
  exact ⟨f1, fun f hle => by simp [h1 f hle]⟩

theorem Ev.congr {α} {p q : Nat → Option α} {r : α} (h : ∀ f, q f = p f) (hp : Ev p r) : Ev q r := by
  obtain ⟨f0, hf⟩ := hp
  exact ⟨f0, fun f hle => by rw [h]; exact hf f hle⟩

/-! ### lists -/

theorem splitLast_append {α} (xs : List α) (a : α) : splitLast (xs ++ [a]) = some (xs, a) := by
  simp [splitLast]

theorem unE_ex (ts : List Tok) : unE (ex ts) = some ts := by
  induction ts with
  | nil => rfl
  | cons t r ih => simp [ex, unE] at *; simp [ih]

def NoComma (l : Line) : Prop := STok.comma ∉ l

theorem noComma_ex (ts : List Tok) : NoComma (ex ts) := by
  simp [NoComma, ex]

theorem noComma_intTok (n : Int) : NoComma (intTok n) := by
  unfold NoComma intTok; split <;> simp

theorem splitComma_noComma (a : Line) (h : NoComma a) : splitComma a = [a] := by
  induction a with
  | nil => rfl
  | cons t r ih =>
    have hr : NoComma r := fun hm => h (List.mem_cons_of_mem _ hm)
    have ht : t ≠ .comma := fun e => h (by simp [e])
    cases t <;> simp_all [splitComma]

theorem splitComma_append (a r : Line) (h : NoComma a) : splitComma (a ++ .comma :: r) = a :: splitComma r := by
  induction a with
  | nil => simp [splitComma]
  | cons t a ih =>
    have hr : NoComma a := fun hm => h (List.mem_cons_of_mem _ hm)
    have ht : t ≠ .comma := fun e => h (by simp [e])
    cases t <;> simp_all [splitComma]

theorem splitComma_commaSep (l : Line) (ls : List Line) (h : ∀ x ∈ l :: ls, NoComma x) :
    splitComma (commaSep (l :: ls)) = l :: ls := by
  induction ls generalizing l with
  | nil => simp [commaSep]; exact splitComma_noComma l (h l (by simp))
  | cons b r ih =>
    simp only [commaSep, List.append_assoc, List.singleton_append]
    rw [splitComma_append _ _ (h l (by simp)), ih b (fun x hx => h x (List.mem_cons_of_mem _ hx))]

theorem parseInt_intTok (n : Int) : parseInt (intTok n) = some n := by
  unfold intTok
  split
  · have : n.natAbs ≠ 0 := by omega
    simp [parseInt, this]; omega
  · simp [parseInt]; omega

theorem parseInts_map (vs : List Int) : parseInts (vs.map intTok) = some vs := by
  induction vs with
  | nil => rfl
  | cons v r ih => simp [parseInts, parseInt_intTok, ih]

end LokiModel.C02
