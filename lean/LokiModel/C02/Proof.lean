import LokiModel.C02.Slots
/-!
# C02: the reference parser reads back what the model printer wrote (statement level)
-/
namespace LokiModel.C02
open LokiModel.Expr

section
variable {X : Type} (P : X → Prop)

mutual
/-- the covered class of statements: every expression slot is in `P`; `SELECT CASE` has at least one `CASE`, every `CASE`
has at least one value and a non-empty block; `ASSOCIATE` has at least one association -/
def OkStmt : Stmt X → Prop
  | .assign _ r => P r
  | .doLoop _ lo hi step body => P lo ∧ P hi ∧ (∀ s, step = some s → P s) ∧ OkStmts body
  | .while c b => P c ∧ OkStmts b
  | .ifte c t e => P c ∧ OkStmts t ∧ OkStmts e
  | .select e cs d => P e ∧ cs ≠ [] ∧ OkCases cs ∧ OkStmts d
  | .assoc bs b => bs ≠ [] ∧ (∀ x ∈ bs, P x.2) ∧ OkStmts b
  | .callSub _ args => ∀ a ∈ args, P a
  | .print args => ∀ a ∈ args, P a
  | .exit => True
  | .cycle => True
  | .nop _ _ => True
def OkStmts : List (Stmt X) → Prop
  | [] => True
  | s :: ss => OkStmt s ∧ OkStmts ss
def OkCases : List (List Int × List (Stmt X)) → Prop
  | [] => True
  | (vs, b) :: cs => vs ≠ [] ∧ b ≠ [] ∧ OkStmts b ∧ OkCases cs
end
end

/-- a statement list may be followed by the end of the text or by a terminator line -/
def Follow (rest : List Line) : Prop := rest = [] ∨ ∃ l r, rest = l :: r ∧ isTerm l = true

theorem isTerm_endDo (st : Style) : isTerm (endDo st) = true := by
  unfold endDo; split <;> simp [isTerm, kw]
theorem isEndDo_endDo (st : Style) : isEndDo (endDo st) = true := by
  unfold endDo; split <;> simp [isEndDo, kw]
theorem isTerm_endIf (st : Style) : isTerm (endIf st) = true := by
  unfold endIf; split <;> simp [isTerm, kw]
theorem isEndIf_endIf (st : Style) : isEndIf (endIf st) = true := by
  unfold endIf; split <;> simp [isEndIf, kw]

theorem follow_cons {l : Line} {r : List Line} (h : isTerm l = true) : Follow (l :: r) := Or.inr ⟨l, r, rfl, h⟩

/-- `pStmts` stops at the end of the text or at a terminator -/
theorem pStmts_stop {Y} (re : Nat → List Tok → Option Y) {rest : List Line} (h : Follow rest) :
    Ev (fun f => pStmts re f rest) ([], rest) := by
  refine ⟨1, fun f hle => ?_⟩
  obtain ⟨g, rfl⟩ : ∃ g, f = g+1 := ⟨f-1, by omega⟩
  rcases h with rfl | ⟨l, r, rfl, ht⟩
  · simp [pStmts]
  · simp [pStmts, ht]

/-- one statement followed by more statements -/
theorem pStmts_cons {Y} (re : Nat → List Tok → Option Y) {l : Line} {ls : List Line} {s : Stmt Y} {r1 : List Line}
    {ss : List (Stmt Y)} {r2 : List Line} (hl : isTerm l = false)
    (h1 : Ev (fun f => pStmt re f l ls) (s, r1)) (h2 : Ev (fun f => pStmts re f r1) (ss, r2)) :
    Ev (fun f => pStmts re f (l :: ls)) (s :: ss, r2) := by
  refine Ev.succ (p := fun f => (pStmt re f l ls).bind fun x => (pStmts re f x.2).bind fun y => some (x.1 :: y.1, y.2))
    (fun f => by simp [pStmts, hl]) ?_
  exact Ev.bind h1 (Ev.bind h2 (Ev.pure fun _ => rfl))

end LokiModel.C02
