import LokiModel.C02.Main
/-!
# C02: the statement kinds that occupy one line
-/
namespace LokiModel.C02
open LokiModel.Expr

theorem commaSep_ne_nil (l : Line) (ls : List Line) (h : l ≠ []) : commaSep (l :: ls) ≠ [] := by
  cases ls with
  | nil => simpa [commaSep] using h
  | cons b r => simp [commaSep, h]

theorem flatten_comma (l : Line) (ls : List Line) :
    ((l :: ls).map fun a => [STok.comma] ++ a).flatten = STok.comma :: commaSep (l :: ls) := by
  induction ls generalizing l with
  | nil => simp [commaSep]
  | cons b r ih =>
    have := ih b
    simp only [List.map_cons, List.flatten_cons] at this ⊢
    rw [this]
    simp [commaSep]

section
variable {X Y : Type} {pe : X → List Tok} {re : Nat → List Tok → Option Y} {φ : X → Y} {P : X → Prop}
variable {st : Style} {isOne : X → Bool} (h : ExprRT pe re φ P)
include h

theorem rt_assign (x : String) {r : X} (hr : P r) : StmtRT (pe := pe) (re := re) (φ := φ) st isOne (.assign x r) := by
  intro rest
  refine ⟨kw x :: .assign :: ex (pe r), rest, by simp [gStmt], by simp [isTerm, kw], ?_⟩
  refine Ev.succ (p := fun f => ((rdE re f (ex (pe r))).map (Stmt.assign x)).map fun s => (s, rest)) (fun f => ?_) ?_
  · rw [pStmt_assign]; simp [pSimple, kw]
  · simpa [mapStmt, normStmt] using Ev.map (fun s => (s, rest)) (Ev.map (Stmt.assign x) (rdE_ex h hr))

theorem args_split (a : X) (r : List X) (ha : ∀ x ∈ a :: r, P x) :
    commaSep ((a :: r).map fun x => ex (pe x)) ≠ [] ∧
    splitComma (commaSep ((a :: r).map fun x => ex (pe x))) = (a :: r).map fun x => ex (pe x) := by
  constructor
  · simpa using commaSep_ne_nil (ex (pe a)) (r.map fun x => ex (pe x)) (ex_ne_nil h (ha a (by simp)))
  · have := splitComma_commaSep (ex (pe a)) (r.map fun x => ex (pe x)) (by
      intro x hx
      simp only [List.mem_cons, List.mem_map] at hx
      rcases hx with rfl | ⟨y, _, rfl⟩ <;> exact noComma_ex _)
    simpa using this

theorem rt_call (g : String) {args : List X} (ha : ∀ a ∈ args, P a) :
    StmtRT (pe := pe) (re := re) (φ := φ) st isOne (.callSub g args) := by
  intro rest
  refine ⟨kw "call" :: kw g :: .e .lp :: (commaSep (args.map fun a => ex (pe a)) ++ [.e .rp]), rest, by simp [gStmt],
    by simp [isTerm, kw], ?_⟩
  cases args with
  | nil =>
    refine Ev.succ (p := fun _ => some (Stmt.callSub g [], rest)) (fun f => ?_) (Ev.pure fun _ => by simp [mapStmt, normStmt, mapArgs])
    rw [pStmt_call]
    simp [pSimple, kw, commaSep, splitLast]
  | cons a r =>
    obtain ⟨hne, hsp⟩ := args_split h a r ha
    refine Ev.succ (p := fun f => ((rdEs re f ((a :: r).map fun x => ex (pe x))).map (Stmt.callSub g)).map fun s => (s, rest))
      (fun f => ?_) ?_
    · rw [pStmt_call]
      simp only [pSimple, kw, splitLast_append, Option.bind_some, bind, hne, hsp, if_true, if_false]
    · simpa [mapStmt, normStmt] using Ev.map (fun s => (s, rest)) (Ev.map (Stmt.callSub g) (rdEs_map h (a :: r) ha))

theorem rt_print {args : List X} (ha : ∀ a ∈ args, P a) :
    StmtRT (pe := pe) (re := re) (φ := φ) st isOne (.print args) := by
  intro rest
  refine ⟨kw "print" :: .e .star :: (args.map fun a => [STok.comma] ++ ex (pe a)).flatten, rest, by simp [gStmt],
    by simp [isTerm, kw], ?_⟩
  cases args with
  | nil =>
    refine Ev.succ (p := fun _ => some (Stmt.print [], rest)) (fun f => ?_) (Ev.pure fun _ => by simp [mapStmt, normStmt, mapArgs])
    rw [pStmt_print]
    simp [pSimple, kw]
  | cons a r =>
    obtain ⟨_, hsp⟩ := args_split h a r ha
    have hfl : ((a :: r).map fun x => [STok.comma] ++ ex (pe x)).flatten = STok.comma :: commaSep ((a :: r).map fun x => ex (pe x)) := by
      have := flatten_comma (ex (pe a)) (r.map fun x => ex (pe x))
      simpa [List.map_map, Function.comp_def] using this
    refine Ev.succ (p := fun f => ((rdEs re f ((a :: r).map fun x => ex (pe x))).map Stmt.print).map fun s => (s, rest))
      (fun f => ?_) ?_
    · rw [pStmt_print, hfl]
      simp only [pSimple, kw, hsp]
    · simpa [mapStmt, normStmt] using Ev.map (fun s => (s, rest)) (Ev.map Stmt.print (rdEs_map h (a :: r) ha))

omit h in
theorem rt_exit : StmtRT (pe := pe) (re := re) (φ := φ) st isOne (.exit) := by
  intro rest
  refine ⟨[kw "exit"], rest, by simp [gStmt], by simp [isTerm, kw], ?_⟩
  refine Ev.succ (p := fun _ => some (Stmt.exit, rest)) (fun f => ?_) (Ev.pure fun _ => by simp [mapStmt, normStmt])
  rw [kw, pStmt_one]; simp [pSimple]

omit h in
theorem rt_cycle : StmtRT (pe := pe) (re := re) (φ := φ) st isOne (.cycle) := by
  intro rest
  refine ⟨[kw "cycle"], rest, by simp [gStmt], by simp [isTerm, kw], ?_⟩
  refine Ev.succ (p := fun _ => some (Stmt.cycle, rest)) (fun f => ?_) (Ev.pure fun _ => by simp [mapStmt, normStmt])
  rw [kw, pStmt_one]; simp [pSimple]

omit h in
theorem rt_nop (p : Bool) (t : String) : StmtRT (pe := pe) (re := re) (φ := φ) st isOne (.nop p t) := by
  intro rest
  refine ⟨[if p then .prg t else .cmt t], rest, by simp [gStmt], by cases p <;> simp [isTerm], ?_⟩
  refine Ev.succ (p := fun _ => some (Stmt.nop p t, rest)) (fun f => ?_) (Ev.pure fun _ => by simp [mapStmt, normStmt])
  rw [pStmt_one]; cases p <;> simp [pSimple]

end
end LokiModel.C02
