import LokiModel.C02.Steps
/-!
# C02: main induction — `pStmts re (gStmts st pe isOne ss ++ rest) = (map φ (norm ss), rest)`
-/
namespace LokiModel.C02
open LokiModel.Expr

section
variable {X Y : Type} {pe : X → List Tok} {re : Nat → List Tok → Option Y} {φ : X → Y} {P : X → Prop}
variable (st : Style) (isOne : X → Bool) (h : ExprRT pe re φ P)

/-- what is claimed for one statement printed in front of `rest` -/
def StmtRT (s : Stmt X) : Prop :=
  ∀ rest : List Line, ∃ l ls, gStmt st pe isOne false s ++ rest = l :: ls ∧ isTerm l = false ∧
    Ev (fun f => pStmt re f l ls) (mapStmt φ (normStmt isOne s), rest)

def StmtsRT (ss : List (Stmt X)) : Prop :=
  ∀ rest : List Line, Follow rest →
    Ev (fun f => pStmts re f (gStmts st pe isOne ss ++ rest)) (mapStmts φ (normStmts isOne ss), rest)

def ElseRT (e : List (Stmt X)) : Prop :=
  ∀ rest : List Line, Ev (fun f => pElse re f (gElse st pe isOne e ++ rest)) (mapStmts φ (normStmts isOne e), rest)

def CasesRT (cs : List (List Int × List (Stmt X))) : Prop :=
  ∀ (K : List Line) (dres : List (Stmt Y)) (rest : List Line), (∃ l r, K = l :: r ∧ isTerm l = true) →
    Ev (fun f => pCases re f K) ([], dres, rest) →
    Ev (fun f => pCases re f (gCases st pe isOne cs ++ K)) (mapCases φ (normCases isOne cs), dres, rest)

variable {st isOne}

theorem stmtsRT_nil : StmtsRT (pe := pe) (re := re) (φ := φ) st isOne [] := by
  intro rest hf
  simpa [gStmts, mapStmts, normStmts] using pStmts_stop re hf

theorem stmtsRT_cons {s : Stmt X} {ss : List (Stmt X)} (h1 : StmtRT (pe := pe) (re := re) (φ := φ) st isOne s)
    (h2 : StmtsRT (pe := pe) (re := re) (φ := φ) st isOne ss) : StmtsRT (pe := pe) (re := re) (φ := φ) st isOne (s :: ss) := by
  intro rest hf
  obtain ⟨l, ls, e, ht, hp⟩ := h1 (gStmts st pe isOne ss ++ rest)
  have : gStmts st pe isOne (s :: ss) ++ rest = l :: ls := by rw [gStmts, List.append_assoc, e]
  rw [this]
  simpa [mapStmts, normStmts] using pStmts_cons re ht hp (h2 rest hf)

/-- a block closed by a line `e` with `isE e`, inside a statement whose head line has been consumed -/
theorem block_end {ss : List (Stmt X)} (h2 : StmtsRT (pe := pe) (re := re) (φ := φ) st isOne ss) (e : Line) (he : isTerm e = true)
    (rest : List Line) {α} (k : Nat → List (Stmt Y) × List Line → Option α) (r : α)
    (hk : Ev (fun f => k f (mapStmts φ (normStmts isOne ss), e :: rest)) r) :
    Ev (fun f => (pStmts re f (gStmts st pe isOne ss ++ e :: rest)).bind (k f)) r :=
  Ev.bind (h2 (e :: rest) (follow_cons he)) hk

end
end LokiModel.C02
