import LokiModel.C02.Cases1
/-!
# C02: compound statements
-/
namespace LokiModel.C02
open LokiModel.Expr

section
variable {X Y : Type} {pe : X → List Tok} {re : Nat → List Tok → Option Y} {φ : X → Y} {P : X → Prop}
variable {st : Style} {isOne : X → Bool} (h : ExprRT pe re φ P)
include h

theorem rt_do (v : String) {lo hi : X} (step : Option X) {body : List (Stmt X)} (hlo : P lo) (hhi : P hi)
    (hs : ∀ s, step = some s → P s) (hb : StmtsRT (pe := pe) (re := re) (φ := φ) st isOne body) :
    StmtRT (pe := pe) (re := re) (φ := φ) st isOne (.doLoop v lo hi step body) := by
  intro rest
  refine ⟨doHead pe isOne v lo hi step, gStmts st pe isOne body ++ endDo st :: rest, by simp [gStmt],
    by simp [isTerm, doHead, kw], ?_⟩
  refine Ev.succ (p := fun f => (rdDo re f (doTail pe isOne lo hi step)).bind fun d =>
      (pStmts re f (gStmts st pe isOne body ++ endDo st :: rest)).bind fun b =>
        match b.2 with
        | e :: rest => if isEndDo e then some (.doLoop v d.1 d.2.1 d.2.2 b.1, rest) else none
        | [] => none) (fun f => by rw [doHead_eq, pStmt_do]; try rfl) ?_
  refine Ev.bind (rdDo_ex h isOne step hlo hhi hs) (block_end hb (endDo st) (isTerm_endDo st) rest _ _ (Ev.pure fun _ => ?_))
  simp [isEndDo_endDo, mapStmt, normStmt]

theorem rt_while {c : X} {body : List (Stmt X)} (hc : P c) (hb : StmtsRT (pe := pe) (re := re) (φ := φ) st isOne body) :
    StmtRT (pe := pe) (re := re) (φ := φ) st isOne (.while c body) := by
  intro rest
  refine ⟨kw "do" :: kw "while" :: .e .lp :: (ex (pe c) ++ [.e .rp]), gStmts st pe isOne body ++ endDo st :: rest, by simp [gStmt],
    by simp [isTerm, kw], ?_⟩
  refine Ev.succ (p := fun f => (rdE re f (ex (pe c))).bind fun c' =>
      (pStmts re f (gStmts st pe isOne body ++ endDo st :: rest)).bind fun b =>
        match b.2 with
        | e :: rest => if isEndDo e then some (.while c' b.1, rest) else none
        | [] => none) (fun f => ?_) ?_
  · rw [pStmt_while, splitLast_append]; simp; try rfl
  · refine Ev.bind (rdE_ex h hc) (block_end hb (endDo st) (isTerm_endDo st) rest _ _ (Ev.pure fun _ => ?_))
    simp [isEndDo_endDo, mapStmt, normStmt]

theorem rt_assoc {bs : List (String × X)} {body : List (Stmt X)} (hne : bs ≠ []) (hbs : ∀ x ∈ bs, P x.2)
    (hb : StmtsRT (pe := pe) (re := re) (φ := φ) st isOne body) :
    StmtRT (pe := pe) (re := re) (φ := φ) st isOne (.assoc bs body) := by
  intro rest
  refine ⟨kw "associate" :: .e .lp :: (commaSep (bs.map (bindTok pe)) ++ [.e .rp]),
    gStmts st pe isOne body ++ [kw "end", kw "associate"] :: rest, by simp [gStmt], by simp [isTerm, kw], ?_⟩
  have hsp : splitComma (commaSep (bs.map (bindTok pe))) = bs.map (bindTok pe) := by
    cases bs with
    | nil => exact absurd rfl hne
    | cons b r =>
      have := splitComma_commaSep (bindTok pe b) (r.map (bindTok pe)) (by
        intro x hx
        simp only [List.mem_cons, List.mem_map] at hx
        rcases hx with rfl | ⟨y, _, rfl⟩ <;> simp [NoComma, bindTok, kw, ex])
      simpa using this
  refine Ev.succ (p := fun f => (rdBinds re f (bs.map (bindTok pe))).bind fun bs' =>
      (pStmts re f (gStmts st pe isOne body ++ [kw "end", kw "associate"] :: rest)).bind fun b =>
        match b.2 with
        | e :: rest => if e = [kw "end", kw "associate"] then some (.assoc bs' b.1, rest) else none
        | [] => none) (fun f => ?_) ?_
  · rw [pStmt_assoc, splitLast_append]; simp [hsp]; try rfl
  · refine Ev.bind (rdBinds_map h bs hbs) (block_end hb [kw "end", kw "associate"] (by simp [isTerm, kw]) rest _ _ (Ev.pure fun _ => ?_))
    simp [mapStmt, normStmt]

theorem rt_if {c : X} {t e : List (Stmt X)} (hc : P c) (ht : StmtsRT (pe := pe) (re := re) (φ := φ) st isOne t)
    (he : ElseRT (pe := pe) (re := re) (φ := φ) st isOne e) (hfe : ∀ rest, Follow (gElse st pe isOne e ++ rest)) :
    StmtRT (pe := pe) (re := re) (φ := φ) st isOne (.ifte c t e) := by
  intro rest
  refine ⟨kw "if" :: .e .lp :: (ex (pe c) ++ [.e .rp, kw "then"]), gStmts st pe isOne t ++ (gElse st pe isOne e ++ rest),
    by simp [gStmt, ifHead], by simp [isTerm, kw], ?_⟩
  refine Ev.succ (p := fun f => (rdCond re f (ex (pe c) ++ [.e .rp, kw "then"])).bind fun c' =>
      (pStmts re f (gStmts st pe isOne t ++ (gElse st pe isOne e ++ rest))).bind fun t' =>
        (pElse re f t'.2).bind fun e' => some (.ifte c' t'.1 e'.1, e'.2)) (fun f => by rw [pStmt_if]; try rfl) ?_
  refine Ev.bind (rdCond_ex h hc) (Ev.bind (ht _ (hfe rest)) (Ev.bind (he rest) (Ev.pure fun _ => ?_)))
  simp [mapStmt, normStmt]

/-- the `ELSE IF` continuation -/
theorem else_if {c : X} {t e : List (Stmt X)} (hc : P c) (ht : StmtsRT (pe := pe) (re := re) (φ := φ) st isOne t)
    (he : ElseRT (pe := pe) (re := re) (φ := φ) st isOne e) (hfe : ∀ rest, Follow (gElse st pe isOne e ++ rest)) :
    ElseRT (pe := pe) (re := re) (φ := φ) st isOne [.ifte c t e] := by
  intro rest
  have hg : gElse st pe isOne [Stmt.ifte c t e] ++ rest =
      (kw "else" :: kw "if" :: .e .lp :: (ex (pe c) ++ [.e .rp, kw "then"])) :: (gStmts st pe isOne t ++ (gElse st pe isOne e ++ rest)) := by
    simp [gElse, Stmt.isIf, gStmt, ifHead]
  rw [hg]
  refine Ev.succ (p := fun f => (rdCond re f (ex (pe c) ++ [.e .rp, kw "then"])).bind fun c' =>
      (pStmts re f (gStmts st pe isOne t ++ (gElse st pe isOne e ++ rest))).bind fun t' =>
        (pElse re f t'.2).bind fun e' => some ([.ifte c' t'.1 e'.1], e'.2)) (fun f => by rw [pElse_elseif]; try rfl) ?_
  refine Ev.bind (rdCond_ex h hc) (Ev.bind (ht _ (hfe rest)) (Ev.bind (he rest) (Ev.pure fun _ => ?_)))
  simp [mapStmt, mapStmts, normStmt, normStmts]

end

section
variable {X Y : Type} {pe : X → List Tok} {re : Nat → List Tok → Option Y} {φ : X → Y}
variable {st : Style} {isOne : X → Bool}

theorem else_nil : ElseRT (pe := pe) (re := re) (φ := φ) st isOne [] := by
  intro rest
  refine Ev.succ (p := fun _ => some ([], rest)) (fun f => ?_) (Ev.pure fun _ => by simp [mapStmts, normStmts])
  simp only [gElse, List.singleton_append]
  exact pElse_end f _ _ (isEndIf_endIf st)

/-- a non-empty else branch that is not a lone conditional: `ELSE` … `END IF` -/
theorem else_block {e : List (Stmt X)} (hs : StmtsRT (pe := pe) (re := re) (φ := φ) st isOne e)
    (hg : ∀ rest, gElse st pe isOne e ++ rest = [kw "else"] :: (gStmts st pe isOne e ++ endIf st :: rest)) :
    ElseRT (pe := pe) (re := re) (φ := φ) st isOne e := by
  intro rest
  rw [hg]
  refine Ev.succ (p := fun f => (pStmts re f (gStmts st pe isOne e ++ endIf st :: rest)).bind fun b =>
      match b.2 with
      | e :: rest => if isEndIf e then some (b.1, rest) else none
      | [] => none) (fun f => by rw [pElse_else]; try rfl) ?_
  refine block_end hs (endIf st) (isTerm_endIf st) rest _ _ (Ev.pure fun _ => ?_)
  simp [isEndIf_endIf]

theorem follow_gElse (e : List (Stmt X)) (rest : List Line) : Follow (gElse st pe isOne e ++ rest) := by
  match e with
  | [] => simp only [gElse, List.singleton_append]; exact follow_cons (isTerm_endIf st)
  | [s] =>
    by_cases hi : s.isIf = true
    · cases s <;> simp [Stmt.isIf] at hi
      simp only [gElse, Stmt.isIf, if_true, gStmt, List.singleton_append, List.cons_append, List.nil_append, List.append_assoc]
      exact follow_cons (by simp [isTerm, kw, ifHead])
    · simp only [gElse, hi, Bool.false_eq_true, if_false, List.singleton_append, List.cons_append, List.nil_append, List.append_assoc]
      exact follow_cons (by simp [isTerm, kw])
  | s :: s' :: ss =>
    simp only [gElse, List.singleton_append, List.cons_append, List.nil_append, List.append_assoc]
    exact follow_cons (by simp [isTerm, kw])

theorem cases_nil : CasesRT (pe := pe) (re := re) (φ := φ) st isOne [] := by
  intro K dres rest _ hk
  simpa [gCases, mapCases, normCases] using hk

theorem cases_cons {vs : List Int} {b : List (Stmt X)} {cs : List (List Int × List (Stmt X))} (hv : vs ≠ []) (hb : b ≠ [])
    (hbs : StmtsRT (pe := pe) (re := re) (φ := φ) st isOne b) (hcs : CasesRT (pe := pe) (re := re) (φ := φ) st isOne cs)
    (hfc : ∀ K, (∃ l r, K = l :: r ∧ isTerm l = true) → ∃ l r, gCases st pe isOne cs ++ K = l :: r ∧ isTerm l = true) :
    CasesRT (pe := pe) (re := re) (φ := φ) st isOne ((vs, b) :: cs) := by
  intro K dres rest hK hk
  have hsp : splitComma (commaSep (vs.map intTok)) = vs.map intTok := by
    cases vs with
    | nil => exact absurd rfl hv
    | cons v r =>
      have := splitComma_commaSep (intTok v) (r.map intTok) (by
        intro x hx
        simp only [List.mem_cons, List.mem_map] at hx
        rcases hx with rfl | ⟨y, _, rfl⟩ <;> exact noComma_intTok _)
      simpa using this
  have hg : gCases st pe isOne ((vs, b) :: cs) ++ K =
      (kw "case" :: .e .lp :: (commaSep (vs.map intTok) ++ [.e .rp])) :: (gStmts st pe isOne b ++ (gCases st pe isOne cs ++ K)) := by
    simp [gCases]
  rw [hg]
  obtain ⟨l, r, hl, hlt⟩ := hfc K hK
  have hbne : mapStmts φ (normStmts isOne b) ≠ [] := by
    cases b with
    | nil => exact absurd rfl hb
    | cons s ss => simp [mapStmts, normStmts]
  refine Ev.succ (p := fun f => (pStmts re f (gStmts st pe isOne b ++ (gCases st pe isOne cs ++ K))).bind fun b' =>
      match b'.1 with
      | [] => none
      | _ :: _ => (pCases re f b'.2).bind fun cs' => some ((vs, b'.1) :: cs'.1, cs'.2.1, cs'.2.2)) (fun f => ?_) ?_
  · rw [pCases_case, splitLast_append]; simp [hsp, parseInts_map]; try rfl
  · refine Ev.bind (hbs _ (by rw [hl]; exact follow_cons hlt)) ?_
    cases hm : mapStmts φ (normStmts isOne b) with
    | nil => exact absurd hm hbne
    | cons s ss =>
      simp only []
      refine Ev.bind (hcs K dres rest hK hk) (Ev.pure fun _ => ?_)
      simp [mapCases, normCases, hm]

end
end LokiModel.C02
