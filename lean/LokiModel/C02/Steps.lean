import LokiModel.C02.Proof
/-!
# C02: one-step unfolding of the reference parser on each kind of head line
-/
namespace LokiModel.C02
open LokiModel.Expr
section
variable {Y : Type} {re : Nat → List Tok → Option Y}

theorem pStmt_assign (f : Nat) (x : String) (r : Line) (ls : List Line) :
    pStmt re (f+1) (kw x :: .assign :: r) ls = (pSimple re f (kw x :: .assign :: r)).map fun s => (s, ls) := by
  unfold pStmt
  split <;> simp_all [kw] <;> rfl

theorem pStmt_call (f : Nat) (g : String) (r : Line) (ls : List Line) :
    pStmt re (f+1) (kw "call" :: kw g :: .e .lp :: r) ls = (pSimple re f (kw "call" :: kw g :: .e .lp :: r)).map fun s => (s, ls) := by
  unfold pStmt
  split <;> simp_all [kw] <;> rfl

theorem pStmt_print (f : Nat) (r : Line) (ls : List Line) :
    pStmt re (f+1) (kw "print" :: .e .star :: r) ls = (pSimple re f (kw "print" :: .e .star :: r)).map fun s => (s, ls) := by
  unfold pStmt
  split <;> simp_all [kw] <;> rfl

theorem pStmt_one (f : Nat) (t : STok) (ls : List Line) :
    pStmt re (f+1) [t] ls = (pSimple re f [t]).map fun s => (s, ls) := by
  unfold pStmt
  split <;> simp_all

theorem pStmt_do (f : Nat) (v : String) (r : Line) (ls : List Line) :
    pStmt re (f+1) (kw "do" :: kw v :: .assign :: r) ls =
      (rdDo re f r).bind fun d => (pStmts re f ls).bind fun b =>
        match b.2 with
        | e :: rest => if isEndDo e then some (.doLoop v d.1 d.2.1 d.2.2 b.1, rest) else none
        | [] => none := by
  unfold pStmt
  split <;> simp_all [kw] <;> rfl

theorem pStmt_while (f : Nat) (r : Line) (ls : List Line) :
    pStmt re (f+1) (kw "do" :: kw "while" :: .e .lp :: r) ls =
      (splitLast r).bind fun cr =>
        if cr.2 = .e .rp then
          (rdE re f cr.1).bind fun c => (pStmts re f ls).bind fun b =>
            match b.2 with
            | e :: rest => if isEndDo e then some (.while c b.1, rest) else none
            | [] => none
        else none := by
  unfold pStmt
  split <;> simp_all [kw] <;> rfl

theorem pStmt_if (f : Nat) (r : Line) (ls : List Line) :
    pStmt re (f+1) (kw "if" :: .e .lp :: r) ls =
      (rdCond re f r).bind fun c => (pStmts re f ls).bind fun t => (pElse re f t.2).bind fun e =>
        some (.ifte c t.1 e.1, e.2) := by
  unfold pStmt
  split <;> simp_all [kw] <;> rfl

theorem pStmt_select (f : Nat) (r : Line) (ls : List Line) :
    pStmt re (f+1) (kw "select" :: kw "case" :: .e .lp :: r) ls =
      (splitLast r).bind fun cr =>
        if cr.2 = .e .rp then
          (rdE re f cr.1).bind fun e => (pCases re f ls).bind fun cs =>
            match cs.1 with
            | [] => none
            | _ :: _ => some (.select e cs.1 cs.2.1, cs.2.2)
        else none := by
  unfold pStmt
  split <;> simp_all [kw] <;> rfl

theorem pStmt_assoc (f : Nat) (r : Line) (ls : List Line) :
    pStmt re (f+1) (kw "associate" :: .e .lp :: r) ls =
      (splitLast r).bind fun cr =>
        if cr.2 = .e .rp then
          (rdBinds re f (splitComma cr.1)).bind fun bs => (pStmts re f ls).bind fun b =>
            match b.2 with
            | e :: rest => if e = [kw "end", kw "associate"] then some (.assoc bs b.1, rest) else none
            | [] => none
        else none := by
  unfold pStmt
  split <;> simp_all [kw] <;> rfl

theorem pElse_end (f : Nat) (l : Line) (ls : List Line) (h : isEndIf l = true) :
    pElse re (f+1) (l :: ls) = some ([], ls) := by
  simp [pElse, h]

theorem pElse_else (f : Nat) (ls : List Line) :
    pElse re (f+1) ([kw "else"] :: ls) =
      (pStmts re f ls).bind fun b =>
        match b.2 with
        | e :: rest => if isEndIf e then some (b.1, rest) else none
        | [] => none := by
  have h : isEndIf [kw "else"] = false := by simp [isEndIf, kw]
  unfold pElse
  simp only [h, Bool.false_eq_true, if_false]
  simp [kw] <;> rfl

theorem pElse_elseif (f : Nat) (r : Line) (ls : List Line) :
    pElse re (f+1) ((kw "else" :: kw "if" :: .e .lp :: r) :: ls) =
      (rdCond re f r).bind fun c => (pStmts re f ls).bind fun t => (pElse re f t.2).bind fun e =>
        some ([.ifte c t.1 e.1], e.2) := by
  have h : isEndIf (kw "else" :: kw "if" :: .e .lp :: r) = false := by simp [isEndIf, kw]
  conv => lhs; unfold pElse
  simp only [h, Bool.false_eq_true, if_false]
  simp [kw] <;> rfl

theorem pCases_end (f : Nat) (ls : List Line) :
    pCases re (f+1) ([kw "end", kw "select"] :: ls) = some ([], [], ls) := by
  simp [pCases]

theorem pCases_default (f : Nat) (ls : List Line) :
    pCases re (f+1) ([kw "case", kw "default"] :: ls) =
      (pStmts re f ls).bind fun b =>
        match b.1 with
        | [] => none
        | _ :: _ => (pCases re f b.2).bind fun cs =>
            match cs.2.1 with
            | [] => some (cs.1, b.1, cs.2.2)
            | _ :: _ => none := by
  conv => lhs; unfold pCases
  simp [kw] <;> rfl

theorem pCases_case (f : Nat) (r : Line) (ls : List Line) :
    pCases re (f+1) ((kw "case" :: .e .lp :: r) :: ls) =
      (splitLast r).bind fun cr =>
        if cr.2 = .e .rp then
          (parseInts (splitComma cr.1)).bind fun vs => (pStmts re f ls).bind fun b =>
            match b.1 with
            | [] => none
            | _ :: _ => (pCases re f b.2).bind fun cs => some ((vs, b.1) :: cs.1, cs.2.1, cs.2.2)
        else none := by
  conv => lhs; unfold pCases
  simp [kw] <;> rfl

end
end LokiModel.C02
