import LokiModel.C02.Cases2
/-!
# C02: SELECT CASE and the assembly of the mutual induction
-/
namespace LokiModel.C02
open LokiModel.Expr

section
variable {X Y : Type} {pe : X → List Tok} {re : Nat → List Tok → Option Y} {φ : X → Y} {P : X → Prop}
variable {st : Style} {isOne : X → Bool}

/-- the lines of the default block -/
def dfltLines (st : Style) (pe : X → List Tok) (isOne : X → Bool) : List (Stmt X) → List Line
  | [] => []
  | s :: ss => [[kw "case", kw "default"]] ++ gStmt st pe isOne false s ++ gStmts st pe isOne ss

theorem gCases_head (cs : List (List Int × List (Stmt X))) (K : List Line) (hK : ∃ l r, K = l :: r ∧ isTerm l = true) :
    ∃ l r, gCases st pe isOne cs ++ K = l :: r ∧ isTerm l = true := by
  cases cs with
  | nil => simpa [gCases] using hK
  | cons c r =>
    obtain ⟨vs, b⟩ := c
    exact ⟨_, _, by simp [gCases]; exact ⟨rfl, rfl⟩, by simp [isTerm, kw]⟩

theorem dflt_rt {d : List (Stmt X)} (hd : StmtsRT (pe := pe) (re := re) (φ := φ) st isOne d) (rest : List Line) :
    (∃ l r, dfltLines st pe isOne d ++ [kw "end", kw "select"] :: rest = l :: r ∧ isTerm l = true) ∧
    Ev (fun f => pCases re f (dfltLines st pe isOne d ++ [kw "end", kw "select"] :: rest))
      ([], mapStmts φ (normStmts isOne d), rest) := by
  cases d with
  | nil =>
    refine ⟨⟨_, _, by simp [dfltLines]; exact ⟨rfl, rfl⟩, by simp [isTerm, kw]⟩, ?_⟩
    refine Ev.succ (p := fun _ => some ([], [], rest)) (fun f => ?_) (Ev.pure fun _ => by simp [mapStmts, normStmts])
    simp only [dfltLines, List.nil_append]
    exact pCases_end f rest
  | cons s ss =>
    have hg : dfltLines st pe isOne (s :: ss) ++ [kw "end", kw "select"] :: rest =
        [kw "case", kw "default"] :: (gStmts st pe isOne (s :: ss) ++ [kw "end", kw "select"] :: rest) := by
      simp [dfltLines, gStmts]
    refine ⟨⟨_, _, hg, by simp [isTerm, kw]⟩, ?_⟩
    rw [hg]
    have hne : mapStmts φ (normStmts isOne (s :: ss)) ≠ [] := by simp [mapStmts, normStmts]
    refine Ev.succ (p := fun f => (pStmts re f (gStmts st pe isOne (s :: ss) ++ [kw "end", kw "select"] :: rest)).bind fun b =>
        match b.1 with
        | [] => none
        | _ :: _ => (pCases re f b.2).bind fun cs =>
            match cs.2.1 with
            | [] => some (cs.1, b.1, cs.2.2)
            | _ :: _ => none) (fun f => by rw [pCases_default]; try rfl) ?_
    refine block_end hd [kw "end", kw "select"] (by simp [isTerm, kw]) rest _ _ ?_
    cases hm : mapStmts φ (normStmts isOne (s :: ss)) with
    | nil => exact absurd hm hne
    | cons s' ss' =>
      simp only []
      have hend : Ev (fun f => pCases re f ([kw "end", kw "select"] :: rest)) (([] : List (List Int × List (Stmt Y))), ([] : List (Stmt Y)), rest) :=
        Ev.succ (p := fun _ => some ([], [], rest)) (fun f => pCases_end f rest) (Ev.pure fun _ => rfl)
      exact Ev.bind hend (Ev.pure fun _ => rfl)

variable (h : ExprRT pe re φ P)
include h

theorem rt_select {e : X} {cs : List (List Int × List (Stmt X))} {d : List (Stmt X)} (he : P e) (hne : cs ≠ [])
    (hcs : CasesRT (pe := pe) (re := re) (φ := φ) st isOne cs) (hd : StmtsRT (pe := pe) (re := re) (φ := φ) st isOne d) :
    StmtRT (pe := pe) (re := re) (φ := φ) st isOne (.select e cs d) := by
  intro rest
  have hg : gStmt st pe isOne false (.select e cs d) ++ rest =
      (kw "select" :: kw "case" :: .e .lp :: (ex (pe e) ++ [.e .rp])) ::
        (gCases st pe isOne cs ++ (dfltLines st pe isOne d ++ [kw "end", kw "select"] :: rest)) := by
    cases d <;> simp [gStmt, dfltLines]
  refine ⟨_, _, hg, by simp [isTerm, kw], ?_⟩
  obtain ⟨hK, hkd⟩ := dflt_rt (pe := pe) (re := re) (φ := φ) hd rest
  have hcne : mapCases φ (normCases isOne cs) ≠ [] := by
    cases cs with
    | nil => exact absurd rfl hne
    | cons c r => obtain ⟨vs, b⟩ := c; simp [mapCases, normCases]
  refine Ev.succ (p := fun f => (rdE re f (ex (pe e))).bind fun e' =>
      (pCases re f (gCases st pe isOne cs ++ (dfltLines st pe isOne d ++ [kw "end", kw "select"] :: rest))).bind fun cs' =>
        match cs'.1 with
        | [] => none
        | _ :: _ => some (.select e' cs'.1 cs'.2.1, cs'.2.2)) (fun f => ?_) ?_
  · rw [pStmt_select, splitLast_append]; simp; try rfl
  · refine Ev.bind (rdE_ex h he) (Ev.bind (hcs _ _ rest hK hkd) ?_)
    cases hm : mapCases φ (normCases isOne cs) with
    | nil => exact absurd hm hcne
    | cons c r => exact Ev.pure fun _ => by simp [mapStmt, normStmt, hm]

mutual
theorem stmt_rt : ∀ (s : Stmt X), OkStmt P s → StmtRT (pe := pe) (re := re) (φ := φ) st isOne s
  | .assign x r, hk => rt_assign h x (by simpa [OkStmt] using hk)
  | .doLoop v lo hi step body, hk => by
      simp only [OkStmt] at hk
      exact rt_do h v step hk.1 hk.2.1 hk.2.2.1 (stmts_rt body hk.2.2.2)
  | .while c b, hk => by
      simp only [OkStmt] at hk
      exact rt_while h hk.1 (stmts_rt b hk.2)
  | .ifte c t e, hk => by
      simp only [OkStmt] at hk
      exact rt_if h hk.1 (stmts_rt t hk.2.1) (else_rt e hk.2.2) (follow_gElse e)
  | .select e cs d, hk => by
      simp only [OkStmt] at hk
      exact rt_select h hk.1 hk.2.1 (cases_rt cs hk.2.2.1) (stmts_rt d hk.2.2.2)
  | .assoc bs b, hk => by
      simp only [OkStmt] at hk
      exact rt_assoc h hk.1 hk.2.1 (stmts_rt b hk.2.2)
  | .callSub g args, hk => rt_call h g (by simpa [OkStmt] using hk)
  | .print args, hk => rt_print h (by simpa [OkStmt] using hk)
  | .exit, _ => rt_exit
  | .cycle, _ => rt_cycle
  | .nop p t, _ => rt_nop p t
theorem stmts_rt : ∀ (ss : List (Stmt X)), OkStmts P ss → StmtsRT (pe := pe) (re := re) (φ := φ) st isOne ss
  | [], _ => stmtsRT_nil
  | s :: ss, hk => by
      simp only [OkStmts] at hk
      exact stmtsRT_cons (stmt_rt s hk.1) (stmts_rt ss hk.2)
theorem else_rt : ∀ (e : List (Stmt X)), OkStmts P e → ElseRT (pe := pe) (re := re) (φ := φ) st isOne e
  | [], _ => else_nil
  | [s], hk => by
      simp only [OkStmts, and_true] at hk
      have hrt := stmt_rt s hk
      cases s with
      | ifte c t e =>
        simp only [OkStmt] at hk
        exact else_if h hk.1 (stmts_rt t hk.2.1) (else_rt e hk.2.2) (follow_gElse e)
      | _ => exact else_block (stmtsRT_cons hrt stmtsRT_nil) (by intro rest; simp [gElse, Stmt.isIf, gStmts])
  | s :: s' :: ss, hk => by
      simp only [OkStmts] at hk
      exact else_block (stmtsRT_cons (stmt_rt s hk.1) (stmtsRT_cons (stmt_rt s' hk.2.1) (stmts_rt ss hk.2.2)))
        (by intro rest; simp [gElse, gStmts])
theorem cases_rt : ∀ (cs : List (List Int × List (Stmt X))), OkCases P cs → CasesRT (pe := pe) (re := re) (φ := φ) st isOne cs
  | [], _ => cases_nil
  | (vs, b) :: cs, hk => by
      simp only [OkCases] at hk
      exact cases_cons hk.1 hk.2.1 (stmts_rt b hk.2.2.1) (cases_rt cs hk.2.2.2) (gCases_head cs)
end

end
end LokiModel.C02
