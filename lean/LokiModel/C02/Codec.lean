import LokiModel.Sexp
import LokiModel.C02.Model
import LokiModel.C06.Model
/-!
# C02: units, declarations, the expression reader that builds frontend-shaped trees, and the wire format

Infrastructure + the parts of the model that are tied to the real code by correspondence only (no theorem):
`parseE` (reference expression parser producing the tree shapes the FP frontend produces: binary `Sum`/`Product`,
`a - b` as `Sum((a, Product((-1, b))))`, `-a` as `Product((-1, a))`, source parentheses around sums, products,
quotients and powers as `Parenthesised*`, parentheses around anything else dropped), declarations and the
`SUBROUTINE` frame, `denE` (what `fir.export_unit` makes of a Loki expression), and the known-class flags.
-/
namespace LokiModel.C02
open LokiModel.Expr LokiModel.C06 Sexp

/-! ### expression reader (frontend shapes) -/

def parenthesise : E → E
  | .sum _ xs => .sum true xs
  | .prod _ xs => .prod true xs
  | .quot _ a b => .quot true a b
  | .pow _ a b => .pow true a b
  | t => t

abbrev RE := E × List Tok

def negE (x : E) : E := .prod false [.pyint (-1), x]

mutual
def eOr : Nat → List Tok → Option RE
  | 0, _ => none
  | f+1, ts => (eAnd f ts).bind fun x => eOrRest f x.1 x.2
def eOrRest : Nat → E → List Tok → Option RE
  | 0, _, _ => none
  | f+1, acc, ts =>
    match ts with
    | Tok.or :: r => (eAnd f r).bind fun x => eOrRest f (.lor [acc, x.1]) x.2
    | _ => some (acc, ts)
def eAnd : Nat → List Tok → Option RE
  | 0, _ => none
  | f+1, ts => (eNot f ts).bind fun x => eAndRest f x.1 x.2
def eAndRest : Nat → E → List Tok → Option RE
  | 0, _, _ => none
  | f+1, acc, ts =>
    match ts with
    | Tok.and :: r => (eNot f r).bind fun x => eAndRest f (.land [acc, x.1]) x.2
    | _ => some (acc, ts)
def eNot : Nat → List Tok → Option RE
  | 0, _ => none
  | f+1, ts =>
    match ts with
    | Tok.not :: r => (eCmp f r).bind fun x => some (.lnot x.1, x.2)
    | _ => eCmp f ts
def eCmp : Nat → List Tok → Option RE
  | 0, _ => none
  | f+1, ts => (eAdd f ts).bind fun x =>
    match x.2 with
    | Tok.cmp o :: r => (eAdd f r).bind fun y => some (.cmp o x.1 y.1, y.2)
    | _ => some x
def eAdd : Nat → List Tok → Option RE
  | 0, _ => none
  | f+1, ts =>
    match ts with
    | Tok.minus :: r => (eMul f r).bind fun x => eAddRest f (negE x.1) x.2
    | _ => (eMul f ts).bind fun x => eAddRest f x.1 x.2
def eAddRest : Nat → E → List Tok → Option RE
  | 0, _, _ => none
  | f+1, acc, ts =>
    match ts with
    | Tok.plus :: r => (eMul f r).bind fun x => eAddRest f (.sum false [acc, x.1]) x.2
    | Tok.minus :: r => (eMul f r).bind fun x => eAddRest f (.sum false [acc, negE x.1]) x.2
    | _ => some (acc, ts)
def eMul : Nat → List Tok → Option RE
  | 0, _ => none
  | f+1, ts => (ePow f ts).bind fun x => eMulRest f x.1 x.2
def eMulRest : Nat → E → List Tok → Option RE
  | 0, _, _ => none
  | f+1, acc, ts =>
    match ts with
    | Tok.star :: r => (ePow f r).bind fun x => eMulRest f (.prod false [acc, x.1]) x.2
    | Tok.slash :: r => (ePow f r).bind fun x => eMulRest f (.quot false acc x.1) x.2
    | _ => some (acc, ts)
def ePow : Nat → List Tok → Option RE
  | 0, _ => none
  | f+1, ts => (ePrim f ts).bind fun x =>
    match x.2 with
    | Tok.pow :: r => (ePow f r).bind fun y => some (.pow false x.1 y.1, y.2)
    | _ => some x
def ePrim : Nat → List Tok → Option RE
  | 0, _ => none
  | f+1, ts =>
    match ts with
    | Tok.num n :: r => some (.ilit n, r)
    | Tok.rnum t :: r => some (.rlit t, r)
    | Tok.id s :: r => some (.var s, r)
    | Tok.tru :: r => some (.blit true, r)
    | Tok.fls :: r => some (.blit false, r)
    | Tok.lp :: r => (eOr f r).bind fun x =>
        match x.2 with
        | Tok.rp :: r' => some (parenthesise x.1, r')
        | _ => none
    | _ => none
end

/-- the reader used by the driver: own fuel, whole slot -/
def reE (_ : Nat) (ts : List Tok) : Option E :=
  match eOr (12 * ts.length + 12) ts with
  | some (t, []) => some t
  | _ => none

def isOneE : E → Bool
  | .ilit 1 => true
  | .pyint 1 => true
  | _ => false

def peE (t : E) : List Tok := printF fcfg t 0

/-! ### declarations and units -/

structure LDecl where
  ty : String                        -- integer | real | logical
  intent : Option String             -- in | out | inout
  param : Option E
  name : String
  dims : List (Option E × E)         -- (lower bound if written, upper bound)

structure LUnit where
  name : String
  args : List String
  decls : List LDecl
  body : List (Stmt E)

def gDecl (d : LDecl) : Line :=
  [kw d.ty] ++ (match d.intent with | some i => [.comma, kw "intent", .e .lp, kw i, .e .rp] | none => []) ++
    (match d.param with | some _ => [.comma, kw "parameter"] | none => []) ++ [.dcolon, kw d.name] ++
    (match d.dims with
     | [] => []
     | ds => [.e .lp] ++ commaSep (ds.map fun d =>
          (match d.1 with | some lo => ex (peE lo) ++ [.colon] | none => []) ++ ex (peE d.2)) ++ [.e .rp]) ++
    (match d.param with | some v => [.assign] ++ ex (peE v) | none => [])

def gUnit (st : Style) (u : LUnit) : List Line :=
  [[kw "subroutine", kw u.name, .e .lp] ++ commaSep (u.args.map fun a => [kw a]) ++ [.e .rp], [kw "implicit", kw "none"]] ++
    u.decls.map gDecl ++ gStmts st peE isOneE u.body ++ [[kw "end", kw "subroutine", kw u.name]]

def splitColon : Line → Option (Option Line × Line)
  | l => match l.span (· != .colon) with
    | (a, []) => some (none, a)
    | (a, _ :: b) => some (some a, b)

def pDim (l : Line) : Option (Option E × E) := do
  let (lo, hi) ← splitColon l
  let hi ← rdE reE 0 hi
  match lo with
  | none => pure (none, hi)
  | some lo => pure (some (← rdE reE 0 lo), hi)

def pDims : List Line → Option (List (Option E × E))
  | [] => some []
  | l :: ls => do pure ((← pDim l) :: (← pDims ls))

/-- attributes between the type word and `::` -/
def pAttrs : Line → Option (Option String × Bool)
  | [] => some (none, false)
  | .comma :: .e (.id "intent") :: .e .lp :: .e (.id i) :: .e .rp :: r => (pAttrs r).map fun x => (some i, x.2)
  | .comma :: .e (.id "parameter") :: r => (pAttrs r).map fun x => (x.1, true)
  | _ => none

def pDecl (l : Line) : Option LDecl :=
  match l with
  | .e (.id ty) :: r =>
    if ty = "integer" ∨ ty = "real" ∨ ty = "logical" then
      match r.span (· != .dcolon) with
      | (attrs, _ :: .e (.id name) :: rest) => do
          let (intent, isParam) ← pAttrs attrs
          let (dimPart, valPart) := rest.span (· != .assign)
          let dims ← (match dimPart with
            | [] => some []
            | .e .lp :: r' => (splitLast r').bind fun x => if x.2 = .e .rp then pDims (splitComma x.1) else none
            | _ => none)
          let param ← (match valPart, isParam with
            | [], false => some none
            | _ :: v, true => (rdE reE 0 v).map some
            | _, _ => none)
          pure { ty := ty, intent := intent, param := param, name := name, dims := dims }
      | _ => none
    else none
  | _ => none

def pDecls : List Line → List LDecl × List Line
  | [] => ([], [])
  | l :: ls =>
    match pDecl l with
    | some d => let r := pDecls ls; (d :: r.1, r.2)
    | none => ([], l :: ls)

def unName : Line → Option String
  | [.e (.id a)] => some a
  | _ => none

def unNames : List Line → Option (List String)
  | [] => some []
  | l :: ls => do pure ((← unName l) :: (← unNames ls))

def isEndSub : Line → Bool
  | [.e (.id "end"), .e (.id "subroutine"), .e (.id _)] => true
  | _ => false

/-- all units of a text: `subroutine` … `end subroutine`, one after the other -/
def pUnits : Nat → List Line → Option (List LUnit)
  | 0, _ => none
  | _+1, [] => some []
  | f+1, l :: ls =>
    match l with
    | .e (.id "subroutine") :: .e (.id name) :: .e .lp :: r => do
        let (a, p) ← splitLast r
        if p ≠ .e .rp then none
        let args ← if a = [] then some [] else unNames (splitComma a)
        let (inner, rest) := ls.span (fun x => !isEndSub x)
        match rest with
        | e :: rest' =>
          if e ≠ [kw "end", kw "subroutine", kw name] then none
          match inner with
          | [.e (.id "implicit"), .e (.id "none")] :: inner' =>
            let (decls, bodyLines) := pDecls inner'
            let (body, left) ← pStmts reE (bodyLines.length + 5) bodyLines
            if left ≠ [] then none
            let us ← pUnits f rest'
            pure ({ name := name, args := args, decls := decls, body := body } :: us)
          | _ => none
        | [] => none
    | _ => none

/-! ### denotation: what `fir.export_unit` makes of the IR -/

def sx (h : String) (xs : List Sexp) : Sexp := list (atom h :: xs)

/-- exact rational of an unsigned real literal text `ddd.ddd[e[+-]dd]` -/
def ratOfText (t : String) : Option Sexp :=
  let t := t.map fun c => if c = 'd' then 'e' else c
  let (mant, exp) := match t.splitOn "e" with
    | [m] => (m, some (0 : Int))
    | [m, e] => (m, (if e.startsWith "+" then (e.drop 1).toNat?.map Int.ofNat
                     else if e.startsWith "-" then (e.drop 1).toNat?.map fun n => -(Int.ofNat n)
                     else e.toNat?.map Int.ofNat))
    | _ => ("", none)
  match exp, mant.splitOn "." with
  | some ex, [a] => (a.toNat?).map fun n =>
      let q : Rat := (n : Rat) * (if ex ≥ 0 then ((10 : Rat) ^ ex.toNat) else 1 / ((10 : Rat) ^ (-ex).toNat))
      sx "r" [ofInt q.num, ofNat q.den]
  | some ex, [a, b] =>
      let a := if a = "" then "0" else a
      let digits := a ++ b
      (digits.toNat?).map fun n =>
        let q : Rat := (n : Rat) / ((10 : Rat) ^ b.length) * (if ex ≥ 0 then ((10 : Rat) ^ ex.toNat) else 1 / ((10 : Rat) ^ (-ex).toNat))
        sx "r" [ofInt q.num, ofNat q.den]
  | _, _ => none

def cmpName : CmpOp → String
  | .eq => "eq" | .ne => "ne" | .lt => "lt" | .le => "le" | .gt => "gt" | .ge => "ge"

def bin (o : String) (a b : Sexp) : Sexp := sx "bin" [atom o, a, b]

def foldBin (o : String) : Sexp → List Sexp → Sexp
  | acc, [] => acc
  | acc, x :: xs => foldBin o (bin o acc x) xs

mutual
def denE : E → Option Sexp
  | .ilit n => if n < 0 then none else some (sx "i" [ofInt n])
  | .pyint n => some (sx "i" [ofInt n])
  | .rlit t => ratOfText t
  | .blit b => some (sx "b" [ofBool b])
  | .var s => some (sx "v" [atom s])
  | .sum _ xs => denSum xs none
  | .prod _ (.pyint (-1) :: y :: ys) => do
      let ys ← denEs (y :: ys)
      match ys with
      | z :: zs => pure (sx "neg" [foldBin "mul" z zs])
      | [] => none
  | .prod _ xs => do
      let ys ← denEs xs
      match ys with
      | z :: zs => pure (foldBin "mul" z zs)
      | [] => none
  | .quot _ a b => do pure (bin "div" (← denE a) (← denE b))
  | .pow _ a b => do pure (bin "pow" (← denE a) (← denE b))
  | .cmp o a b => do pure (bin (cmpName o) (← denE a) (← denE b))
  | .lnot a => do pure (sx "not" [← denE a])
  | .land xs => do
      match (← denEs xs) with
      | z :: zs => pure (foldBin "and" z zs)
      | [] => none
  | .lor xs => do
      match (← denEs xs) with
      | z :: zs => pure (foldBin "or" z zs)
      | [] => none
def denEs : List E → Option (List Sexp)
  | [] => some []
  | x :: xs => do pure ((← denE x) :: (← denEs xs))
/-- children of a `Sum`: an unparenthesised `Product((-1, …))` is a subtraction (a negation in first position) -/
def denSum : List E → Option Sexp → Option Sexp
  | [], acc => acc
  | .prod false (.pyint (-1) :: y :: ys) :: r, acc => do
      let zs ← denEs (y :: ys)
      match zs with
      | z :: zs' =>
        let m := foldBin "mul" z zs'
        denSum r (some (match acc with | some a => bin "sub" a m | none => sx "neg" [m]))
      | [] => none
  | x :: r, acc => do
      let v ← denE x
      denSum r (some (match acc with | some a => bin "add" a v | none => v))
end

def optE : Option E → Option Sexp
  | none => some (atom "none")
  | some e => denE e

def mapM' {α β} (f : α → Option β) : List α → Option (List β)
  | [] => some []
  | x :: xs => do pure ((← f x) :: (← mapM' f xs))

mutual
def denStmt : Stmt E → Option Sexp
  | .assign x r => do pure (sx "assign" [sx "v" [atom x], ← denE r])
  | .doLoop v lo hi step body => do
      pure (sx "do" [atom v, ← denE lo, ← denE hi, ← optE step, list (← denStmts body)])
  | .while c b => do pure (sx "while" [← denE c, list (← denStmts b)])
  | .ifte c t e => do pure (sx "if" [← denE c, list (← denStmts t), list (← denStmts e)])
  | .select e cs d => do pure (sx "select" [← denE e, list (← denCases cs), list (← denStmts d)])
  | .assoc bs b => do
      pure (sx "assoc" [list (← mapM' (fun (x : String × E) => (denE x.2).map fun v => list [atom x.1, v]) bs), list (← denStmts b)])
  | .callSub g args => do pure (sx "callsub" (atom g :: (← denEs args)))
  | .print args => do pure (sx "print" (← denEs args))
  | .exit => some (sx "exit" [])
  | .cycle => some (sx "cycle" [])
  | .nop p t => some (sx "nop" [atom (if p then "pragma" else "comment"), str t])
def denStmts : List (Stmt E) → Option (List Sexp)
  | [] => some []
  | s :: ss => do
      let rest ← denStmts ss
      match s with
      | .nop false "" => pure rest          -- the exporter drops empty comments
      | _ => pure ((← denStmt s) :: rest)
def denCases : List (List Int × List (Stmt E)) → Option (List Sexp)
  | [] => some []
  | (vs, b) :: cs => do pure (list [list (vs.map ofInt), list (← denStmts b)] :: (← denCases cs))
end

def tyName : String → String
  | "integer" => "int"
  | t => t

def denDecl (d : LDecl) : Option Sexp := do
  let dims ← mapM' (fun (x : Option E × E) => do
      let lo ← (match x.1 with | some l => denE l | none => some (sx "i" [ofInt 1]))
      pure (list [lo, ← denE x.2])) d.dims
  pure (sx "decl" [atom d.name, atom (tyName d.ty), atom (d.intent.getD "none"), list dims, ← optE d.param])

def denUnit (u : LUnit) : Option Sexp := do
  pure (sx "unit" [atom u.name, list (u.args.map atom), list (← mapM' denDecl u.decls), list (← denStmts u.body)])

/-! ### known-class flags (mirrored by `fir_flags` in harness/props/c02.py) -/

mutual
def flagsE : E → List String
  | .sum _ xs => flagsEs xs
  | .prod _ xs => flagsEs xs
  | .quot _ a b => flagsE a ++ flagsE b
  | .pow _ a b => flagsE a ++ flagsE b
  | .cmp _ a b => flagsE a ++ flagsE b
  | .lnot a => (match a with | .lnot _ => ["double-not-unparsable"] | _ => []) ++ flagsE a
  | .land xs => (match xs with | [_, .land _] => ["logical-regroup"] | _ => []) ++ flagsEs xs
  | .lor xs => (match xs with | [_, .lor _] => ["logical-regroup"] | _ => []) ++ flagsEs xs
  | _ => []
def flagsEs : List E → List String
  | [] => []
  | x :: xs => flagsE x ++ flagsEs xs
end

mutual
def flagsStmt : Stmt E → List String
  | .assign _ r => flagsE r
  | .doLoop _ lo hi step body =>
      flagsE lo ++ flagsE hi ++ (match step with
        | some s => (if isOneE s then ["do-step-one-dropped"] else []) ++ flagsE s
        | none => []) ++ flagsStmts body
  | .while c b => flagsE c ++ flagsStmts b
  | .ifte c t e => flagsE c ++ flagsStmts t ++ flagsStmts e
  | .select e cs d => flagsE e ++ flagsCases cs ++ flagsStmts d
  | .assoc bs b => flagsEs (bs.map (·.2)) ++ flagsStmts b
  | .callSub _ args => flagsEs args
  | .print args => flagsEs args
  | _ => []
def flagsStmts : List (Stmt E) → List String
  | [] => []
  | s :: ss => flagsStmt s ++ flagsStmts ss
def flagsCases : List (List Int × List (Stmt E)) → List String
  | [] => []
  | (_, b) :: cs => flagsStmts b ++ flagsCases cs
end

def flagsUnit (u : LUnit) : List String :=
  flagsStmts u.body ++ flagsEs (u.decls.flatMap fun d => (d.dims.flatMap fun x => (match x.1 with | some l => [l] | none => []) ++ [x.2])
    ++ (match d.param with | some v => [v] | none => []))

def knownFlags (us : List LUnit) : List String :=
  let all := us.flatMap flagsUnit
  ["do-step-one-dropped", "double-not-unparsable", "logical-regroup"].filter fun c => all.contains c

/-! ### wire format of token lines -/

def decTok : Sexp → Option STok
  | str s => some (kw s)
  | list [atom "r", str t] => some (.e (.rnum t))
  | list [atom "cmt", str t] => some (.cmt t)
  | list [atom "prg", str t] => some (.prg t)
  | atom "plus" => some (.e .plus) | atom "minus" => some (.e .minus) | atom "star" => some (.e .star)
  | atom "slash" => some (.e .slash) | atom "pow" => some (.e .pow) | atom "lp" => some (.e .lp) | atom "rp" => some (.e .rp)
  | atom "eq" => some (.e (.cmp .eq)) | atom "ne" => some (.e (.cmp .ne)) | atom "lt" => some (.e (.cmp .lt))
  | atom "le" => some (.e (.cmp .le)) | atom "gt" => some (.e (.cmp .gt)) | atom "ge" => some (.e (.cmp .ge))
  | atom "not" => some (.e .not) | atom "and" => some (.e .and) | atom "or" => some (.e .or)
  | atom "true" => some (.e .tru) | atom "false" => some (.e .fls)
  | atom "comma" => some .comma | atom "colon" => some .colon | atom "dcolon" => some .dcolon
  | atom "assign" => some .assign | atom "arrow" => some .arrow
  | x => x.toNat?.map fun n => .e (.num n)

def encTok : STok → Sexp
  | .e (.num n) => ofNat n
  | .e (.rnum t) => list [atom "r", str t]
  | .e (.id s) => str s
  | .e .tru => atom "true" | .e .fls => atom "false"
  | .e .plus => atom "plus" | .e .minus => atom "minus" | .e .star => atom "star" | .e .slash => atom "slash"
  | .e .pow => atom "pow" | .e .lp => atom "lp" | .e .rp => atom "rp"
  | .e (.cmp o) => atom (cmpName o)
  | .e .not => atom "not" | .e .and => atom "and" | .e .or => atom "or"
  | .comma => atom "comma" | .colon => atom "colon" | .dcolon => atom "dcolon" | .assign => atom "assign" | .arrow => atom "arrow"
  | .cmt t => list [atom "cmt", str t]
  | .prg t => list [atom "prg", str t]

def decLine : Sexp → Option Line
  | list ts => mapM' decTok ts
  | _ => none

end LokiModel.C02
