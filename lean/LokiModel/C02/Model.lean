import LokiModel.Expr.Basic
import LokiModel.Generated.C02Tables
/-!
# C02 model: the statement-level Fortran printer (`fgen`) and the reference statement parser

Covered class.  One `SUBROUTINE` per unit, statements of the kinds below, every expression slot an element of an
arbitrary expression type `X` that comes with a token printer `pe : X → List Tok` (for Loki: `printF fcfg · 0` of C06)
— the development is PARAMETRIC in the expression language, so that it can be instantiated with C06's trees.

`gStmts st pe isOne` mirrors `FortranCodegen.visit_*` of `loki/backend/fgen.py` line by line, producing token lines
(spacing, indentation, case of keywords and line continuation are removed by the harness lexer):

* `visit_Assignment` `x = e`; `visit_Loop` `DO v=lo,hi[,step]` … `END DO`/`ENDDO` where `FCodeMapper.map_loop_range`
  drops a step whose text is `1` (`isOne`); `visit_WhileLoop` `DO WHILE (c)`; `visit_Conditional` with the `has_elseif`
  chain (`ELSE IF (c) THEN` printed by visiting the else body with `is_elseif=True`, one `END IF`/`ENDIF` at the end of
  the chain, `ELSE` only for a non-empty else body); `visit_MultiConditional` `SELECT CASE (e)` / `CASE (v, …)` /
  `CASE DEFAULT` (only for a non-empty default) / `END SELECT`; `visit_Associate`; `visit_CallStatement`;
  `PRINT *, …` (`visit_Intrinsic` text); `EXIT`, `CYCLE`; `visit_Comment` / `visit_Pragma` (pragma texts without
  parentheses — with parentheses `visit_Pragma` re-assembles the text, known class `pragma-args-respaced`).
* not covered: inline `IF`, construct names, labels, `WHERE`, everything outside FIR.

`pStmts re` is the reference statement parser (recursive descent over lines, fuel-bounded), parametric in an expression
reader `re : Nat → List Tok → Option Y`; it builds the statement shapes the FP frontend builds (`has_elseif` chains as a
single nested conditional in the else branch, `CASE DEFAULT`, written at any position among the CASE blocks, as `else_body`).  An empty `CASE` block and a `SELECT CASE`
without `CASE` are rejected (the frontend mis-pairs / crashes there: outside the covered class).  Core Lean only.
-/
namespace LokiModel.C02
open LokiModel.Expr

/-- tokens of a statement line: expression tokens plus the punctuation that only statements use -/
inductive STok where
  | e (t : Tok)
  | comma | colon | dcolon | assign | arrow
  | cmt (s : String)      -- a comment line (text after `!`)
  | prg (s : String)      -- a pragma line (text after `!$`)
deriving Repr, DecidableEq, Inhabited

abbrev Line := List STok

/-- the style switches `fgen` reads for the covered statements -/
structure Style where
  loopEndSpace : Bool
  condEndSpace : Bool
deriving Repr, DecidableEq

def fortranStyle : Style := ⟨Tables.fortranLoopEndSpace, Tables.fortranCondEndSpace⟩
def ifsStyle : Style := ⟨Tables.ifsLoopEndSpace, Tables.ifsCondEndSpace⟩

inductive Stmt (X : Type) where
  | assign (x : String) (rhs : X)
  | doLoop (v : String) (lo hi : X) (step : Option X) (body : List (Stmt X))
  | while (c : X) (body : List (Stmt X))
  | ifte (c : X) (thn els : List (Stmt X))
  | select (e : X) (cases : List (List Int × List (Stmt X))) (dflt : List (Stmt X))
  | assoc (binds : List (String × X)) (body : List (Stmt X))
  | callSub (f : String) (args : List X)
  | print (args : List X)
  | exit
  | cycle
  | nop (pragma : Bool) (text : String)

def kw (s : String) : STok := .e (.id s)
def ex (ts : List Tok) : Line := ts.map .e

/-- `a, b, c` -/
def commaSep : List Line → Line
  | [] => []
  | [a] => a
  | a :: b :: r => a ++ [.comma] ++ commaSep (b :: r)

def intTok (n : Int) : Line := if n < 0 then [.e .minus, .e (.num n.natAbs)] else [.e (.num n.toNat)]

def Stmt.isIf {X} : Stmt X → Bool
  | .ifte .. => true
  | _ => false

section printer
variable {X : Type} (st : Style) (pe : X → List Tok) (isOne : X → Bool)

def endDo : Line := if st.loopEndSpace then [kw "end", kw "do"] else [kw "enddo"]
def endIf : Line := if st.condEndSpace then [kw "end", kw "if"] else [kw "endif"]
def ifHead (elseIf : Bool) (c : X) : Line :=
  (if elseIf then [kw "else"] else []) ++ [kw "if", .e .lp] ++ ex (pe c) ++ [.e .rp, kw "then"]
def doHead (v : String) (lo hi : X) (step : Option X) : Line :=
  [kw "do", kw v, .assign] ++ ex (pe lo) ++ [.comma] ++ ex (pe hi) ++
    (match step with
     | some s => if isOne s then [] else [.comma] ++ ex (pe s)
     | none => [])
def bindTok (b : String × X) : Line := [kw b.1, .arrow] ++ ex (pe b.2)

mutual
/-- `elseIf` = the conditional is printed as the `ELSE IF` continuation of an enclosing chain (`is_elseif=True`) -/
def gStmt (elseIf : Bool) : Stmt X → List Line
  | .assign x r => [[kw x, .assign] ++ ex (pe r)]
  | .doLoop v lo hi step body => [doHead pe isOne v lo hi step] ++ gStmts body ++ [endDo st]
  | .while c body => [[kw "do", kw "while", .e .lp] ++ ex (pe c) ++ [.e .rp]] ++ gStmts body ++ [endDo st]
  | .ifte c t e => [ifHead pe elseIf c] ++ gStmts t ++ gElse e
  | .select e cs d =>
      [[kw "select", kw "case", .e .lp] ++ ex (pe e) ++ [.e .rp]] ++ gCases cs ++
        (match d with
         | [] => []
         | s :: ss => [[kw "case", kw "default"]] ++ gStmt false s ++ gStmts ss) ++ [[kw "end", kw "select"]]
  | .assoc bs body =>
      [[kw "associate", .e .lp] ++ commaSep (bs.map (bindTok pe)) ++ [.e .rp]] ++ gStmts body ++ [[kw "end", kw "associate"]]
  | .callSub f args => [[kw "call", kw f, .e .lp] ++ commaSep (args.map fun a => ex (pe a)) ++ [.e .rp]]
  | .print args => [[kw "print", .e .star] ++ (args.map fun a => [STok.comma] ++ ex (pe a)).flatten]
  | .exit => [[kw "exit"]]
  | .cycle => [[kw "cycle"]]
  | .nop p t => [[if p then .prg t else .cmt t]]
def gStmts : List (Stmt X) → List Line
  | [] => []
  | s :: ss => gStmt false s ++ gStmts ss
/-- the rest of a conditional after its body: the `ELSE IF` chain, `ELSE`, and the single `END IF` -/
def gElse : List (Stmt X) → List Line
  | [] => [endIf st]
  | [s] => if s.isIf then gStmt true s else [[kw "else"]] ++ gStmt false s ++ [endIf st]
  | s :: s' :: ss => [[kw "else"]] ++ gStmt false s ++ gStmt false s' ++ gStmts ss ++ [endIf st]
def gCases : List (List Int × List (Stmt X)) → List Line
  | [] => []
  | (vs, b) :: cs => [[kw "case", .e .lp] ++ commaSep (vs.map intTok) ++ [.e .rp]] ++ gStmts b ++ gCases cs
end

end printer

/-! ### the normal form reached by one write/read: a DO step that `fgen` does not print is gone -/
section norm
variable {X : Type} (isOne : X → Bool)

def normStep : Option X → Option X
  | some s => if isOne s then none else some s
  | none => none

mutual
def normStmt : Stmt X → Stmt X
  | .doLoop v lo hi step body => .doLoop v lo hi (normStep isOne step) (normStmts body)
  | .while c body => .while c (normStmts body)
  | .ifte c t e => .ifte c (normStmts t) (normStmts e)
  | .select e cs d => .select e (normCases cs) (normStmts d)
  | .assoc bs body => .assoc bs (normStmts body)
  | s => s
def normStmts : List (Stmt X) → List (Stmt X)
  | [] => []
  | s :: ss => normStmt s :: normStmts ss
def normCases : List (List Int × List (Stmt X)) → List (List Int × List (Stmt X))
  | [] => []
  | (vs, b) :: cs => (vs, normStmts b) :: normCases cs
end
end norm

/-! ### mapping the expression slots -/
section map
variable {X Y : Type} (φ : X → Y)

mutual
def mapStmt : Stmt X → Stmt Y
  | .assign x r => .assign x (φ r)
  | .doLoop v lo hi step body => .doLoop v (φ lo) (φ hi) (step.map φ) (mapStmts body)
  | .while c body => .while (φ c) (mapStmts body)
  | .ifte c t e => .ifte (φ c) (mapStmts t) (mapStmts e)
  | .select e cs d => .select (φ e) (mapCases cs) (mapStmts d)
  | .assoc bs body => .assoc (mapBinds bs) (mapStmts body)
  | .callSub f args => .callSub f (mapArgs args)
  | .print args => .print (mapArgs args)
  | .exit => .exit
  | .cycle => .cycle
  | .nop p t => .nop p t
def mapStmts : List (Stmt X) → List (Stmt Y)
  | [] => []
  | s :: ss => mapStmt s :: mapStmts ss
def mapCases : List (List Int × List (Stmt X)) → List (List Int × List (Stmt Y))
  | [] => []
  | (vs, b) :: cs => (vs, mapStmts b) :: mapCases cs
def mapBinds : List (String × X) → List (String × Y)
  | [] => []
  | (z, x) :: bs => (z, φ x) :: mapBinds bs
def mapArgs : List X → List Y
  | [] => []
  | x :: xs => φ x :: mapArgs xs
end
end map

/-! ### the reference parser -/

/-- the expression tokens of a slot (fails on statement punctuation) -/
def unE : Line → Option (List Tok)
  | [] => some []
  | .e t :: r => (unE r).map (t :: ·)
  | _ => none

/-- split at commas (expression slots of the covered class contain none) -/
def splitComma : Line → List Line
  | [] => [[]]
  | .comma :: r => [] :: splitComma r
  | t :: r =>
    match splitComma r with
    | [] => [[t]]
    | a :: as => (t :: a) :: as

/-- `xs ++ [a]` ↦ `(xs, a)` -/
def splitLast {α} (l : List α) : Option (List α × α) :=
  match l.reverse with
  | a :: r => some (r.reverse, a)
  | [] => none

def parseInt : Line → Option Int
  | [.e (.num n)] => some (n : Int)
  | [.e .minus, .e (.num n)] => if n = 0 then none else some (-(n : Int))
  | _ => none

def parseInts : List Line → Option (List Int)
  | [] => some []
  | l :: ls => do pure ((← parseInt l) :: (← parseInts ls))

/-- lines that end a statement list -/
def isTerm : Line → Bool
  | [.e (.id "end"), .e (.id _)] => true
  | [.e (.id "enddo")] => true
  | [.e (.id "endif")] => true
  | [.e (.id "else")] => true
  | .e (.id "else") :: .e (.id "if") :: .e .lp :: _ => true
  | .e (.id "case") :: .e .lp :: _ => true
  | [.e (.id "case"), .e (.id "default")] => true
  | _ => false

def isEndDo : Line → Bool
  | [.e (.id "end"), .e (.id "do")] => true
  | [.e (.id "enddo")] => true
  | _ => false

def isEndIf : Line → Bool
  | [.e (.id "end"), .e (.id "if")] => true
  | [.e (.id "endif")] => true
  | _ => false

section parser
variable {Y : Type} (re : Nat → List Tok → Option Y)

def rdE (f : Nat) (l : Line) : Option Y := (unE l).bind (re f)

def rdEs (f : Nat) : List Line → Option (List Y)
  | [] => some []
  | l :: ls => do pure ((← rdE re f l) :: (← rdEs f ls))

def rdBind (f : Nat) : Line → Option (String × Y)
  | .e (.id z) :: .arrow :: r => (rdE re f r).map fun y => (z, y)
  | _ => none

def rdBinds (f : Nat) : List Line → Option (List (String × Y))
  | [] => some []
  | l :: ls => do pure ((← rdBind re f l) :: (← rdBinds f ls))

/-- `( c ) then` ↦ `c` -/
def rdCond (f : Nat) (r : Line) : Option Y := do
  let (r1, t) ← splitLast r
  let (c, p) ← splitLast r1
  if t = kw "then" ∧ p = .e .rp then rdE re f c else none

/-- statements that occupy one line -/
def pSimple (f : Nat) : Line → Option (Stmt Y)
  | .e (.id x) :: .assign :: r => (rdE re f r).map (.assign x)
  | .e (.id "call") :: .e (.id g) :: .e .lp :: r => do
      let (a, p) ← splitLast r
      if p = .e .rp then
        (if a = [] then some (.callSub g []) else (rdEs re f (splitComma a)).map (.callSub g))
      else none
  | .e (.id "print") :: .e .star :: r =>
      (match r with
       | [] => some (.print [])
       | .comma :: r' => (rdEs re f (splitComma r')).map .print
       | _ => none)
  | [.e (.id "exit")] => some .exit
  | [.e (.id "cycle")] => some .cycle
  | [.cmt t] => some (.nop false t)
  | [.prg t] => some (.nop true t)
  | _ => none

/-- the control part of `do v = lo, hi [, step]` -/
def rdDo (f : Nat) (r : Line) : Option (Y × Y × Option Y) :=
  match splitComma r with
  | [lo, hi] => do pure (← rdE re f lo, ← rdE re f hi, none)
  | [lo, hi, s] => do pure (← rdE re f lo, ← rdE re f hi, some (← rdE re f s))
  | _ => none

mutual
/-- statements up to (not including) the next terminator line, or to the end -/
def pStmts : Nat → List Line → Option (List (Stmt Y) × List Line)
  | 0, _ => none
  | _+1, [] => some ([], [])
  | f+1, l :: ls =>
      if isTerm l then some ([], l :: ls)
      else (pStmt f l ls).bind fun x => (pStmts f x.2).bind fun y => some (x.1 :: y.1, y.2)
def pStmt : Nat → Line → List Line → Option (Stmt Y × List Line)
  | 0, _, _ => none
  | f+1, l, ls =>
    match l with
    | .e (.id "do") :: .e (.id "while") :: .e .lp :: r =>
        (splitLast r).bind fun cr =>
          if cr.2 = .e .rp then
            (rdE re f cr.1).bind fun c => (pStmts f ls).bind fun b =>
              match b.2 with
              | e :: rest => if isEndDo e then some (.while c b.1, rest) else none
              | [] => none
          else none
    | .e (.id "do") :: .e (.id v) :: .assign :: r =>
        (rdDo re f r).bind fun d => (pStmts f ls).bind fun b =>
          match b.2 with
          | e :: rest => if isEndDo e then some (.doLoop v d.1 d.2.1 d.2.2 b.1, rest) else none
          | [] => none
    | .e (.id "if") :: .e .lp :: r =>
        (rdCond re f r).bind fun c => (pStmts f ls).bind fun t => (pElse f t.2).bind fun e =>
          some (.ifte c t.1 e.1, e.2)
    | .e (.id "select") :: .e (.id "case") :: .e .lp :: r =>
        (splitLast r).bind fun cr =>
          if cr.2 = .e .rp then
            (rdE re f cr.1).bind fun e => (pCases f ls).bind fun cs =>
              match cs.1 with
              | [] => none
              | _ :: _ => some (.select e cs.1 cs.2.1, cs.2.2)
          else none
    | .e (.id "associate") :: .e .lp :: r =>
        (splitLast r).bind fun cr =>
          if cr.2 = .e .rp then
            (rdBinds re f (splitComma cr.1)).bind fun bs => (pStmts f ls).bind fun b =>
              match b.2 with
              | e :: rest => if e = [kw "end", kw "associate"] then some (.assoc bs b.1, rest) else none
              | [] => none
          else none
    | _ => (pSimple re f l).map fun s => (s, ls)
/-- after the body of a conditional: `ELSE IF` chain / `ELSE` / `END IF`; returns the else branch -/
def pElse : Nat → List Line → Option (List (Stmt Y) × List Line)
  | 0, _ => none
  | _+1, [] => none
  | f+1, l :: ls =>
    if isEndIf l then some ([], ls)
    else match l with
    | [.e (.id "else")] =>
        (pStmts f ls).bind fun b =>
          match b.2 with
          | e :: rest => if isEndIf e then some (b.1, rest) else none
          | [] => none
    | .e (.id "else") :: .e (.id "if") :: .e .lp :: r =>
        (rdCond re f r).bind fun c => (pStmts f ls).bind fun t => (pElse f t.2).bind fun e =>
          some ([.ifte c t.1 e.1], e.2)
    | _ => none
/-- the blocks of a `SELECT CASE`: cases, default body, rest after `END SELECT` -/
def pCases : Nat → List Line → Option (List (List Int × List (Stmt Y)) × List (Stmt Y) × List Line)
  | 0, _ => none
  | _+1, [] => none
  | f+1, l :: ls =>
    if l = [kw "end", kw "select"] then some ([], [], ls)
    else if l = [kw "case", kw "default"] then
      -- `CASE DEFAULT` may be written anywhere among the CASE blocks (once); its block becomes the else body and the
      -- other blocks keep their order (`visit_Case_Construct`: `values.index('DEFAULT')`)
      (pStmts f ls).bind fun b =>
        match b.1 with
        | [] => none
        | _ :: _ => (pCases f b.2).bind fun cs =>
            match cs.2.1 with
            | [] => some (cs.1, b.1, cs.2.2)
            | _ :: _ => none
    else match l with
    | .e (.id "case") :: .e .lp :: r =>
        (splitLast r).bind fun cr =>
          if cr.2 = .e .rp then
            (parseInts (splitComma cr.1)).bind fun vs => (pStmts f ls).bind fun b =>
              match b.1 with
              | [] => none          -- an empty CASE block: the frontend mis-pairs the bodies (outside the covered class)
              | _ :: _ => (pCases f b.2).bind fun cs => some ((vs, b.1) :: cs.1, cs.2.1, cs.2.2)
          else none
    | _ => none
end

end parser

end LokiModel.C02
