import LokiModel.C02.Model
/-!
# C02: properties of `norm` and of slot mapping
-/
namespace LokiModel.C02
open LokiModel.Expr

section
variable {X : Type} (isOne : X → Bool)

theorem normStep_idem (s : Option X) : normStep isOne (normStep isOne s) = normStep isOne s := by
  cases s with
  | none => rfl
  | some x => by_cases h : isOne x = true <;> simp [normStep, h]

mutual
theorem normStmt_idem : ∀ s : Stmt X, normStmt isOne (normStmt isOne s) = normStmt isOne s
  | .assign .. => by simp [normStmt]
  | .doLoop v lo hi step body => by simp [normStmt, normStep_idem, normStmts_idem body]
  | .while c b => by simp [normStmt, normStmts_idem b]
  | .ifte c t e => by simp [normStmt, normStmts_idem t, normStmts_idem e]
  | .select e cs d => by simp [normStmt, normCases_idem cs, normStmts_idem d]
  | .assoc bs b => by simp [normStmt, normStmts_idem b]
  | .callSub .. => by simp [normStmt]
  | .print .. => by simp [normStmt]
  | .exit => by simp [normStmt]
  | .cycle => by simp [normStmt]
  | .nop .. => by simp [normStmt]
theorem normStmts_idem : ∀ ss : List (Stmt X), normStmts isOne (normStmts isOne ss) = normStmts isOne ss
  | [] => by simp [normStmts]
  | s :: ss => by simp [normStmts, normStmt_idem s, normStmts_idem ss]
theorem normCases_idem : ∀ cs : List (List Int × List (Stmt X)), normCases isOne (normCases isOne cs) = normCases isOne cs
  | [] => by simp [normCases]
  | (vs, b) :: cs => by simp [normCases, normStmts_idem b, normCases_idem cs]
end

theorem doHead_norm (pe : X → List Tok) (v : String) (lo hi : X) (step : Option X) :
    doHead pe isOne v lo hi (normStep isOne step) = doHead pe isOne v lo hi step := by
  cases step with
  | none => rfl
  | some x => by_cases h : isOne x = true <;> simp [doHead, normStep, h]

variable (st : Style) (pe : X → List Tok)

theorem isIf_norm (s : Stmt X) : (normStmt isOne s).isIf = s.isIf := by
  cases s <;> simp [normStmt, Stmt.isIf]

mutual
/-- printing does not see the normalisation -/
theorem gStmt_norm : ∀ (b : Bool) (s : Stmt X), gStmt st pe isOne b (normStmt isOne s) = gStmt st pe isOne b s
  | _, .assign .. => by simp [normStmt]
  | _, .doLoop v lo hi step body => by simp [normStmt, gStmt, doHead_norm, gStmts_norm body]
  | _, .while c b => by simp [normStmt, gStmt, gStmts_norm b]
  | _, .ifte c t e => by simp [normStmt, gStmt, gStmts_norm t, gElse_norm e]
  | _, .select e cs d => by
      cases d with
      | nil => simp [normStmt, normStmts, gStmt, gCases_norm cs]
      | cons s ss =>
        have h1 := gStmt_norm false s
        have h2 := gStmts_norm ss
        simp [normStmt, normStmts, gStmt, gCases_norm cs, h1, h2]
  | _, .assoc bs b => by simp [normStmt, gStmt, gStmts_norm b]
  | _, .callSub .. => by simp [normStmt]
  | _, .print .. => by simp [normStmt]
  | _, .exit => by simp [normStmt]
  | _, .cycle => by simp [normStmt]
  | _, .nop .. => by simp [normStmt]
theorem gStmts_norm : ∀ ss : List (Stmt X), gStmts st pe isOne (normStmts isOne ss) = gStmts st pe isOne ss
  | [] => by simp [normStmts]
  | s :: ss => by simp [normStmts, gStmts, gStmt_norm false s, gStmts_norm ss]
theorem gElse_norm : ∀ e : List (Stmt X), gElse st pe isOne (normStmts isOne e) = gElse st pe isOne e
  | [] => by simp [normStmts]
  | [s] => by
      have h1 := gStmt_norm true s
      have h2 := gStmt_norm false s
      simp [normStmts, gElse, isIf_norm, h1, h2]
  | s :: s' :: ss => by
      simp [normStmts, gElse, gStmt_norm false s, gStmt_norm false s', gStmts_norm ss]
theorem gCases_norm : ∀ cs : List (List Int × List (Stmt X)), gCases st pe isOne (normCases isOne cs) = gCases st pe isOne cs
  | [] => by simp [normCases]
  | (vs, b) :: cs => by simp [normCases, gCases, gStmts_norm b, gCases_norm cs]
end
end

section
variable {X : Type}

theorem mapArgs_id : ∀ xs : List X, mapArgs (fun x => x) xs = xs
  | [] => rfl
  | x :: xs => by simp [mapArgs, mapArgs_id xs]

theorem mapBinds_id : ∀ bs : List (String × X), mapBinds (fun x => x) bs = bs
  | [] => rfl
  | (z, x) :: bs => by simp [mapBinds, mapBinds_id bs]

mutual
theorem mapStmt_id : ∀ s : Stmt X, mapStmt (fun x => x) s = s
  | .assign .. => by simp [mapStmt]
  | .doLoop v lo hi step body => by cases step <;> simp [mapStmt, mapStmts_id body]
  | .while c b => by simp [mapStmt, mapStmts_id b]
  | .ifte c t e => by simp [mapStmt, mapStmts_id t, mapStmts_id e]
  | .select e cs d => by simp [mapStmt, mapCases_id cs, mapStmts_id d]
  | .assoc bs b => by simp [mapStmt, mapBinds_id, mapStmts_id b]
  | .callSub .. => by simp [mapStmt, mapArgs_id]
  | .print .. => by simp [mapStmt, mapArgs_id]
  | .exit => by simp [mapStmt]
  | .cycle => by simp [mapStmt]
  | .nop .. => by simp [mapStmt]
theorem mapStmts_id : ∀ ss : List (Stmt X), mapStmts (fun x => x) ss = ss
  | [] => by simp [mapStmts]
  | s :: ss => by simp [mapStmts, mapStmt_id s, mapStmts_id ss]
theorem mapCases_id : ∀ cs : List (List Int × List (Stmt X)), mapCases (fun x => x) cs = cs
  | [] => by simp [mapCases]
  | (vs, b) :: cs => by simp [mapCases, mapStmts_id b, mapCases_id cs]
end
end

end LokiModel.C02
