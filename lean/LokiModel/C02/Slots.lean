import LokiModel.C02.Lemmas
/-!
# C02: reading back the expression slots of one line
-/
namespace LokiModel.C02
open LokiModel.Expr

/-- the control part of a DO head line -/
def doTail {X} (pe : X → List Tok) (isOne : X → Bool) (lo hi : X) (step : Option X) : Line :=
  ex (pe lo) ++ [.comma] ++ ex (pe hi) ++
    (match step with
     | some s => if isOne s then [] else [.comma] ++ ex (pe s)
     | none => [])

theorem doHead_eq {X} (pe : X → List Tok) (isOne : X → Bool) (v : String) (lo hi : X) (step : Option X) :
    doHead pe isOne v lo hi step = kw "do" :: kw v :: .assign :: doTail pe isOne lo hi step := by
  cases step <;> simp [doHead, doTail]

section
variable {X Y : Type} (pe : X → List Tok) (re : Nat → List Tok → Option Y) (φ : X → Y) (P : X → Prop)

/-- the hypothesis on the expression level: printed expressions of the class `P` are non-empty token lists and are read
back (for every large enough fuel) as `φ x` -/
structure ExprRT : Prop where
  ne : ∀ x, P x → pe x ≠ []
  rd : ∀ x, P x → Ev (fun f => re f (pe x)) (φ x)

variable {pe re φ P}

theorem rdE_ex (h : ExprRT pe re φ P) {x : X} (hx : P x) : Ev (fun f => rdE re f (ex (pe x))) (φ x) := by
  refine Ev.congr (fun f => ?_) (h.rd x hx)
  simp [rdE, unE_ex]

theorem rdEs_map (h : ExprRT pe re φ P) (args : List X) (ha : ∀ a ∈ args, P a) :
    Ev (fun f => rdEs re f (args.map fun a => ex (pe a))) (mapArgs φ args) := by
  induction args with
  | nil => exact Ev.pure fun f => rfl
  | cons a r ih =>
    have h1 := rdE_ex h (ha a (by simp))
    have h2 := ih (fun b hb => ha b (List.mem_cons_of_mem _ hb))
    obtain ⟨f1, g1⟩ := h1; obtain ⟨f2, g2⟩ := h2
    refine ⟨max f1 f2, fun f hle => ?_⟩
    simp [rdEs, mapArgs, g1 f (by omega), g2 f (by omega)]

theorem rdBinds_map (h : ExprRT pe re φ P) (bs : List (String × X)) (hb : ∀ b ∈ bs, P b.2) :
    Ev (fun f => rdBinds re f (bs.map (bindTok pe))) (mapBinds φ bs) := by
  induction bs with
  | nil => exact Ev.pure fun f => rfl
  | cons b r ih =>
    obtain ⟨z, x⟩ := b
    have h1 := rdE_ex h (hb (z, x) (by simp))
    have h2 := ih (fun b hb' => hb b (List.mem_cons_of_mem _ hb'))
    obtain ⟨f1, g1⟩ := h1; obtain ⟨f2, g2⟩ := h2
    refine ⟨max f1 f2, fun f hle => ?_⟩
    simp [rdBinds, rdBind, bindTok, kw, mapBinds, g1 f (by omega), g2 f (by omega)]

theorem rdCond_ex (h : ExprRT pe re φ P) {c : X} (hc : P c) :
    Ev (fun f => rdCond re f (ex (pe c) ++ [.e .rp, kw "then"])) (φ c) := by
  refine Ev.congr (fun f => ?_) (rdE_ex h hc)
  have e1 : ex (pe c) ++ [STok.e Tok.rp, kw "then"] = (ex (pe c) ++ [STok.e Tok.rp]) ++ [kw "then"] := by simp
  unfold rdCond
  rw [e1, splitLast_append]
  simp only [Option.bind_some, Option.pure_def, bind, splitLast_append]
  simp

theorem ex_ne_nil (h : ExprRT pe re φ P) {x : X} (hx : P x) : ex (pe x) ≠ [] := by
  have := h.ne x hx
  simp [ex, this]

theorem rdDo_ex (h : ExprRT pe re φ P) (isOne : X → Bool) {lo hi : X} (step : Option X) (hlo : P lo) (hhi : P hi)
    (hs : ∀ s, step = some s → P s) :
    Ev (fun f => rdDo re f (doTail pe isOne lo hi step)) (φ lo, φ hi, (normStep isOne step).map φ) := by
  unfold doTail
  obtain ⟨f1, g1⟩ := rdE_ex h hlo
  obtain ⟨f2, g2⟩ := rdE_ex h hhi
  have two : splitComma (ex (pe lo) ++ STok.comma :: ex (pe hi)) = [ex (pe lo), ex (pe hi)] := by
    have := splitComma_commaSep (ex (pe lo)) [ex (pe hi)] (by intro x hx; simp at hx; rcases hx with rfl | rfl <;> exact noComma_ex _)
    simpa [commaSep] using this
  cases step with
  | none =>
    refine ⟨max f1 f2, fun f hle => ?_⟩
    have a1 : rdE re f (ex (pe lo)) = some (φ lo) := g1 f (by omega)
    have a2 : rdE re f (ex (pe hi)) = some (φ hi) := g2 f (by omega)
    simp only [List.append_assoc, List.singleton_append, List.append_nil, rdDo, two]
    simp [a1, a2, normStep]
  | some s =>
    by_cases ho : isOne s = true
    · refine ⟨max f1 f2, fun f hle => ?_⟩
      have a1 : rdE re f (ex (pe lo)) = some (φ lo) := g1 f (by omega)
      have a2 : rdE re f (ex (pe hi)) = some (φ hi) := g2 f (by omega)
      simp only [ho, if_true, List.append_assoc, List.singleton_append, List.append_nil, rdDo, two]
      simp [a1, a2, normStep, ho]
    · obtain ⟨f3, g3⟩ := rdE_ex h (hs s rfl)
      have three : splitComma (ex (pe lo) ++ STok.comma :: (ex (pe hi) ++ STok.comma :: ex (pe s))) = [ex (pe lo), ex (pe hi), ex (pe s)] := by
        have := splitComma_commaSep (ex (pe lo)) [ex (pe hi), ex (pe s)]
          (by intro x hx; simp at hx; rcases hx with rfl | rfl | rfl <;> exact noComma_ex _)
        simpa [commaSep] using this
      refine ⟨max f1 (max f2 f3), fun f hle => ?_⟩
      have a1 : rdE re f (ex (pe lo)) = some (φ lo) := g1 f (by omega)
      have a2 : rdE re f (ex (pe hi)) = some (φ hi) := g2 f (by omega)
      have a3 : rdE re f (ex (pe s)) = some (φ s) := g3 f (by omega)
      have ho' : isOne s = false := by simpa using ho
      simp only [ho', Bool.false_eq_true, if_false, List.append_assoc, List.singleton_append, List.cons_append, List.nil_append, List.append_nil, rdDo]
      rw [three]
      simp [a1, a2, a3, normStep, ho']

end
end LokiModel.C02
