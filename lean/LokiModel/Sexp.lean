/-!
# S-expressions: the wire format of the line protocol (infrastructure, not model)

One request per line, one response per line.  `atom` = bare word, `str` = quoted string
(with `\"`, `\\`, `\n` escapes), `list` = parenthesised sequence.
Core Lean only, so that drivers can be run with `lean --run` or linked as executables.
-/

inductive Sexp where
  | atom (s : String)
  | str (s : String)
  | list (xs : List Sexp)
deriving Repr, Inhabited, BEq

namespace Sexp

private def escape (s : String) : String :=
  String.ofList (s.toList.flatMap fun c =>
    if c = '"' then ['\\', '"'] else if c = '\\' then ['\\', '\\']
    else if c = '\n' then ['\\', 'n'] else [c])

mutual
partial def render : Sexp → String
  | atom s => s
  | str s => "\"" ++ escape s ++ "\""
  | list xs => "(" ++ " ".intercalate (renderList xs) ++ ")"
partial def renderList : List Sexp → List String
  | [] => []
  | x :: xs => render x :: renderList xs
end

instance : ToString Sexp := ⟨render⟩

/-- parser state: stack of reversed partial lists -/
private structure PState where
  stack : List (List Sexp) := [[]]
  ok : Bool := true

private def push (st : PState) (x : Sexp) : PState :=
  match st.stack with
  | cur :: rest => { st with stack := (x :: cur) :: rest }
  | [] => { st with ok := false }

private def isDelim (c : Char) : Bool := c = ' ' || c = '\t' || c = '\n' || c = '\r' || c = '(' || c = ')'

/-- mode: 0 = between tokens, 1 = in bare atom (acc), 2 = in string (acc), 3 = in string after backslash -/
private def go : List Char → Nat → List Char → PState → PState
  | [], mode, acc, st =>
      if mode = 1 then push st (atom (String.ofList acc.reverse))
      else if mode = 0 then st else { st with ok := false }
  | c :: cs, 0, _, st =>
      if c = '(' then go cs 0 [] { st with stack := [] :: st.stack }
      else if c = ')' then
        match st.stack with
        | cur :: parent :: rest => go cs 0 [] { st with stack := (list cur.reverse :: parent) :: rest }
        | _ => { st with ok := false }
      else if c = '"' then go cs 2 [] st
      else if isDelim c then go cs 0 [] st
      else go cs 1 [c] st
  | c :: cs, 1, acc, st =>
      if isDelim c then go (c :: cs) 0 [] (push st (atom (String.ofList acc.reverse)))
      else go cs 1 (c :: acc) st
  | c :: cs, 2, acc, st =>
      if c = '"' then go cs 0 [] (push st (str (String.ofList acc.reverse)))
      else if c = '\\' then go cs 3 acc st
      else go cs 2 (c :: acc) st
  | c :: cs, _, acc, st =>
      go cs 2 ((if c = 'n' then '\n' else c) :: acc) st
termination_by cs mode => (cs.length, if mode = 1 then 1 else 0)

/-- parse exactly one S-expression from a line -/
def parse (s : String) : Option Sexp :=
  let st := go s.toList 0 [] {}
  if st.ok then
    match st.stack with
    | [[x]] => some x
    | _ => none
  else none

def toInt? : Sexp → Option Int
  | atom s => s.toInt?
  | _ => none

def toNat? : Sexp → Option Nat
  | atom s => s.toNat?
  | _ => none

def toStr? : Sexp → Option String
  | atom s => some s
  | str s => some s
  | _ => none

def ofInt (i : Int) : Sexp := atom (toString i)
def ofNat (n : Nat) : Sexp := atom (toString n)
def ofBool (b : Bool) : Sexp := atom (if b then "true" else "false")
def ofInts (xs : List Int) : Sexp := list (xs.map ofInt)

def toBool? : Sexp → Option Bool
  | atom "true" => some true
  | atom "false" => some false
  | _ => none

def toList? : Sexp → Option (List Sexp)
  | list xs => some xs
  | _ => none

end Sexp

/-- Generic line loop: read a line, parse, apply `step`, print.  Unparsable lines give `(error parse)`;
requests the handler does not understand give `(error bad-op)`. -/
partial def driverLoop (h : IO.FS.Stream) (out : IO.FS.Stream) (step : Sexp → Option Sexp) : IO Unit := do
  let line ← h.getLine
  if line.isEmpty then return ()
  let t := line.trimAscii.toString
  if t.isEmpty then driverLoop h out step else
  match Sexp.parse t with
  | none => out.putStrLn "(error parse)"
  | some req =>
    match step req with
    | some r => out.putStrLn (toString r)
    | none => out.putStrLn "(error bad-op)"
  driverLoop h out step

def driverMain (step : Sexp → Option Sexp) : IO Unit := do
  driverLoop (← IO.getStdin) (← IO.getStdout) step
