import LokiModel.C19.Reader
/-!
# C20 — `SrcSpan`: `Source` objects on top of the `Reader` model (loki/frontend/source.py)

* `stmtSource`      — `FortranReader.source_from_current_line`: lines `l1..l2` of the (stripped) source joined by `\n`
* `cloneWithSpan`   — `Source.clone_with_span`
* `cloneWithString` — `Source.clone_with_string` given the result of `find` (the search itself — `str.find` on the
                      lower-cased text and the blank-insensitive fallback — is evaluated on the real objects only)
* `joinSourceList`  — `join_source_list` (missing lines padded with `\n`, overlaps clamped to 0)
-/
namespace LokiModel.C20
open LokiModel.C19

structure Source where
  l1 : Nat
  l2 : Nat
  str : List Char
deriving Repr, DecidableEq

def countNl (s : List Char) : Nat := s.count '\n'
def slice (s : List Char) (a b : Nat) : List Char := (s.take b).drop a

/-- `'\n'.join(lines)` -/
def joinNl : List Line → List Char
  | [] => []
  | [l] => l
  | l :: ls => l ++ '\n' :: joinNl ls

/-- `source_from_current_line`: `Source(lines=line.span, string='\n'.join(source_lines[start:end+1]))` -/
def stmtSource (lines : List Line) (it : Item) : Source :=
  ⟨it.l1, it.l2, joinNl ((lines.take it.l2).drop (it.l1 - 1))⟩

/-- `Source.clone_with_span((a, b))` -/
def cloneWithSpan (s : Source) (a b : Nat) : Source :=
  let sub := slice s.str a b
  let ls := s.l1 + countNl (s.str.take a)
  ⟨ls, ls + countNl sub, sub⟩

/-- `Source.clone_with_string(string)`: `found = some (a, b)` is what `find` returned -/
def cloneWithString (s : Source) (string : List Char) (found : Option (Nat × Nat)) : Source :=
  match found with
  | some (a, b) => cloneWithSpan s a b
  | none => ⟨s.l1, s.l2, string⟩

/-- `join_source_list` -/
def joinSourceList : List Source → Option Source
  | [] => none
  | s :: rest => some (rest.foldl (fun acc x =>
      let newlines := x.l1 - acc.l2
      ⟨acc.l1, x.l2, acc.str ++ List.replicate newlines '\n' ++ x.str⟩) s)

/-- the text really spans the recorded lines -/
def Consistent (s : Source) : Prop := s.l2 = s.l1 + countNl s.str

end LokiModel.C20
