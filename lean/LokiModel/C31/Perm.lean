import LokiModel.C31.Nest
/-!
# C31: interchange permutes (variable, range) pairs — lemmas for `permuteSpecs`
-/
namespace LokiModel.C31
open LokiModel.Fir

theorem permuteSpecs_suffix (specs : List Spec) (hnd : (specs.map (·.v)).Nodup) :
    ∀ (suf pre : List Spec), specs = pre ++ suf →
      (suf.map (·.v)).filterMap (fun nm => specs.find? fun sp => sp.v == nm) = suf
  | [], _, _ => rfl
  | s :: suf', pre, h => by
      have hfind : (specs.find? fun sp => sp.v == s.v) = some s := by
        subst h
        rw [List.find?_append]
        have hpre : (pre.find? fun sp => sp.v == s.v) = none := by
          rw [List.find?_eq_none]
          intro x hx hxs
          have hxv : x.v = s.v := by simpa using hxs
          simp only [List.map_append, List.map_cons] at hnd
          rw [List.nodup_append] at hnd
          exact hnd.2.2 x.v (List.mem_map_of_mem hx) s.v (List.mem_cons_self) hxv
        simp [hpre]
      simp only [List.map_cons, List.filterMap_cons, hfind]
      congr 1
      exact permuteSpecs_suffix specs hnd suf' (pre ++ [s]) (by rw [h]; simp)

/-- with distinct loop variables, asking for the loops in their current order changes nothing -/
theorem permuteSpecs_self (specs : List Spec) (hnd : (specs.map (·.v)).Nodup) :
    permuteSpecs (specs.map (·.v)) specs = specs :=
  permuteSpecs_suffix specs hnd specs [] rfl

end LokiModel.C31
