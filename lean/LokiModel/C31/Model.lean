import LokiModel.Fir.Subst
import LokiModel.C10.Model
/-!
# C31 model: loop transformations of `loki/transformations/transform_loop.py` on FIR programs

## Unrolling (`do_loop_unroll`, `PragmaLoopUnrollTransformer`, `LoopUnrollTransformer`)

The real pipeline is `pragmas_attached(routine, Loop)` → `PragmaLoopUnrollTransformer.visit(routine.body)` → detach.
The model follows it in three passes over `List Stmt`:

1. `attach` mirrors `PragmaAttacher.visit_tuple` for `node_type = Loop`: a run of pragma nops directly in front of a loop becomes
   that loop's `pragma` (nop kind `pragma@pre`), a run of pragma nops after a loop that is followed by a non-loop statement (or
   by the end of the list) becomes its `pragma_post` (kind `pragma@post`).  Marking the kind (instead of building a second
   syntax tree) keeps the attachment stable when copies of loop bodies are spliced into the parent list, which is what happens
   in the real code, where attachment is a property of the `Loop` node.
2. `pVisitList` = `PragmaLoopUnrollTransformer`: a loop whose attached pragmas contain `loki loop-unroll[ depth(n)]` is handed
   to `uVisitLoop` (= `LoopUnrollTransformer.visit_Loop`), the result is visited again; other nodes are rebuilt with visited
   children.  `uVisitLoop` mirrors the code line by line: `depth` is decremented first; literal bounds (`is_constant`: an
   integer literal, possibly with minus prefixes) → `get_pyrange` (the C10 model) → `neighbour_loops`, `counter_in_bounds`
   → either "visit the body, then substitute" or "substitute, then visit the copies"; non-literal bounds → the loop is kept,
   its `loop-unroll` pragmas are dropped from `pragma` and `pragma_post`, the body is visited with the decremented depth
   (so a literal loop below a non-literal one is unrolled whatever `depth` says — as in the real code).
   An unrolled loop loses all its attached pragmas (`pragma` and `pragma_post`), as in the real code.
3. `detach` renames the nop kinds back.

Covered input language: everything FIR has.  Restrictions (generator and correspondence stay inside them): at most one
`loki loop-unroll` pragma per loop, written in lower case, with content `loop-unroll` or `loop-unroll depth(<digits>)`;
loop variables are not assigned inside their loop (Fortran forbids it) and not reused by a nested loop;
steps are non-zero (`get_pyrange` raises `ValueError` for a zero step; the model keeps the loop).
The traversal uses a fuel for the nesting depth (`2 * size + 4`, never exhausted: every descent goes to a strictly
smaller nesting depth even after copies were substituted).

## Fusion, fission, interchange (simple classes, for correspondence; see the docstrings below)
Core Lean only.
-/
namespace LokiModel.C31
open LokiModel.Fir
open LokiModel.Expr (Val)

/-! ### expressions -/

/-- the FIR form of Loki's `IntLiteral(k)` as the exporter produces it (negative literals are `(neg (i n))`) -/
def litInt (k : Int) : Ex := if k < 0 then .neg (.lit (.int (-k))) else .lit (.int k)

/-- `is_constant` on a loop bound, with the value `LokiEvaluationMapper` computes: an integer literal under minus prefixes -/
def constInt : Ex → Option Int
  | .lit (.int n) => some n
  | .neg e => (constInt e).map fun n => -n
  | _ => none

mutual
/-- the scalar variable `x` occurs in `e` (`FindVariables`, compared with `==` against a `Scalar`) -/
def mentionsE (x : String) : Ex → Bool
  | .lit _ => false
  | .var y => y == x
  | .idx _ subs => mentionsEs x subs
  | .sec _ dims => mentionsDims x dims
  | .neg a => mentionsE x a
  | .not a => mentionsE x a
  | .bin _ a b => mentionsE x a || mentionsE x b
  | .call _ args => mentionsEs x args
def mentionsEs (x : String) : List Ex → Bool
  | [] => false
  | e :: es => mentionsE x e || mentionsEs x es
def mentionsDims (x : String) : List Dim → Bool
  | [] => false
  | .at e :: ds => mentionsE x e || mentionsDims x ds
  | .rng lo hi st :: ds => mentionsO x lo || mentionsO x hi || mentionsO x st || mentionsDims x ds
def mentionsO (x : String) : Option Ex → Bool
  | none => false
  | some e => mentionsE x e
end

/-! ### statements: `SubstituteExpressions({v: IntLiteral(k)})` -/

def substBinds (x : String) (r : Ex) : List (String × Ex) → List (String × Ex)
  | [] => []
  | (n, e) :: bs => (n, substE x r e) :: substBinds x r bs

mutual
def substStmt (x : String) (r : Ex) : Stmt → Stmt
  | .assign l rhs => .assign (substE x r l) (substE x r rhs)
  | .doLoop v lo hi st body => .doLoop v (substE x r lo) (substE x r hi) (substO x r st) (substStmts x r body)
  | .while c body => .while (substE x r c) (substStmts x r body)
  | .ifte c t e => .ifte (substE x r c) (substStmts x r t) (substStmts x r e)
  | .select e cs d => .select (substE x r e) (substCases x r cs) (substStmts x r d)
  | .assoc bs body => .assoc (substBinds x r bs) (substStmts x r body)
  | .callSub f args => .callSub f (substEs x r args)
  | .print args => .print args      -- Loki keeps PRINT as an `Intrinsic` node (text): `SubstituteExpressions` does not reach it
  | .exit => .exit
  | .cycle => .cycle
  | .nop k t => .nop k t
def substStmts (x : String) (r : Ex) : List Stmt → List Stmt
  | [] => []
  | s :: ss => substStmt x r s :: substStmts x r ss
def substCases (x : String) (r : Ex) : List (List Int × List Stmt) → List (List Int × List Stmt)
  | [] => []
  | (vs, b) :: cs => (vs, substStmts x r b) :: substCases x r cs
end

/-- the unrolled form of `do v = …` over the values `ks`: one copy of the body per value, the loop variable replaced by the literal -/
def unrollCopies (v : String) (body : List Stmt) (ks : List Int) : List Stmt :=
  ks.flatMap fun k => substStmts v (litInt k) body

/-! ### pragmas -/

def kPragma := "pragma"
def kPre := "pragma@pre"
def kPost := "pragma@post"

def isPragmaNop : Stmt → Bool
  | .nop k _ => k == kPragma
  | _ => false

def isLoop : Stmt → Bool
  | .doLoop .. => true
  | _ => false

def rekind (k : String) : Stmt → Stmt
  | .nop _ t => .nop k t
  | s => s

/-- `PragmaAttacher.visit_tuple` on one list (children already processed): `pend` = pragmas collected, `acc` = `updated`, reversed -/
def attachGo : List Stmt → List Stmt → List Stmt → List Stmt
  | pend, acc, [] =>
      match acc with
      | last :: _ =>
          if isLoop last then
            -- leftover pragmas become pragma_post of the last node when it is a loop
            ((pend.map (rekind kPost)).reverse ++ acc).reverse
          else (pend.reverse ++ acc).reverse
      | [] => pend
  | pend, acc, s :: rest =>
      if isPragmaNop s then attachGo (pend ++ [s]) acc rest
      else if pend.isEmpty then attachGo [] (s :: acc) rest
      else if isLoop s then attachGo [] (s :: (pend.map (rekind kPre)).reverse ++ acc) rest
      else
        match acc with
        | last :: _ =>
            if isLoop last then
              attachGo [] (s :: (pend.map (rekind kPost)).reverse ++ acc) rest
            else attachGo [] (s :: pend.reverse ++ acc) rest
        | [] => attachGo [] (s :: pend.reverse ++ acc) rest

mutual
def attachStmt : Stmt → Stmt
  | .doLoop v lo hi st body => .doLoop v lo hi st (attachGo [] [] (attachStmts body))
  | .while c body => .while c (attachGo [] [] (attachStmts body))
  | .ifte c t e => .ifte c (attachGo [] [] (attachStmts t)) (attachGo [] [] (attachStmts e))
  | .select e cs d => .select e (attachCases cs) (attachGo [] [] (attachStmts d))
  | .assoc bs body => .assoc bs (attachGo [] [] (attachStmts body))
  | s => s
def attachStmts : List Stmt → List Stmt
  | [] => []
  | s :: ss => attachStmt s :: attachStmts ss
def attachCases : List (List Int × List Stmt) → List (List Int × List Stmt)
  | [] => []
  | (vs, b) :: cs => (vs, attachGo [] [] (attachStmts b)) :: attachCases cs
end

def attach (ss : List Stmt) : List Stmt := attachGo [] [] (attachStmts ss)

mutual
def detachStmt : Stmt → Stmt
  | .doLoop v lo hi st body => .doLoop v lo hi st (detachStmts body)
  | .while c body => .while c (detachStmts body)
  | .ifte c t e => .ifte c (detachStmts t) (detachStmts e)
  | .select e cs d => .select e (detachCases cs) (detachStmts d)
  | .assoc bs body => .assoc bs (detachStmts body)
  | .nop k t => if k == kPre || k == kPost then .nop kPragma t else .nop k t
  | s => s
def detachStmts : List Stmt → List Stmt
  | [] => []
  | s :: ss => detachStmt s :: detachStmts ss
def detachCases : List (List Int × List Stmt) → List (List Int × List Stmt)
  | [] => []
  | (vs, b) :: cs => (vs, detachStmts b) :: detachCases cs
end

/-- a list element after attachment: a loop with its `pragma` / `pragma_post` texts, or any other statement -/
inductive Item where
  | grp (pre : List String) (v : String) (lo hi : Ex) (step : Option Ex) (body : List Stmt) (post : List String)
  | other (s : Stmt)

def itemsGo : List Item → List String → List Stmt → List Item
  | acc, pend, [] => ((pend.map fun t => Item.other (.nop kPre t)).reverse ++ acc).reverse
  | acc, pend, .nop k t :: rest =>
      if k == kPre then itemsGo acc (pend ++ [t]) rest
      else if k == kPost then
        match acc with
        | .grp p v lo hi st b post :: acc' => itemsGo (.grp p v lo hi st b (post ++ [t]) :: acc') pend rest
        | _ => itemsGo (.other (.nop k t) :: acc) pend rest
      else itemsGo (.other (.nop k t) :: (pend.map fun t => Item.other (.nop kPre t)).reverse ++ acc) [] rest
  | acc, pend, .doLoop v lo hi st body :: rest => itemsGo (.grp pend v lo hi st body [] :: acc) [] rest
  | acc, pend, s :: rest => itemsGo (.other s :: (pend.map fun t => Item.other (.nop kPre t)).reverse ++ acc) [] rest

def items (ss : List Stmt) : List Item := itemsGo [] [] ss

/-- pragma text as exported: `keyword content`; `is_loki_pragma(…, starts_with='loop-unroll')` -/
def isUnrollPragma (t : String) : Bool := t.startsWith "loki loop-unroll"

def digitsToNat (cs : List Char) : Option Nat :=
  if cs.isEmpty then none else
  cs.foldl (fun acc c => acc.bind fun n => if c.isDigit then some (n * 10 + (c.toNat - 48)) else none) (some 0)

/-- `depth(n)` parameter of `loki loop-unroll[ depth(n)]` -/
def pragmaDepth (t : String) : Option Int :=
  let rest := (t.drop "loki loop-unroll".length).trimAscii.toString
  if rest.startsWith "depth(" ∧ rest.endsWith ")" then
    (digitsToNat ((rest.drop 6).dropEnd 1).toString.toList).map fun n => (n : Int)
  else none

def unrollDepth (pre : List String) : Option Int :=
  match pre.find? isUnrollPragma with
  | some t => pragmaDepth t
  | none => none

mutual
/-- all loops in a statement list, any nesting (`FindNodes(Loop)`): does one of their bounds mention `x`? -/
def loopBoundsMention (x : String) : List Stmt → Bool
  | [] => false
  | s :: ss => loopBoundsMentionS x s || loopBoundsMention x ss
def loopBoundsMentionS (x : String) : Stmt → Bool
  | .doLoop _ lo hi st body => mentionsE x lo || mentionsE x hi || mentionsO x st || loopBoundsMention x body
  | .while _ body => loopBoundsMention x body
  | .ifte _ t e => loopBoundsMention x t || loopBoundsMention x e
  | .select _ cs d => loopBoundsMentionC x cs || loopBoundsMention x d
  | .assoc _ body => loopBoundsMention x body
  | _ => false
def loopBoundsMentionC (x : String) : List (List Int × List Stmt) → Bool
  | [] => false
  | (_, b) :: cs => loopBoundsMention x b || loopBoundsMentionC x cs
end

def preStmts (pre : List String) : List Stmt := pre.map fun t => .nop kPre t
def postStmts (post : List String) : List Stmt := post.map fun t => .nop kPost t

def stepConst : Option Ex → Option Int
  | none => some 1
  | some e => constInt e

/-- the decision of `LoopUnrollTransformer.visit_Loop`: the values to unroll over, when bounds and step are literal -/
def unrollRange (lo hi : Ex) (step : Option Ex) : Option (List Int) :=
  match constInt lo, constInt hi, stepConst step with
  | some l, some h, some _ => LokiModel.C10.getPyrange l h (step.bind constInt)
  | _, _, _ => none

mutual
/-- `LoopUnrollTransformer.visit` on a list (generic `Transformer` recursion with the `depth` keyword) -/
def uVisitList : Nat → Option Int → List Stmt → List Stmt
  | 0, _, ss => ss
  | f + 1, depth, ss => (items ss).flatMap (uVisitItem f depth)
def uVisitItem : Nat → Option Int → Item → List Stmt
  | 0, _, .grp pre v lo hi st body post => preStmts pre ++ [.doLoop v lo hi st body] ++ postStmts post
  | 0, _, .other s => [s]
  | f + 1, depth, .grp pre v lo hi st body post =>
      -- visit_Loop
      let depth' := depth.map fun d => d - 1
      let recurse := match depth' with | none => true | some d => decide (1 ≤ d)
      match unrollRange lo hi st with
      | some ks =>
          let neighbour := decide (1 < (body.filter isLoop).length)
          let counterInBounds := loopBoundsMention v body
          if !neighbour && !counterInBounds then
            let body' := if recurse then uVisitList f depth' body else body
            unrollCopies v body' ks
          else
            let acc := unrollCopies v body ks
            if recurse then uVisitList f depth' acc else acc
      | none =>
          preStmts (pre.filter fun t => !isUnrollPragma t) ++
            [.doLoop v lo hi st (uVisitList f depth' body)] ++
            postStmts (post.filter fun t => !isUnrollPragma t)
  | f + 1, depth, .other s =>
      match s with
      | .while c body => [.while c (uVisitList f depth body)]
      | .ifte c t e => [.ifte c (uVisitList f depth t) (uVisitList f depth e)]
      | .select e cs d => [.select e (cs.map fun c => (c.1, uVisitList f depth c.2)) (uVisitList f depth d)]
      | .assoc bs body => [.assoc bs (uVisitList f depth body)]
      | s => [s]
end

mutual
/-- `PragmaLoopUnrollTransformer.visit` on a list -/
def pVisitList : Nat → List Stmt → List Stmt
  | 0, ss => ss
  | f + 1, ss => (items ss).flatMap (pVisitItem f)
def pVisitItem : Nat → Item → List Stmt
  | 0, .grp pre v lo hi st body post => preStmts pre ++ [.doLoop v lo hi st body] ++ postStmts post
  | 0, .other s => [s]
  | f + 1, .grp pre v lo hi st body post =>
      if pre.any isUnrollPragma then
        -- unroll (with the pragma's depth), then visit the result again: either the nodes that replace the loop, or
        -- (bounds not literal) the rebuilt loop, which no longer carries the pragma
        pVisitList f (uVisitItem (f + 1) (unrollDepth pre) (.grp pre v lo hi st body post))
      else
        preStmts pre ++ [.doLoop v lo hi st (pVisitList f body)] ++ postStmts post
  | f + 1, .other s =>
      match s with
      | .while c body => [.while c (pVisitList f body)]
      | .ifte c t e => [.ifte c (pVisitList f t) (pVisitList f e)]
      | .select e cs d => [.select e (cs.map fun c => (c.1, pVisitList f c.2)) (pVisitList f d)]
      | .assoc bs body => [.assoc bs (pVisitList f body)]
      | s => [s]
end

mutual
def sizeStmt : Stmt → Nat
  | .doLoop _ _ _ _ body => 1 + sizeStmts body
  | .while _ body => 1 + sizeStmts body
  | .ifte _ t e => 1 + sizeStmts t + sizeStmts e
  | .select _ cs d => 1 + sizeCases cs + sizeStmts d
  | .assoc _ body => 1 + sizeStmts body
  | _ => 1
def sizeStmts : List Stmt → Nat
  | [] => 0
  | s :: ss => sizeStmt s + sizeStmts ss
def sizeCases : List (List Int × List Stmt) → Nat
  | [] => 0
  | (_, b) :: cs => sizeStmts b + sizeCases cs
end

/-- **`do_loop_unroll` on a routine body** -/
def unrollBody (ss : List Stmt) : List Stmt :=
  detachStmts (pVisitList (2 * sizeStmts ss + 4) (attach ss))

def mapUnits (f : List Stmt → List Stmt) (p : Program) : Program :=
  { p with units := p.units.map fun u => { u with body := f u.body } }

/-- `do_loop_unroll` applied to every routine of the program -/
def unrollProgram (p : Program) : Program := mapUnits unrollBody p


/-! ### decidable classes of known findings (Python mirrors in `harness/props/c31.py`) -/

mutual
/-- `x` occurs in the statements outside the bodies of `do x` loops -/
def mentionsFree (x : String) : List Stmt → Bool
  | [] => false
  | s :: ss => mentionsFreeS x s || mentionsFree x ss
def mentionsFreeS (x : String) : Stmt → Bool
  | .assign l r => mentionsE x l || mentionsE x r
  | .doLoop v lo hi st body =>
      mentionsE x lo || mentionsE x hi || mentionsO x st || (if v == x then false else mentionsFree x body)
  | .while c body => mentionsE x c || mentionsFree x body
  | .ifte c t e => mentionsE x c || mentionsFree x t || mentionsFree x e
  | .select e cs d => mentionsE x e || mentionsFreeC x cs || mentionsFree x d
  | .assoc bs body => (bs.any fun b => mentionsE x b.2) || mentionsFree x body
  | .callSub _ args => mentionsEs x args
  | .print args => mentionsEs x args
  | _ => false
def mentionsFreeC (x : String) : List (List Int × List Stmt) → Bool
  | [] => false
  | (_, b) :: cs => mentionsFree x b || mentionsFreeC x cs
end

mutual
/-- an EXIT / CYCLE that belongs to the enclosing loop (not nested in a further DO / WHILE) -/
def escapes : List Stmt → Bool
  | [] => false
  | s :: ss => escapesS s || escapes ss
def escapesS : Stmt → Bool
  | .exit => true
  | .cycle => true
  | .ifte _ t e => escapes t || escapes e
  | .select _ cs d => escapesC cs || escapes d
  | .assoc _ body => escapes body
  | _ => false
def escapesC : List (List Int × List Stmt) → Bool
  | [] => false
  | (_, b) :: cs => escapes b || escapesC cs
end

mutual
/-- a PRINT statement somewhere in the statements mentions `x` -/
def printMentions (x : String) : List Stmt → Bool
  | [] => false
  | s :: ss => printMentionsS x s || printMentions x ss
def printMentionsS (x : String) : Stmt → Bool
  | .print args => mentionsEs x args
  | .doLoop _ _ _ _ body => printMentions x body
  | .while _ body => printMentions x body
  | .ifte _ t e => printMentions x t || printMentions x e
  | .select _ cs d => printMentionsC x cs || printMentions x d
  | .assoc _ body => printMentions x body
  | _ => false
def printMentionsC (x : String) : List (List Int × List Stmt) → Bool
  | [] => false
  | (_, b) :: cs => printMentions x b || printMentionsC x cs
end

mutual
/-- an ASSOCIATE block somewhere in the statements mentions `x` (in a selector or in its body) -/
def assocMentions (x : String) : List Stmt → Bool
  | [] => false
  | s :: ss => assocMentionsS x s || assocMentions x ss
def assocMentionsS (x : String) : Stmt → Bool
  | .assoc bs body => (bs.any fun b => mentionsE x b.2) || mentionsFree x body
  | .doLoop _ _ _ _ body => assocMentions x body
  | .while _ body => assocMentions x body
  | .ifte _ t e => assocMentions x t || assocMentions x e
  | .select _ cs d => assocMentionsC x cs || assocMentions x d
  | _ => false
def assocMentionsC (x : String) : List (List Int × List Stmt) → Bool
  | [] => false
  | (_, b) :: cs => assocMentions x b || assocMentionsC x cs
end

mutual
/-- loops `do_loop_unroll` may unroll: marked by a `loki loop-unroll` pragma directly in front, or nested in such a loop
(an over-approximation of the real decision, which also looks at `depth` and the bounds): (variable, body) pairs.
`marked` = the run of pragmas directly in front contains the unroll pragma; `inside` = below a marked loop. -/
def candidates (inside : Bool) : Bool → List Stmt → List (String × List Stmt)
  | _, [] => []
  | marked, s :: ss =>
      match s with
      | .nop k t => if k == kPragma then candidates inside (marked || isUnrollPragma t) ss else candidates inside false ss
      | .doLoop v _ _ _ body =>
          (if inside || marked then [(v, body)] else []) ++ candidates (inside || marked) false body ++ candidates inside false ss
      | .while _ body => candidates inside false body ++ candidates inside false ss
      | .ifte _ t e => candidates inside false t ++ candidates inside false e ++ candidates inside false ss
      | .select _ cs d => candidatesC inside cs ++ candidates inside false d ++ candidates inside false ss
      | .assoc _ body => candidates inside false body ++ candidates inside false ss
      | _ => candidates inside false ss
def candidatesC (inside : Bool) : List (List Int × List Stmt) → List (String × List Stmt)
  | [] => []
  | (_, b) :: cs => candidates inside false b ++ candidatesC inside cs
end

/-- class `unroll-exit-cycle`: a loop that may be unrolled has an EXIT / CYCLE of its own -/
def KnownUnrollEscape (p : Program) : Bool :=
  p.units.any fun u => (candidates false false u.body).any fun c => escapes c.2
/-- class `unroll-print-text`: … has a PRINT statement in its body that mentions the loop variable -/
def KnownUnrollPrint (p : Program) : Bool :=
  p.units.any fun u => (candidates false false u.body).any fun c => printMentions c.1 c.2
/-- class `unroll-associate-body`: … has an ASSOCIATE block in its body that mentions the loop variable -/
def KnownUnrollAssoc (p : Program) : Bool :=
  p.units.any fun u => (candidates false false u.body).any fun c => assocMentions c.1 c.2
/-- class `unroll-loopvar-live`: the variable of a loop that may be unrolled occurs elsewhere in the unit -/
def KnownUnrollLive (p : Program) : Bool :=
  p.units.any fun u => (candidates false false u.body).any fun c => mentionsFree c.1 u.body

end LokiModel.C31
