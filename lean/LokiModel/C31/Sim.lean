import LokiModel.C31.Model
import LokiModel.Fir.Fuel
/-!
# C31: simulation lemmas for unrolling

`Sim v k σ σ'`: the two states agree on every cell except the one of `v`, have no ASSOCIATE names, the same output, and in `σ`
the loop variable `v` is an integer scalar holding `k`.  Under `Sim`, a statement `s` of the covered class (`okS v s`) run in `σ`
and its copy `substStmt v (litInt k) s` run in `σ'` give related results with the same fuel (`sim`).
-/
namespace LokiModel.C31
open LokiModel.Fir
open LokiModel.Expr (Val)

/-! ### stores -/

theorem find_setCell (store : List (String × Cell)) (y : String) (c : Cell) (x : String) :
    ((setCell store y c).find? (·.1 == x)).map (·.2) =
      if y == x then some c else (store.find? (·.1 == x)).map (·.2) := by
  induction store with
  | nil =>
    simp only [setCell, List.find?]
    by_cases h : (y == x) = true <;> simp [h]
  | cons p rest ih =>
    obtain ⟨z, d⟩ := p
    simp only [setCell]
    by_cases hz : (z == y) = true
    · have hzy : z = y := by simpa using hz
      subst hzy
      simp only [hz, if_true, List.find?]
      by_cases h : (z == x) = true <;> simp [h]
    · simp only [hz, Bool.false_eq_true, if_false, List.find?]
      by_cases h : (z == x) = true
      · have hzx : z = x := by simpa using h
        subst hzx
        have : (y == z) = false := by
          cases hyz : (y == z) with
          | false => rfl
          | true => exact absurd (by simpa using hyz : y = z).symm (by simpa using hz)
        simp [this]
      · simp only [h]
        exact ih

theorem lookup_setCell (st : St) (y : String) (c : Cell) (x : String) :
    lookupCell { st with store := setCell st.store y c } x = if y == x then some c else lookupCell st x := by
  simp only [lookupCell]; exact find_setCell _ _ _ _

/-- the two states agree off `v` -/
structure Off (v : String) (σ σ' : St) : Prop where
  look : ∀ x, x ≠ v → lookupCell σ x = lookupCell σ' x
  al : σ.alias = []
  al' : σ'.alias = []
  out : σ.out = σ'.out

/-- `Off`, and the loop variable is an integer scalar with value `k` in the first state -/
structure Sim (v : String) (k : Int) (σ σ' : St) : Prop extends Off v σ σ' where
  val : lookupCell σ v = some (.scalar .int (some (.int k)))

theorem lookupAlias_nil {σ : St} (h : σ.alias = []) (x : String) : lookupAlias σ x = none := by
  simp [lookupAlias, h]

theorem Off.boundsOf {v} {σ σ' : St} (h : Off v σ σ') {x : String} (hx : x ≠ v) : boundsOf σ' x = boundsOf σ x := by
  unfold Fir.boundsOf
  rw [lookupAlias_nil h.al, lookupAlias_nil h.al', h.look x hx]

theorem resolve_nil {σ : St} (h : σ.alias = []) (x : String) (is : List Int) : resolve σ x is = some (x, is) := by
  simp [resolve, lookupAlias_nil h]

theorem Off.readAt {v} {σ σ' : St} (h : Off v σ σ') {x : String} (hx : x ≠ v) (is : List Int) :
    readAt σ' x is = readAt σ x is := by
  unfold Fir.readAt
  rw [resolve_nil h.al, resolve_nil h.al']
  simp only [Option.bind_eq_bind, Option.bind, h.look x hx]

theorem Sim.readV {v k} {σ σ' : St} (h : Sim v k σ σ') : readAt σ v [] = some (.int k) := by
  simp [readAt, resolve_nil h.al, h.val, Option.bind]

theorem Sim.boundsV {v k} {σ σ' : St} (h : Sim v k σ σ') : boundsOf σ v = none := by
  simp [boundsOf, lookupAlias_nil h.al, h.val]

theorem evalE_litInt (σ : St) (pos : List Nat) (k : Int) : evalE σ pos (litInt k) = some (.int k) := by
  unfold litInt
  by_cases hk : k < 0
  · simp [hk, evalE, Val.neg]
  · simp [hk, evalE]

theorem Sim.substOK {v k} {σ σ' : St} (h : Sim v k σ σ') : SubstOK σ v (litInt k) :=
  ⟨h.boundsV, fun pos => by rw [evalE_litInt, h.readV]⟩

/-! ### expressions -/

mutual
/-- `v` is not used as an array name in `e` (it is a scalar: such an expression could not be evaluated anyway) -/
def okE (v : String) : Ex → Bool
  | .lit _ => true
  | .var _ => true
  | .idx x subs => x != v && okEs v subs
  | .sec x dims => x != v && okDims v dims
  | .neg a => okE v a
  | .not a => okE v a
  | .bin _ a b => okE v a && okE v b
  | .call _ args => okEs v args
def okEs (v : String) : List Ex → Bool
  | [] => true
  | e :: es => okE v e && okEs v es
def okDims (v : String) : List Dim → Bool
  | [] => true
  | .at e :: ds => okE v e && okDims v ds
  | .rng lo hi st :: ds => okO v lo && okO v hi && okO v st && okDims v ds
def okO (v : String) : Option Ex → Bool
  | none => true
  | some e => okE v e
end

theorem ne_of_bne {x v : String} (h : (x != v) = true) : x ≠ v := by simpa using h

mutual
theorem evalE_sim {v k} {σ σ' : St} (h : Sim v k σ σ') :
    ∀ (e : Ex) (pos : List Nat), okE v e = true → evalE σ' pos (substE v (litInt k) e) = evalE σ pos e
  | .lit _, pos, _ => by simp [substE, evalE]
  | .var y, pos, _ => by
      by_cases hy : (y == v) = true
      · have : y = v := by simpa using hy
        subst this
        simp only [substE, hy, if_true, evalE_litInt]
        simp [evalE, h.boundsV, h.readV]
      · have hne : y ≠ v := by simpa using hy
        simp only [substE, hy, Bool.false_eq_true, if_false, evalE, h.toOff.boundsOf hne, h.toOff.readAt hne]
  | .idx y subs, pos, hok => by
      simp only [okE, Bool.and_eq_true] at hok
      have hne := ne_of_bne hok.1
      simp only [substE, evalE, evalIdx_sim h subs pos hok.2, h.toOff.readAt hne]
  | .sec y dims, pos, hok => by
      simp only [okE, Bool.and_eq_true] at hok
      have hne := ne_of_bne hok.1
      simp only [substE, evalE, h.toOff.boundsOf hne]
      cases boundsOf σ y with
      | none => rfl
      | some bs =>
        simp only [Option.bind_eq_bind, Option.bind, evalSec_sim h dims bs pos pos hok.2, h.toOff.readAt hne]
  | .neg a, pos, hok => by
      simp only [okE] at hok
      simp only [substE, evalE, evalE_sim h a pos hok]
  | .not a, pos, hok => by
      simp only [okE] at hok
      simp only [substE, evalE, evalE_sim h a pos hok]
  | .bin o a b, pos, hok => by
      simp only [okE, Bool.and_eq_true] at hok
      simp only [substE, evalE, evalE_sim h a pos hok.1, evalE_sim h b pos hok.2]
  | .call f args, pos, hok => by
      simp only [okE] at hok
      simp only [substE, evalE, evalArgs_sim h args pos hok]
theorem evalIdx_sim {v k} {σ σ' : St} (h : Sim v k σ σ') :
    ∀ (es : List Ex) (pos : List Nat), okEs v es = true → evalIdx σ' pos (substEs v (litInt k) es) = evalIdx σ pos es
  | [], pos, _ => by simp [substEs, evalIdx]
  | e :: es, pos, hok => by
      simp only [okEs, Bool.and_eq_true] at hok
      simp only [substEs, evalIdx, evalE_sim h e pos hok.1, evalIdx_sim h es pos hok.2]
theorem evalArgs_sim {v k} {σ σ' : St} (h : Sim v k σ σ') :
    ∀ (es : List Ex) (pos : List Nat), okEs v es = true → evalArgs σ' pos (substEs v (litInt k) es) = evalArgs σ pos es
  | [], pos, _ => by simp [substEs, evalArgs]
  | e :: es, pos, hok => by
      simp only [okEs, Bool.and_eq_true] at hok
      simp only [substEs, evalArgs, evalE_sim h e pos hok.1, evalArgs_sim h es pos hok.2]
theorem evalSec_sim {v k} {σ σ' : St} (h : Sim v k σ σ') :
    ∀ (ds : List Dim) (bs : List (Int × Int)) (pos ks : List Nat), okDims v ds = true →
      evalSec σ' pos bs (substDims v (litInt k) ds) ks = evalSec σ pos bs ds ks
  | [], bs, pos, ks, _ => by
      cases bs <;> simp [substDims, evalSec]
  | .at e :: ds, bs, pos, ks, hok => by
      simp only [okDims, Bool.and_eq_true] at hok
      cases bs with
      | nil => simp [substDims, evalSec]
      | cons b bs' => simp only [substDims, evalSec, evalE_sim h e pos hok.1, evalSec_sim h ds bs' pos ks hok.2]
  | .rng lo hi stp :: ds, bs, pos, ks, hok => by
      simp only [okDims, Bool.and_eq_true] at hok
      cases bs with
      | nil => simp [substDims, evalSec]
      | cons b bs' =>
        cases ks with
        | nil => simp [substDims, evalSec]
        | cons k0 ks' =>
          have ihd := evalSec_sim h ds bs' pos ks' hok.2
          cases lo with
          | none =>
            cases stp with
            | none => simp only [substDims, substO, evalSec, ihd]
            | some s =>
              have hs : okE v s = true := by simpa [okO] using hok.1.2
              simp only [substDims, substO, evalSec, ihd, evalE_sim h s pos hs]
          | some l =>
            have hl : okE v l = true := by simpa [okO] using hok.1.1.1
            cases stp with
            | none => simp only [substDims, substO, evalSec, ihd, evalE_sim h l pos hl]
            | some s =>
              have hs : okE v s = true := by simpa [okO] using hok.1.2
              simp only [substDims, substO, evalSec, ihd, evalE_sim h l pos hl, evalE_sim h s pos hs]
end

/-! ### stores: writing -/

def OSim (v : String) (k : Int) : Option St → Option St → Prop
  | none, none => True
  | some a, some b => Sim v k a b
  | _, _ => False

/-- the new cell after storing `val` at `idx` -/
def cellUpdate (c : Cell) (idx : List Int) (val : Val) : Option Cell :=
  match c with
  | .scalar ty _ => if idx.isEmpty then (coerce ty val).map fun v' => .scalar ty (some v') else none
  | .array ty bs data =>
      (offset bs idx).bind fun o => (coerce ty val).bind fun v' =>
        if o < data.length then some (.array ty bs (data.set o (some v'))) else none

theorem writeAt_eq {σ : St} (h : σ.alias = []) (x : String) (is : List Int) (val : Val) :
    writeAt σ x is val =
      ((lookupCell σ x).bind (cellUpdate · is val)).map fun c => { σ with store := setCell σ.store x c } := by
  unfold writeAt
  rw [resolve_nil h]
  simp only [Option.bind_eq_bind, Option.bind_some]
  generalize lookupCell σ x = L
  cases L with
  | none => rfl
  | some c =>
    cases c with
    | scalar ty o =>
      by_cases he : is.isEmpty = true
      · cases hc : coerce ty val <;> simp [cellUpdate, he, hc, Option.bind]
      · simp [cellUpdate, he, Option.bind]
    | array ty bs data =>
      cases ho : offset bs is with
      | none => simp [cellUpdate, ho, Option.bind]
      | some o =>
        cases hc : coerce ty val with
        | none => simp [cellUpdate, ho, hc, Option.bind]
        | some v' =>
          by_cases hl : o < data.length <;> simp [cellUpdate, ho, hc, hl, Option.bind]

theorem Sim.set {v k} {σ σ' : St} (h : Sim v k σ σ') {x : String} (hx : x ≠ v) (c : Cell) :
    Sim v k { σ with store := setCell σ.store x c } { σ' with store := setCell σ'.store x c } := by
  refine ⟨⟨fun y hy => ?_, h.al, h.al', h.out⟩, ?_⟩
  · rw [lookup_setCell, lookup_setCell, h.look y hy]
  · rw [lookup_setCell]
    have : (x == v) = false := by simpa using hx
    simp [this, h.val]

theorem writeAt_sim {v k} {σ σ' : St} (h : Sim v k σ σ') {x : String} (hx : x ≠ v) (is : List Int) (val : Val) :
    OSim v k (writeAt σ x is val) (writeAt σ' x is val) := by
  rw [writeAt_eq h.al, writeAt_eq h.al', ← h.look x hx]
  cases (lookupCell σ x).bind (cellUpdate · is val) with
  | none => trivial
  | some c => exact h.set hx c

theorem foldlM_sim {v k} {α : Type} (g : St → α → Option St)
    (hg : ∀ a b t, Sim v k a b → OSim v k (g a t) (g b t)) :
    ∀ (l : List α) (a b : St), Sim v k a b → OSim v k (l.foldlM g a) (l.foldlM g b)
  | [], a, b, h => by simpa [OSim] using h
  | t :: l, a, b, h => by
      simp only [List.foldlM_cons]
      have := hg a b t h
      cases h1 : g a t with
      | none =>
        cases h2 : g b t with
        | none => trivial
        | some _ => rw [h1, h2] at this; exact this.elim
      | some a1 =>
        cases h2 : g b t with
        | none => rw [h1, h2] at this; exact this.elim
        | some b1 =>
          rw [h1, h2] at this
          exact foldlM_sim g hg l a1 b1 this

def optInt (σ : St) (o : Option Ex) (d : Int) : Option Int :=
  match o with
  | some e => (evalE σ [] e).bind asInt
  | none => some d

theorem secShape_rng (σ : St) (b : Int × Int) (bs' : List (Int × Int)) (lo hi stp : Option Ex) (ds : List Dim) :
    secShape σ (b :: bs') (.rng lo hi stp :: ds) =
      (optInt σ lo b.1).bind fun l => (optInt σ hi b.2).bind fun h => (optInt σ stp 1).bind fun s =>
        if s = 0 then none else (secShape σ bs' ds).bind fun r => some (tripCount l h s :: r) := by
  cases lo <;> cases hi <;> cases stp <;> simp only [secShape, optInt] <;> rfl

theorem optInt_sim {v k} {σ σ' : St} (h : Sim v k σ σ') (o : Option Ex) (d : Int) (hok : okO v o = true) :
    optInt σ' (substO v (litInt k) o) d = optInt σ o d := by
  cases o with
  | none => rfl
  | some e => simp only [substO, optInt]; rw [evalE_sim h e [] (by simpa [okO] using hok)]

theorem secShape_sim {v k} {σ σ' : St} (h : Sim v k σ σ') :
    ∀ (ds : List Dim) (bs : List (Int × Int)), okDims v ds = true →
      secShape σ' bs (substDims v (litInt k) ds) = secShape σ bs ds
  | [], bs, _ => by simp [substDims, secShape]
  | .at e :: ds, bs, hok => by
      simp only [okDims, Bool.and_eq_true] at hok
      cases bs with
      | nil => simp [substDims, secShape]
      | cons b bs' => simp only [substDims, secShape, secShape_sim h ds bs' hok.2]
  | .rng lo hi stp :: ds, bs, hok => by
      simp only [okDims, Bool.and_eq_true] at hok
      cases bs with
      | nil => simp [substDims, secShape]
      | cons b bs' =>
        simp only [substDims]
        rw [secShape_rng, secShape_rng, optInt_sim h lo _ hok.1.1.1, optInt_sim h hi _ hok.1.1.2,
          optInt_sim h stp _ hok.1.2, secShape_sim h ds bs' hok.2]

/-! ### assignment, print -/

/-- assignment target: a scalar / whole array other than `v`, an element or a section of an array other than `v` -/
def lhsOk (v : String) : Ex → Bool
  | .var x => x != v
  | .idx x subs => x != v && okEs v subs
  | .sec x dims => x != v && okDims v dims
  | _ => false

theorem OSim.refl_bind {v k} {α : Type} (o : Option α) (f g : α → Option St)
    (hfg : ∀ a, OSim v k (f a) (g a)) : OSim v k (o.bind f) (o.bind g) := by
  cases o with
  | none => trivial
  | some a => exact hfg a

theorem assign_sim {v k} {σ σ' : St} (h : Sim v k σ σ') (l r : Ex) (hl : lhsOk v l = true) (hr : okE v r = true) :
    OSim v k (assignStmt σ l r) (assignStmt σ' (substE v (litInt k) l) (substE v (litInt k) r)) := by
  cases l with
  | idx x subs =>
    simp only [lhsOk, Bool.and_eq_true] at hl
    have hne := ne_of_bne hl.1
    simp only [substE, assignStmt, evalIdx_sim h subs [] hl.2, evalE_sim h r [] hr, Option.bind_eq_bind]
    refine OSim.refl_bind _ _ _ fun is => OSim.refl_bind _ _ _ fun val => writeAt_sim h hne is val
  | var x =>
    simp only [lhsOk] at hl
    have hne := ne_of_bne hl
    have hxv : (x == v) = false := by simpa using hne
    simp only [substE, hxv, Bool.false_eq_true, if_false, assignStmt, h.toOff.boundsOf hne]
    cases boundsOf σ x with
    | none =>
      simp only [evalE_sim h r [] hr, Option.bind_eq_bind]
      exact OSim.refl_bind _ _ _ fun val => writeAt_sim h hne [] val
    | some bs =>
      have e : (fun p => evalE σ' p (substE v (litInt k) r)) = fun p => evalE σ p r :=
        funext fun p => evalE_sim h r p hr
      simp only [e, Option.bind_eq_bind]
      refine OSim.refl_bind _ _ _ fun vals => ?_
      exact foldlM_sim _ (fun a b t hab => by obtain ⟨p, val⟩ := t; exact writeAt_sim hab hne _ _) _ _ _ h
  | sec x dims =>
    simp only [lhsOk, Bool.and_eq_true] at hl
    have hne := ne_of_bne hl.1
    have e : (fun p => evalE σ' p (substE v (litInt k) r)) = fun p => evalE σ p r :=
      funext fun p => evalE_sim h r p hr
    simp only [substE, assignStmt, h.toOff.boundsOf hne, Option.bind_eq_bind]
    refine OSim.refl_bind _ _ _ fun bs => ?_
    rw [secShape_sim h dims bs hl.2]
    refine OSim.refl_bind _ _ _ fun shape => ?_
    simp only [e]
    refine OSim.refl_bind _ _ _ fun vals => ?_
    have e2 : (fun p => evalSec σ' p bs (substDims v (litInt k) dims) p) = fun p => evalSec σ p bs dims p :=
      funext fun p => evalSec_sim h dims bs p p hl.2
    simp only [e2]
    refine OSim.refl_bind _ _ _ fun targets => ?_
    exact foldlM_sim _ (fun a b t hab => by obtain ⟨p, val⟩ := t; exact writeAt_sim hab hne _ _) _ _ _ h
  | lit _ => simp [lhsOk] at hl
  | neg _ => simp [lhsOk] at hl
  | not _ => simp [lhsOk] at hl
  | bin _ _ _ => simp [lhsOk] at hl
  | call _ _ => simp [lhsOk] at hl

mutual
theorem substE_id (v : String) (r : Ex) : ∀ e : Ex, mentionsE v e = false → substE v r e = e
  | .lit _, _ => by simp [substE]
  | .var y, hm => by simp only [mentionsE] at hm; simp [substE, hm]
  | .idx y subs, hm => by simp only [mentionsE] at hm; simp only [substE, substEs_id v r subs hm]
  | .sec y dims, hm => by simp only [mentionsE] at hm; simp only [substE, substDims_id v r dims hm]
  | .neg a, hm => by simp only [mentionsE] at hm; simp only [substE, substE_id v r a hm]
  | .not a, hm => by simp only [mentionsE] at hm; simp only [substE, substE_id v r a hm]
  | .bin o a b, hm => by
      simp only [mentionsE, Bool.or_eq_false_iff] at hm
      simp only [substE, substE_id v r a hm.1, substE_id v r b hm.2]
  | .call f args, hm => by simp only [mentionsE] at hm; simp only [substE, substEs_id v r args hm]
theorem substEs_id (v : String) (r : Ex) : ∀ es : List Ex, mentionsEs v es = false → substEs v r es = es
  | [], _ => by simp [substEs]
  | e :: es, hm => by
      simp only [mentionsEs, Bool.or_eq_false_iff] at hm
      simp only [substEs, substE_id v r e hm.1, substEs_id v r es hm.2]
theorem substDims_id (v : String) (r : Ex) : ∀ ds : List Dim, mentionsDims v ds = false → substDims v r ds = ds
  | [], _ => by simp [substDims]
  | .at e :: ds, hm => by
      simp only [mentionsDims, Bool.or_eq_false_iff] at hm
      simp only [substDims, substE_id v r e hm.1, substDims_id v r ds hm.2]
  | .rng lo hi st :: ds, hm => by
      simp only [mentionsDims, Bool.or_eq_false_iff] at hm
      simp only [substDims, substO_id v r lo hm.1.1.1, substO_id v r hi hm.1.1.2, substO_id v r st hm.1.2,
        substDims_id v r ds hm.2]
theorem substO_id (v : String) (r : Ex) : ∀ o : Option Ex, mentionsO v o = false → substO v r o = o
  | none, _ => by simp [substO]
  | some e, hm => by simp only [mentionsO] at hm; simp only [substO, substE_id v r e hm]
end

theorem evalE_frame {v k} {σ σ' : St} (h : Sim v k σ σ') (e : Ex) (pos : List Nat) (hok : okE v e = true)
    (hm : mentionsE v e = false) : evalE σ' pos e = evalE σ pos e := by
  have := evalE_sim h e pos hok
  rwa [substE_id v _ e hm] at this

theorem printVals_frame {v k} {σ σ' : St} (h : Sim v k σ σ') (e : Ex) (hok : okE v e = true)
    (hm : mentionsE v e = false) : printVals σ' e = printVals σ e := by
  have hE : ∀ pos, evalE σ' pos e = evalE σ pos e := fun pos => evalE_frame h e pos hok hm
  cases e with
  | var x =>
    have hne : x ≠ v := by simpa [mentionsE] using hm
    have e1 : (fun p => evalE σ' p (.var x)) = fun p => evalE σ p (.var x) := funext fun p => hE p
    simp only [printVals, h.toOff.boundsOf hne, e1, hE]
  | lit _ => simp only [printVals, hE]
  | idx _ _ => simp only [printVals, hE]
  | sec _ _ => simp only [printVals, hE]
  | neg _ => simp only [printVals, hE]
  | not _ => simp only [printVals, hE]
  | bin _ _ _ => simp only [printVals, hE]
  | call _ _ => simp only [printVals, hE]

theorem printArgs_frame {v k} {σ σ' : St} (h : Sim v k σ σ') :
    ∀ (args : List Ex), okEs v args = true → mentionsEs v args = false →
      args.mapM (printVals σ') = args.mapM (printVals σ)
  | [], _, _ => rfl
  | e :: es, hok, hm => by
      simp only [okEs, Bool.and_eq_true] at hok
      simp only [mentionsEs, Bool.or_eq_false_iff] at hm
      simp only [List.mapM_cons, printVals_frame h e hok.1 hm.1, printArgs_frame h es hok.2 hm.2]

/-! ### statements -/

mutual
/-- the statements covered by the unrolling theorem, relative to the loop variable `v`: `v` is never a target (assignment, inner
DO variable), never an array name, not mentioned in PRINT (which Loki does not substitute); no ASSOCIATE, no CALL -/
def okS (v : String) : Stmt → Bool
  | .assign l r => lhsOk v l && okE v r
  | .doLoop w lo hi st body => w != v && okE v lo && okE v hi && okO v st && okSs v body
  | .while c body => okE v c && okSs v body
  | .ifte c t e => okE v c && okSs v t && okSs v e
  | .select e cs d => okE v e && okCs v cs && okSs v d
  | .assoc _ _ => false
  | .callSub _ _ => false
  | .print args => okEs v args && !mentionsEs v args
  | .exit => true
  | .cycle => true
  | .nop _ _ => true
def okSs (v : String) : List Stmt → Bool
  | [] => true
  | s :: ss => okS v s && okSs v ss
def okCs (v : String) : List (List Int × List Stmt) → Bool
  | [] => true
  | (_, b) :: cs => okSs v b && okCs v cs
end

def RSim (v : String) (k : Int) : Res → Res → Prop
  | .ok a s, .ok b s' => Sim v k a b ∧ s = s'
  | .err m, .err m' => m = m'
  | .fuel, .fuel => True
  | _, _ => False

theorem find_substCases (v : String) (r : Ex) (i : Int) :
    ∀ cs : List (List Int × List Stmt),
      (substCases v r cs).find? (fun c => c.1.contains i) =
        (cs.find? (fun c => c.1.contains i)).map fun c => (c.1, substStmts v r c.2)
  | [] => by simp [substCases]
  | (vs, b) :: cs => by
      simp only [substCases, List.find?]
      cases hc : vs.contains i with
      | true => rfl
      | false => exact find_substCases v r i cs

theorem okCs_find {v : String} {i : Int} :
    ∀ {cs : List (List Int × List Stmt)} {c}, okCs v cs = true → cs.find? (fun c => c.1.contains i) = some c →
      okSs v c.2 = true
  | [], _, _, hf => by simp at hf
  | (vs, b) :: cs, c, hok, hf => by
      simp only [okCs, Bool.and_eq_true] at hok
      simp only [List.find?] at hf
      cases hc : vs.contains i with
      | true => rw [hc] at hf; cases hf; exact hok.1
      | false => rw [hc] at hf; exact okCs_find hok.2 hf

theorem Sim.print {v k} {σ σ' : St} (h : Sim v k σ σ') (line : List Val) :
    Sim v k { σ with out := σ.out ++ [line] } { σ' with out := σ'.out ++ [line] } :=
  ⟨⟨fun x hx => h.look x hx, h.al, h.al', by simp [h.out]⟩, h.val⟩

structure SimF (P : Program) (v : String) (k : Int) (f : Nat) : Prop where
  stmts : ∀ ss σ σ', okSs v ss = true → Sim v k σ σ' →
      RSim v k (execStmts P f ss σ) (execStmts P f (substStmts v (litInt k) ss) σ')
  stmt : ∀ s σ σ', okS v s = true → Sim v k σ σ' →
      RSim v k (execStmt P f s σ) (execStmt P f (substStmt v (litInt k) s) σ')
  doI : ∀ w body step n cur σ σ', w ≠ v → okSs v body = true → Sim v k σ σ' →
      RSim v k (doIter P f w body step n cur σ) (doIter P f w (substStmts v (litInt k) body) step n cur σ')
  whileI : ∀ c body σ σ', okE v c = true → okSs v body = true → Sim v k σ σ' →
      RSim v k (whileIter P f c body σ) (whileIter P f (substE v (litInt k) c) (substStmts v (litInt k) body) σ')

theorem sim_zero (P : Program) (v : String) (k : Int) : SimF P v k 0 := by
  constructor
  · intro ss σ σ' _ _; simp [execStmts, RSim]
  · intro s σ σ' _ _; simp [execStmt, RSim]
  · intro w body step n cur σ σ' _ _ _; simp [doIter, RSim]
  · intro c body σ σ' _ _ _; simp [whileIter, RSim]

/-- case analysis on a pair of related results -/
theorem RSim.cases {v k} {r r' : Res} (h : RSim v k r r') :
    (∃ a b s, r = .ok a s ∧ r' = .ok b s ∧ Sim v k a b) ∨ (∃ m, r = .err m ∧ r' = .err m) ∨ (r = .fuel ∧ r' = .fuel) := by
  cases r <;> cases r' <;> simp only [RSim] at h
  · obtain ⟨hs, rfl⟩ := h; exact Or.inl ⟨_, _, _, rfl, rfl, hs⟩
  · subst h; exact Or.inr (Or.inl ⟨_, rfl, rfl⟩)
  · exact Or.inr (Or.inr ⟨rfl, rfl⟩)

theorem stepMatch_eq (σ : St) (st : Option Ex) :
    (match st with | some e => (evalE σ [] e).bind asInt | none => some (1 : Int)) = optInt σ st 1 := by
  cases st <;> rfl

theorem sim_succ (P : Program) (v : String) (k : Int) (f : Nat) (ih : SimF P v k f) : SimF P v k (f + 1) := by
  constructor
  · -- execStmts
    intro ss σ σ' hok h
    cases ss with
    | nil => simp only [substStmts, execStmts]; exact ⟨h, rfl⟩
    | cons s rest =>
      simp only [okSs, Bool.and_eq_true] at hok
      simp only [substStmts, execStmts]
      rcases (ih.stmt s σ σ' hok.1 h).cases with ⟨a, b, sg, e1, e2, hab⟩ | ⟨m, e1, e2⟩ | ⟨e1, e2⟩
      · rw [e1, e2]
        cases sg with
        | normal => exact ih.stmts rest a b hok.2 hab
        | exit => exact ⟨hab, rfl⟩
        | cycle => exact ⟨hab, rfl⟩
      · rw [e1, e2]; rfl
      · rw [e1, e2]; trivial
  · -- execStmt
    intro s σ σ' hok h
    cases s with
    | assign l r =>
      simp only [okS, Bool.and_eq_true] at hok
      simp only [substStmt, execStmt]
      have := assign_sim h l r hok.1 hok.2
      cases h1 : assignStmt σ l r <;>
        cases h2 : assignStmt σ' (substE v (litInt k) l) (substE v (litInt k) r) <;>
        rw [h1, h2] at this <;> simp only [OSim] at this
      · rfl
      · exact ⟨this, rfl⟩
    | doLoop w lo hi st body =>
      simp only [okS, Bool.and_eq_true] at hok
      obtain ⟨⟨⟨⟨hw, hlo⟩, hhi⟩, hst⟩, hbody⟩ := hok
      have hne := ne_of_bne hw
      cases st with
      | none =>
        simp only [substStmt, substO, execStmt, evalE_sim h lo [] hlo, evalE_sim h hi [] hhi]
        generalize (evalE σ [] lo).bind asInt = a
        generalize (evalE σ [] hi).bind asInt = b
        cases a <;> cases b <;> try rfl
        rename_i l hh
        simp only
        exact ih.doI w body 1 _ l σ σ' hne hbody h
      | some e =>
        have he : okE v e = true := by simpa [okO] using hst
        simp only [substStmt, substO, execStmt, evalE_sim h lo [] hlo, evalE_sim h hi [] hhi, evalE_sim h e [] he]
        generalize (evalE σ [] lo).bind asInt = a
        generalize (evalE σ [] hi).bind asInt = b
        generalize (evalE σ [] e).bind asInt = c
        cases a <;> cases b <;> cases c <;> try rfl
        rename_i l hh s
        simp only
        by_cases hs0 : s = 0
        · simp [hs0, RSim]
        · simp only [hs0, if_false]
          exact ih.doI w body s _ l σ σ' hne hbody h
    | «while» c body =>
      simp only [okS, Bool.and_eq_true] at hok
      simp only [substStmt, execStmt]
      exact ih.whileI c body σ σ' hok.1 hok.2 h
    | ifte c t e =>
      simp only [okS, Bool.and_eq_true] at hok
      simp only [substStmt, execStmt, evalE_sim h c [] hok.1.1]
      cases evalE σ [] c with
      | none => rfl
      | some val =>
        cases val with
        | bool bv =>
          cases bv with
          | true => exact ih.stmts t σ σ' hok.1.2 h
          | false => exact ih.stmts e σ σ' hok.2 h
        | int _ => rfl
        | real _ => rfl
    | select e cs d =>
      simp only [okS, Bool.and_eq_true] at hok
      simp only [substStmt, execStmt, evalE_sim h e [] hok.1.1]
      cases (evalE σ [] e).bind asInt with
      | none => rfl
      | some i =>
        simp only [find_substCases]
        cases hf : cs.find? (fun c => c.1.contains i) with
        | none => simp only [Option.map]; exact ih.stmts d σ σ' hok.2 h
        | some c => simp only [Option.map]; exact ih.stmts c.2 σ σ' (okCs_find hok.1.2 hf) h
    | assoc bs body => simp [okS] at hok
    | callSub g args => simp [okS] at hok
    | print args =>
      simp only [okS, Bool.and_eq_true, Bool.not_eq_true'] at hok
      simp only [substStmt, execStmt, printArgs_frame h args hok.1 hok.2]
      cases args.mapM (printVals σ) with
      | none => rfl
      | some vss => exact ⟨h.print _, rfl⟩
    | exit => simp only [substStmt, execStmt]; exact ⟨h, rfl⟩
    | cycle => simp only [substStmt, execStmt]; exact ⟨h, rfl⟩
    | nop k t => simp only [substStmt, execStmt]; exact ⟨h, rfl⟩
  · -- doIter
    intro w body step n cur σ σ' hne hbody h
    simp only [doIter]
    have hw := writeAt_sim h hne [] (.int cur)
    cases h1 : writeAt σ w [] (.int cur) <;> cases h2 : writeAt σ' w [] (.int cur) <;>
      rw [h1, h2] at hw <;> simp only [OSim] at hw
    · rfl
    · rename_i σ1 σ1'
      cases n with
      | zero => exact ⟨hw, rfl⟩
      | succ n' =>
        simp only
        rcases (ih.stmts body σ1 σ1' hbody hw).cases with ⟨a, b, sg, e1, e2, hab⟩ | ⟨m, e1, e2⟩ | ⟨e1, e2⟩
        · rw [e1, e2]
          cases sg with
          | exit => exact ⟨hab, rfl⟩
          | normal => exact ih.doI w body step n' (cur + step) a b hne hbody hab
          | cycle => exact ih.doI w body step n' (cur + step) a b hne hbody hab
        · rw [e1, e2]; rfl
        · rw [e1, e2]; trivial
  · -- whileIter
    intro c body σ σ' hc hbody h
    simp only [whileIter, evalE_sim h c [] hc]
    cases evalE σ [] c with
    | none => rfl
    | some val =>
      cases val with
      | bool bv =>
        cases bv with
        | true =>
          simp only
          rcases (ih.stmts body σ σ' hbody h).cases with ⟨a, b, sg, e1, e2, hab⟩ | ⟨m, e1, e2⟩ | ⟨e1, e2⟩
          · rw [e1, e2]
            cases sg with
            | exit => exact ⟨hab, rfl⟩
            | normal => exact ih.whileI c body a b hc hbody hab
            | cycle => exact ih.whileI c body a b hc hbody hab
          · rw [e1, e2]; rfl
          · rw [e1, e2]; trivial
        | false => exact ⟨h, rfl⟩
      | int _ => rfl
      | real _ => rfl

theorem sim (P : Program) (v : String) (k : Int) : ∀ f, SimF P v k f
  | 0 => sim_zero P v k
  | f + 1 => sim_succ P v k f (sim P v k f)
