import LokiModel.C31.Model
import LokiModel.C31.Enc
/-!
# C31 models of fusion, fission and interchange for the simple classes used in the correspondence check

* `fusionBody` — `do_loop_fusion` for loops in the routine's top-level statement list that carry `loki loop-fusion[ group(g)]`
  directly in front, no `collapse`, `range` or `insert-loc` parameters, all loops of a group with **identical** bounds and no
  step: the group's first loop is replaced by `!$loki fused-loop group(g)` + one loop over the first loop's variable whose body
  is the concatenation of the bodies (the other loops' variables renamed by `SubstituteExpressions` — PRINT text is not reached),
  the other loops disappear (marker comments are dropped by the normalisation).  `fusionSimple` decides the class.
* `fissionBody` — `do_loop_fission` for top-level loops whose body contains `loki loop-fission` pragmas at its top level and
  assigns no scalar (so nothing is promoted): one copy of the loop per non-empty segment.  `fissionSimple` decides the class.
* `interchangeBody` — `do_loop_interchange` (default order, `project_bounds=False`) for top-level loops marked
  `loki loop-interchange` whose body contains exactly one loop: variable and bounds of the two loops are exchanged.
Core Lean only.
-/
namespace LokiModel.C31
open LokiModel.Fir

def pragmaText : Stmt → Option String
  | .nop k t => if k == kPragma then some t else none
  | _ => none

/-- split a list into (run of pragma texts directly in front, statement) groups; trailing pragmas come back as `rest` -/
def groupsGo : List (List String × Stmt) → List String → List Stmt → List (List String × Stmt) × List String
  | acc, pend, [] => (acc.reverse, pend)
  | acc, pend, s :: rest =>
      match pragmaText s with
      | some t => groupsGo acc (pend ++ [t]) rest
      | none => groupsGo ((pend, s) :: acc) [] rest

def groups (ss : List Stmt) : List (List String × Stmt) × List String := groupsGo [] [] ss

def pragmaStmts (ts : List String) : List Stmt := ts.map fun t => .nop kPragma t

/-! ### loop nests -/

structure Spec where
  v : String
  lo : Ex
  hi : Ex
  step : Option Ex

/-- a *perfect* nest of the given depth (what `get_nested_loops` + `bodies[-1]` of `do_loop_fusion` keep): the (variable, range)
of every level and the innermost body; `none` if a level above the innermost contains anything but one loop -/
def nestSpecs : Nat → Stmt → Option (List Spec × List Stmt)
  | 0, _ => none
  | 1, .doLoop v lo hi st body => some ([⟨v, lo, hi, st⟩], body)
  | d + 2, .doLoop v lo hi st [inner] => (nestSpecs (d + 1) inner).map fun r => (⟨v, lo, hi, st⟩ :: r.1, r.2)
  | _, _ => none

def mkNest : List Spec → List Stmt → List Stmt
  | [], body => body
  | sp :: rest, body => [.doLoop sp.v sp.lo sp.hi sp.step (mkNest rest body)]

/-- value of the parameter `key(value)` among the blank-separated words of a pragma text -/
def pragmaParam (key : String) (t : String) : Option String :=
  (t.splitOn " ").findSome? fun tok =>
    if tok.startsWith (key ++ "(") ∧ tok.endsWith ")" then some ((tok.drop (key.length + 1)).dropEnd 1).toString else none

/-! ### fusion -/

def isFusionPragma (t : String) : Bool := t.startsWith "loki loop-fusion"

/-- `group(g)` parameter, default `default` -/
def fusionGroup (t : String) : String := (pragmaParam "group" t).getD "default"

/-- `collapse(n)` parameter, default 1 -/
def fusionCollapse (t : String) : Nat := ((pragmaParam "collapse" t).bind String.toNat?).getD 1

structure FLoop where
  group : String
  collapse : Nat
  specs : List Spec          -- [] when the loop is not a perfect nest of depth `collapse`
  body : List Stmt

def fusionLoopOf (g : List String × Stmt) : Option FLoop :=
  match g.2, g.1.find? isFusionPragma with
  | .doLoop v lo hi st body, some t =>
      match nestSpecs (fusionCollapse t) (.doLoop v lo hi st body) with
      | some r => some ⟨fusionGroup t, fusionCollapse t, r.1, r.2⟩
      | none => some ⟨fusionGroup t, fusionCollapse t, [], []⟩
  | _, _ => none

def exKey (e : Ex) : String := toString (encEx e)

def sameRanges : List Spec → List Spec → Bool
  | [], [] => true
  | a :: as, b :: bs => exKey a.lo == exKey b.lo && exKey a.hi == exKey b.hi && sameRanges as bs
  | _, _ => false

/-- the class the model covers: every fusion loop is a perfect nest of its collapse depth without steps, all loops of a group
have the same collapse depth and the same bounds (as syntax trees) level by level -/
def fusionSimple (ss : List Stmt) : Bool :=
  let fl := (groups ss).1.filterMap fusionLoopOf
  fl.all fun a => decide (0 < a.collapse) && a.specs.length == a.collapse && a.specs.all (fun sp => sp.step.isNone) &&
    fl.all fun b => a.group != b.group || (a.collapse == b.collapse && sameRanges a.specs b.specs)

/-- `SubstituteExpressions(var_map)` with all levels renamed at once (done through fresh intermediate names, so that exchanged
names — `do jl; do jk` fused into `do jk; do jl` — are handled like the simultaneous substitution of the real code) -/
def renameLevels (from_ to : List String) (body : List Stmt) : List Stmt :=
  let idx := List.range from_.length
  let b1 := (from_.zip idx).foldl (fun b p => substStmts p.1 (.var ("#" ++ toString p.2)) b) body
  (to.zip idx).foldl (fun b p => substStmts ("#" ++ toString p.2) (.var p.1) b) b1

def fusedBody (fvs : List String) (fl : List FLoop) : List Stmt :=
  fl.flatMap fun a => renameLevels (a.specs.map (·.v)) fvs a.body

def fusionGo (fl : List FLoop) : List String → List (List String × Stmt) → List Stmt
  | _, [] => []
  | seen, g :: rest =>
      match fusionLoopOf g with
      | some a =>
          if seen.contains a.group then fusionGo fl seen rest
          else
            let members := fl.filter fun b => b.group == a.group
            [.nop kPragma ("loki fused-loop group(" ++ a.group ++ ")")] ++
              mkNest (a.specs.map fun sp => { sp with step := none }) (fusedBody (a.specs.map (·.v)) members)
              ++ fusionGo fl (a.group :: seen) rest
      | none => pragmaStmts g.1 ++ [g.2] ++ fusionGo fl seen rest

def fusionBody (ss : List Stmt) : List Stmt :=
  let gs := groups ss
  fusionGo (gs.1.filterMap fusionLoopOf) [] gs.1 ++ pragmaStmts gs.2

/-! ### fission -/

def isFissionPragma (t : String) : Bool := t.startsWith "loki loop-fission"

def isFissionStmt (s : Stmt) : Bool :=
  match pragmaText s with
  | some t => isFissionPragma t
  | none => false

/-- segments of a loop body between fission pragmas -/
def segmentsGo : List (List Stmt) → List Stmt → List Stmt → List (List Stmt)
  | acc, cur, [] => (cur.reverse :: acc).reverse
  | acc, cur, s :: rest => if isFissionStmt s then segmentsGo (cur.reverse :: acc) [] rest else segmentsGo acc (s :: cur) rest

def assignsScalar : Stmt → Bool
  | .assign (.var _) _ => true
  | _ => false

def fissionSimple (ss : List Stmt) : Bool :=
  ss.all fun s => match s with
    | .doLoop _ _ _ _ body => !(body.any isFissionStmt) || !(body.any assignsScalar)
    | _ => true

def fissionBody (ss : List Stmt) : List Stmt :=
  ss.flatMap fun s => match s with
    | .doLoop v lo hi st body =>
        if body.any isFissionStmt then
          ((segmentsGo [] [] body).filter fun seg => !seg.isEmpty).map fun seg => .doLoop v lo hi st seg
        else [s]
    | s => [s]

/-- (scalar, loop variable) for every scalar assigned at the top level of a loop that is split -/
def fissionScalarPairs (ss : List Stmt) : List (String × String) :=
  ss.flatMap fun s => match s with
    | .doLoop v _ _ _ body =>
        if body.any isFissionStmt then
          body.filterMap fun t => match t with
            | .assign (.var x) _ => some (x, v)
            | _ => none
        else []
    | _ => []

/-- class `fission-promote-two-loopvars`: a scalar is assigned in split loops over two different loop variables (it is promoted
once per loop variable: `t(n, n)` used as `t(i, :)` / `t(:, j)`) -/
def KnownFissionPromote (ss : List Stmt) : Bool :=
  let ps := fissionScalarPairs ss
  ps.any fun a => ps.any fun b => a.1 == b.1 && a.2 != b.2

/-- class `block-zero-trip-step` (`split_loop`): the loop does not execute, but `LoopRange.num_iterations` = `(hi - lo)/s + 1`
(truncating division; the C10 model `numIter`) is positive, so the blocked nest runs the body -/
def KnownBlockZeroTrip (lo hi s : Int) : Bool :=
  LokiModel.C10.tripCount lo hi s == 0 && decide (0 < LokiModel.C10.numIter lo hi (some s))

/-! ### interchange -/

def isInterchangePragma (t : String) : Bool := t.startsWith "loki loop-interchange"

/-- the variable order `(a, b, c)` of `loki loop-interchange (a, b, c)`, if given -/
def interchangeOrder (t : String) : Option (List String) :=
  let rest := (t.drop "loki loop-interchange".length).trimAscii.toString
  if rest.startsWith "(" ∧ rest.endsWith ")" then
    some ((((rest.drop 1).dropEnd 1).toString.splitOn ",").map fun w => w.trimAscii.toString)
  else none

def firstLoop : List Stmt → Option (Spec × List Stmt)
  | [] => none
  | .doLoop v lo hi st body :: _ => some (⟨v, lo, hi, st⟩, body)
  | _ :: rest => firstLoop rest

/-- `get_nested_loops`: the (variable, range) pairs of the chain of `depth` loops (each level: the loop among the statements) -/
def chainSpecs : Nat → List Stmt → List Spec
  | 0, _ => []
  | d + 1, ss =>
      match firstLoop ss with
      | some (sp, body) => sp :: chainSpecs d body
      | none => []

def replaceFirstLoop (f : List Stmt → Stmt) : List Stmt → List Stmt
  | [] => []
  | .doLoop _ _ _ _ body :: rest => f body :: rest
  | s :: rest => s :: replaceFirstLoop f rest

/-- give the loops of the chain new (variable, range) pairs, outermost first; bodies stay where they are -/
def renest : List Spec → List Stmt → List Stmt
  | [], ss => ss
  | sp :: rest, ss => replaceFirstLoop (fun body => .doLoop sp.v sp.lo sp.hi sp.step (renest rest body)) ss

/-- the (variable, range) pairs in the requested order: position p of the new nest gets the pair of the loop named `order[p]` -/
def permuteSpecs (order : List String) (specs : List Spec) : List Spec :=
  order.filterMap fun nm => specs.find? fun sp => sp.v == nm

def interchangeBody (ss : List Stmt) : List Stmt :=
  let gs := groups ss
  (gs.1.flatMap fun g =>
    match g.2 with
    | .doLoop .. =>
        match g.1.find? isInterchangePragma with
        | some t =>
            let depth := match interchangeOrder t with | some o => o.length | none => 2
            let specs := chainSpecs depth [g.2]
            let order := match interchangeOrder t with | some o => o | none => (specs.map (·.v)).reverse
            pragmaStmts (g.1.filter fun t => !isInterchangePragma t) ++ renest (permuteSpecs order specs) [g.2]
        | none => pragmaStmts g.1 ++ [g.2]
    | s => pragmaStmts g.1 ++ [s]) ++ pragmaStmts gs.2

end LokiModel.C31
