import LokiModel.C31.Model
import LokiModel.C31.Enc
/-!
# C31 models of fusion, fission and interchange for the simple classes used in the correspondence check

* `fusionBody` — `do_loop_fusion` for loops in the routine's top-level statement list that carry `loki loop-fusion[ group(g)]`
  directly in front, no `collapse`, `range` or `insert-loc` parameters, all loops of a group with **identical** bounds and no
  step: the group's first loop is replaced by `!$loki fused-loop group(g)` + one loop over the first loop's variable whose body
  is the concatenation of the bodies (the other loops' variables renamed by `SubstituteExpressions` — PRINT text is not reached),
  the other loops disappear (marker comments are dropped by the normalisation).  `fusionSimple` decides the class.
* `fissionBody` — `do_loop_fission` for top-level loops whose body contains `loki loop-fission` pragmas at its top level and
  assigns no scalar (so nothing is promoted): one copy of the loop per non-empty segment.  `fissionSimple` decides the class.
* `interchangeBody` — `do_loop_interchange` (default order, `project_bounds=False`) for top-level loops marked
  `loki loop-interchange` whose body contains exactly one loop: variable and bounds of the two loops are exchanged.
Core Lean only.
-/
namespace LokiModel.C31
open LokiModel.Fir

def pragmaText : Stmt → Option String
  | .nop k t => if k == kPragma then some t else none
  | _ => none

/-- split a list into (run of pragma texts directly in front, statement) groups; trailing pragmas come back as `rest` -/
def groupsGo : List (List String × Stmt) → List String → List Stmt → List (List String × Stmt) × List String
  | acc, pend, [] => (acc.reverse, pend)
  | acc, pend, s :: rest =>
      match pragmaText s with
      | some t => groupsGo acc (pend ++ [t]) rest
      | none => groupsGo ((pend, s) :: acc) [] rest

def groups (ss : List Stmt) : List (List String × Stmt) × List String := groupsGo [] [] ss

def pragmaStmts (ts : List String) : List Stmt := ts.map fun t => .nop kPragma t

/-! ### fusion -/

def isFusionPragma (t : String) : Bool := t.startsWith "loki loop-fusion"

/-- `group(g)` parameter, default `default` -/
def fusionGroup (t : String) : String :=
  let rest := (t.drop "loki loop-fusion".length).trimAscii.toString
  if rest.startsWith "group(" ∧ rest.endsWith ")" then ((rest.drop 6).dropEnd 1).toString else "default"

structure FLoop where
  group : String
  v : String
  lo : Ex
  hi : Ex
  step : Option Ex
  body : List Stmt

def fusionLoopOf (g : List String × Stmt) : Option FLoop :=
  match g.2, g.1.find? isFusionPragma with
  | .doLoop v lo hi st body, some t => some ⟨fusionGroup t, v, lo, hi, st, body⟩
  | _, _ => none

def exKey (e : Ex) : String := toString (encEx e)

/-- the class the model covers: every fusion loop has no step, all loops of a group have the same bounds (as syntax trees) -/
def fusionSimple (ss : List Stmt) : Bool :=
  let fl := (groups ss).1.filterMap fusionLoopOf
  fl.all fun a => a.step.isNone && fl.all fun b => a.group != b.group || (exKey a.lo == exKey b.lo && exKey a.hi == exKey b.hi)

def fusedBody (v : String) (fl : List FLoop) : List Stmt :=
  fl.flatMap fun a => if a.v == v then a.body else substStmts a.v (.var v) a.body

def fusionGo (fl : List FLoop) : List String → List (List String × Stmt) → List Stmt
  | _, [] => []
  | seen, g :: rest =>
      match fusionLoopOf g with
      | some a =>
          if seen.contains a.group then fusionGo fl seen rest
          else
            let members := fl.filter fun b => b.group == a.group
            [.nop kPragma ("loki fused-loop group(" ++ a.group ++ ")"), .doLoop a.v a.lo a.hi none (fusedBody a.v members)]
              ++ fusionGo fl (a.group :: seen) rest
      | none => pragmaStmts g.1 ++ [g.2] ++ fusionGo fl seen rest

def fusionBody (ss : List Stmt) : List Stmt :=
  let gs := groups ss
  fusionGo (gs.1.filterMap fusionLoopOf) [] gs.1 ++ pragmaStmts gs.2

/-! ### fission -/

def isFissionPragma (t : String) : Bool := t.startsWith "loki loop-fission"

def isFissionStmt (s : Stmt) : Bool :=
  match pragmaText s with
  | some t => isFissionPragma t
  | none => false

/-- segments of a loop body between fission pragmas -/
def segmentsGo : List (List Stmt) → List Stmt → List Stmt → List (List Stmt)
  | acc, cur, [] => (cur.reverse :: acc).reverse
  | acc, cur, s :: rest => if isFissionStmt s then segmentsGo (cur.reverse :: acc) [] rest else segmentsGo acc (s :: cur) rest

def assignsScalar : Stmt → Bool
  | .assign (.var _) _ => true
  | _ => false

def fissionSimple (ss : List Stmt) : Bool :=
  ss.all fun s => match s with
    | .doLoop _ _ _ _ body => !(body.any isFissionStmt) || !(body.any assignsScalar)
    | _ => true

def fissionBody (ss : List Stmt) : List Stmt :=
  ss.flatMap fun s => match s with
    | .doLoop v lo hi st body =>
        if body.any isFissionStmt then
          ((segmentsGo [] [] body).filter fun seg => !seg.isEmpty).map fun seg => .doLoop v lo hi st seg
        else [s]
    | s => [s]

/-- (scalar, loop variable) for every scalar assigned at the top level of a loop that is split -/
def fissionScalarPairs (ss : List Stmt) : List (String × String) :=
  ss.flatMap fun s => match s with
    | .doLoop v _ _ _ body =>
        if body.any isFissionStmt then
          body.filterMap fun t => match t with
            | .assign (.var x) _ => some (x, v)
            | _ => none
        else []
    | _ => []

/-- class `fission-promote-two-loopvars`: a scalar is assigned in split loops over two different loop variables (it is promoted
once per loop variable: `t(n, n)` used as `t(i, :)` / `t(:, j)`) -/
def KnownFissionPromote (ss : List Stmt) : Bool :=
  let ps := fissionScalarPairs ss
  ps.any fun a => ps.any fun b => a.1 == b.1 && a.2 != b.2

/-- class `block-zero-trip-step` (`split_loop`): the loop does not execute, but `LoopRange.num_iterations` = `(hi - lo)/s + 1`
(truncating division; the C10 model `numIter`) is positive, so the blocked nest runs the body -/
def KnownBlockZeroTrip (lo hi s : Int) : Bool :=
  LokiModel.C10.tripCount lo hi s == 0 && decide (0 < LokiModel.C10.numIter lo hi (some s))

/-! ### interchange -/

def isInterchangePragma (t : String) : Bool := t.startsWith "loki loop-interchange"

def swapInner (v : String) (lo hi : Ex) (st : Option Ex) : List Stmt → List Stmt
  | [] => []
  | .doLoop _ _ _ _ body :: rest => .doLoop v lo hi st body :: rest
  | s :: rest => s :: swapInner v lo hi st rest

def innerLoop : List Stmt → Option (String × Ex × Ex × Option Ex)
  | [] => none
  | .doLoop v lo hi st _ :: _ => some (v, lo, hi, st)
  | _ :: rest => innerLoop rest

def interchangeBody (ss : List Stmt) : List Stmt :=
  let gs := groups ss
  (gs.1.flatMap fun g =>
    match g.2 with
    | .doLoop v lo hi st body =>
        if g.1.any isInterchangePragma then
          match innerLoop body with
          | some (v2, lo2, hi2, st2) =>
              pragmaStmts (g.1.filter fun t => !isInterchangePragma t) ++ [.doLoop v2 lo2 hi2 st2 (swapInner v lo hi st body)]
          | none => pragmaStmts g.1 ++ [g.2]
        else pragmaStmts g.1 ++ [g.2]
    | s => pragmaStmts g.1 ++ [s]) ++ pragmaStmts gs.2

end LokiModel.C31
