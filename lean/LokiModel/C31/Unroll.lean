import LokiModel.C31.Sim
import LokiModel.Props.C10
/-!
# C31: a literal DO loop and its unrolled form (`unrollCopies`) compute the same, except for the loop variable
-/
namespace LokiModel.C31
open LokiModel.Fir
open LokiModel.Expr (Val)

/-! ### a body without EXIT / CYCLE of its own ends with the signal `normal` -/

theorem escapesC_find {i : Int} :
    ∀ {cs : List (List Int × List Stmt)} {c}, escapesC cs = false → cs.find? (fun c => c.1.contains i) = some c →
      escapes c.2 = false
  | [], _, _, hf => by simp at hf
  | (vs, b) :: cs, c, hok, hf => by
      simp only [escapesC, Bool.or_eq_false_iff] at hok
      simp only [List.find?] at hf
      cases hc : vs.contains i with
      | true => rw [hc] at hf; cases hf; exact hok.1
      | false => rw [hc] at hf; exact escapesC_find hok.2 hf

structure NormF (P : Program) (v : String) (f : Nat) : Prop where
  stmts : ∀ ss σ σ2 sg, okSs v ss = true → escapes ss = false → execStmts P f ss σ = .ok σ2 sg → sg = .normal
  stmt : ∀ s σ σ2 sg, okS v s = true → escapesS s = false → execStmt P f s σ = .ok σ2 sg → sg = .normal
  doI : ∀ w body step n cur σ σ2 sg, doIter P f w body step n cur σ = .ok σ2 sg → sg = .normal
  whileI : ∀ c body σ σ2 sg, whileIter P f c body σ = .ok σ2 sg → sg = .normal

theorem norm_zero (P : Program) (v : String) : NormF P v 0 := by
  constructor
  · intro ss σ σ2 sg _ _ h; simp [execStmts] at h
  · intro s σ σ2 sg _ _ h; simp [execStmt] at h
  · intro w body step n cur σ σ2 sg h; simp [doIter] at h
  · intro c body σ σ2 sg h; simp [whileIter] at h

theorem norm_succ (P : Program) (v : String) (f : Nat) (ih : NormF P v f) : NormF P v (f + 1) := by
  constructor
  · intro ss σ σ2 sg hok hesc h
    cases ss with
    | nil => simp only [execStmts] at h; cases h; rfl
    | cons s rest =>
      simp only [okSs, Bool.and_eq_true] at hok
      simp only [escapes, Bool.or_eq_false_iff] at hesc
      simp only [execStmts] at h
      cases hs : execStmt P f s σ with
      | fuel => rw [hs] at h; cases h
      | err m => rw [hs] at h; cases h
      | ok st' sg' =>
        have := ih.stmt s σ st' sg' hok.1 hesc.1 hs
        subst this
        rw [hs] at h
        exact ih.stmts rest st' σ2 sg hok.2 hesc.2 h
  · intro s σ σ2 sg hok hesc h
    cases s with
    | assign l r =>
      simp only [execStmt] at h
      cases ha : assignStmt σ l r <;> rw [ha] at h <;> cases h
      rfl
    | doLoop w lo hi st body =>
      simp only [execStmt] at h
      split at h
      · split at h
        · cases h
        · exact ih.doI _ _ _ _ _ _ _ _ h
      · cases h
    | «while» c body =>
      simp only [execStmt] at h
      exact ih.whileI _ _ _ _ _ h
    | ifte c t e =>
      simp only [okS, Bool.and_eq_true] at hok
      simp only [escapesS, Bool.or_eq_false_iff] at hesc
      simp only [execStmt] at h
      split at h
      · exact ih.stmts _ _ _ _ hok.1.2 hesc.1 h
      · exact ih.stmts _ _ _ _ hok.2 hesc.2 h
      · cases h
    | select e cs d =>
      simp only [okS, Bool.and_eq_true] at hok
      simp only [escapesS, Bool.or_eq_false_iff] at hesc
      simp only [execStmt] at h
      split at h
      · split at h
        · rename_i c hc
          exact ih.stmts _ _ _ _ (okCs_find hok.1.2 hc) (escapesC_find hesc.1 hc) h
        · exact ih.stmts _ _ _ _ hok.2 hesc.2 h
      · cases h
    | assoc bs body => simp [okS] at hok
    | callSub g args => simp [okS] at hok
    | print args =>
      simp only [execStmt] at h
      split at h <;> cases h
      rfl
    | exit => simp [escapesS] at hesc
    | cycle => simp [escapesS] at hesc
    | nop k t => simp only [execStmt] at h; cases h; rfl
  · intro w body step n cur σ σ2 sg h
    simp only [doIter] at h
    split at h
    · cases h
    · cases n with
      | zero => simp only at h; cases h; rfl
      | succ n' =>
        simp only at h
        split at h
        · cases h; rfl
        · exact ih.doI _ _ _ _ _ _ _ _ h
        · rename_i hr1 hr2
          exact absurd h (hr2 _ _)
  · intro c body σ σ2 sg h
    simp only [whileIter] at h
    split at h
    · split at h
      · cases h; rfl
      · exact ih.whileI _ _ _ _ _ h
      · rename_i hr1 hr2
        exact absurd h (hr2 _ _)
    · cases h; rfl
    · cases h

theorem norm (P : Program) (v : String) : ∀ f, NormF P v f
  | 0 => norm_zero P v
  | f + 1 => norm_succ P v f (norm P v f)

/-! ### running a concatenation -/

theorem exec_append_ok (P : Program) :
    ∀ (a : List Stmt) (fa : Nat) (σ σ1 : St), execStmts P fa a σ = .ok σ1 .normal →
      ∀ (b : List Stmt) (fb : Nat) (r : Res), execStmts P fb b σ1 = r → r.isFuel = false →
        ∃ F, execStmts P F (a ++ b) σ = r
  | [], fa, σ, σ1, h, b, fb, r, hb, _ => by
      cases fa with
      | zero => simp [execStmts] at h
      | succ f =>
        simp only [execStmts] at h
        cases h
        exact ⟨fb, hb⟩
  | s :: a', fa, σ, σ1, h, b, fb, r, hb, hfin => by
      cases fa with
      | zero => simp [execStmts] at h
      | succ f =>
        simp only [execStmts] at h
        cases hs : execStmt P f s σ with
        | fuel => rw [hs] at h; cases h
        | err m => rw [hs] at h; cases h
        | ok st' sg =>
          rw [hs] at h
          cases sg with
          | exit => cases h
          | cycle => cases h
          | normal =>
            simp only at h
            obtain ⟨F', hF'⟩ := exec_append_ok P a' f st' σ1 h b fb r hb hfin
            refine ⟨max f F' + 1, ?_⟩
            simp only [List.cons_append, execStmts]
            rw [execStmt_mono P (Nat.le_max_left f F') s σ (by rw [hs]; rfl), hs]
            simp only
            rw [execStmts_mono P (Nat.le_max_right f F') (a' ++ b) st' (by rw [hF']; exact hfin), hF']

theorem exec_append_err (P : Program) :
    ∀ (a : List Stmt) (fa : Nat) (σ : St) (m : String), execStmts P fa a σ = .err m →
      ∀ (b : List Stmt), execStmts P fa (a ++ b) σ = .err m
  | [], fa, σ, m, h, b => by
      cases fa with
      | zero => simp [execStmts] at h
      | succ f => simp [execStmts] at h
  | s :: a', fa, σ, m, h, b => by
      cases fa with
      | zero => simp [execStmts] at h
      | succ f =>
        simp only [execStmts, List.cons_append] at h ⊢
        cases hs : execStmt P f s σ with
        | fuel => rw [hs] at h; cases h
        | err m' => rw [hs] at h; exact h
        | ok st' sg =>
          rw [hs] at h
          cases sg with
          | exit => cases h
          | cycle => cases h
          | normal => exact exec_append_err P a' f st' m h b

/-! ### the loop against its copies -/

/-- the values a DO loop visits: `n` values starting at `cur` with stride `s` -/
def iterVals (cur s : Int) : Nat → List Int
  | 0 => []
  | n + 1 => cur :: iterVals (cur + s) s n

theorem unrollCopies_cons (v : String) (body : List Stmt) (k : Int) (ks : List Int) :
    unrollCopies v body (k :: ks) = substStmts v (litInt k) body ++ unrollCopies v body ks := by
  simp [unrollCopies, List.flatMap_cons]

/-- results agree except for the loop variable; fuel exhaustion is not a result -/
def ROff (v : String) : Res → Res → Prop
  | .ok a s, .ok b s' => Off v a b ∧ s = .normal ∧ s' = .normal ∧ ∃ k, lookupCell a v = some (.scalar .int (some (.int k)))
  | .err m, .err m' => m = m'
  | _, _ => False

theorem ROff.notFuel {v} {r r' : Res} (h : ROff v r r') : r'.isFuel = false := by
  cases r <;> cases r' <;> simp only [ROff] at h <;> rfl

/-- `v` is declared as an integer scalar -/
def IntScalar (σ : St) (v : String) : Prop := ∃ o, lookupCell σ v = some (.scalar .int o)

theorem setLoopVar {v} {σ σ' : St} (hoff : Off v σ σ') (hv : IntScalar σ v) (cur : Int) :
    ∃ σ1, writeAt σ v [] (.int cur) = some σ1 ∧ Sim v cur σ1 σ' := by
  obtain ⟨o, ho⟩ := hv
  refine ⟨{ σ with store := setCell σ.store v (.scalar .int (some (.int cur))) }, ?_, ?_⟩
  · rw [writeAt_eq hoff.al, ho]
    simp [cellUpdate, coerce, Option.bind]
  · refine ⟨⟨fun x hx => ?_, hoff.al, hoff.al', hoff.out⟩, ?_⟩
    · rw [lookup_setCell]
      have : (v == x) = false := by simpa using (Ne.symm hx)
      simp [this, hoff.look x hx]
    · rw [lookup_setCell]; simp

theorem doIter_unroll (P : Program) (v : String) (body : List Stmt) (s : Int)
    (hok : okSs v body = true) (hesc : escapes body = false) :
    ∀ (n : Nat) (cur : Int) (f : Nat) (σ σ' : St) (r : Res), Off v σ σ' → IntScalar σ v →
      doIter P f v body s n cur σ = r → r.isFuel = false →
      ∃ F r', execStmts P F (unrollCopies v body (iterVals cur s n)) σ' = r' ∧ ROff v r r' := by
  intro n
  induction n with
  | zero =>
    intro cur f σ σ' r hoff hv hrun hfin
    cases f with
    | zero => subst hrun; simp [doIter, Res.isFuel] at hfin
    | succ f0 =>
      obtain ⟨σ1, hw, hsim⟩ := setLoopVar hoff hv cur
      simp only [doIter, hw] at hrun
      subst hrun
      refine ⟨1, .ok σ' .normal, by simp [iterVals, unrollCopies, execStmts], ?_⟩
      exact ⟨hsim.toOff, rfl, rfl, cur, hsim.val⟩
  | succ n' ihn =>
    intro cur f σ σ' r hoff hv hrun hfin
    cases f with
    | zero => subst hrun; simp [doIter, Res.isFuel] at hfin
    | succ f0 =>
      obtain ⟨σ1, hw, hsim⟩ := setLoopVar hoff hv cur
      simp only [doIter, hw] at hrun
      rw [iterVals, unrollCopies_cons]
      rcases ((sim P v cur f0).stmts body σ1 σ' hok hsim).cases with ⟨a, b, sg, e1, e2, hab⟩ | ⟨m, e1, e2⟩ | ⟨e1, e2⟩
      · have hsg := (norm P v f0).stmts body σ1 a sg hok hesc e1
        subst hsg
        rw [e1] at hrun
        simp only at hrun
        obtain ⟨F', r', hF', hro⟩ := ihn (cur + s) f0 a b r hab.toOff ⟨_, hab.val⟩ hrun hfin
        obtain ⟨F, hF⟩ := exec_append_ok P _ f0 σ' b e2 _ F' r' hF' hro.notFuel
        exact ⟨F, r', hF, hro⟩
      · rw [e1] at hrun
        simp only at hrun
        subst hrun
        exact ⟨f0, .err m, exec_append_err P _ f0 σ' m e2 _, rfl⟩
      · rw [e1] at hrun
        simp only at hrun
        subst hrun
        simp [Res.isFuel] at hfin

/-! ### literal bounds -/

theorem evalE_constInt (σ : St) (pos : List Nat) : ∀ (e : Ex) (l : Int), constInt e = some l → evalE σ pos e = some (.int l)
  | .lit (.int n), l, h => by simp only [constInt] at h; cases h; simp [evalE]
  | .neg e, l, h => by
      simp only [constInt] at h
      cases hc : constInt e with
      | none => rw [hc] at h; cases h
      | some n =>
        rw [hc] at h
        simp only [Option.map] at h
        cases h
        simp [evalE, evalE_constInt σ pos e n hc, Val.neg]
  | .lit (.real _), _, h => by simp [constInt] at h
  | .lit (.bool _), _, h => by simp [constInt] at h
  | .var _, _, h => by simp [constInt] at h
  | .idx _ _, _, h => by simp [constInt] at h
  | .sec _ _, _, h => by simp [constInt] at h
  | .not _, _, h => by simp [constInt] at h
  | .bin _ _ _, _, h => by simp [constInt] at h
  | .call _ _, _, h => by simp [constInt] at h

theorem iterVals_eq (s : Int) : ∀ (n : Nat) (cur : Int),
    iterVals cur s n = (List.range n).map fun (i : Nat) => cur + (i : Int) * s
  | 0, cur => by simp [iterVals]
  | n + 1, cur => by
      rw [iterVals, iterVals_eq s n (cur + s), List.range_succ_eq_map]
      simp only [List.map_cons, List.map_map]
      congr 1
      · simp
      · apply List.map_congr_left
        intro i _
        simp only [Function.comp]
        have e : ((Nat.succ i : Nat) : Int) = (i : Int) + 1 := by omega
        rw [e, Int.add_mul, Int.one_mul]
        omega

theorem iterVals_doSeq (l h s : Int) : iterVals l s (tripCount l h s) = LokiModel.C10.doSeq l h s := by
  rw [iterVals_eq]; rfl

/-- what `unrollRange` returning a value list means: literal bounds, a non-zero literal (or absent) step, and the list is the
sequence of values the DO loop visits -/
theorem unrollRange_some {lo hi : Ex} {step : Option Ex} {ks : List Int} (h : unrollRange lo hi step = some ks) :
    ∃ l hh s, constInt lo = some l ∧ constInt hi = some hh ∧ stepConst step = some s ∧ s ≠ 0 ∧
      ks = iterVals l s (tripCount l hh s) := by
  unfold unrollRange at h
  cases hl : constInt lo with
  | none => simp [hl] at h
  | some l =>
    cases hh : constInt hi with
    | none => simp [hl, hh] at h
    | some hv =>
      cases step with
      | none =>
        simp only [hl, hh, stepConst, Option.bind] at h
        rw [LokiModel.C10.C10_getPyrange_nostep] at h
        cases h
        exact ⟨l, hv, 1, rfl, rfl, rfl, by decide, (iterVals_doSeq l hv 1).symm⟩
      | some e =>
        cases hs : constInt e with
        | none => simp [hl, hh, stepConst, hs] at h
        | some s =>
          simp only [hl, hh, stepConst, hs, Option.bind] at h
          by_cases hs0 : s = 0
          · subst hs0
            simp [LokiModel.C10.getPyrange, LokiModel.C10.pyRange] at h
          · rw [LokiModel.C10.C10_getPyrange_full l hv s hs0] at h
            cases h
            exact ⟨l, hv, s, rfl, rfl, hs, hs0, (iterVals_doSeq l hv s).symm⟩

/-- the unrolling theorem for one loop, any two states that agree off the loop variable -/
theorem unroll_loop (P : Program) (v : String) (lo hi : Ex) (step : Option Ex) (body : List Stmt) (ks : List Int)
    (hr : unrollRange lo hi step = some ks) (hok : okSs v body = true) (hesc : escapes body = false)
    (f : Nat) (σ σ' : St) (hoff : Off v σ σ') (hv : IntScalar σ v)
    (r : Res) (hrun : execStmt P f (.doLoop v lo hi step body) σ = r) (hfin : r.isFuel = false) :
    ∃ F r', execStmts P F (unrollCopies v body ks) σ' = r' ∧ ROff v r r' := by
  obtain ⟨l, hh, s, hl, hhi, hst, hs0, rfl⟩ := unrollRange_some hr
  cases f with
  | zero => subst hrun; simp [execStmt, Res.isFuel] at hfin
  | succ f0 =>
    have e1 : (evalE σ [] lo).bind asInt = some l := by rw [evalE_constInt σ [] lo l hl]; rfl
    have e2 : (evalE σ [] hi).bind asInt = some hh := by rw [evalE_constInt σ [] hi hh hhi]; rfl
    cases step with
    | none =>
      simp only [stepConst] at hst
      cases hst
      simp only [execStmt, e1, e2] at hrun
      exact doIter_unroll P v body 1 hok hesc _ l f0 σ σ' r hoff hv hrun hfin
    | some e =>
      simp only [stepConst] at hst
      have e3 : (evalE σ [] e).bind asInt = some s := by rw [evalE_constInt σ [] e s hst]; rfl
      simp only [execStmt, e1, e2, e3, hs0, if_false] at hrun
      exact doIter_unroll P v body s hok hesc _ l f0 σ σ' r hoff hv hrun hfin
