/-!
# C11 — vocabulary shared by the generated tables and the model

`Cls` has one constructor per Python class the model distinguishes (the two extra ones stand for a bare
Python `int` child and for `None`).  The tables in `LokiModel/Generated/C11Tables.lean` are functions on
these enumerations, regenerated from the imported `loki` / `pymbolic` classes by introspection.
-/
namespace LokiModel.C11

abbrev Str := List Char

/-- Python classes of the values that occur as expression-tree children -/
inductive Cls where
  | PyInt | PyNone
  | DeferredTypeSymbol | ProcedureSymbol | Scalar | Array
  | IntLiteral | FloatLiteral | LogicLiteral | StringLiteral
  | Sum | Product | ParenthesisedAdd | ParenthesisedMul
  | Quotient | ParenthesisedDiv | Power | ParenthesisedPow
  | Comparison | LogicalAnd | LogicalOr | LogicalNot
  | InlineCall | Cast
  | Range | RangeIndex | LoopRange
deriving DecidableEq, Repr

/-- which `__eq__` a class ends up with (first definition in its MRO) -/
inductive EqImpl where
  | pyint      -- int.__eq__ : NotImplemented for non-numbers
  | pynone     -- object.__eq__ : identity, else NotImplemented
  | strcmp     -- StrCompareMixin.__eq__
  | intLit     -- IntLiteral.__eq__
  | floatLit   -- FloatLiteral.__eq__
  | strLit     -- StringLiteral.__eq__
  | range      -- Range.__eq__ / RangeIndex.__eq__ (same body: the `1:n == n` shortcut)
  | unknown    -- anything else: the tables no longer describe the modelled code
deriving DecidableEq, Repr

/-- which `__hash__` a class ends up with -/
inductive HashImpl where
  | pyint | pynone
  | canon       -- StrCompareMixin.__hash__ : hash of the canonical string
  | rangeCanon  -- Range.__hash__ / RangeIndex.__hash__ : hash of str(self).lower().replace(' ', '')
  | valueKind   -- IntLiteral / FloatLiteral : hash((value, kind))
  | value       -- StringLiteral : hash(value)
  | initargs    -- InlineCall : hash(self.__getinitargs__())
  | unknown
deriving DecidableEq, Repr

/-- which `is_equal` pymbolic's `Expression.__eq__` ends up calling -/
inductive IsEqImpl where
  | generic    -- Expression.is_equal : type(other) == type(self) and initargs equal
  | quotient   -- pymbolic Quotient.is_equal : isinstance(other, Quotient) and num == num and den == den
  | na
deriving DecidableEq, Repr

end LokiModel.C11
