import LokiModel.C11.Lemmas
/-!
# C11 — the structural `x == k` test used by the stringifier agrees with Python's `==` against a bare int
-/
namespace LokiModel.C11
open Node

theorem subOf_pyInt (c : Cls) : subOf .PyInt c = false := by cases c <;> rfl

theorem inst_pyInt (c : Cls) (h : instOf .PyInt c = true) : c = .PyInt := by
  cases c <;> first | rfl | (exact absurd h (by decide))

theorem strcmpEq_pyInt_false (rec) (a : Node) (k : Int) (ha : eqImplOf (cls a) = .strcmp ∨ eqImplOf (cls a) = .range) :
    strcmpEq rec a (pyInt k) = false := by
  have hinst : instOf (cls (pyInt k)) (cls a) = false := by
    cases h : instOf (cls (pyInt k)) (cls a) with
    | false => rfl
    | true =>
      have := inst_pyInt _ h
      rw [this] at ha
      rcases ha with ha | ha <;> exact absurd ha (by decide)
  unfold strcmpEq
  rw [hinst]
  simp [pmEq_false rec a (pyInt k) (Or.inr (by simp only [cls]; decide))]

theorem eqIntS_strcmp (a : Node) (k : Int) (ha : eqImplOf (cls a) = .strcmp) : eqIntS a k = false := by
  have bad : ∀ {c : Cls}, eqImplOf c = .strcmp → eqImplOf c ≠ .strcmp → False := fun h h' => h' h
  cases a <;> first
    | rfl
    | (exact (bad ha (by rw [cls, rangeK_range]; decide)).elim)
    | (exact (bad ha (by simp [cls, eqImplOf])).elim)

/-- `a == k` for a bare Python int `k` (through the full `==` protocol) is what `eqIntS` computes -/
theorem eqIntS_fuel : ∀ (n : Nat) (a : Node) (k : Int), size a < n → pyEqF n a (pyInt k) = eqIntS a k
  | 0, _, _, h => by omega
  | n + 1, a, k, h => by
      simp only [pyEqF, dispatch, cls, subOf_pyInt, Bool.false_eq_true, if_false]
      by_cases ha : eqImplOf (cls a) = .strcmp
      · rw [eqm_strcmp _ _ _ ha, strcmpEq_pyInt_false _ a k (Or.inl ha), eqIntS_strcmp a k ha]
      · cases special_of_not_strcmp a ha with
        | pyInt v => simp [eqm, cls, eqImplOf, eqIntS]
        | pyNone => simp [eqm, cls, eqImplOf, eqIntS]
        | intLit v kk => simp [eqm, cls, eqImplOf, eqIntS]
        | floatLit s kk => simp [eqm, cls, eqImplOf, eqIntS]
        | strLit s => simp [eqm, cls, eqImplOf, eqIntS]
        | range kk lo hi st =>
          have hr : eqImplOf kk.cls = .range := rangeK_range kk
          have hsc := strcmpEq_pyInt_false (pyEqF n) (range kk lo hi st) k (Or.inr (by rw [cls]; exact hr))
          have hlo := eqIntS_fuel n lo 1 (by simp [size] at h; omega)
          have hhi := eqIntS_fuel n hi k (by simp [size] at h; omega)
          simp only [eqm, cls, hr, hsc, hlo, hhi, eqIntS, Bool.or_false]
          cases eqIntS lo 1 <;> cases isNone st <;> simp

end LokiModel.C11
