import LokiModel.C11.Lemmas
/-!
# C11 — the canonical text is invariant under re-casing of names
-/
set_option linter.unusedSimpArgs false
namespace LokiModel.C11
open Node

theorem lowerNS_append (s t : Str) : lowerNS (s ++ t) = lowerNS s ++ lowerNS t := by
  simp [lowerNS]

theorem lowerNS_cons (c : Char) (s : Str) : lowerNS (c :: s) = lowerNS [c] ++ lowerNS s := by
  rw [← lowerNS_append]; rfl

theorem lowerNS_nil : lowerNS [] = [] := rfl

theorem lowerNS_paren (s : Str) : lowerNS (paren s) = paren (lowerNS s) := by
  simp [paren, lowerNS, caseSensitive]

theorem lowerNS_parenIf (c : Bool) (s : Str) : lowerNS (parenIf c s) = parenIf c (lowerNS s) := by
  cases c <;> simp [parenIf, lowerNS_paren]

theorem lowerNS_joinS (sep : Str) : ∀ xs : List Str, lowerNS (joinS sep xs) = joinS (lowerNS sep) (xs.map lowerNS)
  | [] => rfl
  | [x] => rfl
  | x :: y :: xs => by
      simp only [joinS, lowerNS_append, List.map_cons]
      rw [lowerNS_joinS sep (y :: xs)]; rfl

variable (f : Str → Str)

theorem cls_recase (a : Node) : cls (recase f a) = cls a := by
  cases a <;> simp [recase, cls]
theorem isNone_recase (a : Node) : isNone (recase f a) = isNone a := by
  cases a <;> simp [recase, isNone]
theorem truthy_recase (a : Node) : truthy (recase f a) = truthy a := by
  cases a <;> simp [recase, truthy]

theorem eqIntS_recase : ∀ (a : Node) (k : Int), eqIntS (recase f a) k = eqIntS a k
  | range kk lo hi st, k => by
      simp only [recase, eqIntS, isNone_recase, eqIntS_recase lo, eqIntS_recase hi]
  | pyInt _, _ => rfl
  | pyNone, _ => rfl
  | sym .., _ => rfl
  | arr .., _ => rfl
  | intLit .., _ => rfl
  | floatLit .., _ => rfl
  | logicLit _, _ => rfl
  | strLit _, _ => rfl
  | nary .., _ => rfl
  | bin .., _ => rfl
  | cmp .., _ => rfl
  | lnot _, _ => rfl
  | call .., _ => rfl
  | castE .., _ => rfl


/-- one character as a string (kept opaque for `simp`, so that `lowerNS_cons'` does not loop) -/
def ch (c : Char) : Str := [c]

theorem lowerNS_cons' (c : Char) (s : Str) : lowerNS (c :: s) = lowerNS (ch c) ++ lowerNS s :=
  lowerNS_cons c s

theorem nameWithParent_recase (hf : ∀ s, lowerNS (f s) = lowerNS s) (t t' : Str) (b : Bool) (n : Str)
    (h : lowerNS t' = lowerNS t) :
    lowerNS (nameWithParent t' b (f n)) = lowerNS (nameWithParent t b n) := by
  unfold nameWithParent
  cases b <;> simp [lowerNS_append, lowerNS_cons', hf, h]

theorem sep_recase (xs : List Node) : starSep (recaseL f xs) = starSep xs := by
  cases xs <;> simp [recaseL, starSep]

mutual
theorem txt_recase (hf : ∀ s, lowerNS (f s) = lowerNS s) :
    ∀ (a : Node) (p : Nat), lowerNS (txt p (recase f a)) = lowerNS (txt p a)
  | pyInt _, _ => by simp only [recase]
  | pyNone, _ => by simp only [recase]
  | sym k n q, p => by
      simp only [recase, txt, isNone_recase]
      exact nameWithParent_recase f hf _ _ _ _ (txt_recase hf q p)
  | arr n q ds, p => by
      cases ds with
      | nil =>
        simp only [recase, recaseL, txt, isNone_recase]
        exact nameWithParent_recase f hf _ _ _ _ (txt_recase hf q p)
      | cons d ds =>
        simp only [recase, recaseL, txt, isNone_recase, lowerNS_append, lowerNS_paren, lowerNS_joinS]
        rw [nameWithParent_recase f hf _ _ _ _ (txt_recase hf q precNone)]
        have := txtL_recase hf (d :: ds) precNone
        simp only [recaseL] at this
        rw [this]
  | intLit _ _, _ => by simp only [recase, txt]
  | floatLit s k, p => by
      simp only [recase, txt, isNone_recase]
      split
      · rfl
      · simp only [lowerNS_append, lowerNS_cons', txt_recase hf k precNone]
  | logicLit _, _ => by simp only [recase]
  | strLit _, _ => by simp only [recase]
  | nary .sum cs, p => by simp only [recase, txt, lowerNS_parenIf, txtSum_recase hf cs true]
  | nary .psum cs, p => by simp only [recase, txt, lowerNS_paren, txtSum_recase hf cs true]
  | nary .prod cs, p => by simp only [recase, txt, lowerNS_parenIf, txtProd_recase hf cs]
  | nary .pprod cs, p => by simp only [recase, txt, lowerNS_paren, txtProd_recase hf cs]
  | nary .land cs, p => by simp only [recase, txt, lowerNS_parenIf, lowerNS_joinS, txtL_recase hf cs _]
  | nary .lor cs, p => by simp only [recase, txt, lowerNS_parenIf, lowerNS_joinS, txtL_recase hf cs _]
  | bin .quot a b, p => by
      simp only [recase, txt, lowerNS_parenIf, lowerNS_append, lowerNS_cons', cls_recase,
        txt_recase hf a _, txt_recase hf b _]
  | bin .pquot a b, p => by
      simp only [recase, txt, lowerNS_parenIf, lowerNS_paren, lowerNS_append, lowerNS_cons', cls_recase,
        txt_recase hf a _, txt_recase hf b _]
  | bin .pow a b, p => by
      simp only [recase, txt, lowerNS_parenIf, lowerNS_append, txt_recase hf a _, txt_recase hf b _]
  | bin .ppow a b, p => by
      simp only [recase, txt, lowerNS_paren, lowerNS_append, txt_recase hf a _, txt_recase hf b _]
  | cmp o l r, p => by
      simp only [recase, txt, lowerNS_parenIf, lowerNS_append, txt_recase hf l _, txt_recase hf r _]
  | lnot c, p => by
      simp only [recase, txt, lowerNS_parenIf, lowerNS_append, txt_recase hf c _]
  | call g as kn kv, p => by
      simp only [recase, txt, lowerNS_paren, lowerNS_append, lowerNS_joinS, List.map_append,
        txt_recase hf g _, txtL_recase hf as _, txtKw_recase hf kn kv]
  | castE n e k, p => by
      simp only [recase, txt, lowerNS_paren, lowerNS_append, truthy_recase, hf, txt_recase hf e _]
      split
      · simp only [lowerNS_append, txt_recase hf k _]
      · rfl
  | range kk lo hi st, p => by
      simp only [recase, txt, isNone_recase, lowerNS_parenIf, lowerNS_joinS, List.map_append, List.map_cons, List.map_nil]
      have e1 : lowerNS (if isNone lo then [] else txt precNone (recase f lo)) = lowerNS (if isNone lo then [] else txt precNone lo) := by
        split <;> simp only [txt_recase hf lo _]
      have e2 : lowerNS (if isNone hi then [] else txt precNone (recase f hi)) = lowerNS (if isNone hi then [] else txt precNone hi) := by
        split <;> simp only [txt_recase hf hi _]
      rw [e1, e2]
      cases isNone st <;> simp only [Bool.false_eq_true, if_false, if_true, List.map_cons, List.map_nil, txt_recase hf st _]
theorem txtL_recase (hf : ∀ s, lowerNS (f s) = lowerNS s) :
    ∀ (cs : List Node) (p : Nat), (txtL p (recaseL f cs)).map lowerNS = (txtL p cs).map lowerNS
  | [], _ => rfl
  | c :: cs, p => by
      simp only [recaseL, txtL, List.map_cons, txt_recase hf c p, txtL_recase hf cs p]
theorem txtKw_recase (hf : ∀ s, lowerNS (f s) = lowerNS s) :
    ∀ (kn : List Str) (kv : List Node), (txtKw (kn.map f) (recaseL f kv)).map lowerNS = (txtKw kn kv).map lowerNS
  | [], _ => by simp [txtKw]
  | _ :: _, [] => by simp [txtKw, recaseL]
  | n :: ns, v :: vs => by
      simp only [List.map_cons, recaseL, txtKw, lowerNS_append, lowerNS_cons', hf, txt_recase hf v _,
        txtKw_recase hf ns vs]
theorem txtStar_recase (hf : ∀ s, lowerNS (f s) = lowerNS s) :
    ∀ (cs : List Node), lowerNS (txtStar (recaseL f cs)) = lowerNS (txtStar cs)
  | [] => rfl
  | c :: cs => by
      simp only [recaseL, txtStar, lowerNS_append, sep_recase, txt_recase hf c _, txtStar_recase hf cs]
theorem txtProd_recase (hf : ∀ s, lowerNS (f s) = lowerNS s) :
    ∀ (cs : List Node), lowerNS (txtProd (recaseL f cs)) = lowerNS (txtProd cs)
  | [] => rfl
  | [a] => by simp only [recaseL, txtProd, txt_recase hf a _]
  | [a, b] => by
      simp only [recaseL, txtProd, eqIntS_recase]
      split
      · simp only [lowerNS_cons', txt_recase hf b _]
      · simp only [lowerNS_append, lowerNS_cons', txt_recase hf a _, txt_recase hf b _]
  | a :: b :: c :: r => by
      simp only [recaseL, txtProd, lowerNS_append, lowerNS_cons', sep_recase,
        txt_recase hf a _, txt_recase hf b _, txt_recase hf c _, txtStar_recase hf r]
theorem txtProdInt_recase (hf : ∀ s, lowerNS (f s) = lowerNS s) (v : Int) :
    ∀ (cs : List Node), lowerNS (txtProdInt v (recaseL f cs)) = lowerNS (txtProdInt v cs)
  | [] => rfl
  | [b] => by
      simp only [recaseL, txtProdInt]
      split
      · simp only [lowerNS_cons', txt_recase hf b _]
      · simp only [lowerNS_append, lowerNS_cons', txt_recase hf b _]
  | b :: c :: r => by
      simp only [recaseL, txtProdInt, lowerNS_append, lowerNS_cons', sep_recase,
        txt_recase hf b _, txt_recase hf c _, txtStar_recase hf r]
theorem txtSum_recase (hf : ∀ s, lowerNS (f s) = lowerNS s) :
    ∀ (cs : List Node) (first : Bool), lowerNS (txtSum first (recaseL f cs)) = lowerNS (txtSum first cs)
  | [], _ => rfl
  | c :: cs, first => by
      have ih := txt_recase hf c precSum
      have ihs := txtSum_recase hf cs false
      cases c with
      | nary k cs' =>
        cases k with
        | prod =>
          cases cs' with
          | nil =>
            simp only [recase, recaseL] at ih ⊢
            simp only [txtSum, lowerNS_append, ih, ihs]
          | cons h rest =>
            cases h with
            | pyInt v =>
              have ihp := txtProd_recase hf rest
              have ihi := txtProdInt_recase hf v rest
              simp only [recase, recaseL, txtSum, lowerNS_append]
              split
              · simp only [lowerNS_cons', ihp, ihs]
              · simp only [lowerNS_append, ihi, ihs]
            | _ =>
              simp only [recase, recaseL] at ih ⊢
              simp only [txtSum, lowerNS_append, ih, ihs]
        | _ =>
          simp only [recase, recaseL] at ih ⊢
          simp only [txtSum, lowerNS_append, ih, ihs]
      | _ =>
        simp only [recase, recaseL] at ih ⊢
        simp only [txtSum, lowerNS_append, ih, ihs]
end


/-- the canonical string ignores the case of names -/
theorem canon_recase (hf : ∀ s, lowerNS (f s) = lowerNS s) (a : Node) : canon (recase f a) = canon a :=
  txt_recase f hf a precNone

theorem size_pos (a : Node) : 1 ≤ size a := by
  cases a <;> simp [size] <;> omega

theorem strcmpEq_recase (hf : ∀ s, lowerNS (f s) = lowerNS s) (rec) (a : Node) :
    strcmpEq rec a (recase f a) = true ∧ strcmpEq rec (recase f a) a = true := by
  unfold strcmpEq
  simp [cls_recase, instOf_refl, canon_recase f hf]

/-- one step: every class's `__eq__` says True for a node and its re-cased copy, given that for the kinds -/
theorem eqm_recase (hf : ∀ s, lowerNS (f s) = lowerNS s) (rec : Node → Node → Bool) (a : Node)
    (hki : ∀ v k, a = intLit v k → rec k (recase f k) = true ∧ rec (recase f k) k = true)
    (hkf : ∀ s k, a = floatLit s k → rec k (recase f k) = true ∧ rec (recase f k) k = true) :
    eqm rec a (recase f a) = some true ∧ eqm rec (recase f a) a = some true := by
  by_cases ha : eqImplOf (cls a) = .strcmp
  · rw [eqm_strcmp _ _ _ ha, eqm_strcmp _ _ _ (by rw [cls_recase]; exact ha)]
    simp [strcmpEq_recase f hf rec a]
  · cases special_of_not_strcmp a ha with
    | pyInt v => simp [recase, eqm, cls, eqImplOf]
    | pyNone => simp [recase, eqm, cls, eqImplOf]
    | strLit s => simp [recase, eqm, cls, eqImplOf]
    | intLit v k => simp [recase, eqm, cls, eqImplOf, hki v k rfl]
    | floatLit s k => simp [recase, eqm, cls, eqImplOf, hkf s k rfl]
    | range k lo hi st =>
      have h := strcmpEq_recase f hf rec (range k lo hi st)
      have hr : eqImplOf k.cls = .range := rangeK_range k
      simp only [recase] at h ⊢
      simp only [eqm, cls, hr, h.1, h.2, Bool.or_true, ite_self, and_self]

theorem recase_fuel (hf : ∀ s, lowerNS (f s) = lowerNS s) :
    ∀ (n : Nat) (a : Node), size a ≤ n → pyEqF n a (recase f a) = true ∧ pyEqF n (recase f a) a = true
  | 0, a, h => by have := size_pos a; omega
  | n + 1, a, h => by
      have hk : ∀ k, size k + 1 ≤ n + 1 → pyEqF n k (recase f k) = true ∧ pyEqF n (recase f k) k = true :=
        fun k hk => recase_fuel hf n k (by omega)
      have he := eqm_recase f hf (pyEqF n) a
        (fun v k e => hk k (by subst e; simpa [size] using h))
        (fun s k e => hk k (by subst e; simpa [size] using h))
      simp only [pyEqF, dispatch, cls_recase, subOf_irrefl, Bool.false_eq_true, if_false, he.1, he.2, and_self]

end LokiModel.C11
