import LokiModel.C11.Basic
import LokiModel.Generated.C11Tables
/-!
# C11 — executable model of `==` / `hash` on Loki expression nodes

Mirrors (Loki `loki/expression/{mixins,literals,symbols,operations,mappers}.py`, pymbolic `primitives.py`,
`mapper/stringifier.py`):

* `Node`       one constructor per modelled class family (+ bare Python `int`, `None`)
* `txt`        `LokiStringifyMapper` (precedence driven parenthesisation, minus detection in sums/products,
               forced parentheses around multiplicative denominators, `Parenthesised*` classes) — the text is
               produced *without* the purely cosmetic blanks, because the only consumer here is
               `StrCompareMixin._canonical` = `str(x).lower().replace(' ', '')`
* `canon`      `StrCompareMixin._canonical`
* `hkey`       the value handed to Python's `hash` by each class's `__hash__`
* `eqm`        each class's own `__eq__` (`none` = `NotImplemented`), chosen through the *generated* tables
               `eqImplOf`, `subOf`, `isEqImplOf`
* `pyEqF`      Python's `==` protocol: reflected `__eq__` of the right operand first iff its class is a proper
               subclass of the left operand's class; `NotImplemented` falls through to the other operand; then
               identity (distinct objects: `False`)

Recursion of `==` into children (`self.kind == other.kind`, `self.children[1] == other`, `numerator == …`)
goes through a fuel parameter; `pyEq a b` supplies `size a + size b + 1`, every recursive call is on a pair
of strictly smaller total size.
-/
namespace LokiModel.C11

inductive SymK where | dts | proc | scalar
deriving DecidableEq, Repr
inductive NaryK where | sum | prod | psum | pprod | land | lor
deriving DecidableEq, Repr
inductive BinK where | quot | pquot | pow | ppow
deriving DecidableEq, Repr
inductive RangeK where | range | rindex | lrange
deriving DecidableEq, Repr

/-- expression-tree values.  `pyNone` stands for an absent parent / kind / range bound. -/
inductive Node where
  | pyInt (v : Int)
  | pyNone
  | sym (k : SymK) (name : Str) (parent : Node)
  | arr (name : Str) (parent : Node) (dims : List Node)
  | intLit (v : Int) (kind : Node)
  | floatLit (v : Str) (kind : Node)
  | logicLit (b : Bool)
  | strLit (s : Str)
  | nary (k : NaryK) (cs : List Node)
  | bin (k : BinK) (a b : Node)
  | cmp (op : Str) (l r : Node)
  | lnot (c : Node)
  | call (fn : Node) (args : List Node) (kwn : List Str) (kwv : List Node)
  | castE (name : Str) (e : Node) (kind : Node)
  | range (k : RangeK) (lo hi step : Node)
deriving Repr

open Node

def SymK.cls : SymK → Cls
  | .dts => .DeferredTypeSymbol | .proc => .ProcedureSymbol | .scalar => .Scalar
def NaryK.cls : NaryK → Cls
  | .sum => .Sum | .prod => .Product | .psum => .ParenthesisedAdd | .pprod => .ParenthesisedMul
  | .land => .LogicalAnd | .lor => .LogicalOr
def BinK.cls : BinK → Cls
  | .quot => .Quotient | .pquot => .ParenthesisedDiv | .pow => .Power | .ppow => .ParenthesisedPow
def RangeK.cls : RangeK → Cls
  | .range => .Range | .rindex => .RangeIndex | .lrange => .LoopRange

/-- `type(x)` -/
def cls : Node → Cls
  | pyInt _ => .PyInt
  | pyNone => .PyNone
  | sym k _ _ => k.cls
  | arr .. => .Array
  | intLit .. => .IntLiteral
  | floatLit .. => .FloatLiteral
  | logicLit _ => .LogicLiteral
  | strLit _ => .StringLiteral
  | nary k _ => k.cls
  | bin k _ _ => k.cls
  | cmp .. => .Comparison
  | lnot _ => .LogicalNot
  | call .. => .InlineCall
  | castE .. => .Cast
  | range k _ _ _ => k.cls

/-- `isinstance(x, C)` for `type(x) = c` -/
def instOf (c d : Cls) : Bool := c == d || subOf c d

def isNone : Node → Bool
  | pyNone => true
  | _ => false

mutual
def size : Node → Nat
  | pyInt _ => 1
  | pyNone => 1
  | sym _ _ p => size p + 1
  | arr _ p ds => size p + sizeL ds + 1
  | intLit _ k => size k + 1
  | floatLit _ k => size k + 1
  | logicLit _ => 1
  | strLit _ => 1
  | nary _ cs => sizeL cs + 1
  | bin _ a b => size a + size b + 1
  | cmp _ l r => size l + size r + 1
  | lnot c => size c + 1
  | call f as _ vs => size f + sizeL as + sizeL vs + 1
  | castE _ e k => size e + size k + 1
  | range _ lo hi st => size lo + size hi + size st + 1
def sizeL : List Node → Nat
  | [] => 0
  | c :: cs => size c + sizeL cs
end

/-! ## Python `float(str)` as far as `FloatLiteral.__eq__(int)` needs it -/

def isDigit (c : Char) : Bool := '0' ≤ c && c ≤ '9'

def digitsVal (ds : List Char) : Nat := ds.foldl (fun acc c => acc * 10 + (c.toNat - '0'.toNat)) 0

/-- `[+-]` prefix -/
def takeSign : List Char → Bool × List Char
  | '-' :: r => (true, r)
  | '+' :: r => (false, r)
  | r => (false, r)

/-- value of a Python float literal string as `m * 10^e` (exact; `none` = `float()` raises ValueError).
Accepted: `[sign] digits [. digits] [(e|E) [sign] digits]` with at least one mantissa digit.  Not modelled:
`inf`/`nan`, underscores, surrounding blanks, rounding of long mantissas. -/
def pyFloat (s : Str) : Option (Int × Int) :=
  let (neg, r) := takeSign s
  let ip := r.takeWhile isDigit
  let r := r.dropWhile isDigit
  let (fp, r) := match r with
    | '.' :: r' => (r'.takeWhile isDigit, r'.dropWhile isDigit)
    | _ => ([], r)
  if ip.isEmpty && fp.isEmpty then none else
  let m : Int := digitsVal (ip ++ fp)
  let m := if neg then -m else m
  match r with
  | [] => some (m, -(fp.length : Int))
  | c :: r' =>
    if c == 'e' || c == 'E' then
      let (eneg, r'') := takeSign r'
      if r''.isEmpty || !(r''.all isDigit) then none else
      let e : Int := digitsVal r''
      some (m, (if eneg then -e else e) - (fp.length : Int))
    else none

/-- `float(s) == float(w)` -/
def pyFloatEqInt (s : Str) (w : Int) : Bool :=
  match pyFloat s with
  | none => false
  | some (m, e) => if e ≥ 0 then m * 10 ^ e.toNat == w else m == w * 10 ^ (-e).toNat

/-! ## the stringifier -/

def paren (s : Str) : Str := '(' :: s ++ [')']
def parenIf (c : Bool) (s : Str) : Str := if c then paren s else s

def joinS (sep : Str) : List Str → Str
  | [] => []
  | [x] => x
  | x :: xs => x ++ sep ++ joinS sep xs

def intStr (v : Int) : Str := (toString v).toList

/-- `x == k` for a bare Python int `k`, evaluated the way the classes' `__eq__` do (structural version used by
the stringifier's `children[0] == -1` test; `Props` proves it agrees with `pyEq x (pyInt k)`). -/
def eqIntS : Node → Int → Bool
  | pyInt v, k => v == k
  | intLit v _, k => v == k
  | floatLit s _, k => pyFloatEqInt s k
  | range _ lo hi st, k => eqIntS lo 1 && isNone st && eqIntS hi k
  | _, _ => false

/-- truthiness as used by `if expr.kind:` in `map_cast` (exact for `None`, ints, `IntLiteral`, `LogicLiteral`
and symbols; other composites are treated as truthy) -/
def truthy : Node → Bool
  | pyNone => false
  | pyInt v => v != 0
  | intLit v _ => v != 0
  | logicLit b => b
  | _ => true

/-- `map_constant` for a bare int: parenthesised when negative inside anything tighter than a sum -/
def intTxt (p : Nat) (v : Int) : Str := parenIf (decide (v < 0) && decide (p > precSum)) (intStr v)

/-- the `*` that follows a factor when more factors follow -/
def starSep : List Node → Str
  | [] => []
  | _ :: _ => ['*']

def nameWithParent (ptxt : Str) (parentIsNone : Bool) (name : Str) : Str :=
  if parentIsNone then name else ptxt ++ '%' :: name

mutual
/-- `LokiStringifyMapper.rec(expr, enclosing_prec)` without cosmetic blanks -/
def txt (p : Nat) : Node → Str
  | pyInt v => intTxt p v
  | pyNone => "None".toList
  | sym _ name parent => nameWithParent (txt p parent) (isNone parent) name         -- map_variable_symbol
  | arr name parent dims =>                                                         -- map_array / map_array_subscript
      match dims with
      | [] => nameWithParent (txt p parent) (isNone parent) name
      | _ => nameWithParent (txt precNone parent) (isNone parent) name ++ paren (joinS [','] (txtL precNone dims))
  | intLit v _ => intStr v                                                          -- map_int_literal: kind not printed
  | floatLit s k => if isNone k then s else s ++ '_' :: txt precNone k              -- map_float_literal
  | logicLit b => if b then "True".toList else "False".toList
  | strLit s => '\'' :: s ++ ['\'']                                                 -- (values without quote characters)
  | nary .sum cs => parenIf (p > precSum) (txtSum true cs)
  | nary .psum cs => paren (txtSum true cs)
  | nary .prod cs => parenIf (p > precProduct) (txtProd cs)
  | nary .pprod cs => paren (txtProd cs)
  | nary .land cs => parenIf (p > precLogicalAnd) (joinS "and".toList (txtL precLogicalAnd cs))
  | nary .lor cs => parenIf (p > precLogicalOr) (joinS "or".toList (txtL precLogicalOr cs))
  | bin .quot a b => parenIf (p > precProduct) (txt precProduct a ++ '/' :: parenIf (mulPrim (cls b) && !parenPrim (cls b)) (txt precProduct b))
  | bin .pquot a b => paren (txt precProduct a ++ '/' :: parenIf (mulPrim (cls b) && !parenPrim (cls b)) (txt precProduct b))
  | bin .pow a b => parenIf (p > precPower) (txt precPower a ++ "**".toList ++ txt precPower b)
  | bin .ppow a b => paren (txt precPower a ++ "**".toList ++ txt precPower b)
  | cmp op l r => parenIf (p > precComparison) (txt precComparison l ++ op ++ txt precComparison r)
  | lnot c => parenIf (p > precUnary) ("not".toList ++ txt precUnary c)
  | call f as kn kv => txt precCall f ++ paren (joinS [','] (txtL precNone as ++ txtKw kn kv))
  | castE name e k => name ++ paren (txt precNone e ++ (if truthy k then ",kind=".toList ++ txt precNone k else []))
  | range _ lo hi st =>                                                             -- map_range
      parenIf (p > precNone) (joinS [':'] ([if isNone lo then [] else txt precNone lo, if isNone hi then [] else txt precNone hi] ++
          (if isNone st then [] else [txt precNone st])))
/-- `map_sum`: terms with `+`/`-`; a child `Product((-1, …))` (plain `Product`, bare `-1`) becomes a subtraction.
`first` = no leading `+`. -/
def txtSum (first : Bool) : List Node → Str
  | [] => []
  | (nary .prod (pyInt v :: rest)) :: cs =>
      (if v == -1 then '-' :: txtProd rest      -- `Product(children[1:])` (or `children[1]`) at PREC_PRODUCT
       else (if first then [] else ['+']) ++ txtProdInt v rest) ++ txtSum false cs
  | c :: cs => ((if first then [] else ['+']) ++ txt precSum c) ++ txtSum false cs
/-- `map_product` body (before `parenthesize_if_needed`) -/
def txtProd : List Node → Str
  | [] => []
  | [a] => txt precProduct a
  | [a, b] => if eqIntS a (-1) then '-' :: txt precProduct b
              else txt precProduct a ++ '*' :: txt precProduct b
  | a :: b :: c :: r => txt precProduct a ++ '*' :: txt precProduct b ++ '*' :: txt precProduct c ++
                        starSep r ++ txtStar r
/-- `txtProd (pyInt v :: rest)` (same equations, the head being a bare int) -/
def txtProdInt (v : Int) : List Node → Str
  | [] => intTxt precProduct v
  | [b] => if v == -1 then '-' :: txt precProduct b
           else intTxt precProduct v ++ '*' :: txt precProduct b
  | b :: c :: r => intTxt precProduct v ++ '*' :: txt precProduct b ++ '*' :: txt precProduct c ++
                   starSep r ++ txtStar r
/-- `join_rec("*", children, PREC_PRODUCT)` -/
def txtStar : List Node → Str
  | [] => []
  | c :: cs => txt precProduct c ++ starSep cs ++ txtStar cs
def txtL (p : Nat) : List Node → List Str
  | [] => []
  | c :: cs => txt p c :: txtL p cs
def txtKw : List Str → List Node → List Str
  | n :: ns, v :: vs => (n ++ '=' :: txt precNone v) :: txtKw ns vs
  | _, _ => []
end

/-- `str.lower()` on ASCII and `.replace(' ', '')` -/
def lowerNS (s : Str) : Str :=
  (s.filter (· ≠ ' ')).map (fun c => if caseSensitive then c else c.toLower)

/-- `StrCompareMixin._canonical(x)` -/
def canon (a : Node) : Str := lowerNS (txt precNone a)

/-! ## hash keys -/

/-- the value handed to Python's `hash` (tuples as `pair … nil`).  Equality of keys stands for equality of
hashes (assumption: `hash` is injective on the keys that occur, apart from `hash(-1) == hash(-2)`). -/
inductive Key where
  | str (s : Str)
  | int (v : Int)
  | none
  | nil
  | pair (a b : Key)
deriving DecidableEq, Repr

/-- CPython: `hash(-1) == -2` -/
def pyHashInt (v : Int) : Int := if v == -1 then -2 else v

mutual
/-- the argument of `hash(…)` in `type(a).__hash__`, selected through the generated table `hashImplOf` -/
def hkey (a : Node) : Key :=
  match hashImplOf (cls a) with
  | .pyint => (match a with | pyInt v => .int (pyHashInt v) | _ => .nil)
  | .pynone => .none
  | .canon => .str (canon a)
  | .rangeCanon => .str (canon a)
  | .valueKind =>
      (match a with
       | intLit v k => .pair (.int (pyHashInt v)) (.pair (hkey k) .nil)
       | floatLit s k => .pair (.str s) (.pair (hkey k) .nil)
       | _ => .nil)
  | .value => (match a with | strLit s => .str s | _ => .nil)
  | .initargs =>
      (match a with          -- (function, parameters, tuple of the keyword *names*)
       | call f as kn _ => .pair (hkey f) (.pair (hkeyL as) (.pair (kn.foldr (fun n t => .pair (.str n) t) .nil) .nil))
       | _ => .nil)
  | .unknown => .nil
def hkeyL : List Node → Key
  | [] => .nil
  | c :: cs => .pair (hkey c) (hkeyL cs)
end

/-! ## the classes' `__eq__` methods -/

/-- pymbolic `Expression.__eq__(self, other)` reached from `StrCompareMixin.__eq__` via `super()`, i.e. only when
`other` is not an instance of `type(self)`: unequal hashes → False, else `is_equal`.  The generic `is_equal`
requires `type(other) == type(self)`, impossible here; pymbolic's `Quotient.is_equal` accepts any Quotient. -/
def pmEq (rec : Node → Node → Bool) (a b : Node) : Bool :=
  if hkey a != hkey b then false else
  match isEqImplOf (cls a) with
  | .quotient =>
      instOf (cls b) .Quotient &&
      (match a, b with
       | bin _ n d, bin _ n2 d2 => rec n n2 && rec d d2
       | _, _ => false)
  | _ => false

/-- `StrCompareMixin.__eq__` -/
def strcmpEq (rec : Node → Node → Bool) (a b : Node) : Bool :=
  if instOf (cls b) (cls a) then canon a == canon b else pmEq rec a b

/-- `type(a).__eq__(a, b)`; `none` = `NotImplemented`.  `rec` = Python `==` on children. -/
def eqm (rec : Node → Node → Bool) (a b : Node) : Option Bool :=
  match eqImplOf (cls a) with
  | .pyint =>
      match a, b with
      | pyInt v, pyInt w => some (v == w)
      | _, _ => none
  | .pynone =>
      match a, b with
      | pyNone, pyNone => some true
      | _, _ => none
  | .strcmp => some (strcmpEq rec a b)
  | .intLit =>
      match a, b with
      | intLit v k, intLit w k2 => some (v == w && rec k k2)
      | intLit v _, pyInt w => some (v == w)
      | _, _ => some false                                   -- int(other) raises TypeError
  | .floatLit =>
      match a, b with
      | floatLit s k, floatLit s2 k2 => some (s == s2 && rec k k2)
      | floatLit s _, pyInt w => some (pyFloatEqInt s w)        -- isinstance(other, (int, float, str))
      | _, _ => some false                                       -- any other node: False (no float(other))
  | .strLit =>
      match a, b with
      | strLit s, strLit s2 => some (s == s2)
      | _, _ => some false
  | .range =>
      match a with
      | range _ lo hi st =>
          if rec lo (pyInt 1) && isNone st then some (rec hi b || strcmpEq rec a b)
          else some (strcmpEq rec a b)
      | _ => none
  | .unknown => none

/-- Python's `a == b` given the methods -/
def dispatch (rec : Node → Node → Bool) (a b : Node) : Bool :=
  if subOf (cls b) (cls a) then
    match eqm rec b a with
    | some r => r
    | none => match eqm rec a b with
      | some r => r
      | none => false
  else
    match eqm rec a b with
    | some r => r
    | none => match eqm rec b a with
      | some r => r
      | none => false

def pyEqF : Nat → Node → Node → Bool
  | 0, _, _ => false
  | n + 1, a, b => dispatch (pyEqF n) a b

/-- `a == b` -/
def pyEq (a b : Node) : Bool := pyEqF (size a + size b + 1) a b

/-- `hash(a) == hash(b)` -/
def hashEq (a b : Node) : Bool := hkey a == hkey b

/-! ## exception / known-finding classes (decidable predicates on pairs) -/

/-- the documented `1:n == n` shortcut decides `a == b`: `a` is a Range-family node `lo:hi` without step,
`lo == 1` and `hi == b` -/
def shortcutFires (rec : Node → Node → Bool) (a b : Node) : Bool :=
  match a with
  | range _ lo hi st => rec lo (pyInt 1) && isNone st && rec hi b
  | _ => false

def isPyInt : Node → Bool
  | pyInt _ => true
  | _ => false
def isIntOrFloatLit : Node → Bool
  | intLit .. => true
  | floatLit .. => true
  | _ => false
/-- known class `bare-number-vs-literal-hash`: `IntLiteral(1) == 1` but `hash((1, None)) != hash(1)` -/
def KnownBareVsLit (a b : Node) : Bool :=
  (isPyInt a && isIntOrFloatLit b) || (isPyInt b && isIntOrFloatLit a)

/-- exception predicate with a pluggable top-level class `K`: the documented shortcut decides `a == b` or
`b == a`, or `K a b`, or `a`, `b` are two literals of the same class and value whose kinds are such a pair
(`self.kind == other.kind` is then evaluated by `==` again) -/
def excF (K : Node → Node → Bool) : Nat → Node → Node → Bool
  | 0, _, _ => false
  | n + 1, a, b =>
      shortcutFires (pyEqF n) a b || shortcutFires (pyEqF n) b a || K a b ||
      (match a, b with
       | intLit v k, intLit w k2 => v == w && excF K n k k2
       | floatLit s k, floatLit s2 k2 => s == s2 && excF K n k k2
       | _, _ => false)

def noKnown (_ _ : Node) : Bool := false

/-- the documented exception only (`1:n == n`, also when it happens between the kinds of two literals) -/
def docExc (a b : Node) : Bool := excF noKnown (size a + size b + 1) a b
/-- documented exception or the open known class `bare-number-vs-literal-hash` -/
def hashExc (a b : Node) : Bool := excF KnownBareVsLit (size a + size b + 1) a b

/-! ## re-casing of names -/

mutual
def recase (f : Str → Str) : Node → Node
  | pyInt v => pyInt v
  | pyNone => pyNone
  | sym k n q => sym k (f n) (recase f q)
  | arr n q ds => arr (f n) (recase f q) (recaseL f ds)
  | intLit v k => intLit v (recase f k)
  | floatLit s k => floatLit s (recase f k)
  | logicLit b => logicLit b
  | strLit s => strLit s
  | nary k cs => nary k (recaseL f cs)
  | bin k a b => bin k (recase f a) (recase f b)
  | cmp o l r => cmp o (recase f l) (recase f r)
  | lnot c => lnot (recase f c)
  | call g as kn kv => call (recase f g) (recaseL f as) (kn.map f) (recaseL f kv)
  | castE n e k => castE (f n) (recase f e) (recase f k)
  | range k lo hi st => range k (recase f lo) (recase f hi) (recase f st)
def recaseL (f : Str → Str) : List Node → List Node
  | [] => []
  | c :: cs => recase f c :: recaseL f cs
end

end LokiModel.C11
