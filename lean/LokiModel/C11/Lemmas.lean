import LokiModel.C11.Model
/-!
# C11 — helper lemmas (class-table facts, one-step symmetry / hash lemmas)
-/
namespace LokiModel.C11
open Node

/-! ## facts about the generated class tables (re-checked whenever the tables change) -/

theorem subOf_irrefl (c : Cls) : subOf c c = false := by cases c <;> rfl

theorem subOf_asymm (c d : Cls) (h : subOf c d = true) : subOf d c = false := by
  cases c <;> cases d <;> first | rfl | (exact absurd h (by decide))

/-- instances of a `StrCompareMixin.__eq__` class use `StrCompareMixin.__eq__` themselves -/
theorem inst_strcmp (c d : Cls) (hc : eqImplOf c = .strcmp) (hi : instOf d c = true) : eqImplOf d = .strcmp := by
  cases c <;> cases d <;> first | rfl | (exact absurd hc (by decide)) | (exact absurd hi (by decide))

/-- instances of a Range-family class use the Range `__eq__` -/
theorem inst_range (c d : Cls) (hc : eqImplOf c = .range) (hi : instOf d c = true) : eqImplOf d = .range := by
  cases c <;> cases d <;> first | rfl | (exact absurd hc (by decide)) | (exact absurd hi (by decide))

theorem inst_quot_strcmp (d : Cls) (hi : instOf d .Quotient = true) : eqImplOf d = .strcmp := by
  cases d <;> first | rfl | (exact absurd hi (by decide))

theorem range_generic (c : Cls) (hc : eqImplOf c = .range) : isEqImplOf c = .generic := by
  cases c <;> first | rfl | (exact absurd hc (by decide))

/-- the only way `Quotient.is_equal` is reached with an acceptable `other` is ParenthesisedDiv vs Quotient,
where one class is a proper subclass of the other -/
theorem quot_related (c d : Cls) (hc : isEqImplOf c = .quotient) (hd : instOf d .Quotient = true)
    (hne : instOf d c = false) : subOf c d = true := by
  cases c <;> cases d <;> first | rfl | (exact absurd hc (by decide)) | (exact absurd hd (by decide)) | (exact absurd hne (by decide))

/-- a subclass hashes the way its base class does: every class compared by text is hashed by text -/
theorem inst_hash (c d : Cls) (hi : instOf d c = true) (hc : eqImplOf c = .strcmp ∨ eqImplOf c = .range) :
    (hashImplOf c = .canon ∨ hashImplOf c = .rangeCanon) ∧ (hashImplOf d = .canon ∨ hashImplOf d = .rangeCanon) := by
  cases c <;> cases d <;> first
    | (exact absurd hi (by decide))
    | (exact absurd hc (by decide))
    | (exact ⟨Or.inl rfl, Or.inl rfl⟩)
    | (exact ⟨Or.inr rfl, Or.inr rfl⟩)

theorem instOf_refl (c : Cls) : instOf c c = true := by simp [instOf]

theorem instOf_of_not_sub {c d : Cls} (h : subOf d c = false) : instOf d c = (d == c) := by
  simp [instOf, h]

theorem beq_comm' {α} [BEq α] [LawfulBEq α] (s t : α) : (s == t) = (t == s) := by
  by_cases h : s = t
  · subst h; rfl
  · rw [beq_eq_false_iff_ne.mpr h, beq_eq_false_iff_ne.mpr (Ne.symm h)]

theorem bne_comm' {α} [BEq α] [LawfulBEq α] (s t : α) : (s != t) = (t != s) := by
  simp only [bne, beq_comm' s t]

/-! ## shapes -/

/-- split all class-kind parameters in the context -/
macro "split_kinds" : tactic =>
  `(tactic| repeat (first
      | (cases ‹SymK›) | (cases ‹NaryK›) | (cases ‹BinK›) | (cases ‹RangeK›)))

theorem symK_strcmp (k : SymK) : eqImplOf k.cls = .strcmp := by cases k <;> rfl
theorem naryK_strcmp (k : NaryK) : eqImplOf k.cls = .strcmp := by cases k <;> rfl
theorem binK_strcmp (k : BinK) : eqImplOf k.cls = .strcmp := by cases k <;> rfl
theorem rangeK_range (k : RangeK) : eqImplOf k.cls = .range := by cases k <;> rfl

/-- nodes whose class does not use `StrCompareMixin.__eq__` -/
inductive Special : Node → Prop
  | pyInt (v) : Special (pyInt v)
  | pyNone : Special pyNone
  | intLit (v k) : Special (intLit v k)
  | floatLit (s k) : Special (floatLit s k)
  | strLit (s) : Special (strLit s)
  | range (k lo hi st) : Special (range k lo hi st)

theorem special_of_not_strcmp (a : Node) (h : eqImplOf (cls a) ≠ .strcmp) : Special a := by
  cases a <;> first
    | constructor
    | (exact absurd (symK_strcmp _) h) | (exact absurd (naryK_strcmp _) h) | (exact absurd (binK_strcmp _) h)
    | (exact absurd rfl h)

/-! ## the `__eq__` methods, one lemma per implementation -/

theorem eqm_strcmp (rec) (a b : Node) (h : eqImplOf (cls a) = .strcmp) :
    eqm rec a b = some (strcmpEq rec a b) := by
  simp only [eqm, h]

theorem pmEq_false (rec) (a b : Node) (h : isEqImplOf (cls a) = .generic ∨ instOf (cls b) .Quotient = false) :
    pmEq rec a b = false := by
  unfold pmEq
  split
  · rfl
  · rcases h with h | h
    · simp [h]
    · split <;> simp [h]

theorem pmEq_true (rec) (a b : Node) (h : pmEq rec a b = true) :
    hkey a = hkey b ∧ isEqImplOf (cls a) = .quotient ∧ instOf (cls b) .Quotient = true := by
  unfold pmEq at h
  split at h
  · exact absurd h (by simp)
  · rename_i hk
    have hk' : hkey a = hkey b := by simpa using hk
    split at h
    · rename_i hq
      simp at h
      exact ⟨hk', hq, h.1⟩
    · exact absurd h (by simp)


/-! ## one step of the symmetry argument -/

theorem special_not_strcmp {s : Node} (hs : Special s) : eqImplOf (cls s) ≠ .strcmp := by
  cases hs <;> intro h <;> simp only [cls] at h <;>
    first | (exact absurd h (by decide)) | (rw [rangeK_range] at h; exact absurd h (by decide))

theorem strcmpEq_sym (rec) (a b : Node) (hs1 : subOf (cls b) (cls a) = false) (hs2 : subOf (cls a) (cls b) = false) :
    strcmpEq rec a b = strcmpEq rec b a := by
  unfold strcmpEq
  rw [instOf_of_not_sub hs1, instOf_of_not_sub hs2]
  by_cases hc : cls a = cls b
  · simp only [hc, beq_self_eq_true, if_true]; exact beq_comm' _ _
  · have h1 : (cls b == cls a) = false := by simpa using (fun e => hc e.symm)
    have h2 : (cls a == cls b) = false := by simpa using hc
    simp only [h1, h2]
    have f1 : pmEq rec a b = false := by
      cases h : pmEq rec a b with
      | false => rfl
      | true =>
        obtain ⟨_, hq, hi⟩ := pmEq_true rec a b h
        have := quot_related (cls a) (cls b) hq hi (by rw [instOf_of_not_sub hs1]; exact h1)
        rw [hs2] at this; exact absurd this (by simp)
    have f2 : pmEq rec b a = false := by
      cases h : pmEq rec b a with
      | false => rfl
      | true =>
        obtain ⟨_, hq, hi⟩ := pmEq_true rec b a h
        have := quot_related (cls b) (cls a) hq hi (by rw [instOf_of_not_sub hs2]; exact h2)
        rw [hs1] at this; exact absurd this (by simp)
    simp [f1, f2]

/-- a node of a special class against a node of a `StrCompareMixin.__eq__` class, outside the exceptions:
both methods say `False` (or `NotImplemented`) -/
theorem special_vs_strcmp (rec) (s t : Node) (hs : Special s) (ht : eqImplOf (cls t) = .strcmp)
    (hfire : shortcutFires rec s t = false) :
    (eqm rec s t = none ∨ eqm rec s t = some false) ∧ eqm rec t s = some false := by
  have hns := special_not_strcmp hs
  constructor
  · have bad : ∀ {c : Cls}, eqImplOf c = .strcmp → eqImplOf c ≠ .strcmp → False := fun h h' => h' h
    cases hs with
    | pyInt v => left; cases t <;> first | rfl | (exact (bad ht (by simp [cls, eqImplOf])).elim)
    | pyNone => left; cases t <;> first | rfl | (exact (bad ht (by simp [cls, eqImplOf])).elim)
    | intLit v k => right; cases t <;> first | rfl | (exact (bad ht (by simp [cls, eqImplOf])).elim)
    | strLit s => right; cases t <;> first | rfl | (exact (bad ht (by simp [cls, eqImplOf])).elim)
    | floatLit s k => right; cases t <;> first | rfl | (exact (bad ht (by simp [cls, eqImplOf])).elim)
    | range k lo hi st =>
      right
      have hr : eqImplOf (cls (range k lo hi st)) = .range := by rw [cls, rangeK_range]
      have hinst : instOf (cls t) (cls (range k lo hi st)) = false := by
        cases h : instOf (cls t) (cls (range k lo hi st)) with
        | false => rfl
        | true => have := inst_range _ _ hr h; rw [ht] at this; exact absurd this (by decide)
      have hsc : strcmpEq rec (range k lo hi st) t = false := by
        unfold strcmpEq; rw [hinst]; simp [pmEq_false rec _ t (Or.inl (range_generic _ hr))]
      simp only [shortcutFires] at hfire
      simp only [eqm, hr, hsc]
      by_cases hc : (rec lo (pyInt 1) && isNone st) = true
      · rw [hc] at hfire; simp at hfire; simp [hc, hfire]
      · simp [hc]
  · rw [eqm_strcmp rec t s ht]
    have hinst : instOf (cls s) (cls t) = false := by
      cases h : instOf (cls s) (cls t) with
      | false => rfl
      | true => exact absurd (inst_strcmp _ _ ht h) hns
    have hq : instOf (cls s) .Quotient = false := by
      cases h : instOf (cls s) .Quotient with
      | false => rfl
      | true => exact absurd (inst_quot_strcmp _ h) hns
    unfold strcmpEq; rw [hinst]; simp [pmEq_false rec t s (Or.inr hq)]


theorem eqm_range_nofire (rec) (k lo hi st) (t : Node) (hfire : shortcutFires rec (range k lo hi st) t = false) :
    eqm rec (range k lo hi st) t = some (strcmpEq rec (range k lo hi st) t) := by
  have hr : eqImplOf (cls (range k lo hi st)) = .range := by rw [cls, rangeK_range]
  simp only [shortcutFires] at hfire
  simp only [eqm, hr]
  by_cases hc : (rec lo (pyInt 1) && isNone st) = true
  · rw [hc] at hfire; simp at hfire; simp [hc, hfire]
  · simp [hc]

theorem range_vs_nonrange (rec) (k lo hi st) (t : Node) (hfire : shortcutFires rec (range k lo hi st) t = false)
    (ht : eqImplOf (cls t) ≠ .range) : eqm rec (range k lo hi st) t = some false := by
  rw [eqm_range_nofire rec k lo hi st t hfire]
  have hr : eqImplOf (cls (range k lo hi st)) = .range := by rw [cls, rangeK_range]
  have hinst : instOf (cls t) (cls (range k lo hi st)) = false := by
    cases h : instOf (cls t) (cls (range k lo hi st)) with
    | false => rfl
    | true => exact absurd (inst_range _ _ hr h) ht
  unfold strcmpEq; rw [hinst]; simp [pmEq_false rec _ t (Or.inl (range_generic _ hr))]

theorem special_agree (rec) (a b : Node) (ha : Special a) (hb : Special b)
    (hs1 : subOf (cls b) (cls a) = false) (hs2 : subOf (cls a) (cls b) = false)
    (h1 : shortcutFires rec a b = false) (h2 : shortcutFires rec b a = false)
    (hki : ∀ v k k2, a = intLit v k → b = intLit v k2 → rec k k2 = rec k2 k)
    (hkf : ∀ s k k2, a = floatLit s k → b = floatLit s k2 → rec k k2 = rec k2 k)
    (x y : Bool) (hx : eqm rec a b = some x) (hy : eqm rec b a = some y) : x = y := by
  cases ha with
  | range k lo hi st =>
    cases hb with
    | range k' lo' hi' st' =>
      rw [eqm_range_nofire _ _ _ _ _ _ h1] at hx; rw [eqm_range_nofire _ _ _ _ _ _ h2] at hy
      simp only [Option.some.injEq] at hx hy
      (first | rw [← hx, ← hy] | rw [hx, hy]); exact strcmpEq_sym rec _ _ hs1 hs2
    | pyInt v => simp [eqm, cls, eqImplOf] at hy
    | pyNone => simp [eqm, cls, eqImplOf] at hy
    | intLit v kk =>
      rw [range_vs_nonrange _ _ _ _ _ _ h1 (by simp [cls, eqImplOf])] at hx
      simp [eqm, cls, eqImplOf] at hx hy; (first | rw [← hx, ← hy] | rw [hx, hy])
    | floatLit v kk =>
      rw [range_vs_nonrange _ _ _ _ _ _ h1 (by simp [cls, eqImplOf])] at hx
      simp [eqm, cls, eqImplOf] at hx hy; (first | rw [← hx, ← hy] | rw [hx, hy])
    | strLit v =>
      rw [range_vs_nonrange _ _ _ _ _ _ h1 (by simp [cls, eqImplOf])] at hx
      simp [eqm, cls, eqImplOf] at hx hy; (first | rw [← hx, ← hy] | rw [hx, hy])
  | pyInt v =>
    cases hb with
    | pyInt w => simp [eqm, cls, eqImplOf] at hx hy; (first | rw [← hx, ← hy] | rw [hx, hy]); exact beq_comm' _ _
    | _ => simp [eqm, cls, eqImplOf] at hx
  | pyNone =>
    cases hb with
    | pyNone => simp [eqm, cls, eqImplOf] at hx hy; (first | rw [← hx, ← hy] | rw [hx, hy])
    | _ => simp [eqm, cls, eqImplOf] at hx
  | intLit v kk =>
    cases hb with
    | range k' lo' hi' st' =>
      rw [range_vs_nonrange _ _ _ _ _ _ h2 (by simp [cls, eqImplOf])] at hy
      simp [eqm, cls, eqImplOf] at hx hy; (first | rw [← hx, ← hy] | rw [hx, hy])
    | pyInt w => simp [eqm, cls, eqImplOf] at hy
    | pyNone => simp [eqm, cls, eqImplOf] at hy
    | intLit w kk2 =>
      simp [eqm, cls, eqImplOf] at hx hy; (first | rw [← hx, ← hy] | rw [hx, hy])
      by_cases hvw : v = w
      · subst hvw; simp [hki v kk kk2 rfl rfl]
      · have : ¬ w = v := fun e => hvw e.symm
        rw [beq_eq_false_iff_ne.mpr hvw, beq_eq_false_iff_ne.mpr this]; rfl
    | floatLit w kk2 => simp [eqm, cls, eqImplOf] at hx hy; (first | rw [← hx, ← hy] | rw [hx, hy])
    | strLit w => simp [eqm, cls, eqImplOf] at hx hy; (first | rw [← hx, ← hy] | rw [hx, hy])
  | floatLit v kk =>
    cases hb with
    | range k' lo' hi' st' =>
      rw [range_vs_nonrange _ _ _ _ _ _ h2 (by simp [cls, eqImplOf])] at hy
      simp [eqm, cls, eqImplOf] at hx hy; (first | rw [← hx, ← hy] | rw [hx, hy])
    | pyInt w => simp [eqm, cls, eqImplOf] at hy
    | pyNone => simp [eqm, cls, eqImplOf] at hy
    | floatLit w kk2 =>
      simp [eqm, cls, eqImplOf] at hx hy; (first | rw [← hx, ← hy] | rw [hx, hy])
      by_cases hvw : v = w
      · subst hvw; simp [hkf v kk kk2 rfl rfl]
      · have : ¬ w = v := fun e => hvw e.symm
        rw [beq_eq_false_iff_ne.mpr hvw, beq_eq_false_iff_ne.mpr this]; rfl
    | intLit w kk2 => simp [eqm, cls, eqImplOf] at hx hy; (first | rw [← hx, ← hy] | rw [hx, hy])
    | strLit w => simp [eqm, cls, eqImplOf] at hx hy; (first | rw [← hx, ← hy] | rw [hx, hy])
  | strLit v =>
    cases hb with
    | range k' lo' hi' st' =>
      rw [range_vs_nonrange _ _ _ _ _ _ h2 (by simp [cls, eqImplOf])] at hy
      simp [eqm, cls, eqImplOf] at hx hy; (first | rw [← hx, ← hy] | rw [hx, hy])
    | pyInt w => simp [eqm, cls, eqImplOf] at hy
    | pyNone => simp [eqm, cls, eqImplOf] at hy
    | strLit w => simp [eqm, cls, eqImplOf] at hx hy; (first | rw [← hx, ← hy] | rw [hx, hy]); exact beq_comm' _ _
    | intLit w kk2 => simp [eqm, cls, eqImplOf] at hx hy; (first | rw [← hx, ← hy] | rw [hx, hy])
    | floatLit w kk2 => simp [eqm, cls, eqImplOf] at hx hy; (first | rw [← hx, ← hy] | rw [hx, hy])


/-- one step of the symmetry argument: with neither class a proper subclass of the other, outside the
exceptions, the two `__eq__` methods agree whenever both give an answer -/
theorem eqm_agree (rec : Node → Node → Bool) (a b : Node)
    (hs1 : subOf (cls b) (cls a) = false) (hs2 : subOf (cls a) (cls b) = false)
    (h1 : shortcutFires rec a b = false) (h2 : shortcutFires rec b a = false)
    (hki : ∀ v k k2, a = intLit v k → b = intLit v k2 → rec k k2 = rec k2 k)
    (hkf : ∀ s k k2, a = floatLit s k → b = floatLit s k2 → rec k k2 = rec k2 k)
    (x y : Bool) (hx : eqm rec a b = some x) (hy : eqm rec b a = some y) : x = y := by
  by_cases ha : eqImplOf (cls a) = .strcmp
  · by_cases hb : eqImplOf (cls b) = .strcmp
    · rw [eqm_strcmp _ _ _ ha] at hx; rw [eqm_strcmp _ _ _ hb] at hy
      simp only [Option.some.injEq] at hx hy
      rw [← hx, ← hy]; exact strcmpEq_sym rec a b hs1 hs2
    · have hsb := special_of_not_strcmp b hb
      obtain ⟨h', h''⟩ := special_vs_strcmp rec b a hsb ha h2
      rw [h''] at hx
      rcases h' with h' | h' <;> rw [h'] at hy <;> simp at hx hy
      rw [hx, hy]
  · have hsa := special_of_not_strcmp a ha
    by_cases hb : eqImplOf (cls b) = .strcmp
    · obtain ⟨h', h''⟩ := special_vs_strcmp rec a b hsa hb h1
      rw [h''] at hy
      rcases h' with h' | h' <;> rw [h'] at hx <;> simp at hx hy
      rw [hx, hy]
    · exact special_agree rec a b hsa (special_of_not_strcmp b hb) hs1 hs2 h1 h2 hki hkf x y hx hy

/-- Python's `==` gives the same answer in both operand orders, outside the exceptions -/
theorem dispatch_sym (rec : Node → Node → Bool) (a b : Node)
    (h1 : shortcutFires rec a b = false) (h2 : shortcutFires rec b a = false)
    (hki : ∀ v k k2, a = intLit v k → b = intLit v k2 → rec k k2 = rec k2 k)
    (hkf : ∀ s k k2, a = floatLit s k → b = floatLit s k2 → rec k k2 = rec k2 k) :
    dispatch rec a b = dispatch rec b a := by
  unfold dispatch
  cases hs1 : subOf (cls b) (cls a) with
  | true =>
    -- the reflected method of `b` is tried first in `a == b`; in `b == a` it is simply the first method
    rw [subOf_asymm _ _ hs1]; simp
  | false =>
    cases hs2 : subOf (cls a) (cls b) with
    | true => simp
    | false =>
      simp only [Bool.false_eq_true, if_false]
      cases hx : eqm rec a b with
      | none => cases hy : eqm rec b a <;> rfl
      | some x =>
        cases hy : eqm rec b a with
        | none => rfl
        | some y => exact eqm_agree rec a b hs1 hs2 h1 h2 hki hkf x y hx hy

/-- symmetry at every fuel level -/
theorem sym_fuel (K : Node → Node → Bool) :
    ∀ (n : Nat) (a b : Node), excF K n a b = false → pyEqF n a b = pyEqF n b a
  | 0, _, _, _ => rfl
  | n + 1, a, b, h => by
      simp only [excF, Bool.or_eq_false_iff] at h
      obtain ⟨⟨⟨h1, h2⟩, _⟩, h4⟩ := h
      simp only [pyEqF]
      apply dispatch_sym _ _ _ h1 h2
      · intro v k k2 ea eb
        subst ea eb
        simp at h4
        exact sym_fuel K n k k2 h4
      · intro s k k2 ea eb
        subst ea eb
        simp at h4
        exact sym_fuel K n k k2 h4


/-! ## hash consistency -/

theorem hkey_canon (a : Node) (h : hashImplOf (cls a) = .canon ∨ hashImplOf (cls a) = .rangeCanon) :
    hkey a = .str (canon a) := by
  cases a <;> split_kinds <;>
    simp [hkey, cls, SymK.cls, NaryK.cls, BinK.cls, RangeK.cls, hashImplOf] at h ⊢

/-- `StrCompareMixin.__eq__` answering True forces equal hash keys -/
theorem strcmpEq_hash (rec) (a b : Node) (ha : eqImplOf (cls a) = .strcmp ∨ eqImplOf (cls a) = .range)
    (h : strcmpEq rec a b = true) : hkey a = hkey b := by
  unfold strcmpEq at h
  split at h
  · rename_i hi
    have hcan : canon a = canon b := by simpa using h
    obtain ⟨h1, h2⟩ := inst_hash (cls a) (cls b) hi ha
    rw [hkey_canon a h1, hkey_canon b h2, hcan]
  · exact (pmEq_true rec a b h).1

theorem KnownBareVsLit_comm (a b : Node) : KnownBareVsLit a b = KnownBareVsLit b a := by
  unfold KnownBareVsLit; exact Bool.or_comm _ _
/-- one `__eq__` method answering True forces equal hash keys, outside the exceptions -/
theorem eqm_true_hash (rec : Node → Node → Bool) (a b : Node)
    (h1 : shortcutFires rec a b = false) (hbl : KnownBareVsLit a b = false)
    (hki : ∀ v k k2, a = intLit v k → b = intLit v k2 → rec k k2 = true → hkey k = hkey k2)
    (hkf : ∀ s k k2, a = floatLit s k → b = floatLit s k2 → rec k k2 = true → hkey k = hkey k2)
    (hx : eqm rec a b = some true) : hkey a = hkey b := by
  by_cases ha : eqImplOf (cls a) = .strcmp
  · rw [eqm_strcmp _ _ _ ha] at hx
    exact strcmpEq_hash rec a b (Or.inl ha) (by simpa using hx)
  · cases special_of_not_strcmp a ha with
    | pyInt v =>
      cases b <;> simp [eqm, cls, eqImplOf] at hx
      subst hx; rfl
    | pyNone =>
      cases b <;> simp [eqm, cls, eqImplOf] at hx
      rfl
    | intLit v k =>
      cases b <;> simp [eqm, cls, eqImplOf] at hx
      · simp [KnownBareVsLit, isPyInt, isIntOrFloatLit] at hbl
      · obtain ⟨hv, hr⟩ := hx
        subst hv
        have := hki v k _ rfl rfl hr
        rw [hkey, hkey]; simp [cls, hashImplOf, this]
    | floatLit s k =>
      cases b with
      | pyInt w => simp [KnownBareVsLit, isPyInt, isIntOrFloatLit] at hbl
      | floatLit s2 k2 =>
        simp [eqm, cls, eqImplOf] at hx
        obtain ⟨hv, hr⟩ := hx
        subst hv
        have := hkf s k _ rfl rfl hr
        rw [hkey, hkey]; simp [cls, hashImplOf, this]
      | _ => simp [eqm, cls, eqImplOf] at hx
    | strLit s =>
      cases b <;> simp [eqm, cls, eqImplOf] at hx
      subst hx; rfl
    | range k lo hi st =>
      rw [eqm_range_nofire _ _ _ _ _ _ h1] at hx
      exact strcmpEq_hash rec _ b (Or.inr (by rw [cls, rangeK_range])) (by simpa using hx)

theorem dispatch_true (rec) (a b : Node) (h : dispatch rec a b = true) :
    eqm rec a b = some true ∨ eqm rec b a = some true := by
  unfold dispatch at h
  split at h <;>
    (cases hx : eqm rec a b <;> cases hy : eqm rec b a <;> simp_all)

/-- hash consistency at every fuel level -/
theorem hash_fuel : ∀ (n : Nat) (a b : Node), pyEqF n a b = true → excF KnownBareVsLit n a b = false → hkey a = hkey b
  | 0, _, _, h, _ => by simp [pyEqF] at h
  | n + 1, a, b, h, he => by
      simp only [excF, Bool.or_eq_false_iff] at he
      obtain ⟨⟨⟨h1, h2⟩, h3⟩, h4⟩ := he
      simp only [pyEqF] at h
      rcases dispatch_true _ a b h with hx | hx
      · apply eqm_true_hash _ a b h1 h3 _ _ hx
        · intro v k k2 ea eb hr; subst ea eb; simp at h4; exact hash_fuel n k k2 hr h4
        · intro s k k2 ea eb hr; subst ea eb; simp at h4; exact hash_fuel n k k2 hr h4
      · symm
        apply eqm_true_hash _ b a h2 (by rw [KnownBareVsLit_comm]; exact h3) _ _ hx
        · intro v k k2 ea eb hr; subst ea eb; simp at h4
          exact (hash_fuel n k2 k (by rw [sym_fuel KnownBareVsLit n k2 k h4]; exact hr) h4).symm
        · intro s k k2 ea eb hr; subst ea eb; simp at h4
          exact (hash_fuel n k2 k (by rw [sym_fuel KnownBareVsLit n k2 k h4]; exact hr) h4).symm

end LokiModel.C11
