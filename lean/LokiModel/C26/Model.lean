import LokiModel.Fir.Sem
import LokiModel.Generated.C26Tables
/-!
# C26/C27 model: the transfer functions of `DataflowAnalysisAttacher` on FIR statements

Anchors: `loki/analyse/dataflow_analysis.py` (`_visit_body`, `visit_Loop`, `visit_WhileLoop`, `visit_Conditional`,
`visit_MultiConditional`, `visit_Associate`, `visit_Assignment`, `visit_CallStatement`, default `visit_Node` for
PRINT / EXIT / CYCLE / comments / pragmas), `DataflowAnalysis.attach_dataflow_analysis` (initial live set).

Symbols are `(name, key)`: `key = ""` for a symbol stripped of its dimensions (what `_symbols_from_expr` produces),
otherwise the canonical text of the subscripted expression (un-stripped `FindVariables` results in calls without
routine, selectors put into the sets by the name inversion of `visit_Associate`); an inverted selector that is not a
variable at all has name `""`.  `OrderedSet`s are lists (order and duplicates are irrelevant: the driver sorts and
dedups, Python does the same on the real sets).

Covered statement kinds: all of FIR.  Not covered (no FIR counterpart): WHERE (`visit_MaskedStatement`), allocation,
pointer nullification, memory-query intrinsics, literal kinds, derived-type members, keyword arguments.
Core Lean only.
-/
namespace LokiModel.C26
open LokiModel.Fir
open LokiModel.Expr (Val CmpOp)

abbrev Sym := String × String
abbrev SymSet := List Sym

/-! ### canonical text of expressions (symbol keys) -/

def opName : BinOp → String
  | .add => "+" | .sub => "-" | .mul => "*" | .div => "/" | .pow => "**"
  | .cmp .eq => "==" | .cmp .ne => "/=" | .cmp .lt => "<" | .cmp .le => "<=" | .cmp .gt => ">" | .cmp .ge => ">="
  | .and => "&" | .or => "|"

mutual
def exKey : Ex → String
  | .lit (.int i) => toString i
  | .lit (.real q) => toString q.num ++ "/" ++ toString q.den
  | .lit (.bool b) => if b then "T" else "F"
  | .var x => x
  | .idx x subs => x ++ "(" ++ exKeys subs ++ ")"
  | .sec x dims => x ++ "[" ++ dimKeys dims ++ "]"
  | .neg a => "-(" ++ exKey a ++ ")"
  | .not a => "!(" ++ exKey a ++ ")"
  | .bin o a b => "(" ++ exKey a ++ opName o ++ exKey b ++ ")"
  | .call f args => f ++ "<" ++ exKeys args ++ ">"
def exKeys : List Ex → String
  | [] => ""
  | e :: es => match es with
      | [] => exKey e
      | _ :: _ => exKey e ++ "," ++ exKeys es
def dimKey : Dim → String
  | .at e => exKey e
  | .rng lo hi st => oKey lo ++ ":" ++ oKey hi ++ ":" ++ oKey st
def dimKeys : List Dim → String
  | [] => ""
  | d :: ds => match ds with
      | [] => dimKey d
      | _ :: _ => dimKey d ++ "," ++ dimKeys ds
def oKey : Option Ex → String
  | none => ""
  | some e => exKey e
end

/-! ### variables of expressions -/

mutual
/-- all variable names of an expression, those inside subscripts included (`FindVariables`, stripped) -/
def varsEx : Ex → List String
  | .lit _ => []
  | .var x => [x]
  | .idx x subs => varsExs subs ++ [x]
  | .sec x dims => varsDims dims ++ [x]
  | .neg a => varsEx a
  | .not a => varsEx a
  | .bin _ a b => varsEx a ++ varsEx b
  | .call _ args => varsExs args
def varsExs : List Ex → List String
  | [] => []
  | e :: es => varsEx e ++ varsExs es
def varsDim : Dim → List String
  | .at e => varsEx e
  | .rng lo hi st => varsO lo ++ varsO hi ++ varsO st
def varsDims : List Dim → List String
  | [] => []
  | d :: ds => varsDim d ++ varsDims ds
def varsO : Option Ex → List String
  | none => []
  | some e => varsEx e
end

/-- variables inside the subscripts of an element / section designator (`expr.dimensions`), not the array itself -/
def subVars : Ex → List String
  | .idx _ subs => varsExs subs
  | .sec _ dims => varsDims dims
  | _ => []

mutual
/-- variables inside any subscript occurring anywhere in the expression -/
def allSubVars : Ex → List String
  | .lit _ => []
  | .var _ => []
  | .idx _ subs => varsExs subs
  | .sec _ dims => varsDims dims
  | .neg a => allSubVars a
  | .not a => allSubVars a
  | .bin _ a b => allSubVars a ++ allSubVars b
  | .call _ args => allSubVarsL args
def allSubVarsL : List Ex → List String
  | [] => []
  | e :: es => allSubVars e ++ allSubVarsL es
end

mutual
/-- un-stripped `FindVariables`: every variable occurrence with its subscripts -/
def rawVars : Ex → SymSet
  | .lit _ => []
  | .var x => [(x, "")]
  | .idx x subs => (x, exKey (.idx x subs)) :: rawVarsL subs
  | .sec x dims => (x, exKey (.sec x dims)) :: rawVarsD dims
  | .neg a => rawVars a
  | .not a => rawVars a
  | .bin _ a b => rawVars a ++ rawVars b
  | .call _ args => rawVarsL args
def rawVarsL : List Ex → SymSet
  | [] => []
  | e :: es => rawVars e ++ rawVarsL es
def rawVarsDim : Dim → SymSet
  | .at e => rawVars e
  | .rng lo hi st => rawVarsO lo ++ rawVarsO hi ++ rawVarsO st
def rawVarsD : List Dim → SymSet
  | [] => []
  | d :: ds => rawVarsDim d ++ rawVarsD ds
def rawVarsO : Option Ex → SymSet
  | none => []
  | some e => rawVars e
end

mutual
/-- un-stripped variables inside the subscripts of every subscripted variable of the expression -/
def rawSubVars : Ex → SymSet
  | .lit _ => []
  | .var _ => []
  | .idx _ subs => rawVarsL subs
  | .sec _ dims => rawVarsD dims
  | .neg a => rawSubVars a
  | .not a => rawSubVars a
  | .bin _ a b => rawSubVars a ++ rawSubVars b
  | .call _ args => rawSubVarsL args
def rawSubVarsL : List Ex → SymSet
  | [] => []
  | e :: es => rawSubVars e ++ rawSubVarsL es
end

def syms (xs : List String) : SymSet := xs.map fun x => (x, "")

def names (s : SymSet) : List String := s.map (·.1)

/-- `a - b` on ordered sets -/
def sdiff (a b : SymSet) : SymSet := a.filter fun x => !b.contains x

def lhsName : Ex → String
  | .var x => x
  | .idx x _ => x
  | .sec x _ => x
  | _ => ""

/-! ### `_visit_body` -/

/-- the loop of `_visit_body` over the already visited children `(defines, uses)`:
`uses |= child.uses - defines; defines |= child.defines` -/
def foldBody (defs uses : SymSet) : List (SymSet × SymSet) → SymSet × SymSet
  | [] => (defs, uses)
  | (d, u) :: r => foldBody (defs ++ d) (uses ++ sdiff u defs) r

/-! ### calls -/

structure Ctx where
  p : Program
  enr : Bool      -- the main unit was enriched with the callees (`CallStatement.routine` is set)

def intentStr : Intent → String
  | .in_ => "in" | .out => "out" | .inout => "inout" | .none => "none"

def intentOf (u : Fir.Unit) (x : String) : String :=
  match findDecl u x with
  | some d => intentStr d.intent
  | none => "none"

/-- `[val for arg, val in o.arg_iter() if str(arg.type.intent).lower() in tbl]` -/
def selArgs (tbl : List String) (u : Fir.Unit) (args : List Ex) : List Ex :=
  (u.args.zip args).filterMap fun pr => if tbl.contains (intentOf u pr.1) then some pr.2 else none

def callDU (c : Ctx) (g : String) (args : List Ex) : SymSet × SymSet :=
  match (if c.enr then findUnit c.p g else none) with
  | some u =>
      let outvals := selArgs Generated.C26.outIntents u args
      let invals := selArgs Generated.C26.inIntents u args
      let dims := syms (allSubVarsL outvals)
      let defs := sdiff (syms (varsExs outvals)) dims
      (defs, dims ++ syms (varsExs invals))
  | none =>
      let dims := rawSubVarsL args
      let defs := sdiff (syms (varsExs args)) dims
      (defs, defs ++ dims)

/-! ### associate name inversion -/

def selSym (e : Ex) : Sym :=
  match e with
  | .var y => (y, "")
  | .idx y _ => (y, exKey e)
  | .sec y _ => (y, exKey e)
  | _ => ("", exKey e)

def invert (binds : List (String × Ex)) (s : SymSet) : SymSet :=
  s.map fun v => match binds.reverse.find? (·.1 == v.1) with
    | some b => selSym b.2
    | none => v

/-! ### defines / uses of a node -/

def boundVars (lo hi : Ex) (step : Option Ex) : List String := varsEx lo ++ varsEx hi ++ varsO step

mutual
/-- `(defines_symbols, uses_symbols)` of the node of a statement -/
def du (c : Ctx) : Stmt → SymSet × SymSet
  | .assign lhs rhs => ([(lhsName lhs, "")], syms (subVars lhs) ++ syms (varsEx rhs))
  | .doLoop v lo hi step body =>
      let r := foldBody [] (syms (boundVars lo hi step)) (duL c body)
      (r.1.filter (· != (v, "")), r.2.filter (· != (v, "")))
  | .while cnd body => foldBody [] (syms (varsEx cnd)) (duL c body)
  | .ifte cnd thn els =>
      let r1 := foldBody [] (syms (varsEx cnd)) (duL c thn)
      let r2 := foldBody [] r1.2 (duL c els)
      (r1.1 ++ r2.1, r2.2)
  | .select e cases dflt =>
      let r := duC c (syms (varsEx e)) cases
      let r2 := foldBody [] r.2 (duL c dflt)
      (r.1 ++ r2.1, r2.2)
  | .assoc binds body =>
      let r := foldBody [] [] (duL c body)
      (invert binds r.1, invert binds r.2)
  | .callSub g args => callDU c g args
  | .print _ => ([], [])
  | .exit => ([], [])
  | .cycle => ([], [])
  | .nop _ _ => ([], [])
def duL (c : Ctx) : List Stmt → List (SymSet × SymSet)
  | [] => []
  | s :: r => du c s :: duL c r
/-- the loop over `o.bodies` of `visit_MultiConditional`: defines accumulated, uses threaded -/
def duC (c : Ctx) (uses : SymSet) : List (List Int × List Stmt) → SymSet × SymSet
  | [] => ([], uses)
  | (_, b) :: r =>
      let r1 := foldBody [] uses (duL c b)
      let r2 := duC c r1.2 r
      (r1.1 ++ r2.1, r2.2)
end

def defsOf (c : Ctx) (s : Stmt) : SymSet := (du c s).1
def usesOf (c : Ctx) (s : Stmt) : SymSet := (du c s).2
/-- defines / uses of a body visited from empty sets (`Section`, and what `_visit_body` returns for a branch) -/
def bodyDU (c : Ctx) (ss : List Stmt) : SymSet × SymSet := foldBody [] [] (duL c ss)

/-! ### annotated tree (defines, uses, live of every node) for the correspondence check -/

inductive Ann where
  | mk (kind : String) (d u l : SymSet) (kids : List (List Ann))

def kindOf : Stmt → String
  | .assign _ _ => "assign" | .doLoop .. => "do" | .while .. => "while" | .ifte .. => "if" | .select .. => "select"
  | .assoc .. => "assoc" | .callSub .. => "callsub" | .print _ => "print" | .exit => "exit" | .cycle => "cycle"
  | .nop .. => "nop"

mutual
def annS (c : Ctx) (live : SymSet) : Stmt → Ann
  | .doLoop v lo hi step body =>
      let r := du c (.doLoop v lo hi step body)
      .mk "do" r.1 r.2 live [annL c (live ++ [(v, "")]) [] body]
  | .while cnd body =>
      let r := du c (.while cnd body)
      .mk "while" r.1 r.2 live [annL c live [] body]
  | .ifte cnd thn els =>
      let r := du c (.ifte cnd thn els)
      .mk "if" r.1 r.2 live [annL c live [] thn, annL c live [] els]
  | .select e cases dflt =>
      let r := du c (.select e cases dflt)
      .mk "select" r.1 r.2 live (annC c live cases ++ [annL c live [] dflt])
  | .assoc binds body =>
      let r := du c (.assoc binds body)
      .mk "assoc" r.1 r.2 (invert binds live) [annL c live [] body]
  | .assign lhs rhs => let r := du c (.assign lhs rhs); .mk "assign" r.1 r.2 live []
  | .callSub g args => let r := du c (.callSub g args); .mk "callsub" r.1 r.2 live []
  | .print _ => .mk "print" [] [] live []
  | .exit => .mk "exit" [] [] live []
  | .cycle => .mk "cycle" [] [] live []
  | .nop _ _ => .mk "nop" [] [] live []
/-- children of a body: each visited with `live | defines so far` -/
def annL (c : Ctx) (live defs : SymSet) : List Stmt → List Ann
  | [] => []
  | s :: r => annS c (live ++ defs) s :: annL c live (defs ++ (du c s).1) r
def annC (c : Ctx) (live : SymSet) : List (List Int × List Stmt) → List (List Ann)
  | [] => []
  | (_, b) :: r => annL c live [] b :: annC c live r
end

/-- initial live set of `attach_dataflow_analysis`: dummies with intent in / inout, plus what the specification part
defines (PARAMETERs: declarations with an initial value) -/
def initialLive (u : Fir.Unit) : SymSet :=
  syms (u.args.filter fun x => match findDecl u x with
      | some d => d.intent == .in_ || d.intent == .inout
      | none => false)
  ++ syms ((u.decls.filter fun d => d.param.isSome).map (·.name))

/-! ### the AttributeError of `visit_Associate` -/

def hasExprSym (s : SymSet) : Bool := s.any fun v => v.1 == ""

mutual
/-- some ASSOCIATE of the statement finds, in the sets of its body, an element without `.name` (an expression
selector put there by the inversion of an inner ASSOCIATE): `invert_assoc[v.name] if v.name in …` raises -/
def crashS (c : Ctx) : Stmt → Bool
  | .doLoop _ _ _ _ body => crashL c body
  | .while _ body => crashL c body
  | .ifte _ thn els => crashL c thn || crashL c els
  | .select _ cases dflt => crashC c cases || crashL c dflt
  | .assoc _ body =>
      crashL c body || hasExprSym (bodyDU c body).1 || hasExprSym (bodyDU c body).2
  | _ => false
def crashL (c : Ctx) : List Stmt → Bool
  | [] => false
  | s :: r => crashS c s || crashL c r
def crashC (c : Ctx) : List (List Int × List Stmt) → Bool
  | [] => false
  | (_, b) :: r => crashL c b || crashC c r
end

end LokiModel.C26
