import LokiModel.C26.Lemmas
/-!
# C26: everything a run writes is in `defines` (or is a DO variable)
-/
namespace LokiModel.C26
open LokiModel.Fir

/-! ### shape of the model's sets -/

theorem bodyDU_fst (c : Ctx) (ss : List Stmt) : (bodyDU c ss).1 = (duL c ss).flatMap (·.1) := by
  simp [bodyDU, foldBody_fst]

theorem foldBody_nil_fst (U : SymSet) (l : List (SymSet × SymSet)) : (foldBody [] U l).1 = l.flatMap (·.1) := by
  simp [foldBody_fst]

theorem bodyDU_fst_cons (c : Ctx) (s : Stmt) (r : List Stmt) :
    (bodyDU c (s :: r)).1 = (du c s).1 ++ (bodyDU c r).1 := by
  simp [bodyDU_fst, duL]

theorem mem_duC_fst (c : Ctx) (U : SymSet) (cases : List (List Int × List Stmt)) (cb : List Int × List Stmt)
    (h : cb ∈ cases) (v : Sym) (hv : v ∈ (bodyDU c cb.2).1) : v ∈ (duC c U cases).1 := by
  induction cases generalizing U with
  | nil => cases h
  | cons a r ih =>
    obtain ⟨vals, b⟩ := a
    simp only [duC, List.mem_append]
    rcases List.mem_cons.mp h with rfl | h'
    · left
      rw [foldBody_nil_fst]
      rw [bodyDU_fst] at hv
      exact hv
    · right
      exact ih _ h'

theorem names_filter_ne {x v : String} {s : SymSet} (hx : x ∈ names s) (hne : x ≠ v) :
    x ∈ names (s.filter (· != (v, ""))) := by
  obtain ⟨k, hk⟩ := mem_names.mp hx
  refine mem_names.mpr ⟨k, ?_⟩
  simp only [List.mem_filter, hk, true_and, bne_iff_ne, ne_eq, Prod.mk.injEq, not_and]
  intro h
  exact absurd h hne

/-- one-step statement for all four trace functions -/
structure InvA (p : Program) (c : Ctx) (f : Nat) : Prop where
  stmts : ∀ ss st x, wroteB x (trSs p f ss st) = true → x ∈ names (bodyDU c ss).1 ∨ x ∈ loopVarsL ss
  stmt : ∀ s st x, wroteB x (trS p f s st) = true → x ∈ names (du c s).1 ∨ x ∈ loopVarsS s
  iter : ∀ v body step n cur st t x, t ∈ trIter p f v body step n cur st → wroteB x t = true →
      x = v ∨ x ∈ names (bodyDU c body).1 ∨ x ∈ loopVarsL body
  whl : ∀ cnd body st t x, t ∈ trWhile p f cnd body st → wroteB x t = true →
      x ∈ names (bodyDU c body).1 ∨ x ∈ loopVarsL body

theorem invA_zero (p : Program) (c : Ctx) : InvA p c 0 := by
  constructor
  · intro ss st x h; simp [trSs, wroteB] at h
  · intro s st x h; simp [trS, wroteB] at h
  · intro v body step n cur st t x h; simp [trIter] at h
  · intro cnd body st t x h; simp [trWhile] at h

theorem invA_succ (p : Program) (c : Ctx) (f : Nat) (ih : InvA p c f) : InvA p c (f + 1) := by
  constructor
  · -- statement lists
    intro ss st x h
    cases ss with
    | nil => simp [trSs, wroteB] at h
    | cons s rest =>
      simp only [trSs, wroteB_append, Bool.or_eq_true] at h
      rw [bodyDU_fst_cons, names_append]
      simp only [loopVarsL, List.mem_append]
      rcases h with h | h
      · rcases ih.stmt s st x h with h' | h'
        · exact Or.inl (Or.inl h')
        · exact Or.inr (Or.inl h')
      · split at h
        · rcases ih.stmts rest _ x h with h' | h'
          · exact Or.inl (Or.inr h')
          · exact Or.inr (Or.inr h')
        · simp [wroteB] at h
  · -- statements
    intro s st x h
    cases s with
    | assign lhs rhs =>
      simp only [trS, assignEvts, wroteB_append, wroteB_rds, Bool.false_or] at h
      simp only [wroteB, List.any_cons, List.any_nil, Bool.or_false, Evt.isWr, beq_iff_eq] at h
      left
      simp [du, names, h]
    | doLoop v lo hi step body =>
      simp only [trS, wroteB_append, wroteB_rds, Bool.false_or] at h
      have key : x = v ∨ x ∈ names (bodyDU c body).1 ∨ x ∈ loopVarsL body := by
        split at h
        · split at h
          · simp [wroteB] at h
          · obtain ⟨t, ht, hw⟩ := wroteB_flatten x _ h
            exact ih.iter _ _ _ _ _ _ t x ht hw
        · simp [wroteB] at h
      simp only [loopVarsS, List.mem_cons]
      by_cases hxv : x = v
      · exact Or.inr (Or.inl hxv)
      · rcases key with h1 | h1 | h1
        · exact absurd h1 hxv
        · left
          simp only [du]
          apply names_filter_ne _ hxv
          rw [foldBody_nil_fst]
          rw [bodyDU_fst] at h1
          exact h1
        · exact Or.inr (Or.inr h1)
    | «while» cnd body =>
      simp only [trS] at h
      obtain ⟨t, ht, hw⟩ := wroteB_flatten x _ h
      rcases ih.whl _ _ _ t x ht hw with h1 | h1
      · left
        simp only [du]
        rw [foldBody_nil_fst]
        rw [bodyDU_fst] at h1
        exact h1
      · right
        simpa [loopVarsS] using h1
    | ifte cnd thn els =>
      simp only [trS, wroteB_append, wroteB_rds, Bool.false_or] at h
      simp only [du, names_append, loopVarsS, List.mem_append, foldBody_nil_fst]
      split at h
      · rcases ih.stmts thn st x h with h1 | h1
        · rw [bodyDU_fst] at h1; exact Or.inl (Or.inl h1)
        · exact Or.inr (Or.inl h1)
      · rcases ih.stmts els st x h with h1 | h1
        · rw [bodyDU_fst] at h1; exact Or.inl (Or.inr h1)
        · exact Or.inr (Or.inr h1)
      · simp [wroteB] at h
    | select e cases dflt =>
      simp only [trS, wroteB_append, wroteB_rds, Bool.false_or] at h
      simp only [du, names_append, loopVarsS, List.mem_append, foldBody_nil_fst]
      split at h
      · split at h
        · rename_i cb hcb
          have hmem : cb ∈ cases := List.mem_of_find?_eq_some hcb
          rcases ih.stmts cb.2 st x h with h1 | h1
          · left; left
            obtain ⟨k, hk⟩ := mem_names.mp h1
            exact mem_names.mpr ⟨k, mem_duC_fst c _ cases cb hmem _ hk⟩
          · right; left
            clear hcb h
            induction cases with
            | nil => cases hmem
            | cons a r ihc =>
              obtain ⟨vals, b⟩ := a
              simp only [loopVarsC, List.mem_append]
              rcases List.mem_cons.mp hmem with rfl | h'
              · exact Or.inl h1
              · exact Or.inr (ihc h')
        · rcases ih.stmts dflt st x h with h1 | h1
          · rw [bodyDU_fst] at h1; exact Or.inl (Or.inr h1)
          · exact Or.inr (Or.inr h1)
      · simp [wroteB] at h
    | assoc binds body => simp [trS, wroteB] at h
    | callSub g args => simp [trS, wroteB] at h
    | print args => simp [trS, wroteB_rds] at h
    | exit => simp [trS, wroteB] at h
    | cycle => simp [trS, wroteB] at h
    | nop k t => simp [trS, wroteB] at h
  · -- DO iterations
    intro v body step n cur st t x ht hw
    simp only [trIter] at ht
    split at ht
    · cases ht
    · cases n with
      | zero =>
        simp only [List.mem_cons, List.not_mem_nil, or_false] at ht
        subst ht
        simp only [wroteB, List.any_cons, List.any_nil, Bool.or_false, Evt.isWr, beq_iff_eq] at hw
        exact Or.inl hw.symm
      | succ n' =>
        simp only [List.mem_cons] at ht
        rcases ht with rfl | ht
        · have : wroteB x ([Evt.wr v true] ++ trSs p f body _) = true := hw
          rw [wroteB_append, Bool.or_eq_true] at this
          rcases this with h1 | h1
          · simp only [wroteB, List.any_cons, List.any_nil, Bool.or_false, Evt.isWr, beq_iff_eq] at h1
            exact Or.inl h1.symm
          · exact Or.inr (ih.stmts body _ x h1)
        · split at ht
          · cases ht
          · exact ih.iter _ _ _ _ _ _ t x ht hw
          · cases ht
  · -- WHILE iterations
    intro cnd body st t x ht hw
    simp only [trWhile] at ht
    split at ht
    · simp only [List.mem_cons] at ht
      rcases ht with rfl | ht
      · rw [wroteB_append, wroteB_rds, Bool.false_or] at hw
        exact ih.stmts body _ x hw
      · split at ht
        · cases ht
        · exact ih.whl _ _ _ t x ht hw
        · cases ht
    · simp only [List.mem_cons, List.not_mem_nil, or_false] at ht
      subst ht
      rw [wroteB_rds] at hw
      cases hw

theorem invA (p : Program) (c : Ctx) : ∀ f, InvA p c f
  | 0 => invA_zero p c
  | f + 1 => invA_succ p c f (invA p c f)

end LokiModel.C26
