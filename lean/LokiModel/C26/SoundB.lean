import LokiModel.C26.SoundA
/-!
# C26: must-definitions are complete definitions; reads before a complete definition are in `uses`
outside the known class
-/
namespace LokiModel.C26
open LokiModel.Fir

/-! ### must-definitions -/

theorem mem_mustC_acc {x : String} {acc : List String} {cases : List (List Int × List Stmt)}
    (h : x ∈ mustC acc cases) : x ∈ acc := by
  induction cases with
  | nil => simpa [mustC] using h
  | cons a r ih =>
    obtain ⟨vals, b⟩ := a
    simp only [mustC, List.mem_filter] at h
    exact ih h.1

theorem mem_mustC_case {x : String} {acc : List String} {cases : List (List Int × List Stmt)}
    {cb : List Int × List Stmt} (hmem : cb ∈ cases) (h : x ∈ mustC acc cases) : x ∈ mustL cb.2 := by
  induction cases with
  | nil => cases hmem
  | cons a r ih =>
    obtain ⟨vals, b⟩ := a
    simp only [mustC, List.mem_filter, List.contains_iff_mem] at h
    rcases List.mem_cons.mp hmem with rfl | h'
    · exact h.2
    · exact ih h' h.1

structure InvC (p : Program) (f : Nat) : Prop where
  stmts : ∀ ss st st', execStmts p f ss st = .ok st' .normal → ∀ x ∈ mustL ss, fullB x (trSs p f ss st) = true
  stmt : ∀ s st st', execStmt p f s st = .ok st' .normal → ∀ x ∈ mustS s, fullB x (trS p f s st) = true

theorem invC_zero (p : Program) : InvC p 0 := by
  constructor
  · intro ss st st' h; simp [execStmts] at h
  · intro s st st' h; simp [execStmt] at h

theorem invC_succ (p : Program) (f : Nat) (ih : InvC p f) : InvC p (f + 1) := by
  constructor
  · intro ss st st' h x hx
    cases ss with
    | nil => simp [mustL] at hx
    | cons s rest =>
      simp only [execStmts] at h
      simp only [trSs, fullB_append, Bool.or_eq_true]
      simp only [mustL, List.mem_append] at hx
      cases hs : execStmt p f s st with
      | fuel => rw [hs] at h; cases h
      | err m => rw [hs] at h; cases h
      | ok st1 sig =>
        rw [hs] at h
        cases sig with
        | normal =>
          simp only at h
          rcases hx with hx | hx
          · exact Or.inl (ih.stmt s st st1 hs x hx)
          · exact Or.inr (ih.stmts rest st1 st' h x hx)
        | exit => simp at h
        | cycle => simp at h
  · intro s st st' h x hx
    cases s with
    | assign lhs rhs =>
      cases lhs with
      | var y =>
        simp only [mustS, List.mem_cons, List.not_mem_nil, or_false] at hx
        subst hx
        simp [trS, assignEvts, fullB_append, fullB, Evt.isFull, lhsName, isWhole]
      | lit v => simp [mustS] at hx
      | idx y subs => simp [mustS] at hx
      | sec y dims => simp [mustS] at hx
      | neg a => simp [mustS] at hx
      | not a => simp [mustS] at hx
      | bin o a b => simp [mustS] at hx
      | call g args => simp [mustS] at hx
    | ifte cnd thn els =>
      simp only [mustS, List.mem_filter, List.contains_iff_mem] at hx
      simp only [execStmt] at h
      simp only [trS, fullB_append, Bool.or_eq_true]
      right
      split at h
      · rename_i heq; simp only [heq]; exact ih.stmts thn st st' h x hx.1
      · rename_i heq; simp only [heq]; exact ih.stmts els st st' h x hx.2
      · cases h
    | select e cases dflt =>
      simp only [mustS] at hx
      simp only [execStmt] at h
      simp only [trS, fullB_append, Bool.or_eq_true]
      right
      split at h
      · rename_i i heq
        simp only [heq]
        split at h
        · rename_i cb hcb
          simp only [hcb]
          exact ih.stmts cb.2 st st' h x (mem_mustC_case (List.mem_of_find?_eq_some hcb) hx)
        · rename_i hcb
          simp only [hcb]
          exact ih.stmts dflt st st' h x (mem_mustC_acc hx)
      · cases h
    | doLoop v lo hi step body => simp [mustS] at hx
    | «while» cnd body => simp [mustS] at hx
    | assoc binds body => simp [mustS] at hx
    | callSub g args => simp [mustS] at hx
    | print args => simp [mustS] at hx
    | exit => simp [mustS] at hx
    | cycle => simp [mustS] at hx
    | nop k t => simp [mustS] at hx

theorem invC (p : Program) : ∀ f, InvC p f
  | 0 => invC_zero p
  | f + 1 => invC_succ p f (invC p f)

/-! ### uses -/

theorem not_mem_of_contains_false {x : String} {l : List String} (h : l.contains x = false) : x ∉ l := by
  intro hm
  rw [List.contains_iff_mem.mpr hm] at h
  cases h

theorem names_fresh_of_head {c : Ctx} {x : String} {s : Stmt} {r : List Stmt} (h : x ∈ names (du c s).2) :
    x ∈ names (bodyDU c (s :: r)).2 := by
  obtain ⟨k, hk⟩ := mem_names.mp h
  refine mem_names.mpr ⟨k, ?_⟩
  simp only [bodyDU, duL]
  exact (mem_fresh_cons _ _ _ _).mpr (Or.inl hk)

theorem names_fresh_of_tail {c : Ctx} {x : String} {s : Stmt} {r : List Stmt} (hd : x ∉ names (du c s).1)
    (h : x ∈ names (bodyDU c r).2) : x ∈ names (bodyDU c (s :: r)).2 := by
  obtain ⟨k, hk⟩ := mem_names.mp h
  refine mem_names.mpr ⟨k, ?_⟩
  simp only [bodyDU, duL]
  refine (mem_fresh_cons _ _ _ _).mpr (Or.inr ⟨?_, hk⟩)
  intro hmem
  exact hd (mem_names.mpr ⟨k, hmem⟩)

theorem names_fold_of_init {x : String} {U : SymSet} {l : List (SymSet × SymSet)} (h : x ∈ names U) :
    x ∈ names (foldBody [] U l).2 := by
  obtain ⟨k, hk⟩ := mem_names.mp h
  exact mem_names.mpr ⟨k, (mem_foldBody_snd _ _ _ _).mpr (Or.inl hk)⟩

theorem names_fold_of_fresh {x : String} {U : SymSet} {l : List (SymSet × SymSet)}
    (h : x ∈ names (foldBody [] [] l).2) : x ∈ names (foldBody [] U l).2 := by
  obtain ⟨k, hk⟩ := mem_names.mp h
  exact mem_names.mpr ⟨k, (mem_foldBody_snd _ _ _ _).mpr (Or.inr ⟨by simp, hk⟩)⟩

theorem names_duC_of_init {c : Ctx} {x : String} {U : SymSet} {cases : List (List Int × List Stmt)}
    (h : x ∈ names U) : x ∈ names (duC c U cases).2 := by
  induction cases generalizing U with
  | nil => simpa [duC] using h
  | cons a r ih =>
    obtain ⟨vals, b⟩ := a
    simp only [duC]
    exact ih (names_fold_of_init h)

theorem names_duC_of_case {c : Ctx} {x : String} {U : SymSet} {cases : List (List Int × List Stmt)}
    {cb : List Int × List Stmt} (hmem : cb ∈ cases) (h : x ∈ names (bodyDU c cb.2).2) :
    x ∈ names (duC c U cases).2 := by
  induction cases generalizing U with
  | nil => cases hmem
  | cons a r ih =>
    obtain ⟨vals, b⟩ := a
    simp only [duC]
    rcases List.mem_cons.mp hmem with rfl | h'
    · exact names_duC_of_init (names_fold_of_fresh h)
    · exact ih h'

theorem knownUC_of_case {c : Ctx} {x : String} {cases : List (List Int × List Stmt)}
    {cb : List Int × List Stmt} (hmem : cb ∈ cases) (h : knownUC c x cases = false) : knownUL c x cb.2 = false := by
  induction cases with
  | nil => cases hmem
  | cons a r ih =>
    obtain ⟨vals, b⟩ := a
    simp only [knownUC, Bool.or_eq_false_iff] at h
    rcases List.mem_cons.mp hmem with rfl | h'
    · exact h.1
    · exact ih h' h.2

structure InvB (p : Program) (c : Ctx) (f : Nat) : Prop where
  stmts : ∀ ss st x, rbwB x (trSs p f ss st) = true → knownUL c x ss = false → x ∈ names (bodyDU c ss).2
  stmt : ∀ s st x, rbwB x (trS p f s st) = true → knownUS c x s = false → x ∈ names (du c s).2
  iter : ∀ v body step n cur st t x, t ∈ trIter p f v body step n cur st → rbwB x t = true →
      x ≠ v ∧ (knownUL c x body = false → x ∈ names (bodyDU c body).2)
  whl : ∀ cnd body st t x, t ∈ trWhile p f cnd body st → rbwB x t = true →
      x ∈ varsEx cnd ∨ (knownUL c x body = false → x ∈ names (bodyDU c body).2)

theorem invB_zero (p : Program) (c : Ctx) : InvB p c 0 := by
  constructor
  · intro ss st x h; simp [trSs, rbwB] at h
  · intro s st x h; simp [trS, rbwB] at h
  · intro v body step n cur st t x h; simp [trIter] at h
  · intro cnd body st t x h; simp [trWhile] at h

theorem invB_succ (p : Program) (c : Ctx) (f : Nat) (ih : InvB p c f) : InvB p c (f + 1) := by
  constructor
  · -- statement lists
    intro ss st x h hk
    cases ss with
    | nil => simp [trSs, rbwB] at h
    | cons s rest =>
      simp only [trSs, rbwB_append, Bool.or_eq_true, Bool.and_eq_true, Bool.not_eq_true'] at h
      simp only [knownUL, Bool.or_eq_false_iff, Bool.and_eq_false_iff, Bool.not_eq_false',
        List.contains_iff_mem, decide_eq_false_iff_not, decide_eq_true_eq] at hk
      obtain ⟨hk1, hk2⟩ := hk
      rcases h with h | ⟨hnf, h⟩
      · exact names_fresh_of_head (ih.stmt s st x h hk1)
      · cases hs : execStmt p f s st with
        | fuel => rw [hs] at h; simp [rbwB] at h
        | err m => rw [hs] at h; simp [rbwB] at h
        | ok st1 sig =>
          rw [hs] at h
          cases sig with
          | exit => simp [rbwB] at h
          | cycle => simp [rbwB] at h
          | normal =>
            simp only at h
            rcases hk2 with hm | ⟨hk3, hk4⟩
            · have := (invC p f).stmt s st st1 hs x hm
              rw [this] at hnf
              cases hnf
            · have hfr := ih.stmts rest st1 x h hk3
              rcases hk4 with hk4 | hk4
              · exact names_fresh_of_tail (not_mem_of_contains_false hk4) hfr
              · exact absurd hfr (not_mem_of_contains_false hk4)
  · -- statements
    intro s st x h hk
    cases s with
    | assign lhs rhs =>
      simp only [trS, assignEvts, List.append_assoc, rbwB_append, fullB_rds, Bool.not_false, Bool.true_and,
        Bool.or_eq_true, rbwB_rds] at h
      simp only [du, names_append, List.mem_append, mem_names_syms]
      rcases h with h | h | h
      · exact Or.inl h
      · exact Or.inr h
      · simp only [rbwB] at h
        split at h <;> simp [rbwB] at h
    | doLoop v lo hi step body =>
      simp only [trS, rbwB_append, fullB_rds, Bool.not_false, Bool.true_and, Bool.or_eq_true, rbwB_rds] at h
      simp only [knownUS, Bool.or_eq_false_iff, Bool.and_eq_false_iff, List.contains_iff_mem, beq_eq_false_iff_ne,
        decide_eq_false_iff_not] at hk
      obtain ⟨hk1, hk2⟩ := hk
      simp only [du]
      rcases h with h | h
      · have hne : x ≠ v := by
          rcases hk1 with h1 | h1
          · exact h1
          · exact absurd h (not_mem_of_contains_false h1)
        exact names_filter_ne (names_fold_of_init (mem_names_syms.mpr h)) hne
      · split at h
        · split at h
          · simp [rbwB] at h
          · obtain ⟨t, ht, hr⟩ := rbwB_flatten x _ h
            obtain ⟨hne, hb⟩ := ih.iter _ _ _ _ _ _ t x ht hr
            exact names_filter_ne (names_fold_of_fresh (hb hk2)) hne
        · simp [rbwB] at h
    | «while» cnd body =>
      simp only [trS] at h
      simp only [knownUS] at hk
      obtain ⟨t, ht, hr⟩ := rbwB_flatten x _ h
      simp only [du]
      rcases ih.whl _ _ _ t x ht hr with h1 | h1
      · exact names_fold_of_init (mem_names_syms.mpr h1)
      · exact names_fold_of_fresh (h1 hk)
    | ifte cnd thn els =>
      simp only [trS, rbwB_append, fullB_rds, Bool.not_false, Bool.true_and, Bool.or_eq_true, rbwB_rds] at h
      simp only [knownUS, Bool.or_eq_false_iff] at hk
      simp only [du]
      rcases h with h | h
      · exact names_fold_of_init (names_fold_of_init (mem_names_syms.mpr h))
      · split at h
        · exact names_fold_of_init (names_fold_of_fresh (ih.stmts thn st x h hk.1))
        · exact names_fold_of_fresh (ih.stmts els st x h hk.2)
        · simp [rbwB] at h
    | select e cases dflt =>
      simp only [trS, rbwB_append, fullB_rds, Bool.not_false, Bool.true_and, Bool.or_eq_true, rbwB_rds] at h
      simp only [knownUS, Bool.or_eq_false_iff] at hk
      simp only [du]
      rcases h with h | h
      · exact names_fold_of_init (names_duC_of_init (mem_names_syms.mpr h))
      · split at h
        · split at h
          · rename_i cb hcb
            have hmem : cb ∈ cases := List.mem_of_find?_eq_some hcb
            exact names_fold_of_init (names_duC_of_case hmem (ih.stmts cb.2 st x h (knownUC_of_case hmem hk.1)))
          · exact names_fold_of_fresh (ih.stmts dflt st x h hk.2)
        · simp [rbwB] at h
    | print args =>
      simp only [trS, rbwB_rds] at h
      simp only [knownUS, List.contains_eq_mem, decide_eq_false_iff_not] at hk
      exact absurd h hk
    | assoc binds body => simp [trS, rbwB] at h
    | callSub g args => simp [trS, rbwB] at h
    | exit => simp [trS, rbwB] at h
    | cycle => simp [trS, rbwB] at h
    | nop k t => simp [trS, rbwB] at h
  · -- DO iterations
    intro v body step n cur st t x ht hr
    simp only [trIter] at ht
    split at ht
    · cases ht
    · cases n with
      | zero =>
        simp only [List.mem_cons, List.not_mem_nil, or_false] at ht
        subst ht
        simp only [rbwB] at hr
        split at hr <;> simp [rbwB] at hr
      | succ n' =>
        simp only [List.mem_cons] at ht
        rcases ht with rfl | ht
        · simp only [rbwB] at hr
          split at hr
          · cases hr
          · rename_i hcond
            simp only [Bool.and_true, beq_iff_eq] at hcond
            refine ⟨fun hxv => hcond hxv.symm, fun hk => ih.stmts body _ x hr hk⟩
        · split at ht
          · cases ht
          · exact ih.iter _ _ _ _ _ _ t x ht hr
          · cases ht
  · -- WHILE iterations
    intro cnd body st t x ht hr
    simp only [trWhile] at ht
    split at ht
    · simp only [List.mem_cons] at ht
      rcases ht with rfl | ht
      · rw [rbwB_append, fullB_rds, Bool.not_false, Bool.true_and, Bool.or_eq_true, rbwB_rds] at hr
        rcases hr with h1 | h1
        · exact Or.inl h1
        · exact Or.inr (fun hk => ih.stmts body _ x h1 hk)
      · split at ht
        · cases ht
        · exact ih.whl _ _ _ t x ht hr
        · cases ht
    · simp only [List.mem_cons, List.not_mem_nil, or_false] at ht
      subst ht
      exact Or.inl ((rbwB_rds x _).mp hr)

theorem invB (p : Program) (c : Ctx) : ∀ f, InvB p c f
  | 0 => invB_zero p c
  | f + 1 => invB_succ p c f (invB p c f)

end LokiModel.C26
