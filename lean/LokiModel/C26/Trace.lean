import LokiModel.C26.Model
/-!
# Instrumented FIR semantics `execT`

`execT p f s σ = (execStmt p f s σ, trS p f s σ)`: the result of the reference interpreter (`Fir/Sem.lean`, unchanged)
paired with the *trace* of the run: the variable names read and written, in execution order.  `trS`/`trSs`/`trIter`/
`trWhile` follow the control flow of `execStmt`/`execStmts`/`doIter`/`whileIter` clause by clause and take every
intermediate state from those functions, so the trace is the trace of exactly the run the reference semantics performs.

Granularity: variable names.  A write event carries `full = true` when the whole variable is (re)defined (assignment
to a plain name: scalar or whole array; DO variable), `false` for an element or section.  A statement that is reached
records a read of every variable its expressions mention (for scalar expressions that is exactly what `evalE` reads;
for sections the unused upper bound and empty sections are over-recorded, which only makes the soundness theorems
stronger).  "Read before written" (`rbwB`) = read with no earlier *full* write in the trace.

Instrumented statement kinds: assignment, DO, DO WHILE, IF, SELECT CASE, PRINT, EXIT, CYCLE, comments/pragmas.
ASSOCIATE and CALL are not instrumented (empty trace); the theorems carry the hypothesis `covered`.
-/
namespace LokiModel.C26
open LokiModel.Fir
open LokiModel.Expr (Val CmpOp)

inductive Evt where
  | rd (x : String)
  | wr (x : String) (full : Bool)
deriving Repr, DecidableEq

abbrev Tr := List Evt

def rds (xs : List String) : Tr := xs.map .rd

def isWhole : Ex → Bool
  | .var _ => true
  | _ => false

def assignEvts (lhs rhs : Ex) : Tr :=
  rds (subVars lhs) ++ rds (varsEx rhs) ++ [.wr (lhsName lhs) (isWhole lhs)]

mutual
def trSs (p : Program) : Nat → List Stmt → St → Tr
  | 0, _, _ => []
  | _ + 1, [], _ => []
  | f + 1, s :: rest, st =>
      trS p f s st ++
        (match execStmt p f s st with
         | .ok st' .normal => trSs p f rest st'
         | _ => [])
def trS (p : Program) : Nat → Stmt → St → Tr
  | 0, _, _ => []
  | f + 1, s, st =>
    match s with
    | .assign lhs rhs => assignEvts lhs rhs
    | .doLoop v lo hi step body =>
        rds (boundVars lo hi step) ++
        (match (evalE st [] lo).bind asInt, (evalE st [] hi).bind asInt,
              (match step with | some e => (evalE st [] e).bind asInt | none => some 1) with
         | some l, some h, some s =>
             if s = 0 then [] else (trIter p f v body s (tripCount l h s) l st).flatten
         | _, _, _ => [])
    | .while c body => (trWhile p f c body st).flatten
    | .ifte c thn els =>
        rds (varsEx c) ++
        (match evalE st [] c with
         | some (.bool true) => trSs p f thn st
         | some (.bool false) => trSs p f els st
         | _ => [])
    | .select e cases dflt =>
        rds (varsEx e) ++
        (match (evalE st [] e).bind asInt with
         | some i => match cases.find? (fun c => c.1.contains i) with
             | some c => trSs p f c.2 st
             | none => trSs p f dflt st
         | none => [])
    | .print args => rds (varsExs args)
    | .assoc _ _ => []
    | .callSub _ _ => []
    | .exit => []
    | .cycle => []
    | .nop _ _ => []
/-- traces of the iterations of a DO loop (each starts with the definition of the DO variable; the last entry is the
final definition of the DO variable when the loop runs to completion) -/
def trIter (p : Program) : Nat → String → List Stmt → Int → Nat → Int → St → List Tr
  | 0, _, _, _, _, _, _ => []
  | f + 1, v, body, step, n, cur, st =>
      match writeAt st v [] (.int cur) with
      | none => []
      | some st1 =>
        match n with
        | 0 => [[.wr v true]]
        | n' + 1 =>
          (.wr v true :: trSs p f body st1) ::
            (match execStmts p f body st1 with
             | .ok _ .exit => []
             | .ok st2 _ => trIter p f v body step n' (cur + step) st2
             | _ => [])
/-- traces of the iterations of a DO WHILE loop (condition, then body; the last entry is the final condition test) -/
def trWhile (p : Program) : Nat → Ex → List Stmt → St → List Tr
  | 0, _, _, _ => []
  | f + 1, c, body, st =>
      match evalE st [] c with
      | some (.bool true) =>
          (rds (varsEx c) ++ trSs p f body st) ::
            (match execStmts p f body st with
             | .ok _ .exit => []
             | .ok st2 _ => trWhile p f c body st2
             | _ => [])
      | _ => [rds (varsEx c)]
end

/-- the instrumented semantics: reference result and trace -/
def execT (p : Program) (f : Nat) (s : Stmt) (st : St) : Res × Tr := (execStmt p f s st, trS p f s st)
def execTs (p : Program) (f : Nat) (ss : List Stmt) (st : St) : Res × Tr := (execStmts p f ss st, trSs p f ss st)

/-! ### what a trace says about a variable -/

def Evt.isWr (x : String) : Evt → Bool
  | .wr y _ => y == x
  | _ => false
def Evt.isFull (x : String) : Evt → Bool
  | .wr y b => y == x && b
  | _ => false

/-- `x` is written somewhere in the trace -/
def wroteB (x : String) (t : Tr) : Bool := t.any (Evt.isWr x)
/-- `x` is completely (re)defined somewhere in the trace -/
def fullB (x : String) (t : Tr) : Bool := t.any (Evt.isFull x)
/-- `x` is read before it is completely defined within the trace -/
def rbwB (x : String) : Tr → Bool
  | [] => false
  | .rd y :: t => y == x || rbwB x t
  | .wr y b :: t => if y == x && b then false else rbwB x t

def writes (r : Res × Tr) (x : String) : Prop := wroteB x r.2 = true
def readBeforeWrite (r : Res × Tr) (x : String) : Prop := rbwB x r.2 = true

/-! ### syntactic classes -/

mutual
/-- no ASSOCIATE and no CALL anywhere in the statement (the part of FIR the trace covers) -/
def coveredS : Stmt → Bool
  | .doLoop _ _ _ _ body => coveredL body
  | .while _ body => coveredL body
  | .ifte _ t e => coveredL t && coveredL e
  | .select _ cases d => coveredC cases && coveredL d
  | .assoc _ _ => false
  | .callSub _ _ => false
  | _ => true
def coveredL : List Stmt → Bool
  | [] => true
  | s :: r => coveredS s && coveredL r
def coveredC : List (List Int × List Stmt) → Bool
  | [] => true
  | (_, b) :: r => coveredL b && coveredC r
end

mutual
/-- DO variables of the loops of a statement -/
def loopVarsS : Stmt → List String
  | .doLoop v _ _ _ body => v :: loopVarsL body
  | .while _ body => loopVarsL body
  | .ifte _ t e => loopVarsL t ++ loopVarsL e
  | .select _ cases d => loopVarsC cases ++ loopVarsL d
  | .assoc _ body => loopVarsL body
  | _ => []
def loopVarsL : List Stmt → List String
  | [] => []
  | s :: r => loopVarsS s ++ loopVarsL r
def loopVarsC : List (List Int × List Stmt) → List String
  | [] => []
  | (_, b) :: r => loopVarsL b ++ loopVarsC r
end

mutual
/-- variables completely defined whenever the statement completes normally -/
def mustS : Stmt → List String
  | .assign (.var x) _ => [x]
  | .ifte _ t e => (mustL t).filter fun x => (mustL e).contains x
  | .select _ cases d => mustC (mustL d) cases
  | _ => []
def mustL : List Stmt → List String
  | [] => []
  | s :: r => mustS s ++ mustL r
def mustC (acc : List String) : List (List Int × List Stmt) → List String
  | [] => acc
  | (_, b) :: r => (mustC acc r).filter fun x => (mustL b).contains x
end

mutual
/-- **known class of `uses`**: inside the statement, `x` is (a) read by a PRINT (the attacher has no rule for PRINT),
(b) the DO variable of a loop whose own bounds read it, or (c) *may-killed*: a sibling that defines `x` on some but not
all paths (conditional branch, possibly zero-trip loop, array element/section) precedes a sibling that uses `x`, and
`_visit_body` subtracts the may-definition from the later uses -/
def knownUS (c : Ctx) (x : String) : Stmt → Bool
  | .doLoop v lo hi step body => (x == v && (boundVars lo hi step).contains x) || knownUL c x body
  | .while _ body => knownUL c x body
  | .ifte _ t e => knownUL c x t || knownUL c x e
  | .select _ cases d => knownUC c x cases || knownUL c x d
  | .print args => (varsExs args).contains x
  | _ => false
def knownUL (c : Ctx) (x : String) : List Stmt → Bool
  | [] => false
  | s :: r => knownUS c x s ||
      (!(mustS s).contains x &&
        (knownUL c x r || ((names (du c s).1).contains x && (names (bodyDU c r).2).contains x)))
def knownUC (c : Ctx) (x : String) : List (List Int × List Stmt) → Bool
  | [] => false
  | (_, b) :: r => knownUL c x b || knownUC c x r
end

/-- known class of `defines`: the DO variable of a loop at or inside the node (deliberately discarded by `visit_Loop`) -/
def KnownDefS (x : String) (s : Stmt) : Bool := (loopVarsS s).contains x
def KnownDefL (x : String) (ss : List Stmt) : Bool := (loopVarsL ss).contains x

mutual
/-- the statements of a tree in pre-order (node numbering shared with the harness) -/
def flatS : Stmt → List Stmt
  | .doLoop v lo hi st body => .doLoop v lo hi st body :: flatL body
  | .while cnd body => .while cnd body :: flatL body
  | .ifte cnd t e => .ifte cnd t e :: (flatL t ++ flatL e)
  | .select e cases d => .select e cases d :: (flatC cases ++ flatL d)
  | .assoc b body => .assoc b body :: flatL body
  | s => [s]
def flatL : List Stmt → List Stmt
  | [] => []
  | s :: r => flatS s ++ flatL r
def flatC : List (List Int × List Stmt) → List Stmt
  | [] => []
  | (_, b) :: r => flatL b ++ flatC r
end

/-- `NoMayKill` of the design: no variable at all is in the known class of the statement list -/
def NoMayKill (c : Ctx) (ss : List Stmt) : Prop := ∀ x, knownUL c x ss = false

end LokiModel.C26
