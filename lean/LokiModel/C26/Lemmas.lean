import LokiModel.C26.Trace
/-!
# Lemmas for C26: traces, `_visit_body` fold
-/
namespace LokiModel.C26
open LokiModel.Fir

/-! ### traces -/

theorem wroteB_append (x : String) (a b : Tr) : wroteB x (a ++ b) = (wroteB x a || wroteB x b) := by
  simp [wroteB, List.any_append]

theorem fullB_append (x : String) (a b : Tr) : fullB x (a ++ b) = (fullB x a || fullB x b) := by
  simp [fullB, List.any_append]

theorem rbwB_append (x : String) (a b : Tr) : rbwB x (a ++ b) = (rbwB x a || (!fullB x a && rbwB x b)) := by
  induction a with
  | nil => simp [rbwB, fullB]
  | cons e a ih =>
    cases e with
    | rd y =>
      simp only [List.cons_append, rbwB, ih, fullB, List.any_cons, Evt.isFull, Bool.false_or, Bool.or_assoc]
    | wr y b =>
      simp only [List.cons_append, rbwB, fullB, List.any_cons, Evt.isFull]
      by_cases h : (y == x && b) = true
      · simp [h]
      · simp only [h, if_false, ih, fullB]
        simp at h
        simp [h]

theorem wroteB_rds (x : String) (xs : List String) : wroteB x (rds xs) = false := by
  induction xs with
  | nil => rfl
  | cons y ys ih => simpa [wroteB, rds, Evt.isWr] using ih

theorem fullB_rds (x : String) (xs : List String) : fullB x (rds xs) = false := by
  induction xs with
  | nil => rfl
  | cons y ys ih => simpa [fullB, rds, Evt.isFull] using ih

theorem rbwB_rds (x : String) (xs : List String) : rbwB x (rds xs) = true ↔ x ∈ xs := by
  induction xs with
  | nil => simp [rds, rbwB]
  | cons y ys ih =>
    simp only [rds, List.map_cons, rbwB, Bool.or_eq_true, beq_iff_eq, List.mem_cons]
    simp only [rds] at ih
    rw [ih]
    constructor
    · rintro (h | h)
      · exact Or.inl h.symm
      · exact Or.inr h
    · rintro (h | h)
      · exact Or.inl h.symm
      · exact Or.inr h

theorem wroteB_flatten (x : String) (ts : List Tr) : wroteB x ts.flatten = true → ∃ t ∈ ts, wroteB x t = true := by
  induction ts with
  | nil => simp [wroteB]
  | cons t ts ih =>
    simp only [List.flatten_cons, wroteB_append, Bool.or_eq_true]
    rintro (h | h)
    · exact ⟨t, List.mem_cons_self, h⟩
    · obtain ⟨t', ht', h'⟩ := ih h
      exact ⟨t', List.mem_cons_of_mem _ ht', h'⟩

theorem rbwB_flatten (x : String) (ts : List Tr) : rbwB x ts.flatten = true → ∃ t ∈ ts, rbwB x t = true := by
  induction ts with
  | nil => simp [rbwB]
  | cons t ts ih =>
    simp only [List.flatten_cons, rbwB_append, Bool.or_eq_true, Bool.and_eq_true]
    rintro (h | ⟨_, h⟩)
    · exact ⟨t, List.mem_cons_self, h⟩
    · obtain ⟨t', ht', h'⟩ := ih h
      exact ⟨t', List.mem_cons_of_mem _ ht', h'⟩

/-! ### ordered sets -/

theorem mem_names {x : String} {s : SymSet} : x ∈ names s ↔ ∃ k, (x, k) ∈ s := by
  simp [names]

theorem names_append (a b : SymSet) : names (a ++ b) = names a ++ names b := by
  simp [names]

theorem mem_syms {x k : String} {xs : List String} : (x, k) ∈ syms xs ↔ x ∈ xs ∧ k = "" := by
  simp [syms]
  constructor
  · rintro ⟨a, ha, rfl, rfl⟩; exact ⟨ha, rfl⟩
  · rintro ⟨h, rfl⟩; exact ⟨x, h, rfl, rfl⟩

theorem mem_names_syms {x : String} {xs : List String} : x ∈ names (syms xs) ↔ x ∈ xs := by
  simp [names, syms]

theorem mem_sdiff {v : Sym} {a b : SymSet} : v ∈ sdiff a b ↔ v ∈ a ∧ v ∉ b := by
  simp [sdiff]

/-! ### `_visit_body` -/

theorem foldBody_fst (D U : SymSet) (l : List (SymSet × SymSet)) :
    (foldBody D U l).1 = D ++ l.flatMap (·.1) := by
  induction l generalizing D U with
  | nil => simp [foldBody]
  | cons a r ih =>
    obtain ⟨d, u⟩ := a
    simp [foldBody, ih]

/-- a symbol is in the uses computed by `_visit_body` iff it was there initially, or it is not among the initial
defines and is in the uses computed from empty sets -/
theorem mem_foldBody_snd (v : Sym) (D U : SymSet) (l : List (SymSet × SymSet)) :
    v ∈ (foldBody D U l).2 ↔ v ∈ U ∨ (v ∉ D ∧ v ∈ (foldBody [] [] l).2) := by
  induction l generalizing D U with
  | nil => simp [foldBody]
  | cons a r ih =>
    obtain ⟨d, u⟩ := a
    simp only [foldBody]
    rw [ih (D ++ d) (U ++ sdiff u D), ih ([] ++ d) ([] ++ sdiff u [])]
    simp only [List.mem_append, mem_sdiff, List.nil_append, List.not_mem_nil, not_false_eq_true, and_true, not_or]
    constructor
    · rintro ((h | ⟨h1, h2⟩) | ⟨⟨h1, h2⟩, h3⟩)
      · exact Or.inl h
      · exact Or.inr ⟨h2, Or.inl h1⟩
      · exact Or.inr ⟨h1, Or.inr ⟨h2, h3⟩⟩
    · rintro (h | ⟨h1, (h2 | ⟨h2, h3⟩)⟩)
      · exact Or.inl (Or.inl h)
      · exact Or.inl (Or.inr ⟨h2, h1⟩)
      · exact Or.inr ⟨⟨h1, h2⟩, h3⟩

theorem mem_fresh_cons (v : Sym) (d u : SymSet) (r : List (SymSet × SymSet)) :
    v ∈ (foldBody [] [] ((d, u) :: r)).2 ↔ v ∈ u ∨ (v ∉ d ∧ v ∈ (foldBody [] [] r).2) := by
  simp only [foldBody]
  rw [mem_foldBody_snd]
  simp [mem_sdiff]

end LokiModel.C26
