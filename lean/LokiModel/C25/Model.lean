import LokiModel.C21.Model
/-!
# C25 — `Rename`: graph-rewriting operations on (project abstraction, item cache, graph)

Model of what `DuplicateKernel`, `RemoveKernel` (loki/transformations/dependency.py), `ModuleWrapTransformation`
(build_system/module_wrap.py), `DependencyTransformation` (build_system/dependency.py) followed by
`Scheduler.rekey_item_cache` and the re-discovery (`_discover`, `SGraph.from_seed`) of `Scheduler.process_transformation`
do to the scheduler state, at the level of *item names with resolved references*:

* a program unit (`Def`) = item name, the item names its calls / module-variable imports resolve to (in source order), the
  file it lives in and its role;  `defs` = the units held in memory (what the cache items point to), `disk` = the units of
  the files on disk (re-read by `_discover` when `rekey_item_cache` has renamed a file item to "duplicate of …");
* `cache` = the non-file entries of `ItemFactory.item_cache` as (key, current item name);
* `graph` = `SGraph.from_seed` = the worklist loop of C21 (`LokiModel.C21.bfs`) over `childrenOf`.

Covered class (see `Props/C25.lean: Covered`): one top-level program unit per file, lower-case names and suffixes, free
callees declared through `#include "x.intfb.h"` (`cinc`) when `ModuleWrapTransformation` is used.  The textual resolution
of a call (same module / USE … ONLY / bare name) is *not* part of this model: references are stored resolved, and every
operation rewrites them the way the real transformation rewrites the call, the import and the include together.
-/
namespace LokiModel.C25
open LokiModel.C21 (bfs Graph Err)

/-- item names: `scope#local` of a procedure item (`scope = ""`: not in a module), or a module item -/
inductive Nm where
  | proc (scope : String) (loc : String)
  | mod (name : String)
deriving DecidableEq, Repr

def Nm.loc : Nm → String
  | .proc _ l => l
  | .mod m => m

def Nm.scope : Nm → String
  | .proc s _ => s
  | .mod _ => ""

def Nm.isProc : Nm → Bool
  | .proc _ _ => true
  | .mod _ => false

structure Def where
  name : Nm
  refs : List Nm
  file : String
  driver : Bool
deriving DecidableEq, Repr

structure St where
  defs : List Def
  disk : List Def
  cache : List (Nm × Nm)
  seeds : List Nm
  strict : Bool
  cinc : Bool
  graph : Graph Nm
  /-- calls added by `DuplicateKernel` to routines outside a module: they come without an interface include -/
  noinc : List Nm := []

def findDef (ds : List Def) (n : Nm) : Option Def := ds.find? (fun d => d.name = n)

def hasDef (ds : List Def) (n : Nm) : Bool := (findDef ds n).isSome

/-- `tuple(dict.fromkeys(items))` -/
def dedupNm : List Nm → List Nm
  | [] => []
  | x :: xs => x :: (dedupNm xs).filter (fun y => y ≠ x)

/-- a procedure imported from a module that is not in the cache: `create_from_ir` returns an `ExternalItem` for the
module (the import), nothing for the call -/
def resolveRef (ds : List Def) (r : Nm) : Nm :=
  match r with
  | .proc s _ => if s != "" && !hasDef ds (.mod s) then .mod s else r
  | .mod _ => r

/-- `Item.create_dependency_items` on resolved references: an item without a program unit is an `ExternalItem` (no
dependencies); a bare procedure name `#p` that resolves to nothing raises `RuntimeError` under `strict`
(`ItemFactory._get_procedure_item`), a name in a module that is not in the cache becomes an `ExternalItem` silently -/
def childrenOf (ds : List Def) (strict : Bool) (a : Nm) : Except Err (List Nm) :=
  match findDef ds a with
  | none => .ok []
  | some d =>
    if strict && d.refs.any (fun r => r.isProc && r.scope == "" && !hasDef ds r) then .error .runtime
    else .ok (dedupNm (d.refs.map (resolveRef ds)))

def nameUniverse (ds : List Def) (start : List Nm) : List Nm :=
  start ++ ds.flatMap (fun d => d.name :: d.refs.map (resolveRef ds))

/-- `SGraph.from_seed`: seeds that are in the cache, then the worklist loop -/
def discover (ds : List Def) (strict : Bool) (seeds : List Nm) : Except Err (Graph Nm) :=
  let start := dedupNm (seeds.filter (hasDef ds))
  bfs (childrenOf ds strict) ((nameUniverse ds start).length + 1) start start []

/-- procedure items of the graph that have a program unit: what an item-graph traversal with the default
`item_filter = ProcedureItem` processes -/
def processed (st : St) : List Nm :=
  st.graph.nodes.filter (fun n => n.isProc && hasDef st.defs n)

def rediscover (st : St) : Except Err St :=
  match discover st.defs st.strict st.seeds with
  | .error e => .error e
  | .ok g => .ok { st with graph := g }

/-! ## RemoveKernel -/

/-- `RemoveKernel.transform_subroutine` for every processed routine (plan mode: `removed_dependencies`, the same
effect on the graph), then `_discover` (`creates_items`) -/
def opRem (k : String) (st : St) : Except Err St :=
  let P := processed st
  rediscover { st with defs := st.defs.map (fun d =>
    if d.name ∈ P then { d with refs := d.refs.filter (fun r => !(r.isProc && r.loc == k)) } else d) }

/-! ## DuplicateKernel -/

def sfx (s m : String) : String := if s == "" then "" else s ++ m

/-- `_get_new_item_name` -/
def dupName (suf msuf : String) : Nm → Nm
  | .proc s l => .proc (sfx s msuf) (l ++ suf)
  | .mod m => .mod m

/-- the clone of the file of `t` made by `ItemFactory.get_or_create_item_from_item`: the module (if any) renamed, the
kernel renamed, the other routines of the module copied under the new module name; calls to routines of the same module
resolve inside the clone -/
def cloneDefs (ds : List Def) (suf msuf : String) (t : Nm) : List Def :=
  let s := t.scope
  let file := if s == "" then t.loc ++ suf else s ++ msuf
  let ren : Nm → Nm := fun n => match n with
    | .proc s' l => if s' == s && s != "" then .proc (s ++ msuf) (if n = t then l ++ suf else l)
                    else if n = t then .proc "" (l ++ suf) else n
    | .mod m => if m == s && s != "" then .mod (s ++ msuf) else .mod m
  (ds.filter (fun d => if s == "" then d.name = t else (d.name = .mod s || (d.name.isProc && d.name.scope == s)))).map
    (fun d => { d with name := ren d.name, refs := d.refs.map ren, file := file })

/-- the kernels duplicated by one `DuplicateKernel` pass without `duplicate_subgraph`: successors (in the graph) of
processed routines whose local name is the kernel name -/
def dupTargets (k : String) (st : St) : List Nm :=
  dedupNm ((processed st).flatMap (fun u =>
    match findDef st.defs u with
    | some d => d.refs.filter (fun r => r.isProc && r.loc == k && r ∈ st.graph.nodes && hasDef st.defs r)
    | none => []))

def insertAfter (t t' : Nm) : List Nm → List Nm
  | [] => []
  | r :: rs => if r = t then r :: t' :: insertAfter t t' rs else r :: insertAfter t t' rs

/-- one target: create the clone unless an item of the new name is cached, then duplicate the calls -/
def dupOne (suf msuf : String) (P : List Nm) (st : St) (t : Nm) : St :=
  let t' := dupName suf msuf t
  let fresh := !(st.cache.any (fun e => e.1 = t'))
  let new := if fresh then (cloneDefs st.defs suf msuf t).filter (fun d => !(st.cache.any (fun e => e.1 = d.name))) else []
  { st with
    defs := (st.defs.map (fun d => if d.name ∈ P then { d with refs := insertAfter t t' d.refs } else d)) ++ new
    cache := st.cache ++ new.map (fun d => (d.name, d.name))
    noinc := if t.scope == "" then t' :: st.noinc else st.noinc }

def opDup (k suf msuf : String) (st : St) : Except Err St :=
  let P := processed st
  rediscover ((dupTargets k st).foldl (dupOne suf msuf P) st)

/-! ## rekey_item_cache and the re-reading of renamed files -/

/-- `CaseInsensitiveDict((item.name, item) for item in cache.values() if item.name not in deleted_keys)`: a later
entry with the same name replaces the value of the earlier one (keeps the first position) -/
def rekey (cache : List (Nm × Nm)) (deleted : List Nm) : List (Nm × Nm) :=
  let kept := (cache.filter (fun e => e.2 ∉ deleted)).map (fun e => (e.2, e.2))
  (dedupNm (kept.map (·.1))).map (fun n => (n, n))

/-- after `rekey_item_cache` renamed the file items of `files` to "duplicate of …", `_discover` reads these files again
from disk and creates items for the definitions whose names are not in the cache -/
def reread (st : St) (files : List String) : St :=
  let back := st.disk.filter (fun d => d.file ∈ files && !(st.cache.any (fun e => e.1 = d.name)))
  { st with defs := st.defs ++ back, cache := st.cache ++ back.map (fun d => (d.name, d.name)) }

def renSeeds (ren : Nm → Nm) (seeds : List Nm) : List Nm := seeds.map ren

/-! ## ModuleWrapTransformation -/

/-- free kernel routines of the graph (one program unit per file: the file is a kernel file) -/
def wrapTargets (st : St) : List Nm :=
  (processed st).filter (fun n => n.scope == "" &&
    match findDef st.defs n with | some d => !d.driver | none => false)

def opWrap (plan : Bool) (msuf : String) (st : St) : Except Err St :=
  if plan then rediscover st else
  let P := processed st
  let W := wrapTargets st
  let renD : Nm → Nm := fun n => if n ∈ W then .proc (n.loc ++ msuf) n.loc else n
  -- `update_imports`: every `#include "x.intfb.h"` of a processed routine becomes `USE x<msuf>, ONLY: x`
  let renR : Nm → Nm := fun r => match r with
    | .proc "" l => if st.cinc && r ∉ st.noinc then .proc (l ++ msuf) l else r
    | _ => r
  let files := (st.defs.filter (fun d => d.name ∈ W)).map (·.file)
  let defs := st.defs.map (fun d =>
    let d := if d.name ∈ P then { d with refs := d.refs.map renR } else d
    { d with name := renD d.name })
  let mods := (st.defs.filter (fun d => d.name ∈ W)).map
    (fun d => ({ name := .mod (d.name.loc ++ msuf), refs := [], file := d.file, driver := false } : Def))
  let cache := rekey (st.cache.map (fun e => (e.1, renD e.2))) []
  let newMods := mods.filter (fun d => !(cache.any (fun e => e.1 = d.name)))
  let st1 := { st with defs := defs ++ newMods, cache := cache ++ newMods.map (fun d => (d.name, d.name)),
                        seeds := renSeeds renD st.seeds }
  rediscover (reread st1 files)

/-! ## DependencyTransformation -/

def stripSuffix (s suf : String) : String :=
  if suf != "" && s.endsWith suf then (String.ofList (s.toList.take (s.length - suf.length))) else s

/-- `stripPrefix? p s`: `s` without its prefix `p`, if it has it -/
def stripPrefix? : List Char → List Char → Option (List Char)
  | [], s => some s
  | _ :: _, [] => none
  | p :: ps, c :: cs => if p = c then stripPrefix? ps cs else none

/-- remove the first occurrence of the (non-empty) pattern -/
def dropFirstOcc (pat : List Char) : List Char → List Char
  | [] => []
  | c :: cs =>
    match stripPrefix? pat (c :: cs) with
    | some r => r
    | none => c :: dropFirstOcc pat cs

/-- `replace_last(s, old, '')` of `DependencyTransformation.rename_imports` (`s.rfind(old)`, cut that occurrence out):
the last occurrence of `old` in `s` is the first occurrence of the reversed pattern in the reversed string -/
def replaceLastL (s old : List Char) : List Char :=
  if old = [] then s else (dropFirstOcc old.reverse s.reverse).reverse

def replaceLast (s old : String) : String := String.ofList (replaceLastL s.toList old.toList)

/-- `derive_module_name` (lower-case names) -/
def deriveModName (suf msuf : String) (m : String) : String :=
  let m := stripSuffix m msuf
  let m := stripSuffix m suf
  m ++ suf ++ msuf

/-- modules renamed by `transform_module`: the module has procedure items in the graph and all of them are kernels -/
def depModules (st : St) : List String :=
  let P := processed st
  let ms := dedupNm ((P.filter (fun n => n.scope != "")).map (fun n => Nm.mod n.scope))
  (ms.filter (fun m => P.all (fun n => n.scope != m.loc ||
      match findDef st.defs n with | some d => !d.driver | none => true))).map (·.loc)

/-- kernels renamed by `transform_subroutine` (the idempotence test skips names that end with the suffix) -/
def depKernels (suf : String) (st : St) : List Nm :=
  (processed st).filter (fun n => !n.loc.endsWith suf &&
    match findDef st.defs n with | some d => !d.driver | none => false)

/-- calls and imports of a processed routine `u` (not skipped by the idempotence test): the call gets the suffix, the
module named in the import is renamed by `derive_module_name`; a callee of the same module stays in `u`'s module.
`rename_imports`: the renamed call name, with the last occurrence of the suffix cut out (`replace_last`), must be a
target for the import to be renamed; otherwise `USE s, ONLY: l` stays and the renamed call has no import -/
def depRef (suf : String) (dm newScope : String → String) (u r : Nm) : Nm :=
  match r with
  | .proc s l => if l.endsWith suf then r      -- `rename_calls`: a name that already ends with the suffix is left alone
                 else if s == "" then .proc "" (l ++ suf)
                 else if s == u.scope then .proc (newScope s) (l ++ suf)
                 else if replaceLast (l ++ suf) suf == l then .proc (dm s) (l ++ suf) else .proc "" (l ++ suf)
  | .mod m => .mod m

/-- `rekey_item_cache` after `DependencyTransformation`: `deleted_keys` = the entries whose unit was removed from a renamed
module; the scope / name update skips them (`… and key not in deleted_keys`), so they keep their old name and are
dropped by the rebuild -/
def depCache (dead : Nm → Bool) (renD : Nm → Nm) (cache : List (Nm × Nm)) : List (Nm × Nm) :=
  let deleted := (cache.filter (fun e => dead e.2)).map (·.2)
  rekey (cache.map (fun e => (e.1, if dead e.2 then e.2 else renD e.2))) deleted

def opDep (plan : Bool) (suf msuf : String) (st : St) : Except Err St :=
  if plan then rediscover st else
  let P := processed st
  let K := depKernels suf st
  let M := depModules st
  let dm := deriveModName suf msuf
  let newScope : String → String := fun s => if s ∈ M then dm s else s
  -- names of program units
  let renD : Nm → Nm := fun n => match n with
    | .proc s l => if n ∈ K then .proc (newScope s) (l ++ suf) else .proc (newScope s) l
    | .mod m => .mod (newScope m)
  -- calls and imports of a processed routine `u` (not skipped by the idempotence test): the call gets the suffix, the
  -- module named in the import is renamed by `derive_module_name`; a callee of the same module stays in `u`'s module
  let renR : Nm → Nm → Nm := depRef suf dm newScope
  let skipped : Nm → Bool := fun u => u.loc.endsWith suf &&
    match findDef st.defs u with | some d => !d.driver | none => false
  -- inactive routines of renamed modules are removed from the module
  let dead : Nm → Bool := fun n => n.isProc && n.scope ∈ M && n ∉ P
  let files := (st.defs.filter (fun d => renD d.name ≠ d.name && !dead d.name)).map (·.file)
  let defs := (st.defs.filter (fun d => !dead d.name)).map (fun d =>
    let d := if d.name ∈ P && !skipped d.name then { d with refs := d.refs.map (renR d.name) } else d
    { d with name := renD d.name })
  let cache := depCache dead renD st.cache
  let st1 := { st with defs := defs, cache := cache, seeds := renSeeds renD st.seeds }
  rediscover (reread st1 files)

/-! ## operation sequences -/

inductive Op where
  | dup (k : String) (sub : Bool) (suf msuf : String)
  | rem (k : String)
  | wrap (msuf : String)
  | dep (suf msuf : String)
deriving DecidableEq, Repr

def applyOp (plan : Bool) (st : St) : Op → Except Err St
  | .dup k _ suf msuf => opDup k suf msuf st
  | .rem k => opRem k st
  | .wrap msuf => opWrap plan msuf st
  | .dep suf msuf => opDep plan suf msuf st

def applyOps (plan : Bool) : St → List Op → Except Err St
  | st, [] => .ok st
  | st, op :: ops =>
    match applyOp plan st op with
    | .error e => .error e
    | .ok st' => applyOps plan st' ops

/-- states after each operation (for the correspondence); stops at the first error -/
def traceOps (plan : Bool) : St → List Op → List (Except Err St)
  | _, [] => []
  | st, op :: ops =>
    match applyOp plan st op with
    | .error e => [.error e]
    | .ok st' => .ok st' :: traceOps plan st' ops

/-! ## the class of requests on which the model is tied to the real code -/

def isLowerS (s : String) : Bool := s.toLower == s

def opLower : Op → Bool
  | .dup _ _ suf msuf => isLowerS suf && isLowerS msuf
  | .rem _ => true
  | .wrap m => isLowerS m
  | .dep s m => isLowerS s && isLowerS m

/-- one top-level program unit (module or routine outside a module) per file -/
def splitLayout (ds : List Def) : Bool :=
  let tops := ds.filter (fun d => d.name.scope == "")
  tops.all (fun d => (tops.filter (fun e => e.file == d.file)).length == 1)

def isDep : Op → Bool | .dep _ _ => true | _ => false
def isDup : Op → Bool | .dup _ _ _ _ => true | _ => false
def isRem : Op → Bool | .rem _ => true | _ => false
def isSub : Op → Bool | .dup _ s _ _ => s | _ => false

/-- no routine with the role `driver` is called, and none shares its module with a kernel (known-finding class
`driver-callee` otherwise) -/
def noDriverCallee (ds : List Def) : Bool :=
  ds.all (fun d => !d.driver ||
    (ds.all (fun e => d.name ∉ e.refs) &&
     ds.all (fun e => !(e.name.isProc && e.name.scope == d.name.scope && d.name.scope != "" && !e.driver))))

/-- known-finding class `dep-module-suffix-changed`: the suffix renaming applied again with the same suffix but another
module suffix (the module is renamed again, the routines and their imports are skipped by the idempotence tests) -/
def depModSuffixChanged : List Op → Bool
  | [] => false
  | .dep s m :: ops => ops.any (fun o => match o with | .dep s' m' => s' == s && m' != m | _ => false) ||
                       depModSuffixChanged ops
  | _ :: ops => depModSuffixChanged ops

def Covered (plan : Bool) (st : St) (ops : List Op) : Bool :=
  splitLayout st.defs && noDriverCallee st.defs && ops.all opLower && !ops.any isSub &&
  (plan || !depModSuffixChanged ops)

end LokiModel.C25
