import LokiModel.C25.Model
import LokiModel.C21.Lemmas
/-!
# C25 — lemmas: the graph after every operation is the dependency closure of the seeds; closed sets of names
-/
namespace LokiModel.C25
open LokiModel.C21 (bfs Graph Err ReachG Inv inv_init bfs_ok_inv)

theorem mem_dedupNm (x : Nm) : ∀ l : List Nm, x ∈ dedupNm l ↔ x ∈ l
  | [] => by simp [dedupNm]
  | y :: ys => by
    simp only [dedupNm, List.mem_cons, List.mem_filter, decide_eq_true_eq, mem_dedupNm x ys]
    by_cases h : x = y
    · simp [h]
    · simp [h]

theorem nodup_dedupNm : ∀ l : List Nm, (dedupNm l).Nodup
  | [] => by simp [dedupNm]
  | y :: ys => by
    simp only [dedupNm, List.nodup_cons, List.mem_filter, decide_eq_true_eq]
    exact ⟨fun h => h.2 rfl, (nodup_dedupNm ys).filter _⟩

theorem findDef_some {ds : List Def} {n : Nm} {d : Def} (h : findDef ds n = some d) : d ∈ ds ∧ d.name = n := by
  unfold findDef at h
  exact ⟨List.mem_of_find?_eq_some h, by simpa using List.find?_some h⟩

/-- the children of an item are (resolved) references of its program unit -/
theorem childrenOf_mem {ds : List Def} {strict : Bool} {a c : Nm} {cs : List Nm}
    (h : childrenOf ds strict a = .ok cs) (hc : c ∈ cs) :
    ∃ d, findDef ds a = some d ∧ ∃ r ∈ d.refs, c = resolveRef ds r := by
  unfold childrenOf at h
  cases hd : findDef ds a with
  | none => simp [hd] at h; subst h; cases hc
  | some d =>
    simp only [hd] at h
    split at h
    · cases h
    · injection h with h
      subst h
      rw [mem_dedupNm, List.mem_map] at hc
      obtain ⟨r, hr, rfl⟩ := hc
      exact ⟨d, rfl, r, hr, rfl⟩

theorem childrenOf_nodup {ds : List Def} {strict : Bool} {a : Nm} {cs : List Nm}
    (h : childrenOf ds strict a = .ok cs) : cs.Nodup := by
  unfold childrenOf at h
  cases hd : findDef ds a with
  | none => simp [hd] at h; subst h; exact List.nodup_nil
  | some d =>
    simp only [hd] at h
    split at h
    · cases h
    · injection h with h
      subst h
      exact nodup_dedupNm _

theorem childrenOf_in_universe {ds : List Def} {strict : Bool} (start : List Nm) {a c : Nm} {cs : List Nm}
    (h : childrenOf ds strict a = .ok cs) (hc : c ∈ cs) : c ∈ nameUniverse ds start := by
  obtain ⟨d, hd, r, hr, rfl⟩ := childrenOf_mem h hc
  unfold nameUniverse
  refine List.mem_append_right _ (List.mem_flatMap.2 ⟨d, (findDef_some hd).1, ?_⟩)
  exact List.mem_cons_of_mem _ (List.mem_map.2 ⟨r, hr, rfl⟩)

/-- the start nodes of `SGraph.from_seed` -/
def startOf (ds : List Def) (seeds : List Nm) : List Nm := dedupNm (seeds.filter (hasDef ds))

theorem discover_inv {ds : List Def} {strict : Bool} {seeds : List Nm} {g : Graph Nm}
    (h : discover ds strict seeds = .ok g) :
    ∃ done, Inv (childrenOf ds strict) (startOf ds seeds) (nameUniverse ds (startOf ds seeds)) done [] g.nodes g.edges := by
  unfold discover at h
  exact bfs_ok_inv (fun a cs c h1 h2 => childrenOf_in_universe _ h1 h2) (fun a cs h1 => childrenOf_nodup h1)
    _ _ _ _ [] g
    (inv_init _ _ _ (nodup_dedupNm _) (fun x hx => by unfold nameUniverse; exact List.mem_append_left _ hx)) h

/-- the nodes of a discovered graph are exactly the closure of the start nodes under `childrenOf` -/
theorem discover_nodes {ds : List Def} {strict : Bool} {seeds : List Nm} {g : Graph Nm}
    (h : discover ds strict seeds = .ok g) (n : Nm) :
    n ∈ g.nodes ↔ ReachG (childrenOf ds strict) (startOf ds seeds) n := by
  obtain ⟨done, inv⟩ := discover_inv h
  constructor
  · exact inv.sound n
  · intro hr
    induction hr with
    | seed hs => exact inv.seeds_in _ hs
    | @step a c cs _ h2 h3 ih =>
      have : a ∈ done := by
        rcases (inv.mem_ns a).1 ih with h' | h'
        · exact h'
        · cases h'
      obtain ⟨cs', hc1, hc2⟩ := inv.closed a this
      have : cs' = cs := by
        have := hc1.symm.trans h2
        injection this
      subst this
      exact hc2 c h3

/-- a successfully built graph: `create_dependency_items` raised at none of its nodes -/
theorem discover_noerr {ds : List Def} {strict : Bool} {seeds : List Nm} {g : Graph Nm}
    (h : discover ds strict seeds = .ok g) (n : Nm) (hn : n ∈ g.nodes) : ∃ cs, childrenOf ds strict n = .ok cs := by
  obtain ⟨done, inv⟩ := discover_inv h
  have : n ∈ done := by
    rcases (inv.mem_ns n).1 hn with h' | h'
    · exact h'
    · cases h'
  obtain ⟨cs, hc, _⟩ := inv.closed n this
  exact ⟨cs, hc⟩

/-- a set of names that contains the start nodes and is closed under the (resolved) references of its members'
program units contains everything the worklist loop reaches -/
theorem closed_reach {ds : List Def} {strict : Bool} {start : List Nm} (N : Nm → Prop)
    (hs : ∀ s ∈ start, N s)
    (hc : ∀ n d, N n → findDef ds n = some d → ∀ r ∈ d.refs, N (resolveRef ds r)) :
    ∀ x, ReachG (childrenOf ds strict) start x → N x := by
  intro x hx
  induction hx with
  | seed h => exact hs _ h
  | @step a c cs _ h2 h3 ih =>
    obtain ⟨d, hd, r, hr, rfl⟩ := childrenOf_mem h2 h3
    exact hc a d ih hd r hr

end LokiModel.C25
