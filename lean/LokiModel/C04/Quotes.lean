import LokiModel.C04.Lemmas
/-!
# C04 — chunk boundaries and character literals

`litState` is the Fortran view of character literals at the level needed here: a quote opens a literal, the next
equal quote closes it (a doubled quote closes and immediately re-opens, so the state *after* any prefix is right).
-/
namespace LokiModel.C04

/-- literal state after scanning a text: `none` = outside a character literal, `some q` = inside one opened by `q` -/
def litState : Option Char → Str → Option Char
  | st, [] => st
  | none, c :: cs => if isQuote c then litState (some c) cs else litState none cs
  | some q, c :: cs => if c = q then litState none cs else litState (some q) cs

theorem litState_append (st : Option Char) (a b : Str) : litState st (a ++ b) = litState (litState st a) b := by
  induction a generalizing st with
  | nil => cases st <;> simp [litState]
  | cons c cs ih =>
    cases st with
    | none => simp only [List.cons_append, litState]; split <;> exact ih _
    | some q => simp only [List.cons_append, litState]; split <;> exact ih _

theorem litState_noquote (s : Str) (h : ∀ c ∈ s, isQuote c = false) : litState none s = none := by
  induction s with
  | nil => rfl
  | cons c cs ih =>
    simp only [litState, h c (List.mem_cons_self ..)]
    exact ih (fun x hx => h x (List.mem_cons_of_mem _ hx))

/-- every chunk ends outside a character literal (scanning chunk by chunk from state `st`) -/
def boundsOut : Option Char → List Str → Prop
  | _, [] => True
  | st, c :: cs => litState st c = none ∧ boundsOut none cs

theorem boundsOut_plain_append (X Y : List Str) (hX : ∀ x ∈ X, litState none x = none) (hY : boundsOut none Y) :
    boundsOut none (X ++ Y) := by
  induction X with
  | nil => exact hY
  | cons x xs ih =>
    exact ⟨hX x (List.mem_cons_self ..), ih (fun y hy => hX y (List.mem_cons_of_mem _ hy))⟩

theorem splitSep_mem (acc s : Str) : ∀ x ∈ splitSep acc s, ∀ ch ∈ x, ch ∈ acc ∨ ch ∈ s := by
  induction s generalizing acc with
  | nil => intro x hx ch hch; simp [splitSep] at hx; subst hx; left; simpa using hch
  | cons c cs ih =>
    intro x hx ch hch
    simp only [splitSep] at hx
    split at hx
    · simp only [List.mem_cons] at hx
      rcases hx with rfl | rfl | hx
      · left; simpa using hch
      · simp at hch; subst hch; right; simp
      · rcases ih [] x hx ch hch with h | h
        · simp at h
        · right; simp [h]
    · rcases ih (c :: acc) x hx ch hch with h | h
      · simp at h; rcases h with rfl | h
        · right; simp
        · left; exact h
      · right; simp [h]

theorem flushPlain_noquote (acc : Str) (h : ∀ c ∈ acc, isQuote c = false) :
    ∀ x ∈ flushPlain acc, litState none x = none := by
  intro x hx
  unfold flushPlain at hx
  split at hx
  · simp at hx
  · apply litState_noquote
    intro ch hch
    rcases splitSep_mem [] acc.reverse x hx ch hch with h' | h'
    · simp at h'
    · exact h ch (by simpa using h')

/-- text `a` ends with, and text `b` starts with, the same quote character -/
def dqPair (a b : Str) : Bool :=
  match a.getLast?, b.head? with
  | some x, some y => x = y && isQuote x
  | _, _ => false

def anyAdj (f : Str → Str → Bool) : List Str → Bool
  | a :: b :: r => f a b || anyAdj f (b :: r)
  | _ => false

/-- per chunk: it starts and ends outside the literals, and it does not start with the quote character the previous
chunk ended with -/
def ChunksOk : Option Char → List Str → Prop
  | _, [] => True
  | p, c :: cs => litState none c = none ∧ (∀ x, p = some x → isQuote x = true → c.head? ≠ some x) ∧
      ChunksOk c.getLast? cs

theorem ChunksOk.bounds {p : Option Char} {cs : List Str} (h : ChunksOk p cs) : boundsOut none cs := by
  induction cs generalizing p with
  | nil => trivial
  | cons c cs ih => exact ⟨h.1, ih h.2.2⟩

theorem ChunksOk.nodq {p : Option Char} {cs : List Str} (h : ChunksOk p cs) : anyAdj dqPair cs = false := by
  induction cs generalizing p with
  | nil => rfl
  | cons a r ih =>
    cases r with
    | nil => rfl
    | cons b r' =>
      simp only [anyAdj, Bool.or_eq_false_iff]
      refine ⟨?_, ih h.2.2⟩
      have hb := h.2.2.2.1
      unfold dqPair
      cases ha : a.getLast? with
      | none => rfl
      | some x =>
        cases hbh : b.head? with
        | none => rfl
        | some y =>
          simp only [Bool.and_eq_false_iff, decide_eq_false_iff_not]
          by_cases hq : isQuote x = true
          · left; intro e; subst e; exact hb x ha hq hbh
          · right; simpa using hq

theorem chunksOk_plain_append (X Y : List Str) (p : Option Char)
    (hX : ∀ x ∈ X, ∀ ch ∈ x, isQuote ch = false)
    (hY : ∀ p', (∀ x, p' = some x → isQuote x = false) → ChunksOk p' Y)
    (hY0 : X = [] → ChunksOk p Y) : ChunksOk p (X ++ Y) := by
  induction X generalizing p with
  | nil => exact hY0 rfl
  | cons x xs ih =>
    have hx := hX x (List.mem_cons_self ..)
    refine ⟨litState_noquote x hx, ?_, ?_⟩
    · intro q _ hq hh
      have : q ∈ x := List.mem_of_mem_head? hh
      rw [hx q this] at hq; cases hq
    · apply ih _ (fun y hy => hX y (List.mem_cons_of_mem _ hy))
      intro _
      apply hY
      intro q hq
      exact hx q (List.mem_of_getLast? hq)

theorem splitSep_ne (acc s : Str) : splitSep acc s ≠ [] := by
  induction s generalizing acc with
  | nil => simp [splitSep]
  | cons c cs ih => simp only [splitSep]; split <;> simp [ih]

theorem flushPlain_nil (acc : Str) (h : flushPlain acc = []) : acc = [] := by
  unfold flushPlain at h
  split at h
  · assumption
  · exact absurd h (splitSep_ne _ _)

theorem flushPlain_quotefree (acc : Str) (h : ∀ c ∈ acc, isQuote c = false) :
    ∀ x ∈ flushPlain acc, ∀ ch ∈ x, isQuote ch = false := by
  intro x hx ch hch
  unfold flushPlain at hx
  split at hx
  · simp at hx
  · rcases splitSep_mem [] acc.reverse x hx ch hch with h' | h'
    · simp at h'
    · exact h ch (by simpa using h')

theorem matchLit_split (q : Char) : ∀ (cs b r : Str), matchLit q cs = some (b, r) → cs = b ++ r ∧ b ≠ []
  | [], b, r, h => by simp [matchLit] at h
  | [c], b, r, h => by
      simp only [matchLit] at h
      split at h
      · simp at h; obtain ⟨rfl, rfl⟩ := h; simp
      · simp at h
  | c :: c2 :: cs2, b, r, h => by
      simp only [matchLit] at h
      split at h
      · split at h
        · split at h
          · next b' r' hm =>
            have := matchLit_split q cs2 b' r' hm
            simp at h; obtain ⟨rfl, rfl⟩ := h; simp [this.1]
          · simp at h; obtain ⟨rfl, rfl⟩ := h; simp
        · simp at h; obtain ⟨rfl, rfl⟩ := h; simp
      · split at h
        · simp at h
        · split at h
          · next b' r' hm =>
            have := matchLit_split q (c2 :: cs2) b' r' hm
            simp at h; obtain ⟨rfl, rfl⟩ := h; simp [this.1]
          · simp at h

/-- inside a terminated literal on one line the pattern matches the whole Fortran literal: it ends outside the literal,
ends with the quote, and the text after it does not go on with the same quote (no backing up happens) -/
theorem matchLit_wq (q : Char) (hq : isQuote q = true) : ∀ (cs : Str), litState (some q) cs = none → '\n' ∉ cs →
    ∃ b r, matchLit q cs = some (b, r) ∧ litState (some q) b = none ∧ litState none r = none ∧
      r.head? ≠ some q ∧ b.getLast? = some q
  | [], h, _ => by simp [litState] at h
  | [c], h, _ => by
      by_cases hc : c = q
      · subst hc; exact ⟨[c], [], by simp [matchLit], by simp [litState], rfl, by simp, rfl⟩
      · simp [litState, hc] at h
  | c :: c2 :: cs2, h, hn => by
      simp only [List.mem_cons, not_or] at hn
      by_cases hc : c = q
      · subst hc
        simp only [litState, if_true] at h
        by_cases hc2 : c2 = c
        · subst hc2
          simp only [hq, if_true] at h
          obtain ⟨b, r, hm, h1, h2, h3, h4⟩ := matchLit_wq c2 hq cs2 h hn.2.2
          refine ⟨c2 :: c2 :: b, r, by simp [matchLit, hm], by simp [litState, h1, hq], h2, h3, ?_⟩
          have hb := (matchLit_split c2 cs2 b r hm).2
          cases b with
          | nil => exact absurd rfl hb
          | cons x xs => simpa using h4
        · refine ⟨[c], c2 :: cs2, by simp [matchLit, hc2], by simp [litState], h, by simp; exact hc2, rfl⟩
      · simp only [litState, hc, if_false] at h
        have hn' : '\n' ∉ c2 :: cs2 := by simp only [List.mem_cons, not_or]; exact ⟨hn.2.1, hn.2.2⟩
        obtain ⟨b, r, hm, h1, h2, h3, h4⟩ := matchLit_wq q hq (c2 :: cs2) h hn'
        have hnl : ¬ c = '\n' := fun e => hn.1 e.symm
        refine ⟨c :: b, r, by simp [matchLit, hc, hnl, hm], by simp [litState, hc, h1], h2, h3, ?_⟩
        have hb := (matchLit_split q _ b r hm).2
        cases b with
        | nil => exact absurd rfl hb
        | cons x xs => simpa using h4

theorem chunksAux_count : ∀ (b : Str) (acc r : Str), b ≠ [] →
    chunksAux b.length acc (b ++ r) = (acc.reverse ++ b) :: chunksAux 0 [] r
  | [], _, _, h => absurd rfl h
  | [c], acc, r, _ => by simp [chunksAux]
  | c :: c' :: b', acc, r, _ => by
      have := chunksAux_count (c' :: b') (c :: acc) r (by simp)
      simp only [List.length_cons, List.cons_append] at this ⊢
      rw [chunksAux]
      simp only [Nat.add_one_ne_zero, if_false]
      rw [this]; simp

/-- the finditer loop on a well-quoted remainder: every chunk is outside-to-outside and no chunk starts with the quote
its predecessor ended with -/
theorem chunksAux_ok : ∀ (rest acc : Str) (p : Option Char), '\n' ∉ rest → (∀ c ∈ acc, isQuote c = false) →
    litState none rest = none →
    (acc = [] → ∀ x, p = some x → isQuote x = true → rest.head? ≠ some x) →
    ChunksOk p (chunksAux 0 acc rest)
  | [], acc, p, _, hacc, _, _ => by
      simp only [chunksAux]
      have := chunksOk_plain_append (flushPlain acc) [] p (flushPlain_quotefree acc hacc)
        (fun _ _ => trivial) (fun _ => trivial)
      simpa using this
  | c :: cs, acc, p, hn, hacc, hlit, hp => by
      simp only [List.mem_cons, not_or] at hn
      by_cases hq : isQuote c = true
      · simp only [litState, hq, if_true] at hlit
        obtain ⟨b, r, hm, h1, h2, h3, h4⟩ := matchLit_wq c hq cs hlit hn.2
        obtain ⟨hcs, hb⟩ := matchLit_split c cs b r hm
        have hnr : '\n' ∉ r := by intro h; exact hn.2 (by rw [hcs]; exact List.mem_append_right _ h)
        have hlast : (c :: b).getLast? = some c := by
          cases b with
          | nil => exact absurd rfl hb
          | cons x xs => simpa using h4
        have hrec : ChunksOk (some c) (chunksAux 0 [] r) :=
          chunksAux_ok r [] (some c) hnr (by simp) h2 (by
            intro _ x hx _; simp at hx; subst hx; exact h3)
        have hY : ∀ p', (∀ x, p' = some x → isQuote x = true → c ≠ x) →
            ChunksOk p' ((c :: b) :: chunksAux 0 [] r) := by
          intro p' hp'
          refine ⟨by simp [litState, hq, h1], ?_, by rw [hlast]; exact hrec⟩
          intro x hx hqx hh
          simp at hh
          exact hp' x hx hqx hh
        simp only [chunksAux, hq, if_true, hm]
        rw [hcs, chunksAux_count b [c] r hb]
        simp only [List.reverse_cons, List.reverse_nil, List.nil_append, List.singleton_append]
        apply chunksOk_plain_append _ _ p (flushPlain_quotefree acc hacc)
        · intro p' hp'
          apply hY
          intro x hx hqx _
          rw [hp' x hx] at hqx; cases hqx
        · intro hnil
          apply hY
          intro x hx hqx he
          have := hp (flushPlain_nil acc hnil) x hx hqx
          simp at this
          exact this he
      · have hq' : isQuote c = false := by simpa using hq
        simp only [litState, hq', Bool.false_eq_true, if_false] at hlit
        simp only [chunksAux, hq', Bool.false_eq_true, if_false]
        apply chunksAux_ok cs (c :: acc) p hn.2 _ hlit (by simp)
        intro x hx
        simp at hx
        rcases hx with rfl | hx
        · exact hq'
        · exact hacc x hx
termination_by rest => rest.length
decreasing_by
  all_goals simp_wf
  · have := congrArg List.length hcs; simp at this; omega

end LokiModel.C04
