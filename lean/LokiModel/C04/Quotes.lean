import LokiModel.C04.Lemmas
/-!
# C04 — chunk boundaries and character literals

`litState` is the Fortran view of character literals at the level needed here: a quote opens a literal, the next
equal quote closes it (a doubled quote closes and immediately re-opens, so the state *after* any prefix is right).
-/
namespace LokiModel.C04

/-- literal state after scanning a text: `none` = outside a character literal, `some q` = inside one opened by `q` -/
def litState : Option Char → Str → Option Char
  | st, [] => st
  | none, c :: cs => if isQuote c then litState (some c) cs else litState none cs
  | some q, c :: cs => if c = q then litState none cs else litState (some q) cs

theorem litState_append (st : Option Char) (a b : Str) : litState st (a ++ b) = litState (litState st a) b := by
  induction a generalizing st with
  | nil => cases st <;> simp [litState]
  | cons c cs ih =>
    cases st with
    | none => simp only [List.cons_append, litState]; split <;> exact ih _
    | some q => simp only [List.cons_append, litState]; split <;> exact ih _

theorem litState_noquote (s : Str) (h : ∀ c ∈ s, isQuote c = false) : litState none s = none := by
  induction s with
  | nil => rfl
  | cons c cs ih =>
    simp only [litState, h c (List.mem_cons_self ..)]
    exact ih (fun x hx => h x (List.mem_cons_of_mem _ hx))

/-- every chunk ends outside a character literal (scanning chunk by chunk from state `st`) -/
def boundsOut : Option Char → List Str → Prop
  | _, [] => True
  | st, c :: cs => litState st c = none ∧ boundsOut none cs

theorem boundsOut_plain_append (X Y : List Str) (hX : ∀ x ∈ X, litState none x = none) (hY : boundsOut none Y) :
    boundsOut none (X ++ Y) := by
  induction X with
  | nil => exact hY
  | cons x xs ih =>
    exact ⟨hX x (List.mem_cons_self ..), ih (fun y hy => hX y (List.mem_cons_of_mem _ hy))⟩

theorem splitSep_mem (acc s : Str) : ∀ x ∈ splitSep acc s, ∀ ch ∈ x, ch ∈ acc ∨ ch ∈ s := by
  induction s generalizing acc with
  | nil => intro x hx ch hch; simp [splitSep] at hx; subst hx; left; simpa using hch
  | cons c cs ih =>
    intro x hx ch hch
    simp only [splitSep] at hx
    split at hx
    · simp only [List.mem_cons] at hx
      rcases hx with rfl | rfl | hx
      · left; simpa using hch
      · simp at hch; subst hch; right; simp
      · rcases ih [] x hx ch hch with h | h
        · simp at h
        · right; simp [h]
    · rcases ih (c :: acc) x hx ch hch with h | h
      · simp at h; rcases h with rfl | h
        · right; simp
        · left; exact h
      · right; simp [h]

theorem flushPlain_noquote (acc : Str) (h : ∀ c ∈ acc, isQuote c = false) :
    ∀ x ∈ flushPlain acc, litState none x = none := by
  intro x hx
  unfold flushPlain at hx
  split at hx
  · simp at hx
  · apply litState_noquote
    intro ch hch
    rcases splitSep_mem [] acc.reverse x hx ch hch with h' | h'
    · simp at h'
    · exact h ch (by simpa using h')

theorem hasClose_of_lit (q : Char) (cs : Str) (h : litState (some q) cs = none) (hn : '\n' ∉ cs) :
    hasClose q cs = true := by
  induction cs with
  | nil => simp [litState] at h
  | cons c cs ih =>
    simp only [List.mem_cons, not_or] at hn
    simp only [hasClose]
    by_cases hq : c = q
    · simp [hq]
    · simp only [litState, hq, if_false] at h
      simp only [hq, if_false]
      rw [if_neg (fun e => hn.1 e.symm)]
      exact ih h hn.2

theorem chunksAux_bounds (rest : Str) : ∀ (m : Option Char) (acc : Str), '\n' ∉ rest →
    (match m with
     | none => (∀ c ∈ acc, isQuote c = false) ∧ litState none rest = none
     | some q => litState none acc.reverse = some q ∧ litState (some q) rest = none) →
    boundsOut none (chunksAux m acc rest) := by
  induction rest with
  | nil =>
    intro m acc _ h
    cases m with
    | none =>
      simp only [chunksAux]
      have := boundsOut_plain_append (flushPlain acc) [] (flushPlain_noquote acc h.1) trivial
      simpa using this
    | some q => simp [litState] at h
  | cons c cs ih =>
    intro m acc hn h
    simp only [List.mem_cons, not_or] at hn
    cases m with
    | none =>
      simp only [chunksAux]
      obtain ⟨hacc, hlit⟩ := h
      by_cases hq : isQuote c = true
      · simp only [litState, hq, if_true] at hlit
        have hc := hasClose_of_lit c cs hlit hn.2
        simp only [hq, hc, Bool.and_self, if_true]
        apply boundsOut_plain_append _ _ (flushPlain_noquote acc hacc)
        apply ih (some c) [c] hn.2
        exact ⟨by simp [litState, hq], hlit⟩
      · have hq' : isQuote c = false := by simpa using hq
        simp only [litState, hq', Bool.false_eq_true, if_false] at hlit
        simp only [hq', Bool.false_and, Bool.false_eq_true, if_false]
        apply ih none (c :: acc) hn.2
        refine ⟨?_, hlit⟩
        intro x hx
        simp at hx
        rcases hx with rfl | hx
        · exact hq'
        · exact hacc x hx
    | some q =>
      simp only [chunksAux]
      obtain ⟨hacc, hlit⟩ := h
      by_cases hq : c = q
      · subst hq
        simp only [litState, if_true] at hlit
        simp only [if_true]
        refine ⟨?_, ih none [] hn.2 ⟨by simp, hlit⟩⟩
        rw [List.reverse_cons, litState_append, hacc]
        simp [litState]
      · simp only [litState, hq, if_false] at hlit
        simp only [hq, if_false]
        apply ih (some q) (c :: acc) hn.2
        refine ⟨?_, hlit⟩
        rw [List.reverse_cons, litState_append, hacc]
        simp [litState, hq]

end LokiModel.C04
