import LokiModel.C04.Lemmas
/-!
# C04 — removing the continuation markers gives back the text (lists of strings)
-/
namespace LokiModel.C04

/-- `Wr cfg lines line X`: the wrapped lines `lines` (each ending with `cont[0]`) and the current line `line`
are the text `X` with line breaks inserted: start with a line, append text to the current line, or break
(the current line gets `cont[0]` and a new line starts with `cont[1]`). -/
inductive Wr (cfg : Cfg) : List Str → Str → Str → Prop
  | start (l : Str) : Wr cfg [] l l
  | app {lines : List Str} {line X : Str} (t : Str) : Wr cfg lines line X → Wr cfg lines (line ++ t) (X ++ t)
  | brk {lines : List Str} {line X : Str} : Wr cfg lines line X → Wr cfg (lines ++ [line ++ cfg.c0]) cfg.c1 X

/-- pieces (given last piece first) joined by `cont[0] ++ cont[1]` -/
def joinR (cfg : Cfg) : List Str → Str
  | [] => []
  | [p] => p
  | p :: q :: r => joinR cfg (q :: r) ++ cfg.c0 ++ cfg.c1 ++ p

/-- text level: the output is the text cut into pieces that are joined by `cont[0] ++ cont[1]`; nothing else changes -/
theorem Wr.text {cfg : Cfg} {lines : List Str} {line X : Str} (h : Wr cfg lines line X) :
    ∃ rps : List Str, rps ≠ [] ∧ joinR cfg rps = lines.flatten ++ line ∧ rps.reverse.flatten = X := by
  induction h with
  | start l => exact ⟨[l], by simp, by simp [joinR], by simp⟩
  | @app lines line X t _ ih =>
    obtain ⟨rps, hne, h1, h2⟩ := ih
    cases rps with
    | nil => exact absurd rfl hne
    | cons p rest =>
      refine ⟨(p ++ t) :: rest, by simp, ?_, by simp [← h2]⟩
      cases rest with
      | nil => simp [joinR] at h1 ⊢; rw [h1]; simp
      | cons q r => simp only [joinR] at h1 ⊢; rw [← List.append_assoc, h1]; simp
  | @brk lines line X _ ih =>
    obtain ⟨rps, hne, h1, h2⟩ := ih
    cases rps with
    | nil => exact absurd rfl hne
    | cons p rest =>
      refine ⟨[] :: p :: rest, by simp, ?_, by simpa using h2⟩
      simp only [joinR, h1]; simp

theorem Wr.apps {cfg : Cfg} {lines : List Str} {line X : Str} (h : Wr cfg lines line X) (ts : List Str) :
    Wr cfg lines (line ++ ts.flatten) (X ++ ts.flatten) := by
  induction ts generalizing line X with
  | nil => simpa using h
  | cons t ts ih => have := ih (Wr.app t h); simpa using this

/-- `takeFit` moves a prefix of the chunks onto the line -/
theorem takeFit_spec (cfg : Cfg) (line : Str) (cl : List Str) :
    (∃ pre r, (takeFit cfg line cl).2 = some r ∧ cl = pre ++ r ∧ (takeFit cfg line cl).1 = line ++ pre.flatten) ∨
    ((takeFit cfg line cl).2 = none ∧ (takeFit cfg line cl).1 = line ++ cl.flatten ∧
      (cl = [] ∨ tooLong cfg (line ++ cl.flatten) = false)) := by
  induction cl generalizing line with
  | nil => right; simp [takeFit]
  | cons c cs ih =>
    simp only [takeFit]
    split
    · left; exact ⟨[], c :: cs, by simp⟩
    · next hc =>
      rcases ih (line ++ c) with ⟨pre, r, h1, h2, h3⟩ | ⟨h1, h2, h3⟩
      · left; exact ⟨c :: pre, r, h1, by simp [h2], by simp [h3]⟩
      · right
        refine ⟨h1, by simp [h2], Or.inr ?_⟩
        rcases h3 with rfl | h3
        · simpa using hc
        · simpa using h3

theorem takeFit_rest_spec (cfg : Cfg) (line : Str) (cl : List Str) (h : tooLong cfg (line ++ cl.flatten) = true) :
    ∃ pre r, cl = pre ++ r ∧ (takeFit cfg line cl).1 = line ++ pre.flatten ∧ (takeFit cfg line cl).2.getD cl = r := by
  rcases takeFit_spec cfg line cl with ⟨pre, r, h1, h2, h3⟩ | ⟨h1, h2, h3⟩
  · exact ⟨pre, r, h2, h3, by simp [h1]⟩
  · rcases h3 with rfl | h3
    · exact ⟨[], [], by simp, by simp [takeFit], by simp [takeFit]⟩
    · rw [h3] at h; cases h

theorem place_wr (cfg : Cfg) (L : List Str) (cl : List Str) : ∀ (line : Str) (lines : List Str) (X : Str),
    Wr cfg (L ++ lines) line X →
    Wr cfg (L ++ (place cfg line lines cl).2) (place cfg line lines cl).1 (X ++ cl.flatten) := by
  induction cl with
  | nil => intro line lines X h; simpa [place] using h
  | cons c cs ih =>
    intro line lines X h
    simp only [place]
    split
    · have h1 : Wr cfg (L ++ (lines ++ [line ++ cfg.c0])) (cfg.c1 ++ c) (X ++ c) := by
        have := Wr.app c (Wr.brk h); simpa using this
      have := ih _ _ _ h1
      simpa using this
    · have := ih _ _ _ (Wr.app c h)
      simpa using this

theorem chunkPath_wr (cfg : Cfg) (L : List Str) (line X : Str) (cl : List Str) (h : Wr cfg L line X)
    (hl : tooLong cfg (line ++ cl.flatten) = true) :
    Wr cfg (L ++ (chunkPath cfg line cl).2) (chunkPath cfg line cl).1 (X ++ cl.flatten) := by
  obtain ⟨pre, r, h1, h2, h3⟩ := takeFit_rest_spec cfg line cl hl
  unfold chunkPath
  simp only [h2, h3]
  have hw : Wr cfg L (line ++ pre.flatten) (X ++ pre.flatten) := h.apps pre
  split
  · have := place_wr cfg L r cfg.c1 [line ++ pre.flatten ++ cfg.c0] (X ++ pre.flatten) (Wr.brk hw)
    simpa [h1] using this
  · have := place_wr cfg L r (line ++ pre.flatten) [] (X ++ pre.flatten) (by simpa using hw)
    simpa [h1] using this

/-- what `_add_item_to_line` does with a string item -/
def addStrItem (cfg : Cfg) (line t : Str) : Str × List Str :=
  if !tooLong cfg (line ++ t) then (line ++ t, [])
  else if !tooLong cfg (cfg.c1 ++ t) then (cfg.c1 ++ t, [line ++ cfg.c0])
  else chunkPath cfg line (chunks t)

theorem addItem_str (n : Nat) (cfg : Cfg) (line t : Str) (r : Str × List Str)
    (h : addItem n cfg line (.str t) = .ok r) : r = addStrItem cfg line t := by
  cases n with
  | zero => simp [addItem] at h
  | succ n =>
    cases n with
    | zero => simp [addItem, strItem, bind, Except.bind] at h
    | succ n =>
      simp only [addItem, strItem, trySplit, flatItem, bind, Except.bind, pure, Except.pure] at h
      unfold addStrItem
      split at h
      · next hh => simp at h; simp [hh, h]
      · next hh =>
        rw [if_neg hh]
        split at h
        · next hh2 => simp at h; simp [hh2, h]
        · next hh2 => simp at h; simp [hh2, h]

theorem addStrItem_wr (cfg : Cfg) (L : List Str) (line X t : Str) (h : Wr cfg L line X) :
    Wr cfg (L ++ (addStrItem cfg line t).2) (addStrItem cfg line t).1 (X ++ t) := by
  unfold addStrItem
  split
  · simpa using Wr.app t h
  · next h1 =>
    split
    · simpa using Wr.app t (Wr.brk h)
    · have := chunkPath_wr cfg L line X (chunks t) h (by rw [chunks_flatten]; simpa using h1)
      rw [chunks_flatten] at this
      exact this

/-- the text a list of strings stands for: the non-empty items, each followed by `sep` unless it is the last entry
of the list (by position, as `_to_str` decides it) -/
def flatContent (sep : Str) : List Str → Str
  | [] => []
  | t :: rest => if t.isEmpty then flatContent sep rest
                 else t ++ (if rest.isEmpty then [] else sep) ++ flatContent sep rest

theorem flat_loop (cfg : Cfg) (sep : Str) (b : Bool) : ∀ (n : Nat) (ts : List Str) (line : Str) (lines : List Str)
    (X : Str) (r : LoopRes), toStrLoop n cfg sep b (ts.map Item.str) line lines false = .ok r → Wr cfg lines line X →
    ∃ ls l, r = .done ls l ∧ Wr cfg ls l (X ++ flatContent sep ts) := by
  intro n
  induction n with
  | zero => intro ts line lines X r h; simp [toStrLoop] at h
  | succ n ih =>
    intro ts line lines X r h hw
    cases ts with
    | nil => simp [toStrLoop] at h; exact ⟨lines, line, h.symm, by simpa [flatContent] using hw⟩
    | cons t rest =>
      simp only [List.map_cons, toStrLoop, bind, Except.bind] at h
      split at h
      · cases h
      · next s hs =>
        have hst : s = t := by
          cases n with
          | zero => simp [strItem] at hs
          | succ m => simp [strItem] at hs; exact hs.symm
        subst hst
        split at h
        · next he =>
          obtain ⟨ls, l, h1, h2⟩ := ih _ _ _ _ _ h hw
          exact ⟨ls, l, h1, by simpa [flatContent, he] using h2⟩
        · next he =>
          split at h
          · cases h
          · next v hv =>
            simp only [addStr] at hv
            have hv' := addItem_str _ _ _ _ _ hv
            simp only [Bool.false_and, Bool.false_eq_true, if_false] at h
            have hw' := addStrItem_wr cfg lines line X (s ++ (if (List.map Item.str rest).isEmpty = true then [] else sep)) hw
            rw [← hv'] at hw'
            obtain ⟨ls, l, h1, h2⟩ := ih _ _ _ _ _ h hw'
            refine ⟨ls, l, h1, ?_⟩
            have e : (List.map Item.str rest).isEmpty = rest.isEmpty := by cases rest <;> rfl
            rw [e] at h2
            simpa [flatContent, he] using h2

end LokiModel.C04
