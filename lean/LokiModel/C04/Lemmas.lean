import LokiModel.C04.Model
/-!
# C04 — lemmas about the chunker and the placing loops (helper file; the property theorems are in `Props/C04.lean`)
-/
namespace LokiModel.C04

/-! ## the chunker loses no character -/

theorem splitSep_flatten (acc s : Str) : (splitSep acc s).flatten = acc.reverse ++ s := by
  induction s generalizing acc with
  | nil => simp [splitSep]
  | cons c cs ih =>
    simp only [splitSep]
    split
    · simp [ih]
    · rw [ih]; simp

theorem flushPlain_flatten (acc : Str) : (flushPlain acc).flatten = acc.reverse := by
  unfold flushPlain
  split
  · next h => simp [h]
  · rw [splitSep_flatten]; simp

theorem chunksAux_flatten (m : Nat) (acc s : Str) : (chunksAux m acc s).flatten = acc.reverse ++ s := by
  induction s generalizing m acc with
  | nil => cases m <;> simp [chunksAux, flushPlain_flatten]
  | cons c cs ih =>
    cases m with
    | zero =>
      simp only [chunksAux]
      split
      · split
        · rw [List.flatten_append, flushPlain_flatten, ih]; simp
        · rw [ih]; simp
      · rw [ih]; simp
    | succ n =>
      simp only [chunksAux]
      split
      · simp [ih]
      · rw [ih]; simp

/-- concatenating the chunks gives back the chunked string -/
theorem chunks_flatten (s : Str) : (chunks s).flatten = s := by
  simp [chunks, chunksAux_flatten]

/-! ## width invariants of the placing loops -/

/-- the line still has room for `cont[0]` -/
def Fits (cfg : Cfg) (l : Str) : Prop := l.length + cfg.c0.length ≤ cfg.W

/-- `c` is one chunk the chunker can produce -/
def IsChunk (c : Str) : Prop := ∃ s, c ∈ chunks s

/-- invariant of the current line: it has room for `cont[0]`, or it consists of `cont[1]` and one single chunk -/
def GoodCur (cfg : Cfg) (l : Str) : Prop := Fits cfg l ∨ ∃ c, IsChunk c ∧ l = cfg.c1 ++ c

/-- invariant of a wrapped line -/
def GoodSeg (cfg : Cfg) (l : Str) : Prop := ∃ b, l = b ++ cfg.c0 ∧ GoodCur cfg b

theorem tooLong_false_iff (cfg : Cfg) (l : Str) : tooLong cfg l = false ↔ Fits cfg l := by
  simp [tooLong, Fits]

theorem isChunk_nil : IsChunk [] := ⟨[' '], by decide⟩

theorem goodCur_c1 (cfg : Cfg) : GoodCur cfg cfg.c1 := Or.inr ⟨[], isChunk_nil, by simp⟩

theorem takeFit_good (cfg : Cfg) (line : Str) (cl : List Str) (h : GoodCur cfg line) :
    GoodCur cfg (takeFit cfg line cl).1 := by
  induction cl generalizing line with
  | nil => simpa [takeFit] using h
  | cons c cs ih =>
    simp only [takeFit]
    split
    · exact h
    · next hl =>
      apply ih
      exact Or.inl ((tooLong_false_iff _ _).1 (by simpa using hl))

theorem takeFit_rest (cfg : Cfg) (line : Str) (cl r : List Str) (h : (takeFit cfg line cl).2 = some r) :
    ∀ c ∈ r, c ∈ cl := by
  induction cl generalizing line with
  | nil => simp [takeFit] at h
  | cons c cs ih =>
    simp only [takeFit] at h
    split at h
    · simp at h; subst h; intro x hx; exact hx
    · intro x hx; exact List.mem_cons_of_mem _ (ih _ h x hx)

theorem place_good (cfg : Cfg) (line : Str) (lines cl : List Str) (hl : GoodCur cfg line)
    (hs : ∀ l ∈ lines, GoodSeg cfg l) (hc : ∀ c ∈ cl, IsChunk c) :
    GoodCur cfg (place cfg line lines cl).1 ∧ ∀ l ∈ (place cfg line lines cl).2, GoodSeg cfg l := by
  induction cl generalizing line lines with
  | nil => exact ⟨hl, hs⟩
  | cons c cs ih =>
    have hc' : ∀ x ∈ cs, IsChunk x := fun x hx => hc x (List.mem_cons_of_mem _ hx)
    have hcc : IsChunk c := hc c (List.mem_cons_self ..)
    simp only [place]
    split
    · apply ih _ _ (Or.inr ⟨c, hcc, rfl⟩) _ hc'
      intro l hl'
      rcases List.mem_append.1 hl' with h | h
      · exact hs l h
      · simp at h; exact ⟨line, h, hl⟩
    · next hcond =>
      apply ih _ _ _ hs hc'
      simp only [Bool.and_eq_true, not_and, bne_iff_ne, ne_eq, Decidable.not_not] at hcond
      by_cases ht : tooLong cfg (line ++ c) = true
      · have := hcond ht; subst this; exact Or.inr ⟨c, hcc, rfl⟩
      · exact Or.inl ((tooLong_false_iff _ _).1 (by simpa using ht))

theorem chunkPath_good (cfg : Cfg) (line : Str) (cl : List Str) (hl : GoodCur cfg line) (hc : ∀ c ∈ cl, IsChunk c) :
    GoodCur cfg (chunkPath cfg line cl).1 ∧ ∀ l ∈ (chunkPath cfg line cl).2, GoodSeg cfg l := by
  unfold chunkPath
  have h1 := takeFit_good cfg line cl hl
  have h2 : ∀ c ∈ ((takeFit cfg line cl).2.getD cl), IsChunk c := by
    cases hr : (takeFit cfg line cl).2 with
    | none => simpa using hc
    | some r => intro c hcr; exact hc c (takeFit_rest cfg line cl r hr c (by simpa using hcr))
  simp only []
  split
  · apply place_good _ _ _ _ (goodCur_c1 cfg) _ h2
    intro l hl'; simp at hl'; exact ⟨_, hl', h1⟩
  · exact place_good _ _ _ _ h1 (by simp) h2

end LokiModel.C04
