import LokiModel.C04.Width
/-!
# C04 — physical lines of the wrapped text
-/
namespace LokiModel.C04

/-- the physical lines of a text (split at `'\n'`, like `str.split('\n')`) -/
def physLines : Str → List Str
  | [] => [[]]
  | c :: cs =>
      if c = '\n' then [] :: physLines cs
      else match physLines cs with
        | l :: ls => (c :: l) :: ls
        | [] => [[c]]

theorem physLines_ne (s : Str) : physLines s ≠ [] := by
  cases s with
  | nil => simp [physLines]
  | cons c cs =>
    simp only [physLines]
    split
    · simp
    · split <;> simp

theorem physLines_append_nl (a b : Str) : physLines (a ++ '\n' :: b) = physLines a ++ physLines b := by
  induction a with
  | nil => simp [physLines]
  | cons c a ih =>
    simp only [List.cons_append, physLines]
    split
    · simp [ih]
    · rw [ih]
      cases h : physLines a with
      | nil => exact absurd h (physLines_ne a)
      | cons l ls => simp

theorem physLines_len (s : Str) : ∀ l ∈ physLines s, l.length ≤ s.length := by
  induction s with
  | nil => simp [physLines]
  | cons c cs ih =>
    simp only [physLines]
    split
    · intro l hl
      simp at hl
      rcases hl with h | h
      · subst h; simp
      · have := ih l h; simp; omega
    · cases h : physLines cs with
      | nil => exact absurd h (physLines_ne cs)
      | cons l0 ls =>
        rw [h] at ih
        intro l hl
        simp at hl
        rcases hl with h' | h'
        · subst h'; have := ih l0 (by simp); simp; omega
        · have := ih l (by simp [h']); simp; omega

theorem physLines_noNL (s : Str) (h : '\n' ∉ s) : physLines s = [s] := by
  induction s with
  | nil => simp [physLines]
  | cons c cs ih =>
    simp only [List.mem_cons, not_or] at h
    simp only [physLines]
    rw [if_neg (fun e => h.1 e.symm), ih h.2]

/-- the text `''.join([*lines, line])` when every wrapped line ends with `head ++ "\n"` -/
theorem physLines_join (hd : Str) (bodies : List Str) (line : Str) :
    physLines ((bodies.map (fun b => b ++ (hd ++ ['\n']))).flatten ++ line)
      = (bodies.map (fun b => physLines (b ++ hd))).flatten ++ physLines line := by
  induction bodies with
  | nil => simp
  | cons b bs ih =>
    simp only [List.map_cons, List.flatten_cons, List.append_assoc, List.singleton_append]
    rw [← List.append_assoc b hd, List.cons_append, physLines_append_nl, ih]

end LokiModel.C04
