import LokiModel.C04.Lemmas
/-!
# C04 — the width invariant through `_add_item_to_line` / `_to_str` (all nesting depths, by induction on the fuel)
-/
namespace LokiModel.C04

def LoopGood (cfg : Cfg) : LoopRes → Prop
  | .done ls l => GoodCur cfg l ∧ ∀ x ∈ ls, GoodSeg cfg x
  | .stopped l _ => GoodCur cfg l

def AddP (cfg : Cfg) (n : Nat) : Prop :=
  ∀ line item r, addItem n cfg line item = .ok r → GoodCur cfg line → GoodCur cfg r.1 ∧ ∀ l ∈ r.2, GoodSeg cfg l
def SplitP (cfg : Cfg) (n : Nat) : Prop :=
  ∀ line item fits r, trySplit n cfg line item fits = .ok (some r) → GoodCur cfg line →
    GoodCur cfg r.1 ∧ ∀ l ∈ r.2, GoodSeg cfg l
def LoopP (cfg : Cfg) (n : Nat) : Prop :=
  ∀ sep b items line lines stop r, toStrLoop n cfg sep b items line lines stop = .ok r → GoodCur cfg line →
    (∀ l ∈ lines, GoodSeg cfg l) → LoopGood cfg r

theorem loop_step (cfg : Cfg) (n : Nat) (ha : AddP cfg n) (hl : LoopP cfg n) : LoopP cfg (n + 1) := by
  intro sep b items line lines stop r h hline hlines
  cases items with
  | nil => simp [toStrLoop] at h; subst h; exact ⟨hline, hlines⟩
  | cons it rest =>
    simp only [toStrLoop, bind, Except.bind] at h
    split at h
    · cases h
    · split at h
      · exact hl _ _ _ _ _ _ _ h hline hlines
      · split at h
        · cases h
        · next v hv =>
          have := ha _ _ _ hv hline
          split at h
          · simp [pure, Except.pure] at h; subst h; exact hline
          · refine hl _ _ _ _ _ _ _ h this.1 ?_
            intro l hl'
            rcases List.mem_append.1 hl' with h' | h'
            · exact hlines l h'
            · exact this.2 l h'

/-- in `stop_on_continuation` mode the loop never accumulates wrapped lines: it returns at the first one -/
theorem loop_stop_lines (cfg : Cfg) : ∀ (n : Nat) (sep : Str) (b : Bool) (items : List Item) (line : Str)
    (lines ls : List Str) (l : Str),
    toStrLoop n cfg sep b items line lines true = .ok (.done ls l) → ls = lines := by
  intro n
  induction n with
  | zero => intro sep b items line lines ls l h; simp [toStrLoop] at h
  | succ n ih =>
    intro sep b items line lines ls l h
    cases items with
    | nil => simp [toStrLoop] at h; exact h.1.symm
    | cons it rest =>
      simp only [toStrLoop, bind, Except.bind] at h
      split at h
      · cases h
      · split at h
        · exact ih _ _ _ _ _ _ _ h
        · split at h
          · cases h
          · next v hv =>
            split at h
            · simp [pure, Except.pure] at h
            · next hc =>
              have := ih _ _ _ _ _ _ _ h
              simp only [Bool.true_and, Bool.not_eq_true', Bool.not_eq_false] at hc
              have he : v.snd = [] := by simpa using hc
              simpa [he] using this

theorem split_step (cfg : Cfg) (n : Nat) (ha : AddP cfg n) (hl : LoopP cfg n) : SplitP cfg (n + 1) := by
  intro line item fits r h hline
  cases item with
  | str t => simp [trySplit] at h
  | jsl items sep b =>
    simp only [trySplit, bind, Except.bind] at h
    split at h
    · split at h
      · cases h
      · next lr hlr =>
        have hlg := hl _ _ _ _ _ _ _ hlr hline (by simp)
        split at h
        · next line_ newItem =>
          split at h
          · split at h
            · split at h
              · cases h
              · next v hv =>
                simp [pure, Except.pure] at h; subst h
                have := ha _ _ _ hv (goodCur_c1 cfg)
                refine ⟨this.1, ?_⟩
                intro l hl'
                simp at hl'
                rcases hl' with h' | h'
                · exact ⟨line_, h', hlg⟩
                · exact this.2 l h'
            · simp [pure, Except.pure] at h
          · simp [pure, Except.pure] at h
        · next ls l =>
          simp [pure, Except.pure] at h; subst h
          have hnil : ls = [] := loop_stop_lines cfg n _ _ _ _ _ _ _ hlr
          subst hnil
          refine ⟨by simpa [LoopGood] using hlg.1, by simp⟩
    · simp [pure, Except.pure] at h

theorem add_step (cfg : Cfg) (n : Nat) (hs : SplitP cfg n) : AddP cfg (n + 1) := by
  intro line item r h hline
  simp only [addItem, bind, Except.bind] at h
  split at h
  · cases h
  · next s _ =>
    split at h
    · next hfit =>
      simp [pure, Except.pure] at h; subst h
      exact ⟨Or.inl ((tooLong_false_iff _ _).1 (by simpa using hfit)), by simp⟩
    · split at h
      · cases h
      · next sp hsp =>
        split at h
        · next r' =>
          simp [pure, Except.pure] at h; subst h
          exact hs _ _ _ _ hsp hline
        · split at h
          · next hfit =>
            simp [pure, Except.pure] at h; subst h
            refine ⟨Or.inl ((tooLong_false_iff _ _).1 (by simpa using hfit)), ?_⟩
            intro l hl'; simp at hl'; exact ⟨line, hl', hline⟩
          · simp [pure, Except.pure] at h; subst h
            exact chunkPath_good cfg line _ hline (fun c hc => ⟨flatItem item, hc⟩)

theorem width_inv (cfg : Cfg) : ∀ n, AddP cfg n ∧ SplitP cfg n ∧ LoopP cfg n := by
  intro n
  induction n with
  | zero =>
    refine ⟨?_, ?_, ?_⟩
    · intro line item r h; simp [addItem] at h
    · intro line item fits r h; simp [trySplit] at h
    · intro sep b items line lines stop r h; simp [toStrLoop] at h
  | succ n ih => exact ⟨add_step cfg n ih.2.1, split_step cfg n ih.1 ih.2.2, loop_step cfg n ih.1 ih.2.2⟩

end LokiModel.C04
