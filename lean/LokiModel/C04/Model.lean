/-!
# C04 — `Wrap`: executable model of `loki.tools.strings.JoinableStringList` and `Stringifier.format_line`

Mirrors `loki/tools/strings.py` (class `JoinableStringList`) and `loki/backend/pprint.py`
(`Stringifier.join_items`, `Stringifier.format_line`) line by line, on `List Char`.

* `Item` — a string or a nested `JoinableStringList` (items, `sep`, `separable`).  All lists of one tree share
  `width` and `cont` (that is how `Stringifier.join_items` builds them); this is the `Cfg`.
* `mkCfg` — the constructor's treatment of `cont` (split after the newline, pad to two parts, strip blanks when
  both parts together reach the width, the two assertions).
* `chunks` — the chunker of `_add_item_to_line`: `_pattern_quoted_string = (?:'(?:[^'\n]|'')*')|(?:"(?:[^"\n]|"")*")` driven by
  `finditer`, and `_pattern_chunk_separator = (\s|\)(?!%)|\n)` driven by `split`, as explicit character scanners.
* `addItem` (with `trySplit`, `flatItem`) / `toStrLoop` / `strItem` — `_add_item_to_line`, `_to_str`, `__str__`, mutually recursive on a fuel
  argument (every call consumes one unit; the driver supplies far more than any input needs).
* `addStr`, `raddStr`, `cat` — `__add__` / `__radd__`.
* `formatLine` — `Stringifier.format_line`.

Python exceptions are results: `Err.assertion` (constructor asserts); `Err.attribute` is no longer produced (the code now
returns when `new_item is None`).
Characters: ASCII (`\s` and `str.rstrip` are modelled for the ASCII whitespace characters).
-/
namespace LokiModel.C04

abbrev Str := List Char

inductive Err where
  | assertion   -- AssertionError raised by `JoinableStringList.__init__`
  | attribute   -- AttributeError: `new_item` is `None` in `_add_item_to_line`
  | fuel        -- the model ran out of fuel (never with the driver's fuel)
deriving Repr, DecidableEq

/-- items of a `JoinableStringList`: strings or nested lists -/
inductive Item where
  | str (s : Str)
  | jsl (items : List Item) (sep : Str) (separable : Bool)
deriving Repr

/-- `width` and the two parts of `cont` after `__init__` -/
structure Cfg where
  W : Nat
  c0 : Str
  c1 : Str
deriving Repr, DecidableEq

/-! ## constructor: treatment of `cont` -/

/-- `str.splitlines(keepends=True)` for `'\n'` line ends -/
def splitLinesKeep : Str → Str → List Str
  | acc, [] => if acc = [] then [] else [acc.reverse]
  | acc, c :: cs => if c = '\n' then (c :: acc).reverse :: splitLinesKeep [] cs else splitLinesKeep (c :: acc) cs

/-- `str.strip(' ')` -/
def stripBlanks (s : Str) : Str :=
  ((s.dropWhile (· = ' ')).reverse.dropWhile (· = ' ')).reverse

/-- `JoinableStringList.__init__(…, width, cont)` with `cont` a string -/
def mkCfg (W : Nat) (cont : Str) : Except Err Cfg :=
  let parts := splitLinesKeep [] cont
  let parts := if parts.length = 1 then parts ++ [[]] else parts
  match parts with
  | [a, b] =>
    let (a, b) := if (a ++ b).length ≥ W then (stripBlanks a, stripBlanks b) else (a, b)
    if W > a.length ∧ W > b.length then .ok ⟨W, a, b⟩ else .error .assertion
  | _ => .error .assertion

/-! ## the chunker -/

/-- ASCII characters matched by `\s` (and stripped by `str.rstrip()`) -/
def isSpace (c : Char) : Bool :=
  c = ' ' || c = '\t' || c = '\n' || c = '\r' || c = '\x0b' || c = '\x0c' ||
  c = '\x1c' || c = '\x1d' || c = '\x1e' || c = '\x1f'

/-- one match of `(\s|\)(?!%)|\n)` at `c` followed by `cs` -/
def isSepAt (c : Char) (cs : Str) : Bool :=
  isSpace c || (c = ')' && cs.head? ≠ some '%')

/-- `_pattern_chunk_separator.split(s)`: pieces and (captured) separators alternate -/
def splitSep : Str → Str → List Str
  | acc, [] => [acc.reverse]
  | acc, c :: cs => if isSepAt c cs then acc.reverse :: [c] :: splitSep [] cs else splitSep (c :: acc) cs

def isQuote (c : Char) : Bool := c = '\'' || c = '"'

/-- one alternative of `_pattern_quoted_string` after the opening quote `q`: `(?:[^q\n]|qq)*q`, greedy with
backtracking.  Returns the rest of the match (including the closing quote) and the text after it.  A doubled quote
stays inside the match; only when the continuation after a doubled quote cannot be closed (end of text or newline
first) does the engine back up and close the match at the first quote of that pair. -/
def matchLit (q : Char) : Str → Option (Str × Str)
  | [] => none
  | [c] => if c = q then some ([c], []) else none
  | c :: c2 :: cs2 =>
      if c = q then
        if c2 = q then
          match matchLit q cs2 with
          | some (b, r) => some (c :: c2 :: b, r)
          | none => some ([c], c2 :: cs2)
        else some ([c], c2 :: cs2)
      else if c = '\n' then none
      else match matchLit q (c2 :: cs2) with
        | some (b, r) => some (c :: b, r)
        | none => none

def flushPlain (acc : Str) : List Str := if acc = [] then [] else splitSep [] acc.reverse

/-- the loop over `_pattern_quoted_string.finditer(item_str)`; the counter is the number of characters of the current
match still to be read (`0` = outside a match, plain text collected in `acc`, reversed) -/
def chunksAux : Nat → Str → Str → List Str
  | 0, acc, [] => flushPlain acc
  | _ + 1, acc, [] => [acc.reverse]
  | 0, acc, c :: cs =>
      if isQuote c then
        match matchLit c cs with
        | some (b, _) => flushPlain acc ++ chunksAux b.length [c] cs
        | none => chunksAux 0 (c :: acc) cs
      else chunksAux 0 (c :: acc) cs
  | n + 1, acc, c :: cs =>
      if n = 0 then (c :: acc).reverse :: chunksAux 0 [] cs
      else chunksAux n (c :: acc) cs

/-- `chunk_list` of `_add_item_to_line` for `item_str = s` -/
def chunks (s : Str) : List Str := chunksAux 0 [] s

/-! ## placing chunks (the last part of `_add_item_to_line`) -/

def tooLong (cfg : Cfg) (l : Str) : Bool := l.length + cfg.c0.length > cfg.W

/-- "First, add as much as possible to the previous line": returns the line and the chunks from `next_chunk` on
(`none` if the loop never breaks: then `next_chunk` keeps its initial value 0) -/
def takeFit (cfg : Cfg) : Str → List Str → Str × Option (List Str)
  | line, [] => (line, none)
  | line, c :: cs => if tooLong cfg (line ++ c) then (line, some (c :: cs)) else takeFit cfg (line ++ c) cs

/-- "Now put the rest on new lines" -/
def place (cfg : Cfg) : Str → List Str → List Str → Str × List Str
  | line, lines, [] => (line, lines)
  | line, lines, c :: cs =>
      if tooLong cfg (line ++ c) && line != cfg.c1 then place cfg (cfg.c1 ++ c) (lines ++ [line ++ cfg.c0]) cs
      else place cfg (line ++ c) lines cs

def chunkPath (cfg : Cfg) (line : Str) (cl : List Str) : Str × List Str :=
  let (line, rest) := takeFit cfg line cl
  let rest := rest.getD cl
  if line != cfg.c1 then place cfg cfg.c1 [line ++ cfg.c0] rest
  else place cfg line [] rest

/-! ## `__add__` / `__radd__` -/

mutual
/-- `item + other` for a string `other` -/
def addStr : Item → Str → Item
  | .str s, t => .str (s ++ t)
  | .jsl items sep b, t => .jsl (addStrLast items t) sep b
/-- `obj.items[-1] += other` (or `obj.items = [other]`) -/
def addStrLast : List Item → Str → List Item
  | [], t => [.str t]
  | [x], t => [addStr x t]
  | x :: y :: r, t => x :: addStrLast (y :: r) t
end

/-- `other + item` for a string `other` (`obj.items[0] = other + obj.items[0]`) -/
def raddStr : Str → Item → Item
  | t, .str s => .str (t ++ s)
  | t, .jsl [] sep b => .jsl [.str t] sep b
  | t, .jsl (x :: r) sep b => .jsl (raddStr t x :: r) sep b

/-- `a + b` for two lists -/
def cat (a b : Item) : Item := .jsl [a, b] [] false

def joinSep (sep : Str) : List Str → Str
  | [] => []
  | [x] => x
  | x :: y :: r => x ++ sep ++ joinSep sep (y :: r)

mutual
/-- `item_str` of `_add_item_to_line`: the string itself, or `item._flat()` for a list -/
def flatItem : Item → Str
  | .str s => s
  | .jsl items sep _ => flatItems sep items
/-- `JoinableStringList._flat`: all items joined without wrapping; items that print as `''` are skipped together
with their separator, the separator is left out after the last entry (by position), as in `_to_str` -/
def flatItems (sep : Str) : List Item → Str
  | [] => []
  | x :: rest =>
      let p := flatItem x
      if p.isEmpty then flatItems sep rest
      else p ++ (if rest.isEmpty then [] else sep) ++ flatItems sep rest
end

/-- result of the item loop of `_to_str` -/
inductive LoopRes where
  | done (lines : List Str) (line : Str)            -- `''.join([*lines, line]), None`
  | stopped (oldLine : Str) (rest : Item)           -- `old_line, type(self)(self.items[idx:], …)`
deriving Repr

def LoopRes.text : LoopRes → Str
  | .done lines line => lines.flatten ++ line
  | .stopped l _ => l

/-! ## `_add_item_to_line`, `_to_str`, `__str__` -/

mutual
/-- `str(item)` -/
def strItem : Nat → Cfg → Item → Except Err Str
  | 0, _, _ => .error .fuel
  | _ + 1, _, .str s => .ok s
  | n + 1, cfg, .jsl items sep b =>
      if items.isEmpty then .ok []
      else (toStrLoop n cfg sep b items [] [] false).map LoopRes.text

/-- `str(i) for i in item.items` -/
def strItems : Nat → Cfg → List Item → Except Err (List Str)
  | 0, _, _ => .error .fuel
  | _ + 1, _, [] => .ok []
  | n + 1, cfg, x :: xs => do
      let s ← strItem n cfg x
      let ss ← strItems n cfg xs
      pure (s :: ss)

/-- the `for idx, item in enumerate(self.items)` loop of `_to_str`, entered with the remaining items -/
def toStrLoop : Nat → Cfg → Str → Bool → List Item → Str → List Str → Bool → Except Err LoopRes
  | 0, _, _, _, _, _, _, _ => .error .fuel
  | _ + 1, _, _, _, [], line, lines, _ => .ok (.done lines line)
  | n + 1, cfg, sep, b, it :: rest, line, lines, stop => do
      let s ← strItem n cfg it
      if s.isEmpty then toStrLoop n cfg sep b rest line lines stop
      else
        let sep' := if rest.isEmpty then [] else sep
        let (line', ls) ← addItem n cfg line (addStr it sep')
        if stop && !ls.isEmpty then pure (.stopped line (.jsl (it :: rest) sep b))
        else toStrLoop n cfg sep b rest line' (lines ++ ls) stop

/-- the part of `_add_item_to_line` that tries to split up a list item ("First, let's see if we have a
JoinableStringList object that we can split up"); `none` = fall through to the next case -/
def trySplit : Nat → Cfg → Str → Item → Bool → Except Err (Option (Str × List Str))
  | 0, _, _, _, _ => .error .fuel
  | _ + 1, _, _, .str _, _ => .ok none
  | n + 1, cfg, line, .jsl items sep b, fits =>
      if (b || !fits) && items.length > 1 then do
        let r ← toStrLoop n cfg sep b items line [] true
        match r with
        | .stopped line_ newItem =>
            match newItem with
            | .jsl items' _ _ =>
                if items'.length < items.length then do
                  let (nl, ls) ← addItem n cfg cfg.c1 newItem
                  pure (some (nl, (line_ ++ cfg.c0) :: ls))
                else pure none
            | .str _ => pure none
        | .done lines line_ => pure (some (lines.flatten ++ line_, []))   -- `new_item is None`: `return line_, []`
      else pure none

/-- `_add_item_to_line(line, item)`: returns the new line and the lines wrapped on the way -/
def addItem : Nat → Cfg → Str → Item → Except Err (Str × List Str)
  | 0, _, _, _ => .error .fuel
  | n + 1, cfg, line, item => do
      let s ← strItem n cfg item
      let newLine := line ++ s
      if !tooLong cfg newLine then pure (newLine, [])
      else
        let itemLine := cfg.c1 ++ s
        let fits := !tooLong cfg itemLine
        let split ← trySplit n cfg line item fits
        match split with
        | some r => pure r
        | none =>
          if fits then pure (itemLine, [line ++ cfg.c0])
          else pure (chunkPath cfg line (chunks (flatItem item)))
end

/-- fuel used by the driver and by `render`: more than any call tree needs -/
def bigFuel : Nat := 1000000

/-- `str(JoinableStringList(…))` for an already constructed tree (`_to_str()[0]`) -/
def render (fuel : Nat) (cfg : Cfg) (item : Item) : Except Err Str := strItem fuel cfg item

/-- the wrapped lines (each ending with `cont[0]`) and the last line of `str(item)` for a list -/
def segments : Nat → Cfg → Item → Except Err (List Str × Str)
  | 0, _, _ => .error .fuel
  | _ + 1, _, .str s => .ok ([], s)
  | n + 1, cfg, .jsl items sep b =>
      if items.isEmpty then .ok ([], [])
      else match toStrLoop n cfg sep b items [] [] false with
        | .ok (.done lines line) => .ok (lines, line)
        | .ok (.stopped l _) => .ok ([], l)
        | .error e => .error e

/-! ## `Stringifier.format_line` -/

/-- `str.rstrip()` (ASCII whitespace) -/
def rstrip (s : Str) : Str := (s.reverse.dropWhile isSpace).reverse

/-- `format_line(*items, comment, no_wrap, no_indent, trim_spaces)`; `indent` is `self.indent`,
`contOf indent` is `self.line_cont(self.indent)` and `W` the style's line width -/
def formatLine (fuel W : Nat) (contOf : Str → Str) (indent : Str) (items : List Item) (comment : Option Str)
    (noWrap noIndent trim : Bool) : Except Err Str := do
  let items := if noIndent then items else .str indent :: items
  let finish (line : Str) : Str :=
    match comment with
    | some c => if c.isEmpty then (if trim then rstrip line else line) else line ++ c
    | none => if trim then rstrip line else line
  if noWrap then
    -- `''.join(str(item) for item in items)`; nested lists were built by `join_items` (same `cont`, same width)
    let nested := items.any (fun | .jsl .. => true | .str _ => false)
    let cfg ← (if nested then mkCfg W (contOf indent) else pure ⟨W, [], []⟩)
    let ss ← strItems fuel cfg items
    pure (finish ss.flatten)
  else do
    let cfg ← mkCfg W (contOf indent)
    let line ← render fuel cfg (.jsl items [] true)
    pure (finish line)

end LokiModel.C04
