import LokiModel.C16.Model
/-! # C16 — helper lemmas for the pragma attach/detach theorems -/
namespace LokiModel.C16

variable (T : List String) (post : Bool)

theorem detachList_append (a b : List Item) :
    detachList T post (a ++ b) = detachList T post a ++ detachList T post b := by
  induction a with
  | nil => simp [detachList]
  | cons x xs ih => simp [detachList, ih]

theorem detachList_pragmas (ps : List Pragma) :
    detachList T post (ps.map .pragma) = ps.map .pragma := by
  induction ps with
  | nil => simp [detachList]
  | cons p ps ih => simp [detachList, detachItem, ih]

theorem detachList_single (i : Item) : detachList T post [i] = detachItem T post i := by
  simp [detachList]

theorem detachList_toList (o : Option Item) :
    detachList T post o.toList = (o.map (detachItem T post)).getD [] := by
  cases o <;> simp [detachList]

theorem qual_attachItem (i : Item) : (attachItem T post i).qual T = i.qual T := by
  cases i <;> simp [attachItem, Item.qual]

theorem lastOf_attachItem (i : Item) : lastOf T (attachItem T post i) = lastOf T i := by
  cases i <;> simp [attachItem, lastOf]

theorem lastOf_q (i : Item) : (lastOf T i).q = i.qual T := by
  cases i <;> simp [lastOf, Item.qual]

/-- putting `pend` in front of the `pragma` slot of a qualifying node is undone by the detacher, whatever the slot held -/
theorem detachItem_prependPre (i : Item) (pend : List Pragma) (hq : i.qual T = true) (hne : pend.isEmpty = false) :
    detachItem T post (i.prependPre pend) = pend.map .pragma ++ detachItem T post i := by
  cases i with
  | pragma p => simp [Item.qual] at hq
  | region => simp [Item.qual] at hq
  | node id k hp df pre po body =>
    have hq' : k ∈ T := by simpa [Item.qual] using hq
    have hne' : pend ≠ [] := by simpa using hne
    cases pre with
    | nil => simp [Item.prependPre, detachItem, hq', hne']
    | cons p ps => simp [Item.prependPre, detachItem, hq', hne']

/-- appending `pend` to the `pragma_post` slot of a qualifying node that has the attribute is undone by the detacher -/
theorem detachItem_appendPost (l : Item) (pend : List Pragma) (hq : (lastOf T l).q = true) (hhp : (lastOf T l).hp = true)
    (hne : pend.isEmpty = false) :
    detachItem T true (l.appendPost pend) = detachItem T true l ++ pend.map .pragma := by
  cases l with
  | pragma p => simp [lastOf] at hq
  | region => simp [lastOf] at hq
  | node id k hp df pre po body =>
    simp only [lastOf] at hq hhp
    subst hhp
    have hq' : k ∈ T := by simpa using hq
    have hne' : pend ≠ [] := by simpa using hne
    cases po with
    | nil => simp [Item.appendPost, detachItem, hq', hne']
    | cons p ps => simp [Item.appendPost, detachItem, hq', hne']

/-- the statement proved for `attachGo` (no hypothesis since the repair of `visit_tuple`) -/
def GoInv (xs : List Item) : Prop :=
  ∀ (pend : List Pragma) (done : List Item) (last : Option Item),
    detachList T post (attachGo T post xs pend done last) =
      detachList T post done ++ detachList T post last.toList ++ pend.map .pragma ++ detachList T post xs

theorem goInv_nil : GoInv T post [] := by
  intro pend done last
  cases last with
  | none => simp [attachGo, detachList, detachList_append, detachList_pragmas]
  | some l =>
    simp only [attachGo]
    by_cases hc : (post && !pend.isEmpty && l.qual T && (lastOf T l).hp) = true
    · simp only [hc, if_true]
      simp only [Bool.and_eq_true, Bool.not_eq_true'] at hc
      obtain ⟨⟨⟨hp, hne⟩, hq⟩, hhp⟩ := hc
      subst hp
      simp [detachList_append, detachList,
        detachItem_appendPost T l pend (by rw [lastOf_q]; exact hq) hhp hne]
    · simp only [hc]
      simp [detachList_append, detachList, detachList_pragmas]

theorem goInv_pragma (p : Pragma) (xs : List Item) (ih : GoInv T post xs) : GoInv T post (.pragma p :: xs) := by
  intro pend done last
  have h := ih (pend ++ [p]) done last
  simp [attachGo, h, detachList, detachItem]

theorem goInv_cons (x : Item) (xs : List Item) (hx : ∀ p, x = .pragma p → False)
    (ex : detachItem T post (attachItem T post x) = detachItem T post x)
    (ih : GoInv T post xs) : GoInv T post (x :: xs) := by
  intro pend done last
  rw [attachGo.eq_4 _ _ _ _ _ _ _ hx]
  by_cases hpe : pend.isEmpty = true
  · have : pend = [] := by simpa using hpe
    subst this
    simp only [List.isEmpty_nil, if_true]
    rw [ih]
    simp [detachList_append, detachList, ex]
  · have hpe' : pend.isEmpty = false := by simpa using hpe
    simp only [hpe', if_false, Bool.false_eq_true]
    rw [qual_attachItem]
    by_cases hq : x.qual T = true
    · simp only [hq, if_true]
      rw [ih]
      have := detachItem_prependPre T post (attachItem T post x) pend (by rw [qual_attachItem]; exact hq) hpe'
      simp [detachList_append, detachList, this, ex]
    · simp only [hq, if_false, Bool.false_eq_true]
      by_cases hc : (post && (lastInfo T last).q && (lastInfo T last).hp) = true
      · simp only [hc, if_true]
        simp only [Bool.and_eq_true] at hc
        obtain ⟨⟨hp, hlq⟩, hlhp⟩ := hc
        subst hp
        cases last with
        | none => simp [lastInfo, Last.none] at hlq
        | some l =>
          simp only [Option.map_some, Option.toList_some]
          rw [ih]
          simp [detachList_append, detachList, detachItem_appendPost T l pend hlq hlhp hpe', ex]
      · simp only [hc, if_false, Bool.false_eq_true]
        rw [ih]
        simp [detachList_append, detachList, detachList_pragmas, ex]

mutual
theorem attachItem_D : ∀ (i : Item), detachItem T post (attachItem T post i) = detachItem T post i
  | .pragma p => by simp [attachItem]
  | .node id k hp df pre po body => by
      have h := goInv_all body [] [] none
      simp [detachList] at h
      simp [attachItem, detachItem, h]
  | .region df s e body => by
      have h := goInv_all body [] [] none
      simp [detachList] at h
      simp [attachItem, detachItem, h]
theorem goInv_all : ∀ (xs : List Item), GoInv T post xs
  | [] => goInv_nil T post
  | .pragma p :: xs => goInv_pragma T post p xs (goInv_all xs)
  | .node id k hp df pre po body :: xs =>
      goInv_cons T post _ xs (by intro p h; cases h) (attachItem_D (.node id k hp df pre po body)) (goInv_all xs)
  | .region df s e body :: xs =>
      goInv_cons T post _ xs (by intro p h; cases h) (attachItem_D (.region df s e body)) (goInv_all xs)
end

/-- tuple level: detaching after attaching gives what detaching the input gives -/
theorem detach_attachList (xs : List Item) :
    detachList T post (attachList T post xs) = detachList T post xs := by
  have h := goInv_all T post xs [] [] none
  simpa [attachList, detachList] using h

mutual
theorem detachItem_clean : ∀ (i : Item), cleanItem i = true → detachItem T post i = [i]
  | .pragma p, _ => by simp [detachItem]
  | .node id k hp df pre po body, h => by
      simp only [cleanItem, Bool.and_eq_true, List.isEmpty_iff] at h
      obtain ⟨⟨h1, h2⟩, h3⟩ := h
      subst h1; subst h2
      simp [detachItem, detachList_clean body h3]
  | .region df s e body, h => by simp [cleanItem] at h
theorem detachList_clean : ∀ (xs : List Item), cleanList xs = true → detachList T post xs = xs
  | [], _ => by simp [detachList]
  | x :: xs, h => by
      simp only [cleanList, Bool.and_eq_true] at h
      simp [detachList, detachItem_clean x h.1, detachList_clean xs h.2]
end

/-! ## identities of non-pragma nodes -/

theorem nodeIdsList_append (a b : List Item) : nodeIdsList (a ++ b) = nodeIdsList a ++ nodeIdsList b := by
  induction a with
  | nil => simp [nodeIdsList]
  | cons x xs ih => simp [nodeIdsList, ih]

theorem nodeIdsList_pragmas (ps : List Pragma) : nodeIdsList (ps.map .pragma) = [] := by
  induction ps with
  | nil => simp [nodeIdsList]
  | cons p ps ih => simp [nodeIdsList, nodeIdsItem, ih]

theorem nodeIds_prependPre (ps : List Pragma) (i : Item) : nodeIdsItem (i.prependPre ps) = nodeIdsItem i := by
  cases i <;> simp [Item.prependPre, nodeIdsItem]

theorem nodeIds_appendPost (ps : List Pragma) (i : Item) : nodeIdsItem (i.appendPost ps) = nodeIdsItem i := by
  cases i <;> simp [Item.appendPost, nodeIdsItem]

theorem nodeIdsList_toList_map_appendPost (ps : List Pragma) (o : Option Item) :
    nodeIdsList (o.map (Item.appendPost ps)).toList = nodeIdsList o.toList := by
  cases o <;> simp [nodeIdsList, nodeIds_appendPost]


def IdInv (xs : List Item) : Prop :=
  ∀ (pend : List Pragma) (done : List Item) (last : Option Item),
    nodeIdsList (attachGo T post xs pend done last) = nodeIdsList done ++ nodeIdsList last.toList ++ nodeIdsList xs

theorem idInv_cons (x : Item) (xs : List Item) (hx : ∀ p, x = .pragma p → False)
    (ihx : nodeIdsItem (attachItem T post x) = nodeIdsItem x) (ih : IdInv T post xs) : IdInv T post (x :: xs) := by
  intro pend done last
  rw [attachGo.eq_4 _ _ _ _ _ _ _ hx]
  split
  · rw [ih]; simp [nodeIdsList_append, nodeIdsList, ihx]
  · split
    · rw [ih]; simp [nodeIdsList_append, nodeIdsList, ihx, nodeIds_prependPre]
    · split
      · rw [ih]; simp [nodeIdsList_append, nodeIdsList, ihx, nodeIdsList_toList_map_appendPost]
      · rw [ih]; simp [nodeIdsList_append, nodeIdsList, ihx, nodeIdsList_pragmas]

mutual
theorem nodeIds_attachItem : ∀ (i : Item), nodeIdsItem (attachItem T post i) = nodeIdsItem i
  | .pragma p => by simp [attachItem]
  | .node id k hp df pre po body => by
      have := idInv_all body [] [] none
      simp [nodeIdsList] at this
      simp [attachItem, nodeIdsItem, this]
  | .region df s e body => by
      have := idInv_all body [] [] none
      simp [nodeIdsList] at this
      simp [attachItem, nodeIdsItem, this]
theorem idInv_all : ∀ (xs : List Item), IdInv T post xs
  | [] => by
      intro pend done last
      cases last with
      | none => simp [attachGo, nodeIdsList_append, nodeIdsList_pragmas, nodeIdsList]
      | some l =>
        simp only [attachGo]
        split <;> simp [nodeIdsList_append, nodeIdsList_pragmas, nodeIdsList, nodeIds_appendPost]
  | .pragma p :: xs => by
      intro pend done last
      simp [attachGo, idInv_all xs _ _ _, nodeIdsList, nodeIdsItem]
  | .node id k hp df pre po body :: xs =>
      idInv_cons T post _ xs (by intro p h; cases h) (nodeIds_attachItem _) (idInv_all xs)
  | .region df s e body :: xs =>
      idInv_cons T post _ xs (by intro p h; cases h) (nodeIds_attachItem _) (idInv_all xs)
end

theorem nodeIds_attachList (xs : List Item) : nodeIdsList (attachList T post xs) = nodeIdsList xs := by
  have := idInv_all T post xs [] [] none
  simpa [attachList, nodeIdsList] using this

mutual
theorem nodeIds_detachItem : ∀ (i : Item), nodeIdsList (detachItem T post i) = nodeIdsItem i
  | .pragma p => by simp [detachItem, nodeIdsList, nodeIdsItem]
  | .node id k hp df pre po body => by
      simp [detachItem, nodeIdsList_append, nodeIdsList, nodeIdsItem, nodeIds_detachList body]
      split <;> split <;> simp [nodeIdsList_pragmas, nodeIdsList]
  | .region df s e body => by simp [detachItem, nodeIdsList, nodeIdsItem, nodeIds_detachList body]
theorem nodeIds_detachList : ∀ (xs : List Item), nodeIdsList (detachList T post xs) = nodeIdsList xs
  | [] => by simp [detachList]
  | x :: xs => by simp [detachList, nodeIdsList_append, nodeIdsList, nodeIds_detachItem x, nodeIds_detachList xs]
end



theorem unregList_append (a b : List Item) : unregList (a ++ b) = unregList a ++ unregList b := by
  induction a with
  | nil => simp [unregList]
  | cons x xs ih => simp [unregList, ih]

/-- list surgery behind one `PragmaRegionAttacher` step -/
theorem split_at_two (o : List Item) (a b : Nat) (x y : Item) (hab : a < b)
    (ha : o[a]? = some x) (hb : o[b]? = some y) :
    o = o.take a ++ [x] ++ (o.drop (a + 1)).take (b - (a + 1)) ++ [y] ++ o.drop (b + 1) := by
  have hal : a < o.length := by
    rcases Nat.lt_or_ge a o.length with h | h
    · exact h
    · rw [List.getElem?_eq_none h] at ha; cases ha
  have hbl : b < o.length := by
    rcases Nat.lt_or_ge b o.length with h | h
    · exact h
    · rw [List.getElem?_eq_none h] at hb; cases hb
  have e1 : o.drop a = x :: o.drop (a + 1) := by
    rw [List.drop_eq_getElem_cons hal]
    congr 1
    rw [List.getElem?_eq_getElem hal] at ha
    exact Option.some.inj ha
  have hd : (o.drop (a + 1)).drop (b - (a + 1)) = o.drop b := by
    rw [List.drop_drop]; congr 1; omega
  have e2 : o.drop b = y :: o.drop (b + 1) := by
    rw [List.drop_eq_getElem_cons hbl]
    congr 1
    rw [List.getElem?_eq_getElem hbl] at hb
    exact Option.some.inj hb
  calc o = o.take a ++ o.drop a := (List.take_append_drop a o).symm
    _ = o.take a ++ (x :: o.drop (a + 1)) := by rw [e1]
    _ = o.take a ++ (x :: ((o.drop (a + 1)).take (b - (a + 1)) ++ (o.drop (a + 1)).drop (b - (a + 1)))) := by
          rw [List.take_append_drop]
    _ = _ := by rw [hd, e2]; simp

theorem isPragmaAt_spec {o : List Item} {a : Nat} {p : Pragma} (h : isPragmaAt o a p = true) :
    o[a]? = some (.pragma p) := by
  unfold isPragmaAt at h
  split at h
  · rename_i q heq; simp at h; rw [heq, h]
  · simp at h

theorem regionStepB_ok (acc : List Item × Bool) (pr : Pragma × Pragma) (h : (regionStepB acc pr).2 = false) :
    acc.2 = false ∧ unregList (regionStepB acc pr).1 = unregList acc.1 := by
  cases h1 : idxOfVal pr.1 acc.1 with
  | none => simp only [regionStepB, h1] at h ⊢; exact ⟨h, trivial⟩
  | some a =>
    cases h2 : idxOfVal pr.2 acc.1 with
    | none => simp only [regionStepB, h1, h2] at h ⊢; exact ⟨h, trivial⟩
    | some b =>
      simp only [regionStepB, h1, h2, Bool.or_eq_false_iff, Bool.not_eq_false', Bool.and_eq_true,
        decide_eq_true_eq] at h ⊢
      obtain ⟨hacc, ⟨hab, hpa⟩, hpb⟩ := h
      refine ⟨hacc, ?_⟩
      have hs := split_at_two acc.1 a b _ _ hab (isPragmaAt_spec hpa) (isPragmaAt_spec hpb)
      conv => rhs; rw [hs]
      simp [unregList_append, unregList, unregItem]

theorem foldl_regionStepB_ok (pairs : List (Pragma × Pragma)) (acc : List Item × Bool)
    (h : (pairs.foldl regionStepB acc).2 = false) :
    acc.2 = false ∧ unregList (pairs.foldl regionStepB acc).1 = unregList acc.1 := by
  induction pairs generalizing acc with
  | nil => exact ⟨h, rfl⟩
  | cons pr prs ih =>
    simp only [List.foldl_cons] at h ⊢
    obtain ⟨h1, h2⟩ := ih _ h
    obtain ⟨h3, h4⟩ := regionStepB_ok acc pr h1
    exact ⟨h3, by rw [h2, h4]⟩

theorem mapBodiesB_ok (g : List Item → List Item × Bool)
    (hg : ∀ body, (g body).2 = false → unregList (g body).1 = unregList body) (xs : List Item)
    (h : (mapBodiesB g xs).2 = false) : unregList (mapBodiesB g xs).1 = unregList xs := by
  induction xs with
  | nil => simp [mapBodiesB]
  | cons x xs ih =>
    cases x with
    | pragma p =>
      simp only [mapBodiesB] at h ⊢
      simp [unregList, unregItem, ih h]
    | node id k hp df pre po body =>
      simp only [mapBodiesB, Bool.or_eq_false_iff] at h ⊢
      simp [unregList, unregItem, ih h.2, hg body h.1]
    | region df s e body =>
      simp only [mapBodiesB, Bool.or_eq_false_iff] at h ⊢
      simp [unregList, unregItem, ih h.2, hg body h.1]

theorem regAttB_ok (f : Nat) (pairs : List (Pragma × Pragma)) :
    ∀ o, (regAttB f pairs o).2 = false → unregList (regAttB f pairs o).1 = unregList o := by
  induction f with
  | zero => intro o _; simp [regAttB]
  | succ f ih =>
    intro o h
    simp only [regAttB, Bool.or_eq_false_iff] at h ⊢
    rw [mapBodiesB_ok _ ih _ h.2]
    exact (foldl_regionStepB_ok pairs (o, false) h.1).2

mutual
theorem unregItem_free : ∀ (i : Item), regionFreeItem i = true → unregItem i = [i]
  | .pragma p, _ => by simp [unregItem]
  | .node id k hp df pre po body, h => by
      simp only [regionFreeItem] at h
      simp [unregItem, unregList_free body h]
  | .region df s e body, h => by simp [regionFreeItem] at h
theorem unregList_free : ∀ (xs : List Item), regionFreeList xs = true → unregList xs = xs
  | [], _ => by simp [unregList]
  | x :: xs, h => by
      simp only [regionFreeList, Bool.and_eq_true] at h
      simp [unregList, unregItem_free x h.1, unregList_free xs h.2]
end

mutual
theorem nodeIds_unregItem : ∀ (i : Item), nodeIdsList (unregItem i) = nodeIdsItem i
  | .pragma p => by simp [unregItem, nodeIdsList, nodeIdsItem]
  | .node id k hp df pre po body => by simp [unregItem, nodeIdsList, nodeIdsItem, nodeIds_unregList body]
  | .region df s e body => by
      simp [unregItem, nodeIdsList_append, nodeIdsList, nodeIdsItem, nodeIds_unregList body]
theorem nodeIds_unregList : ∀ (xs : List Item), nodeIdsList (unregList xs) = nodeIdsList xs
  | [] => by simp [unregList]
  | x :: xs => by simp [unregList, nodeIdsList_append, nodeIdsList, nodeIds_unregItem x, nodeIds_unregList xs]
end


variable (tab : DfTab)

mutual
theorem dfDetItem_free : ∀ (i : Item), dfFreeItem i = true → dfDetItem tab i = i
  | .pragma p, h => by
      simp only [dfFreeItem, Bool.not_eq_true'] at h
      cases p; simp_all [dfDetItem]
  | .node id k hp df pre po body, h => by
      simp only [dfFreeItem, Bool.and_eq_true, Bool.not_eq_true'] at h
      obtain ⟨h1, h2⟩ := h
      subst h1
      simp [dfDetItem, dfDetList_free body h2]
  | .region df s e body, h => by
      simp only [dfFreeItem, Bool.and_eq_true, Bool.not_eq_true'] at h
      obtain ⟨h1, h2⟩ := h
      subst h1
      simp [dfDetItem, dfDetList_free body h2]
theorem dfDetList_free : ∀ (xs : List Item), dfFreeList xs = true → dfDetList tab xs = xs
  | [], _ => by simp [dfDetList]
  | x :: xs, h => by
      simp only [dfFreeList, Bool.and_eq_true] at h
      simp [dfDetList, dfDetItem_free x h.1, dfDetList_free xs h.2]
end

mutual
theorem dfDet_dfAtt_item : ∀ (i : Item), dfStaleItem tab i = false → dfFreeItem i = true →
    dfDetItem tab (dfAttItem tab i) = i
  | .pragma p, _, h => by
      simp only [dfFreeItem, Bool.not_eq_true'] at h
      cases p; simp_all [dfDetItem, dfAttItem]
  | .node id k hp df pre po body, hs, h => by
      simp only [dfFreeItem, Bool.and_eq_true, Bool.not_eq_true'] at h
      obtain ⟨h1, h2⟩ := h
      subst h1
      simp only [dfStaleItem, Bool.or_eq_false_iff] at hs
      obtain ⟨hs1, hs2⟩ := hs
      simp only [dfAttItem, dfDetItem]
      have hdf : (if tab.noClear.contains k = true then
          (if (k == "Branch" || tab.noSet.contains k) = true then false else true) else false) = false := by
        cases hb : (k == "Branch" || tab.noSet.contains k)
        · rw [hb] at hs1
          simp only [Bool.not_false, Bool.true_and] at hs1
          rw [hs1]; rfl
        · simp
      rw [hdf]
      by_cases hd : tab.noDescend.contains k = true
      · simp only [hd, if_true]
        rw [dfDetList_free tab body h2]
      · have hd' : tab.noDescend.contains k = false := by simpa using hd
        rw [hd'] at hs2 ⊢
        simp only [Bool.false_eq_true, if_false] at hs2 ⊢
        rw [dfDet_dfAtt_list body hs2 h2]
  | .region df s e body, hs, h => by
      simp only [dfFreeItem, Bool.and_eq_true, Bool.not_eq_true'] at h
      obtain ⟨h1, h2⟩ := h
      subst h1
      simp only [dfStaleItem] at hs
      simp [dfAttItem, dfDetItem, dfDet_dfAtt_list body hs h2]
theorem dfDet_dfAtt_list : ∀ (xs : List Item), dfStaleList tab xs = false → dfFreeList xs = true →
    dfDetList tab (dfAttList tab xs) = xs
  | [], _, _ => by simp [dfAttList, dfDetList]
  | x :: xs, hs, h => by
      simp only [dfFreeList, Bool.and_eq_true] at h
      simp only [dfStaleList, Bool.or_eq_false_iff] at hs
      simp [dfAttList, dfDetList, dfDet_dfAtt_item x hs.1 h.1, dfDet_dfAtt_list xs hs.2 h.2]
end


section
variable (T : List String)

theorem unregList_pragmas (ps : List Pragma) : unregList (ps.map .pragma) = ps.map .pragma := by
  induction ps with
  | nil => simp [unregList]
  | cons p ps ih => simp [unregList, unregItem, ih]

mutual
/-- detaching twice: the second pass only finds what the first one left (flags `b` then `a`, same node types) -/
theorem detach_detach_item (a b : Bool) : ∀ (i : Item),
    detachList T a (detachItem T b i) = detachItem T (a || b) i
  | .pragma p => by simp [detachItem, detachList]
  | .region df s e body => by simp [detachItem, detachList, detach_detach_list a b body]
  | .node id k hp df pre po body => by
      have ih := detach_detach_list a b body
      by_cases hq : k ∈ T
      · cases pre <;> cases po <;> cases a <;> cases b <;>
          simp [detachItem, detachList, detachList_append, detachList_pragmas, hq, ih]
      · simp [detachItem, detachList, hq, ih]
theorem detach_detach_list (a b : Bool) : ∀ (xs : List Item),
    detachList T a (detachList T b xs) = detachList T (a || b) xs
  | [] => by simp [detachList]
  | x :: xs => by
      simp [detachList, detachList_append, detach_detach_item a b x, detach_detach_list a b xs]
end

mutual
/-- the pragma detacher and the region detacher commute -/
theorem detach_unreg_item (post : Bool) : ∀ (i : Item),
    detachList T post (unregItem i) = unregList (detachItem T post i)
  | .pragma p => by simp [detachItem, detachList, unregItem, unregList]
  | .region df s e body => by
      simp [detachItem, detachList, unregItem, unregList, detachList_append, detach_unreg_list post body]
  | .node id k hp df pre po body => by
      simp only [detachItem, detachList, unregItem, unregList, unregList_append, List.append_nil,
        detach_unreg_list post body]
      split <;> split <;> simp [unregList_pragmas, unregList, unregItem]
theorem detach_unreg_list (post : Bool) : ∀ (xs : List Item),
    detachList T post (unregList xs) = unregList (detachList T post xs)
  | [] => by simp [detachList, unregList]
  | x :: xs => by
      simp [detachList, unregList, detachList_append, unregList_append, detach_unreg_item post x,
        detach_unreg_list post xs]
end

end

end LokiModel.C16
