/-!
# C16 — model of pragma attach/detach, pragma regions and dataflow attach/detach

Mirrors `loki/ir/pragma_utils.py` (`PragmaAttacher.visit_tuple`, `PragmaDetacher.visit_tuple`,
`get_matching_region_pragmas`, `PragmaRegionAttacher/Detacher.visit_tuple`, the three context managers) and the
attach/detach part of `loki/analyse/dataflow_analysis.py` (which private fields are set / cleared on which node).

A body is a `List Item`.  An item is a `Pragma` node, a `PragmaRegion`, or any other IR node (`node`): the latter carries
its object identity `id`, its class name `kind`, whether `hasattr(node, 'pragma_post')` currently holds (`hp`; this is a
class attribute for `Loop`/`WhileLoop`, but `_update(pragma_post=…)` *creates* it on any instance), whether the private
dataflow fields are set (`df`), the two slots `pragma` / `pragma_post` (`[]` = `None` or `()`; both are falsy) and one body.
Nodes with several bodies (`Conditional`, `MultiConditional`, …) are exported as a node whose body is a list of `Branch`
pseudo nodes, one per body tuple: the real visitor runs `visit_tuple` on each body separately, which is what the
model does for the body of each `Branch`.

Core Lean only.
-/
namespace LokiModel.C16

/-- A `Pragma` IR node.  `==` on the real objects is dataclass equality on `(keyword, content, source, label)`:
`src` is a canonical number of the `(source, label)` value (0 = both `None`), so `valEq` is the real `==`.
`id` is the object identity, `df` says whether the three private dataflow fields are set. -/
structure Pragma where
  id : Nat
  keyword : String
  content : String
  src : Nat
  df : Bool
deriving DecidableEq, Repr, Inhabited

/-- Python `p == q` for two `Pragma` nodes -/
def Pragma.valEq (p q : Pragma) : Bool :=
  p.keyword == q.keyword && p.content == q.content && p.src == q.src

inductive Item where
  | pragma (p : Pragma)
  | node (id : Nat) (kind : String) (hp : Bool) (df : Bool) (pre post : List Pragma) (body : List Item)
  | region (df : Bool) (start stop : Pragma) (body : List Item)
deriving Repr, Inhabited

/-- `isinstance(i, self.node_type)`; `T` = class names accepted (the harness expands subclasses).
`Pragma` and `PragmaRegion` are never in `T` (assumption recorded in the property metadata). -/
def Item.qual (T : List String) : Item → Bool
  | .node _ k _ _ _ _ _ => T.contains k
  | _ => false

/-- `i._update(pragma=as_tuple(pragmas) + as_tuple(getattr(i, 'pragma', None)))`: new pragmas go in front of the
ones already attached -/
def Item.prependPre (ps : List Pragma) : Item → Item
  | .node id k hp df pre po b => .node id k hp df (ps ++ pre) po b
  | x => x

/-- `_update(pragma_post=as_tuple(getattr(x, 'pragma_post', None)) + as_tuple(pragmas))`; the attribute exists afterwards -/
def Item.appendPost (ps : List Pragma) : Item → Item
  | .node id k _ df pre po b => .node id k true df pre (po ++ ps) b
  | x => x

/-- what later iterations of `visit_tuple` look at on `updated[-1]` -/
structure Last where
  q : Bool      -- exists and `isinstance(updated[-1], node_type)`
  hp : Bool     -- `hasattr(updated[-1], 'pragma_post')`
  pne : Bool    -- its `pragma_post` slot is non-empty
deriving DecidableEq, Repr

def Last.none : Last := ⟨false, false, false⟩

def lastOf (T : List String) : Item → Last
  | .node _ k hp _ _ po _ => ⟨T.contains k, hp, !po.isEmpty⟩
  | .region .. => ⟨false, true, true⟩
  | .pragma _ => ⟨false, false, false⟩

def lastInfo (T : List String) : Option Item → Last
  | some i => lastOf T i
  | .none => Last.none

/-! ## PragmaAttacher -/

mutual
/-- `PragmaAttacher.visit_Node`: visit the children, update in place -/
def attachItem (T : List String) (post : Bool) : Item → Item
  | .node id k hp df pre po body => .node id k hp df pre po (attachGo T post body [] [] .none)
  | .region df s e body => .region df s e (attachGo T post body [] [] .none)
  | .pragma p => .pragma p
/-- the loop of `PragmaAttacher.visit_tuple`; `updated = done ++ last.toList`, `pend = pragmas` -/
def attachGo (T : List String) (post : Bool) : List Item → List Pragma → List Item → Option Item → List Item
  | [], pend, done, last =>
      match last with
      | some l =>
          if post && !pend.isEmpty && l.qual T && (lastOf T l).hp then done ++ [l.appendPost pend]
          else done ++ [l] ++ pend.map .pragma
      | .none => done ++ pend.map .pragma
  | .pragma p :: xs, pend, done, last => attachGo T post xs (pend ++ [p]) done last
  | x :: xs, pend, done, last =>
      let i := attachItem T post x
      if pend.isEmpty then attachGo T post xs [] (done ++ last.toList) (some i)
      else if i.qual T then attachGo T post xs [] (done ++ last.toList) (some (i.prependPre pend))
      else if post && (lastInfo T last).q && (lastInfo T last).hp then
        attachGo T post xs [] (done ++ (last.map (Item.appendPost pend)).toList) (some i)
      else attachGo T post xs [] (done ++ last.toList ++ pend.map .pragma) (some i)
end

/-- `PragmaAttacher.visit_tuple` -/
def attachList (T : List String) (post : Bool) (xs : List Item) : List Item := attachGo T post xs [] [] .none

/-! ## PragmaDetacher -/

mutual
/-- one iteration of `PragmaDetacher.visit_tuple`: what the element contributes to `updated` -/
def detachItem (T : List String) (post : Bool) : Item → List Item
  | .node id k hp df pre po body =>
      let dpre := T.contains k && !pre.isEmpty
      let dpost := post && T.contains k && !po.isEmpty
      (if dpre then pre.map .pragma else []) ++
        [.node id k hp df (if dpre then [] else pre) (if dpost then [] else po) (detachList T post body)] ++
        (if dpost then po.map .pragma else [])
  | .region df s e body => [.region df s e (detachList T post body)]
  | .pragma p => [.pragma p]
def detachList (T : List String) (post : Bool) : List Item → List Item
  | [] => []
  | x :: xs => detachItem T post x ++ detachList T post xs
end

/-- `PragmaDetacher.visit_Node` applied to a root node (e.g. the `Section` passed to `detach_pragmas`) -/
def detachRoot (T : List String) (post : Bool) : Item → Item
  | .node id k hp df pre po body => .node id k hp df pre po (detachList T post body)
  | .region df s e body => .region df s e (detachList T post body)
  | .pragma p => .pragma p

/-! ## identities -/

mutual
/-- identities of all non-pragma nodes, pre-order (regions are transient objects and have none) -/
def nodeIdsItem : Item → List Nat
  | .node id _ _ _ _ _ body => id :: nodeIdsList body
  | .region _ _ _ body => nodeIdsList body
  | .pragma _ => []
def nodeIdsList : List Item → List Nat
  | [] => []
  | x :: xs => nodeIdsItem x ++ nodeIdsList xs
end

mutual
/-- all slots empty, no regions: the state the frontends produce -/
def cleanItem : Item → Bool
  | .node _ _ _ _ pre po body => pre.isEmpty && po.isEmpty && cleanList body
  | .region .. => false
  | .pragma _ => true
def cleanList : List Item → Bool
  | [] => true
  | x :: xs => cleanItem x && cleanList xs
end


/-! ## pragma regions: `get_matching_region_pragmas` -/

/-- `content.lower().split(' ')` (ASCII) -/
def toks (s : String) : List String := s.toLower.splitOn " "

/-- `_matches_starting_pragma(start, p)` (with the bounds checks: a missing token means "no match") -/
def matchesStart (start p : Pragma) : Bool :=
  let stok := toks start.content
  let ptok := toks p.content
  if !ptok.contains "end" then false
  else if start.keyword.toLower != p.keyword.toLower then false
  else
    let idx := ptok.idxOf "end"
    match ptok[idx+1]?, stok[idx]? with
    | some a, some b => a == b
    | _, _ => false

/-- the loop of `get_matching_region_pragmas`; `stack` has its top first -/
def matchGo : List Pragma → List Pragma → List (Pragma × Pragma) → List (Pragma × Pragma)
  | [], _, acc => acc
  | p :: rest, stack, acc =>
      if !(toks p.content).contains "end" then
        if (p :: rest).any (matchesStart p) then matchGo rest (p :: stack) acc else matchGo rest stack acc
      else
        match stack with
        | [] => matchGo rest [] acc
        | s :: st => if matchesStart s p then matchGo rest st (acc ++ [(s, p)]) else matchGo rest stack acc

def getMatching (ps : List Pragma) : List (Pragma × Pragma) := matchGo ps [] []

mutual
/-- `FindNodes(Pragma).visit(ir)`: pre-order, attached pragmas (slots) are not children -/
def pragmasItem : Item → List Pragma
  | .pragma p => [p]
  | .node _ _ _ _ _ _ body => pragmasList body
  | .region _ _ _ body => pragmasList body
def pragmasList : List Item → List Pragma
  | [] => []
  | x :: xs => pragmasItem x ++ pragmasList xs
end

/-! ## `PragmaRegionAttacher` -/

/-- `o.index(p)` / `p in o`: first element that is `==` to the pragma -/
def idxOfVal (p : Pragma) : List Item → Option Nat
  | [] => none
  | .pragma q :: xs => if q.valEq p then some 0 else (idxOfVal p xs).map (· + 1)
  | _ :: xs => (idxOfVal p xs).map (· + 1)

def isPragmaAt (o : List Item) (a : Nat) (p : Pragma) : Bool :=
  match o[a]? with
  | some (.pragma q) => decide (q = p)
  | _ => false

/-- one iteration of `for start, stop in self.pragma_pairs` on the tuple `o`.  The flag is *not* part of the
code: it records that the located elements are not the very objects of the pair in the expected order
(`idx_start < idx_stop`), i.e. value-`index` picked something else. -/
def regionStepB (acc : List Item × Bool) (pr : Pragma × Pragma) : List Item × Bool :=
  let o := acc.1
  match idxOfVal pr.1 o with
  | none => acc
  | some a =>
    match idxOfVal pr.2 o with
    | none => acc
    | some b =>
      (o.take a ++ [.region false pr.1 pr.2 ((o.drop (a + 1)).take (b - (a + 1)))] ++ o.drop (b + 1),
       acc.2 || !(decide (a < b) && isPragmaAt o a pr.1 && isPragmaAt o b pr.2))

/-- `tuple(self.visit(i) for i in o)` with the in-place `visit_Node` -/
def mapBodiesB (g : List Item → List Item × Bool) : List Item → List Item × Bool
  | [] => ([], false)
  | x :: xs =>
      let r := mapBodiesB g xs
      match x with
      | .node id k hp df pre po body => let b := g body; (.node id k hp df pre po b.1 :: r.1, b.2 || r.2)
      | .region df s e body => let b := g body; (.region df s e b.1 :: r.1, b.2 || r.2)
      | .pragma p => (.pragma p :: r.1, r.2)

/-- `PragmaRegionAttacher.visit_tuple`, with fuel for the recursion into the (new) bodies -/
def regAttB : Nat → List (Pragma × Pragma) → List Item → List Item × Bool
  | 0, _, o => (o, false)
  | f + 1, pairs, o =>
      let s := pairs.foldl regionStepB (o, false)
      let m := mapBodiesB (regAttB f pairs) s.1
      (m.1, s.2 || m.2)

def regAtt (f : Nat) (pairs : List (Pragma × Pragma)) (o : List Item) : List Item := (regAttB f pairs o).1
/-- known-finding class `region-index-by-value` -/
def KnownRegionIndex (f : Nat) (pairs : List (Pragma × Pragma)) (o : List Item) : Bool := (regAttB f pairs o).2

/-- two value-equal (`==`) pragma nodes in a list -/
def hasDupVal : List Pragma → Bool
  | [] => false
  | p :: ps => ps.any (fun q => p.valEq q) || hasDupVal ps

/-- known-finding class `region-index-by-value` as reported by the check: some `Pragma` node of the tree is `==` to
another one.  (`KnownRegionIndex`, the hypothesis of the theorems, is the exact condition; that it is `false` whenever this
predicate is `false` is checked on every generated input, not proved.) -/
def KnownDupPragmas (xs : List Item) : Bool := hasDupVal (pragmasList xs)

/-! ## `PragmaRegionDetacher` -/

mutual
def unregItem : Item → List Item
  | .region _ s e body => [.pragma s] ++ unregList body ++ [.pragma e]
  | .node id k hp df pre po body => [.node id k hp df pre po (unregList body)]
  | .pragma p => [.pragma p]
def unregList : List Item → List Item
  | [] => []
  | x :: xs => unregItem x ++ unregList xs
end

mutual
def sizeItem : Item → Nat
  | .pragma _ => 1
  | .node _ _ _ _ _ _ body => 1 + sizeList body
  | .region _ _ _ body => 1 + sizeList body
def sizeList : List Item → Nat
  | [] => 0
  | x :: xs => sizeItem x + sizeList xs
end

mutual
def regionFreeItem : Item → Bool
  | .pragma _ => true
  | .node _ _ _ _ _ _ body => regionFreeList body
  | .region .. => false
def regionFreeList : List Item → Bool
  | [] => true
  | x :: xs => regionFreeItem x && regionFreeList xs
end

/-- apply a tuple-level function to the body of a root node (`visit_Node` on the `Section` given to the utility) -/
def Item.mapBody (f : List Item → List Item) : Item → Item
  | .node id k hp df pre po body => .node id k hp df pre po (f body)
  | .region df s e body => .region df s e (f body)
  | .pragma p => .pragma p

def Item.body : Item → List Item
  | .node _ _ _ _ _ _ body => body
  | .region _ _ _ body => body
  | .pragma _ => []

/-- the pairs `attach_pragma_regions(root, keyword)` hands to the attacher -/
def rootPairs (kw : Option String) (root : Item) : List (Pragma × Pragma) :=
  let ps := pragmasList root.body
  let ps := match kw with
    | some k => if k.isEmpty then ps else ps.filter (fun p => p.keyword.toLower == k.toLower)
    | none => ps
  getMatching ps

def rootFuel (kw : Option String) (root : Item) : Nat := sizeList root.body + (rootPairs kw root).length + 1

/-- `attach_pragma_regions(root, keyword)` -/
def regAttachRoot (kw : Option String) (root : Item) : Item :=
  root.mapBody (regAtt (rootFuel kw root) (rootPairs kw root))

/-- ghost flag of `regAttachRoot` (exact condition of known-finding class `region-index-by-value`) -/
def regRootBad (kw : Option String) (root : Item) : Bool :=
  KnownRegionIndex (rootFuel kw root) (rootPairs kw root) root.body

/-! ## dataflow attach / detach: which nodes get the private fields set / cleared -/

/-- handler tables extracted from the code (`Generated/C16Tables.lean`): class names for which the attacher's handler
does not set the fields (`Transformer.visit_ScopedNode`), does not visit the body (`visit_Interface`), and for
which the detacher's handler does not clear them (`Transformer.visit_ScopedNode`) -/
structure DfTab where
  noSet : List String
  noDescend : List String
  noClear : List String

mutual
def dfAttItem (tab : DfTab) : Item → Item
  | .pragma p => .pragma { p with df := true }
  | .node id k hp df pre po body =>
      .node id k hp (if k == "Branch" || tab.noSet.contains k then df else true) pre po
        (if tab.noDescend.contains k then body else dfAttList tab body)
  | .region _ s e body => .region true s e (dfAttList tab body)
def dfAttList (tab : DfTab) : List Item → List Item
  | [] => []
  | x :: xs => dfAttItem tab x :: dfAttList tab xs
end

mutual
def dfDetItem (tab : DfTab) : Item → Item
  | .pragma p => .pragma { p with df := false }
  | .node id k hp df pre po body =>
      .node id k hp (if tab.noClear.contains k then df else false) pre po (dfDetList tab body)
  | .region _ s e body => .region false s e (dfDetList tab body)
def dfDetList (tab : DfTab) : List Item → List Item
  | [] => []
  | x :: xs => dfDetItem tab x :: dfDetList tab xs
end

mutual
/-- no dataflow fields set anywhere outside the slots (state after the frontend) -/
def dfFreeItem : Item → Bool
  | .pragma p => !p.df
  | .node _ _ _ df _ _ body => !df && dfFreeList body
  | .region df _ _ body => !df && dfFreeList body
def dfFreeList : List Item → Bool
  | [] => true
  | x :: xs => dfFreeItem x && dfFreeList xs
end

mutual
/-- known-finding class `dataflow-scoped-node-stale`: a node the attacher annotates but the detacher skips -/
def dfStaleItem (tab : DfTab) : Item → Bool
  | .pragma _ => false
  | .node _ k _ _ _ _ body =>
      (!(k == "Branch" || tab.noSet.contains k) && tab.noClear.contains k) ||
      (if tab.noDescend.contains k then false else dfStaleList tab body)
  | .region _ _ _ body => dfStaleList tab body
def dfStaleList (tab : DfTab) : List Item → Bool
  | [] => false
  | x :: xs => dfStaleItem tab x || dfStaleList tab xs
end

/-! ## histories: utilities, edits and the context managers -/

mutual
/-- edit: insert a new pragma node immediately before the node with identity `nid` (in the tuple that holds it) -/
def insBeforeItem (nid : Nat) (p : Pragma) : Item → Item
  | .node id k hp df pre po body => .node id k hp df pre po (insBeforeList nid p body)
  | .region df s e body => .region df s e (insBeforeList nid p body)
  | .pragma q => .pragma q
def insBeforeList (nid : Nat) (p : Pragma) : List Item → List Item
  | [] => []
  | .node id k hp df pre po body :: xs =>
      if id == nid then .pragma p :: .node id k hp df pre po body :: xs
      else .node id k hp df pre po (insBeforeList nid p body) :: insBeforeList nid p xs
  | .region df s e body :: xs => .region df s e (insBeforeList nid p body) :: insBeforeList nid p xs
  | .pragma q :: xs => .pragma q :: insBeforeList nid p xs
end

inductive Op where
  | attach (T : List String) (post : Bool)
  | detach (T : List String) (post : Bool)
  | rattach (kw : Option String)
  | rdetach
  | dfattach
  | dfdetach
  | insert (nid : Nat) (p : Pragma)
  | raise
  | ctxPragmas (T : List String) (post : Bool) (body : List Op)
  | ctxRegions (kw : Option String) (body : List Op)
  | ctxDf (body : List Op)

/-- program-unit state: the root nodes (`routine.spec`, `routine.body`) and the pending exception -/
structure St where
  roots : List Item
  exc : Option String
deriving Inhabited

/-- `attach_pragma_regions` on spec then body -/
def regAttachRoots (kw : Option String) (rs : List Item) : List Item := rs.map (regAttachRoot kw)

def attachRoots (T : List String) (post : Bool) (rs : List Item) : List Item := rs.map (attachItem T post)
def detachRoots (T : List String) (post : Bool) (rs : List Item) : List Item := rs.map (detachRoot T post)
def regDetachRoots (rs : List Item) : List Item := rs.map (Item.mapBody unregList)
def dfAttachRoots (tab : DfTab) (rs : List Item) : List Item := rs.map (dfAttItem tab)
def dfDetachRoots (tab : DfTab) (rs : List Item) : List Item := rs.map (dfDetItem tab)

mutual
/-- one step of a history.  A step is skipped while an exception propagates; the context managers run their
exit part (`finally`) whether or not the body raised. -/
def runOp (tab : DfTab) : Op → St → St
  | op, ⟨rs, some e⟩ => match op with | _ => ⟨rs, some e⟩
  | .attach T post, ⟨rs, none⟩ => ⟨attachRoots T post rs, none⟩
  | .detach T post, ⟨rs, none⟩ => ⟨detachRoots T post rs, none⟩
  | .rattach kw, ⟨rs, none⟩ => ⟨regAttachRoots kw rs, none⟩
  | .rdetach, ⟨rs, none⟩ => ⟨regDetachRoots rs, none⟩
  | .dfattach, ⟨rs, none⟩ => ⟨dfAttachRoots tab rs, none⟩
  | .dfdetach, ⟨rs, none⟩ => ⟨dfDetachRoots tab rs, none⟩
  | .insert nid p, ⟨rs, none⟩ => ⟨rs.map (insBeforeItem nid p), none⟩
  | .raise, ⟨rs, none⟩ => ⟨rs, some "raised"⟩
  | .ctxPragmas T post body, ⟨rs, none⟩ =>
      let st := runOps tab body ⟨attachRoots T post rs, none⟩
      ⟨detachRoots T post st.roots, st.exc⟩
  | .ctxRegions kw body, ⟨rs, none⟩ =>
      let st := runOps tab body ⟨regAttachRoots kw rs, none⟩
      ⟨regDetachRoots st.roots, st.exc⟩
  | .ctxDf body, ⟨rs, none⟩ =>
      let st := runOps tab body ⟨dfAttachRoots tab rs, none⟩
      ⟨dfDetachRoots tab st.roots, st.exc⟩
def runOps (tab : DfTab) : List Op → St → St
  | [], st => st
  | op :: ops, st => runOps tab ops (runOp tab op st)
end

end LokiModel.C16
