-- Root of the `LokiModel` library.  Shared infrastructure only; each property's
-- modules (`LokiModel.Cxx.*`, `LokiModel.Props.Cxx`) are built on demand by `./check`.
import LokiModel.Sexp
import LokiModel.Audit
