import LokiModel.C39.Enc
import LokiModel.C39.Model
open LokiModel.Fir LokiModel.C39 Sexp

def decDic : List Sexp → Option Dic
  | [] => some []
  | list [k, v] :: xs => do pure ((← k.toStr?, ← v.toInt?) :: (← decDic xs))
  | _ => none

def decCfg5 (roots : List String) : Sexp → Option Cfg
  | list [list (atom "dic" :: kvs), list [atom "rbv", rbv], list (atom "entry" :: ent), list [atom "abort", ab],
          list (atom "order" :: ord)] => do
      let entry ← match ent with
        | [atom "none"] => some none
        | atom "some" :: es => (decStrs es).map some
        | _ => none
      let pa ← match ab with | atom "default" => some true | atom "errorstop" => some false | _ => none
      pure { dic := ← decDic kvs, rbv := ← rbv.toBool?, entry := entry, printAbort := pa, order := ← decStrs ord, roots := roots }
  | _ => none

/-- the optional sixth component `(roots u…)` lists the drivers; without it the main unit is the only driver -/
def decCfg : Sexp → Option Cfg
  | list [a, b, c, d, e, list (atom "roots" :: rs)] => do decCfg5 (← decStrs rs) (list [a, b, c, d, e])
  | x => decCfg5 [] x

/-- `(param prog cfg inputs flag)` → `(result (classes…) prog')`: the known-finding classes of the request and the program after
`ParametriseTransformation` over the call tree (comments dropped), or `(result (classes…) (error kind))` when the real
transformation raises (`keyerror`, `assertion`, `indexerror`) or leaves a corrupt declaration behind -/
def step : Sexp → Option Sexp
  | list [atom "param", prog, cfg, _, _] => do
      let p ← decProgram prog
      let c ← decCfg cfg
      pure (list [atom "result", list ((classesOf c p).map atom),
        match transformProgram c p with
        | .ok p' => encProgram { p' with units := p'.units.map fun u => { u with body := dropComments u.body } }
        | .error e => list [atom "error", atom e]])
  | _ => none

def main : IO _root_.Unit := driverMain step
