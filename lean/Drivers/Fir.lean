import LokiModel.Fir.Codec
open LokiModel.Fir Sexp

/-- `(run fuel prog (inputs…))` → final values of the main unit's dummies and the printed output -/
def step : Sexp → Option Sexp
  | list [atom "run", f, prog, list ins] => do
      let f ← f.toNat?
      let p ← decProgram prog
      let ins ← decInputs ins
      let names := match findUnit p p.main with | some u => u.args | none => []
      pure (encRes names (runMain p f ins))
  | _ => none

def main : IO _root_.Unit := driverMain step
