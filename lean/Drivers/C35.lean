import LokiModel.Sexp
import LokiModel.C35.Model
import LokiModel.Fir.Codec
open LokiModel.C35 Sexp

def decPair : Sexp → Option (Int × Int)
  | list [a, b] => do pure ((← a.toInt?), (← b.toInt?))
  | _ => none

def encMod : ModOp → Sexp
  | .pct => atom "pct" | .fmod => atom "fmod"

def step : Sexp → Option Sexp
  | list [atom "cindex", list bs, list idx] => do
      let bs ← bs.mapM decPair
      let idx ← idx.mapM (·.toInt?)
      match cIndex bs idx with
      | some k => pure (list [atom "ok", ofInt k])
      | none => pure (list [atom "error", atom "subscripts", ofNat (cSubscripts bs idx).length])
  | list [atom "divmod", a, b] => do
      let a ← a.toInt?; let b ← b.toInt?
      -- operator choice for i/j, mod(i,j) (integer variables), mod(x,y) (real variables), mod(i, 2.0) (a real literal)
      pure (list [atom "ok", list [atom "slash", encMod (modChoice false false), encMod (modChoice true false), encMod (modChoice false true)],
                  ofInt (cDiv a b), ofInt (cMod a b)])
  | list [atom "abi"] => pure (list [atom "ok", atom "abi"])
  | list [atom "passby"] =>
      pure (list (atom "ok" :: Tables.passTable.map fun r => list [ofBool r.1, atom r.2.1, atom r.2.2.1, ofBool r.2.2.2]))
  -- `(cloop s e st)`: iteration values of the generated `for` header (fuel 4096: far above every trip count of the generated box)
  | list [atom "cloop", s, e, st] => do
      let s ← s.toInt?; let e ← e.toInt?
      let st ← match st with | atom "none" => some none | x => x.toInt?.map some
      pure (list (atom "ok" :: (cLoopSeq s e st 4096).map ofInt))
  -- `(cexpr program inputs…)`: one assignment `r = <integer expression>`; reference semantics like `prog`
  | list (atom "cexpr" :: prog :: inputs) => do
      let p ← LokiModel.Fir.decProgram prog
      let names := match LokiModel.Fir.findUnit p p.main with | some u => u.args | none => []
      let rs ← inputs.mapM fun
        | list ins => do
            let ins ← LokiModel.Fir.decInputs ins
            pure (LokiModel.Fir.encRes names (LokiModel.Fir.runMain p 100000 ins))
        | _ => none
      pure (list (atom "ok" :: rs))
  | list (atom "prog" :: prog :: inputs) => do
      let p ← LokiModel.Fir.decProgram prog
      let names := match LokiModel.Fir.findUnit p p.main with | some u => u.args | none => []
      let rs ← inputs.mapM fun
        | list ins => do
            let ins ← LokiModel.Fir.decInputs ins
            pure (LokiModel.Fir.encRes names (LokiModel.Fir.runMain p 100000 ins))
        | _ => none
      pure (list (atom "ok" :: rs))
  | _ => none

def main : IO Unit := driverMain step
