import LokiModel.Sexp
import LokiModel.C22.Model
import LokiModel.Props.C22
open LokiModel.C22 Sexp

def optStr : Sexp → Option (Option String)
  | atom "none" => some none
  | str s => some (some s)
  | _ => none

def strs (x : Sexp) : Option (List String) := do
  let xs ← x.toList?
  xs.mapM toStr?

def pKind : Sexp → Option Kind
  | atom "proc" => some .proc | atom "module" => some .module | atom "typedef" => some .typedef
  | atom "iface" => some .iface | atom "binding" => some .binding | atom "file" => some .file
  | _ => none

def pFile : Sexp → Option FileNode
  | list [n, m, r] => do pure ⟨← n.toStr?, ← optStr m, ← optStr r⟩
  | _ => none

def pDep : Sexp → Option Dep
  | list [n, p, v, mv] => do pure ⟨← n.toStr?, ← strs v, ← strs mv, ← p.toBool?⟩
  | _ => none

def pSub : Sexp → Option Sub
  | list (n :: ms) => do pure ⟨← n.toStr?, ← ms.mapM toStr?⟩
  | _ => none

def pItem (files : List FileNode) : Sexp → Option Item
  | list [n, k, ext, gen, ign, mode, role, file, scope, irmod, irname, members, subs, excl, deps] => do
      let fname ← file.toStr?
      let f := (files.find? (·.name == fname)).getD ⟨fname, none, none⟩
      pure { name := ← n.toStr?, kind := ← pKind k, ext := ← ext.toBool?, generated := ← gen.toBool?,
             ignored := ← ign.toBool?, mode := ← optStr mode, role := ← optStr role, file := f,
             scope := ← optStr scope, irMod := ← irmod.toBool?, irName := ← irname.toStr?,
             irMembers := ← strs members, irSubs := ← (← subs.toList?).mapM pSub,
             excl := ← strs excl, deps := ← (← deps.toList?).mapM pDep }
  | _ => none

def findItem (pool : List Item) (n : String) : Option Item := pool.find? (·.name == n)

/-- definition trees are at most 4 levels deep (file → module → typedef → binding); parse with fuel -/
def pTree (pool : List Item) : Nat → Sexp → Option DefTree
  | 0, _ => none
  | fuel + 1, list (n :: ch) => do
      let it ← findItem pool (← n.toStr?)
      pure (.node it (← ch.mapM (pTree pool fuel)))
  | _, _ => none

def pFir (pool : List Item) : Sexp → Option FileIR
  | list [f, mods, subs, defs] => do
      pure ⟨← f.toStr?, ← strs mods, ← strs subs, ← (← defs.toList?).mapM (pTree pool 8)⟩
  | _ => none

def field (xs : List Sexp) (key : String) : Option (List Sexp) :=
  xs.findSome? fun x => match x with
    | list (atom k :: rest) => if k == key then some rest else none
    | _ => none

def oStr : Option String → Sexp
  | none => atom "none"
  | some s => str s

def rMeth : Meth → Sexp
  | .file => atom "file" | .module => atom "module" | .sub => atom "sub"

def rCall (c : Call) : Sexp :=
  list [rMeth c.meth, atom (if c.plan then "p" else "t"), str c.ir, str c.item, oStr c.role, oStr c.mode,
        list (c.targets.map str),
        (match c.items with | none => atom "none" | some xs => list (xs.map str)), ofBool c.top]

def rErr : Option Err → Sexp
  | none => atom "none"
  | some (.external n) => list [atom "external", str n]
  | some .unfeasible => atom "unfeasible"

def step : Sexp → Option Sexp
  | list (atom "process" :: fs) => do
      let files ← (← field fs "files").mapM pFile
      let pool ← (← field fs "pool").mapM (pItem files)
      let nodes ← (← field fs "nodes").mapM (fun x => do findItem pool (← x.toStr?))
      let edges ← (← field fs "edges").mapM (fun e => match e with
        | list [a, b] => do pure ((← findItem pool (← a.toStr?)), (← findItem pool (← b.toStr?)))
        | _ => none)
      let order ← (← field fs "order").mapM (fun x => do findItem pool (← x.toStr?))
      let firs ← (← field fs "firs").mapM (pFir pool)
      let m ← match ← field fs "manifest" with
        | [flt, rev, fg, pi, rm, rp, ri] => do
            pure (⟨← (← flt.toList?).mapM pKind, ← rev.toBool?, ← fg.toBool?, ← pi.toBool?, ← rm.toBool?,
                   ← rp.toBool?, ← ri.toBool?⟩ : Manifest)
        | _ => none
      let c ← match ← field fs "cfg" with
        | [st, mode, plan] => do pure (⟨← st.toBool?, ← optStr mode, ← plan.toBool?⟩ : Cfg)
        | _ => none
      let g : Graph := ⟨nodes, edges⟩
      if !isTopo g order then pure (list [atom "error", atom "bad-order"]) else
      let fg := asFileGraph g order m
      let forder ← match ← field fs "forder" with
        | [atom "none"] => some none
        | [list xs] => do
            let ns ← xs.mapM toStr?
            pure (some (← ns.mapM (fun n => fg.nodes.find? (·.name == n))))
        | _ => none
      -- contract of nx.topological_sort on the file graph
      let fgInfo : List Sexp :=
        if m.fileGraph then [list [atom "fg", list (fg.nodes.map (fun f => str f.name)),
                                   list (fg.edges.map (fun e => list [str e.1.name, str e.2.name]))]] else []
      let okF : Bool := !m.fileGraph || (match forder with
        | some fo => isTopoF fg fo
        | none => (kahn fg.nodes fg.edges).isNone)
      if !okF then pure (list [atom "error", atom "bad-forder"]) else
      let r := process g firs order forder m c
      -- membership in the known-finding classes (Props/C22.lean), compared with the harness-side classifiers
      let known : Sexp := match forder with
        | some fo => list [atom "known", ofBool (KnownCyclic g order m), ofBool (KnownFileMode g order fo m c),
                           ofBool (KnownRecurseMode g firs fo m c), ofBool (KnownIgnoredParent g firs fo m c)]
        | none => list [atom "known", ofBool (KnownCyclic g order m), ofBool false, ofBool false, ofBool false]
      pure (list ([atom "ok", list [atom "error", rErr r.err], list (atom "calls" :: r.calls.map rCall)] ++ fgInfo
                  ++ [known]))
  | list (atom "build" :: _) => pure (list [atom "ok", atom "built"])
  | list [atom "targets", excl, deps] => do
      let it : Item := { (default : Item) with excl := ← strs excl, deps := ← (← deps.toList?).mapM pDep }
      pure (list (atom "ok" :: (targets it).map str))
  | _ => none

def main : IO Unit := driverMain step
