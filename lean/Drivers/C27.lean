import LokiModel.Sexp
import LokiModel.Fir.Codec
import LokiModel.C27.Model
open LokiModel.C26 LokiModel.C27 LokiModel.Fir Sexp

namespace C27Driver

def symLt (a b : Sym) : Bool := a.1 < b.1 || (a.1 == b.1 && a.2 < b.2)

def insertSorted (x : Sym) : List Sym → List Sym
  | [] => [x]
  | y :: ys => if x == y then y :: ys else if symLt x y then x :: y :: ys else y :: insertSorted x ys

def canonSet (s : SymSet) : List Sym := s.foldl (fun acc x => insertSorted x acc) []

def encSym (v : Sym) : Sexp :=
  if v.2 == "" && v.1 != "" then atom v.1 else list [atom (if v.1 == "" then "-" else v.1), str v.2]

def encSet (s : SymSet) : Sexp := list ((canonSet s).map encSym)

def decBool : Sexp → Option Bool
  | atom "true" => some true
  | atom "false" => some false
  | _ => none

end C27Driver
open C27Driver

/-- `(deps enrich prog inputs)` → `(ok (lcd set…) (raw (set…)…))`: loop-carried dependencies of every loop of the main
unit (pre-order), and `read_after_write_vars(ir, node)` for ir = main body and the body of every loop, node = every
node of that ir (pre-order) -/
def step : Sexp → Option Sexp
  | list (atom "deps" :: e :: prog :: _) => do
      let enr ← decBool e
      let p ← decProgram prog
      let u ← findUnit p p.main
      let c : Ctx := { p := p, enr := enr }
      if crashL c u.body then pure (list [atom "error", atom "attributeerror"]) else
      let loops := loopsL u.body
      let irs := u.body :: loops.map bodyOf
      let raws := irs.map fun ir => list ((List.range (sizeL ir)).map fun k => encSet (readAfterWrite c ir k))
      pure (list [atom "ok", list (atom "lcd" :: loops.map fun l => encSet (lcd c l)), list (atom "raw" :: raws)])
  | _ => none

def main : IO _root_.Unit := driverMain step
