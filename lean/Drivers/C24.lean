import LokiModel.Sexp
import LokiModel.C24.Model
import LokiModel.Props.C24
open LokiModel.C22 LokiModel.C24 Sexp

def optStr : Sexp → Option (Option String)
  | atom "none" => some none
  | str s => some (some s)
  | _ => none

def pKind : Sexp → Option Kind
  | atom "proc" => some .proc | atom "module" => some .module | atom "typedef" => some .typedef
  | atom "iface" => some .iface | atom "binding" => some .binding | atom "file" => some .file
  | _ => none

def pFile : Sexp → Option FileNode
  | list [n, m, r] => do pure ⟨← n.toStr?, ← optStr m, ← optStr r⟩
  | _ => none

def pItem (files : List FileNode) : Sexp → Option Item
  | list [n, k, ext, ign, file] => do
      let fname ← file.toStr?
      let f := (files.find? (·.name == fname)).getD ⟨fname, none, none⟩
      pure { (default : Item) with name := ← n.toStr?, kind := ← pKind k, ext := ← ext.toBool?,
                                   ignored := ← ign.toBool?, file := f }
  | _ => none

def pInfo : Sexp → Option (String × FInfo)
  | list [n, dir, stem, suf, shown, ex, oshown, oex, rep, lib, mode] => do
      pure (← n.toStr?, ⟨← dir.toStr?, ← stem.toStr?, ← suf.toStr?, ← shown.toStr?, ← ex.toBool?, ← oshown.toStr?,
                          ← oex.toBool?, ← rep.toBool?, ← optStr lib, ← optStr mode⟩)
  | _ => none

def field (xs : List Sexp) (key : String) : Option (List Sexp) :=
  xs.findSome? fun x => match x with
    | list (atom k :: rest) => if k == key then some rest else none
    | _ => none

def findItem (pool : List Item) (n : String) : Option Item := pool.find? (·.name == n)

structure Run where
  g : Graph
  order : List Item
  foW : List FileNode
  foC : List FileNode
  info : FileNode → FInfo
  ok : Bool

/-- one exported run (prefix "p-" or "v-"): graph, orders, file attributes; `ok` = the contracts of
nx.topological_sort hold for the item graph and both file graphs -/
def pRun (fs : List Sexp) (pre : String) (modvars : Bool) : Option Run := do
  let files ← (← field fs (pre ++ "files")).mapM pFile
  let pool ← (← field fs (pre ++ "pool")).mapM (pItem files)
  let nodes ← (← field fs (pre ++ "nodes")).mapM (fun x => do findItem pool (← x.toStr?))
  let edges ← (← field fs (pre ++ "edges")).mapM (fun e => match e with
    | list [a, b] => do pure ((← findItem pool (← a.toStr?)), (← findItem pool (← b.toStr?)))
    | _ => none)
  let order ← (← field fs (pre ++ "order")).mapM (fun x => do findItem pool (← x.toStr?))
  let infos ← (← field fs (pre ++ "finfo")).mapM pInfo
  let g : Graph := ⟨nodes, edges⟩
  let fgW := asFileGraph g order (mW modvars)
  let fgC := asFileGraph g order mC
  let names (key : String) (fg : FGraph) : Option (List FileNode) := do
    match ← field fs (pre ++ key) with
    | [list xs] => (← xs.mapM toStr?).mapM (fun n => fg.nodes.find? (·.name == n))
    | _ => none
  let foW ← names "forderw" fgW
  let foC ← names "forderc" fgC
  let info (f : FileNode) : FInfo := ((infos.find? (·.1 == f.name)).map (·.2)).getD default
  pure ⟨g, order, foW, foC, info, isTopo g order && isTopoF fgW foW && isTopoF fgC foC⟩

def oStr : Option String → Sexp
  | none => atom "none"
  | some s => str s

def rLib (m : LibMap) : List Sexp := m.map fun p => list (oStr p.1 :: p.2.map str)

def step : Sexp → Option Sexp
  | list (atom "plan" :: fs) => do
      if (field fs "broken").isSome then pure (list [atom "error", atom "unmodelled"]) else
      let (suffix, outdir, modvars) ← match ← field fs "wcfg" with
        | [s, o, _, mv] => do pure (← optStr s, ← o.toBool?, ← mv.toBool?)
        | _ => none
      let w : WCfg := ⟨suffix, if outdir then some "$R/build" else none⟩
      let p ← pRun fs "p-" modvars
      let v ← pRun fs "v-" modvars
      if !(p.ok && v.ok) then pure (list [atom "error", atom "bad-order"]) else
      let plan := planOf w p.info modvars p.foW p.foC
      let wr := convWrites w v.info modvars v.foW
      -- memberships in the known-finding classes, compared with the harness-side classifiers
      let vW := visited (mW modvars) true p.foW
      let known := list [atom "known", ofBool (!decide (allOf plan.append).Nodup),
        ofBool (!sameMembers (p.foW.map (·.name)) (v.foW.map (·.name))),
        ofBool (KnownCreatedNotReplicated p.info (fun f => vW.contains f) (visited mC true p.foC))]
      pure (list [atom "ok", list (atom "transform" :: rLib plan.transform), list (atom "append" :: rLib plan.append),
                  list (atom "remove" :: rLib plan.remove), list (atom "written" :: (dedup wr).map str), known,
                  list (atom "planfile" :: (planFileSets plan).map (fun b => list (str b.1 :: b.2.map str)))])
  | _ => none

def main : IO Unit := driverMain step
