import LokiModel.Sexp
import LokiModel.C07.Codec
import LokiModel.C07.FParse
open LokiModel.C07 LokiModel.Expr LokiModel.C06 Sexp

def optS (f : α → Sexp) : Option α → Sexp
  | some x => f x
  | none => atom "none"

def encTag : LTag → Sexp
  | .int n => atom s!"int:{n}"
  | .float t => list [atom "float", str t]
  | .ident x => list [atom "identifier", str x]
  | .ftrue => atom "f_true" | .ffalse => atom "f_false"
  | .plus => atom "plus" | .minus => atom "minus" | .exp => atom "exp" | .times => atom "times" | .over => atom "over"
  | .openpar => atom "openpar" | .closepar => atom "closepar"
  | .cmp o => atom (encCmp o) | .and => atom "and" | .or => atom "or" | .not => atom "not" | .dot => atom "dot"

/-- `(parse style cst)`: tokens of the concrete tree, Loki-parser model on them, reference parser on them,
class membership.  `(parsex style tok…)`: token-level request (may contain `.eqv.`/`.neqv.`). -/
def step : Sexp → Option Sexp
  | list [atom "parse", _, c] => do
      let c ← decC c
      let ts := c.unparse
      let ref := fparseAll ts
      pure (list [atom "ok",
        list [atom "wf", ofBool c.WF], list [atom "known", ofBool (Known c)],
        list [atom "refsem", ofBool (ref == some c.sem)],
        list (atom "toks" :: ts.map encTok),
        list (atom "tags" :: (plex ts).map encTag),
        list [atom "tree", optS encE (pparse (plex ts))],
        list [atom "ref", optS encS ref]])
  | list (atom "parsex" :: _ :: toks) => do
      let xs ← decXToks toks
      let tags := plexX xs
      if tags.contains .dot then pure (list [atom "member", list (atom "tags" :: tags.map encTag)])
      else pure (list [atom "ok", list (atom "tags" :: tags.map encTag), list [atom "tree", optS encE (pparse tags)]])
  | _ => none

def main : IO Unit := driverMain step
