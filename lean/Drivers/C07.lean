import LokiModel.Sexp
import LokiModel.C07.Codec
import LokiModel.C07.FParse
open LokiModel.C07 LokiModel.Expr LokiModel.C06 Sexp

def optS (f : α → Sexp) : Option α → Sexp
  | some x => f x
  | none => atom "none"

def encTag : LTag → Sexp
  | .int n => atom s!"int:{n}"
  | .float t => list [atom "float", str t]
  | .ident x => list [atom "identifier", str x]
  | .ftrue => atom "f_true" | .ffalse => atom "f_false"
  | .plus => atom "plus" | .minus => atom "minus" | .exp => atom "exp" | .times => atom "times" | .over => atom "over"
  | .openpar => atom "openpar" | .closepar => atom "closepar"
  | .cmp o => atom (encCmp o) | .and => atom "and" | .or => atom "or" | .not => atom "not" | .dot => atom "dot"

/-- bound of a section in a `prim` request: `none` atom = absent, `(int 0)` = literal zero, anything else = other -/
def decBnd : Sexp → Option Bnd
  | atom "none" => none
  | list [atom "int", atom "0"] => some .zero
  | _ => some .other

def encBnd : Option Bnd → Sexp
  | none => atom "none" | some .zero => atom "zero" | some .other => atom "some"

mutual
/-- the `RangeIndex` parts the model predicts for every `(sec lo hi st)` of a primaries request, in text order -/
def secsOf : Sexp → List Sexp
  | list [atom "sec", lo, hi, st] =>
      let r := rangeOf (mapSlice (sliceChildren (decBnd lo) (decBnd hi) (decBnd st)))
      list [encBnd r.1, encBnd r.2.1, encBnd r.2.2] :: (secsOf lo ++ secsOf hi ++ secsOf st)
  | list xs => secsOfList xs
  | _ => []
def secsOfList : List Sexp → List Sexp
  | [] => []
  | x :: xs => secsOf x ++ secsOfList xs
end

/-- `(parse style cst)`: tokens of the concrete tree, Loki-parser model on them, reference parser on them,
class membership.  `(parsex style tok…)`: token-level request (may contain `.eqv.`/`.neqv.`). -/
def step : Sexp → Option Sexp
  | list [atom "parse", _, c] => do
      let c ← decC c
      let ts := c.unparse
      let ref := fparseAll ts
      pure (list [atom "ok",
        list [atom "wf", ofBool c.WF], list [atom "known", ofBool (Known c)],
        list [atom "refsem", ofBool (ref == some c.sem)],
        list (atom "toks" :: ts.map encTok),
        list (atom "tags" :: (plex ts).map encTag),
        list [atom "tree", optS encE (pparse (plex ts))],
        list [atom "ref", optS encS ref]])
  | list [atom "primk", _, _] => some (list [atom "ok", atom "outside-model"])
  | list [atom "prim", _, px] => some (list [atom "ok", list (atom "secs" :: secsOf px)])
  | list (atom "parsex" :: _ :: toks) => do
      let xs ← decXToks toks
      let tags := plexX xs
      if tags.contains .dot then pure (list [atom "member", list (atom "tags" :: tags.map encTag)])
      else pure (list [atom "ok", list (atom "tags" :: tags.map encTag), list [atom "tree", optS encE (pparse tags)]])
  | _ => none

def main : IO Unit := driverMain step
