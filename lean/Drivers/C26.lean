import LokiModel.Sexp
import LokiModel.Fir.Codec
import LokiModel.C26.Trace
open LokiModel.C26 LokiModel.Fir Sexp

namespace C26Driver

def symLt (a b : Sym) : Bool := a.1 < b.1 || (a.1 == b.1 && a.2 < b.2)

def insertSorted (x : Sym) : List Sym → List Sym
  | [] => [x]
  | y :: ys => if x == y then y :: ys else if symLt x y then x :: y :: ys else y :: insertSorted x ys

def canonSet (s : SymSet) : List Sym := s.foldl (fun acc x => insertSorted x acc) []

def encSym (v : Sym) : Sexp :=
  if v.2 == "" && v.1 != "" then atom v.1 else list [atom (if v.1 == "" then "-" else v.1), str v.2]

def encSet (s : SymSet) : Sexp := list ((canonSet s).map encSym)

mutual
partial def encAnn : Ann → Sexp
  | .mk k d u l kids => list ([atom k, encSet d, encSet u, encSet l] ++ kids.map fun kl => list (kl.map encAnn))
end

def decBool : Sexp → Option Bool
  | atom "true" => some true
  | atom "false" => some false
  | _ => none

end C26Driver
open C26Driver

/-- `(dfa enrich prog inputs)` → `(ok bodyDefines bodyUses tree)` or `(error attributeerror)` -/
def step : Sexp → Option Sexp
  | list (atom "dfa" :: e :: prog :: _) => do
      let enr ← decBool e
      let p ← decProgram prog
      let u ← findUnit p p.main
      let c : Ctx := { p := p, enr := enr }
      if crashL c u.body then pure (list [atom "error", atom "attributeerror"]) else
      let r := bodyDU c u.body
      pure (list [atom "ok", encSet r.1, encSet r.2, list ((annL c (initialLive u) [] u.body).map encAnn)])
  -- `(known enrich prog k x kind)`: is variable x at node number k (pre-order in the main body) inside the theorem's
  -- covered class / inside the known class of `defines` (kind def) or `uses` (kind use)?  Used by the post hook.
  | list [atom "known", e, prog, k, x, kind] => do
      let enr ← decBool e
      let p ← decProgram prog
      let u ← findUnit p p.main
      let k ← k.toNat?
      let x ← x.toStr?
      let c : Ctx := { p := p, enr := enr }
      let s ← (flatL u.body)[k]?
      let kn := match kind with
        | atom "def" => KnownDefS x s
        | _ => knownUS c x s
      pure (list [atom "ok", ofBool (coveredS s), ofBool kn])
  | _ => none

def main : IO _root_.Unit := driverMain step
