import LokiModel.C34.Enc
import LokiModel.C34.Model
open LokiModel.Fir LokiModel.C34 Sexp

/-- `(seq prog …)` → `(result prog')` after `do_resolve_sequence_association` on every unit;
`(dedup prog …)` → `(result prog')` after `remove_duplicate_args_from_calls` on every unit in file order;
any other request kind (generated Fortran call trees: explicit shapes, derived types, type-bound calls, keyword calls) is
oracle-only: `(oracle-only)` -/
def step : Sexp → Option Sexp
  | list (atom "seq" :: prog :: _) => do
      let p ← decProgram prog
      pure (list [atom "result", encProgram (seqProgram p)])
  | list (atom "dedup" :: prog :: _) => do
      let p ← decProgram prog
      pure (list [atom "result", encProgram (dedupProgram p)])
  | list (atom "src" :: _) => some (list [atom "oracle-only"])
  | _ => none

def main : IO _root_.Unit := driverMain step
