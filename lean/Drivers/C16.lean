import LokiModel.Sexp
import LokiModel.C16.Model
import LokiModel.Generated.C16Tables
open LokiModel.C16 Sexp

def tab : DfTab := ⟨Generated.dfNoSet, Generated.dfNoDescend, Generated.dfNoClear⟩

def decPragma : Sexp → Option Pragma
  | list [atom "p", id, kw, c, src, df] => do
      pure ⟨← id.toNat?, ← kw.toStr?, ← c.toStr?, ← src.toNat?, ← df.toBool?⟩
  | _ => none

def decStrs (x : Sexp) : Option (List String) := do (← x.toList?).mapM Sexp.toStr?

partial def decItem : Sexp → Option Item
  | list [atom "n", id, k, hp, df, pre, po, body] => do
      pure (.node (← id.toNat?) (← k.toStr?) (← hp.toBool?) (← df.toBool?) (← (← pre.toList?).mapM decPragma)
        (← (← po.toList?).mapM decPragma) (← (← body.toList?).mapM decItem))
  | list [atom "r", df, s, e, body] => do
      pure (.region (← df.toBool?) (← decPragma s) (← decPragma e) (← (← body.toList?).mapM decItem))
  | x => (decPragma x).map .pragma

def decKw : Sexp → Option (Option String)
  | atom "none" => some none
  | str s => some (some s)
  | _ => none

partial def decOp : Sexp → Option Op
  | list [atom "attach", t, post] => do pure (.attach (← decStrs t) (← post.toBool?))
  | list [atom "detach", t, post] => do pure (.detach (← decStrs t) (← post.toBool?))
  | list [atom "rattach", kw] => do pure (.rattach (← decKw kw))
  | list [atom "rdetach"] => some .rdetach
  | list [atom "dfattach"] => some .dfattach
  | list [atom "dfdetach"] => some .dfdetach
  | list [atom "insert", nid, p] => do pure (.insert (← nid.toNat?) (← decPragma p))
  | list [atom "raise"] => some .raise
  | list [atom "with-pragmas", t, post, body] => do
      pure (.ctxPragmas (← decStrs t) (← post.toBool?) (← (← body.toList?).mapM decOp))
  | list [atom "with-regions", kw, body] => do pure (.ctxRegions (← decKw kw) (← (← body.toList?).mapM decOp))
  | list [atom "with-df", body] => do pure (.ctxDf (← (← body.toList?).mapM decOp))
  | _ => none

def encPragma (p : Pragma) : Sexp :=
  list [atom "p", ofNat p.id, str p.keyword, str p.content, ofNat p.src, ofBool p.df]

partial def encItem : Item → Sexp
  | .pragma p => encPragma p
  | .node id k hp df pre po body =>
      list [atom "n", ofNat id, atom k, ofBool hp, ofBool df, list (pre.map encPragma), list (po.map encPragma),
            list (body.map encItem)]
  | .region df s e body => list [atom "r", ofBool df, encPragma s, encPragma e, list (body.map encItem)]

def step : Sexp → Option Sexp
  | list [atom "run", _, roots, ops] => do
      let rs ← (← roots.toList?).mapM decItem
      let ops ← (← ops.toList?).mapM decOp
      let st := runOps tab ops ⟨rs, none⟩
      pure (list [atom (st.exc.getD "ok"), list (st.roots.map encItem)])
  | list [atom "regflags", kw, roots] => do
      let rs ← (← roots.toList?).mapM decItem
      let kw ← decKw kw
      pure (list [atom "flags", ofBool (rs.any fun r => KnownDupPragmas r.body), ofBool (rs.any (regRootBad kw))])
  | list [atom "matching", ps] => do
      let ps ← (← ps.toList?).mapM decPragma
      pure (list (atom "ok" :: (getMatching ps).map fun pr => list [ofNat pr.1.id, ofNat pr.2.id]))
  | _ => none

def main : IO Unit := driverMain step
