import LokiModel.Sexp
import LokiModel.C03.Model
open LokiModel.C03 Sexp

def toKind : String → Option Kind
  | "assign" => some .assign | "call" => some .call | "comment" => some .comment | "decl" => some .decl
  | "imprt" => some .imprt | "loop" => some .loop | "cond" => some .cond | "section" => some .section
  | "scoped" => some .scoped | "lother" => some .lother | "iother" => some .iother
  | _ => none

def kindName : Kind → String
  | .assign => "assign" | .call => "call" | .comment => "comment" | .decl => "decl" | .imprt => "imprt"
  | .loop => "loop" | .cond => "cond" | .section => "section" | .scoped => "scoped" | .lother => "lother"
  | .iother => "iother"

def toStatus : String → Option (Option Status)
  | "valid" => some (some .valid) | "inode" => some (some .inode) | "ichildren" => some (some .ichildren)
  | "none" => some none
  | _ => none

def statusName : Option Status → String
  | some .valid => "valid" | some .inode => "inode" | some .ichildren => "ichildren" | none => "none"

def toStrs : List Sexp → Option (List String)
  | [] => some []
  | .str s :: xs => (toStrs xs).map (s :: ·)
  | _ => none

mutual
def toNode : Sexp → Option Node
  | .list [.atom k, l, .list [inl, ei, lab, ed, nm], .atom st, l0, l1, .list text, .list body, .list els] => do
      let k ← toKind k
      let l ← l.toNat?
      let inl ← inl.toBool?
      let ei ← ei.toBool?
      let ed ← ed.toBool?
      let nm ← (match nm with | .atom "none" => some none | .str s => some (some s) | _ => none)
      let lab ← (match lab with | .atom "none" => some none | .str s => some (some s) | _ => none)
      let st ← toStatus st
      let l0 ← l0.toNat?
      let l1 ← l1.toNat?
      let text ← toStrs text
      let body ← toNodes body
      let els ← toNodes els
      pure (Node.mk ⟨k, l, inl, ei, lab, ed, nm⟩ (st.map fun s => ⟨s, text, l0, l1⟩) body els)
  | _ => none
def toNodes : List Sexp → Option (List Node)
  | [] => some []
  | x :: xs => do
      let n ← toNode x
      let ns ← toNodes xs
      pure (n :: ns)
end

def toAsg : Sexp → Option (Option Asg)
  | .atom "none" => some none
  | .list [.str a, .str b, .str c, .str d, .str e, p] => do
      let p ← p.toBool?
      pure (some ⟨a, b, c, d, e, p⟩)
  | _ => none

def toRow : Sexp → Option (Nat × RData)
  | .list [l, .list [.list h, .list hei, .list m, .list f], bind, noind, asg] => do
      let l ← l.toNat?
      let h ← toStrs h; let hei ← toStrs hei; let m ← toStrs m; let f ← toStrs f
      let bind ← bind.toNat?
      let noind ← noind.toBool?
      let asg ← toAsg asg
      pure (l, { hdr := h, hdrEI := hei, mid := m, ftr := f, bind := bind, noind := noind, asg := asg })
  | _ => none

def toRows : List Sexp → Option (List (Nat × RData))
  | [] => some []
  | x :: xs => do
      let r ← toRow x
      let rs ← toRows xs
      pure (r :: rs)

def mkRender (rows : List (Nat × RData)) : Render := fun l =>
  match rows.find? (·.1 = l) with
  | some r => r.2
  | none => {}

def subOff : Nat := 50000

/-- the substituted variant of a payload exists in the table iff the substitution changes the node's own expressions -/
def mkEmap (rows : List (Nat × RData)) : Nat → Option Nat := fun l =>
  if rows.any (·.1 = l + subOff) then some (l + subOff) else none

def resolve (cur : List Node) (fresh : List Node) : Sexp → Option Node
  | .list [.atom "ref", i] => do let i ← i.toNat?; cur[i]?
  | .list [.atom "fresh", j] => do let j ← j.toNat?; fresh[j]?
  | _ => none

def resolveAll (cur fresh : List Node) : List Sexp → Option (List Node)
  | [] => some []
  | x :: xs => do
      let n ← resolve cur fresh x
      let ns ← resolveAll cur fresh xs
      pure (n :: ns)

def toHandle (cur fresh : List Node) : Sexp → Option Handle
  | .atom "none" => some .drop
  | .list [.atom "node", h] => (resolve cur fresh h).map .node
  | .list (.atom "tuple" :: hs) => (resolveAll cur fresh hs).map .tuple
  | _ => none

def toPairs (cur fresh : List Node) : List Sexp → Option Mapper
  | [] => some []
  | .list [i, h] :: ps => do
      let i ← i.toNat?
      let k ← cur[i]?
      let h ← toHandle cur fresh h
      let ps ← toPairs cur fresh ps
      pure ((k, h) :: ps)
  | _ => none

def applyEdit (rows : List (Nat × RData)) (fresh : List Node) (t : Node) : Sexp → Option Node
  | .list [.atom "tr", rs, .list pairs] => do
      let rs ← rs.toBool?
      let m ← toPairs (preorder t) fresh pairs
      pure (visitRoot rs m t)
  | .list [.atom "sub", rs, _, _] => do
      let rs ← rs.toBool?
      pure (subst rs (mkEmap rows) t)
  -- `inplace=True`: `_rebuild` writes the same arguments back with `_update` — value-level the same tree
  | .list [.atom "tri", rs, .list pairs] => do
      let rs ← rs.toBool?
      let m ← toPairs (preorder t) fresh pairs
      pure (visitRoot rs m t)
  | .list [.atom "subi", rs, _, _] => do
      let rs ← rs.toBool?
      pure (subst rs (mkEmap rows) t)
  | _ => none

def applyEdits (rows : List (Nat × RData)) (fresh : List Node) : Node → List Sexp → Option Node
  | t, [] => some t
  | t, e :: es => do
      let t' ← applyEdit rows fresh t e
      applyEdits rows fresh t' es

def ofStatuses (t : Node) : Sexp :=
  .list ((preorder t).map fun n => .list [.atom (kindName n.info.kind), ofNat n.info.lbl, .atom (statusName n.status)])

def ofRes : Res → Sexp
  | .err e => .list [.atom "error", .atom e]
  | .none => .list [.str ""]      -- `fgen` returns `visit(ir) or ''`
  | .some ls => .list (ls.map .str)

def step : Sexp → Option Sexp
  | .list [.atom "edit", _, _, .list edits, tree, .list rtab, .list fresh] => do
      -- modification paths outside the model (NestedTransformer, direct `_update`): direct oracle only
      if edits.any (fun e => match e with | .list (.atom "ntr" :: _) => true | .list (.atom "upd" :: _) => true | _ => false) then
        pure (.list [.atom "ok", .atom "oracle-only"])
      else
      match tree with
      | .list [.atom "unsupported"] => pure (.list [.atom "error", .atom "unsupported"])
      | _ =>
      let t ← toNode tree
      let rows ← toRows rtab
      let fresh ← toNodes fresh
      let t' ← applyEdits rows fresh t edits
      match cgen (mkRender rows) 0 false t' with
      | .err e => pure (.list [.atom "error", .atom e])
      | r => pure (.list [.atom "ok", ofStatuses t', ofRes r])
  | _ => none

def main : IO Unit := driverMain step
