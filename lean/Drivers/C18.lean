import LokiModel.Sexp
import LokiModel.C17.Model
import LokiModel.C17.Wire
import LokiModel.C18.Model
open LokiModel.C17 LokiModel.C17.Wire LokiModel.C18 Sexp

def snapRoot (h : Heap) (oc : Addr × Addr) : Sexp := snap h oc.1 oc.2

def step : Sexp → Option Sexp
  | list [atom "c18", _, _, _, list [atom "model", m]] => step m
  | list [atom "pickle18", hp, roots] => do
    let h ← decHeap hp
    let roots ← decNats roots
    let f := 2 * h.size + 8
    let r := roundtrip f h roots
    pure (list (atom "ok" :: ofBool r.1.unres :: (roots.zip r.2).map (snapRoot r.1)))
  | _ => none

def main : IO Unit := driverMain step
