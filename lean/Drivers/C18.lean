import LokiModel.Sexp
import LokiModel.C17.Model
import LokiModel.C17.Wire
import LokiModel.C18.Model
open LokiModel.C17 LokiModel.C17.Wire LokiModel.C18 Sexp

def snapRoot (h : Heap) (oc : Addr × Addr) : Sexp := snap h oc.1 oc.2

def step : Sexp → Option Sexp
  | list [atom "c18", _, _, _, list [atom "model", m]] => step m
  | list [atom "pickle18", hp, roots] => do
    let h ← decHeap hp
    let roots ← decNats roots
    let f := 2 * h.size + 8
    match roundtrip f h roots with
    | .assertion => pure (list [atom "error", atom "assertion"])
    | .attribute => pure (list [atom "error", atom "attribute"])
    | .ok h1 cs => pure (list (atom "ok" :: ofBool h1.unres :: (roots.zip cs).map (snapRoot h1)))
  | _ => none

def main : IO Unit := driverMain step
