import LokiModel.C28.Enc
import LokiModel.C28.Model
import LokiModel.C28.ParamModel
open LokiModel.Fir LokiModel.C28 Sexp

def mapUnits (f : List Stmt → List Stmt) (p : Program) : Program :=
  { p with units := p.units.map fun u => { u with body := f u.body } }

def classesOf (m : Mode) (p : Program) : Sexp :=
  list ((if KnownCapture m p then [atom "inline-name-capture"] else []) ++
        (if KnownPrint m p then [atom "inline-print-not-substituted"] else []) ++
        (if KnownReeval m p then [atom "inline-actual-reevaluated"] else []) ++
        (if KnownFreshClash m p then [atom "inline-fresh-name-clash"] else []))

def step : Sexp → Option Sexp
  | list (atom "sub" :: atom mode :: prog :: _) => do
      let p ← decProgram prog
      let m ← (if mode == "marked" then some Mode.marked else if mode == "internal" then some Mode.internal else none)
      if !Covered m p then pure (list [atom "result", atom "excluded"]) else
      if KnownCapture m p then pure (list [atom "result", classesOf m p, atom "captured"]) else
      pure (list [atom "result", classesOf m p, encProgram (mapUnits dropComments (inlineProgram m p))])
  | list (atom "param" :: prog :: _) => do
      let p ← decProgram prog
      let nonLit := p.units.any fun u => u.decls.any fun d => match d.param with
        | some (.lit _) => false
        | some _ => true
        | none => false
      if nonLit then pure (list [atom "result", atom "excluded"]) else
      pure (list [atom "result", encProgram (mapUnits dropComments { p with units := p.units.map paramUnit })])
  | list (atom "fun" :: _) => some (list [atom "result", atom "oracle-only"])
  | list (atom "sec" :: _) => some (list [atom "result", atom "oracle-only"])
  | _ => none

def main : IO _root_.Unit := driverMain step
