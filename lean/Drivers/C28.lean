import LokiModel.C28.Enc
import LokiModel.C28.Model
open LokiModel.Fir LokiModel.C28 Sexp

def mapUnits (f : List Stmt → List Stmt) (p : Program) : Program :=
  { p with units := p.units.map fun u => { u with body := f u.body } }

def classesOf (m : Mode) (p : Program) : Sexp :=
  list ((if KnownCapture m p then [atom "inline-name-capture"] else []) ++
        (if KnownPrint m p then [atom "inline-print-not-substituted"] else []) ++
        (if KnownReeval m p then [atom "inline-actual-reevaluated"] else []) ++
        (if KnownFreshClash m p then [atom "inline-fresh-name-clash"] else []))

mutual
def substParamS (m : List (String × Ex)) : Stmt → Stmt
  | .assign l r => .assign (substM m l) (substM m r)
  | .doLoop v lo hi st body => .doLoop v (substM m lo) (substM m hi) (substMO m st) (substParamSs m body)
  | .while c b => .while (substM m c) (substParamSs m b)
  | .ifte c t e => .ifte (substM m c) (substParamSs m t) (substParamSs m e)
  | .select e cs d => .select (substM m e) (substParamCs m cs) (substParamSs m d)
  | .assoc bs body => .assoc (bs.map fun b => (b.1, substM m b.2)) (substParamSs m body)
  | .callSub f args => .callSub f (substMs m args)
  | s => s
def substParamSs (m : List (String × Ex)) : List Stmt → List Stmt
  | [] => []
  | s :: ss => substParamS m s :: substParamSs m ss
def substParamCs (m : List (String × Ex)) : List (List Int × List Stmt) → List (List Int × List Stmt)
  | [] => []
  | (vs, b) :: cs => (vs, substParamSs m b) :: substParamCs m cs
end

/-- `inline_constant_parameters(external_only=False)` on one unit: every PARAMETER name replaced by its initial value in the
body and in the other declarations, the PARAMETER declarations with a literal value dropped (PRINT is not substituted) -/
def paramUnit (u : LokiModel.Fir.Unit) : LokiModel.Fir.Unit :=
  let m : List (String × Ex) := u.decls.filterMap fun d => d.param.map fun e => (d.name, e)
  let isLit : Ex → Bool := fun e => match e with | .lit _ => true | _ => false
  let keep := u.decls.filter fun d => match d.param with | some e => !isLit e | none => true
  { u with decls := keep.map (fun d => { d with dims := d.dims.map fun b => (substM m b.1, substM m b.2) }),
           body := substParamSs m u.body }

def step : Sexp → Option Sexp
  | list (atom "sub" :: atom mode :: prog :: _) => do
      let p ← decProgram prog
      let m ← (if mode == "marked" then some Mode.marked else if mode == "internal" then some Mode.internal else none)
      if !Covered m p then pure (list [atom "result", atom "excluded"]) else
      if KnownCapture m p then pure (list [atom "result", classesOf m p, atom "captured"]) else
      pure (list [atom "result", classesOf m p, encProgram (mapUnits dropComments (inlineProgram m p))])
  | list (atom "param" :: prog :: _) => do
      let p ← decProgram prog
      let nonLit := p.units.any fun u => u.decls.any fun d => match d.param with
        | some (.lit _) => false
        | some _ => true
        | none => false
      if nonLit then pure (list [atom "result", atom "excluded"]) else
      pure (list [atom "result", encProgram (mapUnits dropComments { p with units := p.units.map paramUnit })])
  | list (atom "fun" :: _) => some (list [atom "result", atom "oracle-only"])
  | _ => none

def main : IO _root_.Unit := driverMain step
