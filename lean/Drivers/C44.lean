import LokiModel.Sexp
import LokiModel.C44.Model
open LokiModel.C44 Sexp

/-!
Line protocol for C44.

`(build (files (f STEM MOD (USE…))…) (lib STEM…) (w N) (log EVENT…) … [(uptodate STEM…)])` with events `(s o)` submit,
`(b o)` begin/start, `(e o)` end, `(l o…)` link (chronological, as written by the compiler wrapper).
Answer: the dependency edges the model derives, the known-class predicate, the order contract on the
observed submit order, whether the log is a complete run of the model, the ordering invariant on the log
w.r.t. the code's edges and w.r.t. the defining files, exactly-once, and the set of objects built.
-/

def sortNat (l : List Nat) : List Nat := l.mergeSort (fun a b => a ≤ b)

def natList? (xs : List Sexp) : Option (List Nat) := xs.mapM Sexp.toNat?

def parseFile : Sexp → Option FileRec
  | list [atom "f", s, m, list us] => do
      let s ← s.toNat?; let m ← m.toNat?; let us ← natList? us
      pure ⟨s, m, us⟩
  | _ => none

def parseEv : Sexp → Option Ev
  | list [atom "s", o] => o.toNat?.map Ev.submit
  | list [atom "b", o] => o.toNat?.map Ev.start
  | list [atom "e", o] => o.toNat?.map Ev.fin
  | list (atom "l" :: _) => some Ev.link
  | _ => none

def linkArgs : List Sexp → List Nat
  | [] => []
  | list (atom "l" :: os) :: _ => (natList? os).getD []
  | _ :: t => linkArgs t

/-- `(uptodate s…)` among the trailing request fields: objects whose `.o` is newer than the source -/
def freshOf : List Sexp → List Nat
  | [] => []
  | list (atom "uptodate" :: os) :: _ => (natList? os).getD []
  | _ :: t => freshOf t

def edgesOf (fs : List FileRec) (nodes : List Nat) : Sexp :=
  list (atom "edges" :: (fs.filter fun f => nodes.contains f.stem).map fun f =>
    list (ofNat f.stem :: (sortNat (codeDeps fs f.stem).eraseDups).map fun d =>
      list [ofNat d, ofBool (hasSrc fs d)]))

def step : Sexp → Option Sexp
  | list (atom "build" :: list (atom "files" :: fsx) :: list (atom "lib" :: libx) :: list [atom "w", wx]
      :: list (atom "log" :: logx) :: rest) => do
      let fs ← fsx.mapM parseFile
      let lib ← natList? libx
      let w ← wx.toNat?
      let log ← logx.mapM parseEv
      let fresh := freshOf rest
      let walk := subs log
      let c := cfgOfInc fs fresh walk (max w 1)
      let fuel := fs.length + 1
      let nodes := closure fs fuel lib.eraseDups
      let built := sortNat (nodes.filter c.src)
      let acc : Sexp := match replay c (init c) log with
        | some s => if s.linked then list [atom "accepted", atom "true"]
                    else list [atom "accepted", atom "false", atom "incomplete"]
        | none => list [atom "accepted", atom "false", ofNat ((firstReject c (init c) log 0).getD 0)]
      pure (list [atom "ok", edgesOf fs nodes,
        list [atom "known", ofBool (KnownStemMismatch fs)],
        list [atom "topo", ofBool (isTopo c)],
        acc,
        list [atom "inv-code", ofBool (precOK (srcDepsInc fs fresh) [] log)],
        list [atom "inv-true", ofBool (precOK (trueDepsInc fs fresh) [] log)],
        list [atom "once", ofBool (sortNat (starts log) == sortNat walk && sortNat (fins log) == sortNat walk
                                   && decide (walk.eraseDups.length = walk.length))],
        list [atom "walk-complete", ofBool (sortNat walk == built)],
        list (atom "built" :: built.map ofNat),
        list (atom "linked" :: (sortNat (linkArgs logx)).map ofNat),
        list (atom "lib" :: (sortNat lib).map ofNat)])
  | _ => none

def main : IO Unit := driverMain step
