import LokiModel.C29.Codec
open LokiModel.C29

def main : IO Unit := driverMain step
