import LokiModel.Sexp
import LokiModel.C42.Model
open LokiModel.C42 Sexp

/-!
Line protocol for C42.

`(lint (files (f ID KIND (FLAG…))…) (nh N) (w N) (orders (ID…)…) …)` (one call on a fresh reporter) or
`(session (nh N) (call (files …) (w N) (orders …) …) …)` (several calls on ONE linter/reporter, then output): `KIND` is `ok` or `bad`
(unparsable), `FLAG…` one 0/1 per routine (1 = the harness rule reports it); `orders` = for every handler
the observed order of its list (file ids).  Answer: whether the observed orders are a run of the model
(`acceptEvents` + `replay`), the final `checked_count`, the per-file reports of the final state sorted by
file, and whether every handler list equals the serial result as a multiset.
-/

abbrev Rep := Nat × Bool × List Nat

def natList? (xs : List Sexp) : Option (List Nat) := xs.mapM Sexp.toNat?

def flagged : List Nat → Nat → List Nat
  | [], _ => []
  | b :: t, j => if b != 0 then j :: flagged t (j + 1) else flagged t (j + 1)

def parseFile : Sexp → Option Rep
  | list [atom "f", i, atom kind, list fl] => do
      let i ← i.toNat?; let fl ← natList? fl
      pure (i, kind == "ok", if kind == "ok" then flagged fl 0 else [])
  | _ => none

def parseOrders (xs : List Sexp) : Option (List (List Nat)) :=
  xs.mapM fun x => match x with
    | list l => natList? l
    | _ => none

def repSexp (r : Rep) : Sexp :=
  if r.2.1 then list (ofNat r.1 :: atom "ok" :: r.2.2.map ofNat) else list [ofNat r.1, atom "error"]

def sortReps (l : List Rep) : List Rep := l.mergeSort (fun a b => a.1 ≤ b.1)

structure CallReq where
  reps : List Rep
  w : Nat
  orders : List (List Nat)

def parseCall : List Sexp → Option CallReq
  | list (atom "files" :: fsx) :: list [atom "w", wx] :: list (atom "orders" :: ordx) :: _ => do
      let reps ← fsx.mapM parseFile
      let w ← wx.toNat?
      let orders ← parseOrders ordx
      pure ⟨reps, w, orders⟩
  | _ => none

/-- events of a whole session: per call `call files w` followed by the schedule `acceptEvents` finds for the
observed per-handler orders of that call -/
def sessionEvents (nh : Nat) : List CallReq → Option (List Ev)
  | [] => some []
  | cr :: rest => do
      let fs := cr.reps.map (·.1)
      let w := max cr.w 1
      let es ← acceptEvents fs nh w cr.orders
      let more ← sessionEvents nh rest
      pure (Ev.call fs w :: es ++ more)

def answer (nh : Nat) (calls : List CallReq) : Sexp :=
  let reps := calls.flatMap (·.reps)
  let c : Cfg Rep Rep :=
    { lint := fun f => (reps.find? (fun r => r.1 == f)).getD (f, false, []),
      ok := fun r => r.2.1, nh := nh, handle := fun _ r => r }
  let all := reps.map (·.1)
  let serial := sortReps (serialOut c all 0)
  let fin : Option (State Rep) := (sessionEvents nh calls).bind (replay c init)
  -- the observed order of handler k over the session is the concatenation of the per-call orders
  let obs (k : Nat) : List Nat := calls.flatMap (fun cr => (cr.orders[k]?).getD [])
  let okRun : Bool := match fin with
    | some s => isFinal s && (List.range nh).all (fun k => obs k == s.apps k) && calls.all (fun cr => cr.orders.length == nh)
    | none => false
  let (cnt, reports, same) := match fin with
    | some s => (s.count, sortReps (s.outs 0), (List.range nh).all (fun k => sortReps (s.outs k) == serial))
    | none => (all.countP (fun f => c.ok (c.lint f)), serial, true)
  list [atom "ok", list [atom "accepted", ofBool okRun], list [atom "count", ofNat cnt],
    list (atom "reports" :: reports.map repSexp), list [atom "same-multiset", ofBool same]]

def step' : Sexp → Option Sexp
  | list (atom "lint" :: list (atom "files" :: fsx) :: list [atom "nh", nhx] :: list [atom "w", wx]
      :: list (atom "orders" :: ordx) :: _) => do
      let nh ← nhx.toNat?
      let cr ← parseCall [list (atom "files" :: fsx), list [atom "w", wx], list (atom "orders" :: ordx)]
      pure (answer nh [cr])
  | list (atom "session" :: list [atom "nh", nhx] :: callsx) => do
      let nh ← nhx.toNat?
      let calls ← callsx.mapM fun x => match x with
        | list (atom "call" :: rest) => parseCall rest
        | _ => none
      pure (answer nh calls)
  | _ => none

def main : IO Unit := driverMain step'
