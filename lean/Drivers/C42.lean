import LokiModel.Sexp
import LokiModel.C42.Model
open LokiModel.C42 Sexp

/-!
Line protocol for C42.

`(lint (files (f ID KIND (FLAG…))…) (nh N) (w N) (orders (ID…)…) …)`: `KIND` is `ok` or `bad`
(unparsable), `FLAG…` one 0/1 per routine (1 = the harness rule reports it); `orders` = for every handler
the observed order of its list (file ids).  Answer: whether the observed orders are a run of the model
(`acceptEvents` + `replay`), the final `checked_count`, the per-file reports of the final state sorted by
file, and whether every handler list equals the serial result as a multiset.
-/

abbrev Rep := Nat × Bool × List Nat

def natList? (xs : List Sexp) : Option (List Nat) := xs.mapM Sexp.toNat?

def flagged : List Nat → Nat → List Nat
  | [], _ => []
  | b :: t, j => if b != 0 then j :: flagged t (j + 1) else flagged t (j + 1)

def parseFile : Sexp → Option Rep
  | list [atom "f", i, atom kind, list fl] => do
      let i ← i.toNat?; let fl ← natList? fl
      pure (i, kind == "ok", if kind == "ok" then flagged fl 0 else [])
  | _ => none

def parseOrders (xs : List Sexp) : Option (List (List Nat)) :=
  xs.mapM fun x => match x with
    | list l => natList? l
    | _ => none

def repSexp (r : Rep) : Sexp :=
  if r.2.1 then list (ofNat r.1 :: atom "ok" :: r.2.2.map ofNat) else list [ofNat r.1, atom "error"]

def sortReps (l : List Rep) : List Rep := l.mergeSort (fun a b => a.1 ≤ b.1)

def step' : Sexp → Option Sexp
  | list (atom "lint" :: list (atom "files" :: fsx) :: list [atom "nh", nhx] :: list [atom "w", wx]
      :: list (atom "orders" :: ordx) :: _) => do
      let reps ← fsx.mapM parseFile
      let nh ← nhx.toNat?
      let w ← wx.toNat?
      let orders ← parseOrders ordx
      let c : Cfg Rep Rep :=
        { files := reps.map (·.1),
          lint := fun f => (reps.find? (fun r => r.1 == f)).getD (f, false, []),
          ok := fun r => r.2.1, nh := nh, handle := fun _ r => r, w := max w 1 }
      let serial := sortReps (serialOut c 0)
      let fin : Option (State Rep) := (acceptEvents c.files nh c.w orders).bind (replay c (init c))
      let okRun : Bool := match fin with
        | some s => isFinal s && (List.range nh).all (fun k => orders[k]? == some (s.apps k)) && orders.length == nh
        | none => false
      let (cnt, reports, same) := match fin with
        | some s => (s.count, sortReps (s.outs 0), (List.range nh).all (fun k => sortReps (s.outs k) == serial))
        | none => (c.files.countP (fun f => c.ok (c.lint f)), serial, true)
      pure (list [atom "ok", list [atom "accepted", ofBool okRun], list [atom "count", ofNat cnt],
        list (atom "reports" :: reports.map repSexp), list [atom "same-multiset", ofBool same]])
  | _ => none

def main : IO Unit := driverMain step'
