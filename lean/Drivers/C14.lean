import LokiModel.Sexp
import LokiModel.C14.Model
open LokiModel.C14 Sexp

def toKind : String → Option Kind
  | "assign" => some .assign | "call" => some .call | "comment" => some .comment
  | "sect" => some .sect | "loop" => some .loop | "cond" => some .cond | "assoc" => some .assoc
  | "preg" => some .preg | "mcond" => some .mcond
  | _ => none

def kindName : Kind → String
  | .assign => "assign" | .call => "call" | .comment => "comment" | .sect => "sect" | .loop => "loop"
  | .cond => "cond" | .assoc => "assoc" | .preg => "preg" | .mcond => "mcond"

mutual
def toNode : Sexp → Option Node
  | .list (.atom k :: .atom l :: ks) => do
      let k ← toKind k
      let l ← l.toNat?
      let ks ← toKids ks
      pure (Node.mk k l ks)
  | _ => none
def toNodes : List Sexp → Option (List Node)
  | [] => some []
  | x :: xs => do
      let n ← toNode x
      let ns ← toNodes xs
      pure (n :: ns)
def toKids : List Sexp → Option (List (List Node))
  | [] => some []
  | .list b :: bs => do
      let b ← toNodes b
      let bs ← toKids bs
      pure (b :: bs)
  | _ :: _ => none
end

mutual
def ofNode : Node → Sexp
  | .mk k l ks => .list (.atom (kindName k) :: ofNat l :: ofKids ks)
def ofNodes : List Node → List Sexp
  | [] => []
  | x :: xs => ofNode x :: ofNodes xs
def ofKids : List (List Node) → List Sexp
  | [] => []
  | b :: bs => .list (ofNodes b) :: ofKids bs
end

def toHandle : Sexp → Option Handle
  | .atom "none" => some .drop
  | .list [.atom "node", n] => (toNode n).map .node
  | .list (.atom "tuple" :: ns) => (toNodes ns).map .tuple
  | _ => none

def toPairs : List Sexp → Option (List (Node × Handle))
  | [] => some []
  | .list [k, h] :: ps => do
      let k ← toNode k
      let h ← toHandle h
      let ps ← toPairs ps
      pure ((k, h) :: ps)
  | _ :: _ => none

def errName : Err → String
  | .attr => "attributeerror" | .fuel => "recursion" | .value => "nested-tuple" | .shape => "shape"

def FUEL : Nat := 150

/-- coverage flags are compared only for runs that do not mutate the objects used as `rebuilt` keys -/
def covOf (cfg : Cfg) (orig : List Node) (recd : List Node) : Sexp :=
  if cfg.inplace || (!cfg.rebuildScopes && hasScoped orig) then .atom "skip"
  else .list ((nodesL orig).map fun n => ofBool (recd.contains n))

def step : Sexp → Option Sexp
  | .list [.atom "visit", .atom which, inpl, rs, .atom root, .list m, t] => do
      let inplace ← inpl.toBool?
      let rs ← rs.toBool?
      let cfg : Cfg := { inplace := inplace, rebuildScopes := rs }
      let m := mkDict (← toPairs m)
      let nested := which == "nested"
      if root == "node" then
        let o ← toNode t
        match (if nested then nestedNode cfg m FUEL o else visitNode cfg m FUEL o) with
        | .error e => pure (.list [.atom "error", .atom (errName e)])
        | .ok r =>
          pure (.list [.atom "ok",
            .list [.atom "res", match r.res with | none => .atom "none" | some n => ofNode n],
            .list [.atom "post", ofNode r.post],
            .list [.atom "cov", covOf cfg [o] r.recd]])
      else
        let o ← match t with | .list xs => toNodes xs | _ => none
        match (if nested then nestedList cfg m FUEL o else visitList cfg m FUEL o) with
        | .error e => pure (.list [.atom "error", .atom (errName e)])
        | .ok r =>
          pure (.list [.atom "ok",
            .list [.atom "res", .list (ofNodes r.res)],
            .list [.atom "post", .list (ofNodes r.post)],
            .list [.atom "cov", covOf cfg o r.recd]])
  | _ => none

def main : IO Unit := driverMain step
