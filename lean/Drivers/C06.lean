import LokiModel.Sexp
import LokiModel.C06.Codec
import LokiModel.C06.CodecC
import LokiModel.C06.Good
import LokiModel.C06.GoodC
open LokiModel.C06 LokiModel.Expr Sexp

def step : Sexp → Option Sexp
  | list (atom "printF" :: e :: p :: _) => do
      let e ← decE e; let p ← p.toNat?
      pure (list (atom "ok" :: list [atom "good", ofBool (Good fcfg e)] :: (printF fcfg e p).map encTok))
  | list (atom "printC" :: e :: p :: _) => do
      let e ← decE e; let p ← p.toNat?
      pure (list (atom "ok" :: list [atom "good", ofBool (GoodC ccfg e)] :: (printC ccfg e p).map encCTok))
  | list (atom "gccC" :: e :: p :: _) => do
      let e ← decE e; let p ← p.toNat?
      pure (list (atom "ok" :: list [atom "good", ofBool (GoodC ccfg e)] :: (printC ccfg e p).map encCTok))
  | list [atom "den", e] => do
      let e ← decE e
      pure (list [atom "ok", encS (den e)])
  | _ => none

def main : IO Unit := driverMain step
