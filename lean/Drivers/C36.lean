import LokiModel.Sexp
import LokiModel.C06.Codec
import LokiModel.C36.Model
import LokiModel.Fir.Codec
open LokiModel.C06 LokiModel.C36 LokiModel.Expr Sexp

def encPTok : PTok → Sexp
  | .num n => atom s!"num:{n}"
  | .rnum t => list [atom "rnum", str t]
  | .id s => list [atom "id", str s]
  | .tru => atom "tru" | .fls => atom "fls"
  | .plus => atom "plus" | .minus => atom "minus" | .star => atom "star" | .slash => atom "slash"
  | .dstar => atom "dstar" | .lp => atom "lp" | .rp => atom "rp"
  | .cmp o => atom (encCmp o) | .not => atom "not" | .and => atom "and" | .or => atom "or"

def encOV : Option Val → Sexp
  | some v => LokiModel.Fir.encVal v
  | none => atom "err"

/-- valuation from `((x val)…)` (names are lower case, Fortran variables are looked up case-insensitively); real literal texts are read by the harness and passed as `(lit "text" num den)` -/
def decEnv (vars lits : List Sexp) : Option Env := do
  let vs ← vars.mapM fun
    | list [x, v] => do pure ((← x.toStr?), (← LokiModel.Fir.decVal v))
    | _ => none
  let ls ← lits.mapM fun
    | list [t, n, d] => do
        let n ← n.toInt?; let d ← d.toNat?
        if d = 0 then none else pure ((← t.toStr?), ((n : Rat) / (d : Rat)))
    | _ => none
  pure ⟨fun x => (vs.find? (·.1 == x.toLower)).map (·.2), fun t => ((ls.find? (·.1 == t)).map (·.2)).getD 0⟩

def optStep : Sexp → Option (Option Int)
  | atom "none" => some none
  | x => x.toInt?.map some

def step : Sexp → Option Sexp
  | list [atom "expr", e, list vars, list lits] => do
      let e ← decE e
      let env ← decEnv vars lits
      let s := den e
      pure (list [atom "ok", list (atom "tok" :: (printPy pycfg e 0).map encPTok),
                  list [atom "py", encOV (evalPy env s)], list [atom "f", encOV (evalS env s)],
                  list [atom "known", ofBool (KnownPyExpr env s)]])
  -- `(prog mode program inputs…)`: the reference semantics (Lean FIR interpreter) of the routine on every input set
  | list (atom "prog" :: _ :: prog :: inputs) => do
      let p ← LokiModel.Fir.decProgram prog
      let names := match LokiModel.Fir.findUnit p p.main with | some u => u.args | none => []
      let rs ← inputs.mapM fun
        | list ins => do
            let ins ← LokiModel.Fir.decInputs ins
            pure (LokiModel.Fir.encRes names (LokiModel.Fir.runMain p 100000 ins))
        | _ => none
      pure (list (atom "ok" :: rs))
  | list [atom "range", s, e, st] => do
      let s ← s.toInt?; let e ← e.toInt?; let st ← optStep st
      match loopRange s e st with
      | some xs => pure (list (atom "ok" :: xs.map ofInt))
      | none => pure (list [atom "error", atom "valueerror"])
  | _ => none

def main : IO Unit := driverMain step
