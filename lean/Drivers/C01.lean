import LokiModel.Sexp
import LokiModel.C02.Codec
import LokiModel.C01.Model
open LokiModel.C02 LokiModel.Expr Sexp

def styleOf : Sexp → Option Style
  | atom "fortran" => some fortranStyle
  | atom "ifs" => some ifsStyle
  | _ => none

/-- `(c01 lines STYLE (LINE…))` → `(ok PROG1)`: read the text, regenerate it with the model of `fgen`, read the regenerated lines
with the reference parser, export — what `fir.export_unit(parse(fgen(parse(src))))` gives on the real side -/
def step : Sexp → Option Sexp
  | list [atom "c01", atom "lines", st, list ls] => do
      let st ← styleOf st
      let lines ← mapM' decLine ls
      match pUnits (lines.length + 2) lines with
      | none => pure (list [atom "error", atom "parse"])
      | some us =>
        let out := us.flatMap (gUnit st)
        match pUnits (out.length + 2) out with
        | some (u :: us1) =>
          match mapM' denUnit (u :: us1) with
          | some dus => pure (list [atom "ok", list (atom "program" :: atom u.name :: dus)])
          | none => pure (list [atom "error", atom "reparse"])
        | _ => pure (list [atom "error", atom "reparse"])
  | list (atom "c01" :: _) => some (list [atom "skip"])
  | _ => none

def main : IO Unit := driverMain step
