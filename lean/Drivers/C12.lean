import LokiModel.Sexp
import LokiModel.C12.Model
open LokiModel.C12 Sexp

def nm : Sexp → Option Name
  | .str s => some s.toList
  | _ => none

def optNat : Sexp → Option (Option Nat)
  | atom "none" => some none
  | x => x.toNat?.map some

def pairs : List Sexp → Option (List (Name × Nat))
  | [] => some []
  | list [k, v] :: r => do
      let k ← nm k; let v ← v.toNat?; let r ← pairs r
      pure ((k, v) :: r)
  | _ => none

def parseOp : Sexp → Option Op
  | list [atom "new", c] => do pure (.new (← c.toNat?))
  | list [atom "mutate", h, c] => do pure (.mutate (← h.toNat?) (← c.toNat?))
  | list [atom "newtab", p] => do pure (.newtab (← optNat p))
  | list [atom "newscope", p] => do pure (.newscope (← optNat p))
  | list [atom "set", i, k, h] => do pure (.set (← i.toNat?) (← nm k) (← h.toNat?))
  | list [atom "setdefault", i, k, h] => do pure (.setdefault (← i.toNat?) (← nm k) (← optNat h))
  | list (atom "update" :: i :: _ :: kvs) => do pure (.update (← i.toNat?) (← pairs kvs))
  | list [atom "get", i, k] => do pure (.get (← i.toNat?) (← nm k))
  | list [atom "getd", i, k, d] => do pure (.getd (← i.toNat?) (← nm k) (← d.toNat?))
  | list [atom "getitem", i, k] => do pure (.getitem (← i.toNat?) (← nm k))
  | list [atom "lookup", i, k, r] => do pure (.lookup (← i.toNat?) (← nm k) (← r.toBool?))
  | list [atom "contains", i, k] => do pure (.contains (← i.toNat?) (← nm k))
  | list [atom "del", i, k] => do pure (.del (← i.toNat?) (← nm k))
  | list [atom "pop", i, k] => do pure (.pop (← i.toNat?) (← nm k))
  | list [atom "popd", i, k] => do pure (.popd (← i.toNat?) (← nm k))
  | list [atom "popdv", i, k, d] => do pure (.popdv (← i.toNat?) (← nm k) (← d.toNat?))
  | list [atom "clone", i, atom "inherit"] => do pure (.clone (← i.toNat?) .inherit)
  | list [atom "clone", i, atom "none"] => do pure (.clone (← i.toNat?) .none)
  | list [atom "clone", i, p] => do pure (.clone (← i.toNat?) (.some (← p.toNat?)))
  | list [atom "setparent", i, p] => do pure (.setparent (← i.toNat?) (← optNat p))
  | list [atom "declare", i, k, c, f] => do pure (.declare (← i.toNat?) (← nm k) (← c.toNat?) (← f.toBool?))
  | list [atom "supdate", i, k, c, f] => do pure (.supdate (← i.toNat?) (← nm k) (← c.toNat?) (← f.toBool?))
  | list [atom "gettype", i, k, r, f] => do pure (.gettype (← i.toNat?) (← nm k) (← r.toBool?) (← f.toBool?))
  | list [atom "symscope", i, k] => do pure (.symscope (← i.toNat?) (← nm k))
  | list [atom "reparent", i, p] => do pure (.reparent (← i.toNat?) (← optNat p))
  | _ => none

def parseDOp : Sexp → Option DOp
  | list [atom "set", k, v] => do pure (.set (← nm k) (← v.toNat?))
  | list [atom "get", k] => do pure (.get (← nm k))
  | list [atom "getd", k, d] => do pure (.getd (← nm k) (← d.toNat?))
  | list [atom "getitem", k] => do pure (.getitem (← nm k))
  | list [atom "contains", k] => do pure (.contains (← nm k))
  | list [atom "del", k] => do pure (.del (← nm k))
  | list [atom "pop", k] => do pure (.pop (← nm k))
  | list [atom "popd", k] => do pure (.popd (← nm k))
  | list [atom "popdv", k, d] => do pure (.popdv (← nm k) (← d.toNat?))
  | list [atom "setdefault", k, v] => do pure (.setdefault (← nm k) (← v.toNat?))
  | list (atom "update" :: _ :: kvs) => do pure (.update (← pairs kvs))
  | _ => none

def outS : Out → Sexp
  | .unit => atom "unit"
  | .none => atom "none"
  | .val c => list [atom "val", ofNat c]
  | .bool b => ofBool b
  | .keyError => atom "keyerror"
  | .valueError => atom "valueerror"
  | .scope i => list [atom "scope", ofNat i]
  | .recursion => atom "recursion"
  | .bad => atom "bad"
  | .dflt d => list [atom "dflt", ofNat d]

def optS : Option Nat → Sexp
  | none => atom "none"
  | some n => ofNat n

def entsS (e : List (Name × Nat)) : Sexp := list (e.map fun kv => list [.str (String.ofList kv.1), ofNat kv.2])

def tabS (t : Tab) : Sexp :=
  list [atom "tab", entsS t.ents, optS t.parent, ofBool t.isScope, if t.isScope then optS t.sparent else atom "none"]

def step : Sexp → Option Sexp
  | list (atom "symtab" :: ops) => do
      let ops ← ops.mapM parseOp
      let r := run St.init ops
      pure (list [atom "ok", list (r.2.map outS), list (atom "tabs" :: r.1.tabs.map tabS), list (atom "hs" :: r.1.hs.map ofNat)])
  | list (atom "cid" :: ops) => do
      let ops ← ops.mapM parseDOp
      let r := drun .ordered [] ops
      pure (list [atom "ok", list (r.2.map outS), list (atom "items" :: (r.1.map fun kv => list [.str (String.ofList kv.1), ofNat kv.2]))])
  | list (atom "cidd" :: ops) => do
      let ops ← ops.mapM parseDOp
      let r := drun .dflt [] ops
      pure (list [atom "ok", list (r.2.map outS), list (atom "items" :: (r.1.map fun kv => list [.str (String.ofList kv.1), ofNat kv.2]))])
  | _ => none

def main : IO Unit := driverMain step
