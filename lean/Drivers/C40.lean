import LokiModel.C40.Enc
import LokiModel.C40.Model
import LokiModel.C40.Abstract
open LokiModel.Fir LokiModel.C40 Sexp

def decShape : Sexp → Option (Option (List String))
  | atom "none" => some none
  | list ds => (decStrs ds).map some
  | _ => none

def decSyms : List Sexp → Option (List Sym)
  | [] => some []
  | list [atom "sym", n, sh] :: xs => do pure ({ name := ← n.toStr?, shape := ← decShape sh } :: (← decSyms xs))
  | _ => none

def decDeclStmts : List Sexp → Option (List DeclStmt)
  | [] => some []
  | list (atom "stmt" :: a :: ss) :: xs => do pure ({ attrs := ← a.toStr?, syms := ← decSyms ss } :: (← decDeclStmts xs))
  | _ => none

def encDeclStmt (d : DeclStmt) : Sexp :=
  list (atom "stmt" :: str d.attrs :: d.syms.map fun s =>
    list [atom "sym", atom s.name, match s.shape with | none => atom "none" | some ds => list (ds.map str)])

def decVars : Sexp → Option (Option (List String))
  | atom "none" => some none
  | list vs => (decStrs vs).map some
  | _ => none

def decImps : List Sexp → Option (List Imp)
  | [] => some []
  | list [atom "use", m, atom "none"] :: xs => do pure ({ modname := ← m.toStr?, syms := none } :: (← decImps xs))
  | list [atom "use", m, list ss] :: xs => do pure ({ modname := ← m.toStr?, syms := some (← decStrs ss) } :: (← decImps xs))
  | _ => none

def encImp (i : Imp) : Sexp :=
  list [atom "use", atom i.modname, match i.syms with | none => atom "none" | some ss => list (ss.map atom)]

def decMembers : List Sexp → Option (List (List String × List Imp))
  | [] => some []
  | list [list u, list is] :: xs => do pure ((← decStrs u, ← decImps is) :: (← decMembers xs))
  | _ => none

/-- requests: `(fir lower prog)` → `(result prog')`; `(fir deadns prog)` → `(result covered prog')` | `(raised covered)`;
`(decl vars groupByShape (stmt …)…)` → `(decls (stmt …)…)`; `(imp (used…) ((use …)…) (((used…) ((use …)…))…))` →
`(imports ((use …)…) (((use …)…)…))`; every other request (oracle-only streams) → `(nomodel)` -/
def step : Sexp → Option Sexp
  | list [atom "fir", atom "lower", prog] => do
      let p ← decProgram prog
      pure (list [atom "result", encProgram (lowerProgram p)])
  | list [atom "fir", atom "deadns", prog] => do
      let p ← decProgram prog
      match deadProgram p with
      | some q => pure (list [atom "result", ofBool (DeadCovered p), encProgram q])
      | none => pure (list [atom "raised", ofBool (DeadCovered p)])
  | list (atom "decl" :: vars :: g :: stmts) => do
      let ds ← decDeclStmts stmts
      pure (list (atom "decls" :: (singleDecl (← decVars vars) (← g.toBool?) ds).map encDeclStmt))
  | list [atom "imp", list used, list imps, list members] => do
      let s : Scope1 := { used := ← decStrs used, imps := ← decImps imps, members := ← decMembers members }
      let r := sanitiseRoutine s
      pure (list [atom "imports", list (r.imps.map encImp), list (r.members.map fun m => list (m.2.map encImp))])
  | list (atom "fir" :: _) => some (list [atom "nomodel"])
  | list (atom "src" :: _) => some (list [atom "nomodel"])
  | _ => none

def main : IO _root_.Unit := driverMain step
