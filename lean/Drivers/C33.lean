import LokiModel.C33.Enc
import LokiModel.C33.Model
open LokiModel.Fir LokiModel.C33 Sexp

/-- `(outline prog inputs flag)` → `(result (classes…) prog')`: the known-finding classes the regions of the program fall in and
the program after `outline_pragma_regions` on the main unit (new units appended); `excluded` instead of the program when a
region is outside the covered class (CALL inside the region, pragma override of an array, ASSOCIATE in or around a region) -/
def outlineResp (prog : Sexp) : Option Sexp := do
  let p ← decProgram prog
  let r := outlineProgram p
  pure (list [atom "result", list (r.classes.map atom),
    if r.excluded then atom "excluded" else encProgram r.prog])

def step : Sexp → Option Sexp
  | list [atom "outline", prog, _, _, cs] =>
      -- respelled variant (letter case of every name occurrence randomised in the text handed to Loki): `sorted(key=str)`
      -- then orders the dummies by the spelling of their first occurrence, which the model does not follow — oracle only
      if cs == atom "0" then outlineResp prog else some (list [atom "case-variant", atom "oracle-only"])
  | list (atom "outline" :: prog :: _) => outlineResp prog
  | _ => none

def main : IO _root_.Unit := driverMain step
