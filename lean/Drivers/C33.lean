import LokiModel.C33.Enc
import LokiModel.C33.Model
open LokiModel.Fir LokiModel.C33 Sexp

/-- `(outline prog inputs flag)` → `(result (classes…) prog')`: the known-finding classes the regions of the program fall in and
the program after `outline_pragma_regions` on the main unit (new units appended); `excluded` instead of the program when a
region is outside the covered class (CALL inside the region, pragma override of an array, ASSOCIATE in or around a region) -/
def step : Sexp → Option Sexp
  | list (atom "outline" :: prog :: _) => do
      let p ← decProgram prog
      let r := outlineProgram p
      pure (list [atom "result", list (r.classes.map atom),
        if r.excluded then atom "excluded" else encProgram r.prog])
  | _ => none

def main : IO _root_.Unit := driverMain step
