import LokiModel.Sexp
import LokiModel.C19.Reader
import LokiModel.C19.Discover
open LokiModel.C19 Sexp

namespace C19Driver

def insertBy {α} (lt : α → α → Bool) (x : α) : List α → List α
  | [] => [x]
  | y :: ys => if lt y x then y :: insertBy lt x ys else x :: y :: ys

def sortBy {α} (lt : α → α → Bool) (xs : List α) : List α := xs.foldl (fun acc x => insertBy lt x acc) []

def sortStr (xs : List String) : List String := sortBy (fun a b => decide (a < b) || a == b) xs

def key2 (p : String × String) : String := p.1 ++ "\x01" ++ p.2

def pathS (p : List String) : Sexp := str ("/".intercalate p)

def kindA : UKind → Sexp
  | .module => atom "module" | .subroutine => atom "subroutine" | .function => atom "function"

def factS : Fact → Sexp
  | .unit p k n => list [atom "unit", pathS p, kindA k, str n]
  | .imp p m how items =>
      list ([atom "import", pathS p, str m, atom how] ++
        (sortBy (fun a b => decide (key2 a < key2 b) || key2 a == key2 b) items).map fun (a, b) => list [str a, str b])
  | .typedef p n bs gs =>
      let bs' := sortBy (fun a b => decide (key2 a < key2 b) || key2 a == key2 b) bs
      let gs' := gs.map fun (g, ts) => g :: sortStr ts
      let k (l : List String) := "\x01".intercalate l
      let gs'' := sortBy (fun a b => decide (k a < k b) || k a == k b) gs'
      list [atom "typedef", pathS p, str n,
        list (atom "binds" :: bs'.map fun (a, b) => list [str a, str b]),
        list (atom "generics" :: gs''.map fun l => list (l.map str))]
  | .iface p s a ps bs =>
      list [atom "interface", pathS p, str s, atom (if a then "abstract" else "plain"),
        list (atom "procs" :: (sortStr ps).map str), list (atom "bodies" :: (sortStr bs).map str)]
  | .call p t => list [atom "call", pathS p, str t]

def factsS (fs : List Fact) : List Sexp :=
  let rs := fs.map fun f => let s := factS f; (toString s, s)
  (sortBy (fun a b => decide (a.1 < b.1) || a.1 == b.1) rs).map (·.2)

def clsOf (xs : List Sexp) : Option Classes :=
  xs.foldlM (fun (c : Classes) x =>
    match x with
    | atom "pu" => some { c with pu := true }
    | atom "if" => some { c with ifc := true }
    | atom "im" => some { c with im := true }
    | atom "td" => some { c with td := true }
    | atom "de" => some { c with de := true }
    | atom "ca" => some { c with ca := true }
    | atom "pr" => some { c with pr := true }
    | _ => none) Classes.empty

def linesOf (xs : List Sexp) : Option (List Line) := xs.mapM fun | str s => some s.toList | _ => none

def itemS (i : Item) : Sexp := list [str (String.ofList i.text), ofNat i.l1, ofNat i.l2]

def histOf (h : Sexp) : Option (Classes × List Classes) :=
  match h with
  | list (list f :: more) => do
      let f ← clsOf f
      let ms ← more.mapM fun | list m => clsOf m | _ => none
      pure (f, ms)
  | _ => none

def step : Sexp → Option Sexp
  | list [atom "file", list (atom "lines" :: ls), list (atom "orders" :: hs)] => do
      let src ← linesOf ls
      let ss := stmts src
      let known := KnownNestedEndThenModule ss
      let all := factsS (discover Classes.all ss)
      let hists ← hs.mapM histOf
      let hv := hists.map fun (f, ms) =>
        let s := runHistory f ms
        if known || (match s.unitCls with | some u => KnownBlockClassAlone u | none => false) then atom "skipped"
        else list (factsS (s.view ss))
      pure (list [atom "ok",
        list (atom "known" :: (if known then [atom "nested-end-then-module"] else [])),
        list (atom "stmts" :: ss.map itemS),
        list (atom "fp" :: all),
        list (atom "regex" :: (if known then [atom "skipped"] else all)),
        list (atom "hist" :: hv),
        list (atom "lost" :: hists.map fun (f, ms) => ofBool (KnownRequestLost f ms))])
  | _ => none

end C19Driver

def main : IO Unit := driverMain C19Driver.step
