import LokiModel.Sexp
import LokiModel.C38.Model
open LokiModel.C38 Sexp

mutual
def decSE : Sexp → Option SE
  | list [atom "lit", n] => do pure (.lit (← n.toNat?))
  | list [atom "v", x] => do pure (.var (← x.toStr?))
  | list [atom "add", a, b] => do pure (.add (← decSE a) (← decSE b))
  | list [atom "mul", a, b] => do pure (.mul (← decSE a) (← decSE b))
  | list [atom "max", a, b] => do pure (.max (← decSE a) (← decSE b))
  | _ => none
end

def decSEs : List Sexp → Option (List SE)
  | [] => some []
  | x :: xs => do pure ((← decSE x) :: (← decSEs xs))

def decMap : List Sexp → Option (List (String × SE))
  | [] => some []
  | list [x, e] :: xs => do pure ((← x.toStr?, ← decSE e) :: (← decMap xs))
  | _ => none

mutual
def decCT : Sexp → Option CT
  | list [atom "node", list locals, list calls] => do pure (.node (← decSEs locals) (← decCalls calls))
  | _ => none
def decCalls : List Sexp → Option Calls
  | [] => some .nil
  | list [list m, t] :: rest => do pure (.cons (← decMap m) (← decCT t) (← decCalls rest))
  | _ => none
end

def decVal : List Sexp → Option (List (String × Nat))
  | [] => some []
  | list [x, n] :: xs => do pure ((← x.toStr?, ← n.toNat?) :: (← decVal xs))
  | _ => none

/-- * `(size tree ((x n)…) …)` → `(result n)`: `_determine_stack_size` of the root evaluated under the valuation;
* `(layout base (sizes…))` → `(result ((start size)…) total)`;
* `(tree …)` → `(result oracle-only)`. -/
def step : Sexp → Option Sexp
  | list (atom "size" :: tree :: list vals :: _) => do
      let t ← decCT tree
      let v ← decVal vals
      let ρ : String → Nat := fun x => ((v.find? (·.1 == x)).map (·.2)).getD 0
      pure (list [atom "result", ofNat ((stackSize t).eval ρ)])
  | list [atom "layout", b, list sizes] => do
      let b ← b.toNat?
      let ss ← sizes.mapM (·.toNat?)
      pure (list [atom "result", list ((intervals b ss).map fun p => list [ofNat p.1, ofNat p.2]), ofNat (total ss)])
  | list (atom "tree" :: _) => some (list [atom "result", atom "oracle-only"])
  | _ => none

def main : IO _root_.Unit := driverMain step
