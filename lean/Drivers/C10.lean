import LokiModel.Sexp
import LokiModel.C10.Model
open LokiModel.C10 Sexp

def optStep : Sexp → Option (Option Int)
  | atom "none" => some none
  | x => x.toInt?.map some

def step : Sexp → Option Sexp
  | list [atom "pyrange", s, e, st, _] => do
      let s ← s.toInt?; let e ← e.toInt?; let st ← optStep st
      match getPyrange s e st with
      | some xs => pure (list (atom "ok" :: xs.map ofInt))
      | none => pure (list [atom "error", atom "valueerror"])
  | list [atom "doseq", s, e, st] => do
      let s ← s.toInt?; let e ← e.toInt?; let st ← st.toInt?
      pure (list (atom "ok" :: (doSeq s e st).map ofInt))
  | list [atom "numiter", s, e, st, _] => do
      let s ← s.toInt?; let e ← e.toInt?; let st ← optStep st
      pure (list [atom "ok", ofInt (numIter s e st)])
  | list [atom "iternum", i, s, st, _] => do
      let i ← i.toInt?; let s ← s.toInt?; let st ← optStep st
      pure (list [atom "ok", ofInt (iterNumber i s st)])
  | list [atom "iteridx", k, s, st, _] => do
      let k ← k.toInt?; let s ← s.toInt?; let st ← optStep st
      pure (list [atom "ok", ofInt (iterIndex k s st)])
  | _ => none

def main : IO Unit := driverMain step
