import LokiModel.Sexp
import LokiModel.C15.Model
open LokiModel.C15 Sexp

/-! Line-protocol driver for C15 (see harness/props/c15.py for the request grammar). -/

def optE (f : Sexp → Option E) : Sexp → Option (Option E)
  | .atom "none" => some none
  | s => (f s).map some

def toStrs : List Sexp → Option (List String)
  | [] => some []
  | x :: xs => do
      let s ← x.toStr?
      let ss ← toStrs xs
      pure (s :: ss)

mutual
def toE : Sexp → Option E
  | .list [.atom "sym", .atom c, .str t, .str n, p] => do
      let p ← match p with | .atom "none" => some none | s => (toE s).map some
      pure (.sym ⟨c, t, n⟩ p)
  | .list [.atom "msym", .atom c, .str t, .str n, i, ini] => do
      let i ← toE i
      let ini ← match ini with | .atom "none" => some none | s => (toE s).map some
      pure (.msym ⟨c, t, n⟩ i ini)
  | .list [.atom "sub", .atom c, .str t, a, i] => do
      let a ← toE a
      let i ← toE i
      pure (.sub ⟨c, t, ""⟩ a i)
  | .list (.atom "tup" :: xs) => do
      let xs ← toEs xs
      pure (.tup xs)
  | .list [.atom "klit", .atom c, .str t, k] => do
      let k ← match k with | .atom "none" => some none | s => (toE s).map some
      pure (.klit ⟨c, t, ""⟩ k)
  | .list [.atom "const", .atom c, .str t] => some (.const ⟨c, t, ""⟩)
  | .list [.atom "call", .atom c, .str t, f, .list as, .list ns, .list vs] => do
      let f ← toE f
      let as ← toEs as
      let ns ← toStrs ns
      let vs ← toEs vs
      pure (.call ⟨c, t, ""⟩ f as ns vs)
  | .list [.atom "cast", .atom c, .str t, f, .list as, k] => do
      let f ← toE f
      let as ← toEs as
      let k ← match k with | .atom "none" => some none | s => (toE s).map some
      pure (.cast ⟨c, t, ""⟩ f as k)
  | .list [.atom "slice", .atom c, .str t, a, b, s] => do
      let a ← match a with | .atom "none" => some none | x => (toE x).map some
      let b ← match b with | .atom "none" => some none | x => (toE x).map some
      let s ← match s with | .atom "none" => some none | x => (toE x).map some
      pure (.slice ⟨c, t, ""⟩ a b s)
  | .list [.atom "nary", .atom c, .str t, .list xs] => do
      let xs ← toEs xs
      pure (.nary ⟨c, t, ""⟩ xs)
  | .list [.atom "bin", .atom c, .str t, a, b] => do
      let a ← toE a
      let b ← toE b
      pure (.bin ⟨c, t, ""⟩ a b)
  | .list [.atom "un", .atom c, .str t, a] => do
      let a ← toE a
      pure (.un ⟨c, t, ""⟩ a)
  | .list [.atom "llist", .atom c, .str t, .list xs] => do
      let xs ← toEs xs
      pure (.llist ⟨c, t, ""⟩ xs)
  | .list [.atom "ido", .atom c, .str t, v, x, b] => do
      let v ← toE v
      let x ← toE x
      let b ← toE b
      pure (.ido ⟨c, t, ""⟩ v x b)
  | .list [.atom "pystr", .str s] => some (.pystr s)
  | _ => none
def toEs : List Sexp → Option (List E)
  | [] => some []
  | x :: xs => do
      let e ← toE x
      let es ← toEs xs
      pure (e :: es)
end

mutual
def toChild : Sexp → Option Child
  | .list [.atom "e", x] => (toE x).map .e
  | .list [.atom "junk", .str s] => some (.junk s)
  | .list (.atom "grp" :: cs) => (toChildren cs).map .grp
  | .list [.atom "node", .atom k, u, l, .list cs, .list hs] => do
      let u ← u.toNat?
      let l ← l.toNat?
      let cs ← toChildren cs
      let hs ← toEs hs
      pure (.n (.mk k u l cs hs))
  | _ => none
def toChildren : List Sexp → Option (List Child)
  | [] => some []
  | x :: xs => do
      let c ← toChild x
      let cs ← toChildren xs
      pure (c :: cs)
end

def ofNodeRef (n : Node) : Sexp := .list [.atom n.kind, ofNat n.uid]
def ofE (e : E) : Sexp := .list [.atom e.tag.cls, .str e.tag.txt]

def ofItem : Item → Sexp
  | .e x => ofE x
  | .junk s => .list [.atom "junk", .str s]
  | .node u => .list [.atom "rawnode", ofNat u]

def ofR : R → Sexp
  | .item i => ofItem i
  | .pair u xs => .list [.atom "pair", ofNat u, .list (xs.map ofItem)]
  | .tpair raw xs => .list [.atom "tpair", .list (raw.map ofItem), .list (xs.map ofItem)]

def ofScope (a : List Node) : Sexp := .list (.atom "chain" :: a.map ofNodeRef)

def clsQuery (names : List String) (e : E) : Bool := names.contains e.tag.cls

def step : Sexp → Option Sexp
  | .list [.atom "findnodes", .atom "type", g, .list names, root, _, _] => do
      let g ← g.toBool?
      let names ← toStrs names
      let root ← toChild root
      pure (.list ((findC (ruleType names) g root).map ofNodeRef))
  | .list [.atom "findnodes", .atom "scope", g, l, root, _, _] => do
      let g ← g.toBool?
      let l ← l.toNat?
      let root ← toChild root
      pure (.list ((findC (ruleScope l) g root).map ofNodeRef))
  | .list [.atom "findscopes", g, u, root, _] => do
      let g ← g.toBool?
      let u ← u.toNat?
      let root ← toChild root
      pure (.list ((scopesC u g [] root).map ofScope))
  | .list [.atom "retrieve", .list names, e, _, _] => do
      let names ← toStrs names
      let e ← toE e
      pure (.list ((walk (clsQuery names) e).map ofE))
  | .list [.atom "finder", u, p, .list names, root, _, _] => do
      let u ← u.toBool?
      let p ← p.toBool?
      let names ← toStrs names
      let root ← toChild root
      match finderV ⟨u, p⟩ (clsQuery names) root with
      | .error _ => pure (.list [.atom "error", .atom "assertion"])
      | .ok rs => pure (.list (.atom "ok" :: rs.map ofR))
  | _ => none

def main : IO Unit := driverMain step
