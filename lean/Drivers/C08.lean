import LokiModel.Sexp
import LokiModel.C06.Codec
import LokiModel.C08.Model
import LokiModel.C08.Str
import LokiModel.Generated.C08Tables
open LokiModel.C06 LokiModel.C08 LokiModel.Expr Sexp

/-- flags on the wire: the integer value of the `Simplification` flag set (Flatten=1, IntegerArithmetic=2,
FloatingPointArithmetic=4, CollectCoefficients=8, LogicEvaluation=16) -/
def decFlags (n : Nat) : Flags :=
  ⟨(n / Tables.flagFlatten) % 2 == 1, (n / Tables.flagIntegerArithmetic) % 2 == 1,
   (n / Tables.flagCollectCoefficients) % 2 == 1, (n / Tables.flagLogicEvaluation) % 2 == 1⟩

def fuel : Nat := 100000

def step : Sexp → Option Sexp
  | list (atom "simp" :: fl :: e :: _) => do
      let n ← fl.toNat?; let e ← decE e
      if (n / Tables.flagFloatingPointArithmetic) % 2 == 1 then pure (list [atom "skip"]) else
      let fl := decFlags n
      if (fl.intA && hasRealPow e) || (fl.flatten && nestedQuot e) then pure (list [atom "skip"]) else
      match simp (kStr false) fl fuel e with
      | some r =>
        -- the strict model (the one under the theorem) must give the same tree whenever it gives one
        let (strictOk, same) := match simp (kStr true) fl fuel e with
          | some r' => (true, encE r' == encE r)
          | none => (false, true)
        pure (list [atom "ok", list [atom "dom", ofBool (InDomain fl e && strictOk), ofBool strictOk, ofBool same], encE r])
      | none => pure (list [atom "error"])
  | list (atom "osimp" :: _) => pure (list [atom "skip"])
  | list [atom "str", e] => do
      let e ← decE e
      pure (list [atom "ok", Sexp.str (strE e)])
  | _ => none

def main : IO Unit := driverMain step
