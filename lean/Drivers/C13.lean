import LokiModel.Sexp
import LokiModel.C13.Model
open LokiModel.C13 Sexp

/-! Line protocol for C13: one history per line,
`(hist (tdefs ("t" ("a" τ) …) …) (ops op …))` → `(ok (out (syms …) (tabs …)) …)`; after every operation the
type of every symbol is read (in creation order, state threaded) and all tables are dumped. -/

def nameOf (x : Sexp) : Option Name := x.toStr?.map String.toList
def strOf (n : Name) : Sexp := str (String.ofList n)

def optOf {α} (f : Sexp → Option α) : Sexp → Option (Option α)
  | atom "none" => some none
  | x => (f x).map some

def keepOf {α} (f : Sexp → Option α) : Sexp → Option (Option α)
  | atom "keep" => some none
  | x => (f x).map some

def dtypeOf : Sexp → Option Dtype
  | atom "deferred" => some .deferred
  | atom "logical" => some .logical
  | atom "integer" => some .integer
  | atom "real" => some .real
  | list [atom "derived", n, i] => do pure (.derived (← nameOf n) (← optOf toNat? i))
  | list [atom "proc", n] => do pure (.proc (← nameOf n))
  | _ => none

def tyOf : Sexp → Option Ty
  | list [atom "ty", d, s, t] => do pure { dtype := ← dtypeOf d, shape := ← optOf toNat? s, tag := ← t.toNat? }
  | _ => none

def partsOf : Sexp → Option (List Name)
  | list xs => xs.mapM nameOf
  | _ => none

def opOf : Sexp → Option Op
  | list [atom "newscope", p] => do pure (.newScope (← optOf toNat? p))
  | list [atom "settype", sc, n, t] => do pure (.setType (← sc.toNat?) (← nameOf n) (← tyOf t))
  | list [atom "create", ps, sc, t, par, d] => do
      pure (.create (← partsOf ps) (← optOf toNat? sc) (← optOf tyOf t) (← optOf toNat? par) (← optOf toNat? d))
  | list [atom "typeof", i] => do pure (.typeOf (← i.toNat?))
  | list [atom "clone", i, n, sc, t, d] => do
      pure (.clone (← i.toNat?) { name := ← keepOf partsOf n, scope := ← keepOf (optOf toNat?) sc,
                                  type := ← keepOf (optOf tyOf) t, dims := ← keepOf (optOf toNat?) d })
  | list [atom "rescope", i, sc] => do pure (.rescope (← i.toNat?) (← sc.toNat?))
  | list [atom "resolve", sc, n] => do pure (.resolve (← sc.toNat?) (← nameOf n))
  | _ => none

def tdefOf : Sexp → Option (Name × List (Name × Ty))
  | list (n :: ms) => do
      let ms ← ms.mapM fun
        | list [m, t] => do pure ((← nameOf m), (← tyOf t))
        | _ => none
      pure ((← nameOf n), ms)
  | _ => none

def optNat : Option Nat → Sexp
  | none => atom "none"
  | some n => ofNat n

def rDtype : Dtype → Sexp
  | .deferred => atom "deferred"
  | .logical => atom "logical"
  | .integer => atom "integer"
  | .real => atom "real"
  | .derived n i => list [atom "derived", strOf n, optNat i]
  | .proc n => list [atom "proc", strOf n]

def rTy (t : Ty) : Sexp := list [atom "ty", rDtype t.dtype, optNat t.shape, ofNat t.tag]

def rOptTy : Option Ty → Sexp
  | none => atom "none"
  | some t => rTy t

def rCls : SymClass → Sexp
  | .procedureSymbol => atom "ProcedureSymbol"
  | .derivedTypeSymbol => atom "DerivedTypeSymbol"
  | .array => atom "Array"
  | .scalar => atom "Scalar"
  | .deferredTypeSymbol => atom "DeferredTypeSymbol"

def rRes : Res (Option Ty) → Sexp
  | .ok t => rOptTy t
  | .recursion => list [atom "error", atom "recursion"]

def rOut : Out → Sexp
  | .done => atom "done"
  | .created i => list [atom "created", ofNat i]
  | .typ t => list [atom "typ", rOptTy t]
  | .scope s => list [atom "scope", optNat s]
  | .error e => list [atom "error", atom e]

def rSym (s : Sym) (r : Res (Option Ty)) : Sexp :=
  list [rCls s.self.cls, strOf s.name, optNat s.self.scope, ofNat s.self.dims, rRes r]

def rTab (r : ScopeRec) : Sexp :=
  list [optNat r.parent, list (r.table.map fun kv => list [strOf kv.1, rTy kv.2])]

def zipSyms : List Sym → List (Res (Option Ty)) → List Sexp
  | s :: ss, r :: rs => rSym s r :: zipSyms ss rs
  | _, _ => []

def runOps (tds : TDefs) : St → List Op → List Sexp
  | _, [] => []
  | st, op :: ops =>
    let r := step tds st op
    let o := observe tds r.1.scopes r.1.syms
    let st' : St := { r.1 with scopes := o.1 }
    list [rOut r.2, list (atom "syms" :: zipSyms st'.syms o.2), list (atom "tabs" :: st'.scopes.map rTab)]
      :: runOps tds st' ops

def step' : Sexp → Option Sexp
  | list [atom "hist", list (atom "tdefs" :: tds), list (atom "ops" :: ops)] => do
      let tds ← tds.mapM tdefOf
      let ops ← ops.mapM opOf
      pure (list (atom "ok" :: runOps tds {} ops))
  | _ => none

def main : IO Unit := driverMain step'
