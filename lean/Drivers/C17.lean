import LokiModel.Sexp
import LokiModel.C17.Model
import LokiModel.C17.Wire
open LokiModel.C17 LokiModel.C17.Wire Sexp

/-- `(clone17 heap root ops)`: clone the unit at `root`, then apply the op history; one snapshot after the clone and after every op -/
def runOps (f : Nat) (o c : Addr) : Heap → List (Bool × Op) → List Sexp
  | _, [] => []
  | h, (side, op) :: r =>
    let h' := applyOp f (if side then 2 else 1) h (if side then c else o) op
    snap h' o c :: runOps f o c h' r

def step : Sexp → Option Sexp
  | list [atom "c17", _, _, _, list [atom "model", m]] => step m
  | list [atom "clone17", hp, root, list ops] => do
    let h ← decHeap hp
    let o ← root.toNat?
    let ops ← ops.mapM decOp
    let f := 2 * h.size + 8
    let (h1, c) := clone f h o
    pure (list (atom "ok" :: ofBool h1.unres :: regOwner h1 o :: snap h1 o c :: runOps (f + 64) o c h1 ops))
  | _ => none

def main : IO Unit := driverMain step
