import LokiModel.Sexp
import LokiModel.C30.Codec
open LokiModel.C30 LokiModel.Fir Sexp

/-- `(c30 op flag prog inputs)` → `(ok <transformed program>)` | `(error)` -/
def step : Sexp → Option Sexp
  | list [atom "c30", op, _, prog, _] => do
      let op ← decOp' op
      let p ← decProgram prog
      match T_model op p with
      | some q => pure (list [atom "ok", encProgram q])
      | none => pure (list [atom "error"])
  | _ => none

def main : IO _root_.Unit := driverMain step
