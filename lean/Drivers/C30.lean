import LokiModel.Sexp
import LokiModel.C30.Codec
import LokiModel.C30.Reduce
open LokiModel.C30 LokiModel.Fir Sexp

/-- `(c30 op flag prog inputs)` → `(ok <transformed program>)` | `(error)` -/
def strs : List Sexp → Option (List String)
  | [] => some []
  | .str s :: xs => (strs xs).map (s :: ·)
  | .atom s :: xs => (strs xs).map (s :: ·)
  | _ => none

/-- `(c30 rtext flag "source" "driver" (call names…))` → `(ok unchanged)` | `(ok resolved)` -/
def step : Sexp → Option Sexp
  | list [atom "c30", atom "rtext", _, _, _, list names] => do
      let ns ← strs names
      pure (list [atom "ok", atom (if keptByReduction ns then "unchanged" else "resolved")])
  | list [atom "c30", op, _, prog, _] => do
      let op ← decOp' op
      let p ← decProgram prog
      match T_model op p with
      | some q => pure (list [atom "ok", encProgram q])
      | none => pure (list [atom "error"])
  | _ => none

def main : IO _root_.Unit := driverMain step
