import LokiModel.Sexp
import LokiModel.C25.Model
open LokiModel.C25 Sexp
open LokiModel.C21 (Graph Err)

/-! Line-protocol driver for C25: `(ops (mode seq|plan) (oplist …) (project …))` → the scheduler state after every
operation as the model computes it from the project spec. -/

def field? (name : String) : List Sexp → Option (List Sexp)
  | [] => none
  | list (atom h :: rest) :: more => if h = name then some rest else field? name more
  | _ :: more => field? name more

def optStr? : Sexp → Option (Option String)
  | atom "none" => some none
  | str s => some (some s)
  | _ => none

structure PUnit' where
  file : Nat
  modName : Option String
  routines : List String

def pUnit : Sexp → Option PUnit'
  | list [f, atom "mod", m, list rs] => do pure ⟨← f.toNat?, some (← m.toStr?), ← rs.mapM toStr?⟩
  | list [f, atom "free", atom "none", list rs] => do pure ⟨← f.toNat?, none, ← rs.mapM toStr?⟩
  | _ => none

def pRoutine : Sexp → Option (String × List String × List String)
  | list [n, list cs, list vs] => do pure (← n.toStr?, ← cs.mapM toStr?, ← vs.mapM toStr?)
  | _ => none

def pOp : Sexp → Option Op
  | list [atom "dup", k, sub, suf, msuf] => do
      let s ← suf.toStr?
      let m ← optStr? msuf
      pure (.dup (← k.toStr?) (← sub.toBool?) s (m.getD s))
  | list [atom "rem", k] => do pure (.rem (← k.toStr?))
  | list [atom "wrap", m] => do pure (.wrap (← m.toStr?))
  | list [atom "dep", s, m] => do pure (.dep (← s.toStr?) ((← optStr? m).getD ""))
  | _ => none

def pSeed (s : String) : Option Nm :=
  match s.splitOn "#" with
  | [m, l] => some (.proc m l)
  | _ => none

def homeOf (units : List PUnit') (r : String) : String :=
  match units.find? (fun u => r ∈ u.routines) with
  | some u => u.modName.getD ""
  | none => ""

def fileName (n : Nat) : String := "f" ++ toString n

def initState (units : List PUnit') (rts : List (String × List String × List String)) (drivers : List String)
    (seeds : List Nm) (strict cinc : Bool) : Option St := do
  let mkR (f : Nat) (m : String) (r : String) : Option Def := do
    let (_, calls, usev) ← rts.find? (fun x => x.1 = r)
    let refs := calls.map (fun c => Nm.proc (homeOf units c) c) ++ (usev.filter (· ≠ m)).map Nm.mod
    pure { name := .proc m r, refs := refs, file := fileName f, driver := r ∈ drivers }
  let defs ← units.mapM (fun u => do
    let m := u.modName.getD ""
    let rs ← u.routines.mapM (mkR u.file m)
    pure (match u.modName with
      | some mn => ({ name := .mod mn, refs := [], file := fileName u.file, driver := false } : Def) :: rs
      | none => rs))
  let defs := defs.flatten
  let st : St := { defs := defs, disk := defs, cache := defs.map (fun d => (d.name, d.name)), seeds := seeds,
                   strict := strict, cinc := cinc, graph := ⟨[], []⟩ }
  match rediscover st with
  | .ok st => some st
  | .error _ => none

def showNm : Nm → String
  | .proc s l => s ++ "#" ++ l
  | .mod m => m

def insertS (x : String) : List String → List String
  | [] => [x]
  | y :: ys => if x ≤ y then x :: y :: ys else y :: insertS x ys

def sortS (xs : List String) : List String := xs.foldr insertS []

/-- cache keys of top-level program units only (module members are created on demand by the real factory) -/
def topLevel (n : Nm) : Bool := n.scope == ""

def showState (st0 : St) : Sexp :=
  let st := { st0 with cache := st0.cache.filter (fun e => topLevel e.1) }
  list [atom "state",
    list (atom "dead" :: (sortS ((st0.cache.filter (fun e => !hasDef st0.defs e.2)).map (fun e => showNm e.2))).map str),
    list (atom "items" :: (sortS (st.graph.nodes.map showNm)).map str),
    list (atom "deps" :: (sortS (st.graph.edges.map (fun e => showNm e.1 ++ " " ++ showNm e.2))).map str),
    list (atom "cache" :: (sortS (st.cache.map (fun e => showNm e.1))).map str),
    list (atom "badkeys" :: (sortS ((st.cache.filter (fun e => e.1 ≠ e.2)).map (fun e => showNm e.1))).map str)]

def showErr : Err → String
  | .runtime => "runtime" | .unboundlocal => "unboundlocal" | .unfeasible => "unfeasible"
  | .unsupported => "unsupported" | .fuel => "fuel"

def step : Sexp → Option Sexp
  | list (atom "ops" :: rest) => do
      let mode ← field? "mode" rest
      let plan ← match mode with
        | [atom "plan"] => some true
        | [atom "seq"] => some false
        | _ => none
      let ops ← (← field? "oplist" rest).mapM pOp
      let px ← field? "project" rest
      let cinc ← match field? "cinc" px with | some [b] => b.toBool? | _ => none
      let units ← (← field? "units" px).mapM pUnit
      let rts ← (← field? "routines" px).mapM pRoutine
      let cfg ← field? "config" px
      match cfg with
      | strict :: list seeds :: ents => do
          let strict ← strict.toBool?
          let seeds ← seeds.mapM (fun s => do pSeed (← s.toStr?))
          let drivers := ents.filterMap (fun e => match e with
            | list (n :: kvs) => if kvs.any (fun kv => kv == list [atom "role", str "driver"]) then n.toStr? else none
            | _ => none)
          match initState units rts drivers seeds strict cinc with
          | none => pure (list [atom "error", atom "init"])
          | some st0 =>
            if !Covered plan st0 ops then pure (list [atom "uncovered"]) else
            let tr := traceOps plan st0 ops
            let outs := tr.mapIdx (fun i r => match r with
              | .ok st => showState st
              | .error e => list [atom "error", ofNat i, atom (showErr e)])
            pure (list (atom "ok" :: showState st0 :: outs))
      | _ => none
  | _ => none

def main : IO Unit := driverMain step
