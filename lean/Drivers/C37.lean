import LokiModel.C37.Enc
import LokiModel.C37.Model
open LokiModel.Fir LokiModel.C37 Sexp

/-- * `(flat (jl lo hi size) unit)` → `(result unit')` = the kernel after SCCBase+SCCDevector+SCCDemote+SCCRevector (comments and
  pragmas dropped), or `(result excluded)` outside the flat class of `LokiModel.C37.Model`;
* `(scc …)` → `(result oracle-only)` (whole call trees and pipelines: direct oracle only). -/
def step : Sexp → Option Sexp
  | list (atom "flat" :: list [jl, lo, hi, size] :: unit :: _) => do
      let cfg : Cfg := { jl := ← jl.toStr?, lo := ← lo.toStr?, hi := ← hi.toStr?, size := ← size.toStr? }
      let u ← decUnit unit
      pure (list [atom "result", if flatKernel cfg u then encUnit (sccFlat cfg u) else atom "excluded"])
  | list (atom "scc" :: _) => some (list [atom "result", atom "oracle-only"])
  | _ => none

def main : IO _root_.Unit := driverMain step
