import LokiModel.Sexp
import LokiModel.C32.Model
import LokiModel.C32.Encode
open LokiModel.Fir LokiModel.C32 Sexp

/-- `(c32 op flag kmode prog inputs)` → `(ok prog')` | `(outside-class)` | `(oracle-only)` -/
def step : Sexp → Option Sexp
  | list [atom "c32", _, _, atom "o", _, _] => some (list [atom "oracle-only"])
  | list [atom "c32", atom op, atom flag, atom "k", prog, _] => do
      let p ← decProgram prog
      let r ← match op with
        | "dc" => some (dcProgram (flag == "simp") p)
        | "cp" => some (cpProgram p)
        | _ => none
      if op == "dc" && KnownDcElseIf (flag == "simp") p then pure (list [atom "error", atom "validationerror"]) else
      match r with
      | some p' => pure (list [atom "ok", encProgram p'])
      | none => pure (list [atom "outside-class"])
  | _ => none

def main : IO _root_.Unit := driverMain step
