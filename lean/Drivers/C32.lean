import LokiModel.Sexp
import LokiModel.C32.Model
import LokiModel.C32.Encode
open LokiModel.Fir LokiModel.C32 Sexp

/-- is the main unit inside the domain of `C32_constprop_sound`? -/
def cpDomain (p : Program) : Bool :=
  match findUnit p p.main with
  | some u => match declMap u.decls with
      | some m => cpOKL (arraysOf u.decls) (declTy u.decls) u.body m
      | none => false
  | none => false

/-- `(c32 op flag kmode prog inputs)` → `(ok prog' (dom b))` | `(error kind)` | `(outside-class)` | `(oracle-only)`;
`dom` = the program is inside the domain of the soundness theorem of that transformation -/
def step : Sexp → Option Sexp
  | list [atom "c32", _, _, atom "o", _, _] => some (list [atom "oracle-only"])
  | list [atom "c32", _, _, atom "og", _, _] => some (list [atom "oracle-only"])
  | list [atom "c32", atom op, atom flag, atom _k, prog, _] => do
      let p ← decProgram prog
      match op with
      | "dc" =>
          match dcProgram (flag == "simp") p with
          | some p' => pure (list [atom "ok", encProgram p', list [atom "dom", ofBool true]])
          | none => pure (list [atom "outside-class"])
      | "cp" =>
          match cpProgram p with
          | some p' => pure (list [atom "ok", encProgram p', list [atom "dom", ofBool (cpDomain p && p.units.length == 1)]])
          | none => pure (list [atom "outside-class"])
      | _ => none
  | _ => none

def main : IO _root_.Unit := driverMain step
