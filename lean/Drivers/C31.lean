import LokiModel.C31.Enc
import LokiModel.C31.Model
import LokiModel.C31.Nest
open LokiModel.Fir LokiModel.C31 Sexp

def classesOf (p : Program) : Sexp :=
  list ((if KnownUnrollEscape p then [atom "unroll-exit-cycle"] else []) ++
        (if KnownUnrollPrint p then [atom "unroll-print-text"] else []) ++
        (if KnownUnrollAssoc p then [atom "unroll-associate-body"] else []) ++
        (if KnownUnrollLive p then [atom "unroll-loopvar-live"] else []))

def mainBody (p : Program) : List Stmt :=
  match findUnit p p.main with
  | some u => u.body
  | none => []

/-- apply `f` to the body of the main unit only -/
def mapMain (f : List Stmt → List Stmt) (p : Program) : Program :=
  { p with units := p.units.map fun u => if u.name == p.main then { u with body := f u.body } else u }

/-- * `(unroll prog inputs flag)` → `(result (classes…) prog')`: the known-finding classes the program is in and the program after
  `do_loop_unroll` on every routine (comments dropped); `excluded` instead of the program inside class `unroll-associate-body`,
  where the real result depends on in-place updates of shared `Associate` nodes that the model does not follow;
* `(fusion|fission|interchange prog inputs flag)` → `(result () prog')` for the main unit, or `(result () excluded)` outside the
  simple class the model covers;
* `(block …)`, `(fusion-o …)`, `(fission-o …)` → `(result () oracle-only)` (direct oracle only). -/
def step : Sexp → Option Sexp
  | list (atom "unroll" :: prog :: _) => do
      let p ← decProgram prog
      pure (list [atom "result", classesOf p,
        if KnownUnrollAssoc p then atom "excluded" else encProgram (mapUnits dropComments (unrollProgram p))])
  | list (atom "fusion" :: prog :: _) => do
      let p ← decProgram prog
      pure (list [atom "result", list [],
        if fusionSimple (mainBody p) then encProgram (mapUnits dropComments (mapMain fusionBody p)) else atom "excluded"])
  | list (atom "fission" :: prog :: _) => do
      let p ← decProgram prog
      pure (list [atom "result", list [],
        if fissionSimple (mainBody p) then encProgram (mapUnits dropComments (mapMain fissionBody p)) else atom "excluded"])
  | list (atom "fusion-c" :: prog :: _) => do
      let p ← decProgram prog
      pure (list [atom "result", list [],
        if fusionSimple (mainBody p) then encProgram (mapUnits dropComments (mapMain fusionBody p)) else atom "excluded"])
  | list (atom "interchange-n" :: prog :: _) => do
      let p ← decProgram prog
      pure (list [atom "result", list [], encProgram (mapUnits dropComments (mapMain interchangeBody p))])
  | list (atom "interchange" :: prog :: _) => do
      let p ← decProgram prog
      pure (list [atom "result", list [], encProgram (mapUnits dropComments (mapMain interchangeBody p))])
  | list (atom "block" :: _) => some (list [atom "result", list [], atom "oracle-only"])
  | list (atom "fusion-o" :: _) => some (list [atom "result", list [], atom "oracle-only"])
  | list (atom "fission-o" :: prog :: _) => do
      let p ← decProgram prog
      pure (list [atom "result",
        list (if KnownFissionPromote (mainBody p) then [atom "fission-promote-two-loopvars"] else []), atom "oracle-only"])
  | _ => none

def main : IO _root_.Unit := driverMain step
