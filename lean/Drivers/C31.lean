import LokiModel.C31.Enc
import LokiModel.C31.Model
open LokiModel.Fir LokiModel.C31 Sexp

def classesOf (p : Program) : Sexp :=
  list ((if KnownUnrollEscape p then [atom "unroll-exit-cycle"] else []) ++
        (if KnownUnrollPrint p then [atom "unroll-print-text"] else []) ++
        (if KnownUnrollAssoc p then [atom "unroll-associate-body"] else []) ++
        (if KnownUnrollLive p then [atom "unroll-loopvar-live"] else []))

/-- `(unroll prog inputs flag)` → `(result (classes…) prog')`: the known-finding classes the program is in and the program after
`do_loop_unroll` on every routine (comments dropped); `excluded` instead of the program inside class `unroll-associate-body`,
where the real result depends on in-place updates of shared `Associate` nodes that the model does not follow -/
def step : Sexp → Option Sexp
  | list (atom "unroll" :: prog :: _) => do
      let p ← decProgram prog
      pure (list [atom "result", classesOf p,
        if KnownUnrollAssoc p then atom "excluded" else encProgram (mapUnits dropComments (unrollProgram p))])
  | _ => none

def main : IO _root_.Unit := driverMain step
