import LokiModel.C40.Enc
import LokiModel.C41.Model
open LokiModel.Fir LokiModel.C40 LokiModel.C41 Sexp

def decImps41 : List Sexp → Option (List Imp)
  | [] => some []
  | list [atom "use", m, list ss] :: xs => do pure ({ modname := ← m.toStr?, syms := some (← decStrs ss) } :: (← decImps41 xs))
  | _ => none

def encImp41 (i : Imp) : Sexp :=
  list [atom "use", atom i.modname, match i.syms with | none => atom "none" | some ss => list (ss.map atom)]

def decMembers41 : List Sexp → Option (List (List String × List Imp))
  | [] => some []
  | list [list u, list is] :: xs => do pure ((← decStrs u, ← decImps41 is) :: (← decMembers41 xs))
  | _ => none

/-- `(impm (used…) ((use …)…) (((used…) ((use …)…))…))` → `(imports host-imports (member-imports…))` after `sanitiseRoutine`;
`(wf lower prog)` / `(wf deadns prog)` → `(wf <wf p> <wf (T p)>)` (`raised` when the model of dead-code removal raises);
`(bare (used…) ((use m (sym…))…))` → `(bare <the model drops a USE without ONLY list>)`; oracle-only requests `(t …)` → `(nomodel)` -/
def step : Sexp → Option Sexp
  | list [atom "wf", atom "lower", prog] => do
      let p ← decProgram prog
      pure (list [atom "wf", ofBool (wf p), ofBool (wf (lowerProgram p))])
  | list [atom "wf", atom "deadns", prog] => do
      let p ← decProgram prog
      match deadProgram p with
      | some q => pure (list [atom "wf", ofBool (wf p), ofBool (wf q)])
      | none => pure (list [atom "wf", ofBool (wf p), atom "raised"])
  | list [atom "bare", list used, list imps] => do
      let u ← decStrs used; let is ← decImps41 imps
      pure (list [atom "bare", ofBool (bareModules (elimImports u is) != bareModules is)])
  | list [atom "impm", list used, list imps, list members] => do
      let sc : Scope1 := { used := ← decStrs used, imps := ← decImps41 imps, members := ← decMembers41 members }
      let r := sanitiseRoutine sc
      pure (list [atom "imports", list (r.imps.map encImp41), list (r.members.map fun m => list (m.2.map encImp41))])
  | list (atom "t" :: _) => some (list [atom "nomodel"])
  | _ => none

def main : IO _root_.Unit := driverMain step
