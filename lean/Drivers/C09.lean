import LokiModel.Sexp
import LokiModel.C06.Codec
import LokiModel.C09.Model
import LokiModel.C09.Quot
open LokiModel.C09 LokiModel.C06 LokiModel.Expr Sexp

mutual
def encE : E → Sexp
  | .ilit n => list [atom "ilit", ofInt n]
  | .rlit t => list [atom "rlit", str t]
  | .blit b => list [atom "blit", ofBool b]
  | .pyint n => list [atom "pyint", ofInt n]
  | .var s => list [atom "var", str s]
  | .sum par xs => list (atom "sum" :: ofBool par :: encEs xs)
  | .prod par xs => list (atom "prod" :: ofBool par :: encEs xs)
  | .quot par a b => list [atom "quot", ofBool par, encE a, encE b]
  | .pow par a b => list [atom "pow", ofBool par, encE a, encE b]
  | .cmp o a b => list [atom "cmp", atom (encCmp o), encE a, encE b]
  | .lnot a => list [atom "lnot", encE a]
  | .land xs => list (atom "land" :: encEs xs)
  | .lor xs => list (atom "lor" :: encEs xs)
def encEs : List E → List Sexp
  | [] => []
  | x :: xs => encE x :: encEs xs
end

def encAns : Ans → Sexp
  | .yes => atom "True" | .no => atom "False" | .raise => atom "raise"

def step : Sexp → Option Sexp
  | list [atom "symop", a, o, b] => do
      let a ← decE a; let o ← decCmp o; let b ← decE b
      let d := match simpDiff a b with
        | some d => encE d
        | none => atom "none"
      pure (list [atom "ok", encAns (symbolicOp a o b), list [atom "simp", d],
                  list [atom "known", ofBool (Known09 a o b)], list [atom "signzero", ofBool (SignZero a b)],
                  list [atom "frag", ofBool (Frag a && Frag b)]])
  | list [atom "symopq", _, _, _] => pure (list [atom "ok", atom "outside-model"])
  | list [atom "distq", e] => do
      let e ← decE e
      pure (list [atom "ok", match distributeQuotient DQFUEL false e with
        | some r => encE r
        | none => atom "none"])
  | list [atom "str", a] => do
      let a ← decE a
      pure (list [atom "ok", str (strOf a)])
  | _ => none

def main : IO Unit := driverMain step
