import LokiModel.Sexp
import LokiModel.C21.Model
open LokiModel.C21 Sexp

def field? (name : String) : List Sexp → Option (List Sexp)
  | [] => none
  | list (atom h :: rest) :: more => if h = name then some rest else field? name more
  | _ :: more => field? name more

def nm? (x : Sexp) : Option Name := x.toStr?.map String.toList

def names? (xs : List Sexp) : Option (List Name) := xs.mapM nm?

def optNames (name : String) (xs : List Sexp) : Option (Option (List Name)) :=
  match field? name xs with
  | none => some none
  | some ys => (names? ys).map some

def over? : Sexp → Option Over
  | list (atom "r" :: key :: rest) => do
      let key ← nm? key
      let expand ← match field? "expand" rest with
        | none => some none
        | some [b] => b.toBool?.map some
        | _ => none
      let disable ← optNames "disable" rest
      let block ← optNames "block" rest
      let ignore ← optNames "ignore" rest
      pure { key, expand, disable, block, ignore }
  | _ => none

def bool1? : Option (List Sexp) → Option Bool
  | some [b] => b.toBool?
  | _ => none

def config? (xs : List Sexp) : Option Config := do
  let d ← field? "default" xs
  let expand ← bool1? (field? "expand" d)
  let strict ← bool1? (field? "strict" d)
  let imports ← bool1? (field? "imports" d)
  let disable ← names? ((field? "disable" d).getD [])
  let block ← names? ((field? "block" d).getD [])
  let ignore ← names? ((field? "ignore" d).getD [])
  let routines ← ((field? "routines" xs).getD []).mapM over?
  pure { expand, strict, imports, disable, block, ignore, routines }

def symKind? : Sexp → Option SymKind
  | atom "var" => some .var
  | atom "sub" => some .sub
  | atom "item" => some .item
  | _ => none

def mkind? : Sexp → Option MKind
  | atom "proc" => some .proc
  | atom "typedef" => some .typedef
  | atom "interface" => some .interface
  | _ => none

def pair? {β : Type} (f : Sexp → Option β) : Sexp → Option (Name × β)
  | list [a, b] => do pure (← nm? a, ← f b)
  | _ => none

def node? : Sexp → Option DepNode
  | list [atom "one", n] => (nm? n).map .one
  | list [atom "ext", n] => (nm? n).map .ext
  | list (atom "uq" :: f :: fex :: cands) => do pure (.uq (← nm? f) (← fex.toBool?) (← names? cands))
  | list (atom "imp" :: scope :: syms) => do pure (.imp (← nm? scope) (← syms.mapM (pair? symKind?)))
  | list (atom "unsupported" :: _) => some .unsupported
  | _ => none

def aitem? : Sexp → Option AItem
  | list (name :: atom kind :: file :: nodes) => do
      pure { name := ← nm? name, kind := kind.toList, file := ← nm? file, deps := ← nodes.mapM node? }
  | _ => none

def module? : Sexp → Option (Name × List (Name × MKind))
  | list (name :: members) => do pure (← nm? name, ← members.mapM (pair? mkind?))
  | _ => none

def abs? (xs : List Sexp) : Option Abs := do
  let free ← names? (← field? "free" xs)
  let modules ← (← field? "modules" xs).mapM module?
  let items ← (← field? "items" xs).mapM aitem?
  pure { free, modules, items }

def ofName (n : Name) : Sexp := str (String.ofList n)

def errName : Err → String
  | .runtime => "runtimeerror"
  | .unboundlocal => "unboundlocalerror"
  | .unfeasible => "networkxunfeasible"
  | .unsupported => "unsupported"
  | .fuel => "out-of-fuel"

def step : Sexp → Option Sexp
  | list (atom "sched" :: rest) => do
      let cfg ← config? (← field? "config" rest)
      let seeds ← names? (← field? "seeds" rest)
      let fp ← bool1? (field? "fullparse" rest)
      let A ← abs? (← field? "abs" rest)
      match schedule A cfg seeds fp with
      | .error e => pure (list [atom "error", atom (errName e)])
      | .ok g =>
        pure (list [atom "ok",
          list (atom "nodes" :: g.nodes.map (fun n => list [ofName n, atom (String.ofList (kindOf A n))])),
          list (atom "edges" :: g.edges.map (fun e => list [ofName e.1, ofName e.2]))])
  | list [atom "match", name, list keys, pat, par] => do
      let r := matchItemKeys (← nm? name) (← names? keys) (← pat.toBool?) (← par.toBool?)
      match r with
      | none => pure (list [atom "error", atom "valueerror"])
      | some ks => pure (list (atom "ok" :: ks.map ofName))
  | _ => none

def main : IO Unit := driverMain step
