import LokiModel.Sexp
import LokiModel.C05.Model
open LokiModel.C05 Sexp

def s (l : Line) : Sexp := str (String.ofList l)

def hitS : PPHit → Sexp
  | .pp t => list [atom "pp", s t]
  | .els t => list [atom "else", s t]

/-- `post.rstrip().endswith('&')`: the continuation branch of the re-insertion callbacks is not modelled -/
def endsAmp (l : Line) : Bool :=
  match (l.reverse.dropWhile isWs) with
  | '&' :: _ => true
  | _ => false

def ampCase (o : Out) : Bool :=
  (match o.info.convert with | some g => endsAmp g.post | none => false) ||
  (match o.info.newunit with | some g => endsAmp g.args2 | none => false)

def step : Sexp → Option Sexp
  | list [atom "line", str b, nl, _] => do
      let nl ← nl.toBool?
      let l := b.toList
      let o := sanitizeLine l nl
      let i := o.info
      pure (list [atom "ok", s o.full,
        list [atom "ibm", ofBool i.ibm],
        list (atom "strpp" :: i.strpp.map hitS),
        list (atom "intpp" :: i.intpp.map hitS),
        list [atom "convert", match i.convert with
          | none => atom "none"
          | some g => list [s g.ws, s g.pre, s g.convert, s g.post]],
        list [atom "newunit", match i.newunit with
          | none => atom "none"
          | some g => list [s g.ws, s g.opn, s g.args1, (match g.delim with | some d => s d | none => atom "none"),
                            s g.key, s g.val, s g.args2]],
        list [atom "fypp", ofBool i.fypp],
        list [atom "effective", if ampCase o then atom "amp" else s (effective o)],
        list [atom "known", ofBool (KnownTokInString l), ofBool (KnownTokInComment l),
              ofBool (KnownOpenKeyInProt l), ofBool (KnownConvertFirst l nl), ofBool (KnownMacroInIdent l)]])
  | list [atom "segs", str b] =>
      pure (list (atom "ok" :: (segments b.toList).map fun p =>
        list [s p.code, atom (match p.kind with | .none => "none" | .str => "str" | .comment => "comment"), s p.prot]))
  | _ => none

def main : IO Unit := driverMain step
