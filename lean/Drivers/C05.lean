import LokiModel.Sexp
import LokiModel.C05.Model
open LokiModel.C05 Sexp

def s (l : Line) : Sexp := str (String.ofList l)

def hitS : PPHit → Sexp
  | .pp t => list [atom "pp", s t]
  | .els t => list [atom "else", s t]

def ampCase (o : Out) : Bool :=
  (match o.info.convert with | some g => endsAmp g.post | none => false) ||
  (match o.info.newunit with | some g => endsAmp g.args2 | none => false)

def lineResp (o : Out) : List Sexp :=
  let i := o.info
  [s o.full,
   list [atom "ibm", ofBool i.ibm],
   list (atom "strpp" :: i.strpp.map hitS),
   list (atom "intpp" :: i.intpp.map hitS),
   list [atom "convert", match i.convert with
     | none => atom "none"
     | some g => list [s g.ws, s g.pre, s g.convert, s g.post]],
   list [atom "newunit", match i.newunit with
     | none => atom "none"
     | some g => list [s g.ws, s g.opn, s g.args1, (match g.delim with | some d => s d | none => atom "none"),
                       s g.key, s g.val, s g.args2]],
   list [atom "fypp", ofBool i.fypp]]

/-- strip leading and trailing newlines (`str.strip('\n')`) -/
def stripNl (l : Line) : Line := ((l.dropWhile (· == '\n')).reverse.dropWhile (· == '\n')).reverse

def step : Sexp → Option Sexp
  | list [atom "line", str b, nl, _] => do
      let nl ← nl.toBool?
      let l := b.toList
      let o := sanitizeLine l nl
      pure (list (atom "ok" :: lineResp o ++ [
        list [atom "effective", if ampCase o then atom "amp" else s (effective o)],
        list [atom "known", ofBool (KnownTokInString l), ofBool (KnownTokInComment l),
              ofBool (KnownOpenKeyInProt l), ofBool (KnownConvertFirst l nl), ofBool (KnownMacroInIdent l)]]))
  | list [atom "stmt", str t, _] =>
      let lines := (t.splitOn "\n").map String.toList
      let outs := lines.map fun l => sanitizeLine l true
      if outs.any (fun o => !o.nl) then some (list [atom "error", atom "merged"]) else
      match outs with
      | [] => none
      | o1 :: _ =>
        let sRaw := stripNl (joinLines lines)
        let sSan := stripNl (joinLines (outs.map (·.text)))
        some (list [atom "ok", list (outs.map fun o => list (lineResp o)),
          list [atom "effective", s (effectiveCont o1 sRaw), s (effectiveCont o1 sSan)],
          list [atom "missing", ofBool (KnownContTailMissing o1 sRaw), ofBool (KnownContTailMissing o1 sSan)]])
  | list [atom "segs", str b] =>
      pure (list (atom "ok" :: (segments b.toList).map fun p =>
        list [s p.code, atom (match p.kind with | .none => "none" | .str => "str" | .comment => "comment"), s p.prot]))
  | _ => none

def main : IO Unit := driverMain step
