import LokiModel.Sexp
import LokiModel.C11.Model
open LokiModel.C11 Sexp
set_option linter.unusedVariables false

def symK? : Sexp → Option SymK
  | atom "dts" => some .dts | atom "proc" => some .proc | atom "scalar" => some .scalar | _ => none
def naryK? : Sexp → Option NaryK
  | atom "sum" => some .sum | atom "prod" => some .prod | atom "psum" => some .psum | atom "pprod" => some .pprod
  | atom "land" => some .land | atom "lor" => some .lor | _ => none
def binK? : Sexp → Option BinK
  | atom "quot" => some .quot | atom "pquot" => some .pquot | atom "pow" => some .pow | atom "ppow" => some .ppow | _ => none
def rangeK? : Sexp → Option RangeK
  | atom "range" => some .range | atom "rindex" => some .rindex | atom "lrange" => some .lrange | _ => none

def strs? : List Sexp → Option (List Str)
  | [] => some []
  | x :: xs => do let s ← x.toStr?; let r ← strs? xs; pure (s.toList :: r)

mutual
def node? : Nat → Sexp → Option Node
  | 0, _ => none
  | f+1, list [atom "i", v] => do pure (.pyInt (← v.toInt?))
  | f+1, list [atom "none"] => some .pyNone
  | f+1, list [atom "sym", k, n, p] => do pure (.sym (← symK? k) (← n.toStr?).toList (← node? f p))
  | f+1, list [atom "arr", n, p, list ds] => do pure (.arr (← n.toStr?).toList (← node? f p) (← nodes? f ds))
  | f+1, list [atom "int", v, k] => do pure (.intLit (← v.toInt?) (← node? f k))
  | f+1, list [atom "float", s, k] => do pure (.floatLit (← s.toStr?).toList (← node? f k))
  | f+1, list [atom "logic", b] => do pure (.logicLit (← b.toBool?))
  | f+1, list [atom "str", s] => do pure (.strLit (← s.toStr?).toList)
  | f+1, list [atom "nary", k, list cs] => do pure (.nary (← naryK? k) (← nodes? f cs))
  | f+1, list [atom "bin", k, a, b] => do pure (.bin (← binK? k) (← node? f a) (← node? f b))
  | f+1, list [atom "cmp", o, l, r] => do pure (.cmp (← o.toStr?).toList (← node? f l) (← node? f r))
  | f+1, list [atom "not", c] => do pure (.lnot (← node? f c))
  | f+1, list [atom "call", g, list as, list kn, list kv] => do pure (.call (← node? f g) (← nodes? f as) (← strs? kn) (← nodes? f kv))
  | f+1, list [atom "cast", n, e, k] => do pure (.castE (← n.toStr?).toList (← node? f e) (← node? f k))
  | f+1, list [atom "range", k, lo, hi, st] => do pure (.range (← rangeK? k) (← node? f lo) (← node? f hi) (← node? f st))
  | _+1, _ => none
def nodes? : Nat → List Sexp → Option (List Node)
  | 0, _ => none
  | _+1, [] => some []
  | f+1, x :: xs => do let a ← node? f x; let r ← nodes? f xs; pure (a :: r)
end

def recaseFn : Sexp → Option (Str → Str)
  | atom "upper" => some (·.map Char.toUpper)
  | atom "lower" => some (·.map Char.toLower)
  | atom "swap" => some (·.map fun c => if c.isUpper then c.toLower else c.toUpper)
  | _ => none

def tripleOf (a b : Node) : Sexp :=
  list [ofBool (pyEq a b), ofBool (pyEq b a), ofBool (hashEq a b)]

def step : Sexp → Option Sexp
  | list [atom "pair", a, b] => do
      let a ← node? 100000 a; let b ← node? 100000 b
      pure (tripleOf a b)
  | list [atom "recase", m, a] => do
      let f ← recaseFn m; let a ← node? 100000 a
      pure (tripleOf a (recase f a))
  | list [atom "canon", a] => do
      let a ← node? 100000 a
      pure (str (String.ofList (canon a)))
  | _ => none

def main : IO Unit := driverMain step
