import LokiModel.Sexp
import LokiModel.C04.Model
open LokiModel.C04 Sexp

/-! Line-protocol driver for C04 (`Wrap`).

Trees: `(s "text")`, `(j "sep" true|false tree…)`, `(add tree "x")`, `(radd "x" tree)`, `(cat tree tree)`.
Requests:
* `(str W "cont" tree)` → `(ok "text")` / `(error …)`
* `(fmt W "contfmt" depth (tree…) comment|none nowrap noindent trim)` → `(ok "text")`
* `(chunks "s")` → `(ok "c"…)`
-/

def sToList (x : Sexp) : Option Str := x.toStr?.map String.toList

mutual
def decTree : Nat → Sexp → Option Item
  | 0, _ => none
  | _ + 1, list [atom "s", t] => (sToList t).map Item.str
  | n + 1, list (atom "j" :: sep :: b :: ts) => do
      let sep ← sToList sep; let b ← b.toBool?
      let items ← decTrees n ts
      pure (Item.jsl items sep b)
  | n + 1, list [atom "add", t, x] => do
      let t ← decTree n t; let x ← sToList x
      pure (addStr t x)
  | n + 1, list [atom "radd", x, t] => do
      let t ← decTree n t; let x ← sToList x
      pure (raddStr x t)
  | n + 1, list [atom "cat", a, b] => do
      let a ← decTree n a; let b ← decTree n b
      pure (cat a b)
  | _ + 1, _ => none
def decTrees : Nat → List Sexp → Option (List Item)
  | 0, _ => none
  | _ + 1, [] => some []
  | n + 1, x :: xs => do
      let a ← decTree n x; let r ← decTrees n xs
      pure (a :: r)
end

def errS : Err → Sexp
  | .assertion => list [atom "error", atom "assertion"]
  | .attribute => list [atom "error", atom "attributeerror"]
  | .fuel => list [atom "error", atom "fuel"]

/-- `str.format` for the single `{}` of the line-continuation format -/
def fmtCont : Str → Str → Str
  | '{' :: '}' :: r, ind => ind ++ r
  | c :: r, ind => c :: fmtCont r ind
  | [], _ => []

def step : Sexp → Option Sexp
  | list [atom "str", w, cont, t] => do
      let w ← w.toNat?; let cont ← sToList cont; let t ← decTree 10000 t
      match mkCfg w cont with
      | .error e => pure (errS e)
      | .ok cfg =>
        match render bigFuel cfg t with
        | .error e => pure (errS e)
        | .ok s => pure (list [atom "ok", str (String.ofList s)])
  | list [atom "fmt", w, cf, depth, list ts, comment, nw, ni, tr] => do
      let w ← w.toNat?; let cf ← sToList cf; let depth ← depth.toNat?
      let ts ← decTrees 10000 ts
      let comment ← (match comment with | atom "none" => some none | c => (sToList c).map some)
      let nw ← nw.toBool?; let ni ← ni.toBool?; let tr ← tr.toBool?
      match formatLine bigFuel w (fmtCont cf) (List.replicate depth ' ') ts comment nw ni tr with
      | .error e => pure (errS e)
      | .ok s => pure (list [atom "ok", str (String.ofList s)])
  | list [atom "chunks", s] => do
      let s ← sToList s
      pure (list (atom "ok" :: (chunks s).map (fun c => str (String.ofList c))))
  | _ => none

def main : IO Unit := driverMain step
