import LokiModel.Sexp
import LokiModel.C23.Model
import LokiModel.Generated.C23Tables
open LokiModel.C21 LokiModel.C23 Sexp

def field? (name : String) : List Sexp → Option (List Sexp)
  | [] => none
  | list (atom h :: rest) :: more => if h = name then some rest else field? name more
  | _ :: more => field? name more

def nm? (x : Sexp) : Option Name := x.toStr?.map String.toList

def names? (xs : List Sexp) : Option (List Name) := xs.mapM nm?

def optNames (name : String) (xs : List Sexp) : Option (Option (List Name)) :=
  match field? name xs with
  | none => some none
  | some ys => (names? ys).map some

def over? : Sexp → Option Over
  | list (atom "r" :: key :: rest) => do
      let key ← nm? key
      let expand ← match field? "expand" rest with
        | none => some none
        | some [b] => b.toBool?.map some
        | _ => none
      let disable ← optNames "disable" rest
      let block ← optNames "block" rest
      let ignore ← optNames "ignore" rest
      pure { key, expand, disable, block, ignore }
  | _ => none

def bool1? : Option (List Sexp) → Option Bool
  | some [b] => b.toBool?
  | _ => none

def config? (xs : List Sexp) : Option Config := do
  let d ← field? "default" xs
  let expand ← bool1? (field? "expand" d)
  let strict ← bool1? (field? "strict" d)
  let imports ← bool1? (field? "imports" d)
  let disable ← names? ((field? "disable" d).getD [])
  let block ← names? ((field? "block" d).getD [])
  let ignore ← names? ((field? "ignore" d).getD [])
  let routines ← ((field? "routines" xs).getD []).mapM over?
  pure { expand, strict, imports, disable, block, ignore, routines }

def symKind? : Sexp → Option SymKind
  | atom "var" => some .var
  | atom "sub" => some .sub
  | atom "item" => some .item
  | _ => none

def mkind? : Sexp → Option MKind
  | atom "proc" => some .proc
  | atom "typedef" => some .typedef
  | atom "interface" => some .interface
  | _ => none

def pair? {β : Type} (f : Sexp → Option β) : Sexp → Option (Name × β)
  | list [a, b] => do pure (← nm? a, ← f b)
  | _ => none

def node? : Sexp → Option DepNode
  | list [atom "one", n] => (nm? n).map .one
  | list [atom "ext", n] => (nm? n).map .ext
  | list (atom "uq" :: f :: fex :: cands) => do pure (.uq (← nm? f) (← fex.toBool?) (← names? cands))
  | list (atom "imp" :: scope :: syms) => do pure (.imp (← nm? scope) (← syms.mapM (pair? symKind?)))
  | list (atom "unsupported" :: _) => some .unsupported
  | _ => none

def aitem? : Sexp → Option AItem
  | list (name :: atom kind :: file :: nodes) => do
      pure { name := ← nm? name, kind := kind.toList, file := ← nm? file, deps := ← nodes.mapM node? }
  | _ => none

def module? : Sexp → Option (Name × List (Name × MKind))
  | list (name :: members) => do pure (← nm? name, ← members.mapM (pair? mkind?))
  | _ => none

def abs? (xs : List Sexp) : Option Abs := do
  let free ← names? (← field? "free" xs)
  let modules ← (← field? "modules" xs).mapM module?
  let items ← (← field? "items" xs).mapM aitem?
  pure { free, modules, items }

def ofName (n : Name) : Sexp := str (String.ofList n)

def errName : Err → String
  | .runtime => "runtimeerror"
  | .unboundlocal => "unboundlocalerror"
  | .unfeasible => "networkxunfeasible"
  | .unsupported => "unsupported"
  | .fuel => "out-of-fuel"


def graphSexp (A : Abs) : Except Err (Graph Name) → Sexp
  | .error e => list [atom "error", atom (errName e)]
  | .ok g =>
    list [atom "ok",
      list (atom "nodes" :: g.nodes.map (fun n => list [ofName n, atom (String.ofList (kindOf A n))])),
      list (atom "edges" :: g.edges.map (fun e => list [ofName e.1, ofName e.2]))]

def orderSexp (A : Abs) : Except Err (Graph Name) → Sexp
  | .error _ => list [atom "none"]
  | .ok g =>
    match procOrder A g with
    | none => list [atom "none"]
    | some o => list (atom "order" :: o.map ofName)

/-- an injective stand-in for Python's `hash(str)` (no collisions on distinct strings) -/
def encodeHash (n : Name) : Nat := n.foldl (fun acc c => acc * 1114112 + c.toNat + 1) 0

def neutralCfg : Config :=
  { expand := true, strict := false, imports := false, disable := [], block := [], ignore := [], routines := [] }

def step : Sexp → Option Sexp
  | list (atom "twin" :: rest) => do
      let cfg ← config? (← field? "config" rest)
      let cfg2 ← config? (← field? "config2" rest)
      let seeds ← names? (← field? "seeds" rest)
      let seeds2 ← names? (← field? "seeds2" rest)
      let fp ← bool1? (field? "fullparse" rest)
      let A ← abs? (← field? "abs" rest)
      let A2 ← abs? (← field? "abs2" rest)
      let r1 := schedule A cfg seeds fp
      let r2 := schedule A2 cfg2 seeds2 fp
      pure (list [atom "ok", graphSexp A r1, orderSexp A r1, graphSexp A2 r2, orderSexp A2 r2])
  | list (atom "dup" :: rest) => do
      let seeds ← names? (← field? "seeds" rest)
      let A ← abs? (← field? "abs" rest)
      let kernel ← match field? "kernel" rest with | some [k] => nm? k | _ => none
      let suffix ← match field? "suffix" rest with | some [k] => nm? k | _ => none
      let msuffix ← match field? "msuffix" rest with | some [k] => nm? k | _ => none
      match populate A neutralCfg seeds with
      | .error e => pure (list [atom "error", atom (errName e)])
      | .ok g =>
        match dupOutcome A g kernel suffix msuffix with
        | .failed => pure (list [atom "error", atom "transformationerror"])
        | .ok ks => pure (list (atom "ok" :: (ks.filter (fun k => k.contains '#')).map ofName))
  | list (atom "fargs" :: rest) => do
      let strict ← bool1? (field? "strict" rest)
      let fp ← bool1? (field? "fullparse" rest)
      let seeds ← names? (← field? "seeds" rest)
      let fakeDir : Name := "/t/Proj_X".toList
      let gcall? : Sexp → Option GCall := fun x =>
        match x with
        | list [atom "c", n] => (nm? n).map GCall.plain
        | list [atom "d", d, n] => do pure (GCall.ifdef (← nm? d) (← nm? n))
        | list [atom "n", d, n] => do pure (GCall.ifndef (← nm? d) (← nm? n))
        | _ => none
      let routine? : Sexp → Option (Name × Name × List GCall) := fun x =>
        match x with
        | list (atom "r" :: n :: f :: cs) => do pure (← nm? n, ← nm? f, ← cs.mapM gcall?)
        | _ => none
      let key? : Sexp → Option (Name × List Name) := fun x =>
        match x with
        | list (atom "k" :: atom kind :: r :: ds) => do
            let r ← nm? r
            let ds ← names? ds
            let pre : Name := if kind = "dir" then fakeDir ++ ['/'] else if kind = "DIR" then fakeDir.map Char.toUpper ++ ['/'] else []
            pure (pre ++ r, ds)
        | _ => none
      let routines ← (← field? "routines" rest).mapM routine?
      let keys ← (← field? "keys" rest).mapM key?
      let A := faAbs fakeDir routines keys
      let cfg : Config := { neutralCfg with strict := strict }
      pure (graphSexp A (schedule A cfg seeds fp))
  | list [atom "item", a, b] => do
      let a ← nm? a
      let b ← nm? b
      -- `Item.__hash__` as the code in /repo has it (table re-read on every run)
      let h := itemHash Generated.hashFoldsName encodeHash
      pure (list [atom "ok", ofBool (itemEq a b), ofBool (decide (h a = h b)),
        ofNat (pySet h [a, b]).length, ofBool (pyMem h [b] a), ofBool (listMem [b] a)])
  | _ => none

def main : IO Unit := driverMain step
