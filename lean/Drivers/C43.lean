import LokiModel.Sexp
import LokiModel.C43.Model
import LokiModel.Generated.C43Tables
open LokiModel.C43 Sexp

def s (l : Line) : Sexp := str (String.ofList l)

def mapM' {α β} (f : α → Option β) : List α → Option (List β)
  | [] => some []
  | x :: xs => do let y ← f x; let ys ← mapM' f xs; pure (y :: ys)

def decExpr : Sexp → Option ExprInfo
  | list (atom "e" :: str e :: ops) => do
      let ks ← mapM' (fun o => match o with | str k => Op.ofKey k | _ => none) ops
      pure ⟨e.toList, ks⟩
  | _ => none

def decNode : Sexp → Option Node
  | list (atom "n" :: l0 :: str src :: es) => do
      let l0 ← l0.toNat?
      let es ← mapM' decExpr es
      pure ⟨l0, src.toList, es⟩
  | _ => none

def decArg : Sexp → Option UArg
  | list [atom "a", str n, r, asm] => do
      let r ← r.toNat?; let asm ← asm.toBool?
      pure ⟨n, r, asm⟩
  | _ => none

def decCall : Sexp → Option ICall
  | list [atom "c", str f, str a, d, c] => do
      let d ← (match d with | atom "none" => some none | x => x.toNat?.map some)
      let c ← c.toNat?
      pure ⟨f, a, d, c, (match d with | some k => ["klon", "klev", "nblk"].getD ((k - 1) % 3) "klon" | none => "klon"), true⟩
  | list [atom "c", str f, str a, d, c, str b, l] => do
      let d ← (match d with | atom "none" => some none | x => x.toNat?.map some)
      let c ← c.toNat?
      let l ← l.toBool?
      pure ⟨f, a, d, c, b, l⟩
  | _ => none

def step : Sexp → Option Sexp
  | list (atom "detect" :: str body :: nodes) => do
      let ns ← mapM' decNode nodes
      let b := body.toList
      let kn := list [atom "known", ofBool (KnownLiteral b), ofBool (KnownUnparsed b),
                      ofBool (KnownMixed ns), ofBool (KnownSeveral ns), ofBool (KnownSpan ns)]
      match detect ns with
      | none => pure (list [atom "error", atom "indexerror"])
      | some rs =>
        let text := (LokiModel.Generated.C43.frameHead ++ body ++ LokiModel.Generated.C43.frameTail).toList
        let rr := reportedRanges ns rs
        let fk := [KnownHeaderContinued text, KnownTrailingComment text, KnownNestedReport rr,
                   KnownDoubleQuote ns rs, KnownEnclosingDo text rr]
        let fixS := match fixOutcome rs with
          | .untouched => list [atom "fix", atom "untouched"]
          | .ran => if fk.any id || KnownUnparsed b then list [atom "fix", atom "ran", atom "known"]
                    else list [atom "fix", atom "ran", s (fixedSquash text ns rs)]
        pure (list [atom "ok",
          list (atom "reports" :: rs.map fun r => list [atom "r", s r.op.sym, s r.f77, ofNat r.line]),
          fixS, kn, list (atom "fixknown" :: fk.map ofBool)])
  | list [atom "spec", str t] =>
      let l := t.toList
      pure (list [atom "ok",
        list (atom "viol" :: (specViol .code l).map fun (k, sp) => list [atom "v", s k.sym, s sp]),
        list [atom "fixed", s (specFix .code l)],
        list [atom "prot", s (protText (toks .code l))]])
  | list [atom "ubound", list (atom "args" :: args), list (atom "calls" :: calls), _] => do
      let args ← mapM' decArg args
      let calls ← mapM' decCall calls
      pure (list [atom "ok",
        list (atom "reported" :: (uboundReported args calls).map str),
        list (atom "removed" :: (uboundRemoved args calls).map ofNat),
        list (atom "shapes" :: (uboundShapes args calls).map fun (n, sh) => list (str n :: sh.map str))])
  | _ => none

def main : IO Unit := driverMain step
