import LokiModel.Sexp
import LokiModel.C02.Codec
open LokiModel.C02 LokiModel.Expr Sexp

def styleOf : Sexp → Option Style
  | atom "fortran" => some fortranStyle
  | atom "ifs" => some ifsStyle
  | _ => none

/-- `(c02 lines STYLE (LINE…))` → `(ok (FLAGS…) PROG (LINE…))`: flags of the parsed units, exported program, regenerated
token lines; `(error parse)` when the reference parser rejects the text; every other request kind is not modelled. -/
def step : Sexp → Option Sexp
  | list [atom "c02", atom "lines", st, list ls] => do
      let st ← styleOf st
      let lines ← mapM' decLine ls
      match pUnits (lines.length + 2) lines with
      | none => pure (list [atom "error", atom "parse"])
      | some [] => pure (list [atom "error", atom "parse"])
      | some (u :: us) =>
        match mapM' denUnit (u :: us) with
        | none => pure (list [atom "error", atom "parse"])
        | some dus =>
          let prog := list (atom "program" :: atom u.name :: dus)
          let out := (u :: us).flatMap (gUnit st)
          pure (list [atom "ok", list ((knownFlags (u :: us)).map atom), prog, list (out.map fun l => list (l.map encTok))])
  | list (atom "c02" :: _) => some (list [atom "skip"])
  | _ => none

def main : IO Unit := driverMain step
