import LokiModel.Sexp
import LokiModel.C20.Model
open LokiModel.C19 LokiModel.C20 Sexp

def s (l : List Char) : Sexp := str (String.ofList l)

def srcOf : Sexp → Option Source
  | list [a, b, str t] => do pure ⟨← a.toNat?, ← b.toNat?, t.toList⟩
  | _ => none

def step : Sexp → Option Sexp
  | list [atom "reader", list (atom "lines" :: ls)] => do
      let src ← ls.mapM fun | str x => some x.toList | _ => none
      let pl := prepare src
      pure (list [atom "ok", list [atom "offset", ofNat (prepareOffset src)],
        list (atom "stmts" :: (stmts src).map fun it =>
          list [s it.text, ofNat it.l1, ofNat it.l2, s (stmtSource pl it).str])])
  | list [atom "span", str t, l1, a, b] => do
      let l1 ← l1.toNat?; let a ← a.toNat?; let b ← b.toNat?
      let r := cloneWithSpan ⟨l1, l1 + countNl t.toList, t.toList⟩ a b
      pure (list [atom "ok", ofNat r.l1, ofNat r.l2, s r.str])
  | list (atom "join" :: xs) => do
      let ss ← xs.mapM srcOf
      match joinSourceList ss with
      | some r => pure (list [atom "ok", ofNat r.l1, ofNat r.l2, s r.str])
      | none => pure (list [atom "ok", atom "none"])
  | list [atom "file", _] => pure (list [atom "ok", atom "file"])
  | _ => none

def main : IO Unit := driverMain step
