; hand-written witnesses of the open C41 findings
(bare (va2) ((use m1 ()) (use m2 (vb1))))
(t "sanitise_imports" gf "module parkind\n  implicit none\n  integer, parameter :: jprb = 8, jpim = 4\nend module parkind\nmodule mm\n  use parkind, only: jprb, jpim\n  implicit none\n  real(kind=jprb) :: modvar\n  integer(kind=jpim) :: modint\ncontains\n  subroutine s(x)\n    real(kind=jprb), intent(inout) :: x\n    x = x + 1.0_jprb\n  end subroutine s\nend module mm\n")
(t "remove_unused_vars(all)" gf "subroutine kernel(a, n)\n  implicit none\n  integer, intent(in) :: n\n  integer, intent(inout) :: a(n)\n  integer :: i1\n  do i1 = 1, n\n    a(i1) = 0\n  end do\nend subroutine kernel\n")
(t "resolve_vector_notation" gf "subroutine kernel(a)\n  implicit none\n  integer, intent(inout) :: a(3)\n  a(:2) = 0\nend subroutine kernel\n")
(t "normalize_array_shape_and_access" gf "subroutine kernel(b)\n  implicit none\n  real, intent(inout) :: b(-2:-1)\n  b(-1:-2:-1) = b(-2:-1)\nend subroutine kernel\n")
(t "merge_associates" gf "subroutine sub1(k)\n  implicit none\n  integer, intent(inout) :: k\n  integer, parameter :: c1 = 2\n  associate (z1 => c1)\n    k = z1\n  end associate\nend subroutine sub1\n")
