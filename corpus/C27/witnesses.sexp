; minimal witnesses of the known-finding classes of C27 (one request per line; see notes/C27.md)
; may-kill
(deps false (program kernel (unit kernel (n y) ((decl n int in () none) (decl y int inout (((i 1) (v n))) none) (decl x int none () none) (decl i1 int none () none)) ((assign (v x) (i 5)) (do i1 (i 1) (v n) none ((if (bin eq (v i1) (i 1)) ((assign (v x) (i 0))) ()) (assign (idx y (v i1)) (v x)) (assign (v x) (bin add (v x) (i 1)))))))) (((n (i 3)) (y (i 0) (i 0) (i 0)))))
; raw-loop-clears
(deps false (program kernel (unit kernel (n z) ((decl n int in () none) (decl z int out () none) (decl x int none () none) (decl i1 int none () none)) ((assign (v x) (i 1)) (nop pragma "loki mark") (do i1 (i 1) (v n) none ((assign (v x) (i 2)))) (assign (v z) (v x))))) (((n (i 0)))))
; loop-variable-not-defined
(deps false (program kernel (unit kernel (y z) ((decl y int out () none) (decl z int out () none) (decl i1 int none () none)) ((do i1 (i 1) (i 2) none ((assign (v y) (i 1)))) (nop pragma "loki mark") (assign (v z) (v i1))))) (()))
; call-no-intent
(deps true (program kernel (unit kernel (x y z) ((decl x int inout () none) (decl y int inout () none) (decl z int out () none)) ((callsub sub1 (v x) (v y)) (nop pragma "loki mark") (assign (v z) (v y)))) (unit sub1 (u v) ((decl u int none () none) (decl v int none () none)) ((assign (v v) (bin add (v u) (i 1)))))) (((x (i 3)) (y (i 0)))))
; call-subscript-actual
(deps true (program kernel (unit kernel (a k z) ((decl a int inout (((i 1) (i 3))) none) (decl k int inout () none) (decl z int out () none)) ((callsub sub1 (idx a (v k)) (v k)) (nop pragma "loki mark") (assign (v z) (v k)))) (unit sub1 (e j) ((decl e int inout () none) (decl j int inout () none)) ((assign (v e) (i 1)) (assign (v j) (bin add (v j) (i 1)))))) (((a (i 0) (i 0) (i 0)) (k (i 2)))))
; print-reads
(deps false (program kernel (unit kernel (y) ((decl y int out () none) (decl x int none () none)) ((assign (v x) (i 1)) (nop pragma "loki mark") (print (v x)) (assign (v y) (i 0))))) (()))
; assoc-selector-reads
(deps false (program kernel (unit kernel (a) ((decl a int inout (((i 1) (i 3))) none) (decl k int none () none)) ((assign (v k) (i 2)) (nop pragma "loki mark") (assoc ((z1 (idx a (v k)))) ((assign (v z1) (i 1))))))) (((a (i 0) (i 0) (i 0)))))
; loop-variable-in-bounds
(deps false (program kernel (unit kernel (y) ((decl y int inout () none) (decl i1 int none () none) (decl i2 int none () none)) ((assign (v i1) (i 1)) (do i2 (i 1) (i 2) none ((do i1 (v i1) (i 2) none ((assign (v y) (v i1)))) (assign (v i1) (i 1))))))) (((y (i 0)))))
; raw-assoc-alias
(deps false (program kernel (unit kernel (x y) ((decl x int inout () none) (decl y int out () none)) ((assoc ((z1 (v x))) ((assign (v z1) (i 1)))) (nop pragma "loki mark") (assign (v y) (v x))))) (((x (i 0)))))
; raw-inside-select
(deps false (program kernel (unit kernel (n y) ((decl n int in () none) (decl y int out () none) (decl x int none () none)) ((assign (v x) (i 1)) (assign (v y) (i 0)) (select (v n) (((1) ((nop pragma "loki mark") (assign (v y) (v x))))) ())))) (((n (i 1)))))
; raw-node-inside-loop
(deps false (program kernel (unit kernel (y) ((decl y int out () none) (decl w1 int none () none)) ((assign (v w1) (i 0)) (while (bin lt (v w1) (i 1)) ((assign (v w1) (bin add (v w1) (i 1))) (nop pragma "loki mark"))) (assign (v y) (i 0))))) (()))
; raw-select-clears
(deps false (program kernel (unit kernel (n y) ((decl n int in () none) (decl y int out () none) (decl x int none () none)) ((assign (v x) (i 1)) (nop pragma "loki mark") (select (v n) (((1) ((assign (v x) (i 2))))) ()) (assign (v y) (v x))))) (((n (i 2)))))
; raw-partial-clears
(deps false (program kernel (unit kernel (y) ((decl y int out () none) (decl a int none (((i 1) (i 3))) none)) ((assign (v a) (i 0)) (nop pragma "loki mark") (assign (idx a (i 1)) (i 5)) (assign (v y) (idx a (i 2)))))) (()))
; assoc-expr-selector-crash
(deps false (program kernel (unit kernel (a x y) ((decl a int inout (((i 1) (i 3))) none) (decl x int in () none) (decl y int out () none)) ((assoc ((z1 (idx a (i 1)))) ((assoc ((z2 (bin add (v x) (i 1)))) ((assign (v y) (bin add (v z2) (v z1)))))))))) (((a (i 0) (i 0) (i 0)) (x (i 2)))))
