; minimal inputs of the findings (see notes/C15.md): print = still open; declaration pairing (x2) and FindScopes(typedef) = repaired, kept as regression inputs
(finder false false (Scalar) (node PrintStmt 0 0 () ((const StringLiteral "'val'") (msym Scalar "summed" "summed" (sym VariableSymbol "summed" "summed" none) none))) (ir (print ((s "val") (v "summed")))) FindVariables)
(finder false true (Scalar) (node VariableDeclaration 0 0 ((grp (e (msym Scalar "n" "n" (sym VariableSymbol "n" "n" none) none))) (junk "None")) ()) (ir (decl ((v "n")))) FindVariables)
(findscopes true 1 (node Section 0 0 ((grp (node TypeDef 1 1 ((grp (node Comment 2 2 () ()))) ()))) ()) (ir (sect ((typedef "t0" ((comment "c0")))))))
(finder true true (Scalar) (node VariableDeclaration 0 0 ((grp (e (msym Scalar "n" "n" (sym VariableSymbol "n" "n" none) none))) (junk "None")) ()) (ir (decl ((v "n")))) FindVariables)
