; param-inconsistent-calls
(param (program kernel (unit kernel (n r1) ((decl n int in () none) (decl r1 int inout () none)) ((callsub sub1 (v n) (v n) (v r1)))) (unit sub1 (n m r1) ((decl n int in () none) (decl m int in () none) (decl r1 int inout () none)) ((assign (v r1) (bin add (v n) (bin mul (i 2) (v m))))))) ((dic ("n" 3)) (rbv false) (entry none) (abort default) (order kernel sub1)) (((n (i 3)) (r1 (i 0)))) nogf)
; two-sites
(param (program kernel (unit kernel (n k r1) ((decl n int in () none) (decl k int in () none) (decl r1 int inout () none)) ((callsub sub1 (v n) (v k) (v r1)) (callsub sub1 (v k) (v n) (v r1)))) (unit sub1 (a b r1) ((decl a int in () none) (decl b int in () none) (decl r1 int inout () none)) ((assign (v r1) (bin add (v r1) (bin add (v a) (bin mul (i 2) (v b)))))))) ((dic ("n" 3)) (rbv false) (entry none) (abort default) (order kernel sub1)) (((n (i 3)) (k (i 1)) (r1 (i 0)))) nogf)
; param-all-decls-removed
(param (program kernel (unit kernel (n r1) ((decl n int in () none) (decl r1 int inout () none)) ((callsub sub1 (v n)) (assign (v r1) (v n)))) (unit sub1 (n) ((decl n int in () none)) ((print (v n))))) ((dic ("n" 3)) (rbv false) (entry none) (abort default) (order kernel sub1)) (((n (i 3)) (r1 (i 0)))) nogf)
; param-key-case
(param (program kernel (unit kernel (n r1) ((decl n int in () none) (decl r1 int inout () none)) ((assign (v r1) (v n))))) ((dic ("N" 3)) (rbv false) (entry none) (abort default) (order kernel)) (((n (i 3)) (r1 (i 0)))) nogf)
; param-no-intent
(param (program kernel (unit kernel (n r1) ((decl n int none () none) (decl r1 int inout () none)) ((assign (v r1) (v n))))) ((dic ("n" 3)) (rbv false) (entry none) (abort default) (order kernel)) (((n (i 3)) (r1 (i 0)))) nogf)
; param-rbv-print
(param (program kernel (unit kernel (n r1) ((decl n int in () none) (decl r1 int inout () none)) ((print (v n)) (assign (v r1) (v n))))) ((dic ("n" 3)) (rbv true) (entry none) (abort default) (order kernel)) (((n (i 3)) (r1 (i 0)))) nogf)
; param-rbv-nonliteral-parameter
(param (program kernel (unit kernel (n r1) ((decl n int in () none) (decl r1 int inout () none) (decl c1 int none () (neg (i 2)))) ((assign (v r1) (bin add (v n) (v c1)))))) ((dic ("n" 3)) (rbv true) (entry none) (abort default) (order kernel)) (((n (i 3)) (r1 (i 0)))) nogf)
; ok
(param (program kernel (unit kernel (n k1 r1) ((decl n int in () none) (decl k1 int in () none) (decl r1 int inout () none)) ((callsub sub1 (v n) (v k1) (v r1)) (print (v r1)))) (unit sub1 (nn kf r1) ((decl nn int in () none) (decl kf int in () none) (decl r1 int inout () none) (decl i1 int none () none)) ((do i1 (i 1) (v nn) none ((assign (v r1) (bin add (v r1) (bin mul (v i1) (v kf))))))))) ((dic ("n" 3) ("k1" 2)) (rbv true) (entry none) (abort default) (order kernel sub1)) (((n (i 3)) (k1 (i 2)) (r1 (i 1))) ((n (i 4)) (k1 (i 2)) (r1 (i 1))) ((n (i 3)) (k1 (i 0)) (r1 (i 1)))) gf)
