; constants under nested minus prefixes in comparisons (seed C08-comparison-constant-sign-parity): LogicEvaluation without the collapsing flags
(simp 16 (cmp gt (prod false (pyint -1) (prod false (pyint -1) (ilit 3))) (ilit 0)) 1)
(simp 24 (cmp lt (ilit 1) (prod false (pyint -1) (prod false (pyint -1) (ilit 2)))) 2)
(simp 16 (land (var "p") (lnot (cmp eq (prod false (pyint -1) (prod false (pyint -1) (ilit 1))) (ilit 1)))) 3)
(simp 16 (cmp ge (prod false (pyint -1) (prod false (pyint -1) (prod false (pyint -1) (prod false (pyint -1) (ilit 5))))) (ilit 1)) 4)
(simp 16 (cmp lt (prod false (pyint -1) (prod false (pyint -1) (prod false (pyint -1) (ilit 4)))) (ilit 0)) 5)
(simp 16 (cmp gt (prod false (pyint -1) (prod false (pyint -1) (pyint 3))) (ilit 0)) 6)
