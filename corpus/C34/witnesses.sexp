; one minimal request per known-finding class (also the witnesses proposed for known_findings.json)
; seq-multirank-dummy-offset
(seq (program kernel (unit kernel (a) ((decl a int inout (((i 1) (i 3)) ((i 1) (i 3))) none)) ((callsub leaf1 (i 2) (idx a (i 2) (i 1))))) (unit leaf1 (m c) ((decl m int in () none) (decl c int inout (((i 1) (v m)) ((i 1) (i 2))) none)) ((assign (idx c (i 1) (i 2)) (bin add (idx c (i 1) (i 2)) (i 100)))))) (((a (i 1) (i 2) (i 3) (i 4) (i 5) (i 6) (i 7) (i 8) (i 9)))) nogf)
; seq-section-shorter-than-dummy
(seq (program kernel (unit kernel (a) ((decl a int inout (((i 1) (i 2)) ((i 1) (i 2))) none)) ((callsub leaf1 (i 3) (idx a (i 1) (i 1))))) (unit leaf1 (m c) ((decl m int in () none) (decl c int inout (((i 1) (v m))) none)) ((assign (idx c (i 3)) (bin add (idx c (i 3)) (i 100)))))) (((a (i 1) (i 2) (i 3) (i 4)))) nogf)
; dedup-removed-name-left-behind
(dedup (program kernel (unit kernel (a r) ((decl a int in (((i 1) (i 2))) none) (decl r int inout () none)) ((callsub dup1 (i 1) (i 1) (v a) (v a) (v r)))) (unit dup1 (m k c d r) ((decl m int in () none) (decl k int in () none) (decl c int in (((i 1) (v m))) none) (decl d int in (((i 1) (v m))) none) (decl r int inout () none)) ((assign (v r) (bin add (idx c (v m)) (idx d (v k))))))) (((a (i 5) (i 6)) (r (i 0)))) nogf)
; dedup-kept-dummy-intent-in
(dedup (program kernel (unit kernel (a) ((decl a int inout (((i 1) (i 2))) none)) ((callsub dup1 (v a) (v a)))) (unit dup1 (c d) ((decl c int in (((i 1) (i 1))) none) (decl d int inout (((i 1) (i 1))) none)) ((assign (idx d (i 1)) (bin add (idx d (i 1)) (i 1)))))) (((a (i 5) (i 6)))) nogf)
; dedup-second-caller-misaligned
(dedup (program kernel (unit kernel (r) ((decl r int inout () none)) ((callsub dup1 (i 2) (i 2) (v r)) (callsub mid1 (i 3) (v r)))) (unit mid1 (s r) ((decl s int in () none) (decl r int inout () none)) ((callsub dup1 (v s) (v s) (v r)))) (unit dup1 (y z r) ((decl y int in () none) (decl z int in () none) (decl r int inout () none)) ((assign (v r) (bin add (bin add (v r) (v y)) (v z)))))) (((r (i 0)))) nogf)
; seq-keyword-arguments-duplicated
(src seqkw ((cnt 2) (i 2) (kw 1)) gf)
; shape-lower-bound-imported
(src shape ((capture 0) (k 2) (lb1 0) (lb2 1) (m 3) (n 4) (nest 0) (pass whole) (rank 1)) gf)
; shape-symbol-captured
(src shape ((capture 1) (k 2) (lb1 1) (lb2 1) (m 3) (n 4) (nest 0) (pass whole) (rank 2)) gf)
; dtype-member-lower-bound-lost
(src dtype ((alld 0) (clash 0) (lbq 0) (lbv 1) (n 3) (nested 0) (s 2)) gf)
; dtype-expanded-name-clash
(src dtype ((alld 0) (clash 1) (lbq 1) (lbv 1) (n 3) (nested 0) (s 2)) gf)
; tbound-pass-not-first
(src tbound ((bind pass2) (kk 3)) gf)
; tbound-nopass
(src tbound ((bind nopass) (kk 3)) gf)
; dedup-differing-dummy-declarations
(dedup (program kernel (unit kernel (a r) ((decl a int in (((i 1) (i 2))) none) (decl r int inout () none)) ((callsub dup1 (v a) (v a) (v r)))) (unit dup1 (c e r) ((decl c int in (((i 1) (i 1))) none) (decl e int in (((i 0) (i 0))) none) (decl r int inout () none)) ((assign (v r) (bin add (idx c (i 1)) (idx e (i 0))))))) (((a (i 5) (i 6)) (r (i 0)))) nogf)
