; hand-picked probes (run first on every check)
; nested 1:(1:m) against 1:m — the shortcut recurses through ==
(pair (range rindex (int 1 (none)) (range rindex (int 1 (none)) (sym scalar "m" (none)) (none)) (none)) (range rindex (int 1 (none)) (sym scalar "m" (none)) (none)))
; the shortcut between the kinds of two literals
(pair (int 1 (range rindex (i 1) (sym scalar "n" (none)) (none))) (int 1 (sym scalar "n" (none))))
; 1:1 against FloatLiteral 1.0 (shortcut through a bare int)
(pair (float "1.0" (none)) (range rindex (i 1) (i 1) (none)))
; FloatLiteral lower bound satisfies children[0] == 1
(pair (range lrange (float "1.0" (none)) (sym scalar "n" (none)) (none)) (sym dts "N" (none)))
; Range vs RangeIndex vs LoopRange, same text: unequal both ways (subclass-first dispatch)
(pair (range range (i 2) (sym scalar "n" (none)) (none)) (range lrange (i 2) (sym scalar "n" (none)) (none)))
(pair (range rindex (i 2) (sym scalar "n" (none)) (none)) (range lrange (i 2) (sym scalar "n" (none)) (none)))
; stringifier corner cases
(canon (nary sum ((sym scalar "a" (none)) (nary prod ((i -1) (sym scalar "b" (none)) (sym scalar "c" (none)))) (nary prod ((i -1) (nary sum ((sym scalar "a" (none)) (i -2))))))))
(canon (bin quot (nary prod ((sym scalar "b" (none)) (sym scalar "c" (none)))) (bin quot (sym scalar "b" (none)) (nary pprod ((sym scalar "c" (none)) (i -3))))))
(canon (bin pow (bin pow (sym scalar "a" (none)) (i -2)) (nary prod ((int -1 (none)) (sym scalar "x" (none))))))
(canon (arr "y" (arr "x" (none) ((sym scalar "i" (none)))) ((range rindex (none) (none) (none)) (range rindex (int 1 (none)) (none) (int 2 (none))))))
(canon (cast "REAL" (nary sum ((sym scalar "a" (none)) (float "1.0" (sym scalar "JPRB" (none))))) (int 0 (none))))
(canon (nary land ((nary lor ((sym scalar "a" (none)) (logic true))) (not (cmp "==" (sym scalar "b" (none)) (i -1))))))
; re-casing with parents, keyword names and kinds
(recase swap (call (sym proc "Max" (none)) ((sym scalar "Abc" (sym scalar "Xy" (none)))) ("Dim") ((int 1 (sym scalar "jpIM" (none))))))
(recase upper (nary sum ((str "abc") (sym dts "abc" (none)))))
