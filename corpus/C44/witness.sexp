; known finding stem-mismatch: n100.f90 defines module n0, n1.f90 uses it; n1 is compiled first (serial and parallel)
(build (files (f 100 0 ()) (f 1 1 (0))) (lib 100 1) (w 2) (log (s 1) (s 100) (b 1) (e 1) (b 100) (e 100) (l 1 100)) (delays 30 0) (mode touch))
; diamond with a slow root, three workers, module name = stem everywhere
(build (files (f 0 0 ()) (f 1 1 (0)) (f 2 2 (0)) (f 3 3 (1 2))) (lib 0 1 2 3) (w 3) (log (s 0) (b 0) (e 0) (s 2) (s 1) (b 2) (b 1) (e 2) (e 1) (s 3) (b 3) (e 3) (l 0 1 2 3)) (delays 30 5 5 0) (mode touch))
; taskless-first family (seed break-on-taskless-dependency): external module n52 listed before slow in-tree dependencies
(build (files (f 3 3 (1 0 2)) (f 2 2 (52 0 1)) (f 0 0 ()) (f 1 1 (0))) (lib 0 1 2 3) (w 4) (log (s 0) (b 0) (e 0) (s 1) (b 1) (e 1) (s 2) (b 2) (e 2) (s 3) (b 3) (e 3) (l 0 1 2 3)) (delays 0 50 40 40) (mode touch))
; incremental build (force=False): up-to-date n1 listed before the slow rebuilt n0
(build (files (f 2 2 (1 0)) (f 1 1 (0)) (f 0 0 ()) (f 4 4 (1)) (f 3 3 (1 2))) (lib 0 1 2 3 4) (w 2) (log (s 0) (b 0) (e 0) (s 2) (s 4) (b 2) (e 2) (s 3) (b 3) (e 3) (b 4) (e 4) (l 0 1 2 3 4)) (delays 30 0 30 0 0) (mode touch) (uptodate 1))
