; known finding stem-mismatch: n100.f90 defines module n0, n1.f90 uses it; n1 is compiled first (serial and parallel)
(build (files (f 100 0 ()) (f 1 1 (0))) (lib 100 1) (w 2) (log (s 1) (s 100) (b 1) (e 1) (b 100) (e 100) (l 1 100)) (delays 30 0) (mode touch))
; diamond with a slow root, three workers, module name = stem everywhere
(build (files (f 0 0 ()) (f 1 1 (0)) (f 2 2 (0)) (f 3 3 (1 2))) (lib 0 1 2 3) (w 3) (log (s 0) (b 0) (e 0) (s 2) (s 1) (b 2) (b 1) (e 2) (e 1) (s 3) (b 3) (e 3) (l 0 1 2 3)) (delays 30 5 5 0) (mode touch))
