; minimal witnesses of the proposed known-finding classes (each compiled with gcc/gfortran and run), see notes/C35.md
(prog (program kernel (unit kernel (x1 k1) ((decl x1 real in () none) (decl k1 int out () none)) ((assign (v k1) (call int (v x1)))))) ((x1 (r 5 2))))
(prog (program kernel (unit kernel (k1) ((decl k1 int inout () none)) ((assign (v k1) (bin mul (i 3) (call mod (v k1) (i 5))))))) ((k1 (i -2))))
(prog (program kernel (unit kernel (a1 b1) ((decl a1 int in (((i 1) (i 3))) none) (decl b1 real inout (((i 1) (i 3))) none)) ((assign (idx b1 (idx a1 (i 1))) (r 1 1))))) ((a1 (i 2) (i 1) (i 3)) (b1 (r 0 1) (r 0 1) (r 0 1))))
(prog (program kernel (unit kernel (k1) ((decl k1 int inout () none)) ((assign (v k1) (bin mul (bin div (call abs (v k1)) (i 2)) (i 2)))))) ((k1 (i 7))))
(prog (program kernel (unit kernel (k1 a1) ((decl k1 int in () none) (decl a1 int inout (((i 1) (i 3))) none)) ((assign (idx a1 (call min (v k1) (i 3))) (i 0))))) ((k1 (i 2)) (a1 (i 1) (i 2) (i 3))))
(abi)
(prog (program kernel (unit kernel (k1 k2) ((decl k1 int inout () none) (decl k2 int inout () none) (decl i1 int none () none)) ((do i1 (i 1) (v k1) none ((assign (v k1) (bin sub (v k1) (i 1))) (assign (v k2) (bin add (v k2) (i 1)))))))) ((k1 (i 4)) (k2 (i 0))))
