; empty-dimensions-array: Variable(name='x', type=INTEGER, dimensions=()); second line: the (repaired) route through Array.rescope, regression
(hist (tdefs) (ops (create ("x") none (ty integer none 0) none 0)))
(hist (tdefs) (ops (newscope none) (settype 0 "x" (ty integer none 0)) (create ("x") none (ty real 1 0) none none) (rescope 0 0)))
; qualified-name-without-parent: Variable(name='q%a', scope=s) is named 'a' and overwrites the entry of 'a'
(hist (tdefs ("tt" ("a" (ty integer none 0)))) (ops (newscope none) (settype 0 "q" (ty (derived "tt" 0) none 0)) (settype 0 "a" (ty real none 0)) (create ("a") 0 none none none) (create ("q" "a") 0 none none none)))
; member-lookup-rewrites-siblings: creating p%b resets the entry of p%a to the type definition
(hist (tdefs ("tt" ("a" (ty integer none 0)) ("b" (ty real none 0)))) (ops (newscope none) (settype 0 "p" (ty (derived "tt" 0) none 0)) (create ("p") 0 none none none) (create ("p" "a") 0 (ty logical none 0) 0 none) (create ("p" "b") 0 none 0 none)))
; deferred-entry-on-member: a DEFERRED entry for p%a is not what the member reports
(hist (tdefs ("tt" ("a" (ty integer none 0)))) (ops (newscope none) (settype 0 "p" (ty (derived "tt" 0) none 0)) (create ("p") 0 none none none) (create ("p" "a") 0 none 0 none) (settype 0 "p%a" (ty deferred none 0))))
; (repaired, regression) deferred-member-recursion: member of DEFERRED type, attached parent
(hist (tdefs ("tt" ("d" (ty deferred none 0)))) (ops (newscope none) (settype 0 "p" (ty (derived "tt" 0) none 0)) (create ("p") 0 none none none) (create ("p" "d") 0 none 0 none)))
; sharing through two levels of nesting, mixed case
(hist (tdefs) (ops (newscope none) (newscope 0) (newscope 1) (settype 0 "X" (ty integer none 1)) (resolve 2 "x") (settype 0 "x" (ty real 2 2)) (settype 1 "x" (ty logical none 3)) (resolve 2 "X")))
; clone / rescope of the documentation example
(hist (tdefs) (ops (newscope none) (create ("foo") 0 (ty integer none 0) none none) (create ("foo") none (ty real none 0) none none) (rescope 1 0) (clone 1 keep 0 keep keep) (clone 0 keep none (ty logical none 0) keep) (clone 5 keep 0 none keep)))
; stale DEFERRED entry under the qualified member name (as left by a reference made before the parent was declared), parent declared later with a typedef, member re-created by name: class must follow the type definition (seed C13-member-deferred-entry-not-refreshed)
(hist (tdefs ("my_type" ("n" (ty integer none 0)) ("vals" (ty real 1 0)))) (ops (newscope none) (settype 0 "item" (ty deferred none 0)) (settype 0 "item%vals" (ty deferred none 0)) (settype 0 "item%n" (ty deferred none 0)) (settype 0 "item" (ty (derived "my_type" 0) none 0)) (create ("item") 0 none none none) (create ("item" "vals") 0 none 0 none) (create ("ITEM" "N") 0 none 0 none)))
; the same with the stale entry in the enclosing scope
(hist (tdefs ("my_type" ("n" (ty integer none 0)) ("vals" (ty real 1 0)))) (ops (newscope none) (newscope 0) (settype 0 "item%vals" (ty deferred none 0)) (settype 1 "item" (ty (derived "my_type" 0) none 0)) (create ("item") 1 none none none) (create ("item" "vals") 1 none 0 none)))
