; leading blank lines / inline-if / continuation
(file (lines "" "" "subroutine s(x)" "  real :: x" "  x = 1" "end subroutine s"))
(file (lines "subroutine s(x)" "  real :: x" "  if (x > 0) call t(x)" "end subroutine s"))
(reader (lines "" "subroutine s(x) ! c" "  real :: x" "  x = 1 + &" "  ! c" "" "   & 2 ; x = 3" "end subroutine s"))
