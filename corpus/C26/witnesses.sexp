; minimal witnesses of the known-finding classes of C26 (one request per line; see notes/C26.md)
; loop-variable-not-defined
(dfa false (program kernel (unit kernel (y) ((decl y int inout () none) (decl i1 int none () none)) ((do i1 (i 1) (i 2) none ((assign (v y) (v i1))))))) (((y (i 0)))))
; call-no-intent
(dfa true (program kernel (unit kernel (x y) ((decl x int inout () none) (decl y int inout () none)) ((callsub sub1 (v x) (v y)))) (unit sub1 (u v) ((decl u int none () none) (decl v int none () none)) ((assign (v v) (bin add (v u) (i 1)))))) (((x (i 3)) (y (i 0)))))
; call-subscript-actual
(dfa true (program kernel (unit kernel (a k) ((decl a int inout (((i 1) (i 3))) none) (decl k int inout () none)) ((callsub sub1 (idx a (v k)) (v k)))) (unit sub1 (e j) ((decl e int inout () none) (decl j int inout () none)) ((assign (v e) (i 1)) (assign (v j) (bin add (v j) (i 1)))))) (((a (i 0) (i 0) (i 0)) (k (i 2)))))
; print-reads
(dfa false (program kernel (unit kernel (x) ((decl x int inout () none)) ((print (v x))))) (((x (i 3)))))
; assoc-selector-reads
(dfa false (program kernel (unit kernel (a k) ((decl a int inout (((i 1) (i 3))) none) (decl k int in () none)) ((assoc ((z1 (idx a (v k)))) ((assign (v z1) (i 1))))))) (((a (i 0) (i 0) (i 0)) (k (i 2)))))
; loop-variable-in-bounds
(dfa false (program kernel (unit kernel (y) ((decl y int inout () none) (decl i1 int none () none)) ((assign (v i1) (i 1)) (do i1 (v i1) (i 3) none ((assign (v y) (v i1))))))) (((y (i 0)))))
; may-kill
(dfa false (program kernel (unit kernel (n y) ((decl n int in () none) (decl y int inout (((i 1) (v n))) none) (decl x int none () none) (decl i1 int none () none)) ((assign (v x) (i 5)) (do i1 (i 1) (v n) none ((if (bin eq (v i1) (i 2)) ((assign (v x) (i 0))) ()) (assign (idx y (v i1)) (v x)) (assign (v x) (bin add (v x) (i 1)))))))) (((n (i 3)) (y (i 0) (i 0) (i 0)))))
; live-loop-back-edge
(dfa false (program kernel (unit kernel (y) ((decl y int out () none) (decl x int none () none) (decl i1 int none () none)) ((do i1 (i 1) (i 2) none ((assign (v y) (i 1)) (assign (v x) (i 2))))))) (()))
; live-no-intent-dummy
(dfa false (program kernel (unit kernel (x y) ((decl x int none () none) (decl y int out () none)) ((assign (v y) (v x))))) (((x (i 3)))))
; assoc-expr-selector-crash
(dfa false (program kernel (unit kernel (a x y) ((decl a int inout (((i 1) (i 3))) none) (decl x int in () none) (decl y int out () none)) ((assoc ((z1 (idx a (i 1)))) ((assoc ((z2 (bin add (v x) (i 1)))) ((assign (v y) (bin add (v z2) (v z1)))))))))) (((a (i 0) (i 0) (i 0)) (x (i 2)))))
