; former finding parallel-output-lost (fixed by f81ec3c): lint_files(max_workers=2) in a stand-alone process left an empty violations file
(lint (files (f 0 ok (1)) (f 3 ok (0 1))) (nh 3) (w 2) (orders (0 3) (0 3) (0 3)) (delays 0 0))
; unparsable file in the middle, reverse-staggered delays
(lint (files (f 1 ok (0 1)) (f 4 bad ()) (f 5 ok (1 1 0))) (nh 3) (w 3) (orders (4 5 1) (4 5 1) (4 5 1)) (delays 24 16 8))
; session: one linter/reporter, a serial call then a two-worker call, then output (seed init-parallel-drops-earlier-reports)
(session (nh 3) (call (files (f 7 ok (1)) (f 9 bad ())) (w 1) (orders (7 9) (7 9) (7 9)) (delays 0 0)) (call (files (f 0 ok (0 1)) (f 1 ok (1)) (f 2 ok (0))) (w 2) (orders (0 1 2) (0 1 2) (0 2 1)) (delays 20 0 0)))
