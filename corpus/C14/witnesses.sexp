; known-finding witnesses (one per class; the MultiConditional one is fixed by 9d0861d and now keeps the empty body in place)
(visit plain false false node (((assign 1) none)) (assoc 1 ((assign 1) (assign 2))))
(visit plain false false node (((assign 1) none)) (mcond 0 ((assign 1)) ((assign 2)) ((assign 3))))
(visit plain false false tuple (((assign 1) (tuple (loop 2 ((assign 1))) (assign 1)))) ((assign 1)))
(visit nested false false tuple (((assign 1) (node (assign 2)))) ((assign 1)))
; spliced key that precedes its splicer in the dict -> AttributeError; the other order works
(visit plain false false tuple (((assign 2) (tuple (assign 4))) ((assign 1) (tuple (assign 2) (assign 3)))) ((assign 1) (assign 3)))
(visit plain false false tuple (((assign 1) (tuple (assign 2) (assign 3))) ((assign 2) (tuple (assign 4)))) ((assign 1) (assign 3)))
; spliced node is visited again and loses a statement
(visit plain false false tuple (((assign 1) (tuple (loop 0 ((assign 2))) (assign 1))) ((assign 2) none)) ((assign 1)))
; root node mapped one-to-many
(visit plain false false node (((sect 0 ((assign 1))) (tuple (assign 1)))) (sect 0 ((assign 1))))
(visit plain false false node (((sect 0 ((assign 1))) (tuple (comment 1) (sect 0 ((assign 1)))))) (sect 0 ((assign 1))))
; the insert-before idiom, three value-equal occurrences of the key in one tuple, with and without inplace
(visit plain false true tuple (((loop 1 ((assign 1))) (tuple (comment 7) (loop 1 ((assign 1))))) ((assign 1) (node (assign 5)))) ((loop 1 ((assign 1))) (assign 2) (loop 1 ((assign 1))) (loop 1 ((assign 1)))))
(visit plain true false tuple (((comment 3) (tuple (comment 7) (comment 3))) ((assign 1) (node (assign 5)))) ((loop 1 ((assign 1) (comment 3))) (assign 2)))
; rebuild_scopes keeps the original Associate intact
(visit plain false true node (((assign 1) none)) (sect 0 ((assoc 1 ((assign 1) (assign 2))) (assign 3))))
; NestedTransformer usage pattern: same node with another non-traversable attribute; children still transformed
(visit nested false true tuple (((sect 1 ((assign 1) (comment 2))) (node (sect 9 ((assign 1) (comment 2))))) ((comment 2) none)) ((sect 1 ((assign 1) (comment 2))) (comment 2)))
