#!/venv/bin/python
"""merge the proposed known-finding entries of a builder (.work/kf_<ID>.json) into known_findings.json (by hand, at integration time)"""
import json, sys
from pathlib import Path
V = Path(__file__).resolve().parent.parent
pid = sys.argv[1]
src = json.loads((V / '.work' / f'kf_{pid}.json').read_text())
src = src['findings'] if isinstance(src, dict) else src
kf = json.loads((V / 'known_findings.json').read_text())
have = {(f['property'], f['class']) for f in kf['findings']}
n = 0
for f in src:
    if f['property'] == pid and (f['property'], f['class']) not in have:
        kf['findings'].append(f); n += 1
(V / 'known_findings.json').write_text(json.dumps(kf, indent=1) + '\n')
print(f'merged {n} entries for {pid}')
