#!/bin/bash
# tools/try_all_seeds.sh [jobs]: re-run every archived seeded change against the current /repo HEAD (properties in parallel, the seeds of
# one property one after the other); prints one line per seed; restores the generated tables at the end.
jobs=${1:-8}; out=/verif/.work/all_seeds.txt; : > $out
runp() { id=$1; for d in /verif/seeded/$id-*; do NO_TABLES=1 /verif/tools/try_seed.sh $id $d 2>&1 | grep '^SEED' >> /verif/.work/all_seeds.txt; done; }
export -f runp
tr ' ' '\n' < /verif/tools/claimed.txt | grep . | xargs -P $jobs -I{} bash -c 'runp {}'
cd /verif && ./check tables >/dev/null 2>&1
sort $out
