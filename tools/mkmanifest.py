#!/venv/bin/python
"""Regenerate /verif/MANIFEST.json from the property modules under harness/props/ (run by hand after adding a
property; MANIFEST.json is committed).  A property is claimed iff its module exists and sets READY = True."""
import importlib
import json
import sys
from pathlib import Path

VERIF = Path(__file__).resolve().parent.parent
sys.path.insert(0, str(VERIF))

NOT_BUILT = 'model, theorems and correspondence not built yet (DESIGN.md section 6 build order); not decided by any other technique'


def main():
    props = [json.loads(l) for l in (VERIF / 'properties.jsonl').read_text().splitlines() if l.strip()]
    checks, na = [], []
    # integrated (reviewed, run on the clean tree for several seeds) properties only; maintained by hand
    claimed = set((VERIF / 'tools' / 'claimed.txt').read_text().split())
    reasons = json.loads((VERIF / 'tools' / 'not_applicable.json').read_text()) if (VERIF / 'tools' / 'not_applicable.json').exists() else {}
    for p in props:
        pid = p['id']
        f = VERIF / 'harness' / 'props' / f'{pid.lower()}.py'
        prop = None
        if f.exists() and pid in claimed:
            mod = importlib.import_module(f'harness.props.{pid.lower()}')
            if getattr(mod, 'READY', False):
                prop = mod.PROP
        if prop is None:
            na.append(dict(property_id=pid, reason=reasons.get(pid, NOT_BUILT)))
            continue
        checks.append(dict(
            property_id=pid,
            quick_cmd=f'./check {pid} --tier quick',
            thorough_cmd=f'./check {pid} --tier thorough',
            evidence_file=f'evidence/{pid}.json',
            replay_cmd_template=f'./check {pid} --replay {{path}}',
            engine='lean4-model-correspondence',
            level_claimed=dict(category=prop.level, text=prop.level_text, design_ref=prop.design_ref),
            level_note=prop.level_note,
            technique=prop.technique,
        ))
    man = dict(
        version=1,
        setup_cmd='./setup.sh',
        hooks=dict(guard='LOKI_VERIF', enable='no hooks are needed: the harness drives the real code in-process from outside /repo (LOKI_VERIF=1 is reserved, unused)',
                   baseline_off_cmd='cd /repo && /venv/bin/python -m pytest -ra -q -p no:cacheprovider --timeout=900 --continue-on-collection-errors',
                   source_commits=[], add_only=True),
        engines=[dict(name='lean4-model-correspondence', path='check',
                      serves_properties=[c['property_id'] for c in checks],
                      kind_free_text='Lean 4.33 theorems about hand-written executable models (lean/LokiModel), tables regenerated from /repo, '
                                     'correspondence check real Loki vs Lean driver over a line protocol, direct oracle on the real code, '
                                     'known-findings file; see DESIGN.md')],
        checks=checks,
        notes='Each check: regenerate tables from /repo -> lake build model+theorems -> audit axioms -> corpus+generated inputs through the '
              'real code and the Lean driver -> diff -> direct oracle -> verdict. Exit 2 = the check itself is broken. '
              'known_findings.json lists open findings (KNOWN-FINDING lines) and fixed ones (fix: commits in /repo).',
        not_applicable=na,
    )
    (VERIF / 'MANIFEST.json').write_text(json.dumps(man, indent=1) + '\n')
    print(f'{len(checks)} checks claimed, {len(na)} not claimed')


if __name__ == '__main__':
    main()
