#!/bin/bash
# tools/try_seed.sh <PROP_ID> <dir with patch.diff demo.py meta.json> [tier]
# Applies the seeded change in a scratch worktree of /repo HEAD, confirms the demonstration (fails with, passes without),
# runs the property's check against the worktree, prints a one-line verdict, removes the worktree.
id=$1; dir=$(realpath "$2"); tier=${3:-quick}
wt=/tmp/try_${id}_$$; out=/tmp/tryout_${id}_$$
git -C /repo worktree add -q "$wt" HEAD || exit 2
cd "$wt"
( PYTHONPATH=$wt /venv/bin/python "$dir/demo.py" >/dev/null 2>&1 ); clean_rc=$?
if ! git apply "$dir/patch.diff" 2>/tmp/try_apply_err_$$; then echo "SEED $id $dir: patch does not apply: $(head -c 300 /tmp/try_apply_err_$$)"; git -C /repo worktree remove --force "$wt"; exit 2; fi
( PYTHONPATH=$wt /venv/bin/python "$dir/demo.py" >/dev/null 2>&1 ); mut_rc=$?
cd /verif
PYTHONPATH=$wt LOKI_REPO=$wt VERIF_OUT=$out ./check "$id" --tier "$tier" > "$out.log" 2>&1; rc=$?
viol=$(grep -m1 '^VIOLATION' "$out.log")
echo "SEED $id $(basename $(dirname $dir))/$(basename $dir) tier=$tier demo(clean)=$clean_rc demo(patched)=$mut_rc check_rc=$rc $viol"
grep -m2 "violation:" "$out.log" | cut -c1-300
cp "$out.log" /verif/.work/lasttry_${id}.log 2>/dev/null; git -C /repo worktree remove --force "$wt"; rm -rf "$out" "$out.log"
# restore generated tables for the real tree
[ -n "$NO_TABLES" ] || ./check tables >/dev/null 2>&1
exit 0
