#!/bin/bash
# tools/run_all.sh <seed> [tier] [jobs] (REAL=1 writes evidence/ and replays/ in /verif instead of a scratch directory): run every claimed check against /repo with VERIF_SEED=<seed>, results to .work/all_<seed>_<tier>.txt
seed=${1:-0}; tier=${2:-quick}; jobs=${3:-6}
out=/verif/.work/all_${seed}_${tier}.txt; : > $out
run1() { id=$1; t0=$(date +%s); if [ -n "$REAL" ]; then VERIF_SEED=$seed /verif/check $id --tier $tier > /tmp/all_${seed}_${tier}_$id.log 2>&1; rc=$?; else VERIF_SEED=$seed VERIF_OUT=/tmp/all_out_${seed}_$tier/$id /verif/check $id --tier $tier > /tmp/all_${seed}_${tier}_$id.log 2>&1; rc=$?; fi
  echo "$id rc=$rc t=$(( $(date +%s)-t0 ))s known=$(grep -c '^KNOWN' /tmp/all_${seed}_${tier}_$id.log) $(grep -m1 '^VIOLATION' /tmp/all_${seed}_${tier}_$id.log)" >> $out; }
export -f run1; export seed tier out REAL
tr ' ' '\n' < /verif/tools/claimed.txt | grep . | xargs -P $jobs -I{} bash -c 'run1 {}'
sort $out
