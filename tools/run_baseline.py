#!/venv/bin/python
"""Run (part of) Loki's test suite and compare with the pinned baseline: prints every test of BASELINE.json's stable_pass set
(restricted to the modules that were run) that did not pass.  Usage: tools/run_baseline.py [pytest paths…]   (default: whole repo)
Exit 0 iff no stable test regressed."""
import json, subprocess, sys, tempfile, os, re
import xml.etree.ElementTree as ET
repo = os.environ.get('LOKI_REPO', '/repo')
paths = sys.argv[1:] or ['.']
with tempfile.TemporaryDirectory() as d:
    xml = os.path.join(d, 'r.xml')
    cmd = ['/venv/bin/python', '-m', 'pytest', '-q', '-p', 'no:cacheprovider', '--timeout=900', '-n', os.environ.get('PYTEST_N', '12'),
           '--continue-on-collection-errors', f'--junitxml={xml}'] + paths
    env = dict(os.environ)
    if repo != '/repo':
        env['PYTHONPATH'] = repo
    p = subprocess.run(cmd, cwd=repo, stdout=subprocess.PIPE, stderr=subprocess.STDOUT, text=True, env=env)
    tail = p.stdout.strip().splitlines()[-1:] 
    root = ET.parse(xml).getroot()
    passed, seen_mods = set(), set()
    for tc in root.iter('testcase'):
        key = f"{tc.get('classname')}::{tc.get('name')}"
        seen_mods.add(tc.get('classname'))
        if not any(c.tag in ('failure', 'error', 'skipped') for c in tc):
            passed.add(key)
stable = set(json.load(open('/root/.vp/BASELINE.json'))['stable_pass'])
relevant = {t for t in stable if t.split('::')[0] in seen_mods}
lost = sorted(relevant - passed)
print('pytest:', *tail)
print(f'stable tests in the modules run: {len(relevant)}; passing now: {len(relevant & passed)}; regressed: {len(lost)}')
for t in lost[:40]:
    print('  REGRESSED', t)
sys.exit(1 if lost else 0)
